/-
Hand-written model of `panqec/codes/surface_3d/_planar_3d_code.py` (class `Planar3DCode`) as
functions of the lattice size: same loops, same index order, no wrap-around
(`tuple(np.add(location, d))`), `is_qubit` filtering at the boundaries, Python dict = association
list with overwrite (`Op.insert`).  Supported family (DESIGN.md section 4): `1 ≤ Lx, Ly, Lz`.
No Mathlib.
-/
import PanqecVerif.Model.Lattices.Cubic3D

namespace Panqec.Planar3DCode
open Panqec.Cubic3D

/-- `get_qubit_coordinates`: x edges, then y edges, then z edges -/
def qubits (Lx Ly Lz : Nat) : List Coord :=
  grid (range2 1 (2 * Lx + 1)) (range2 0 (2 * Ly)) (range2 0 (2 * Lz)) ++
  grid (range2 2 (2 * Lx)) (range2 1 (2 * Ly - 1)) (range2 0 (2 * Lz)) ++
  grid (range2 2 (2 * Lx)) (range2 0 (2 * Ly)) (range2 1 (2 * Lz - 1))

/-- `get_stabilizer_coordinates`: vertices, xy faces, yz faces, xz faces -/
def stabs (Lx Ly Lz : Nat) : List Coord :=
  grid (range2 2 (2 * Lx)) (range2 0 (2 * Ly)) (range2 0 (2 * Lz)) ++
  grid (range2 1 (2 * Lx + 1)) (range2 1 (2 * Ly - 1)) (range2 0 (2 * Lz)) ++
  grid (range2 2 (2 * Lx)) (range2 1 (2 * Ly - 1)) (range2 1 (2 * Lz - 1)) ++
  grid (range2 1 (2 * Lx + 1)) (range2 0 (2 * Ly)) (range2 1 (2 * Lz - 1))

/-- `stabilizer_type`; `none` = `ValueError` (not a stabilizer location) -/
def stabilizerType (Lx Ly Lz : Nat) (loc : Coord) : Option StabType :=
  if (stabs Lx Ly Lz).contains loc then
    match loc with
    | [x, y, _] => some (typeOf x y)
    | _ => none
  else none

/-- the vertex offsets in the order of this class (`+` before `-` on each axis) -/
def vertexDelta : List (Int × Int × Int) :=
  [(1, 0, 0), (-1, 0, 0), (0, 1, 0), (0, -1, 0), (0, 0, 1), (0, 0, -1)]

/-- the locations `tuple(np.add(location, d))` in the order of `delta` -/
def candidates (x y z : Int) (delta : List (Int × Int × Int)) : List Coord :=
  delta.map fun d => [x + d.1, y + d.2.1, z + d.2.2]

/-- `get_stabilizer`; `none` = `ValueError` (not a stabilizer location) -/
def getStab? (Lx Ly Lz : Nat) (loc : Coord) : Option Op :=
  if (stabs Lx Ly Lz).contains loc then
    match loc with
    | [x, y, z] =>
      let t := typeOf x y
      let pauli := if t = .vertex then Pauli.Z else Pauli.X
      let delta := if t = .vertex then vertexDelta else faceDelta x y z
      some (collect (qubits Lx Ly Lz) pauli (candidates x y z delta))
    | _ => none
  else none

/-- `get_stabilizer` with the error case mapped to the empty operator (the `Lattice` interface) -/
def getStab (Lx Ly Lz : Nat) (loc : Coord) : Op := (getStab? Lx Ly Lz loc).getD []

/-- `get_logicals_x`: the string of X on the x edges with `y = z = 0` (distinct keys: appends) -/
def logX (Lx _Ly _Lz : Nat) : List Op :=
  [ (range2 1 (2 * Lx + 1)).map fun x => ([x, 0, 0], Pauli.X) ]

/-- `get_logicals_z`: the plane of Z on the x edges with `x = 1` (loop nest `y, z`) -/
def logZ (_Lx Ly Lz : Nat) : List Op :=
  [ (range2 0 (2 * Ly)).flatMap fun y => (range2 0 (2 * Lz)).map fun z => ([1, y, z], Pauli.Z) ]

/-- `qubit_axis` -/
def qubitAxis (loc : Coord) : Option Axis := Cubic3D.qubitAxis loc

/-- `get_deformation(location, name, deformation_axis='z')` -/
def getDeformation (name : String) (axis : Option String) (loc : Coord) : Option PauliMap :=
  Cubic3D.getDeformation "z" name axis loc

/-- an explicit family of `n − k` stabilizer locations whose operators are GF(2)-independent (proved for
    every size `≥ 1` in `Proofs/LatPlanar3DCodeRank.lean`): vertices, xy faces with `z = 0`, yz faces,
    xz faces — a sub-list of `stabs` -/
def rankFamily (Lx Ly Lz : Nat) : List Coord :=
  grid (range2 2 (2 * (Lx : Int))) (range2 0 (2 * (Ly : Int))) (range2 0 (2 * (Lz : Int))) ++
  grid (range2 1 (2 * (Lx : Int) + 1)) (range2 1 (2 * (Ly : Int) - 1)) [0] ++
  grid (range2 2 (2 * (Lx : Int))) (range2 1 (2 * (Ly : Int) - 1)) (range2 1 (2 * (Lz : Int) - 1)) ++
  grid (range2 1 (2 * (Lx : Int) + 1)) (range2 0 (2 * (Ly : Int))) (range2 1 (2 * (Lz : Int) - 1))

def lattice (Lx Ly Lz : Nat) : Lattice :=
  { qubits := qubits Lx Ly Lz, stabs := stabs Lx Ly Lz, getStab := getStab Lx Ly Lz,
    logX := logX Lx Ly Lz, logZ := logZ Lx Ly Lz }

end Panqec.Planar3DCode
