/-
Hand-written model of `panqec/codes/color_3d/_color_3d_code.py` (`Color3DCode`, the 3-D colour
code on the periodic tessellation by truncated octahedra) as a function of the lattice size
`(Lx, Ly, Lz)`: the nine loop nests of `get_stabilizer_coordinates` in the same order (`z` outermost,
then `x`, then `y`; the ranges `range(4, 4*L+1, 4)` / `range(1, 4*L+2, 2)` list the seam planes
`4L` and `4L+1`, so every hexagon of the plane `x = 1` is listed again at `x = 4Lx+1`),
`stabilizer_type` (hexagon for odd `x`, cell when the three residues modulo 4 agree, square
otherwise; the colour table `{6, 2, 4, 0}` keyed by `(x+y+z) % 8`), the delta tables of
`get_stabilizer` (24 vertices of a cell in the order `numpy` builds them, three kinds of squares,
four kinds of hexagons), wrap-around `% (4*L)` (Python's `%` is `Int.emod`), dict assignment =
`Op.insert`, qubit list DERIVED from the stabilizers (`Color.derivedQubits`, first-occurrence order),
the nine membrane `get_logicals_z` (three of them unions of hexagon supports selected through
`is_stabilizer` / `stabilizer_type == 'cell-red'`) and the nine string `get_logicals_x` (keys written
without wrap-around).  The class defines no `get_deformation`: the inherited method RETURNS a
`NotImplementedError` instance.  A side `L = 0` makes the class divide by zero wherever a loop body
is reached; such sizes are not modelled.  Supported family (DESIGN.md section 4): all `L_i` even, `≥ 2`.

`ValueError` is `none` (`getStabilizer?`, `stabilizerType`, `qubitAxis`); the `Lattice` record uses
`[]` for it (`getStab`).  No Mathlib.
-/
import PanqecVerif.Model.Lattices.ColorBase

namespace Panqec.Color3DCode
open Panqec.Lat2D Panqec.Color

/-- `for z in zs: for x in xs: for y in ys: coordinates.append((x, y, z))` -/
def grid3 (zs xs ys : List Int) : List Coord :=
  zs.flatMap fun z => xs.flatMap fun x => ys.map fun y => [x, y, z]

/-- `range(2, 4*L, 4)` -/
def rA (L : Nat) : List Int := pyRangeStep 2 (4 * (L : Int)) 4
/-- `range(4, 4*L+1, 4)` -/
def rB (L : Nat) : List Int := pyRangeStep 4 (4 * (L : Int) + 1) 4
/-- `range(0, 4*L, 4)` -/
def rC (L : Nat) : List Int := pyRangeStep 0 (4 * (L : Int)) 4
/-- `range(2, 4*L+1, 4)` -/
def rD (L : Nat) : List Int := pyRangeStep 2 (4 * (L : Int) + 1) 4
/-- `range(1, 4*L+2, 2)` -/
def rH (L : Nat) : List Int := pyRangeStep 1 (4 * (L : Int) + 2) 2

/-- `get_stabilizer_coordinates`: yellow/red cells, blue/green cells, yellow/red squares orthogonal
    to z, x, y, blue/green squares orthogonal to z, x, y, hexagons -/
def stabs (Lx Ly Lz : Nat) : List Coord :=
  grid3 (rA Lz) (rA Lx) (rA Ly) ++
  grid3 (rB Lz) (rB Lx) (rB Ly) ++
  grid3 (rC Lz) (rA Lx) (rA Ly) ++
  grid3 (rA Lz) (rC Lx) (rA Ly) ++
  grid3 (rA Lz) (rA Lx) (rC Ly) ++
  grid3 (rD Lz) (rB Lx) (rB Ly) ++
  grid3 (rB Lz) (rD Lx) (rB Ly) ++
  grid3 (rB Lz) (rB Lx) (rD Ly) ++
  grid3 (rH Lz) (rH Lx) (rH Ly)

/-- the cell locations of `get_stabilizer_coordinates` (the first two loop nests) -/
def cellLocs (Lx Ly Lz : Nat) : List Coord :=
  grid3 (rA Lz) (rA Lx) (rA Ly) ++ grid3 (rB Lz) (rB Lx) (rB Ly)

/-- the Z-type part of a rank family (`Properties/C01Color3DCode.lean`, `z_generators_independent`):
    every cell except a red, a yellow and a green one around the qubit `(6, 3, 4)` — the products of
    all cells of one colour agree, which makes three cells redundant -/
def selCells (Lx Ly Lz : Nat) : List Coord :=
  (((cellLocs Lx Ly Lz).filter (· != [6, 2, 2])).filter (· != [6, 2, 6])).filter (· != [4, 4, 4])

/-- `is_stabilizer` (without `stab_type`): `location in self.stabilizer_index` -/
def isStabilizer (Lx Ly Lz : Nat) (loc : Coord) : Bool := isIn (stabs Lx Ly Lz) loc

inductive StabType
  | hex | square | yellow | red | green | blue
  /-- `cell_color[...]` on a missing key (unreachable: the key is even) -/
  | keyError
  deriving DecidableEq, Repr

def StabType.toString : StabType → String
  | .hex => "face-hex" | .square => "face-square" | .yellow => "cell-yellow" | .red => "cell-red"
  | .green => "cell-green" | .blue => "cell-blue" | .keyError => "EXC:KeyError"

/-- `'cell' in stab_type` -/
def StabType.isCell : StabType → Bool
  | .yellow | .red | .green | .blue => true
  | _ => false

/-- the table `cell_color = {6: yellow, 2: red, 4: green, 0: blue}` -/
def cellColor (r : Int) : StabType :=
  if r = 6 then .yellow else if r = 2 then .red else if r = 4 then .green
  else if r = 0 then .blue else .keyError

/-- the body of `stabilizer_type` after the `is_stabilizer` guard -/
def typeOf (x y z : Int) : StabType :=
  if x % 2 = 1 then .hex
  else if x % 4 = z % 4 ∧ y % 4 = z % 4 then cellColor ((x + y + z) % 8)
  else .square

/-- `stabilizer_type` given the cached stabilizer index; `none` = ValueError -/
def stabilizerTypeIn (ss : List Coord) (loc : Coord) : Option StabType :=
  if !isIn ss loc then none
  else match loc with
    | [x, y, z] => some (typeOf x y z)
    | _ => none

/-- `stabilizer_type`; `none` = ValueError -/
def stabilizerType (Lx Ly Lz : Nat) (loc : Coord) : Option StabType :=
  stabilizerTypeIn (stabs Lx Ly Lz) loc

/-- the 24 vertices of a cell: all permutations of `(0, ±1, ±2)`, in the order of
    `np.vstack([np.insert(permutations, i, 0, axis=1) for i in 0, 1, 2])` with
    `permutations = vstack([signs*[1,2], signs*[2,1]])`, `signs = product([-1,1],[-1,1])` -/
def deltaCell : List (Int × Int × Int) :=
  [(0, -1, -2), (0, -1, 2), (0, 1, -2), (0, 1, 2), (0, -2, -1), (0, -2, 1), (0, 2, -1), (0, 2, 1),
   (-1, 0, -2), (-1, 0, 2), (1, 0, -2), (1, 0, 2), (-2, 0, -1), (-2, 0, 1), (2, 0, -1), (2, 0, 1),
   (-1, -2, 0), (-1, 2, 0), (1, -2, 0), (1, 2, 0), (-2, -1, 0), (-2, 1, 0), (2, -1, 0), (2, 1, 0)]

/-- the delta table of a square -/
def deltaSquare (x y z : Int) : List (Int × Int × Int) :=
  if x % 4 = z % 4 then [(0, 0, -1), (0, 0, 1), (-1, 0, 0), (1, 0, 0)]
  else if y % 4 = z % 4 then [(0, 0, -1), (0, 0, 1), (0, -1, 0), (0, 1, 0)]
  else [(-1, 0, 0), (1, 0, 0), (0, -1, 0), (0, 1, 0)]

/-- the delta table of a hexagon -/
def deltaHex (x y z : Int) : List (Int × Int × Int) :=
  if x % 4 = z % 4 ∧ y % 4 = z % 4 then
    [(-1, 0, 1), (1, 0, -1), (0, -1, 1), (0, 1, -1), (-1, 1, 0), (1, -1, 0)]
  else if x % 4 ≠ z % 4 ∧ y % 4 = z % 4 then
    [(-1, 0, -1), (1, 0, 1), (0, -1, 1), (0, 1, -1), (-1, -1, 0), (1, 1, 0)]
  else if x % 4 = z % 4 ∧ y % 4 ≠ z % 4 then
    [(-1, 0, 1), (1, 0, -1), (0, -1, -1), (0, 1, 1), (-1, -1, 0), (1, 1, 0)]
  else
    [(-1, 0, -1), (1, 0, 1), (0, -1, -1), (0, 1, 1), (-1, 1, 0), (1, -1, 0)]

/-- the `delta` chosen by `get_stabilizer` (`KeyError` of the colour table: no delta) -/
def deltaOf (x y z : Int) : List (Int × Int × Int) :=
  match typeOf x y z with
  | .hex => deltaHex x y z
  | .square => deltaSquare x y z
  | .keyError => []
  | _ => deltaCell

/-- the `qubit_location` computed for each `d in delta`, in order -/
def candidates (Lx Ly Lz : Nat) (x y z : Int) : List Coord :=
  (deltaOf x y z).map fun d =>
    [(x + d.1) % (4 * (Lx : Int)), (y + d.2.1) % (4 * (Ly : Int)), (z + d.2.2) % (4 * (Lz : Int))]

/-- the letter: `Z` on cells, `X` on faces -/
def letterOf (x y z : Int) : Pauli := if (typeOf x y z).isCell then Pauli.Z else Pauli.X

/-- `get_stabilizer` given the cached `self.stabilizer_index` (`ss`); `none` = ValueError -/
def getStabilizerIn (ss : List Coord) (Lx Ly Lz : Nat) (loc : Coord) : Option Op :=
  if !isIn ss loc then none
  else match loc with
    | [x, y, z] => some (lineOp (candidates Lx Ly Lz x y z) (letterOf x y z))
    | _ => none

/-- `get_stabilizer`; `none` = ValueError -/
def getStabilizer? (Lx Ly Lz : Nat) (loc : Coord) : Option Op :=
  getStabilizerIn (stabs Lx Ly Lz) Lx Ly Lz loc

/-- `get_qubit_coordinates`: derived from the stabilizers -/
def qubits (Lx Ly Lz : Nat) : List Coord :=
  let ss := stabs Lx Ly Lz   -- (the stabilizer index is built once)
  derivedQubits ss fun s => (getStabilizerIn ss Lx Ly Lz s).getD []

/-- `is_qubit` : `location in self.qubit_index` -/
def isQubit (Lx Ly Lz : Nat) (q : Coord) : Bool := isIn (qubits Lx Ly Lz) q

/-- `qubit_axis`: `x, y, z = location; return 'x'` (`none` = the ValueError of the unpacking) -/
def qubitAxis (loc : Coord) : Option String :=
  match loc with
  | [_, _, _] => some "x"
  | _ => none

/-! ### `get_logicals_z` -/

/-- the square membrane in the plane `a = c` (`a` the axis `ax`): for `u in us: for v in vs:` the
    four keys `(u±1, v)`, `(u, v±1)` in the two other coordinates (wrapped), in source order.
    `mk c u v` places the coordinates. -/
def membraneKeys (mk : Int → Int → Coord) (mu mv : Nat) (us vs : List Int) : List Coord :=
  us.flatMap fun u => vs.flatMap fun v =>
    [mk ((u + 1) % (4 * (mu : Int))) v, mk ((u - 1) % (4 * (mu : Int))) v,
     mk u ((v + 1) % (4 * (mv : Int))), mk u ((v - 1) % (4 * (mv : Int)))]

/-- `is_stabilizer(c) and stabilizer_type(c) == 'cell-red'` -/
def isRedCell (ss : List Coord) (c : Coord) : Bool :=
  isIn ss c && (stabilizerTypeIn ss c == some StabType.red)

/-- the keys written by a hexagon membrane: for each `(u, v)` of the double loop whose hexagon `h u v`
    touches a red cell (`c1 u v` or `c2 u v`), all keys of `get_stabilizer(h u v)` -/
def hexMembraneKeys (ss : List Coord) (Lx Ly Lz : Nat) (us vs : List Int)
    (h c1 c2 : Int → Int → Coord) : List Coord :=
  us.flatMap fun u => vs.flatMap fun v =>
    if isRedCell ss (c1 u v) || isRedCell ss (c2 u v) then
      ((getStabilizerIn ss Lx Ly Lz (h u v)).getD []).map Prod.fst
    else []

/-- `get_logicals_z` -/
def logZ (Lx Ly Lz : Nat) : List Op :=
  let ss := stabs Lx Ly Lz
  let mx : Int := 4 * (Lx : Int)
  let my : Int := 4 * (Ly : Int)
  let mz : Int := 4 * (Lz : Int)
  [ -- yellow-red membrane, plane x = 0: loops y, z
    lineOp (membraneKeys (fun y z => [0, y, z]) Ly Lz (rA Ly) (rA Lz)) Pauli.Z,
    -- green-blue membrane, plane x = 2
    lineOp (membraneKeys (fun y z => [2, y, z]) Ly Lz (rC Ly) (rC Lz)) Pauli.Z,
    -- red-green membrane, hexagons of the plane x = 3: loops y, z
    lineOp (hexMembraneKeys ss Lx Ly Lz (rH Ly) (rH Lz) (fun y z => [3, y, z])
      (fun y z => [(3 - 1) % mx, (y - 1) % my, (z + 1) % mz])
      (fun y z => [(3 - 1) % mx, (y + 1) % my, (z - 1) % mz])) Pauli.Z,
    -- yellow-red membrane, plane y = 0: loops x, z
    lineOp (membraneKeys (fun x z => [x, 0, z]) Lx Lz (rA Lx) (rA Lz)) Pauli.Z,
    -- green-blue membrane, plane y = 2
    lineOp (membraneKeys (fun x z => [x, 2, z]) Lx Lz (rC Lx) (rC Lz)) Pauli.Z,
    -- red-green membrane, hexagons of the plane y = 3: loops x, z
    lineOp (hexMembraneKeys ss Lx Ly Lz (rH Lx) (rH Lz) (fun x z => [x, 3, z])
      (fun x z => [(x - 1) % mx, (3 - 1) % my, (z + 1) % mz])
      (fun x z => [(x + 1) % mx, (3 - 1) % my, (z - 1) % mz])) Pauli.Z,
    -- yellow-red membrane, plane z = 0: loops x, y
    lineOp (membraneKeys (fun x y => [x, y, 0]) Lx Ly (rA Lx) (rA Ly)) Pauli.Z,
    -- green-blue membrane, plane z = 2
    lineOp (membraneKeys (fun x y => [x, y, 2]) Lx Ly (rC Lx) (rC Ly)) Pauli.Z,
    -- red-green membrane, hexagons of the plane z = 3: loops x, y
    lineOp (hexMembraneKeys ss Lx Ly Lz (rH Lx) (rH Ly) (fun x y => [x, y, 3])
      (fun x y => [(x - 1) % mx, (y + 1) % my, (3 - 1) % mz])
      (fun x y => [(x + 1) % mx, (y - 1) % my, (3 - 1) % mz])) Pauli.Z ]

/-! ### `get_logicals_x` -/

/-- `for t in range(2, 4*L-2, 8): op[k(t-2, 1)]; op[k(t-1, 0)]; op[k(t+1, 0)]; op[k(t+2, 1)]` with
    the fixed coordinate 6 -/
def stringA (mk : Int → Int → Coord) (L : Nat) : List Coord :=
  (pyRangeStep 2 (4 * (L : Int) - 2) 8).flatMap fun t =>
    [mk (t - 2) 1, mk (t - 1) 0, mk (t + 1) 0, mk (t + 2) 1]

/-- `for t in range(4, 4*L-2, 8): op[k(t-2, 1)]; op[k(t-1, 2)]; op[k(t+1, 2)]; op[k(t+2, 1)]` -/
def stringB (mk : Int → Int → Coord) (L : Nat) : List Coord :=
  (pyRangeStep 4 (4 * (L : Int) - 2) 8).flatMap fun t =>
    [mk (t - 2) 1, mk (t - 1) 2, mk (t + 1) 2, mk (t + 2) 1]

/-- `for t in range(1, 4*L, 2): op[k(t)]` -/
def stringC (mk : Int → Coord) (L : Nat) : List Coord :=
  (pyRangeStep 1 (4 * (L : Int)) 2).map mk

/-- `get_logicals_x` (no wrap-around, no `is_qubit` test) -/
def logX (Lx Ly Lz : Nat) : List Op :=
  [ lineOp (stringA (fun x w => [x, 6, w]) Lx) Pauli.X,
    lineOp (stringB (fun x w => [x, 0, w]) Lx) Pauli.X,
    lineOp (stringC (fun x => [x, 2, 0]) Lx) Pauli.X,
    lineOp (stringA (fun y w => [6, y, w]) Ly) Pauli.X,
    lineOp (stringB (fun y w => [0, y, w]) Ly) Pauli.X,
    lineOp (stringC (fun y => [2, y, 0]) Ly) Pauli.X,
    lineOp (stringA (fun z w => [6, w, z]) Lz) Pauli.X,
    lineOp (stringB (fun z w => [0, w, z]) Lz) Pauli.X,
    lineOp (stringC (fun z => [2, 0, z]) Lz) Pauli.X ]

/-- `get_deformation(location, deformation_name, **kwargs)`: the class does not override the
    base-class method, which RETURNS a `NotImplementedError` instance whatever the arguments are
    (`deformation_names = []`) -/
def getDeformation (_name : String) (_loc : Coord) : DeformResult :=
  DeformResult.returnsNotImplementedError

def lattice (Lx Ly Lz : Nat) : Lattice where
  qubits := qubits Lx Ly Lz
  stabs := stabs Lx Ly Lz
  getStab := fun s => (getStabilizer? Lx Ly Lz s).getD []
  logX := logX Lx Ly Lz
  logZ := logZ Lx Ly Lz

end Panqec.Color3DCode
