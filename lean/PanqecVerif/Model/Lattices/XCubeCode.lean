/-
Hand-written all-sizes model of `panqec/codes/fractons/_xcube_code.py` (`XCubeCode`), as functions
of the lattice size `(Lx, Ly, Lz)`.

Transcription rules: nested `range` loops / `itertools.product` = `grid3` over `pyRange2` in the same
nesting order; the periodic wrap `(x + d) % (2*L)` = `pmod` (Python `%`, non-negative for a positive
modulus); `is_qubit` = membership in the qubit list; `operator[q] = pauli` = `Op.insert` (two deltas
hit the same qubit when a side is 1, then the dict keeps the first position).  A `ValueError` is
`none` (`Lattice.getStab` returns `[]` there, `getStab?` keeps the error).  `qubit_axis` of this class
tests parities only (no membership test), so it answers for out-of-range locations too.

Supported family (DESIGN.md section 4): all `L_i ≥ 2`.  No Mathlib.
-/
import PanqecVerif.Model.Lattices.Util3Db

namespace Panqec.XCubeCode
open Panqec.Lat3Db

def allTrue : Int → Int → Int → Bool := fun _ _ _ => true

/-- `get_qubit_coordinates` -/
def qubits (Lx Ly Lz : Nat) : List Coord :=
  -- Qubits along e_x
  grid3 (pyRange2 1 (2*Lx)) (pyRange2 0 (2*Ly)) (pyRange2 0 (2*Lz)) allTrue ++
  -- Qubits along e_y
  grid3 (pyRange2 0 (2*Lx)) (pyRange2 1 (2*Ly)) (pyRange2 0 (2*Lz)) allTrue ++
  -- Qubits along e_z
  grid3 (pyRange2 0 (2*Lx)) (pyRange2 0 (2*Ly)) (pyRange2 1 (2*Lz)) allTrue

/-- `get_stabilizer_coordinates`: cubes `(x, y, z)`, then faces `(axis, x, y, z)` -/
def stabs (Lx Ly Lz : Nat) : List Coord :=
  grid3 (pyRange2 1 (2*Lx)) (pyRange2 1 (2*Ly)) (pyRange2 1 (2*Lz)) allTrue ++
  ([0, 1, 2] : List Int).flatMap fun axis =>
    (grid3 (pyRange2 0 (2*Lx)) (pyRange2 0 (2*Ly)) (pyRange2 0 (2*Lz)) allTrue).map fun c => axis :: c

def isQubit (Lx Ly Lz : Nat) (q : Coord) : Bool := (qubits Lx Ly Lz).contains q
def isStab (Lx Ly Lz : Nat) (s : Coord) : Bool := (stabs Lx Ly Lz).contains s

/-- `stabilizer_type` (`none` = ValueError) -/
def stabilizerType (Lx Ly Lz : Nat) (loc : Coord) : Option String :=
  if !isStab Lx Ly Lz loc then none
  else some (if loc.length == 4 then "face" else "cube")

def cubeDelta : List Coord :=
  [[1, 1, 0], [-1, -1, 0], [1, -1, 0], [-1, 1, 0],
   [-1, 0, -1], [1, 0, -1], [0, -1, -1], [0, 1, -1],
   [-1, 0, 1], [1, 0, 1], [0, -1, 1], [0, 1, 1]]
def faceDeltaX : List Coord := [[0, 1, 0], [0, -1, 0], [0, 0, 1], [0, 0, -1]]
def faceDeltaY : List Coord := [[1, 0, 0], [-1, 0, 0], [0, 0, 1], [0, 0, -1]]
def faceDeltaZ : List Coord := [[1, 0, 0], [-1, 0, 0], [0, 1, 0], [0, -1, 0]]

/-- `((x + d[0]) % (2*Lx), (y + d[1]) % (2*Ly), (z + d[2]) % (2*Lz))` -/
def wrapAdd (Lx Ly Lz : Nat) (x y z : Int) (d : Coord) : Coord :=
  match d with
  | [dx, dy, dz] => [pmod (x + dx) (2*Lx), pmod (y + dy) (2*Ly), pmod (z + dz) (2*Lz)]
  | _ => []

/-- `get_stabilizer` (`none` = ValueError for a non-stabilizer location) -/
def getStab? (Lx Ly Lz : Nat) (loc : Coord) : Option Op :=
  if !isStab Lx Ly Lz loc then none
  else match loc with
    | [x, y, z] =>
      some (buildOp (isQubit Lx Ly Lz) (cubeDelta.map (wrapAdd Lx Ly Lz x y z)) Pauli.Z)
    | [axis, x, y, z] =>
      let delta := if axis == 0 then faceDeltaX else if axis == 1 then faceDeltaY else faceDeltaZ
      some (buildOp (isQubit Lx Ly Lz) (delta.map (wrapAdd Lx Ly Lz x y z)) Pauli.X)
    | _ => none

def getStab (Lx Ly Lz : Nat) (loc : Coord) : Op := (getStab? Lx Ly Lz loc).getD []

/-- `qubit_axis` (`none` = ValueError); parity tests only -/
def qubitAxis (loc : Coord) : Option String :=
  match loc with
  | [x, y, z] =>
    if z % 2 == 0 && x % 2 == 1 && y % 2 == 0 then some "x"
    else if z % 2 == 0 && x % 2 == 0 && y % 2 == 1 then some "y"
    else if z % 2 == 1 && x % 2 == 0 && y % 2 == 0 then some "z"
    else none
  | _ => none

/-- `get_logicals_x` -/
def logX (Lx Ly Lz : Nat) : List Op :=
  ((pyRange2 0 (2*Ly)).map fun y => dictOf ((pyRange2 0 (2*Lz)).map fun z => [1, y, z]) Pauli.X) ++
  ((pyRange2 2 (2*Lz)).map fun z => dictOf ((pyRange2 0 (2*Ly)).map fun y => [1, y, z]) Pauli.X) ++
  ((pyRange2 0 (2*Lx)).map fun x => dictOf ((pyRange2 0 (2*Lz)).map fun z => [x, 1, z]) Pauli.X) ++
  ((pyRange2 2 (2*Lz)).map fun z => dictOf ((pyRange2 0 (2*Lx)).map fun x => [x, 1, z]) Pauli.X) ++
  ((pyRange2 0 (2*Lx)).map fun x => dictOf ((pyRange2 0 (2*Ly)).map fun y => [x, y, 1]) Pauli.X) ++
  ((pyRange2 2 (2*Ly)).map fun y => dictOf ((pyRange2 0 (2*Lx)).map fun x => [x, y, 1]) Pauli.X)

/-- `get_logicals_z` -/
def logZ (Lx Ly Lz : Nat) : List Op :=
  ((pyRange2 0 (2*Ly)).map fun y => dictOf ((pyRange2 1 (2*Lx)).map fun x => [x, y, 0]) Pauli.Z) ++
  ((pyRange2 2 (2*Lz)).map fun z =>
    dictOf (((pyRange2 1 (2*Lx)).map fun x => [x, 0, 0]) ++ ((pyRange2 1 (2*Lx)).map fun x => [x, 0, z])) Pauli.Z) ++
  ((pyRange2 0 (2*Lx)).map fun x => dictOf ((pyRange2 1 (2*Ly)).map fun y => [x, y, 0]) Pauli.Z) ++
  ((pyRange2 2 (2*Lz)).map fun z =>
    dictOf (((pyRange2 1 (2*Ly)).map fun y => [0, y, 0]) ++ ((pyRange2 1 (2*Ly)).map fun y => [0, y, z])) Pauli.Z) ++
  ((pyRange2 0 (2*Lx)).map fun x => dictOf ((pyRange2 1 (2*Lz)).map fun z => [x, 0, z]) Pauli.Z) ++
  ((pyRange2 2 (2*Ly)).map fun y =>
    dictOf (((pyRange2 1 (2*Lz)).map fun z => [0, 0, z]) ++ ((pyRange2 1 (2*Lz)).map fun z => [0, y, z])) Pauli.Z)

/-- body of `get_deformation` for a given value of `deformation_axis` (`none` = ValueError),
    checks in the order of the code -/
def getDeformationAt (name axis : String) (loc : Coord) : Option PauliMap :=
  if !(["x", "y", "z"].contains axis) then none
  else if name == "XZZX" then
    match qubitAxis loc with
    | none => none
    | some a => some (if a == axis then PauliMap.swapXZ else PauliMap.id)
  else none

/-- `get_deformation(location, deformation_name, deformation_axis='z')` (`none` = ValueError);
    `axis = none`: the caller does not pass `deformation_axis`, the signature default `'z'` applies -/
def getDeformation (name : String) (axis : Option String) (loc : Coord) : Option PauliMap :=
  getDeformationAt name (axis.getD "z") loc

/-! ### the explicit independent family of `n − k` generators of the rank clause
(`C01XCubeCode.generators_independent`, proved in `Proofs/LatXCubeCodeRank1..3.lean`); printed by the
driver op `rankfamily` and evaluated on the implementation's parity-check matrix on every run -/

/-- selected cubes (Z-type; `Lx·Ly·Lz − (Lx + Ly + Lz) + 2` of them): all cubes with at most one
    coordinate equal to 1 -/
def selCubes (Lx Ly Lz : Nat) : List Coord :=
  grid3 (pyRange2 1 (2*Lx)) (pyRange2 3 (2*Ly)) (pyRange2 3 (2*Lz)) (fun _ _ _ => true) ++
  (grid3 (pyRange2 3 (2*Lx)) [1] (pyRange2 3 (2*Lz)) (fun _ _ _ => true) ++
   grid3 (pyRange2 3 (2*Lx)) (pyRange2 3 (2*Ly)) [1] (fun _ _ _ => true))

/-- vertices of the selected axis-0 operators -/
def selFaces0 (Lx Ly Lz : Nat) : List Coord :=
  grid3 (pyRange2 0 (2*Lx)) (pyRange2 2 (2*Ly)) (pyRange2 0 (2*Lz)) (fun _ _ _ => true) ++
  grid3 (pyRange2 2 (2*Lx)) [0] (pyRange2 2 (2*Lz)) (fun _ _ _ => true)

/-- vertices of the selected axis-1 operators -/
def selFaces1 (Lx Ly Lz : Nat) : List Coord :=
  grid3 (pyRange2 2 (2*Lx)) (pyRange2 0 (2*Ly)) (pyRange2 0 (2*Lz)) (fun _ _ _ => true) ++
  grid3 [0] (pyRange2 0 (2*Ly)) (pyRange2 2 (2*Lz)) (fun _ _ _ => true)

/-- the selected family: cubes, then axis-0 and axis-1 vertex operators (none of axis 2) -/
def selStabs (Lx Ly Lz : Nat) : List Coord :=
  selCubes Lx Ly Lz ++
    ((selFaces0 Lx Ly Lz).map (fun c => (0 : Int) :: c) ++ (selFaces1 Lx Ly Lz).map (fun c => (1 : Int) :: c))

def lattice (Lx Ly Lz : Nat) : Lattice :=
  { qubits := qubits Lx Ly Lz, stabs := stabs Lx Ly Lz, getStab := getStab Lx Ly Lz,
    logX := logX Lx Ly Lz, logZ := logZ Lx Ly Lz }

end Panqec.XCubeCode
