/-
Hand-written model of `panqec/codes/color_2d/_color_488_code.py` (`Color488Code`) as a function of
the lattice size `(Lx, Ly)`: same loops in the same order (`range(0, 8L+4, 4)` in both directions,
so the seam rows `x = 8Lx`, `y = 8Ly` are listed although they are the rows `x = 0`, `y = 0` again
modulo the period), four deltas on the squares `(x + y) % 8 = 0` and eight on the octagons,
wrap-around `% (8*Lx)`, `% (8*Ly)` (Python's `%` is `Int.emod`; the class divides by zero for
`L = 0`, which is outside the family), dict assignment = `Op.insert`, qubit list DERIVED from the
stabilizers (`Color.derivedQubits`), logical operators filtered by `is_qubit`: the columns `x = 3`,
`x = 7` run over `y < 8Ly` (`range(3, 8*Ly+1, 2)`, `range(1, 8*Ly+4, 2)`), the rows `y = 5`, `y = 1`
over `x < 8Lx` (`range(3, 8*Lx+1, 2)`, `range(1, 8*Lx+4, 2)`).

Before the repair of `get_logicals_x` / `get_logicals_z` (known finding D14, fixed) the column
`x = 7` ran over `range(1, 8*Lx+4, 2)` and the row `y = 1` over `range(1, 8*Ly+4, 2)` - the wrong
side in both; for `Lx ≠ Ly` the listed operator was then a partial (or over-long, then filtered)
line and anticommuted with a generator.  That code is kept as `oldLogX` / `oldLogZ` / `oldLattice`
for the regression theorem `C01Color488Code.old_rectangular_invalid`; for `Lx = Ly` the two
coincide definitionally.
A stabilizer location `(x, y, p)` is `[x, y, p]` (`p = 0`: X generator, `p = 1`: Z generator of the
same face), a qubit location `(x, y)` is `[x, y]`.

`ValueError` is `none` (`getStabilizer?`, `stabilizerType`, `qubitAxis`) / `DeformResult.valueError`;
the `Lattice` record uses `[]` for it (`getStab`).  No Mathlib.
-/
import PanqecVerif.Model.Lattices.ColorBase

namespace Panqec.Color488Code
open Panqec.Lat2D Panqec.Color

/-- the `(x, y)` for which `get_stabilizer_coordinates` appends, in loop order -/
def faces (Lx Ly : Nat) : List Coord :=
  grid (pyRangeStep 0 (8 * (Lx : Int) + 4) 4) (pyRangeStep 0 (8 * (Ly : Int) + 4) 4)

/-- `get_stabilizer_coordinates` -/
def stabs (Lx Ly : Nat) : List Coord := both (faces Lx Ly)

/-- `is_stabilizer` (without `stab_type`): `location in self.stabilizer_index` -/
def isStabilizer (Lx Ly : Nat) (loc : Coord) : Bool := isIn (stabs Lx Ly) loc

/-- `stabilizer_type` given the cached stabilizer index; `none` = ValueError -/
def stabilizerTypeIn (ss : List Coord) (loc : Coord) : Option String :=
  if !isIn ss loc then none
  else match loc with
    | [x, y, p] =>
      let shape :=
        if (x + y) % 8 = 0 then "square-red"
        else if x % 8 = 4 then "octahedron-blue"
        else "octahedron-green"
      some (shape ++ (if p = 0 then "-x" else "-z"))
    | _ => none

/-- `stabilizer_type`; `none` = ValueError -/
def stabilizerType (Lx Ly : Nat) (loc : Coord) : Option String :=
  stabilizerTypeIn (stabs Lx Ly) loc

def deltaSquare : List (Int × Int) := [(-1, -1), (1, 1), (-1, 1), (1, -1)]
def deltaOctagon : List (Int × Int) :=
  [(1, -3), (3, -1), (3, 1), (1, 3), (-1, 3), (-3, 1), (-3, -1), (-1, -3)]

/-- `'square' in stab_type` -/
def isSquare (x y : Int) : Bool := decide ((x + y) % 8 = 0)

/-- the `qubit_location` computed for each `d in delta`, in order -/
def candidates (Lx Ly : Nat) (x y : Int) : List Coord :=
  (if isSquare x y then deltaSquare else deltaOctagon).map fun d =>
    [(x + d.1) % (8 * (Lx : Int)), (y + d.2) % (8 * (Ly : Int))]

/-- `get_stabilizer` given the cached `self.stabilizer_index` (`ss`); `none` = ValueError -/
def getStabilizerIn (ss : List Coord) (Lx Ly : Nat) (loc : Coord) : Option Op :=
  if !isIn ss loc then none
  else match loc with
    | [x, y, p] =>
      let pauli := if p = 0 then Pauli.X else Pauli.Z
      some (lineOp (candidates Lx Ly x y) pauli)
    | _ => none

/-- `get_stabilizer`; `none` = ValueError -/
def getStabilizer? (Lx Ly : Nat) (loc : Coord) : Option Op :=
  getStabilizerIn (stabs Lx Ly) Lx Ly loc

/-- `get_qubit_coordinates`: derived from the stabilizers -/
def qubits (Lx Ly : Nat) : List Coord :=
  let ss := stabs Lx Ly   -- (the stabilizer index is built once)
  derivedQubits ss fun s => (getStabilizerIn ss Lx Ly s).getD []

/-- `is_qubit` : `location in self.qubit_index` -/
def isQubit (Lx Ly : Nat) (q : Coord) : Bool := isIn (qubits Lx Ly) q

/-- `qubit_axis`: `x, y = location; return 'x'` (`none` = the ValueError of the unpacking) -/
def qubitAxis (loc : Coord) : Option String :=
  match loc with
  | [_, _] => some "x"
  | _ => none

/-- keys tried by the four families of logical operators, as a function of the number `L` of unit
    cells that bounds the `range` (`col3`, `col7`: `y` runs, `L = Ly`; `row5`, `row1`: `x` runs,
    `L = Lx`) -/
def col3 (L : Nat) : List Coord := (pyRangeStep 3 (8 * (L : Int) + 1) 2).map fun y => [3, y]
def col7 (L : Nat) : List Coord := (pyRangeStep 1 (8 * (L : Int) + 4) 2).map fun y => [7, y]
def row5 (L : Nat) : List Coord := (pyRangeStep 3 (8 * (L : Int) + 1) 2).map fun x => [x, 5]
def row1 (L : Nat) : List Coord := (pyRangeStep 1 (8 * (L : Int) + 4) 2).map fun x => [x, 1]

/-- `get_logicals_x` -/
def logX (Lx Ly : Nat) : List Op :=
  let isQ := isQubit Lx Ly   -- (the qubit index is built once)
  [collect (col3 Ly) isQ Pauli.X, collect (col7 Ly) isQ Pauli.X,
   collect (row5 Lx) isQ Pauli.X, collect (row1 Lx) isQ Pauli.X]

/-- `get_logicals_z` -/
def logZ (Lx Ly : Nat) : List Op :=
  let isQ := isQubit Lx Ly
  [collect (row5 Lx) isQ Pauli.Z, collect (row1 Lx) isQ Pauli.Z,
   collect (col3 Ly) isQ Pauli.Z, collect (col7 Ly) isQ Pauli.Z]

/-- `get_logicals_x` BEFORE the repair: `for y in range(1, 8*Lx+4, 2)` on the column `x = 7`,
    `for x in range(1, 8*Ly+4, 2)` on the row `y = 1` -/
def oldLogX (Lx Ly : Nat) : List Op :=
  let isQ := isQubit Lx Ly
  [collect (col3 Ly) isQ Pauli.X, collect (col7 Lx) isQ Pauli.X,
   collect (row5 Lx) isQ Pauli.X, collect (row1 Ly) isQ Pauli.X]

/-- `get_logicals_z` BEFORE the repair (same two bounds) -/
def oldLogZ (Lx Ly : Nat) : List Op :=
  let isQ := isQubit Lx Ly
  [collect (row5 Lx) isQ Pauli.Z, collect (row1 Ly) isQ Pauli.Z,
   collect (col3 Ly) isQ Pauli.Z, collect (col7 Lx) isQ Pauli.Z]

/-- `get_deformation(location, deformation_name, **kwargs)` (keyword arguments are ignored):

        x, y = location
        if deformation_name == 'XXZZ':
            deformation = deformed if (x + y - 4) % 4 == 0 else undeformed
        else: raise ValueError -/
def getDeformation (name : String) (loc : Coord) : DeformResult :=
  match loc with
  | [x, y] =>
    if name = "XXZZ" then
      if (x + y - 4) % 4 = 0 then DeformResult.map PauliMap.swapXZ else DeformResult.map PauliMap.id
    else DeformResult.valueError
  | _ => DeformResult.valueError

def lattice (Lx Ly : Nat) : Lattice where
  qubits := qubits Lx Ly
  stabs := stabs Lx Ly
  getStab := fun s => (getStabilizer? Lx Ly s).getD []
  logX := logX Lx Ly
  logZ := logZ Lx Ly

/-- the lattice as the class built it before the repair of the logical operators -/
def oldLattice (Lx Ly : Nat) : Lattice where
  qubits := qubits Lx Ly
  stabs := stabs Lx Ly
  getStab := fun s => (getStabilizer? Lx Ly s).getD []
  logX := oldLogX Lx Ly
  logZ := oldLogZ Lx Ly

/-! ### the explicit independent family of `n − k = 8·Lx·Ly − 4` generators of the rank clause
(`C01Color488Code.rank_family`, proved in `Proofs/LatColor488CodeRank*.lean`); printed by the driver op
`rankfamily` and evaluated on the implementation's parity-check matrix on every run -/

/-- the face centres in `[0, 8Lx) × [0, 8Ly)` (the seam rows of `faces` are copies of these) -/
def canonFaces (Lx Ly : Nat) : List Coord :=
  grid (pyRangeStep 0 (8 * (Lx : Int)) 4) (pyRangeStep 0 (8 * (Ly : Int)) 4)

/-- all canonical faces but the green octagon `(0, 4)` and the blue octagon `(4, 0)` -/
def selFaces (Lx Ly : Nat) : List Coord := (canonFaces Lx Ly).filter fun c => c != [0, 4] && c != [4, 0]

/-- the selected stabilizer locations: the X and the Z generator of every selected face -/
def sel (Lx Ly : Nat) : List Coord := both (selFaces Lx Ly)

end Panqec.Color488Code
