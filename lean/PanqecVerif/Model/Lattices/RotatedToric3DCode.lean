/-
Hand-written all-sizes model of `panqec/codes/surface_3d/_rotated_toric_3d_code.py`
(`RotatedToric3DCode`), as functions of the lattice size `(Lx, Ly, Lz)`.

Transcription rules: nested `range` loops with an `if` in the body = `grid3` over `pyRange2` in the
same nesting order; the neighbour of a stabilizer is `tuple(np.add(location, d))` followed by the two
`if q > 2*L: q = 1 elif q == 0: q = 2*L` seam rules (`wrap`); `is_qubit` = membership in the qubit
list; `operator[q] = letter` = `Op.insert`; a stabilizer sitting on a defect line (`x == 2*Lx` with
`Lx` odd, `y == 2*Ly` with `Ly` odd) writes the swapped letter on the neighbours with coordinate 1
(`has_defect`).  The logical operators are dict comprehensions over `qubit_coordinates` (index
order) followed by `_deform_operator`.  A `ValueError` is `none`.  Branches that leave a Python local
unbound (`delta` / `axis`) cannot be reached from a stabilizer / qubit location; the model answers
`none` there.

Supported family (DESIGN.md section 4): `Lx, Ly ≥ 2`, `Lz ≥ 1`, not both `Lx` and `Ly` odd; the
definitions are total and transcribe the code for every size.  No Mathlib.
-/
import PanqecVerif.Model.Lattices.Util3Db

namespace Panqec.RotatedToric3DCode
open Panqec.Lat3Db

/-- `get_qubit_coordinates` -/
def qubits (Lx Ly Lz : Nat) : List Coord :=
  -- Horizontal
  grid3 (pyRange2 1 (2*Lx)) (pyRange2 1 (2*Ly)) (pyRange2 1 (2*Lz)) (fun _ _ _ => true) ++
  -- Vertical
  grid3 (pyRange2 2 (2*Lx+1)) (pyRange2 2 (2*Ly+1)) (pyRange2 2 (2*Lz))
    (fun x y _ => (x + y) % 4 == 2)

/-- the guard of the vertical-face loop: `not ((Ly % 2 == 1 and y == 1) or (Lx % 2 == 1 and x == 1))` -/
def keepVFace (Lx Ly : Nat) (x y : Int) : Bool :=
  !((Ly % 2 == 1 && y == 1) || (Lx % 2 == 1 && x == 1))

/-- `get_stabilizer_coordinates` -/
def stabs (Lx Ly Lz : Nat) : List Coord :=
  -- Vertices
  grid3 (pyRange2 2 (2*Lx+1)) (pyRange2 2 (2*Ly+1)) (pyRange2 1 (2*Lz))
    (fun x y _ => (x + y) % 4 == 2) ++
  -- Horizontal faces
  grid3 (pyRange2 2 (2*Lx+1)) (pyRange2 2 (2*Ly+1)) (pyRange2 1 (2*Lz))
    (fun x y _ => (x + y) % 4 == 0) ++
  -- Vertical faces
  grid3 (pyRange2 1 (2*Lx)) (pyRange2 1 (2*Ly)) (pyRange2 2 (2*Lz))
    (fun x y _ => keepVFace Lx Ly x y)

def isQubit (Lx Ly Lz : Nat) (q : Coord) : Bool := (qubits Lx Ly Lz).contains q
def isStab (Lx Ly Lz : Nat) (s : Coord) : Bool := (stabs Lx Ly Lz).contains s

/-- the type test of `stabilizer_type` after the `is_stabilizer` guard -/
def isVertexXYZ (x y z : Int) : Bool := (x + y) % 4 == 2 && z % 2 == 1

/-- `stabilizer_type` (`none` = ValueError) -/
def stabilizerType (Lx Ly Lz : Nat) (loc : Coord) : Option String :=
  if !isStab Lx Ly Lz loc then none
  else match loc with
    | [x, y, z] => some (if isVertexXYZ x y z then "vertex" else "face")
    | _ => none

def vertexDelta : List Coord :=
  [[1, -1, 0], [-1, 1, 0], [1, 1, 0], [-1, -1, 0], [0, 0, 1], [0, 0, -1]]
def faceDeltaZ : List Coord := [[-1, -1, 0], [1, 1, 0], [-1, 1, 0], [1, -1, 0]]
def faceDeltaX : List Coord := [[-1, -1, 0], [1, 1, 0], [0, 0, -1], [0, 0, 1]]
def faceDeltaY : List Coord := [[-1, 1, 0], [1, -1, 0], [0, 0, -1], [0, 0, 1]]

/-- the `delta` list chosen by `get_stabilizer` (`none`: `delta` would be unbound) -/
def deltaOf (x y z : Int) : Option (List Coord) :=
  if isVertexXYZ x y z then some vertexDelta
  else if z % 2 == 1 then some faceDeltaZ
  else if (x + y) % 4 == 0 then some faceDeltaX
  else if (x + y) % 4 == 2 then some faceDeltaY
  else none

/-- `if q > 2*L: q = 1 elif q == 0: q = 2*L` -/
def wrap (L : Nat) (q : Int) : Int :=
  if q > 2 * L then 1 else if q == 0 then 2 * L else q

/-- `on_defect_boundary(Lx, Ly, x, y)` -/
def onDefectBoundary (Lx Ly : Nat) (x y : Int) : Bool × Bool :=
  (Lx % 2 == 1 && x == 2 * Lx, Ly % 2 == 1 && y == 2 * Ly)

/-- `{'X': 'Z', 'Z': 'X'}[pauli]` (only X and Z are looked up) -/
def defectPauli : Pauli → Pauli
  | .X => .Z
  | .Z => .X
  | p => p

/-- the neighbour `(qx, qy, qz)` of `(x, y, z)` at offset `d` after the seam rules -/
def neighbour (Lx Ly : Nat) (x y z : Int) (d : Coord) : Coord :=
  match d with
  | [dx, dy, dz] => [wrap Lx (x + dx), wrap Ly (y + dy), z + dz]
  | _ => []

/-- the letter written on the neighbour `q` by a stabilizer with defect flags `db` -/
def letterAt (db : Bool × Bool) (pauli : Pauli) (q : Coord) : Pauli :=
  match q with
  | [qx, qy, _] =>
    let defectXOnEdge := db.1 && qx == 1
    let defectYOnEdge := db.2 && qy == 1
    if defectXOnEdge != defectYOnEdge then defectPauli pauli else pauli
  | _ => pauli

/-- the loop `for d in delta: …; if self.is_qubit(q): operator[q] = …` -/
def buildStab (Lx Ly Lz : Nat) (x y z : Int) (pauli : Pauli) (delta : List Coord) : Op :=
  delta.foldl (fun op d =>
    let q := neighbour Lx Ly x y z d
    if isQubit Lx Ly Lz q then op.insert q (letterAt (onDefectBoundary Lx Ly x y) pauli q) else op) []

/-- `get_stabilizer` (`none` = ValueError for a non-stabilizer location) -/
def getStab? (Lx Ly Lz : Nat) (loc : Coord) : Option Op :=
  if !isStab Lx Ly Lz loc then none
  else match loc with
    | [x, y, z] =>
      let pauli := if isVertexXYZ x y z then Pauli.Z else Pauli.X
      match deltaOf x y z with
      | some delta => some (buildStab Lx Ly Lz x y z pauli delta)
      | none => none
    | _ => none

def getStab (Lx Ly Lz : Nat) (loc : Coord) : Op := (getStab? Lx Ly Lz loc).getD []

/-- `qubit_axis` (`none` = ValueError; a wrong-length tuple fails to unpack) -/
def qubitAxis (Lx Ly Lz : Nat) (loc : Coord) : Option String :=
  match loc with
  | [x, y, z] =>
    if !isQubit Lx Ly Lz loc then none
    else if z % 2 == 0 then some "z"
    else if (x + y) % 4 == 2 then some "x"
    else if (x + y) % 4 == 0 then some "y"
    else none
  | _ => none

/-- `{'I': 'I', 'X': 'Z', 'Y': 'Y', 'Z': 'Z'}` of `_deform_operator` -/
def deformLetter : Pauli → Pauli
  | .X => .Z
  | p => p

/-- `_deform_operator`: in place, the letter of every location with `has_defect` goes through
    `deformation_map` -/
def deformOperator (Lx Ly : Nat) (op : Op) : Op :=
  op.map fun e =>
    match e.1 with
    | [x, y, _] =>
      let db := onDefectBoundary Lx Ly x y
      if (db.1 && x == 1) != (db.2 && y == 1) then (e.1, deformLetter e.2) else e
    | _ => e

/-- `{(x, y, z): p for x, y, z in self.qubit_coordinates if f(x, y, z)}` -/
def comprehension (Lx Ly Lz : Nat) (f : Int → Int → Int → Bool) (p : Pauli) : Op :=
  dictOf ((qubits Lx Ly Lz).filter fun q => match q with
    | [x, y, z] => f x y z
    | _ => false) p

/-- `get_logicals_x` -/
def logX (Lx Ly Lz : Nat) : List Op :=
  if Lx % 2 == 0 && Ly % 2 == 0 then
    [deformOperator Lx Ly (comprehension Lx Ly Lz (fun _ y z => y == 1 && z == 1) .X),
     deformOperator Lx Ly (comprehension Lx Ly Lz (fun x _ z => x == 1 && z == 1) .X)]
  else if Lx % 2 == 1 && Ly % 2 == 1 then
    [comprehension Lx Ly Lz (fun x y z => z == 1 && x + y == 2 * Lx - 2) .X]
  else if Lx % 2 == 1 then
    [deformOperator Lx Ly (comprehension Lx Ly Lz (fun x _ z => x == 1 && z == 1) .X)]
  else
    [deformOperator Lx Ly (comprehension Lx Ly Lz (fun _ y z => y == 1 && z == 1) .X)]

/-- `get_logicals_z` -/
def logZ (Lx Ly Lz : Nat) : List Op :=
  if Lx % 2 == 0 && Ly % 2 == 0 then
    [comprehension Lx Ly Lz (fun x _ _ => x == 1) .Z,
     comprehension Lx Ly Lz (fun _ y _ => y == 1) .Z]
  else if Lx % 2 == 1 && Ly % 2 == 1 then
    [comprehension Lx Ly Lz (fun x y _ => x == y) .Z]
  else
    [comprehension Lx Ly Lz (fun x y _ => (Lx % 2 == 1 && y == 1) || (Ly % 2 == 1 && x == 1)) .Y]

/-- `get_deformation(location, deformation_name, deformation_axis='y')` (`none` = ValueError),
    checks in the order of the code; `axis = none`: the keyword argument is not passed -/
def getDeformation (Lx Ly Lz : Nat) (name : String) (axis : Option String) (loc : Coord) :
    Option PauliMap :=
  let ax := axis.getD "y"
  if !(["x", "y", "z"].contains ax) then none
  else if name == "XZZX" then
    match qubitAxis Lx Ly Lz loc with
    | none => none
    | some a => some (if a == ax then PauliMap.swapXZ else PauliMap.id)
  else none

/-! ### the independent family of the rank clause (`Properties/C01RotatedToric3DCode.rank_family`) -/

/-- `range(2, 2*L + 1, 4)`: the even coordinates `≡ 2 (mod 4)` of the period -/
def pyRange4 (L : Nat) : List Int :=
  (List.range ((L + 1) / 2)).map fun i => ((4 * i + 2 : Nat) : Int)

/-- every vertex and horizontal face of the bottom layer `z = 1` except the vertex `(2, 4, 1)` and,
    when `Lx`, `Ly` are both even, the face `(2, 2, 1)` -/
def famLayer1 (Lx Ly : Nat) : List Coord :=
  if Lx % 2 == 0 && Ly % 2 == 0 then
    ((grid3 (pyRange2 2 (2*Lx+1)) (pyRange2 2 (2*Ly+1)) [1] (fun _ _ _ => true)).erase
      [2, 4, 1]).erase [2, 2, 1]
  else (grid3 (pyRange2 2 (2*Lx+1)) (pyRange2 2 (2*Ly+1)) [1] (fun _ _ _ => true)).erase [2, 4, 1]

/-- every vertex of the layers `z ≥ 3` -/
def famVerticesUp (Lx Ly Lz : Nat) : List Coord :=
  grid3 (pyRange2 2 (2*Lx+1)) (pyRange2 2 (2*Ly+1)) (pyRange2 3 (2*Lz))
    (fun x y _ => (x + y) % 4 == 2)

/-- the horizontal faces of the layers `z ≥ 3` next to the dropped column of vertical faces
    (`x ∈ {2, 2Lx}` for an odd `Lx`, `y ∈ {2, 2Ly}` for an odd `Ly`; none for even × even) -/
def famFacesUp (Lx Ly Lz : Nat) : List Coord :=
  if Lx % 2 == 1 then
    grid3 [2, 2 * (Lx : Int)] (pyRange4 Ly) (pyRange2 3 (2*Lz)) (fun _ _ _ => true)
  else if Ly % 2 == 1 then
    grid3 (pyRange4 Lx) [2, 2 * (Ly : Int)] (pyRange2 3 (2*Lz)) (fun _ _ _ => true)
  else []

/-- every vertical face (the columns `x = 1` for an odd `Lx`, `y = 1` for an odd `Ly` carry none) -/
def famVFaces (Lx Ly Lz : Nat) : List Coord :=
  if Lx % 2 == 1 then
    grid3 (pyRange2 3 (2*Lx)) (pyRange2 1 (2*Ly)) (pyRange2 2 (2*Lz)) (fun _ _ _ => true)
  else if Ly % 2 == 1 then
    grid3 (pyRange2 1 (2*Lx)) (pyRange2 3 (2*Ly)) (pyRange2 2 (2*Lz)) (fun _ _ _ => true)
  else grid3 (pyRange2 1 (2*Lx)) (pyRange2 1 (2*Ly)) (pyRange2 2 (2*Lz)) (fun _ _ _ => true)

/-- An explicit family of `n − k` stabilizer locations whose operators are GF(2)-independent, for
    every size of the supported family (`Lx, Ly ≥ 2` not both odd, `Lz ≥ 1`). -/
def rankFamily (Lx Ly Lz : Nat) : List Coord :=
  famLayer1 Lx Ly ++ famVerticesUp Lx Ly Lz ++ famFacesUp Lx Ly Lz ++ famVFaces Lx Ly Lz

def lattice (Lx Ly Lz : Nat) : Lattice :=
  { qubits := qubits Lx Ly Lz, stabs := stabs Lx Ly Lz, getStab := getStab Lx Ly Lz,
    logX := logX Lx Ly Lz, logZ := logZ Lx Ly Lz }

end Panqec.RotatedToric3DCode
