/-
Hand-written model of `panqec/codes/surface_3d/_toric_3d_code.py` (class `Toric3DCode`) as
functions of the lattice size: same loops, same index order, same wrap-around (`% (2*L)`), same
`is_qubit` filtering, Python dict = association list with overwrite (`Op.insert`).
Supported family (DESIGN.md section 4): `2 ≤ Lx, Ly, Lz`; the definitions are total and
transcribe the code for every size (for a size 1 the two offsets `-1`, `+1` hit the same qubit
and the dict assignment overwrites — kept faithfully).  No Mathlib.
-/
import PanqecVerif.Model.Lattices.Cubic3D

namespace Panqec.Toric3DCode
open Panqec.Cubic3D

/-- `get_qubit_coordinates`: x edges, then y edges, then z edges -/
def qubits (Lx Ly Lz : Nat) : List Coord :=
  grid (range2 1 (2 * Lx)) (range2 0 (2 * Ly)) (range2 0 (2 * Lz)) ++
  grid (range2 0 (2 * Lx)) (range2 1 (2 * Ly)) (range2 0 (2 * Lz)) ++
  grid (range2 0 (2 * Lx)) (range2 0 (2 * Ly)) (range2 1 (2 * Lz))

/-- `get_stabilizer_coordinates`: vertices, xy faces, yz faces, xz faces -/
def stabs (Lx Ly Lz : Nat) : List Coord :=
  grid (range2 0 (2 * Lx)) (range2 0 (2 * Ly)) (range2 0 (2 * Lz)) ++
  grid (range2 1 (2 * Lx)) (range2 1 (2 * Ly)) (range2 0 (2 * Lz)) ++
  grid (range2 0 (2 * Lx)) (range2 1 (2 * Ly)) (range2 1 (2 * Lz)) ++
  grid (range2 1 (2 * Lx)) (range2 0 (2 * Ly)) (range2 1 (2 * Lz))

/-- `stabilizer_type`; `none` = `ValueError` (not a stabilizer location) -/
def stabilizerType (Lx Ly Lz : Nat) (loc : Coord) : Option StabType :=
  if (stabs Lx Ly Lz).contains loc then
    match loc with
    | [x, y, _] => some (typeOf x y)
    | _ => none
  else none

def vertexDelta : List (Int × Int × Int) :=
  [(-1, 0, 0), (1, 0, 0), (0, -1, 0), (0, 1, 0), (0, 0, -1), (0, 0, 1)]

/-- the locations `((x + d[0]) % (2*Lx), (y + d[1]) % (2*Ly), (z + d[2]) % (2*Lz))` in the order
    of `delta` -/
def candidates (Lx Ly Lz : Nat) (x y z : Int) (delta : List (Int × Int × Int)) : List Coord :=
  delta.map fun d => [pmod (x + d.1) (2 * Lx), pmod (y + d.2.1) (2 * Ly), pmod (z + d.2.2) (2 * Lz)]

/-- `get_stabilizer`; `none` = `ValueError` (not a stabilizer location) -/
def getStab? (Lx Ly Lz : Nat) (loc : Coord) : Option Op :=
  if (stabs Lx Ly Lz).contains loc then
    match loc with
    | [x, y, z] =>
      let t := typeOf x y
      let pauli := if t = .vertex then Pauli.Z else Pauli.X
      let delta := if t = .vertex then vertexDelta else faceDelta x y z
      some (collect (qubits Lx Ly Lz) pauli (candidates Lx Ly Lz x y z delta))
    | _ => none
  else none

/-- `get_stabilizer` with the error case mapped to the empty operator (the `Lattice` interface) -/
def getStab (Lx Ly Lz : Nat) (loc : Coord) : Op := (getStab? Lx Ly Lz loc).getD []

/-- `get_logicals_x`: strings of X along each axis through the origin.  The keys written by each
    loop are pairwise distinct, so the dict assignments are appends. -/
def logX (Lx Ly Lz : Nat) : List Op :=
  [ (range2 1 (2 * Lx)).map fun x => ([x, 0, 0], Pauli.X),
    (range2 1 (2 * Ly)).map fun y => ([0, y, 0], Pauli.X),
    (range2 1 (2 * Lz)).map fun z => ([0, 0, z], Pauli.X) ]

/-- `get_logicals_z`: planes of Z normal to each axis (loop nests `y,z` / `z,x` / `x,y`) -/
def logZ (Lx Ly Lz : Nat) : List Op :=
  [ (range2 0 (2 * Ly)).flatMap fun y => (range2 0 (2 * Lz)).map fun z => ([1, y, z], Pauli.Z),
    (range2 0 (2 * Lz)).flatMap fun z => (range2 0 (2 * Lx)).map fun x => ([x, 1, z], Pauli.Z),
    (range2 0 (2 * Lx)).flatMap fun x => (range2 0 (2 * Ly)).map fun y => ([x, y, 1], Pauli.Z) ]

/-- `qubit_axis` -/
def qubitAxis (loc : Coord) : Option Axis := Cubic3D.qubitAxis loc

/-- `get_deformation(location, name, deformation_axis='y')` -/
def getDeformation (name : String) (axis : Option String) (loc : Coord) : Option PauliMap :=
  Cubic3D.getDeformation "y" name axis loc

/-- an explicit family of `n − k` stabilizer locations whose operators are GF(2)-independent (proved for
    every size `≥ 2` in `Proofs/LatToric3DCodeRank.lean`; nine blocks: vertices with `x ≠ 0`, with `x = 0 ≠ y`,
    with `x = y = 0 ≠ z`; xz / yz faces below the top layer; top-layer yz "teeth" and xz "spine"; xy faces
    of the layer `z = 0` in the last column and elsewhere) -/
def rankFamily (Lx Ly Lz : Nat) : List Coord :=
  grid (range2 2 (2 * (Lx : Int))) (range2 0 (2 * (Ly : Int))) (range2 0 (2 * (Lz : Int))) ++
  grid [0] (range2 2 (2 * (Ly : Int))) (range2 0 (2 * (Lz : Int))) ++
  grid [0] [0] (range2 2 (2 * (Lz : Int))) ++
  grid (range2 1 (2 * (Lx : Int))) (range2 0 (2 * (Ly : Int))) (range2 1 (2 * (Lz : Int) - 1)) ++
  grid (range2 0 (2 * (Lx : Int))) (range2 1 (2 * (Ly : Int))) (range2 1 (2 * (Lz : Int) - 1)) ++
  grid (range2 0 (2 * (Lx : Int))) (range2 1 (2 * (Ly : Int) - 1)) [2 * (Lz : Int) - 1] ++
  grid (range2 1 (2 * (Lx : Int) - 1)) [0] [2 * (Lz : Int) - 1] ++
  grid [2 * (Lx : Int) - 1] (range2 1 (2 * (Ly : Int) - 1)) [0] ++
  grid (range2 1 (2 * (Lx : Int) - 1)) (range2 1 (2 * (Ly : Int))) [0]

def lattice (Lx Ly Lz : Nat) : Lattice :=
  { qubits := qubits Lx Ly Lz, stabs := stabs Lx Ly Lz, getStab := getStab Lx Ly Lz,
    logX := logX Lx Ly Lz, logZ := logZ Lx Ly Lz }

end Panqec.Toric3DCode
