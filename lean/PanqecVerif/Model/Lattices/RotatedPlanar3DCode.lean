/-
Hand-written all-sizes model of `panqec/codes/surface_3d/_rotated_planar_3d_code.py`
(`RotatedPlanar3DCode`), as functions of the lattice size `(Lx, Ly, Lz)`.

Transcription rules: nested `range` loops = `grid3` over `pyRange2` in the same nesting order;
`tuple(np.add(location, d))` = `addC` (no wrap-around in this class); `is_qubit` = membership in
the qubit list; `operator[q] = pauli` = `Op.insert`.  A `ValueError` is `none` (for
`get_stabilizer` the `Lattice.getStab` field returns `[]` there, `getStab?` keeps the error).
Branches that leave a Python local unbound (`delta` / `axis`) cannot be reached from a
stabilizer / qubit location; the model answers `none` / `[]` there.

Supported family (DESIGN.md section 4): all `L_i ≥ 1`.  No Mathlib.
-/
import PanqecVerif.Model.Lattices.Util3Db

namespace Panqec.RotatedPlanar3DCode
open Panqec.Lat3Db

/-- `get_qubit_coordinates` -/
def qubits (Lx Ly Lz : Nat) : List Coord :=
  -- Horizontal
  grid3 (pyRange2 1 (2*Lx)) (pyRange2 1 (2*Ly)) (pyRange2 1 (2*Lz)) (fun _ _ _ => true) ++
  -- Vertical
  grid3 (pyRange2 2 (2*Lx)) (pyRange2 0 (2*Ly+1)) (pyRange2 2 (2*Lz)) (fun x y _ => (x + y) % 4 == 2)

/-- `get_stabilizer_coordinates` -/
def stabs (Lx Ly Lz : Nat) : List Coord :=
  -- Vertices
  grid3 (pyRange2 2 (2*Lx)) (pyRange2 0 (2*Ly+1)) (pyRange2 1 (2*Lz)) (fun x y _ => (x + y) % 4 == 2) ++
  -- Horizontal faces
  grid3 (pyRange2 0 (2*Lx+1)) (pyRange2 2 (2*Ly)) (pyRange2 1 (2*Lz)) (fun x y _ => (x + y) % 4 == 0) ++
  -- Vertical faces
  grid3 (pyRange2 1 (2*Lx+1)) (pyRange2 1 (2*Ly)) (pyRange2 2 (2*Lz)) (fun _ _ _ => true)

def isQubit (Lx Ly Lz : Nat) (q : Coord) : Bool := (qubits Lx Ly Lz).contains q
def isStab (Lx Ly Lz : Nat) (s : Coord) : Bool := (stabs Lx Ly Lz).contains s

/-- the type test of `stabilizer_type` after the `is_stabilizer` guard -/
def isVertexXYZ (x y z : Int) : Bool := (x + y) % 4 == 2 && z % 2 == 1

/-- `stabilizer_type` (`none` = ValueError) -/
def stabilizerType (Lx Ly Lz : Nat) (loc : Coord) : Option String :=
  if !isStab Lx Ly Lz loc then none
  else match loc with
    | [x, y, z] => some (if isVertexXYZ x y z then "vertex" else "face")
    | _ => none

def vertexDelta : List Coord :=
  [[-1, -1, 0], [-1, 1, 0], [1, -1, 0], [1, 1, 0], [0, 0, -1], [0, 0, 1]]
def faceDeltaZ : List Coord := [[-1, -1, 0], [1, 1, 0], [-1, 1, 0], [1, -1, 0]]
def faceDeltaX : List Coord := [[-1, -1, 0], [1, 1, 0], [0, 0, -1], [0, 0, 1]]
def faceDeltaY : List Coord := [[-1, 1, 0], [1, -1, 0], [0, 0, -1], [0, 0, 1]]

/-- the `delta` list chosen by `get_stabilizer` (`none`: `delta` would be unbound) -/
def deltaOf (x y z : Int) : Option (List Coord) :=
  if isVertexXYZ x y z then some vertexDelta
  else if z % 2 == 1 then some faceDeltaZ
  else if (x + y) % 4 == 0 then some faceDeltaX
  else if (x + y) % 4 == 2 then some faceDeltaY
  else none

/-- `get_stabilizer` (`none` = ValueError for a non-stabilizer location) -/
def getStab? (Lx Ly Lz : Nat) (loc : Coord) : Option Op :=
  if !isStab Lx Ly Lz loc then none
  else match loc with
    | [x, y, z] =>
      let pauli := if isVertexXYZ x y z then Pauli.Z else Pauli.X
      match deltaOf x y z with
      | some delta => some (buildOp (isQubit Lx Ly Lz) (delta.map (addC [x, y, z])) pauli)
      | none => none
    | _ => none

def getStab (Lx Ly Lz : Nat) (loc : Coord) : Op := (getStab? Lx Ly Lz loc).getD []

/-- `qubit_axis` (`none` = ValueError; a wrong-length tuple fails to unpack) -/
def qubitAxis (Lx Ly Lz : Nat) (loc : Coord) : Option String :=
  match loc with
  | [x, y, z] =>
    if !isQubit Lx Ly Lz loc then none
    else if z % 2 == 0 then some "z"
    else if (x + y) % 4 == 2 then some "x"
    else if (x + y) % 4 == 0 then some "y"
    else none
  | _ => none

/-- `get_logicals_x` -/
def logX (Lx _Ly _Lz : Nat) : List Op :=
  [dictOf ((pyRange2 1 (2*Lx)).map fun x => [x, 1, 1]) Pauli.X]

/-- `get_logicals_z` -/
def logZ (_Lx Ly Lz : Nat) : List Op :=
  [dictOf ((pyRange2 1 (2*Lz)).flatMap fun z => (pyRange2 1 (2*Ly)).map fun y => [1, y, z]) Pauli.Z]

/-- body of `get_deformation` for a given value of `deformation_axis` (`none` = ValueError),
    checks in the order of the code -/
def getDeformationAt (Lx Ly Lz : Nat) (name axis : String) (loc : Coord) : Option PauliMap :=
  if !(["x", "y", "z"].contains axis) then none
  else if name == "XZZX" then
    match qubitAxis Lx Ly Lz loc with
    | none => none
    | some a => some (if a == axis then PauliMap.swapXZ else PauliMap.id)
  else none

/-- `get_deformation(location, deformation_name, deformation_axis='z')` (`none` = ValueError);
    `axis = none`: the caller does not pass `deformation_axis`, the signature default `'z'` applies -/
def getDeformation (Lx Ly Lz : Nat) (name : String) (axis : Option String) (loc : Coord) :
    Option PauliMap :=
  getDeformationAt Lx Ly Lz name (axis.getD "z") loc

/-- the explicit independent family of `n − k` generators of the rank clause
    (`C01RotatedPlanar3DCode.generators_independent`, proved in `Proofs/LatRotatedPlanar3DCodeRank.lean`):
    all vertices, the horizontal faces of the bottom layer `z = 1`, all vertical faces; printed by the
    driver op `rankfamily` and evaluated on the implementation's parity-check matrix on every run -/
def selStabs (Lx Ly Lz : Nat) : List Coord :=
  grid3 (pyRange2 2 (2*Lx)) (pyRange2 0 (2*Ly+1)) (pyRange2 1 (2*Lz)) (fun x y _ => (x + y) % 4 == 2) ++
  grid3 (pyRange2 0 (2*Lx+1)) (pyRange2 2 (2*Ly)) (pyRange2 1 2) (fun x y _ => (x + y) % 4 == 0) ++
  grid3 (pyRange2 1 (2*Lx+1)) (pyRange2 1 (2*Ly)) (pyRange2 2 (2*Lz)) (fun _ _ _ => true)

def lattice (Lx Ly Lz : Nat) : Lattice :=
  { qubits := qubits Lx Ly Lz, stabs := stabs Lx Ly Lz, getStab := getStab Lx Ly Lz,
    logX := logX Lx Ly Lz, logZ := logZ Lx Ly Lz }

end Panqec.RotatedPlanar3DCode
