/-
C17 for `RotatedPlanar2DCode`, ALL sizes of the supported family (`Lx ≥ 1`, `Ly ≥ 1`, no upper
bound): the distance `code.d` reports is the true code distance, `min Lx Ly`.

The matrices are the ones the generic code model assembles from the hand-written lattice model
`Model/Lattices/RotatedPlanar2DCode.lean` (tied to
`panqec/codes/surface_2d/_rotated_planar_2d_code.py` by the correspondence streams of
`harness/lattices/rotatedplanar2dcode.py`); they form a valid `[[Lx·Ly, 1]]` code for every size
(`C01RotatedPlanar2DCode.valid_code`).

* `reported_distance` — `code.d` (`distance`, the minimum Pauli weight over the rows of
  `logicals_x` and `logicals_z`, as `StabilizerCode.d` computes it) is `min Lx Ly`; the listed
  logical X (row `y = 1`) has weight `Lx`, the listed logical Z (column `x = 1`) weight `Ly`
  (`weights_listed`).
* `lower_bound` — every non-trivial logical operator has weight `≥ min Lx Ly`.  Packing argument
  (`Proofs/DistLattice.lean`, `Proofs/DistRotatedPlanar2DCode.lean`): a non-trivial logical
  anticommutes with `X̄` or `Z̄` (C04); `X̄` has the `Ly` translates `y = 2i + 1`, `Z̄` the `Lx`
  translates `x = 2i + 1`, pairwise disjoint; the X-type generators of the row `y = 2i + 2`
  (every other site, weight-2 generators at the two ends) tile the two neighbouring qubit rows
  like dominoes, so their product is the product of the two rows (same for the Z-type
  generators of a column): every operator commuting with all generators anticommutes with each
  translate exactly when it anticommutes with the line.
* `distance` — `IsDistance (Lx·Ly) H (min Lx Ly)`; `distance_reported` states it for the
  reported `d`.
* `distance_deformed`, `distance_deformed_offered` — the same for EVERY DEFORMED code of the
  class (every name and axis `get_deformation` accepts: 'XZZX' / 'XY' along 'x' / 'y'), every
  size: the deformed getters assemble the relabelled rows, these form a valid code, `code.d`
  is `min Lx Ly` and that is the true distance (`C17.distance_deformation_invariant`: a
  per-qubit permutation of {X, Y, Z} preserves weight, commutation and span).
-/
import PanqecVerif.Properties.C01RotatedPlanar2DCode
import PanqecVerif.Proofs.DistRotatedPlanar2DCode
import PanqecVerif.Proofs.Dist
import PanqecVerif.Proofs.DistDeform

namespace Panqec.C17RotatedPlanar2DCode
open Panqec.RotatedPlanar2DCode Panqec.Lat2D

/-- the row of `logicals_x` has Pauli weight `Lx`, the row of `logicals_z` weight `Ly` —
    every `Lx, Ly ≥ 1` -/
theorem weights_listed (Lx Ly : Nat) (hx : 1 ≤ Lx) (hy : 1 ≤ Ly) :
    (lattice Lx Ly).rowsX.map pauliWeight = [Lx] ∧
    (lattice Lx Ly).rowsZ.map pauliWeight = [Ly] :=
  RotatedPlanar2DCode.weights_listed hx hy

/-- what `code.d` returns — the minimum weight over the listed logical operators — is
    `min Lx Ly`, every `Lx, Ly ≥ 1` -/
theorem reported_distance (Lx Ly : Nat) (hx : 1 ≤ Lx) (hy : 1 ≤ Ly) :
    Panqec.distance (lattice Lx Ly).rowsX (lattice Lx Ly).rowsZ = some (min Lx Ly) :=
  RotatedPlanar2DCode.reported_distance hx hy

/-- no non-trivial logical operator (commutes with every generator, is not a product of
    generators) of the `Lx × Ly` rotated planar code is lighter than `min Lx Ly` — every
    `Lx, Ly ≥ 1` -/
theorem lower_bound (Lx Ly : Nat) (hx : 1 ≤ Lx) (hy : 1 ≤ Ly) :
    ∀ v, IsNontrivialLogical (Lx * Ly) (lattice Lx Ly).rowsH v → min Lx Ly ≤ pauliWeight v :=
  RotatedPlanar2DCode.lower_bound hx hy (C01RotatedPlanar2DCode.valid_code Lx Ly hx hy).2.2.2

/-- THE C17 STATEMENT FOR ALL SIZES (`Lx, Ly ≥ 1`): the code distance of the `Lx × Ly` rotated
    planar code — the minimum weight of a non-trivial logical operator of the assembled
    parity-check matrix — is `min Lx Ly` -/
theorem distance (Lx Ly : Nat) (hx : 1 ≤ Lx) (hy : 1 ≤ Ly) :
    IsDistance (Lx * Ly) (lattice Lx Ly).rowsH (min Lx Ly) :=
  distance_criterion (C01RotatedPlanar2DCode.valid_code Lx Ly hx hy).2.2.2 (min Lx Ly)
    (exists_listed_of_distance _ _ _ (reported_distance Lx Ly hx hy)) (lower_bound Lx Ly hx hy)

/-- the same, stated for whatever `code.d` reports: the reported distance exists and is the
    true distance -/
theorem distance_reported (Lx Ly : Nat) (hx : 1 ≤ Lx) (hy : 1 ≤ Ly) :
    ∃ d, Panqec.distance (lattice Lx Ly).rowsX (lattice Lx Ly).rowsZ = some d ∧
      IsDistance (Lx * Ly) (lattice Lx Ly).rowsH d :=
  ⟨min Lx Ly, reported_distance Lx Ly hx hy, distance Lx Ly hx hy⟩

/-! ### deformed codes (`code.deform(name, deformation_axis=axis)`) -/

/-- the class offers the deformations 'XZZX' and 'XY' along the axes 'x' and 'y' (`none` = keyword
    omitted = the default 'y', `C01RotatedPlanar2DCode.deformation_default_axis`): for these
    `get_deformation` is defined on every qubit of every lattice (for any other name or axis it
    raises, `C01RotatedPlanar2DCode.deformation_rule_bad_name` / `_bad_axis`) -/
theorem deformation_defined (Lx Ly : Nat) (name : String) (axis : Option String)
    (hn : name = "XZZX" ∨ name = "XY") (ha : axis = none ∨ axis = some "x" ∨ axis = some "y")
    (q : Coord) (hq : q ∈ (lattice Lx Ly).qubits) : ∃ m, getDeformation name axis q = some m := by
  have key : ∀ a : String, a = "x" ∨ a = "y" → ∃ m, getDeformation name (some a) q = some m := by
    intro a ha'
    rcases hn with rfl | rfl
    · exact ⟨_, C01RotatedPlanar2DCode.deformation_rule_on_qubits Lx Ly a q ha' hq⟩
    · exact ⟨_, C01RotatedPlanar2DCode.deformation_rule_XY a q ha'⟩
  rcases ha with rfl | rfl | rfl
  · rw [C01RotatedPlanar2DCode.deformation_default_axis]; exact key "y" (Or.inr rfl)
  · exact key "x" (Or.inl rfl)
  · exact key "y" (Or.inr rfl)

/-- THE C17 STATEMENT FOR EVERY DEFORMED CODE OF THE CLASS, ALL SIZES (`Lx, Ly ≥ 1`): for every
    deformation name and axis for which `get_deformation` is defined on the qubits (`D q` = the
    relabelling it returns on `q`), the matrices the deformed getters assemble are the
    relabelled rows, they form a valid `[[n, 1]]` code, `code.d` reports `min Lx Ly`, and
    `min Lx Ly` is the true distance of the deformed code -/
theorem distance_deformed (Lx Ly : Nat) (hx : 1 ≤ Lx) (hy : 1 ≤ Ly) (name : String)
    (axis : Option String) (D : Coord → PauliMap)
    (hD : ∀ q ∈ (lattice Lx Ly).qubits, getDeformation name axis q = some (D q)) :
    stabilizerMatrix ((lattice Lx Ly).toCodeData.deform D) =
        some ((lattice Lx Ly).rowsH.map (deformBsf ((lattice Lx Ly).qubits.map D))) ∧
    logicalsX ((lattice Lx Ly).toCodeData.deform D) =
        some ((lattice Lx Ly).rowsX.map (deformBsf ((lattice Lx Ly).qubits.map D))) ∧
    logicalsZ ((lattice Lx Ly).toCodeData.deform D) =
        some ((lattice Lx Ly).rowsZ.map (deformBsf ((lattice Lx Ly).qubits.map D))) ∧
    ValidCodeL (Lx * Ly) 1
      ((lattice Lx Ly).rowsH.map (deformBsf ((lattice Lx Ly).qubits.map D)))
      ((lattice Lx Ly).rowsX.map (deformBsf ((lattice Lx Ly).qubits.map D)))
      ((lattice Lx Ly).rowsZ.map (deformBsf ((lattice Lx Ly).qubits.map D))) ∧
    Panqec.distance ((lattice Lx Ly).rowsX.map (deformBsf ((lattice Lx Ly).qubits.map D)))
      ((lattice Lx Ly).rowsZ.map (deformBsf ((lattice Lx Ly).qubits.map D))) =
        some (min Lx Ly) ∧
    IsDistance (Lx * Ly)
      ((lattice Lx Ly).rowsH.map (deformBsf ((lattice Lx Ly).qubits.map D))) (min Lx Ly) :=
  Lattice.deformed_distance (lattice Lx Ly) (C01RotatedPlanar2DCode.wf Lx Ly hx hy)
    (C01RotatedPlanar2DCode.n_formula Lx Ly) (C01RotatedPlanar2DCode.valid_code Lx Ly hx hy).2.2.2
    (reported_distance Lx Ly hx hy) (distance Lx Ly hx hy) D
    (fun q hq => Lat2D.deformBy_isPerm (hD q hq))

/-- the relabelling `get_deformation(·, name, axis)` as a function of the location (identity
    where it raises — nowhere on the qubits for the offered names and axes) -/
def deformationOf (name : String) (axis : Option String) (q : Coord) : PauliMap :=
  (getDeformation name axis q).getD PauliMap.id

/-- the deformed code of every offered name and axis has distance `min Lx Ly` — every size -/
theorem distance_deformed_offered (Lx Ly : Nat) (hx : 1 ≤ Lx) (hy : 1 ≤ Ly)
    (name : String) (axis : Option String) (hn : name = "XZZX" ∨ name = "XY")
    (ha : axis = none ∨ axis = some "x" ∨ axis = some "y") :
    IsDistance (Lx * Ly)
      ((lattice Lx Ly).rowsH.map
        (deformBsf ((lattice Lx Ly).qubits.map (deformationOf name axis)))) (min Lx Ly) :=
  (distance_deformed Lx Ly hx hy name axis (deformationOf name axis) (fun q hq => by
    obtain ⟨m, hm⟩ := deformation_defined Lx Ly name axis hn ha q hq
    unfold deformationOf
    rw [hm]; rfl)).2.2.2.2.2

/-! ### non-vacuity -/

example : IsDistance 12 (lattice 3 4).rowsH 3 := distance 3 4 (by decide) (by decide)
example : IsDistance 70 (lattice 10 7).rowsH 7 := distance 10 7 (by decide) (by decide)
/-- the smallest member of the family: one qubit, no generator, distance 1 -/
example : IsDistance 1 (lattice 1 1).rowsH 1 := distance 1 1 (by decide) (by decide)
/-- the hypothesis of `lower_bound` is satisfiable: the listed logical X is a non-trivial
    logical operator -/
example : IsNontrivialLogical 6 (lattice 2 3).rowsH ((lattice 2 3).rowsX.getD 0 []) :=
  listedX_nontrivial (C01RotatedPlanar2DCode.valid_code 2 3 (by decide) (by decide)).2.2.2
    (by decide)
example : (lattice 2 3).rowsX.map pauliWeight = [2] ∧ (lattice 2 3).rowsZ.map pauliWeight = [3] :=
  weights_listed 2 3 (by decide) (by decide)

/-- the XZZX code on the `3 × 4` lattice has distance 3; its first generator is relabelled -/
example : IsDistance 12 ((lattice 3 4).rowsH.map
    (deformBsf ((lattice 3 4).qubits.map (deformationOf "XZZX" (some "x"))))) 3 :=
  distance_deformed_offered 3 4 (by decide) (by decide) "XZZX" (some "x") (Or.inl rfl) (Or.inr (Or.inl rfl))
example : ((lattice 2 2).rowsH.map
    (deformBsf ((lattice 2 2).qubits.map (deformationOf "XZZX" (some "x"))))) ≠ (lattice 2 2).rowsH := by
  decide

end Panqec.C17RotatedPlanar2DCode
