/-
C17 for `RotatedPlanar2DCode`, ALL sizes of the supported family (`Lx ≥ 1`, `Ly ≥ 1`, no upper
bound): the distance `code.d` reports is the true code distance, `min Lx Ly`.

The matrices are the ones the generic code model assembles from the hand-written lattice model
`Model/Lattices/RotatedPlanar2DCode.lean` (tied to
`panqec/codes/surface_2d/_rotated_planar_2d_code.py` by the correspondence streams of
`harness/lattices/rotatedplanar2dcode.py`); they form a valid `[[Lx·Ly, 1]]` code for every size
(`C01RotatedPlanar2DCode.valid_code`).

* `reported_distance` — `code.d` (`distance`, the minimum Pauli weight over the rows of
  `logicals_x` and `logicals_z`, as `StabilizerCode.d` computes it) is `min Lx Ly`; the listed
  logical X (row `y = 1`) has weight `Lx`, the listed logical Z (column `x = 1`) weight `Ly`
  (`weights_listed`).
* `lower_bound` — every non-trivial logical operator has weight `≥ min Lx Ly`.  Packing argument
  (`Proofs/DistLattice.lean`, `Proofs/DistRotatedPlanar2DCode.lean`): a non-trivial logical
  anticommutes with `X̄` or `Z̄` (C04); `X̄` has the `Ly` translates `y = 2i + 1`, `Z̄` the `Lx`
  translates `x = 2i + 1`, pairwise disjoint; the X-type generators of the row `y = 2i + 2`
  (every other site, weight-2 generators at the two ends) tile the two neighbouring qubit rows
  like dominoes, so their product is the product of the two rows (same for the Z-type
  generators of a column): every operator commuting with all generators anticommutes with each
  translate exactly when it anticommutes with the line.
* `distance` — `IsDistance (Lx·Ly) H (min Lx Ly)`; `distance_reported` states it for the
  reported `d`.
-/
import PanqecVerif.Properties.C01RotatedPlanar2DCode
import PanqecVerif.Proofs.DistRotatedPlanar2DCode
import PanqecVerif.Proofs.Dist

namespace Panqec.C17RotatedPlanar2DCode
open Panqec.RotatedPlanar2DCode Panqec.Lat2D

/-- the row of `logicals_x` has Pauli weight `Lx`, the row of `logicals_z` weight `Ly` —
    every `Lx, Ly ≥ 1` -/
theorem weights_listed (Lx Ly : Nat) (hx : 1 ≤ Lx) (hy : 1 ≤ Ly) :
    (lattice Lx Ly).rowsX.map pauliWeight = [Lx] ∧
    (lattice Lx Ly).rowsZ.map pauliWeight = [Ly] :=
  RotatedPlanar2DCode.weights_listed hx hy

/-- what `code.d` returns — the minimum weight over the listed logical operators — is
    `min Lx Ly`, every `Lx, Ly ≥ 1` -/
theorem reported_distance (Lx Ly : Nat) (hx : 1 ≤ Lx) (hy : 1 ≤ Ly) :
    Panqec.distance (lattice Lx Ly).rowsX (lattice Lx Ly).rowsZ = some (min Lx Ly) :=
  RotatedPlanar2DCode.reported_distance hx hy

/-- no non-trivial logical operator (commutes with every generator, is not a product of
    generators) of the `Lx × Ly` rotated planar code is lighter than `min Lx Ly` — every
    `Lx, Ly ≥ 1` -/
theorem lower_bound (Lx Ly : Nat) (hx : 1 ≤ Lx) (hy : 1 ≤ Ly) :
    ∀ v, IsNontrivialLogical (Lx * Ly) (lattice Lx Ly).rowsH v → min Lx Ly ≤ pauliWeight v :=
  RotatedPlanar2DCode.lower_bound hx hy (C01RotatedPlanar2DCode.valid_code Lx Ly hx hy).2.2.2

/-- THE C17 STATEMENT FOR ALL SIZES (`Lx, Ly ≥ 1`): the code distance of the `Lx × Ly` rotated
    planar code — the minimum weight of a non-trivial logical operator of the assembled
    parity-check matrix — is `min Lx Ly` -/
theorem distance (Lx Ly : Nat) (hx : 1 ≤ Lx) (hy : 1 ≤ Ly) :
    IsDistance (Lx * Ly) (lattice Lx Ly).rowsH (min Lx Ly) :=
  distance_criterion (C01RotatedPlanar2DCode.valid_code Lx Ly hx hy).2.2.2 (min Lx Ly)
    (exists_listed_of_distance _ _ _ (reported_distance Lx Ly hx hy)) (lower_bound Lx Ly hx hy)

/-- the same, stated for whatever `code.d` reports: the reported distance exists and is the
    true distance -/
theorem distance_reported (Lx Ly : Nat) (hx : 1 ≤ Lx) (hy : 1 ≤ Ly) :
    ∃ d, Panqec.distance (lattice Lx Ly).rowsX (lattice Lx Ly).rowsZ = some d ∧
      IsDistance (Lx * Ly) (lattice Lx Ly).rowsH d :=
  ⟨min Lx Ly, reported_distance Lx Ly hx hy, distance Lx Ly hx hy⟩

/-! ### non-vacuity -/

example : IsDistance 12 (lattice 3 4).rowsH 3 := distance 3 4 (by decide) (by decide)
example : IsDistance 70 (lattice 10 7).rowsH 7 := distance 10 7 (by decide) (by decide)
/-- the smallest member of the family: one qubit, no generator, distance 1 -/
example : IsDistance 1 (lattice 1 1).rowsH 1 := distance 1 1 (by decide) (by decide)
/-- the hypothesis of `lower_bound` is satisfiable: the listed logical X is a non-trivial
    logical operator -/
example : IsNontrivialLogical 6 (lattice 2 3).rowsH ((lattice 2 3).rowsX.getD 0 []) :=
  listedX_nontrivial (C01RotatedPlanar2DCode.valid_code 2 3 (by decide) (by decide)).2.2.2
    (by decide)
example : (lattice 2 3).rowsX.map pauliWeight = [2] ∧ (lattice 2 3).rowsZ.map pauliWeight = [3] :=
  weights_listed 2 3 (by decide) (by decide)

end Panqec.C17RotatedPlanar2DCode
