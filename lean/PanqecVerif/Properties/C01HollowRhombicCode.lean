/-
C01 for `HollowRhombicCode`, ALL sizes of the supported family (`Lx, Ly ≥ 2`, `Lz ≥ 3`; DESIGN.md
section 4 — the theorems below even hold for `Lx, Ly ≥ 1`): the hand-written lattice model
`Model/Lattices/HollowRhombicCode.lean` (tied to `panqec/codes/surface_3d/_hollow_rhombic_code.py` by
the correspondence streams of `harness/lattices/hollowrhombiccode.py`) is a well-formed coordinate
system (distinct and disjoint coordinates, every operator a dict supported on qubits, no empty
generator: the C02 clause for every size) whose generators commute — a cube of the checkerboard
contains two of the three potential qubits of an adjacent triangle, and the selection rule of the
triangle loop (number of keys, magnetic / electric boundary bands, `em_edge`, `constant_z`) is shown
to keep a two-key triangle only where both cubes that would see a single key of it are absent —
whose logical pair (the sheet `z = 4` of X, the line `(2Lx−1, 2Ly−2, ·)` of Z) commutes with the
generators and anticommutes with each other; `n` and `n_stabilizers` in closed form, `k = 1`;
`get_deformation` follows the stated rule.

RANK CLAUSE.  The GF(2) rank of the generators is `n − k` for most sizes of the family but NOT for all
(recorded known finding).  `Deficient Lx Ly Lz` — the hole is one layer of edges thin in one direction
and at least two unit cells wide in the two others: `Lx = 3 ∧ Ly ≥ 6 ∧ Lz ≥ 6`, or `Ly = 4 ∧ Lx ≥ 5 ∧ Lz ≥ 6`,
or `Lz = 4 ∧ Lx ≥ 5 ∧ Ly ≥ 6` — is the exact set of sizes with a smaller rank (measured on every size with
`Lx ≤ 7`, `Ly, Lz ≤ 9`, `n ≤ 900`: 332 sizes, 40 deficient, deficit `⌈ab/2⌉` with `a, b ≥ 1` the numbers of
unit cells of the thin hole in its two wide directions).
NEGATIVE SIDE, proved for EVERY deficient size (`deficient_not_valid`; the three families
`thin_hole_family_x / _y / _z`; instance `thin_hole_rank_deficient`): an undeclared second logical pair,
hence rank `≤ n − 2`, not a valid `[[n, 1]]` code.
POSITIVE SIDE, proved for EVERY size of the family that is not deficient (`valid_code`): `rankFamily`
(all cubes; the triangles selected by `selTri`: the family of `RhombicPlanarCode` restricted to the
listed triangles, plus the triangles of axis 1 at the vertices next to the hole and the lower
triangles of axis 0 under the hole edges `(3, ·, 3)`, `(·, 3, 3)` and along the hole edge `(3, 3, ·)`) is
independent for EVERY size (`generators_independent`: triangular family of probes, single qubits and
four families of two- and three-qubit probes) and has `n − 1` members for every non-deficient size
(`generators_count`: partition of the selected triangles into boxes of arithmetic progressions,
checkerboard counts) — all four clauses of C01, rank included.
Together (`valid_iff_not_deficient`, `rank_iff_not_deficient`): a size of the supported family is a
valid `[[n, 1]]` code, and its generators have rank `n − 1`, IFF it is not deficient.
-/
import PanqecVerif.Proofs.LatHollowRhombicCodeThinA
import PanqecVerif.Proofs.LatHollowRhombicCodeThinB
import PanqecVerif.Proofs.LatHollowRhombicCodeThinC
import PanqecVerif.Proofs.LatHollowRhombicCodeRankF
import PanqecVerif.Proofs.LatHollowRhombicCodeRankQ
import PanqecVerif.Proofs.Lat2DRankSubset

namespace Panqec.C01HollowRhombicCode
open Panqec.HollowRhombicCode Panqec.Color
open Panqec.Cubic3D (Axis opCommute_uop_same)

/-- the supported family -/
def Family (Lx Ly Lz : Nat) : Prop := 2 ≤ Lx ∧ 2 ≤ Ly ∧ 3 ≤ Lz

instance (Lx Ly Lz : Nat) : Decidable (Family Lx Ly Lz) := by unfold Family; infer_instance

/-- coordinates distinct and disjoint; every stabilizer and logical is a dict (distinct keys)
    supported on qubits with letters ≠ I; no listed generator is empty (a cube sticking out of the
    hole keeps at least one edge, a listed triangle has at least two keys) — every size of the
    family -/
theorem wf (Lx Ly Lz : Nat) (h : Family Lx Ly Lz) : (lattice Lx Ly Lz).WF :=
  wf_all (by unfold Family at h; omega) (by unfold Family at h; omega) h.2.2

/-- all pairs of generators commute, the logical X sheet and the logical Z line commute with every
    generator, `opAntiCount (X, Z)` is odd — every size of the family -/
theorem commPair (Lx Ly Lz : Nat) (h : Family Lx Ly Lz) : (lattice Lx Ly Lz).CommPair :=
  commPair_all (by unfold Family at h; omega) (by unfold Family at h; omega) h.2.2

/-- the generators commute for EVERY size (the family is not needed) -/
theorem stabilizers_commute (Lx Ly Lz : Nat) :
    ∀ s ∈ (lattice Lx Ly Lz).stabs, ∀ t ∈ (lattice Lx Ly Lz).stabs,
      opCommute ((lattice Lx Ly Lz).getStab s) ((lattice Lx Ly Lz).getStab t) = true :=
  stab_comm_all Lx Ly Lz

/-- `n` (every size): the edges of the `Lx × Ly × Lz` planar cubic lattice minus the x, y and z edges
    in the hole (natural-number subtraction: the hole is empty for `Lx ≤ 2`, `Ly ≤ 3` or `Lz ≤ 3`) -/
theorem n_formula (Lx Ly Lz : Nat) :
    (lattice Lx Ly Lz).toCodeData.n +
      ((Lx - 2) * (Ly - 4) * (Lz - 4) + (Lx - 3) * (Ly - 3) * (Lz - 4) +
        (Lx - 3) * (Ly - 4) * (Lz - 3)) =
    Lx * Ly * Lz + (Lx - 1) * (Ly - 1) * Lz + (Lx - 1) * Ly * (Lz - 1) :=
  qubits_length_add Lx Ly Lz

/-- `k = 1` (every size): one logical X sheet, one logical Z line -/
theorem k_value (Lx Ly Lz : Nat) : (lattice Lx Ly Lz).toCodeData.k = 1 := rfl

/-- the qubit list is the edge list of `Planar3DCode` with the locations in the hole removed, in
    the same order -/
theorem qubits_rule (Lx Ly Lz : Nat) :
    (lattice Lx Ly Lz).qubits = (Planar3DCode.qubits Lx Ly Lz).filter (notHoleC Lx Ly Lz) :=
  qubits_eq Lx Ly Lz

/-- `is_stabilizer` in closed form: the cubes of the checkerboard `(x+y+z) % 4 = 1` with odd
    coordinates `1 ≤ x ≤ 2Lx−1`, `−1 ≤ y ≤ 2Ly−1`, `1 ≤ z ≤ 2Lz−3` that are not entirely inside the
    hole, and the triangles `(a, x, y, z)`, `0 ≤ a ≤ 3`, at the vertices `2 ≤ x ≤ 2Lx−2`,
    `0 ≤ y ≤ 2Ly−2`, `0 ≤ z ≤ 2Lz−2` outside the hole which have at least two keys and are not
    excluded as two-key triangles of a magnetic boundary band (`TriKeep`) -/
theorem isStabilizer_rule (Lx Ly Lz : Nat) (s : Coord) :
    s ∈ (lattice Lx Ly Lz).stabs ↔ (∃ x y z, s = [x, y, z] ∧ CubeLoc Lx Ly Lz x y z) ∨
      (∃ a x y z, s = [a, x, y, z] ∧ (0 ≤ a ∧ a < 4) ∧ VertexLoc Lx Ly Lz x y z ∧
        TriKeep Lx Ly Lz (TX Lx Ly Lz a x y z) (TY Lx Ly Lz a x y z) (TZ Lx Ly Lz a x y z) x y z) :=
  mem_stabs

/-- a listed triangle has its x key iff it has its y key, and — unless its z key points out of the
    faces `z = 0`, `z = 2Lz−2` — iff it has its z key: the only truncated triangles that survive
    the selection are the two-key triangles of the two electric faces -/
theorem triangle_keys_rule (Lx Ly Lz : Nat) (a x y z : Int)
    (h : [a, x, y, z] ∈ (lattice Lx Ly Lz).stabs) :
    (TX Lx Ly Lz a x y z ↔ TY Lx Ly Lz a x y z) ∧
    ((1 ≤ z + sgnZ a x y z ∧ z + sgnZ a x y z < 2 * (Lz : Int) - 1) →
      (TY Lx Ly Lz a x y z ↔ TZ Lx Ly Lz a x y z)) := by
  rcases mem_stabs.mp h with ⟨x', y', z', e, _⟩ | ⟨a', x', y', z', e, ha, hv, hk⟩
  · have := congrArg List.length e; simp at this
  · simp only [List.cons.injEq, and_true] at e
    obtain ⟨rfl, rfl, rfl, rfl⟩ := e
    exact ⟨keep_xy hv (sgnX_cases a) (sgnY_cases a) (sgnZ_cases a x y z) hk,
      fun hcz => keep_yz hv (sgnX_cases a) (sgnY_cases a) (sgnZ_cases a x y z) hcz hk⟩

/-- every generator is the dict of its candidate locations that are qubits, in delta order: twelve
    candidates (letter `X`) on a cube, three (letter `Z`) on a triangle -/
theorem stabilizer_closed_form (Lx Ly Lz : Nat) :
    (∀ x y z, (lattice Lx Ly Lz).getStab [x, y, z] =
      ((cubeCands x y z).filter (isq Lx Ly Lz)).map (fun q => (q, Pauli.X))) ∧
    (∀ a x y z, 0 ≤ a ∧ a < 4 → (lattice Lx Ly Lz).getStab [a, x, y, z] =
      ((triCands a x y z).filter (isq Lx Ly Lz)).map (fun q => (q, Pauli.Z))) :=
  ⟨fun x y z => getStab_cube' Lx Ly Lz x y z, fun _ _ _ _ ha => getStab_tri' Lx Ly Lz ha⟩

/-- `'Checkerboard XZZX'`: X↔Z exactly on the z edges with `z % 4 = 3 ∧ (x+y) % 4 = 2` or
    `z % 4 = 1 ∧ (x+y) % 4 = 0`; the identity on all other edges (keyword arguments are ignored) -/
theorem deformation_rule (x y z : Int) (a : Axis) (h : qubitAxis [x, y, z] = some a) :
    getDeformation "Checkerboard XZZX" [x, y, z] =
      DeformResult.map (if a = Axis.z ∧ ((z % 4 = 3 ∧ (x + y) % 4 = 2) ∨ (z % 4 = 1 ∧ (x + y) % 4 = 0))
        then PauliMap.swapXZ else PauliMap.id) := by
  unfold getDeformation
  rw [if_pos rfl]
  simp only [h]
  split <;> rfl

/-- on a location that is not an edge of the cubic lattice: ValueError (from `qubit_axis`) -/
theorem deformation_rule_not_edge (loc : Coord) (h : qubitAxis loc = none) :
    getDeformation "Checkerboard XZZX" loc = DeformResult.valueError := by
  unfold getDeformation
  rw [if_pos rfl]
  match loc, h with
  | [x, y, z], h => simp only [h]
  | [], _ => rfl
  | [_], _ => rfl
  | [_, _], _ => rfl
  | _ :: _ :: _ :: _ :: _, _ => rfl

/-- any name other than `'Checkerboard XZZX'`: ValueError, whatever the location -/
theorem deformation_rule_bad_name (name : String) (loc : Coord) (h : name ≠ "Checkerboard XZZX") :
    getDeformation name loc = DeformResult.valueError := by
  unfold getDeformation; rw [if_neg h]

/-- on the qubits of every lattice the deformation never raises: it returns one of the two maps,
    both permutations of `{X, Y, Z}` -/
theorem deformation_rule_on_qubits (Lx Ly Lz : Nat) (q : Coord) (h : q ∈ (lattice Lx Ly Lz).qubits) :
    getDeformation "Checkerboard XZZX" q = DeformResult.map PauliMap.swapXZ ∨
    getDeformation "Checkerboard XZZX" q = DeformResult.map PauliMap.id := by
  obtain ⟨x, y, z, rfl⟩ := shape_of_mem_qubits h
  have hp := qubit_parity h
  have : ∃ a, qubitAxis [x, y, z] = some a := by
    rcases hp with ⟨h1, h2, h3⟩ | ⟨h1, h2, h3⟩ | ⟨h1, h2, h3⟩
    · exact ⟨_, Cubic3D.qubitAxis_x h1 h2 h3⟩
    · exact ⟨_, Cubic3D.qubitAxis_y h1 h2 h3⟩
    · exact ⟨_, Cubic3D.qubitAxis_z h1 h2 h3⟩
  obtain ⟨a, ha⟩ := this
  rw [deformation_rule x y z a ha]
  split
  · exact Or.inl rfl
  · exact Or.inr rfl

/-- `qubit_axis` on the qubits: the direction of the edge -/
theorem qubitAxis_rule (Lx Ly Lz : Nat) (x y z : Int) (h : [x, y, z] ∈ (lattice Lx Ly Lz).qubits) :
    qubitAxis [x, y, z] =
      some (if x % 2 = 1 then Axis.x else if y % 2 = 1 then Axis.y else Axis.z) := by
  rcases qubit_parity h with ⟨h1, h2, h3⟩ | ⟨h1, h2, h3⟩ | ⟨h1, h2, h3⟩
  · show Cubic3D.qubitAxis [x, y, z] = _
    rw [Cubic3D.qubitAxis_x h1 h2 h3, if_pos h1]
  · show Cubic3D.qubitAxis [x, y, z] = _
    rw [Cubic3D.qubitAxis_y h1 h2 h3, if_neg (by omega), if_pos h2]
  · show Cubic3D.qubitAxis [x, y, z] = _
    rw [Cubic3D.qubitAxis_z h1 h2 h3, if_neg (by omega), if_neg (by omega)]


/-- NEGATIVE RESULT (kernel-checked, recorded known finding): `HollowRhombicCode(3, 6, 6)` — inside
    the supported family — is NOT a valid `[[224, 1]]` code.  Commutation and pairing hold (`commPair`),
    but the lattice carries a second, undeclared logical pair (`X2keys`, weight 10; `Z2keys`, weight 6:
    they commute with all 277 generators and with the declared sheet and line, and anticommute with
    each other — `second_logical_pair`), so that every independent family of generators has at most
    `n − 2 = 222` members: the rank clause `rank = n − k = 223` fails.  The matrices are the ones the
    generic code model assembles from the lattice model (the same objects as in the `valid_code`
    theorems of the other classes). -/
theorem thin_hole_rank_deficient :
    (lattice 3 6 6).toCodeData.n = 224 ∧ (lattice 3 6 6).toCodeData.k = 1 ∧
    stabilizerMatrix (lattice 3 6 6).toCodeData = some (lattice 3 6 6).rowsH ∧
    (∀ r, HasRank (2 * 224) (lattice 3 6 6).rowsH r → r ≤ 222) ∧
    ¬ ValidCodeL 224 1 (lattice 3 6 6).rowsH (lattice 3 6 6).rowsX (lattice 3 6 6).rowsZ := by
  refine ⟨n_366, rfl, Lattice.stabilizerMatrix_eq (wf 3 6 6 (by decide)), rank_le_366, ?_⟩
  intro h
  have := rank_le_366 _ h.rank
  omega

/-- the second logical pair of `HollowRhombicCode(3, 6, 6)`: the lattice with `X2`, `Z2` added to the
    declared logical operators is well formed and satisfies every commutation / pairing clause with
    `k = 2` -/
theorem second_logical_pair : lat2.WF ∧ lat2.CommPair ∧ lat2.logX.length = 2 ∧
    lat2.stabs = (lattice 3 6 6).stabs ∧ lat2.qubits = (lattice 3 6 6).qubits :=
  ⟨lat2_wf, lat2_commPair, by rw [lat2_logX]; rfl, rfl, rfl⟩


/-- the statement "not a valid `[[n, 1]]` code although commutation and pairing hold": every
    independent family of generators has at most `n − 2` members -/
def RankDeficient (l : Lattice) : Prop :=
  l.CommPair ∧ (∀ r, HasRank (2 * l.toCodeData.n) l.rowsH r → r + 2 ≤ l.toCodeData.n) ∧
  ¬ ValidCodeL l.toCodeData.n 1 l.rowsH l.rowsX l.rowsZ

/-- commutation and pairing with a rank bound `n − 2` give `RankDeficient`: the rank clause
    `rank = n − 1` of `ValidCodeL n 1` cannot hold -/
theorem rankDeficient_of {l : Lattice} (hc : l.CommPair)
    (h : ∀ r, HasRank (2 * l.qubits.length) l.rowsH r → r + 2 ≤ l.qubits.length) : RankDeficient l := by
  refine ⟨hc, h, ?_⟩
  intro hv
  have := h _ hv.rank
  have e : l.toCodeData.n = l.qubits.length := rfl
  omega

/-- NEGATIVE RESULT FOR A WHOLE FAMILY (recorded known finding): for EVERY `Ly, Lz ≥ 6` the class
    `HollowRhombicCode(3, Ly, Lz)` — hole one layer thin in `x` — is not a valid `[[n, 1]]` code: the
    plaquette `X2 = {(2,5,4), (2,5,6), (2,4,5), (2,6,5)}` next to the hole and the operator
    `Z2` of weight 6 form an undeclared second logical pair -/
theorem thin_hole_family_x (Ly Lz : Nat) (hy : 6 ≤ Ly) (hz : 6 ≤ Lz) :
    Family 3 Ly Lz ∧ RankDeficient (lattice 3 Ly Lz) :=
  ⟨⟨by decide, by omega, by omega⟩,
    rankDeficient_of (commPair 3 Ly Lz ⟨by decide, by omega, by omega⟩) (ThinA.rank_le hy hz)⟩

/-- the same for every `Lx ≥ 5`, `Lz ≥ 6` with `Ly = 4` (hole one layer thin in `y`; plaquette
    `{(5,2,4), (5,2,6), (4,2,5), (6,2,5)}`) -/
theorem thin_hole_family_y (Lx Lz : Nat) (hx : 5 ≤ Lx) (hz : 6 ≤ Lz) :
    Family Lx 4 Lz ∧ RankDeficient (lattice Lx 4 Lz) :=
  ⟨⟨by omega, by decide, by omega⟩,
    rankDeficient_of (commPair Lx 4 Lz ⟨by omega, by decide, by omega⟩) (ThinB.rank_le hx hz)⟩

/-- the same for every `Lx ≥ 5`, `Ly ≥ 6` with `Lz = 4` (hole one layer thin in `z`; plaquette
    `{(5,4,2), (5,6,2), (4,5,2), (6,5,2)}`) -/
theorem thin_hole_family_z (Lx Ly : Nat) (hx : 5 ≤ Lx) (hy : 6 ≤ Ly) :
    Family Lx Ly 4 ∧ RankDeficient (lattice Lx Ly 4) :=
  ⟨⟨by omega, by omega, by decide⟩,
    rankDeficient_of (commPair Lx Ly 4 ⟨by omega, by omega, by decide⟩) (ThinC.rank_le hx hy)⟩

/-- THE EXACT SET OF RANK-DEFICIENT SIZES (measured on the implementation: GF(2) rank of
    `stabilizer_matrix` against `n − k` for every size of the family with `Lx ≤ 7`, `Ly, Lz ≤ 9`,
    `n ≤ 900` — 332 sizes, 40 of them deficient, exactly the ones below; the positive theorem
    `valid_code`, `deficient_not_valid` and `valid_iff_not_deficient` are the proof: `Deficient` is exact).  The hole of the class has
    `(Lx − 3) × (Ly − 4) × (Lz − 4)` vertices and is one layer of edges thin in `x` for `Lx = 3`, in `y` for
    `Ly = 4`, in `z` for `Lz = 4`; a size is deficient iff the hole is thin in one direction and at least
    two unit cells wide in the other two: with `a, b` the numbers of unit cells of the thin hole in the
    two wide directions (`(Ly − 5, Lz − 5)`, `(Lx − 4, Lz − 5)`, `(Lx − 4, Ly − 5)`), `a, b ≥ 1`, the measured
    deficit is `⌈a·b / 2⌉` -/
def Deficient (Lx Ly Lz : Nat) : Prop :=
  (Lx = 3 ∧ 6 ≤ Ly ∧ 6 ≤ Lz) ∨ (Ly = 4 ∧ 5 ≤ Lx ∧ 6 ≤ Lz) ∨ (Lz = 4 ∧ 5 ≤ Lx ∧ 6 ≤ Ly)

instance (Lx Ly Lz : Nat) : Decidable (Deficient Lx Ly Lz) := by unfold Deficient; infer_instance

/-- a deficient size is a size of the supported family -/
theorem deficient_family {Lx Ly Lz : Nat} (h : Deficient Lx Ly Lz) : Family Lx Ly Lz := by
  unfold Deficient at h; unfold Family; omega

/-- NEGATIVE SIDE, EVERY DEFICIENT SIZE (recorded known finding): commutation and pairing hold, but
    an undeclared second logical pair exists, every independent family of generators has at most
    `n − 2` members and the class is not a valid `[[n, 1]]` code (the three thin-hole families
    together) -/
theorem deficient_not_valid (Lx Ly Lz : Nat) (h : Deficient Lx Ly Lz) :
    RankDeficient (lattice Lx Ly Lz) := by
  rcases h with ⟨rfl, hy, hz⟩ | ⟨rfl, hx, hz⟩ | ⟨rfl, hx, hy⟩
  · exact (thin_hole_family_x Ly Lz hy hz).2
  · exact (thin_hole_family_y Lx Lz hx hz).2
  · exact (thin_hole_family_z Lx Ly hx hy).2

/-! ### the positive side of the rank clause -/

/-- THE INDEPENDENT FAMILY (operator level, EVERY size with `Ly ≥ 1`, deficient sizes included): the
    members of `rankFamily` — all cubes; all triangles of axis 3 and 2; of axis 1 those at a vertex
    where the triangle of axis 3 or 2 is not listed (the row `y = 2Ly−2` and the vertices next to the
    hole); of axis 0 those of the last column `x = 2Lx−2`, the upper one (`(x+y+z) % 4 = 2`, `z ≥ 2`) of
    the two that share a z edge, the lower one where the upper one is not listed, and the lower ones
    `(0, 2, 2, z)`, `z % 4 = 0`, `8 ≤ z ≤ 2Lz−6`, along the hole edge `x = y = 3` when `Lx, Ly ≥ 4` or `Lx = 3`,
    `Ly ≥ 5`, and for `Lz = 4` the lower ones `(0, 2, y, 2)` under the hole edge `(3, ·, 3)` (`Lx = 4`, `Ly ≥ 5`) or
    `(0, x, 2, 2)` under the hole edge `(·, 3, 3)` (`Ly = 5`, `Lx ≥ 5`) — are independent: every non-empty
    duplicate-free sub-family has a Pauli operator on the qubits anticommuting with an odd number of
    its members (a triangular family of probes: single qubits, and `X(3,2,z) X(4,2,z−1) X(3,2,z−2)` /
    `X(2,3,z) X(2,4,z−1) X(2,3,z−2)` / `X(3,y,2) X(4,y−1,2) X(3,y−2,2)` / `X(x,3,2) X(x−1,4,2)` for the kept
    lower triangles) -/
theorem generators_independent (Lx Ly Lz : Nat) (hy : 1 ≤ Ly) :
    Lat2D.IndepGenerators (lattice Lx Ly Lz) (rankFamily Lx Ly Lz) :=
  indep_rankFamily Lx Ly Lz hy

/-- the family consists of distinct stabilizer locations (every size) -/
theorem generators_listed (Lx Ly Lz : Nat) :
    (rankFamily Lx Ly Lz).Nodup ∧ ∀ s ∈ rankFamily Lx Ly Lz, s ∈ (lattice Lx Ly Lz).stabs :=
  ⟨nodup_rankFamily Lx Ly Lz, fun _ hs => rankFamily_sub hs⟩

/-- the regimes in which the family is counted: no hole or a hole one layer thin in two directions
    (`NoHole`: `_is_in_hole` is never true on a vertex, a leg or a corner); a hole at least two layers
    thick in every direction; the seven one-parameter families of sizes whose hole is thin in one
    direction and that are not deficient -/
def Covered (Lx Ly Lz : Nat) : Prop :=
  NoHole Lx Ly Lz ∨ (4 ≤ Lx ∧ 5 ≤ Ly ∧ 5 ≤ Lz) ∨ (Lx = 3 ∧ 4 ≤ Ly ∧ Lz = 5) ∨ (Lx = 3 ∧ Ly = 4 ∧ 5 ≤ Lz) ∨
  (Lx = 3 ∧ Ly = 5 ∧ 5 ≤ Lz) ∨ (Lx = 4 ∧ Ly = 4 ∧ 5 ≤ Lz) ∨ (4 ≤ Lx ∧ Ly = 4 ∧ Lz = 5) ∨
  (Lx = 4 ∧ 5 ≤ Ly ∧ Lz = 4) ∨ (5 ≤ Lx ∧ Ly = 5 ∧ Lz = 4)

instance (Lx Ly Lz : Nat) : Decidable (Covered Lx Ly Lz) := by unfold Covered; infer_instance

/-- the regimes cover exactly the sizes of the family that are not deficient -/
theorem covered_iff {Lx Ly Lz : Nat} (h : Family Lx Ly Lz) :
    Covered Lx Ly Lz ↔ ¬ Deficient Lx Ly Lz := by
  unfold Family at h
  constructor
  · intro hc
    unfold Covered NoHole at hc
    unfold Deficient
    rcases hc with (hc | hc | hc | hc | hc | hc) | hc | hc | hc | hc | hc | hc | hc | hc <;> omega
  · intro hd
    unfold Deficient at hd
    unfold Covered NoHole
    by_cases a1 : Lx ≤ 2
    · exact Or.inl (Or.inl a1)
    by_cases a2 : Ly ≤ 3
    · exact Or.inl (Or.inr (Or.inl a2))
    by_cases a3 : Lz ≤ 3
    · exact Or.inl (Or.inr (Or.inr (Or.inl a3)))
    by_cases b1 : Lx = 3
    · by_cases b2 : Ly = 4
      · exact Or.inl (Or.inr (Or.inr (Or.inr (Or.inl ⟨b1, b2⟩))))
      by_cases b3 : Lz = 4
      · exact Or.inl (Or.inr (Or.inr (Or.inr (Or.inr (Or.inl ⟨b1, b3⟩)))))
      by_cases b4 : Lz = 5
      · exact Or.inr (Or.inr (Or.inl ⟨b1, by omega, b4⟩))
      · exact Or.inr (Or.inr (Or.inr (Or.inr (Or.inl ⟨b1, by omega, by omega⟩))))
    by_cases c1 : Ly = 4
    · by_cases c2 : Lz = 4
      · exact Or.inl (Or.inr (Or.inr (Or.inr (Or.inr (Or.inr ⟨c1, c2⟩)))))
      by_cases c3 : Lz = 5
      · exact Or.inr (Or.inr (Or.inr (Or.inr (Or.inr (Or.inr (Or.inl ⟨by omega, c1, c3⟩))))))
      · exact Or.inr (Or.inr (Or.inr (Or.inr (Or.inr (Or.inl ⟨by omega, c1, by omega⟩)))))
    by_cases d1 : Lz = 4
    · by_cases d2 : Lx = 4
      · exact Or.inr (Or.inr (Or.inr (Or.inr (Or.inr (Or.inr (Or.inr (Or.inl ⟨d2, by omega, d1⟩)))))))
      · exact Or.inr (Or.inr (Or.inr (Or.inr (Or.inr (Or.inr (Or.inr (Or.inr
          ⟨by omega, by omega, d1⟩)))))))
    · exact Or.inr (Or.inl ⟨by omega, by omega, by omega⟩)

/-- the family has exactly `n − k = n − 1` members: EVERY size of the family that is not deficient -/
theorem generators_count (Lx Ly Lz : Nat) (h : Family Lx Ly Lz) (hd : ¬ Deficient Lx Ly Lz) :
    (rankFamily Lx Ly Lz).length + (lattice Lx Ly Lz).toCodeData.k = (lattice Lx Ly Lz).toCodeData.n := by
  show (rankFamily Lx Ly Lz).length + 1 = (qubits Lx Ly Lz).length
  have hc := (covered_iff h).mpr hd
  obtain ⟨hx, hy, hz⟩ := h
  rcases hc with hc | ⟨h1, h2, h3⟩ | ⟨e1, h2, e3⟩ | ⟨e1, e2, h3⟩ | ⟨e1, e2, h3'⟩ | ⟨e1, e2, h3⟩ |
    ⟨h1, e2, e3⟩ | ⟨e1, h2, e3⟩ | ⟨h1, e2, e3⟩
  · exact noHole_count hc hx hy (by omega)
  · exact thick_count h1 h2 h3
  · rw [e1, e3]; exact count_3_L_5 Ly h2
  · rw [e1, e2]; exact count_3_4_L Lz h3
  · rw [e1, e2]; exact count_3_5_L Lz h3'
  · rw [e1, e2]; exact count_4_4_L Lz h3
  · rw [e2, e3]; exact count_L_4_5 Lx h1
  · rw [e1, e3]; exact count_4_L_4 Ly h2
  · rw [e2, e3]; exact count_L_5_4 Lx h1

/-- the number of cubes (every size): the cubes of the checkerboard in the box `Lx × (Ly+1) × (Lz−1)`
    (rounded up) minus those with all eight corners in the hole (the box
    `(Lx−4) × (Ly−5) × (Lz−5)`, rounded down) -/
theorem n_cubes (Lx Ly Lz : Nat) :
    (cubes Lx Ly Lz).length + (Lx - 4) * ((Ly - 5) * (Lz - 5)) / 2 =
      (Lx * ((Ly + 1) * (Lz - 1)) + 1) / 2 := by
  have := cubes_count Lx Ly Lz
  unfold Rhombic.half at this
  simpa using this

/-- the number of vertices in the hole and next to it where triangles are missing: `abc + ab + ac + bc`
    for a hole of `a × b × c = (Lx−3) × (Ly−4) × (Lz−4)` vertices (`0` without hole) -/
def holeTerm (Lx Ly Lz : Nat) : Nat :=
  if 3 ≤ Lx ∧ 4 ≤ Ly ∧ 4 ≤ Lz then
    (Lx - 3) * (Ly - 4) * (Lz - 4) + (Ly - 4) * (Lz - 4) + (Lx - 3) * (Lz - 4) + (Lx - 3) * (Ly - 4)
  else 0

/-- the number of listed triangles (every size of the family): `4(Lx−1)(Ly−1)Lz` as for
    `RhombicPlanarCode`, minus four per vertex in the hole and two per vertex next to it, on each of
    its six faces, i.e. `4(abc + ab + ac + bc)` -/
theorem n_triangles (Lx Ly Lz : Nat) (h : Family Lx Ly Lz) :
    (triangles Lx Ly Lz).length + 4 * holeTerm Lx Ly Lz = 4 * ((Lx - 1) * (Ly - 1) * Lz) := by
  obtain ⟨hx, hy, hz⟩ := h
  unfold holeTerm
  by_cases hh : 3 ≤ Lx ∧ 4 ≤ Ly ∧ 4 ≤ Lz
  · rw [if_pos hh]
    exact triangles_count_hole hh.1 hh.2.1 hh.2.2
  · rw [if_neg hh, Nat.mul_zero, Nat.add_zero]
    exact triangles_count_noHole (by omega) hx hy

/-- `n_stabilizers` in closed form (every size of the family): the cubes of `n_cubes` and the
    triangles of `n_triangles` -/
theorem n_stabilizers (Lx Ly Lz : Nat) (h : Family Lx Ly Lz) :
    (lattice Lx Ly Lz).toCodeData.stabs.length + (Lx - 4) * ((Ly - 5) * (Lz - 5)) / 2 +
      4 * holeTerm Lx Ly Lz =
    (Lx * ((Ly + 1) * (Lz - 1)) + 1) / 2 + 4 * ((Lx - 1) * (Ly - 1) * Lz) := by
  have h1 := n_cubes Lx Ly Lz
  have h2 := n_triangles Lx Ly Lz h
  show (cubes Lx Ly Lz ++ triangles Lx Ly Lz).length + _ + _ = _
  rw [List.length_append]
  omega

/-- THE C01 STATEMENT, POSITIVE SIDE, EVERY NON-DEFICIENT SIZE of the supported family: the matrices
    that `stabilizer_matrix`, `logicals_x`, `logicals_z` of the generic code model assemble from this
    lattice model form a valid `[[n, 1]]` stabilizer code — generators pairwise commute, logicals
    commute with the generators, `ω(X, Z) = 1`, `ω(X, X) = ω(Z, Z) = 0`, and the generators have GF(2)
    rank `n − 1` (`n` as in `n_formula`) -/
theorem valid_code (Lx Ly Lz : Nat) (h : Family Lx Ly Lz) (hd : ¬ Deficient Lx Ly Lz) :
    stabilizerMatrix (lattice Lx Ly Lz).toCodeData = some (lattice Lx Ly Lz).rowsH ∧
    logicalsX (lattice Lx Ly Lz).toCodeData = some (lattice Lx Ly Lz).rowsX ∧
    logicalsZ (lattice Lx Ly Lz).toCodeData = some (lattice Lx Ly Lz).rowsZ ∧
    ValidCodeL (lattice Lx Ly Lz).toCodeData.n 1
      (lattice Lx Ly Lz).rowsH (lattice Lx Ly Lz).rowsX (lattice Lx Ly Lz).rowsZ :=
  Lat2D.validCode_of_lattice_subset (lattice Lx Ly Lz) (wf Lx Ly Lz h) (commPair Lx Ly Lz h)
    (rankFamily Lx Ly Lz) (nodup_rankFamily Lx Ly Lz) (fun _ hs => rankFamily_sub hs)
    (generators_independent Lx Ly Lz (by unfold Family at h; omega))
    (generators_count Lx Ly Lz h hd)

/-- THE EXACT CHARACTERISATION: a size of the supported family is a valid `[[n, 1]]` code iff it is not
    deficient -/
theorem valid_iff_not_deficient (Lx Ly Lz : Nat) (h : Family Lx Ly Lz) :
    ValidCodeL (lattice Lx Ly Lz).toCodeData.n 1
      (lattice Lx Ly Lz).rowsH (lattice Lx Ly Lz).rowsX (lattice Lx Ly Lz).rowsZ ↔
    ¬ Deficient Lx Ly Lz :=
  ⟨fun hv hd => (deficient_not_valid Lx Ly Lz hd).2.2 hv,
    fun hd => (valid_code Lx Ly Lz h hd).2.2.2⟩

/-- the GF(2) rank of the generators is `n − 1` iff the size is not deficient -/
theorem rank_iff_not_deficient (Lx Ly Lz : Nat) (h : Family Lx Ly Lz) :
    HasRank (2 * (lattice Lx Ly Lz).toCodeData.n) (lattice Lx Ly Lz).rowsH
      ((lattice Lx Ly Lz).toCodeData.n - 1) ↔ ¬ Deficient Lx Ly Lz := by
  constructor
  · intro hr hd
    have := (deficient_not_valid Lx Ly Lz hd).2.1 _ hr
    have hn : 2 ≤ (lattice Lx Ly Lz).toCodeData.n := by
      have h2 := (deficient_not_valid Lx Ly Lz hd).2.1 _ hr
      omega
    omega
  · intro hd
    exact (valid_code Lx Ly Lz h hd).2.2.2.rank

/-! ### non-vacuity -/

example : Family 2 2 3 := by decide
example : Family 3 6 6 := by decide
example : (lattice 2 2 3).WF := wf 2 2 3 (by decide)
example : (lattice 3 6 6).CommPair := commPair 3 6 6 (by decide)
example : (lattice 5 7 9).CommPair := commPair 5 7 9 (by decide)
example : (lattice 3 6 6).toCodeData.n = 224 := by have := n_formula 3 6 6; omega
example : (lattice 2 2 3).toCodeData.n = 19 := by have := n_formula 2 2 3; omega
example : getDeformation "Checkerboard XZZX" [2, 0, 3] = DeformResult.map PauliMap.swapXZ := by decide
example : getDeformation "Checkerboard XZZX" [2, 0, 1] = DeformResult.map PauliMap.id := by decide
example : getDeformation "Checkerboard XZZX" [1, 0, 0] = DeformResult.map PauliMap.id := by decide
example : getDeformation "Checkerboard XZZX" [1, 1, 1] = DeformResult.valueError := by decide
example : getDeformation "XZZX" [1, 0, 0] = DeformResult.valueError := by decide
example : Deficient 3 6 6 ∧ Deficient 7 4 9 ∧ Deficient 5 6 4 ∧ ¬ Deficient 4 6 6 ∧ ¬ Deficient 3 5 9 ∧
    ¬ Deficient 4 4 9 ∧ ¬ Deficient 4 9 4 ∧ ¬ Deficient 3 6 5 := by decide
example : RankDeficient (lattice 3 7 9) := (thin_hole_family_x 7 9 (by decide) (by decide)).2
example : RankDeficient (lattice 6 4 6) := (thin_hole_family_y 6 6 (by decide) (by decide)).2
set_option maxRecDepth 100000 in
example : (lattice 2 2 3).getStab [0, 2, 0, 0] = [([3, 0, 0], .Z), ([2, 1, 0], .Z)] := by
  decide
set_option maxRecDepth 100000 in
example : (lattice 2 2 3).getStab [1, -1, 1] = [([2, 0, 1], .X), ([1, 0, 2], .X), ([1, 0, 0], .X)] := by
  decide

example : Covered 2 2 3 ∧ Covered 7 3 9 ∧ Covered 4 5 5 ∧ Covered 6 9 8 ∧ Covered 3 5 5 ∧ Covered 4 4 9 ∧
    Covered 3 9 4 ∧ Covered 9 4 4 ∧ Covered 3 9 5 ∧ Covered 3 5 11 ∧ Covered 4 9 4 ∧ Covered 9 5 4 ∧
    ¬ Covered 3 6 6 ∧ ¬ Covered 5 6 4 := by
  decide
/-- a size with a thick hole: 520 qubits, rank 519 -/
example : HasRank (2 * (lattice 6 5 8).toCodeData.n) (lattice 6 5 8).rowsH
    ((lattice 6 5 8).toCodeData.n - 1) ∧ (lattice 6 5 8).toCodeData.n = 520 :=
  ⟨(valid_code 6 5 8 (by decide) (by decide)).2.2.2.rank,
    by have := n_formula 6 5 8; omega⟩
example : Lat2D.IndepGenerators (lattice 3 6 6) (rankFamily 3 6 6) :=
  generators_independent 3 6 6 (by decide)
example : (cubes 5 6 7).length = 104 := by have := n_cubes 5 6 7; omega
/-- `(5, 6, 7)`: 104 cubes and 448 triangles -/
example : (lattice 5 6 7).toCodeData.stabs.length = 552 := by
  have := n_stabilizers 5 6 7 (by decide)
  have e : holeTerm 5 6 7 = 28 := by decide
  rw [e] at this
  omega

end Panqec.C01HollowRhombicCode
