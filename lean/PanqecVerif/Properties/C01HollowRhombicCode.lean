/-
C01 for `HollowRhombicCode` (work in progress: the all-sizes theorems are added as they are proved).
-/
import PanqecVerif.Model.Lattices.HollowRhombicCode

namespace Panqec.C01HollowRhombicCode
open Panqec.HollowRhombicCode Panqec.Color

/-- `k = 1` (every size): one logical X sheet, one logical Z line -/
theorem k_value (Lx Ly Lz : Nat) : (lattice Lx Ly Lz).toCodeData.k = 1 := rfl

/-- any name other than `'Checkerboard XZZX'`: ValueError, whatever the location -/
theorem deformation_rule_bad_name (name : String) (loc : Coord) (h : name ≠ "Checkerboard XZZX") :
    getDeformation name loc = DeformResult.valueError := by
  unfold getDeformation; rw [if_neg h]

end Panqec.C01HollowRhombicCode
