/-
C01 (lattice part) — `XCubeCode` is a well-formed stabilizer-code specification whose operators
satisfy every commutation clause of C01, for EVERY lattice size in the supported family
`L_x, L_y, L_z ≥ 2` (no bound on the size).

The model `Model/Lattices/XCubeCode.lean` is a hand-written transcription of
`panqec/codes/fractons/_xcube_code.py` as functions of the size (periodic wrap `%`, `is_qubit`
filter, dict overwrite included); it is tied to the implementation by the correspondence streams of
`harness/lattices/xcubecode.py`.  Property theorems only; the lemmas are in
`Proofs/LatXCubeCode*.lean`.

Rank clause, for all sizes (`4·Lx·Ly·Lz` generators with `Lx·Ly·Lz + 2(Lx+Ly+Lz) − 3` relations):
the cubes with at most one coordinate equal to 1, the axis-1 vertex operators with `x ≥ 2` or
`z ≥ 2` and the axis-0 vertex operators with `y ≥ 2`, or `x ≥ 2` and `z ≥ 2`, are independent
(`generators_independent`, via a triangular family of single-qubit probes,
`Proofs/LatXCubeCodeRank1..3.lean`) and there are exactly `n − k = 3·Lx·Ly·Lz − 2(Lx+Ly+Lz) + 3` of
them (`generators_count`).  `valid_code` puts everything together through the generic bridges
`Proofs/OpComm.lean` (`symp (to_bsf a) (to_bsf b) = opAntiCount a b mod 2` ⇒ `CommPairL` of the
assembled rows) and `Proofs/Lat2DRankBridge.lean` / `Proofs/Lat2DRankSubset.lean` (operator-level
independent family of `n − k` distinct generators ⇒ `HasRank (2n) rowsH (n − k)`): the matrices
that `stabilizer_matrix`, `logicals_x`, `logicals_z` of the generic code model (`Model/Code.lean`,
C02) assemble from this lattice model form a valid `[[n, k]]` stabilizer code (`ValidCodeL`: all
four clauses of C01, rank included) for EVERY size of the family.

The family (`selStabs`) is defined in the Mathlib-free model file, printed by the driver op `rankfamily` and
evaluated on the IMPLEMENTATION's parity-check matrix on every run (stream `lat-XCubeCode-rank-family`:
members `n − k`, all distinct stabilizer locations, GF(2) rank `n − k`).  `deformation_default_axis`: the
default `deformation_axis='z'` of the signature (stream cases with the keyword omitted).
-/
import PanqecVerif.Proofs.LatXCubeCode9
import PanqecVerif.Proofs.LatXCubeCodeRank3
import PanqecVerif.Proofs.Lat2DRankSubset

namespace Panqec.C01XCubeCode

open Panqec Panqec.XCubeCode Panqec.Lat2D

/-- Coordinates are distinct, qubit and stabilizer coordinates are disjoint, every stabilizer and
    logical operator is a dict (distinct keys) supported on qubits with letters X/Y/Z, and no
    stabilizer is empty — for every size ≥ 2. -/
theorem wf (Lx Ly Lz : Nat) (hx : 2 ≤ Lx) (hy : 2 ≤ Ly) (hz : 2 ≤ Lz) : (lattice Lx Ly Lz).WF :=
  XCubeCode.wf Lx Ly Lz hx hy hz

/-- All pairs of stabilizer generators (cubes, and the three vertex operators per vertex) commute,
    every logical operator commutes with every generator, the pairing table
    `opAntiCount (X_i, Z_j)` is odd iff `i = j` for all `2(Lx+Ly+Lz) - 3` pairs, and the logical X's
    (Z's) commute among themselves — for every size ≥ 2. -/
theorem commPair (Lx Ly Lz : Nat) (hx : 2 ≤ Lx) (hy : 2 ≤ Ly) (hz : 2 ≤ Lz) :
    (lattice Lx Ly Lz).CommPair :=
  XCubeCode.commPair Lx Ly Lz hx hy hz

/-- one qubit per edge of the periodic cubic lattice -/
theorem n_formula (Lx Ly Lz : Nat) : (lattice Lx Ly Lz).toCodeData.n = 3 * (Lx * Ly * Lz) :=
  length_qubits Lx Ly Lz

/-- `k = 2(Lx + Ly + Lz) - 3` logical qubits -/
theorem k_value (Lx Ly Lz : Nat) (hx : 1 ≤ Lx) (hy : 1 ≤ Ly) (hz : 1 ≤ Lz) :
    (lattice Lx Ly Lz).toCodeData.k = 2 * (Lx + Ly + Lz) - 3 :=
  length_logX Lx Ly Lz hx hy hz

/-- rank clause, operator level: the selected generators (cubes with at most one coordinate equal
    to 1; axis-1 vertex operators with `x ≥ 2` or `z ≥ 2`; axis-0 vertex operators with `y ≥ 2`, or
    `x ≥ 2` and `z ≥ 2`) are independent — every non-empty duplicate-free sub-family `T` has a
    Pauli operator `d` on the qubits anticommuting with an odd number of members of `T` (so no
    non-trivial product of them is trivial) — every `Lx, Ly, Lz ≥ 2` -/
theorem generators_independent (Lx Ly Lz : Nat) (hx : 2 ≤ Lx) (hy : 2 ≤ Ly) (hz : 2 ≤ Lz) :
    IndepGenerators (lattice Lx Ly Lz) (selStabs Lx Ly Lz) :=
  indep_sel Lx Ly Lz hx hy hz

/-- the independent family consists of `n − k` distinct stabilizer locations -/
theorem generators_count (Lx Ly Lz : Nat) (hx : 1 ≤ Lx) (hy : 1 ≤ Ly) (hz : 1 ≤ Lz) :
    (selStabs Lx Ly Lz).Nodup ∧ (∀ s ∈ selStabs Lx Ly Lz, s ∈ (lattice Lx Ly Lz).stabs) ∧
    (selStabs Lx Ly Lz).length + (lattice Lx Ly Lz).toCodeData.k =
      (lattice Lx Ly Lz).toCodeData.n :=
  ⟨nodup_selStabs Lx Ly Lz, fun _ hs => selStabs_sub hx hy hz hs, selStabs_count Lx Ly Lz hx hy hz⟩

/-- THE C01 STATEMENT FOR ALL SIZES (`Lx, Ly, Lz ≥ 2`): `stabilizer_matrix`, `logicals_x`,
    `logicals_z` of the generic code model, applied to this lattice model, return (no `KeyError`)
    matrices that form a valid `[[3·Lx·Ly·Lz, 2(Lx+Ly+Lz) − 3]]` stabilizer code: generators
    pairwise commute, logicals commute with the generators, `ω(X_i, Z_j) = δ_ij`,
    `ω(X_i, X_j) = ω(Z_i, Z_j) = 0`, and the generators have GF(2) rank `n − k` -/
theorem valid_code (Lx Ly Lz : Nat) (hx : 2 ≤ Lx) (hy : 2 ≤ Ly) (hz : 2 ≤ Lz) :
    stabilizerMatrix (lattice Lx Ly Lz).toCodeData = some (lattice Lx Ly Lz).rowsH ∧
    logicalsX (lattice Lx Ly Lz).toCodeData = some (lattice Lx Ly Lz).rowsX ∧
    logicalsZ (lattice Lx Ly Lz).toCodeData = some (lattice Lx Ly Lz).rowsZ ∧
    ValidCodeL (3 * (Lx * Ly * Lz)) (2 * (Lx + Ly + Lz) - 3)
      (lattice Lx Ly Lz).rowsH (lattice Lx Ly Lz).rowsX (lattice Lx Ly Lz).rowsZ := by
  obtain ⟨hnd, hsub, hcount⟩ := generators_count Lx Ly Lz (by omega) (by omega) (by omega)
  have h := validCode_of_lattice_subset (lattice Lx Ly Lz) (wf Lx Ly Lz hx hy hz)
    (commPair Lx Ly Lz hx hy hz) (selStabs Lx Ly Lz) hnd hsub
    (generators_independent Lx Ly Lz hx hy hz) hcount
  rw [n_formula, k_value Lx Ly Lz (by omega) (by omega) (by omega)] at h
  exact h

/-- `qubit_axis` of a qubit is the direction of its edge (the odd coordinate) -/
theorem qubit_axis_rule (Lx Ly Lz : Nat) (x y z : Int) (h : [x, y, z] ∈ (lattice Lx Ly Lz).qubits) :
    qubitAxis [x, y, z] = some (if x % 2 = 1 then "x" else if y % 2 = 1 then "y" else "z") :=
  qubitAxis_qubit Lx Ly Lz x y z h

/-- `get_deformation` for every location, name and axis (keyword passed): an axis outside x/y/z or a
    name other than `XZZX` is a `ValueError`; `XZZX` swaps X and Z exactly on the locations whose
    `qubit_axis` equals the deformation axis and is the identity where `qubit_axis` gives another axis
    (`ValueError` where `qubit_axis` raises). -/
theorem deformation_rule (name axis : String) (loc : Coord) :
    getDeformation name (some axis) loc =
      if axis ≠ "x" ∧ axis ≠ "y" ∧ axis ≠ "z" then none
      else if name ≠ "XZZX" then none
      else (qubitAxis loc).map fun a => if a = axis then PauliMap.swapXZ else PauliMap.id :=
  getDeformation_rule name (some axis) loc

/-- the default of the signature: `get_deformation(location, name)` without `deformation_axis` is
    `get_deformation(location, name, deformation_axis='z')` -/
theorem deformation_default_axis (name : String) (loc : Coord) :
    getDeformation name none loc = getDeformation name (some "z") loc := rfl

/-- consequently every deformation the class returns is a permutation of {X, Y, Z} -/
theorem deformation_isPerm (name : String) (axis : Option String) (loc : Coord) (m : PauliMap)
    (h : getDeformation name axis loc = some m) : m.isPerm = true := by
  rw [getDeformation_rule] at h
  split at h
  · cases h
  · split at h
    · cases h
    · cases hq : qubitAxis loc with
      | none => rw [hq] at h; cases h
      | some a =>
        rw [hq] at h
        simp only [Option.map_some, Option.some.injEq] at h
        subst h
        split <;> decide

/-! ### non-vacuity -/

example : (lattice 2 2 3).toCodeData.n = 36 := by decide
example : (lattice 2 2 3).toCodeData.k = 11 := by decide
example : getStab 2 2 2 [0, 0, 0, 0] =
    [([0, 1, 0], Pauli.X), ([0, 3, 0], Pauli.X), ([0, 0, 1], Pauli.X), ([0, 0, 3], Pauli.X)] := by decide
example : (getStab 2 3 2 [3, 5, 1]).length = 12 := by decide
example : (lattice 2 3 4).CommPair := commPair 2 3 4 (by decide) (by decide) (by decide)
example : IndepGenerators (lattice 2 2 3) (selStabs 2 2 3) :=
  generators_independent 2 2 3 (by decide) (by decide) (by decide)
example : (selStabs 2 2 3).length = 25 := by decide
example : ValidCodeL 36 11 (lattice 2 2 3).rowsH (lattice 2 2 3).rowsX (lattice 2 2 3).rowsZ :=
  (valid_code 2 2 3 (by decide) (by decide) (by decide)).2.2.2
/-- 48 generators, rank 25 -/
example : (lattice 2 2 3).stabs.length = 48 ∧ HasRank (2 * 36) (lattice 2 2 3).rowsH 25 :=
  ⟨by decide, (valid_code 2 2 3 (by decide) (by decide) (by decide)).2.2.2.rank⟩
example : getDeformation "XZZX" (some "y") [0, 1, 0] = some PauliMap.swapXZ := by decide
example : getDeformation "XZZX" (some "y") [1, 0, 0] = some PauliMap.id := by decide
example : getDeformation "XZZX" (some "w") [1, 0, 0] = none := by decide
/-- keyword omitted: the z edges are deformed, the others are not -/
example : getDeformation "XZZX" none [0, 0, 1] = some PauliMap.swapXZ := by decide
example : getDeformation "XZZX" none [0, 1, 0] = some PauliMap.id := by decide
example : getDeformation "XY" none [0, 0, 1] = none := by decide

end Panqec.C01XCubeCode
