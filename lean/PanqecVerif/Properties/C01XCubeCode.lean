/-
C01 (lattice part) — `XCubeCode` is a well-formed stabilizer-code specification whose operators
satisfy every commutation clause of C01, for EVERY lattice size in the supported family
`L_x, L_y, L_z ≥ 2` (no bound on the size).

The model `Model/Lattices/XCubeCode.lean` is a hand-written transcription of
`panqec/codes/fractons/_xcube_code.py` as functions of the size (periodic wrap `%`, `is_qubit`
filter, dict overwrite included); it is tied to the implementation by the correspondence streams of
`harness/lattices/xcubecode.py`.  Property theorems only; the lemmas are in
`Proofs/LatXCubeCode*.lean`.

Not proved here: the rank clause (`rank H = n - k`) for all sizes.  It is covered per instance by
the kernel-checked tables of `Properties/C01.lean`.
-/
import PanqecVerif.Proofs.LatXCubeCode9

namespace Panqec.C01XCubeCode

open Panqec Panqec.XCubeCode

/-- Coordinates are distinct, qubit and stabilizer coordinates are disjoint, every stabilizer and
    logical operator is a dict (distinct keys) supported on qubits with letters X/Y/Z, and no
    stabilizer is empty — for every size ≥ 2. -/
theorem wf (Lx Ly Lz : Nat) (hx : 2 ≤ Lx) (hy : 2 ≤ Ly) (hz : 2 ≤ Lz) : (lattice Lx Ly Lz).WF :=
  XCubeCode.wf Lx Ly Lz hx hy hz

/-- All pairs of stabilizer generators (cubes, and the three vertex operators per vertex) commute,
    every logical operator commutes with every generator, the pairing table
    `opAntiCount (X_i, Z_j)` is odd iff `i = j` for all `2(Lx+Ly+Lz) - 3` pairs, and the logical X's
    (Z's) commute among themselves — for every size ≥ 2. -/
theorem commPair (Lx Ly Lz : Nat) (hx : 2 ≤ Lx) (hy : 2 ≤ Ly) (hz : 2 ≤ Lz) :
    (lattice Lx Ly Lz).CommPair :=
  XCubeCode.commPair Lx Ly Lz hx hy hz

/-- one qubit per edge of the periodic cubic lattice -/
theorem n_formula (Lx Ly Lz : Nat) : (lattice Lx Ly Lz).toCodeData.n = 3 * (Lx * Ly * Lz) :=
  length_qubits Lx Ly Lz

/-- `k = 2(Lx + Ly + Lz) - 3` logical qubits -/
theorem k_value (Lx Ly Lz : Nat) (hx : 1 ≤ Lx) (hy : 1 ≤ Ly) (hz : 1 ≤ Lz) :
    (lattice Lx Ly Lz).toCodeData.k = 2 * (Lx + Ly + Lz) - 3 :=
  length_logX Lx Ly Lz hx hy hz

/-- `qubit_axis` of a qubit is the direction of its edge (the odd coordinate) -/
theorem qubit_axis_rule (Lx Ly Lz : Nat) (x y z : Int) (h : [x, y, z] ∈ (lattice Lx Ly Lz).qubits) :
    qubitAxis [x, y, z] = some (if x % 2 = 1 then "x" else if y % 2 = 1 then "y" else "z") :=
  qubitAxis_qubit Lx Ly Lz x y z h

/-- `get_deformation` for every location, name and axis: an axis outside x/y/z or a name other than
    `XZZX` is a `ValueError`; `XZZX` swaps X and Z exactly on the locations whose `qubit_axis`
    equals the deformation axis and is the identity where `qubit_axis` gives another axis
    (`ValueError` where `qubit_axis` raises). -/
theorem deformation_rule (name axis : String) (loc : Coord) :
    getDeformation name axis loc =
      if axis ≠ "x" ∧ axis ≠ "y" ∧ axis ≠ "z" then none
      else if name ≠ "XZZX" then none
      else (qubitAxis loc).map fun a => if a = axis then PauliMap.swapXZ else PauliMap.id :=
  getDeformation_rule name axis loc

/-- consequently every deformation the class returns is a permutation of {X, Y, Z} -/
theorem deformation_isPerm (name axis : String) (loc : Coord) (m : PauliMap)
    (h : getDeformation name axis loc = some m) : m.isPerm = true := by
  rw [getDeformation_rule] at h
  split at h
  · cases h
  · split at h
    · cases h
    · cases hq : qubitAxis loc with
      | none => rw [hq] at h; cases h
      | some a =>
        rw [hq] at h
        simp only [Option.map_some, Option.some.injEq] at h
        subst h
        split <;> decide

/-! ### non-vacuity -/

example : (lattice 2 2 3).toCodeData.n = 36 := by decide
example : (lattice 2 2 3).toCodeData.k = 11 := by decide
example : getStab 2 2 2 [0, 0, 0, 0] =
    [([0, 1, 0], Pauli.X), ([0, 3, 0], Pauli.X), ([0, 0, 1], Pauli.X), ([0, 0, 3], Pauli.X)] := by decide
example : (getStab 2 3 2 [3, 5, 1]).length = 12 := by decide
example : (lattice 2 3 4).CommPair := commPair 2 3 4 (by decide) (by decide) (by decide)
example : getDeformation "XZZX" "y" [0, 1, 0] = some PauliMap.swapXZ := by decide
example : getDeformation "XZZX" "y" [1, 0, 0] = some PauliMap.id := by decide
example : getDeformation "XZZX" "w" [1, 0, 0] = none := by decide

end Panqec.C01XCubeCode
