/-
C18 — error probabilities multiply per qubit and normalise.

Property theorems only (helper lemmas: `Proofs/NoiseProb.lean`, `Proofs/NoiseLog.lean`).
Quantifiers: every number of qubits, every list of per-qubit distributions (so: every
direction, error rate and deformation), every error.
-/
import PanqecVerif.Proofs.NoiseLog
import PanqecVerif.Proofs.NoiseSplit

namespace Panqec.C18

open Panqec

/-! ### product form -/

/-- one entry of `prob_vector` is the channel probability of the Pauli on that qubit
    (numpy truthiness of the two bits) -/
theorem entry_is_channel_probability (d : Dist) (x z : Nat) :
    probEntry d x z = d.get (Pauli.ofBits (truth x) (truth z)) := probEntry_eq d x z

/-- `error_probability` of the BSF vector of a Pauli string is the product over qubits of
    the probability of its letter -/
theorem error_probability_product_form (ds : List Dist) (s : List Pauli)
    (h : s.length = ds.length) :
    errorProbability ds (pauliToBsf s) = some (ratProd (List.zipWith Dist.get ds s)) :=
  errorProbability_pauliToBsf ds s h

/-- the same for an arbitrary binary vector of length `2n`, through `bsf_to_pauli` -/
theorem error_probability_of_bsf (ds : List Dist) (e : List Nat)
    (hlen : e.length = 2 * ds.length) (hbin : ∀ x ∈ e, x < 2) :
    errorProbability ds e = some (stringProb ds (bsfToPauli e)) :=
  errorProbability_binary ds e hlen hbin

/-- other lengths are rejected -/
theorem error_probability_shape (ds : List Dist) (e : List Nat) (h : e.length ≠ 2 * ds.length) :
    errorProbability ds e = none := by
  simp [errorProbability, probVector, probVectorWith, h]

/-! ### normalisation -/

/-- `allPaulis n` lists exactly the Pauli strings of length `n`, and there are `4^n` entries -/
theorem all_errors_enumerated (n : Nat) :
    (allPaulis n).length = 4 ^ n ∧ (∀ s, s ∈ allPaulis n ↔ s.length = n) ∧ (allPaulis n).Nodup :=
  ⟨allPaulis_length n, mem_allPaulis n, allPaulis_nodup n⟩

/-- the probabilities of all `4^n` errors sum to the product of the per-qubit totals … -/
theorem sum_over_all_errors (ds : List Dist) :
    ∃ vals, (allPaulis ds.length).mapM (fun s => errorProbability ds (pauliToBsf s)) = some vals ∧
      ratSum vals = ratProd (ds.map Dist.total) := by
  refine ⟨(allPaulis ds.length).map (stringProb ds), ?_, sum_stringProb ds⟩
  apply mapM_eq_some_map
  intro s hs
  exact errorProbability_pauliToBsf ds s ((mem_allPaulis _ s).mp hs)

/-- … hence to 1 as soon as every qubit's distribution sums to 1 (in particular for the
    channel of C07, deformed or not) -/
theorem probabilities_sum_to_one (ds : List Dist) (h : ∀ d ∈ ds, d.total = 1) :
    ∃ vals, (allPaulis ds.length).mapM (fun s => errorProbability ds (pauliToBsf s)) = some vals ∧
      ratSum vals = 1 := by
  obtain ⟨vals, h1, h2⟩ := sum_over_all_errors ds
  refine ⟨vals, h1, ?_⟩
  rw [h2]
  apply ratProd_eq_one_of_all_one
  intro x hx
  obtain ⟨d, hd, rfl⟩ := List.mem_map.mp hx
  exact h d hd

/-! ### log form -/

/-- `log_output=True` sums `np.log` over the same vector whose product is the probability:
    over the reals the sum of logs is the log of the product whenever all entries are
    positive (an entry 0 gives `-inf` in the code and probability 0 here) -/
theorem log_form (ds : List Dist) (e : List Nat) (v : List Rat) (hv : probVector ds e = some v)
    (hpos : ∀ x ∈ v, 0 < x) :
    ∃ P : Rat, errorProbability ds e = some P ∧ 0 < P ∧ Real.log (P : ℝ) = logSum v := by
  refine ⟨ratProd v, by simp [errorProbability, hv], (log_ratProd v hpos).2, (log_ratProd v hpos).1⟩

/-! ### consistency with sampling -/

/-- `generate` returns the error `s` exactly on a box of variates whose volume is
    `error_probability(s)` -/
theorem sampling_consistent (ds : List Dist) (s : List Pauli) (us : List Rat)
    (hv : ∀ d ∈ ds, d.Valid) (hu : ∀ u ∈ us, 0 ≤ u ∧ u < 1) (hl : ds.length = us.length)
    (hs : s.length = ds.length) :
    (generate ds us = pauliToBsf s ↔ inBox ds s us) ∧
    errorProbability ds (pauliToBsf s) = some (boxVolume ds s) := by
  constructor
  · rw [← sampleLetters_iff_inBox ds s us hv hu hl]
    unfold generate
    constructor
    · intro h
      have := congrArg bsfToPauli h
      rwa [bsfToPauli_pauliToBsf, bsfToPauli_pauliToBsf] at this
    · intro h; rw [h]
  · rw [boxVolume_eq_stringProb]
    exact errorProbability_pauliToBsf ds s hs

/-! ### splitting method -/

/-- the acceptance probability of `get_next_error` is `min(1, P(new)/P(previous))` with `P`
    the product-form probabilities -/
theorem acceptance_is_likelihood_ratio (ds : List Dist) (s : List Pauli) (idx : Nat) (σ : Pauli)
    (t : List Pauli) (hs : s.length = ds.length) (ht : t.length = ds.length)
    (hnew : proposeError ds.length (pauliToBsf s) idx σ = pauliToBsf t) :
    splittingStep ds (pauliToBsf s) idx σ =
      some (pauliToBsf t, if stringProb ds t / stringProb ds s ≤ 1
                          then stringProb ds t / stringProb ds s else 1) := by
  simp [splittingStep, hnew, errorProbability_pauliToBsf ds s hs,
    errorProbability_pauliToBsf ds t ht, acceptRatio]

/-- the proposal multiplies the previous error by the drawn letter on the drawn qubit -/
theorem proposal_is_single_qubit_product (s : List Pauli) (idx : Nat) (σ τ : Pauli)
    (h : s[idx]? = some τ) :
    proposeError s.length (pauliToBsf s) idx σ = pauliToBsf (s.set idx (σ.mul τ)) :=
  proposeError_pauliToBsf s idx σ τ h

/-- so the ratio only involves the changed qubit: `P(new) · p_i(old letter) = P(previous) ·
    p_i(new letter)` (division-free form, valid also when probabilities vanish) -/
theorem likelihood_ratio_single_qubit (ds : List Dist) (s : List Pauli) (i : Nat) (d : Dist)
    (σ τ : Pauli) (hd : ds[i]? = some d) (hs : s[i]? = some σ) :
    stringProb ds (s.set i τ) * d.get σ = stringProb ds s * d.get τ :=
  stringProb_set ds s i d σ τ hd hs

/-! ### the mask the code had before the fix does NOT normalise -/

/-- with the Y mask `error[:n] == error[n:]` the four single-qubit probabilities sum to
    `1 + p_Y` -/
theorem old_mask_sum (d : Dist) (h : d.total = 1) :
    ∃ vals, (allPaulis 1).mapM (fun s => oldErrorProbability [d] (pauliToBsf s)) = some vals ∧
      ratSum vals = 1 + d.y := by
  simp only [Dist.total] at h
  refine ⟨[d.i + d.y, d.x, d.y, d.z], ?_, ?_⟩
  · simp [allPaulis, oldErrorProbability, probVectorWith, pauliToBsf, entriesGo, oldProbEntry, ind,
      Pauli.xBit, Pauli.zBit, ratProd, add_comm]
  · simp only [ratSum]; linarith

/-- regression witness: for `(p_I, p_X, p_Y, p_Z) = (1/2, 1/4, 1/8, 1/8)` the old formula sums to 9/8 -/
theorem old_mask_not_normalised :
    ∃ vals, (allPaulis 1).mapM (fun s => oldErrorProbability [⟨1/2, 1/4, 1/8, 1/8⟩] (pauliToBsf s))
      = some vals ∧ ratSum vals ≠ 1 := by
  obtain ⟨vals, h1, h2⟩ := old_mask_sum ⟨1/2, 1/4, 1/8, 1/8⟩ (by norm_num [Dist.total])
  exact ⟨vals, h1, by rw [h2]; norm_num⟩

/-! ### non-vacuity -/

example : errorProbability [⟨1/2, 1/4, 1/8, 1/8⟩, ⟨3/4, 1/8, 1/16, 1/16⟩] [1, 0, 1, 1] = some (1/128) := by
  norm_num [errorProbability, probVector, probVectorWith, entriesGo, probEntry, ind, ratProd]
example : (allPaulis 2).length = 16 := by decide

end Panqec.C18
