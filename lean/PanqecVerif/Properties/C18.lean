import PanqecVerif.Model.Noise
namespace Panqec.C18
theorem placeholder : (1 : Nat) = 1 := rfl
end Panqec.C18
