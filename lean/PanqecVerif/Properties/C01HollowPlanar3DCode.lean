/-
C01 for `HollowPlanar3DCode`, ALL sizes of the supported family `1 ≤ Lx, Ly, Lz` (no bound on the
size): the hand-written lattice model `Model/Lattices/HollowPlanar3DCode.lean` (tied to the Python
class by the correspondence streams of `harness/lattices/hollowplanar3dcode.py`) is a well-formed
coordinate system, all stabilizer generators commute (vertex operators are truncated by the
`is_qubit` filter at the open boundaries AND at the hole; face operators outside the hole are never
truncated by the hole), the logical operators commute with the stabilizers and anticommute with each
other (the logical Z is the one `get_logicals_z` lists since the repair of the C17 finding: Z on the
existing x edges of the cross-section `x = 3` when `Lx ≥ 3` — the membrane through the cavity —
and of the end plane `x = 1` when `Lx ≤ 2`; it differs from the end plane, the logical Z before the
repair, by the product of the vertex generators with `x = 2`, so it meets every face generator on an
even number of qubits and the logical X line on one qubit), `n` = the `n` of `Planar3DCode` minus the edges in the hole, `k = 1`, and `get_deformation`
never returns a map (the class defines none; `deformation_names = []`).

The rank clause is proved for all sizes at the operator level (`rank_family`): an explicit family
of `n − k` generators — all vertices, all yz and xz faces, the xy faces of the layer `z = 0` and the
xy faces of the top of the tube except one — is GF(2)-independent.  (Relations left out: one xy face
per cube of the two end slabs `x = 1`, `x = 2Lx − 1`, and one face for the closed surface around the
cavity.)  `valid_code` puts everything together through the generic bridges `Proofs/OpComm.lean`
(`symp (to_bsf a) (to_bsf b) = opAntiCount a b mod 2` ⇒ `CommPairL` of the assembled rows) and
`Proofs/Lat3DRankBridge.lean` (parity-form independent family of `n − k` distinct generators ⇒
`HasRank (2n) rowsH (n − k)`): the matrices that `stabilizer_matrix`, `logicals_x`, `logicals_z` of
the generic code model (`Model/Code.lean`, C02) assemble from this lattice model form a valid
`[[n, 1]]` stabilizer code (`ValidCodeL`: all four clauses of C01, rank included) for EVERY size of
the family, with or without a cavity.
-/
import PanqecVerif.Proofs.LatHollowPlanar3DCodeRank
import PanqecVerif.Proofs.LatHollowPlanar3DCodeLogZ
import PanqecVerif.Proofs.Lat3DRankBridge

namespace Panqec.C01HollowPlanar3DCode
open Panqec.Cubic3D Panqec.HollowPlanar3DCode

/-- Well-formedness for every supported size: qubit / stabilizer coordinates are distinct and
    disjoint, every `get_stabilizer(loc)` and every logical operator is a dict (distinct keys)
    supported on qubits with letters ≠ I, and no stabilizer is empty (also at the boundaries and
    next to the hole). -/
theorem wf (Lx Ly Lz : Nat) (hLx : 1 ≤ Lx) (hLy : 1 ≤ Ly) (hLz : 1 ≤ Lz) :
    (lattice Lx Ly Lz).WF := by
  constructor <;>
    simp only [lattice_qubits, lattice_stabs, lattice_getStab, lattice_logX, lattice_logZ]
  · exact qubits_nodup Lx Ly Lz
  · exact stabs_nodup Lx Ly Lz
  · exact fun _ hq => qubits_not_stabs hq
  · intro s hs
    obtain ⟨ks, p, h, hn, _, _, _⟩ := getStab_form hLx hs
    rw [h, uop_keys]; exact hn
  · intro s hs e he
    obtain ⟨ks, p, h, _, hq, _, hp⟩ := getStab_form hLx hs
    rw [h, mem_uop] at he
    exact ⟨hq _ he.1, by rw [he.2]; exact hp⟩
  · intro s hs
    obtain ⟨ks, p, h, _, _, hne, _⟩ := getStab_form hLx hs
    rw [h]
    cases ks with
    | nil => exact absurd rfl hne
    | cons k ks => simp [uop]
  · intro a ha
    obtain ⟨ks, p, rfl, hn, _, _⟩ := logical_form hLx hLy hLz ha
    rw [uop_keys]; exact hn
  · intro a ha e he
    obtain ⟨ks, p, rfl, _, hq, hp⟩ := logical_form hLx hLy hLz ha
    rw [mem_uop] at he
    exact ⟨hq _ he.1, by rw [he.2]; exact hp⟩

/-- The operator-level C01 clauses other than rank, for every supported size: any two stabilizer
    generators commute; the logical X and the logical Z (the cross-section `x = 3` without the hole
    when `Lx ≥ 3`, the end plane `x = 1` otherwise) commute with every generator; there is one
    of each and they anticommute. -/
theorem commPair (Lx Ly Lz : Nat) (hLx : 1 ≤ Lx) (hLy : 1 ≤ Ly) (hLz : 1 ≤ Lz) :
    (lattice Lx Ly Lz).CommPair := by
  constructor <;>
    simp only [lattice_stabs, lattice_getStab, lattice_logX, lattice_logZ]
  · exact fun _ hs _ ht => stab_comm hLx hLy hLz hs ht
  · exact fun _ ha _ hs => logX_comm hLx hLy hLz ha hs
  · exact fun _ ha _ hs => logZ_comm hLx hLy hLz ha hs
  · rfl
  · exact fun i j hi hj => pairing hLx hLy hLz i j hi hj
  · exact fun _ ha _ hb => logXX ha hb
  · exact fun _ ha _ hb => logZZ ha hb

/-- `n` = (x, y and z edges of `Planar3DCode`) − (x, y and z edges in the hole), every size, with
    truncated subtraction: the hole removes `(Lx−2)(Ly−2)(Lz−2)` x edges, `(Lx−3)(Ly−1)(Lz−2)` y
    edges and `(Lx−3)(Ly−2)(Lz−1)` z edges (nothing unless `Lx ≥ 3` and `Ly, Lz ≥ 2`). -/
theorem n_formula (Lx Ly Lz : Nat) : (lattice Lx Ly Lz).toCodeData.n =
    Lx * Ly * Lz + (Lx - 1) * (Ly - 1) * Lz + (Lx - 1) * Ly * (Lz - 1) -
      ((Lx - 2) * (Ly - 2) * (Lz - 2) + (Lx - 3) * (Ly - 1) * (Lz - 2) +
        (Lx - 3) * (Ly - 2) * (Lz - 1)) := by
  simp only [Lattice.toCodeData, CodeData.n, lattice_qubits]
  have := qubits_length_add Lx Ly Lz
  omega

/-- the number of stabilizer generators: the vertices, xy / yz / xz faces of `Planar3DCode` minus
    those in the hole (every size, truncated subtraction). -/
theorem n_stabilizers_formula (Lx Ly Lz : Nat) :
    (lattice Lx Ly Lz).toCodeData.stabs.length =
      (Lx - 1) * Ly * Lz + Lx * (Ly - 1) * Lz + (Lx - 1) * (Ly - 1) * (Lz - 1) +
        Lx * Ly * (Lz - 1) -
      ((Lx - 3) * (Ly - 2) * (Lz - 2) + (Lx - 2) * (Ly - 1) * (Lz - 2) +
        (Lx - 3) * (Ly - 1) * (Lz - 1) + (Lx - 2) * (Ly - 2) * (Lz - 1)) := by
  simp only [Lattice.toCodeData, lattice_stabs]
  have := stabs_length_add Lx Ly Lz
  omega

/-- `k = 1` (every size). -/
theorem k_value (Lx Ly Lz : Nat) : (lattice Lx Ly Lz).toCodeData.k = 1 := by
  simp only [Lattice.toCodeData, CodeData.k, lattice_logX]; rfl

/-- The rank clause for every supported size: `rankFamily` (the stabilizer locations other than the
    xy faces `(1, y, z)`, `(2Lx−1, y, z)`, `(3, 1, z)` with `z ≠ 0`: all vertices, all yz and xz faces,
    the xy faces with `z = 0`, the xy faces of the top of the tube except `(3, 1, 2Lz−2)`) is a
    sub-list of `get_stabilizer_coordinates` with exactly `n − k` members whose operators are
    GF(2)-independent: no non-empty sub-family multiplies to the identity (even X-parity and even
    Z-parity on every location). -/
theorem rank_family (Lx Ly Lz : Nat) (hLx : 1 ≤ Lx) (hLy : 1 ≤ Ly) (hLz : 1 ≤ Lz) :
    ∃ B : List Coord, B.Sublist (lattice Lx Ly Lz).stabs ∧
      B.length = (lattice Lx Ly Lz).toCodeData.n - (lattice Lx Ly Lz).toCodeData.k ∧
      OpsIndep (B.map (lattice Lx Ly Lz).getStab) := by
  refine ⟨rankFamily Lx Ly Lz, ?_, ?_, ?_⟩
  · rw [lattice_stabs]; exact rankFamily_sublist Lx Ly Lz
  · rw [k_value]
    simp only [Lattice.toCodeData, CodeData.n, lattice_qubits]
    exact rankFamily_length hLx hLy hLz
  · rw [lattice_getStab]; exact rankFamily_indep hLx hLy hLz

/-- **C01, all clauses, all sizes** (`1 ≤ Lx, Ly, Lz`): `stabilizer_matrix`, `logicals_x`,
    `logicals_z` of the generic code model, applied to this lattice model, return (no `KeyError`)
    matrices that form a valid `[[n, 1]]` stabilizer code (`n` = the `n` of `Planar3DCode` minus the
    edges in the hole, truncated subtraction as in `n_formula`): generators pairwise commute,
    logicals commute with the generators, `ω(X, Z) = 1`, `ω(X, X) = ω(Z, Z) = 0`, and the
    generators have GF(2) rank `n − 1` -/
theorem valid_code (Lx Ly Lz : Nat) (hLx : 1 ≤ Lx) (hLy : 1 ≤ Ly) (hLz : 1 ≤ Lz) :
    stabilizerMatrix (lattice Lx Ly Lz).toCodeData = some (lattice Lx Ly Lz).rowsH ∧
    logicalsX (lattice Lx Ly Lz).toCodeData = some (lattice Lx Ly Lz).rowsX ∧
    logicalsZ (lattice Lx Ly Lz).toCodeData = some (lattice Lx Ly Lz).rowsZ ∧
    ValidCodeL (Lx * Ly * Lz + (Lx - 1) * (Ly - 1) * Lz + (Lx - 1) * Ly * (Lz - 1) -
        ((Lx - 2) * (Ly - 2) * (Lz - 2) + (Lx - 3) * (Ly - 1) * (Lz - 2) +
          (Lx - 3) * (Ly - 2) * (Lz - 1))) 1
      (lattice Lx Ly Lz).rowsH (lattice Lx Ly Lz).rowsX (lattice Lx Ly Lz).rowsZ := by
  obtain ⟨B, hsub, hlen, hind⟩ := rank_family Lx Ly Lz hLx hLy hLz
  have hwf := wf Lx Ly Lz hLx hLy hLz
  have h := validCode_of_opsIndep (lattice Lx Ly Lz) hwf
    (commPair Lx Ly Lz hLx hLy hLz) B (hwf.stabs_nodup.sublist hsub) (fun s hs => hsub.subset hs)
    hlen hind
  rw [n_formula, k_value] at h
  exact h

/-- The coordinate lists are those of `Planar3DCode` with the hole
    `2 < x < 2Lx−2, 1 ≤ y < 2Ly−2, 1 ≤ z < 2Lz−2` removed, in the same order. -/
theorem coordinates_rule (Lx Ly Lz : Nat) :
    (lattice Lx Ly Lz).qubits =
      (Planar3DCode.lattice Lx Ly Lz).qubits.filter (notHoleC Lx Ly Lz) ∧
    (lattice Lx Ly Lz).stabs =
      (Planar3DCode.lattice Lx Ly Lz).stabs.filter (notHoleC Lx Ly Lz) ∧
    ∀ x y z : Int, (notHoleC Lx Ly Lz [x, y, z] = true ↔
      ¬ ((2 < x ∧ x < 2 * (Lx : Int) - 2) ∧ (1 ≤ y ∧ y < 2 * (Ly : Int) - 2) ∧
        (1 ≤ z ∧ z < 2 * (Lz : Int) - 2))) :=
  ⟨by rw [lattice_qubits, Planar3DCode.lattice_qubits]; exact qubits_eq Lx Ly Lz,
   by rw [lattice_stabs, Planar3DCode.lattice_stabs]; exact stabs_eq Lx Ly Lz,
   fun _ _ _ => notHoleC3⟩

/-- CSS structure for every size: a stabilizer location is a `'vertex'` whose operator carries only Z
    (on at most 6 qubits) or a `'face'` whose operator carries only X (on at most 4 qubits). -/
theorem stabilizer_shape (Lx Ly Lz : Nat) {s : Coord}
    (hs : s ∈ (lattice Lx Ly Lz).stabs) :
    (HollowPlanar3DCode.stabilizerType Lx Ly Lz s = some StabType.vertex ∧
      ∃ ks, (lattice Lx Ly Lz).getStab s = uop ks Pauli.Z ∧ ks.length ≤ 6) ∨
    (HollowPlanar3DCode.stabilizerType Lx Ly Lz s = some StabType.face ∧
      ∃ ks, (lattice Lx Ly Lz).getStab s = uop ks Pauli.X ∧ ks.length ≤ 4) := by
  rw [lattice_stabs] at hs
  rw [lattice_getStab]
  exact stab_shape hs

/-- A face operator outside the hole is exactly the face operator of `Planar3DCode` (the hole never
    truncates a face); a vertex operator is the one of `Planar3DCode` with the edges in the hole
    removed. -/
theorem stabilizer_vs_planar (Lx Ly Lz : Nat) {s : Coord}
    (hs : s ∈ (lattice Lx Ly Lz).stabs) :
    (HollowPlanar3DCode.stabilizerType Lx Ly Lz s = some StabType.face →
      (lattice Lx Ly Lz).getStab s = (Planar3DCode.lattice Lx Ly Lz).getStab s) ∧
    (lattice Lx Ly Lz).getStab s =
      ((Planar3DCode.lattice Lx Ly Lz).getStab s).filter fun e => notHoleC Lx Ly Lz e.1 := by
  rw [lattice_stabs] at hs
  rw [lattice_getStab, Planar3DCode.lattice_getStab]
  have hfil : ∀ (ks : List Coord) (p : Pauli),
      (uop ks p).filter (fun e => notHoleC Lx Ly Lz e.1) = uop (ks.filter (notHoleC Lx Ly Lz)) p := by
    intro ks p; simp only [uop, List.filter_map]; rfl
  obtain ⟨x, y, z, rfl, hn, h | h | h | h⟩ := stab_cases hs
  · refine ⟨?_, ?_⟩
    · intro ht
      obtain ⟨hx, hy, _⟩ := h
      simp only [Planar3DCode.inE, Planar3DCode.inE2] at hx hy
      simp [HollowPlanar3DCode.stabilizerType, hs, typeOf, hx.2.2, hy.2.2] at ht
    · rw [getStab_vertex h hn, Planar3DCode.getStab_vertex h, hfil]; rfl
  · rw [getStab_faceXY h hn, Planar3DCode.getStab_faceXY h, hfil]
    exact ⟨fun _ => by rw [faceXYKeys_eq h hn], rfl⟩
  · rw [getStab_faceYZ h hn, Planar3DCode.getStab_faceYZ h, hfil]
    exact ⟨fun _ => by rw [faceYZKeys_eq h hn], rfl⟩
  · rw [getStab_faceXZ h hn, Planar3DCode.getStab_faceXZ h, hfil]
    exact ⟨fun _ => by rw [faceXZKeys_eq h hn], rfl⟩

/-- `get_deformation` for every location, name and axis: the class defines no deformation (the
    inherited method returns a `NotImplementedError` instance, never a map), so there is no
    deformed variant of this code to validate. -/
theorem deformation_rule (name : String) (axis : Option String) (loc : Coord) :
    HollowPlanar3DCode.getDeformation name axis loc = none := rfl

/-- whatever `get_deformation` returns is a permutation of {X, Y, Z} (vacuous for this class: it
    returns no map; stated so that the C08 hypothesis is discharged uniformly over the classes) -/
theorem deformation_perm {name : String} {axis : Option String} {loc : Coord} {m : PauliMap}
    (h : HollowPlanar3DCode.getDeformation name axis loc = some m) : m.isPerm = true := by
  simp [HollowPlanar3DCode.getDeformation] at h

/-- the axis of a qubit is the direction of its edge: odd x / odd y / odd z coordinate -/
theorem qubit_axis_rule (Lx Ly Lz : Nat) {x y z : Int} (hq : [x, y, z] ∈ (lattice Lx Ly Lz).qubits) :
    HollowPlanar3DCode.qubitAxis [x, y, z] =
      some (if x % 2 = 1 then Axis.x else if y % 2 = 1 then Axis.y else Axis.z) := by
  rw [lattice_qubits] at hq; exact qubitAxis_of_mem_qubits hq

/-! ### non-vacuity: the hypotheses are satisfiable and the model computes non-trivial data -/

example : (lattice 1 1 1).WF := wf 1 1 1 (by decide) (by decide) (by decide)
example : (lattice 4 3 3).CommPair := commPair 4 3 3 (by decide) (by decide) (by decide)
/-- 3×3×3: exactly one qubit, the x edge `(3, 2, 2)`, is removed from the 51 of `Planar3DCode` -/
example : (lattice 3 3 3).toCodeData.n = 50 := n_formula 3 3 3
example : (lattice 4 3 3).toCodeData.n = 66 := n_formula 4 3 3
example : (rankFamily 4 3 3).length = 65 := by decide +kernel
/-- a size with a cavity (4×3×3: 7 edges removed, n = 66) -/
example : ValidCodeL 66 1 (lattice 4 3 3).rowsH (lattice 4 3 3).rowsX (lattice 4 3 3).rowsZ :=
  (valid_code 4 3 3 (by decide) (by decide) (by decide)).2.2.2
/-- the smallest member of the family: one qubit, no generator, rank 0 -/
example : ValidCodeL 1 1 (lattice 1 1 1).rowsH (lattice 1 1 1).rowsX (lattice 1 1 1).rowsZ :=
  (valid_code 1 1 1 (by decide) (by decide) (by decide)).2.2.2
/-- the family really drops stabilizers: 4×3×3 has 74 generators, 9 more than `n − k` -/
example : (stabs 4 3 3).length = 74 := by decide +kernel
/-- `OpsIndep` is not vacuous: a family containing the same operator twice is dependent -/
example : ¬ OpsIndep [uop [[1, 0, 0]] .X, uop [[1, 0, 0]] .X] := by
  intro h
  have := h _ (List.Sublist.refl _) (by
    intro q
    simp only [List.countP_cons, List.countP_nil, hitX_uop, hitZ_uop]
    by_cases hq : q ∈ [[(1 : Int), 0, 0]] <;> simp [hq])
  simp at this
example : [3, 2, 2] ∉ qubits 3 3 3 ∧ [3, 2, 2] ∈ Planar3DCode.qubits 3 3 3 := by decide +kernel
/-- the vertex `(2, 2, 2)` next to the hole: the edge `(3, 2, 2)` is missing, five neighbours left -/
example : getStab 3 3 3 [2, 2, 2] =
    [([1, 2, 2], .Z), ([2, 3, 2], .Z), ([2, 1, 2], .Z), ([2, 2, 3], .Z), ([2, 2, 1], .Z)] := by
  decide +kernel
/-- a face location in the hole is not a stabilizer (`ValueError`), its neighbour outside is -/
example : getStab? 3 3 3 [3, 1, 2] = none ∧
    getStab? 3 3 3 [3, 1, 4] =
      some [([2, 1, 4], .X), ([4, 1, 4], .X), ([3, 0, 4], .X), ([3, 2, 4], .X)] := by decide +kernel
example : opAntiCount ((logX 3 3 3).getD 0 []) ((logZ 3 3 3).getD 0 []) = 1 := by decide +kernel
/-- the listed logical Z of a lattice with a cavity: the 8 x edges `(3, y, z)` around the hole
    (`(3, 2, 2)` is not a qubit) -/
example : logZ 3 3 3 = [[([3, 0, 0], .Z), ([3, 0, 2], .Z), ([3, 0, 4], .Z), ([3, 2, 0], .Z),
    ([3, 2, 4], .Z), ([3, 4, 0], .Z), ([3, 4, 2], .Z), ([3, 4, 4], .Z)]] := by decide +kernel
/-- `Lx ≤ 2`: there is no cross-section `x = 3` inside the hole range; the end plane `x = 1`, as
    before the repair -/
example : logZ 2 2 2 = [[([1, 0, 0], .Z), ([1, 0, 2], .Z), ([1, 2, 0], .Z), ([1, 2, 2], .Z)]] ∧
    logZ 2 2 2 = oldLogZ 2 2 2 := by decide +kernel
/-- `Lx ≥ 3` but no x edge in the hole (`Ly = 2`): the full plane `x = 3` -/
example : logZ 4 2 3 = [[([3, 0, 0], .Z), ([3, 0, 2], .Z), ([3, 0, 4], .Z), ([3, 2, 0], .Z),
    ([3, 2, 2], .Z), ([3, 2, 4], .Z)]] := by decide +kernel
example : HollowPlanar3DCode.getDeformation "XZZX" none [1, 0, 0] = none := rfl

end Panqec.C01HollowPlanar3DCode
