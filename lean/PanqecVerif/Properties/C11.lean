/-
C11 — Monte-Carlo trials are self-consistent, reproducible and calibrated.

Property theorems only; helper lemmas are in `Proofs/Sim.lean` (state machine) and
`Proofs/SimDist.lean` (finite rational distributions).  All statements hold for every
code (any matrices `H`, `Lx`, `Lz`), every decoder output, every error rate, every
variate stream and every history of `run(k)` calls.

Not a theorem (tested at run time by the harness, see DESIGN §7): bit-for-bit equality of
two runs of the *Python* program with the same seed — that additionally needs numpy's
generator and the third-party decoders to be deterministic.  What is proved here is that
the model's whole run is a function of the finite prefix of variates it reads.
-/
import PanqecVerif.Proofs.Sim
import PanqecVerif.Proofs.SimDist
import PanqecVerif.Proofs.SimGrid

namespace Panqec.C11

open Panqec Panqec.Sim

/-! ### every recorded trial is self-consistent (for ANY decoder output) -/

/-- `syndrome` is the syndrome of `error`: one GF(2) symplectic product per stabilizer row -/
theorem trial_syndrome (dt : DType) (c : CodeMats) (e : List Nat) (dec : List Nat → List Nat) :
    (classify dt c e dec).syndrome = c.H.map fun r => symp r e := by
  simp [classify, measureSyndrome_eq_symp]

/-- the decoder saw exactly that syndrome, and the recorded error is the drawn error -/
theorem trial_correction (dt : DType) (c : CodeMats) (e : List Nat) (dec : List Nat → List Nat) :
    (classify dt c e dec).correction = dec (classify dt c e dec).syndrome ∧
    (classify dt c e dec).error = e := ⟨rfl, rfl⟩

/-- `effective_error` is the logical effect of `error + correction`: products with the
    logical Z operators first (logical X flips), then with the logical X operators -/
theorem trial_effective_error (dt : DType) (c : CodeMats) (e : List Nat)
    (dec : List Nat → List Nat) :
    let t := classify dt c e dec
    t.effectiveError = (c.Lz.map fun r => symp r (vxor t.correction e)) ++
                       (c.Lx.map fun r => symp r (vxor t.correction e)) := by
  simp [classify, logicalErrors_eq_symp]

/-- `codespace` ⇔ the residual error `error + correction` has zero syndrome -/
theorem trial_codespace_iff (dt : DType) (c : CodeMats) (e : List Nat)
    (dec : List Nat → List Nat) :
    let t := classify dt c e dec
    t.codespace = true ↔ ∀ r ∈ c.H, symp r (vxor t.correction e) = 0 := by
  simp [classify, inCodespace, measureSyndrome_eq_symp]

/-- the residual syndrome is syndrome(error) + syndrome(correction): `codespace` ⇔ the
    correction reproduces the recorded syndrome (for corrections of the right length) -/
theorem trial_codespace_iff_reproduces (dt : DType) (c : CodeMats) (e : List Nat)
    (dec : List Nat → List Nat)
    (hlen : (dec (measureSyndrome c.H e)).length = e.length) :
    let t := classify dt c e dec
    t.codespace = true ↔
      ∀ x ∈ vxor (measureSyndrome c.H t.correction) t.syndrome, x = 0 := by
  simp only [classify, inCodespace]
  rw [measureSyndrome_vxor c.H _ e hlen]
  simp

/-- `success` ⇔ `codespace` and zero effective error -/
theorem trial_success_iff (dt : DType) (c : CodeMats) (e : List Nat)
    (dec : List Nat → List Nat) :
    let t := classify dt c e dec
    t.success = true ↔ t.codespace = true ∧ ∀ x ∈ t.effectiveError, x = 0 := by
  simp only [classify, Bool.and_eq_true, List.all_eq_true, beq_iff_eq]
  exact And.comm

/-- `run_once` returns such a record exactly when `0 ≤ error_rate ≤ 1`, else raises -/
theorem run_once_guard (dt : DType) (c : CodeMats) (probs : List QubitProbs) (rate : Rat)
    (dec : List Nat → List Nat) (u : Nat → Rat) (pos : Nat) :
    (0 ≤ rate ∧ rate ≤ 1 →
      runOnce dt c probs rate dec u pos = .ok (classify dt c (generate probs u pos) dec)) ∧
    (¬ (0 ≤ rate ∧ rate ≤ 1) → runOnce dt c probs rate dec u pos = .error .rate) := by
  unfold runOnce rateOk
  constructor
  · intro h; simp [h.1, h.2]
  · intro h
    have : (decide (0 ≤ rate) && decide (rate ≤ 1)) = false := by
      simp only [Bool.and_eq_false_iff, decide_eq_false_iff_not]
      by_cases h0 : 0 ≤ rate
      · right; intro h1; exact h ⟨h0, h1⟩
      · left; exact h0
    simp [this]

/-! ### accounting: any history of `run(k)` calls -/

/-- after any history of `run(k)` calls on a fresh simulation, all three result lists have
    length `n_runs`, `n_runs` is the total number of trials requested, and the generator
    has been read exactly `n` times per trial -/
theorem lists_have_length_n_runs (cfg : Config) (u : Nat → Rat) (ks : List Nat) (s : State)
    (h : runs cfg u ks State.init = .ok s) :
    s.nRuns = ks.sum ∧ s.effectiveError.length = s.nRuns ∧ s.success.length = s.nRuns ∧
    s.codespace.length = s.nRuns ∧ s.pos = cfg.probs.length * s.nRuns := by
  have := runs_wf cfg u ks State.init s (init_wf _) h
  refine ⟨by simpa [State.init] using this.2, this.1.eff, this.1.suc, this.1.cod, this.1.pos⟩

/-- the estimator: `n_runs` reported by `get_results` is the counter, failures and
    successes partition the trials, and `p_est = n_fail / n_runs` (`nan` iff no trial) -/
theorem estimator_is_fail_fraction (cfg : Config) (u : Nat → Rat) (ks : List Nat) (s : State)
    (h : runs cfg u ks State.init = .ok s) :
    let r := getResults s
    r.nRuns = s.nRuns ∧ r.nFail + r.nSuccess = r.nRuns ∧
    r.nFail = (s.success.filter (· == false)).length ∧
    (r.nRuns ≠ 0 → r.pEst = some ((r.nFail : Rat) / (r.nRuns : Rat))) ∧
    (r.nRuns = 0 → r.pEst = none) := by
  have hw := (runs_wf cfg u ks State.init s (init_wf _) h).1
  have hc := count_not_add_count s.success
  have hf : (s.success.map (!·)).count true = (s.success.filter (· == false)).length := by
    rw [List.count_eq_length_filter, List.filter_map, List.length_map]
    congr 1
    apply List.filter_congr
    intro b _; cases b <;> rfl
  simp only [getResults]
  refine ⟨hw.suc, ?_, ?_, ?_, ?_⟩
  · by_cases hn : s.success.length > 0
    · simp only [hn, if_true]; exact hc
    · have : s.success = [] := List.eq_nil_of_length_eq_zero (by omega)
      simp [this]
  · by_cases hn : s.success.length > 0
    · simp only [hn, if_true]; exact hf
    · have : s.success = [] := List.eq_nil_of_length_eq_zero (by omega)
      simp [this]
  · intro hn; simp [hn]
  · intro hn; simp [hn]

/-- interleaving does not matter: any history of `run(k)` calls that does not raise ends in
    the same state as a single `run` of the total -/
theorem interleaving_irrelevant (cfg : Config) (u : Nat → Rat) (ks : List Nat) (s : State)
    (h : runs cfg u ks State.init = .ok s) : run cfg u ks.sum State.init = .ok s :=
  runs_eq_run_sum cfg u ks State.init s h

/-- `run` raises iff the error rate is outside [0,1] and at least one trial is requested;
    it raises before the state is touched -/
theorem run_raises_iff (cfg : Config) (u : Nat → Rat) (k : Nat) (s : State) :
    (rateOk cfg.rate = true → ∃ s', run cfg u k s = .ok s') ∧
    (rateOk cfg.rate = false → run cfg u (k + 1) s = .error .rate ∧ run cfg u 0 s = .ok s) :=
  ⟨fun h => run_ok_of_rateOk cfg u h k s,
   fun h => ⟨run_err_of_not_rateOk cfg u h k s, rfl⟩⟩

/-! ### reproducibility: the run is a function of the variate stream -/

/-- two generators that agree on the first `n · N` variates (`N` = total number of trials)
    give identical runs: same records, same counters, same estimator -/
theorem run_is_function_of_variates (cfg : Config) (u u' : Nat → Rat) (ks : List Nat)
    (hu : ∀ i, i < ks.sum * cfg.probs.length → u i = u' i) :
    runs cfg u ks State.init = runs cfg u' ks State.init :=
  runs_congr cfg u u' ks State.init (fun i _ h2 => hu i (by simpa [State.init] using h2))

/-- the single-call form: equal variates on the window that is read ⇒ equal result -/
theorem run_reproducible (cfg : Config) (u u' : Nat → Rat) (k : Nat) (s : State)
    (hu : ∀ i, s.pos ≤ i → i < s.pos + k * cfg.probs.length → u i = u' i) :
    run cfg u k s = run cfg u' k s := run_congr cfg u u' k s hu

/-- the drawn error only depends on the `n` variates at the read position -/
theorem generate_reads_n_variates (probs : List QubitProbs) (u u' : Nat → Rat) (pos : Nat)
    (hu : ∀ i, pos ≤ i → i < pos + probs.length → u i = u' i) :
    generate probs u pos = generate probs u' pos := generate_congr probs u u' pos hu

/-! ### calibration: the failure frequency is an unbiased estimate -/

/-- a product of normalised single-qubit channels is a normalised distribution on errors -/
theorem channel_normalised (probs : List QubitProbs)
    (h : ∀ q ∈ probs, q.pI + q.pX + q.pY + q.pZ = 1) : (channel probs).total = 1 := by
  unfold channel
  rw [total_map]
  apply total_prodDist_of_normalised
  intro d hd
  simp only [List.mem_map] at hd
  obtain ⟨q, hq, rfl⟩ := hd
  have := h q hq
  simp only [Dist.total, QubitProbs.dist, List.map_cons, List.map_nil, List.sum_cons, List.sum_nil]
  linarith

/-- for `N ≥ 1` independent trials drawn from any normalised finite distribution `d`, the
    expected value of `n_fail / N` is the single-trial failure probability
    `Σ_e P(e) · fail(e)` -/
theorem fail_fraction_unbiased {α : Type} (d : Dist α) (fail : α → Bool) (hd : d.total = 1)
    (N : Nat) (hN : 0 < N) :
    (prodDist (List.replicate N d)).expect (fun xs => (countFail fail xs : Rat) / (N : Rat)) =
      d.expect fun x => if fail x then 1 else 0 := by
  have h := expect_countFail_replicate d fail hd N
  have hN' : (N : Rat) ≠ 0 := by exact_mod_cast (Nat.pos_iff_ne_zero.mp hN)
  have : (prodDist (List.replicate N d)).expect (fun xs => (countFail fail xs : Rat) / (N : Rat))
      = (prodDist (List.replicate N d)).expect (fun xs => (countFail fail xs : Rat)) / (N : Rat) := by
    simp only [Dist.expect]
    rw [div_eq_mul_inv, mul_comm, ← sum_map_mul_left']
    congr 1; apply List.map_congr_left; intro x _; ring
  rw [this, h]
  exact mul_div_cancel_left₀ _ hN'

/-- instance for the simulation: with the i.i.d. Pauli channel of C07/C18 and a decoder that
    is a function of the syndrome, the expectation of `n_fail / N` over `N` trials equals the
    exact failure probability obtained by summing the channel over all `4^n` errors -/
theorem direct_simulation_calibrated (dt : DType) (c : CodeMats) (probs : List QubitProbs)
    (dec : List Nat → List Nat) (h : ∀ q ∈ probs, q.pI + q.pX + q.pY + q.pZ = 1)
    (N : Nat) (hN : 0 < N) :
    (prodDist (List.replicate N (channel probs))).expect
        (fun es => (countFail (fun e => !(classify dt c e dec).success) es : Rat) / (N : Rat)) =
      exactFailProb dt c probs dec := by
  rw [fail_fraction_unbiased _ _ (channel_normalised probs h) N hN]
  unfold exactFailProb failInd
  congr 1
  funext e
  cases (classify dt c e dec).success <;> simp

/-- deterministic calibration: when every single-qubit probability is a multiple of `1/M`,
    drawing one error per point of the complete variate grid `{0, 1/M, …, (M-1)/M}^n` with
    `fast_choice` gives a failure fraction that EQUALS the exact failure probability (no
    statistical error): this is the equality the harness checks on `DirectSimulation` -/
theorem grid_run_failure_fraction_is_exact (dt : DType) (c : CodeMats) (probs : List QubitProbs)
    (dec : List Nat → List Nat) (M : Nat) (hM : 0 < M) (hgrid : ∀ q ∈ probs, OnGrid M q) :
    ((gridPaulis M probs).map fun ps => failInd dt c dec (pauliToBsf ps)).sum /
        ((gridPaulis M probs).length : Rat) = exactFailProb dt c probs dec := by
  rw [grid_realises_channel M hM _ probs hgrid, gridPaulis_length]
  unfold exactFailProb channel
  rw [expect_map]
  have hM' : ((M ^ probs.length : Nat) : Rat) ≠ 0 := by
    exact_mod_cast (Nat.pos_iff_ne_zero.mp (Nat.pow_pos hM))
  push_cast at hM' ⊢
  exact mul_div_cancel_left₀ _ hM'

/-- what the grid does on one qubit: `fast_choice` at `j/M` compares `j` with the cumulative
    counts, strictly (a `<=` in `fast_choice` would shift every boundary point) -/
theorem fast_choice_on_grid (a b c d j M : Nat) (hM : 0 < M) :
    samplePauli (gridProbs a b c d M) ((j : Rat) / M) =
      if j < a then Pauli.I else if j < a + b then Pauli.X else if j < a + b + c then Pauli.Y
      else Pauli.Z := samplePauli_grid a b c d j M hM

/-! ### non-vacuity: concrete instances -/

/-- [[2,0]]-like toy: H = {XX, ZZ}, one logical pair placeholder; the trivial decoder on a
    single X error fails to return to the codespace -/
example :
    let c : CodeMats := ⟨[[1,1,0,0],[0,0,1,1]], [[1,0,0,0]], [[0,0,1,0]]⟩
    (classify .u8 c [1,0,0,0] (fun _ => [0,0,0,0])).syndrome = [0,1] ∧
    (classify .u8 c [1,0,0,0] (fun _ => [0,0,0,0])).codespace = false ∧
    (classify .u8 c [1,0,0,0] (fun _ => [1,0,0,0])).success = true := by decide

/-- a concrete run: 2 qubits, p = 1/2 pure-X channel, three variates-per-trial histories -/
example :
    let cfg : Config := ⟨.u8, ⟨[[0,0,1,1]], [[1,1,0,0]], [[0,0,1,0]]⟩,
      [⟨1/2, 1/2, 0, 0⟩, ⟨1/2, 1/2, 0, 0⟩], 1/2, fun _ _ => [0,0,0,0]⟩
    let u : Nat → Rat := fun i => if i % 3 = 0 then 3/4 else 1/4
    (runs cfg u [1, 0, 2] State.init).toOption.map (fun s => (getResults s).pEst)
      = some (some (2/3)) := by decide +kernel

example : (channel [⟨1/2, 1/4, 1/8, 1/8⟩, ⟨3/4, 0, 0, 1/4⟩]).total = 1 := by decide +kernel

end Panqec.C11
