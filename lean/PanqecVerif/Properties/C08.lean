/-
C08 — Clifford deformation is one consistent single-qubit relabelling.

Property theorems only (thin wrappers); the proofs are in `Proofs/Deform.lean` (vectors and
stacks of rows), `Proofs/DeformOp.lean` (operator dicts, `apply_deformation`) and
`Proofs/DeformHistory.lean` (object history).  Core Lean only, no Mathlib.

Quantifiers: every `n`, every list `Ds` of `n` single-qubit relabellings each of which is a
permutation of {X, Y, Z} (`PauliMap.isPerm`; this covers `id`, X↔Z, Y↔Z and anything else a
class's `get_deformation` could return), every binary vector of length `2n`, every valid
code, every sequence of `deform` / property-access operations on one object.

Model functions: `deformBsf Ds` = the relabelling acting on a BSF vector qubit by qubit;
`deformOp D` = what the getter wrappers installed by `StabilizerCode.deform` do to an
operator dict; `CodeData.deform`; `applyDeformation` = `bpauli.apply_deformation`;
`Deform.Obj` / `Deform.Step` = the object-history state machine (`Model/Deform.lean`).

Not covered here (other deliverables of C08): the per-class `get_deformation` tables and the
noise-model side `P_D(e) = P(D e)`.
-/
import PanqecVerif.Proofs.Deform
import PanqecVerif.Proofs.DeformOp
import PanqecVerif.Proofs.DeformHistory

namespace Panqec.C08

open Panqec Panqec.Deform

/-! ### 1. commutation -/

/-- **Commutation is preserved.**  Relabelling both operators by the same per-qubit
    permutations of {X,Y,Z} does not change their symplectic product. -/
theorem symp_deformBsf {n : Nat} {Ds : List PauliMap} (hlen : Ds.length = n)
    (hperm : ∀ D ∈ Ds, D.isPerm = true) {a b : List Nat}
    (ha : a.length = 2 * n) (hab : ∀ x ∈ a, x < 2)
    (hb : b.length = 2 * n) (hbb : ∀ x ∈ b, x < 2) :
    symp (deformBsf Ds a) (deformBsf Ds b) = symp a b :=
  Deform.symp_deformBsf hlen hperm ha hab hb hbb

/-- The same for arbitrary non-negative integer entries (both sides read the entries
    modulo 2 only). -/
theorem symp_deformBsf_any {n : Nat} {Ds : List PauliMap} (hlen : Ds.length = n)
    (hperm : ∀ D ∈ Ds, D.isPerm = true) {a b : List Nat}
    (ha : a.length = 2 * n) (hb : b.length = 2 * n) :
    symp (deformBsf Ds a) (deformBsf Ds b) = symp a b :=
  Deform.symp_deformBsf_any hlen hperm ha hb

/-- The lemma behind it: the symplectic product of two Pauli strings is the parity of the
    number of positions where the two letters anticommute. -/
theorem symp_counts_anticommuting_positions (ps qs : List Pauli) :
    symp (pauliToBsf ps) (pauliToBsf qs) = acommCount ps qs % 2 :=
  symp_pauliToBsf ps qs

/-! ### 2. linear, binary, length preserving, invertible -/

/-- **GF(2)-linearity**: the relabelling of a product is the product of the relabellings. -/
theorem deformBsf_vxor {n : Nat} {Ds : List PauliMap}
    (hperm : ∀ D ∈ Ds, D.isPerm = true) {a b : List Nat}
    (ha : a.length = 2 * n) (hb : b.length = 2 * n) :
    deformBsf Ds (vxor a b) = vxor (deformBsf Ds a) (deformBsf Ds b) :=
  Deform.deformBsf_vxor hperm ha hb

/-- The result is always a 0/1 vector. -/
theorem deformBsf_binary (Ds : List PauliMap) (v : List Nat) : ∀ x ∈ deformBsf Ds v, x < 2 :=
  Deform.deformBsf_binary Ds v

/-- The number of qubits is preserved. -/
theorem deformBsf_length {n : Nat} {Ds : List PauliMap} (hlen : Ds.length = n) {v : List Nat}
    (hv : v.length = 2 * n) : (deformBsf Ds v).length = 2 * n :=
  Deform.deformBsf_length hlen hv

/-- The inverse of a permutation of {X,Y,Z} is a permutation of {X,Y,Z}. -/
theorem inv_isPerm (D : PauliMap) (h : D.isPerm = true) : D.inv.isPerm = true :=
  Deform.inv_isPerm D h

/-- **Invertibility**: relabelling by the inverse maps undoes the relabelling. -/
theorem deformBsf_inverse {n : Nat} {Ds : List PauliMap} (hlen : Ds.length = n)
    (hperm : ∀ D ∈ Ds, D.isPerm = true) {a : List Nat}
    (ha : a.length = 2 * n) (hab : ∀ x ∈ a, x < 2) :
    deformBsf (Ds.map PauliMap.inv) (deformBsf Ds a) = a :=
  Deform.deformBsf_inverse hlen hperm ha hab

/-- … and the other way round, so `deformBsf Ds` is a bijection of the binary vectors of
    length `2n`. -/
theorem deformBsf_inverse_right {n : Nat} {Ds : List PauliMap} (hlen : Ds.length = n)
    (hperm : ∀ D ∈ Ds, D.isPerm = true) {a : List Nat}
    (ha : a.length = 2 * n) (hab : ∀ x ∈ a, x < 2) :
    deformBsf Ds (deformBsf (Ds.map PauliMap.inv) a) = a :=
  Deform.deformBsf_inverse_right hlen hperm ha hab

/-! ### 3. the dict-level relabelling is the vector-level relabelling -/

/-- **`to_bsf` of the relabelled dict = relabelled `to_bsf`** (including the `KeyError`
    case `none`), for an operator dict with distinct keys.  The hypotheses `qs.Nodup`,
    `NoIdentity op` and "every `D q` is a permutation" are not needed. -/
theorem toBsf_deformOp (qs : List Coord) (op : Op) (D : Coord → PauliMap)
    (hq : qs.Nodup) (hk : KeysNodup op) (hi : NoIdentity op)
    (hperm : ∀ q, (D q).isPerm = true) :
    toBsf qs (deformOp D op) = (toBsf qs op).map (deformBsf (qs.map D)) :=
  Deform.toBsf_deformOp qs op D hq hk hi hperm

/-- The strong form: distinct dict keys suffice. -/
theorem toBsf_deformOp_of_keysNodup (qs : List Coord) (op : Op) (D : Coord → PauliMap)
    (hk : KeysNodup op) :
    toBsf qs (deformOp D op) = (toBsf qs op).map (deformBsf (qs.map D)) :=
  Deform.toBsf_deformOp_of_keysNodup qs op D hk

/-- **Deforming a code replaces every stabilizer and logical by its image**: the three
    matrices computed from the deformed getters are the undeformed matrices with every row
    relabelled by `deformBsf (qubits.map D)`. -/
theorem matrices_deform (c : CodeData) (D : Coord → PauliMap)
    (hS : ∀ op ∈ c.stabOps, KeysNodup op) (hX : ∀ op ∈ c.logX, KeysNodup op)
    (hZ : ∀ op ∈ c.logZ, KeysNodup op) :
    stabilizerMatrix (c.deform D) =
      (stabilizerMatrix c).map (List.map (deformBsf (c.qubits.map D))) ∧
    logicalsX (c.deform D) = (logicalsX c).map (List.map (deformBsf (c.qubits.map D))) ∧
    logicalsZ (c.deform D) = (logicalsZ c).map (List.map (deformBsf (c.qubits.map D))) :=
  ⟨stabilizerMatrix_deform c D hS, logicalsX_deform c D hX, logicalsZ_deform c D hZ⟩

/-! ### 4. validity -/

/-- **n, k, commutation, pairing and rank are preserved**: the relabelled rows of a valid
    `[[n,k]]` code form a valid `[[n,k]]` code (all clauses of C01, including the GF(2)
    rank `n - k`: independence and span are preserved by a linear bijection). -/
theorem validCode_deform {n k : Nat} {Ds : List PauliMap} (hlen : Ds.length = n)
    (hperm : ∀ D ∈ Ds, D.isPerm = true) {H Lx Lz : List (List Nat)}
    (hv : ValidCodeL n k H Lx Lz) :
    ValidCodeL n k (H.map (deformBsf Ds)) (Lx.map (deformBsf Ds)) (Lz.map (deformBsf Ds)) :=
  Deform.validCode_deform hlen hperm hv

/-- Stabilizer-group membership is preserved in both directions… -/
theorem inSpan_deform {n : Nat} {Ds : List PauliMap} (hlen : Ds.length = n)
    (hperm : ∀ D ∈ Ds, D.isPerm = true) {rows : List (List Nat)} {v : List Nat}
    (hw : ∀ r ∈ rows, r.length = 2 * n) (h : InSpan (2 * n) rows v) :
    InSpan (2 * n) (rows.map (deformBsf Ds)) (deformBsf Ds v) :=
  inSpan_map hlen hperm hw h

/-- … and so is the rank of any stack of rows. -/
theorem hasRank_deform {n r : Nat} {Ds : List PauliMap} (hlen : Ds.length = n)
    (hperm : ∀ D ∈ Ds, D.isPerm = true) {rows : List (List Nat)}
    (hw : ∀ r ∈ rows, r.length = 2 * n) (h : HasRank (2 * n) rows r) :
    HasRank (2 * n) (rows.map (deformBsf Ds)) r :=
  hasRank_map hlen hperm hw h

/-! ### 5. syndrome, logical effect, verdict -/

/-- **Same syndrome**: the deformed code sees the relabelled error `D(e)` exactly as the
    original code sees `e`. -/
theorem syndrome_deform {n : Nat} {Ds : List PauliMap} (hlen : Ds.length = n)
    (hperm : ∀ D ∈ Ds, D.isPerm = true) {H : List (List Nat)} (hH : WFRows n H)
    {e : List Nat} (he : e.length = 2 * n) (heb : ∀ x ∈ e, x < 2) :
    measureSyndrome (H.map (deformBsf Ds)) (deformBsf Ds e) = measureSyndrome H e :=
  Deform.syndrome_deform hlen hperm hH he heb

/-- **Same logical effect** (both dtypes of the dense `bs_prod` path). -/
theorem logicalErrors_deform {n : Nat} {Ds : List PauliMap} (hlen : Ds.length = n)
    (hperm : ∀ D ∈ Ds, D.isPerm = true) (dt : DType) {Lx Lz : List (List Nat)}
    (hX : WFRows n Lx) (hZ : WFRows n Lz)
    {e : List Nat} (he : e.length = 2 * n) (heb : ∀ x ∈ e, x < 2) :
    logicalErrors dt (Lx.map (deformBsf Ds)) (Lz.map (deformBsf Ds)) (deformBsf Ds e) =
      logicalErrors dt Lx Lz e :=
  Deform.logicalErrors_deform hlen hperm dt hX hZ he heb

/-- **Same verdict** of `is_success`. -/
theorem isSuccess_deform {n : Nat} {Ds : List PauliMap} (hlen : Ds.length = n)
    (hperm : ∀ D ∈ Ds, D.isPerm = true) (dt : DType) {H Lx Lz : List (List Nat)}
    (hH : WFRows n H) (hX : WFRows n Lx) (hZ : WFRows n Lz)
    {e : List Nat} (he : e.length = 2 * n) (heb : ∀ x ∈ e, x < 2) :
    isSuccess dt (H.map (deformBsf Ds)) (Lx.map (deformBsf Ds)) (Lz.map (deformBsf Ds))
        (deformBsf Ds e) = isSuccess dt H Lx Lz e :=
  Deform.isSuccess_deform hlen hperm dt hH hX hZ he heb

/-! ### 6. `apply_deformation` -/

/-- **`apply_deformation(indices, bsf)` is the Hadamard relabelling X↔Z on exactly the
    flagged qubits** (identity elsewhere), for a binary vector of the right length. -/
theorem applyDeformation_eq (flags : List Bool) (v : List Nat)
    (hv : v.length = 2 * flags.length) (hb : ∀ x ∈ v, x < 2) :
    applyDeformation flags v =
      some (deformBsf (flags.map fun f => if f then PauliMap.swapXZ else PauliMap.id) v) :=
  Deform.applyDeformation_eq flags v hv hb

/-- The error case: `ValueError` exactly when the length is not `2 * len(indices)`. -/
theorem applyDeformation_eq_none_iff (flags : List Bool) (v : List Nat) :
    applyDeformation flags v = none ↔ v.length ≠ 2 * flags.length :=
  Deform.applyDeformation_eq_none_iff flags v

/-! ### 7. object history -/

/-- **History independence.**  After EVERY sequence of `deform` calls and property
    accesses on one object, the matrices a caller reads are those of the last deformation
    applied to the UNDEFORMED code — independent of earlier deformations and of which
    caches were filled when; with no `deform` at all they are those of the class's own
    getters.  (`expected orig ops` is `matricesOf (orig.deform D_last)` resp.
    `matricesOf orig`.) -/
theorem history_independent (orig : CodeData) (ops : List Step) :
    (Obj.run false (Obj.init orig) ops).observe = expected orig ops :=
  Deform.history_independent orig ops

/-- The same, spelled out: any prefix, then `deform D`, then any property accesses. -/
theorem history_independent_last (orig : CodeData) (pre post : List Step)
    (D : Coord → PauliMap) (hpost : noDeform post) :
    (Obj.run false (Obj.init orig) (pre ++ .deform D :: post)).observe =
      matricesOf (orig.deform D) :=
  Deform.history_independent_last orig pre post D hpost

/-- No `deform` at all: the observables are those of the undeformed code. -/
theorem history_independent_none (orig : CodeData) (ops : List Step) (h : noDeform ops) :
    (Obj.run false (Obj.init orig) ops).observe = matricesOf orig :=
  Deform.history_independent_none orig ops h

/-- The invariant the proof goes through (exposed because it says more than the
    observables: the captured getters are never overwritten). -/
theorem history_invariant (orig : CodeData) (ops : List Step) :
    Inv orig (lastDeform ops) (Obj.run false (Obj.init orig) ops) :=
  inv_run orig ops

/-- **End to end.**  If the undeformed code is a valid `[[n,k]]` code (matrices `H`, `Lx`,
    `Lz`, operator dicts with distinct keys) and `get_deformation` returns a permutation of
    {X,Y,Z} for every qubit, then after any history ending in `deform D` (plus accesses) the
    object exposes the relabelled matrices, and they form a valid `[[n,k]]` code. -/
theorem deformed_object_valid {n k : Nat} (orig : CodeData) {H Lx Lz : List (List Nat)}
    (hn : orig.qubits.length = n)
    (hH : stabilizerMatrix orig = some H) (hLx : logicalsX orig = some Lx)
    (hLz : logicalsZ orig = some Lz) (hv : ValidCodeL n k H Lx Lz)
    (hS : ∀ op ∈ orig.stabOps, KeysNodup op) (hX : ∀ op ∈ orig.logX, KeysNodup op)
    (hZ : ∀ op ∈ orig.logZ, KeysNodup op)
    (D : Coord → PauliMap) (hperm : ∀ q, (D q).isPerm = true)
    (pre post : List Step) (hpost : noDeform post) :
    let f := deformBsf (orig.qubits.map D)
    (Obj.run false (Obj.init orig) (pre ++ .deform D :: post)).observe =
        ⟨some (H.map f), some (Lx.map f), some (Lz.map f)⟩ ∧
      ValidCodeL n k (H.map f) (Lx.map f) (Lz.map f) := by
  intro f
  have hm := matrices_deform orig D hS hX hZ
  refine ⟨?_, Deform.validCode_deform (by simpa using hn) ?_ hv⟩
  · rw [Deform.history_independent_last orig pre post D hpost, matricesOf,
      hm.1, hm.2.1, hm.2.2, hH, hLx, hLz]
    rfl
  · intro D' hD'
    simp only [List.mem_map] at hD'
    obtain ⟨q, _, rfl⟩ := hD'
    exact hperm q

/-! ### non-vacuity and the regression example -/

/-- the `[[4,2,2]]` code: `H = [XXXX, ZZZZ]`, `X̄ = XXII, XIXI`, `Z̄ = IZIZ, IIZZ` -/
def c422 : CodeData :=
  { qubits := [[0], [1], [2], [3]]
    stabs := [[0], [1]]
    stabOps := [[([0], .X), ([1], .X), ([2], .X), ([3], .X)],
                [([0], .Z), ([1], .Z), ([2], .Z), ([3], .Z)]]
    logX := [[([0], .X), ([1], .X)], [([0], .X), ([2], .X)]]
    logZ := [[([1], .Z), ([3], .Z)], [([2], .Z), ([3], .Z)]] }

def H422 : List (List Nat) := [[1,1,1,1, 0,0,0,0], [0,0,0,0, 1,1,1,1]]
def Lx422 : List (List Nat) := [[1,1,0,0, 0,0,0,0], [1,0,1,0, 0,0,0,0]]
def Lz422 : List (List Nat) := [[0,0,0,0, 0,1,0,1], [0,0,0,0, 0,0,1,1]]

/-- a mixed assignment: Hadamard on qubits 0 and 3, Y↔Z on qubit 2, nothing on qubit 1 -/
def Dmix : Coord → PauliMap
  | [0] => .swapXZ
  | [2] => .swapYZ
  | [3] => .swapXZ
  | _ => .id

def DsMix : List PauliMap := [.swapXZ, .id, .swapYZ, .swapXZ]

theorem Dmix_isPerm (q : Coord) : (Dmix q).isPerm = true := by
  unfold Dmix; split <;> decide

theorem DsMix_isPerm : ∀ D ∈ DsMix, D.isPerm = true := by decide

example : matricesOf c422 = ⟨some H422, some Lx422, some Lz422⟩ := by decide
example : c422.qubits.map Dmix = DsMix := by decide

theorem valid422 : ValidCodeL 4 2 H422 Lx422 Lz422 where
  wfH := by unfold WFRows; decide
  wfX := by unfold WFRows; decide
  wfZ := by unfold WFRows; decide
  kX := rfl
  kZ := rfl
  stab_comm := by decide
  logX_comm := by decide
  logZ_comm := by decide
  pairing := by
    intro i j hi hj
    have hi' : i = 0 ∨ i = 1 := by omega
    have hj' : j = 0 ∨ j = 1 := by omega
    rcases hi' with rfl | rfl <;> rcases hj' with rfl | rfl <;> decide
  logXX := by decide
  logZZ := by decide
  rank := by
    refine ⟨H422, List.Sublist.refl _, rfl, ?_, ?_⟩
    · intro sel hl
      match sel, hl with
      | [a, b], _ => revert a b; decide
    · intro v hv
      simp only [H422, List.mem_cons, List.not_mem_nil, or_false] at hv
      rcases hv with rfl | rfl
      · exact ⟨[true, false], rfl, by decide⟩
      · exact ⟨[false, true], rfl, by decide⟩
  k_le := by decide

/-- the relabelled `[[4,2,2]]` code, computed: `XXXX ↦ ZXXZ`, `ZZZZ ↦ XZYX`,
    `XXII ↦ ZXII`, `XIXI ↦ ZIXI`, `IZIZ ↦ IZIX`, `IIZZ ↦ IIYX` -/
example : H422.map (deformBsf DsMix) = [[0,1,1,0, 1,0,0,1], [1,0,1,1, 0,1,1,0]] ∧
    Lx422.map (deformBsf DsMix) = [[0,1,0,0, 1,0,0,0], [0,0,1,0, 1,0,0,0]] ∧
    Lz422.map (deformBsf DsMix) = [[0,0,0,1, 0,1,0,0], [0,0,1,1, 0,0,1,0]] := by decide

/-- `validCode_deform` instantiated on it (hypotheses satisfiable, conclusion non-trivial) -/
example : ValidCodeL 4 2 [[0,1,1,0, 1,0,0,1], [1,0,1,1, 0,1,1,0]]
    [[0,1,0,0, 1,0,0,0], [0,0,1,0, 1,0,0,0]] [[0,0,0,1, 0,1,0,0], [0,0,1,1, 0,0,1,0]] :=
  validCode_deform (Ds := DsMix) rfl DsMix_isPerm valid422

/-- the dict-level deformation of the object gives the same matrices (theorem 3) -/
example : matricesOf (c422.deform Dmix) =
    ⟨some [[0,1,1,0, 1,0,0,1], [1,0,1,1, 0,1,1,0]],
     some [[0,1,0,0, 1,0,0,0], [0,0,1,0, 1,0,0,0]],
     some [[0,0,0,1, 0,1,0,0], [0,0,1,1, 0,0,1,0]]⟩ := by decide

/-- commutation: `e = XIIZ` anticommutes with `ZZZZ` only; its image `ZIIX` anticommutes
    with the image of `ZZZZ` only -/
example : measureSyndrome H422 [1,0,0,0, 0,0,0,1] = [1, 1] ∧
    deformBsf DsMix [1,0,0,0, 0,0,0,1] = [0,0,0,1, 1,0,0,0] ∧
    measureSyndrome (H422.map (deformBsf DsMix)) (deformBsf DsMix [1,0,0,0, 0,0,0,1]) = [1, 1] ∧
    logicalErrors .u8 Lx422 Lz422 [1,0,0,0, 0,0,0,1] = [0, 0, 0, 0] ∧
    logicalErrors .u8 (Lx422.map (deformBsf DsMix)) (Lz422.map (deformBsf DsMix))
      (deformBsf DsMix [1,0,0,0, 0,0,0,1]) = [0, 0, 0, 0] := by decide

/-- a logical error stays a logical error with the same effect (`X̄₁ = XXII`) -/
example : logicalErrors .wide Lx422 Lz422 [1,1,0,0, 0,0,0,0] = [1, 0, 0, 0] ∧
    logicalErrors .wide (Lx422.map (deformBsf DsMix)) (Lz422.map (deformBsf DsMix))
      (deformBsf DsMix [1,1,0,0, 0,0,0,0]) = [1, 0, 0, 0] := by decide

/-- inverse instantiated -/
example : deformBsf (DsMix.map PauliMap.inv) (deformBsf DsMix [1,0,1,1, 0,1,1,0]) =
    [1,0,1,1, 0,1,1,0] := by decide

/-- a map that is NOT a permutation (X and Z both sent to Z) does not preserve
    commutation: the permutation hypothesis is needed -/
example : symp (deformBsf [⟨.Z, .Y, .Z⟩] [1, 0]) (deformBsf [⟨.Z, .Y, .Z⟩] [0, 1]) = 0 ∧
    symp [1, 0] [0, 1] = 1 := by decide

/-- `apply_deformation([True, False, True], XYZ) = ZYX` and the error case -/
example : applyDeformation [true, false, true] [1,1,0, 0,1,1] = some [0,1,1, 1,1,0] ∧
    deformBsf [.swapXZ, .id, .swapXZ] [1,1,0, 0,1,1] = [0,1,1, 1,1,0] ∧
    applyDeformation [true, false, true] [1,1,0, 0,1] = none := by decide

/-! #### object histories -/

/-- an XZZX-like deformation: Hadamard on the qubits `[1]` and `[3]` -/
def Dxzzx : Coord → PauliMap
  | [1] => .swapXZ
  | [3] => .swapXZ
  | _ => .id

/-- the XY deformation: Y↔Z on every qubit -/
def Dxy : Coord → PauliMap := fun _ => .swapYZ

/-- a history with two different deformations and caches filled in between: the object
    shows `XY` applied to the undeformed code -/
example : (Obj.run false (Obj.init c422)
      [.accessH, .deform Dxzzx, .accessLx, .accessH, .deform Dxy, .accessLz]).observe =
    matricesOf (c422.deform Dxy) :=
  history_independent_last c422 [.accessH, .deform Dxzzx, .accessLx, .accessH] [.accessLz] Dxy
    (by intro op hop D; simp at hop; subst hop; simp)

/-- the same history evaluated, against the explicit matrices (`ZZZZ ↦ YYYY`) -/
example : (Obj.run false (Obj.init c422)
      [.accessH, .deform Dxzzx, .accessLx, .accessH, .deform Dxy, .accessLz]).observe =
    ⟨some [[1,1,1,1, 0,0,0,0], [1,1,1,1, 1,1,1,1]],
     some Lx422,
     some [[0,1,0,1, 0,1,0,1], [0,0,1,1, 0,0,1,1]]⟩ := by decide

/-- `deform XZZX; deform XZZX` on the faithful model: still XZZX of the undeformed code
    (`XXXX ↦ XZXZ`) -/
example : (Obj.run false (Obj.init c422) [.deform Dxzzx, .deform Dxzzx]).observe =
    matricesOf (c422.deform Dxzzx) ∧
    (matricesOf (c422.deform Dxzzx)).H = some [[1,0,1,0, 0,1,0,1], [0,1,0,1, 1,0,1,0]] := by
  decide

/-- **Regression example.**  The BROKEN variant (the current getters are captured on every
    `deform`, i.e. the deformation is applied to already deformed getters) violates
    `history_independent` for `deform XZZX; deform XZZX`: the two Hadamards cancel and the
    object shows the undeformed code. -/
theorem broken_variant_violates :
    (Obj.run true (Obj.init c422) [.deform Dxzzx, .deform Dxzzx]).observe ≠
      expected c422 [.deform Dxzzx, .deform Dxzzx] ∧
    (Obj.run true (Obj.init c422) [.deform Dxzzx, .deform Dxzzx]).observe = matricesOf c422 := by
  decide

/-- a stale cache would be visible too: without the re-initialisation the matrix read
    before `deform` would survive; the faithful model clears it -/
example : (Obj.run false (Obj.init c422) [.accessH, .deform Dxzzx]).cachedH = none := by decide

end Panqec.C08
