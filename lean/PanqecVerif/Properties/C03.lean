/-
C03 — Pauli representations are lossless and the symplectic product is exact.

Property theorems only; helper lemmas are in `Proofs/Bits.lean`.
All statements are for every length and every vector (no size bound).
-/
import PanqecVerif.Proofs.Bits
import PanqecVerif.Model.Code

namespace Panqec.C03

open Panqec

/-- Every computational path of `bs_prod` (dense `uint8` with wrap-around at any
    overlap weight, dense wide integers, sparse csr) returns the GF(2) symplectic
    form `x_a·z_b + z_a·x_b`. -/
theorem bs_prod_is_symplectic_form (dt : DType) (sparse : Bool) (a b : List Nat)
    (hg : bsGuard a b = .ok ()) : bsProd dt sparse a b = .ok (symp a b) := by
  unfold bsProd
  rw [hg]
  cases sparse
  · simp [bsProdDense_eq_symp]
  · simp [bsProdSparse_eq_symp]

/-- the same for stacks: entry (i,j) of `bs_prod(A,B)` is the form of row i and row j -/
theorem bs_prod_matrix_entries (dt : DType) (sparse : Bool) (A B : List (List Nat)) :
    bsProdMat dt sparse A B = A.map fun r => B.map fun c => symp r c := by
  unfold bsProdMat
  cases sparse <;> simp [bsProdDense_eq_symp, bsProdSparse_eq_symp]

/-- `bs_prod` rejects exactly odd-length and unequal-length inputs -/
theorem bs_prod_guard (a b : List Nat) :
    bsGuard a b = .ok () ↔ a.length % 2 = 0 ∧ b.length % 2 = 0 ∧ b.length = a.length := by
  unfold bsGuard
  split
  · simp_all
  · split
    · simp_all
    · split <;> simp_all

theorem symmetric (a b : List Nat) : symp a b = symp b a := symp_comm a b

theorem zero_on_equal_arguments (a : List Nat) : symp a a = 0 := symp_self a

theorem bilinear_left (a b c : List Nat) (h : a.length = b.length) :
    symp (vxor a b) c = (symp a c + symp b c) % 2 := symp_vxor_left a b c h

theorem bilinear_right (a b c : List Nat) (h : b.length = c.length) :
    symp a (vxor b c) = (symp a b + symp a c) % 2 := symp_vxor_right a b c h

/-- the form only sees entries modulo 2 (so any integer dtype holding 0/1 data agrees) -/
theorem depends_on_parity_only (a c : List Nat) : symp (a.map (· % 2)) c = symp a c :=
  symp_map_mod_left a c

/-- syndrome measurement is GF(2)-linear in the error, for every parity-check matrix -/
theorem syndrome_linear (H : List (List Nat)) (e f : List Nat) (h : e.length = f.length) :
    measureSyndrome H (vxor e f) = vxor (measureSyndrome H e) (measureSyndrome H f) := by
  unfold measureSyndrome bsProdRows
  induction H with
  | nil => simp [vxor]
  | cons r H ih =>
    simp only [List.map_cons, if_true] at ih ⊢
    simp only [vxor, vadd_cons, List.map_cons] at ih ⊢
    rw [ih]
    have hs : symp r (List.map (fun x => x % 2) (vadd e f)) = (symp r e + symp r f) % 2 :=
      symp_vxor_right r e f h
    simp [bsProdSparse_eq_symp, hs]

/-- Pauli string → BSF → Pauli string is the identity -/
theorem string_bsf_roundtrip (ps : List Pauli) : bsfToPauli (pauliToBsf ps) = ps :=
  bsfToPauli_pauliToBsf ps

/-- BSF → Pauli string → BSF is the identity on binary vectors of even length -/
theorem bsf_string_roundtrip (v : List Nat) (heven : v.length % 2 = 0) (hbin : ∀ x ∈ v, x < 2) :
    pauliToBsf (bsfToPauli v) = v := pauliToBsf_bsfToPauli v heven hbin

theorem weight_counts_nonidentity (ps : List Pauli) :
    bsfWt (pauliToBsf ps) = ps.countP (· ≠ Pauli.I) := bsfWt_pauliToBsf ps

/-- the weight of a stack of operators (2-D input of `bsf_wt`, dense or sparse) is the number of non-identity
    letters of the stacked Pauli strings: weights and strings agree row by row -/
theorem bsfWtStack_pauliToBsf (pss : List (List Pauli)) :
    bsfWtStack (pss.map pauliToBsf) = (pss.map fun ps => ps.countP (· ≠ Pauli.I)).sum := by
  unfold bsfWtStack
  rw [List.map_map]
  congr 1
  apply List.map_congr_left
  intro ps _
  exact bsfWt_pauliToBsf ps


/-- BSF → integer → BSF is the identity (binary vector of `n ≥ 1` qubits) -/
theorem int_roundtrip (v : List Nat) (n : Nat) (hn : 0 < n) (hlen : v.length = 2 * n)
    (hbin : ∀ x ∈ v, x < 2) : intToBvector (bvectorToInt v) n = v := by
  unfold intToBvector
  have hlt := bvectorToInt_lt v hbin
  have hw : max (2 * n) (Nat.log2 (bvectorToInt v) + 1) = v.length := by
    by_cases hk : bvectorToInt v = 0
    · rw [hk]
      have h0 : Nat.log2 0 = 0 := by decide
      rw [h0]; omega
    · have := log2_lt_of_lt_pow _ _ hlt hk
      omega
  rw [hw]
  exact natToBitsBE_bvectorToInt v hbin

/-- integer → BSF → integer is the identity for every integer -/
theorem int_roundtrip' (k n : Nat) : bvectorToInt (intToBvector k n) = k := by
  unfold intToBvector
  apply bvectorToInt_natToBitsBE
  by_cases hk : k = 0
  · subst hk; exact Nat.two_pow_pos _
  · have h1 : k < 2 ^ (Nat.log2 k + 1) := Nat.lt_log2_self
    exact Nat.lt_of_lt_of_le h1 (Nat.pow_le_pow_right (by omega) (by omega))

/-! non-vacuity: concrete non-trivial instances of the hypotheses -/
example : bsGuard [1, 0, 0, 1] [0, 1, 1, 1] = .ok () := rfl
example : symp [1, 0, 0, 1] [0, 1, 1, 1] = 0 ∧ symp [1, 0, 0, 0] [0, 0, 1, 0] = 1 := by decide
example : bvectorToInt (intToBvector 11 2) = 11 := by decide
/-- the wrap that matters: 256 overlapping positions in `uint8` still give parity 0 -/
example : bsProdDense .u8 (List.replicate 256 1 ++ List.replicate 256 0)
    (List.replicate 256 0 ++ List.replicate 256 1) = 0 := by
  rw [bsProdDense_eq_symp]; decide +kernel

end Panqec.C03
