/-
C17 for `Planar3DCode`, ALL sizes of the supported family (`Lx, Ly, Lz ≥ 1`, no upper bound): the
distance `code.d` reports is the true code distance, `min Lx (Ly·Lz)` — for the undeformed code
and for every deformed code the class offers.

The matrices are the ones the generic code model assembles from the hand-written lattice model
`Model/Lattices/Planar3DCode.lean` (tied to `panqec/codes/surface_3d/_planar_3d_code.py` by the
correspondence streams of `harness/lattices/planar3dcode.py`); they form a valid `[[n, 1]]` code
for every size (`C01Planar3DCode.valid_code`).

* `reported_distance` — `code.d` (`distance`, the minimum Pauli weight over the rows of
  `logicals_x` and `logicals_z`, as `StabilizerCode.d` computes it) is `min Lx (Ly·Lz)`: the listed
  logical X is a line of `Lx` x-edges, the listed logical Z a plane of `Ly·Lz` x-edges
  (`weights_listed`).  (Checked against the Python: `Planar3DCode(4, 3, 2).d == 4`,
  `Planar3DCode(2, 3, 4).d == 2`, `Planar3DCode(3, 1, 2).d == 2`.)
* `lower_bound` — every non-trivial logical operator has weight `≥ min Lx (Ly·Lz)`.  Packing
  argument (`Proofs/DistLattice.lean`, `Proofs/DistCubic3D.lean`, `Proofs/DistPlanar3DCode.lean`): a
  non-trivial logical anticommutes with the listed X line or with the listed Z plane (C04).  The
  line has `Ly·Lz` lattice translates `(y, z) = (2j, 2k)` with pairwise disjoint supports (moving
  `z` by 2 multiplies by the row of xz face generators between the lines, moving `y` by the row of
  xy face generators); the plane has `Lx` translates `x = 2i + 1`, consecutive ones differing by the
  slab of vertex generators between them; generators at the open boundaries have fewer qubits.
  So every operator commuting with all generators meets all `Ly·Lz` translates of the line or all
  `Lx` translates of the plane.
* `distance` — `IsDistance n H (min Lx (Ly·Lz))`; `distance_reported` for the reported `d`.
* `distance_deformed`, `distance_deformed_offered` — the same for EVERY DEFORMED code of the class
  (`deform('XZZX', deformation_axis=ax)`, `ax ∈ {x, y, z}` or omitted; every other name or axis
  raises), every size (`C17.distance_deformation_invariant`).
-/
import PanqecVerif.Properties.C01Planar3DCode
import PanqecVerif.Proofs.DistPlanar3DCode
import PanqecVerif.Proofs.Dist
import PanqecVerif.Proofs.DistDeform

namespace Panqec.C17Planar3DCode
open Panqec.Cubic3D Panqec.Planar3DCode

/-- the number of qubits, `Lx·Ly·Lz + (Lx−1)(Ly−1)·Lz + (Lx−1)·Ly·(Lz−1)` -/
abbrev nq (Lx Ly Lz : Nat) : Nat :=
  Lx * Ly * Lz + (Lx - 1) * (Ly - 1) * Lz + (Lx - 1) * Ly * (Lz - 1)

/-- the row of `logicals_x` has Pauli weight `Lx` (a line), the row of `logicals_z` weight `Ly·Lz`
    (a plane) — every `Lx, Ly, Lz ≥ 1` -/
theorem weights_listed (Lx Ly Lz : Nat) (hLx : 1 ≤ Lx) (hLy : 1 ≤ Ly) (hLz : 1 ≤ Lz) :
    (lattice Lx Ly Lz).rowsX.map pauliWeight = [Lx] ∧
    (lattice Lx Ly Lz).rowsZ.map pauliWeight = [Ly * Lz] :=
  Planar3DCode.weights_listed (C01Planar3DCode.wf Lx Ly Lz hLx hLy hLz)

/-- what `code.d` returns — the minimum weight over the listed logical operators — is
    `min Lx (Ly·Lz)`, every `Lx, Ly, Lz ≥ 1` -/
theorem reported_distance (Lx Ly Lz : Nat) (hLx : 1 ≤ Lx) (hLy : 1 ≤ Ly) (hLz : 1 ≤ Lz) :
    Panqec.distance (lattice Lx Ly Lz).rowsX (lattice Lx Ly Lz).rowsZ =
      some (min Lx (Ly * Lz)) :=
  Planar3DCode.reported_distance (C01Planar3DCode.wf Lx Ly Lz hLx hLy hLz)

/-- no non-trivial logical operator (commutes with every generator, is not a product of
    generators) of the `Lx × Ly × Lz` 3-D planar code is lighter than `min Lx (Ly·Lz)` — every
    `Lx, Ly, Lz ≥ 1` -/
theorem lower_bound (Lx Ly Lz : Nat) (hLx : 1 ≤ Lx) (hLy : 1 ≤ Ly) (hLz : 1 ≤ Lz) :
    ∀ v, IsNontrivialLogical (nq Lx Ly Lz) (lattice Lx Ly Lz).rowsH v →
      min Lx (Ly * Lz) ≤ pauliWeight v :=
  Planar3DCode.lower_bound hLz (C01Planar3DCode.wf Lx Ly Lz hLx hLy hLz)
    (qubits_length Lx Ly Lz) (C01Planar3DCode.valid_code Lx Ly Lz hLx hLy hLz).2.2.2

/-- THE C17 STATEMENT FOR ALL SIZES (`Lx, Ly, Lz ≥ 1`): the code distance of the `Lx × Ly × Lz`
    3-D planar code — the minimum weight of a non-trivial logical operator of the assembled
    parity-check matrix — is `min Lx (Ly·Lz)` -/
theorem distance (Lx Ly Lz : Nat) (hLx : 1 ≤ Lx) (hLy : 1 ≤ Ly) (hLz : 1 ≤ Lz) :
    IsDistance (nq Lx Ly Lz) (lattice Lx Ly Lz).rowsH (min Lx (Ly * Lz)) :=
  distance_criterion (C01Planar3DCode.valid_code Lx Ly Lz hLx hLy hLz).2.2.2 (min Lx (Ly * Lz))
    (exists_listed_of_distance _ _ _ (reported_distance Lx Ly Lz hLx hLy hLz))
    (lower_bound Lx Ly Lz hLx hLy hLz)

/-- the same, stated for whatever `code.d` reports: the reported distance exists and is the
    true distance -/
theorem distance_reported (Lx Ly Lz : Nat) (hLx : 1 ≤ Lx) (hLy : 1 ≤ Ly) (hLz : 1 ≤ Lz) :
    ∃ d, Panqec.distance (lattice Lx Ly Lz).rowsX (lattice Lx Ly Lz).rowsZ = some d ∧
      IsDistance (nq Lx Ly Lz) (lattice Lx Ly Lz).rowsH d :=
  ⟨_, reported_distance Lx Ly Lz hLx hLy hLz, distance Lx Ly Lz hLx hLy hLz⟩

/-! ### deformed codes (`code.deform('XZZX', deformation_axis=ax)`) -/

/-- the class offers the deformation 'XZZX' along the axes 'x', 'y', 'z' (default 'z'): for these
    `get_deformation` is defined on every qubit of every lattice (any other name or axis raises,
    `C01Planar3DCode.deformation_other_name` / `deformation_bad_axis`) -/
theorem deformation_defined (Lx Ly Lz : Nat) (ax : Axis) (q : Coord)
    (hq : q ∈ (lattice Lx Ly Lz).qubits) :
    ∃ m, Planar3DCode.getDeformation "XZZX" (some ax.toString) q = some m := by
  obtain ⟨a, _, h⟩ := C01Planar3DCode.deformation_rule Lx Ly Lz hq ax
  exact ⟨_, h⟩

/-- THE C17 STATEMENT FOR EVERY DEFORMED CODE OF THE CLASS, ALL SIZES (`Lx, Ly, Lz ≥ 1`): for every
    deformation name and axis for which `get_deformation` is defined on the qubits (`D q` = the
    relabelling it returns on `q`), the matrices the deformed getters assemble are the relabelled
    rows, they form a valid `[[n, 1]]` code, `code.d` reports `min Lx (Ly·Lz)`, and that is the true
    distance of the deformed code -/
theorem distance_deformed (Lx Ly Lz : Nat) (hLx : 1 ≤ Lx) (hLy : 1 ≤ Ly) (hLz : 1 ≤ Lz)
    (name : String) (axis : Option String) (D : Coord → PauliMap)
    (hD : ∀ q ∈ (lattice Lx Ly Lz).qubits,
      Planar3DCode.getDeformation name axis q = some (D q)) :
    stabilizerMatrix ((lattice Lx Ly Lz).toCodeData.deform D) =
        some ((lattice Lx Ly Lz).rowsH.map (deformBsf ((lattice Lx Ly Lz).qubits.map D))) ∧
    logicalsX ((lattice Lx Ly Lz).toCodeData.deform D) =
        some ((lattice Lx Ly Lz).rowsX.map (deformBsf ((lattice Lx Ly Lz).qubits.map D))) ∧
    logicalsZ ((lattice Lx Ly Lz).toCodeData.deform D) =
        some ((lattice Lx Ly Lz).rowsZ.map (deformBsf ((lattice Lx Ly Lz).qubits.map D))) ∧
    ValidCodeL (nq Lx Ly Lz) 1
      ((lattice Lx Ly Lz).rowsH.map (deformBsf ((lattice Lx Ly Lz).qubits.map D)))
      ((lattice Lx Ly Lz).rowsX.map (deformBsf ((lattice Lx Ly Lz).qubits.map D)))
      ((lattice Lx Ly Lz).rowsZ.map (deformBsf ((lattice Lx Ly Lz).qubits.map D))) ∧
    Panqec.distance ((lattice Lx Ly Lz).rowsX.map (deformBsf ((lattice Lx Ly Lz).qubits.map D)))
      ((lattice Lx Ly Lz).rowsZ.map (deformBsf ((lattice Lx Ly Lz).qubits.map D))) =
        some (min Lx (Ly * Lz)) ∧
    IsDistance (nq Lx Ly Lz)
      ((lattice Lx Ly Lz).rowsH.map (deformBsf ((lattice Lx Ly Lz).qubits.map D)))
      (min Lx (Ly * Lz)) :=
  Lattice.deformed_distance (lattice Lx Ly Lz) (C01Planar3DCode.wf Lx Ly Lz hLx hLy hLz)
    (C01Planar3DCode.n_formula Lx Ly Lz) (C01Planar3DCode.valid_code Lx Ly Lz hLx hLy hLz).2.2.2
    (reported_distance Lx Ly Lz hLx hLy hLz) (distance Lx Ly Lz hLx hLy hLz) D
    (fun q hq => C01Planar3DCode.deformation_perm (hD q hq))

/-- the relabelling `get_deformation(·, name, axis)` as a function of the location (identity
    where it raises — nowhere on the qubits for the offered name and axes) -/
def deformationOf (name : String) (axis : Option String) (q : Coord) : PauliMap :=
  (Planar3DCode.getDeformation name axis q).getD PauliMap.id

/-- the XZZX-deformed code along every axis has distance `min Lx (Ly·Lz)` — every size -/
theorem distance_deformed_offered (Lx Ly Lz : Nat) (hLx : 1 ≤ Lx) (hLy : 1 ≤ Ly) (hLz : 1 ≤ Lz)
    (ax : Axis) :
    IsDistance (nq Lx Ly Lz)
      ((lattice Lx Ly Lz).rowsH.map (deformBsf ((lattice Lx Ly Lz).qubits.map
        (deformationOf "XZZX" (some ax.toString))))) (min Lx (Ly * Lz)) :=
  (distance_deformed Lx Ly Lz hLx hLy hLz "XZZX" (some ax.toString)
    (deformationOf "XZZX" (some ax.toString)) (fun q hq => by
      obtain ⟨m, hm⟩ := deformation_defined Lx Ly Lz ax q hq
      unfold deformationOf
      rw [hm]; rfl)).2.2.2.2.2

/-! ### non-vacuity -/

example : IsDistance 41 (lattice 2 3 4).rowsH 2 :=
  distance 2 3 4 (by decide) (by decide) (by decide)
/-- the distance is not `min Lx (min Ly Lz)`: the `4 × 3 × 2` code has distance 4 -/
example : IsDistance 45 (lattice 4 3 2).rowsH 4 :=
  distance 4 3 2 (by decide) (by decide) (by decide)
/-- … and the membrane can be the lighter one: the `3 × 1 × 2` code has distance 2 -/
example : IsDistance 8 (lattice 3 1 2).rowsH 2 :=
  distance 3 1 2 (by decide) (by decide) (by decide)
/-- the smallest member of the family: one qubit, no generator, distance 1 -/
example : IsDistance 1 (lattice 1 1 1).rowsH 1 :=
  distance 1 1 1 (by decide) (by decide) (by decide)
/-- the hypothesis of `lower_bound` is satisfiable: the listed logical X is a non-trivial
    logical operator -/
example : IsNontrivialLogical 12 (lattice 2 2 2).rowsH ((lattice 2 2 2).rowsX.getD 0 []) :=
  listedX_nontrivial (C01Planar3DCode.valid_code 2 2 2 (by decide) (by decide) (by decide)).2.2.2
    (by decide +kernel)
example : (lattice 2 3 4).rowsX.map pauliWeight = [2] ∧
    (lattice 2 3 4).rowsZ.map pauliWeight = [12] :=
  weights_listed 2 3 4 (by decide) (by decide) (by decide)
/-- the XZZX code on the `3 × 4 × 5` lattice (default axis 'z') has distance 3 -/
example : IsDistance (nq 3 4 5) ((lattice 3 4 5).rowsH.map
    (deformBsf ((lattice 3 4 5).qubits.map (deformationOf "XZZX" (some "z"))))) 3 :=
  distance_deformed_offered 3 4 5 (by decide) (by decide) (by decide) Axis.z
example : deformationOf "XZZX" (some "z") [2, 0, 1] = PauliMap.swapXZ := by decide +kernel

end Panqec.C17Planar3DCode
