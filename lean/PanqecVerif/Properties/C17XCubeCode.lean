/-
C17 for `XCubeCode`, ALL sizes of the supported family (`Lx, Ly, Lz ≥ 2`, no upper bound): the
distance `code.d` reports is the true code distance, `min Lx (min Ly Lz)` — for the undeformed
code and for every deformed code the class offers.

The matrices are the ones the generic code model assembles from the hand-written lattice model
`Model/Lattices/XCubeCode.lean` (tied to `panqec/codes/fractons/_xcube_code.py` by the
correspondence streams of `harness/lattices/xcubecode.py`); they form a valid
`[[3·Lx·Ly·Lz, 2(Lx+Ly+Lz) − 3]]` code for every size (`C01XCubeCode.valid_code`).

* `reported_distance` — `code.d` (`distance`, the minimum Pauli weight over the rows of
  `logicals_x` and `logicals_z`, as `StabilizerCode.d` computes it) is `min Lx (min Ly Lz)`: the
  `2(Lx+Ly+Lz) − 3` listed X logicals are ladders of `Lz, Ly, Lz, Lx, Ly, Lx` parallel edges, the
  listed Z logicals single lines of `Lx`, `Ly`, `Lz` edges or pairs of lines (`listed_weight_ge`,
  `listed_weights_attained`).  (Checked against the Python: `XCubeCode(2, 3, 4).d == 2`.)
* `lower_bound` — every non-trivial logical operator has weight `≥ min Lx (min Ly Lz)`.  Packing
  argument (`Proofs/DistLattice.lean`, `Proofs/DistCubic3D.lean`, `Proofs/DistXCubeCode{A,B}.lean`):
  a non-trivial logical anticommutes with one of the listed logicals (C04).  A ladder of parallel
  edges (X logical) has `L` translates along its edges, consecutive ones differing by the product
  of the vertex operators in between.  Z lines are rigid — a single line is NOT equivalent to a
  translate of itself; the product of a row of cubes is the product of the FOUR lines through
  its corners.  Hence the parities `U j k` of an operator commuting with all generators against
  the parallel lines at transverse position `(j, k)` satisfy the rectangle relation
  `U j k + U j 0 + U 0 k + U 0 0 ≡ 0`: the line at `(j0, 0)` is equivalent to the product of the
  three lines at `(s, 0)`, `(j0, i)`, `(s, i)`, which gives `min A B` pairwise disjoint
  representatives on an `A × B` transverse grid; a pair of lines at `(0, 0)`, `(0, k0)` is
  equivalent to the pair at `(i, 0)`, `(i, k0)`: `A` representatives.
* `distance` — `IsDistance (3·Lx·Ly·Lz) H (min Lx (min Ly Lz))`; `distance_reported` for the
  reported `d`.
* `distance_deformed`, `distance_deformed_offered` — the same for EVERY DEFORMED code of the class
  (`deform('XZZX', deformation_axis=ax)`, `ax ∈ {x, y, z}`; every other name or axis raises),
  every size (`C17.distance_deformation_invariant`).
-/
import PanqecVerif.Properties.C01XCubeCode
import PanqecVerif.Proofs.DistXCubeCodeC
import PanqecVerif.Proofs.DistDeform

namespace Panqec.C17XCubeCode
open Panqec Panqec.XCubeCode

/-- every listed logical operator (row of `logicals_x` or `logicals_z`) has Pauli weight at least
    `min Lx (min Ly Lz)` — every `Lx, Ly, Lz ≥ 2` -/
theorem listed_weight_ge (Lx Ly Lz : Nat) (hx : 2 ≤ Lx) (hy : 2 ≤ Ly) (hz : 2 ≤ Lz) :
    ∀ r ∈ (lattice Lx Ly Lz).rowsX ++ (lattice Lx Ly Lz).rowsZ,
      min Lx (min Ly Lz) ≤ pauliWeight r := by
  intro r hr
  have hr' : r ∈ (logX Lx Ly Lz ++ logZ Lx Ly Lz).map (opRow (qubits Lx Ly Lz)) := by
    rw [List.map_append]; exact hr
  obtain ⟨a, ha, rfl⟩ := List.mem_map.mp hr'
  rw [weight_listed (C01XCubeCode.wf Lx Ly Lz hx hy hz) ha]
  exact listed_length_ge ha

/-- each of `Lx`, `Ly`, `Lz` is the weight of a row of `logicals_x` and of a row of `logicals_z` -/
theorem listed_weights_attained (Lx Ly Lz : Nat) (hx : 2 ≤ Lx) (hy : 2 ≤ Ly) (hz : 2 ≤ Lz) :
    (∀ L ∈ [Lx, Ly, Lz], ∃ r ∈ (lattice Lx Ly Lz).rowsX, pauliWeight r = L) ∧
    (∀ L ∈ [Lx, Ly, Lz], ∃ r ∈ (lattice Lx Ly Lz).rowsZ, pauliWeight r = L) := by
  have hwf := C01XCubeCode.wf Lx Ly Lz hx hy hz
  obtain ⟨⟨a1, h1, e1⟩, ⟨a2, h2, e2⟩, ⟨a3, h3, e3⟩⟩ := listedX_attained (Lx := Lx) hy hz
  obtain ⟨⟨b1, g1, f1⟩, ⟨b2, g2, f2⟩, ⟨b3, g3, f3⟩⟩ := listedZ_attained (Lz := Lz) hx hy
  have wX : ∀ a ∈ logX Lx Ly Lz, ∃ r ∈ (lattice Lx Ly Lz).rowsX, pauliWeight r = a.length :=
    fun a ha => ⟨_, List.mem_map.mpr ⟨a, ha, rfl⟩,
      weight_listed hwf (List.mem_append.mpr (Or.inl ha))⟩
  have wZ : ∀ a ∈ logZ Lx Ly Lz, ∃ r ∈ (lattice Lx Ly Lz).rowsZ, pauliWeight r = a.length :=
    fun a ha => ⟨_, List.mem_map.mpr ⟨a, ha, rfl⟩,
      weight_listed hwf (List.mem_append.mpr (Or.inr ha))⟩
  constructor
  · intro L hL
    simp only [List.mem_cons, List.not_mem_nil, or_false] at hL
    rcases hL with rfl | rfl | rfl
    · obtain ⟨r, hr, hw⟩ := wX a1 h1; exact ⟨r, hr, hw.trans e1⟩
    · obtain ⟨r, hr, hw⟩ := wX a2 h2; exact ⟨r, hr, hw.trans e2⟩
    · obtain ⟨r, hr, hw⟩ := wX a3 h3; exact ⟨r, hr, hw.trans e3⟩
  · intro L hL
    simp only [List.mem_cons, List.not_mem_nil, or_false] at hL
    rcases hL with rfl | rfl | rfl
    · obtain ⟨r, hr, hw⟩ := wZ b1 g1; exact ⟨r, hr, hw.trans f1⟩
    · obtain ⟨r, hr, hw⟩ := wZ b2 g2; exact ⟨r, hr, hw.trans f2⟩
    · obtain ⟨r, hr, hw⟩ := wZ b3 g3; exact ⟨r, hr, hw.trans f3⟩

/-- what `code.d` returns — the minimum weight over the listed logical operators — is
    `min Lx (min Ly Lz)`, every `Lx, Ly, Lz ≥ 2` -/
theorem reported_distance (Lx Ly Lz : Nat) (hx : 2 ≤ Lx) (hy : 2 ≤ Ly) (hz : 2 ≤ Lz) :
    Panqec.distance (lattice Lx Ly Lz).rowsX (lattice Lx Ly Lz).rowsZ =
      some (min Lx (min Ly Lz)) :=
  XCubeCode.reported_distance hx hy hz (C01XCubeCode.wf Lx Ly Lz hx hy hz)

/-- no non-trivial logical operator (commutes with every generator, is not a product of
    generators) of the `Lx × Ly × Lz` X-cube code is lighter than `min Lx (min Ly Lz)` — every
    `Lx, Ly, Lz ≥ 2` -/
theorem lower_bound (Lx Ly Lz : Nat) (hx : 2 ≤ Lx) (hy : 2 ≤ Ly) (hz : 2 ≤ Lz) :
    ∀ v, IsNontrivialLogical (3 * (Lx * Ly * Lz)) (lattice Lx Ly Lz).rowsH v →
      min Lx (min Ly Lz) ≤ pauliWeight v :=
  XCubeCode.lower_bound hx hy hz (C01XCubeCode.wf Lx Ly Lz hx hy hz) (length_qubits Lx Ly Lz)
    (C01XCubeCode.valid_code Lx Ly Lz hx hy hz).2.2.2

/-- THE C17 STATEMENT FOR ALL SIZES (`Lx, Ly, Lz ≥ 2`): the code distance of the `Lx × Ly × Lz`
    X-cube code — the minimum weight of a non-trivial logical operator of the assembled
    parity-check matrix — is `min Lx (min Ly Lz)` -/
theorem distance (Lx Ly Lz : Nat) (hx : 2 ≤ Lx) (hy : 2 ≤ Ly) (hz : 2 ≤ Lz) :
    IsDistance (3 * (Lx * Ly * Lz)) (lattice Lx Ly Lz).rowsH (min Lx (min Ly Lz)) :=
  distance_criterion (C01XCubeCode.valid_code Lx Ly Lz hx hy hz).2.2.2 (min Lx (min Ly Lz))
    (exists_listed_of_distance _ _ _ (reported_distance Lx Ly Lz hx hy hz))
    (lower_bound Lx Ly Lz hx hy hz)

/-- the same, stated for whatever `code.d` reports: the reported distance exists and is the
    true distance -/
theorem distance_reported (Lx Ly Lz : Nat) (hx : 2 ≤ Lx) (hy : 2 ≤ Ly) (hz : 2 ≤ Lz) :
    ∃ d, Panqec.distance (lattice Lx Ly Lz).rowsX (lattice Lx Ly Lz).rowsZ = some d ∧
      IsDistance (3 * (Lx * Ly * Lz)) (lattice Lx Ly Lz).rowsH d :=
  ⟨_, reported_distance Lx Ly Lz hx hy hz, distance Lx Ly Lz hx hy hz⟩

/-! ### deformed codes (`code.deform('XZZX', deformation_axis=ax)`) -/

/-- the class offers the deformation 'XZZX' along the axes 'x', 'y', 'z': for these
    `get_deformation` is defined on every qubit of every lattice (any other name or axis raises,
    `C01XCubeCode.deformation_rule`) -/
theorem deformation_defined (Lx Ly Lz : Nat) (axis : String)
    (ha : axis = "x" ∨ axis = "y" ∨ axis = "z") (q : Coord)
    (hq : q ∈ (lattice Lx Ly Lz).qubits) : ∃ m, getDeformation "XZZX" (some axis) q = some m := by
  obtain ⟨x, y, z, rfl⟩ := mem_qubits_shape Lx Ly Lz q hq
  rw [C01XCubeCode.deformation_rule, C01XCubeCode.qubit_axis_rule Lx Ly Lz x y z hq]
  have h1 : ¬ (axis ≠ "x" ∧ axis ≠ "y" ∧ axis ≠ "z") := by
    rintro ⟨a, b, c⟩; rcases ha with h | h | h <;> contradiction
  rw [if_neg h1, if_neg (by decide)]
  exact ⟨_, rfl⟩

/-- THE C17 STATEMENT FOR EVERY DEFORMED CODE OF THE CLASS, ALL SIZES (`Lx, Ly, Lz ≥ 2`): for every
    deformation name and axis for which `get_deformation` is defined on the qubits (`D q` = the
    relabelling it returns on `q`), the matrices the deformed getters assemble are the relabelled
    rows, they form a valid `[[n, k]]` code, `code.d` reports `min Lx (min Ly Lz)`, and that is the
    true distance of the deformed code -/
theorem distance_deformed (Lx Ly Lz : Nat) (hx : 2 ≤ Lx) (hy : 2 ≤ Ly) (hz : 2 ≤ Lz)
    (name : String) (axis : Option String) (D : Coord → PauliMap)
    (hD : ∀ q ∈ (lattice Lx Ly Lz).qubits, getDeformation name axis q = some (D q)) :
    stabilizerMatrix ((lattice Lx Ly Lz).toCodeData.deform D) =
        some ((lattice Lx Ly Lz).rowsH.map (deformBsf ((lattice Lx Ly Lz).qubits.map D))) ∧
    logicalsX ((lattice Lx Ly Lz).toCodeData.deform D) =
        some ((lattice Lx Ly Lz).rowsX.map (deformBsf ((lattice Lx Ly Lz).qubits.map D))) ∧
    logicalsZ ((lattice Lx Ly Lz).toCodeData.deform D) =
        some ((lattice Lx Ly Lz).rowsZ.map (deformBsf ((lattice Lx Ly Lz).qubits.map D))) ∧
    ValidCodeL (3 * (Lx * Ly * Lz)) (2 * (Lx + Ly + Lz) - 3)
      ((lattice Lx Ly Lz).rowsH.map (deformBsf ((lattice Lx Ly Lz).qubits.map D)))
      ((lattice Lx Ly Lz).rowsX.map (deformBsf ((lattice Lx Ly Lz).qubits.map D)))
      ((lattice Lx Ly Lz).rowsZ.map (deformBsf ((lattice Lx Ly Lz).qubits.map D))) ∧
    Panqec.distance ((lattice Lx Ly Lz).rowsX.map (deformBsf ((lattice Lx Ly Lz).qubits.map D)))
      ((lattice Lx Ly Lz).rowsZ.map (deformBsf ((lattice Lx Ly Lz).qubits.map D))) =
        some (min Lx (min Ly Lz)) ∧
    IsDistance (3 * (Lx * Ly * Lz))
      ((lattice Lx Ly Lz).rowsH.map (deformBsf ((lattice Lx Ly Lz).qubits.map D)))
      (min Lx (min Ly Lz)) :=
  Lattice.deformed_distance (lattice Lx Ly Lz) (C01XCubeCode.wf Lx Ly Lz hx hy hz)
    (C01XCubeCode.n_formula Lx Ly Lz) (C01XCubeCode.valid_code Lx Ly Lz hx hy hz).2.2.2
    (reported_distance Lx Ly Lz hx hy hz) (distance Lx Ly Lz hx hy hz) D
    (fun q hq => C01XCubeCode.deformation_isPerm name axis q _ (hD q hq))

/-- the relabelling `get_deformation(·, name, axis)` as a function of the location (identity
    where it raises — nowhere on the qubits for the offered name and axes) -/
def deformationOf (name : String) (axis : Option String) (q : Coord) : PauliMap :=
  (getDeformation name axis q).getD PauliMap.id

/-- the XZZX-deformed code along every axis has distance `min Lx (min Ly Lz)` — every size -/
theorem distance_deformed_offered (Lx Ly Lz : Nat) (hx : 2 ≤ Lx) (hy : 2 ≤ Ly) (hz : 2 ≤ Lz)
    (axis : String) (ha : axis = "x" ∨ axis = "y" ∨ axis = "z") :
    IsDistance (3 * (Lx * Ly * Lz))
      ((lattice Lx Ly Lz).rowsH.map (deformBsf ((lattice Lx Ly Lz).qubits.map
        (deformationOf "XZZX" (some axis))))) (min Lx (min Ly Lz)) :=
  (distance_deformed Lx Ly Lz hx hy hz "XZZX" (some axis) (deformationOf "XZZX" (some axis))
    (fun q hq => by
      obtain ⟨m, hm⟩ := deformation_defined Lx Ly Lz axis ha q hq
      unfold deformationOf
      rw [hm]; rfl)).2.2.2.2.2

/-! ### non-vacuity -/

example : IsDistance 72 (lattice 2 3 4).rowsH 2 :=
  distance 2 3 4 (by decide) (by decide) (by decide)
example : IsDistance 1260 (lattice 10 7 6).rowsH 6 :=
  distance 10 7 6 (by decide) (by decide) (by decide)
/-- the hypothesis of `lower_bound` is satisfiable: the first listed logical X is a non-trivial
    logical operator -/
example : IsNontrivialLogical 24 (lattice 2 2 2).rowsH ((lattice 2 2 2).rowsX.getD 0 []) :=
  listedX_nontrivial (C01XCubeCode.valid_code 2 2 2 (by decide) (by decide) (by decide)).2.2.2
    (by decide +kernel)
example : ((lattice 2 3 4).rowsX.map pauliWeight) = [4, 4, 4, 3, 3, 3, 4, 4, 2, 2, 2, 3, 3, 2, 2] := by
  decide +kernel
example : ((lattice 2 3 4).rowsZ.map pauliWeight) = [2, 2, 2, 4, 4, 4, 3, 3, 6, 6, 6, 4, 4, 8, 8] := by
  decide +kernel
/-- the XZZX code on the `3 × 4 × 5` lattice along 'z' has distance 3 -/
example : IsDistance 180 ((lattice 3 4 5).rowsH.map
    (deformBsf ((lattice 3 4 5).qubits.map (deformationOf "XZZX" (some "z"))))) 3 :=
  distance_deformed_offered 3 4 5 (by decide) (by decide) (by decide) "z" (by decide)
example : deformationOf "XZZX" (some "z") [0, 0, 1] = PauliMap.swapXZ := by decide +kernel
/-- `code.deform('XZZX')` without an axis is the deformation along 'z' -/
example : deformationOf "XZZX" none = deformationOf "XZZX" (some "z") := rfl

end Panqec.C17XCubeCode
