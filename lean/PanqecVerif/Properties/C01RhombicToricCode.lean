/-
C01 (lattice part) — `RhombicToricCode` for EVERY lattice size of the supported family (all `L_i`
even and `≥ 2`; no bound on the size).

The model `Model/Lattices/RhombicToricCode.lean` is a hand-written transcription of
`panqec/codes/surface_3d/_rhombic_toric_code.py` as functions of the size (periodic wrap `%`, the
`(x+y+z) % 4` colouring of the cubes, `is_qubit` filter, dict overwrite); it is tied to the
implementation by the correspondence streams of `harness/lattices/rhombictoriccode.py`.  Property
theorems only; the lemmas are in `Proofs/LatRhombic.lean` and `Proofs/LatRhombicToricCode*.lean`.

Commutation of a cube (X on its twelve edges) with a triangle (Z on three legs): with `d` the
cyclic offset from the vertex to the cube and `s` the sign vector of the triangle, the shared qubits
are the legs `i` with `d_i = s_i` (all `|d_i| = 1`); the cube is coloured (`(x+y+z) % 4 = 1`), the
triangle points into an uncoloured cube (`% 4 = 3`), and because the periods `2·L_i` are multiples of
4 (the sizes are even) the colouring is consistent across the boundary, so `d` and `s` differ in an
odd number of places and the overlap is 0 or 2.  Pairing: `X_i` (sheet normal to axis `i`) meets
`Z_i` in one qubit, and `Z_j`, `j ≠ i`, in none or in a whole line of `L` qubits — an even number.
The evenness of the sizes is used exactly in these two places (and in the rank count).

Rank clause, for all even sizes `≥ 2` (`Lx·Ly·Lz/2 + 4·Lx·Ly·Lz` generators, rank `3·Lx·Ly·Lz − 3`: the
product of all cubes is the identity; the four triangles of a vertex and the eight corner triangles
of an uncoloured cube multiply to the identity, and there are two more global relations): all
coloured cubes but `(3, 1, 1)`; in the columns `0 < x < 2Lx−2` the triangles of axis 2 and 3 and
those of axis 1 with `(x+y+z) % 4 = 2`; in the column `x = 2Lx−2` all of axis 1, 2, 3 but axis 1 at
`(2Lx−2, 0, 0)`; in the column `x = 0` a spanning tree of the corner graph of the y-z torus — are
independent (`generators_independent`: triangular family of single-qubit probes with a
lexicographic rank, `Proofs/LatRhombicToricCodeRank3..5.lean`) and there are exactly `n − 3` of them
(`generators_count`).  `valid_code` puts everything together through the generic bridges
`Proofs/OpComm.lean` and `Proofs/Lat2DRankBridge.lean` / `Proofs/Lat2DRankSubset.lean`: the matrices
that `stabilizer_matrix`, `logicals_x`, `logicals_z` of the generic code model (`Model/Code.lean`, C02)
assemble from this lattice model form a valid `[[3·Lx·Ly·Lz, 3]]` stabilizer code (`ValidCodeL`: all
four clauses of C01, rank included) for EVERY size of the family.
-/
import PanqecVerif.Proofs.LatRhombicToricCodeRank5
import PanqecVerif.Proofs.Lat2DRankSubset

namespace Panqec.C01RhombicToricCode

open Panqec Panqec.RhombicToricCode Panqec.Lat2D

/-- Coordinates are distinct, qubit and stabilizer coordinates are disjoint, every stabilizer and
    logical operator is a dict (distinct keys) supported on qubits with letters X/Y/Z, and no
    stabilizer is empty — for every size ≥ 2 (even or odd). -/
theorem wf (Lx Ly Lz : Nat) (hx : 2 ≤ Lx) (hy : 2 ≤ Ly) (hz : 2 ≤ Lz) : (lattice Lx Ly Lz).WF :=
  RhombicToricCode.wf Lx Ly Lz hx hy hz

/-- All pairs of stabilizer generators commute (cube against triangle by the colouring argument,
    across the periodic boundary), the three logical X (sheets) and the three logical Z (lines of
    parallel edges) commute with every generator, `opAntiCount (X_i, Z_j)` is odd iff `i = j`, and
    the logical X's (Z's) commute among themselves — for every even size ≥ 2. -/
theorem commPair (Lx Ly Lz : Nat) (hx : 2 ≤ Lx) (hy : 2 ≤ Ly) (hz : 2 ≤ Lz)
    (hex : Lx % 2 = 0) (hey : Ly % 2 = 0) (hez : Lz % 2 = 0) : (lattice Lx Ly Lz).CommPair :=
  RhombicToricCode.commPair Lx Ly Lz hx hy hz hex hey hez

/-- one qubit per edge of the periodic cubic lattice -/
theorem n_formula (Lx Ly Lz : Nat) : (lattice Lx Ly Lz).toCodeData.n = 3 * (Lx * Ly * Lz) :=
  length_qubits Lx Ly Lz

/-- `k = 3` (every size) -/
theorem k_value (Lx Ly Lz : Nat) : (lattice Lx Ly Lz).toCodeData.k = 3 :=
  length_logX Lx Ly Lz

/-- the number of stabilizer generators (every size): half of the cubes (rounded down: the corner
    `(1, 1, 1)` is not coloured) and four triangles per vertex -/
theorem n_stabilizers (Lx Ly Lz : Nat) :
    (lattice Lx Ly Lz).toCodeData.stabs.length = Lx * (Ly * Lz) / 2 + 4 * (Lx * Ly * Lz) :=
  length_stabs Lx Ly Lz

/-- rank clause, operator level: the selected generators (`selStabs`: all coloured cubes but
    `(3, 1, 1)`; the triangles described in the header, column by column) are independent — every
    non-empty duplicate-free sub-family `T` has a Pauli operator `d` on the qubits anticommuting with
    an odd number of members of `T` (so no non-trivial product of them is trivial) — every even
    size `≥ 2` -/
theorem generators_independent (Lx Ly Lz : Nat) (hx : 2 ≤ Lx) (hy : 2 ≤ Ly) (hz : 2 ≤ Lz)
    (hex : Lx % 2 = 0) (hey : Ly % 2 = 0) (hez : Lz % 2 = 0) :
    IndepGenerators (lattice Lx Ly Lz) (selStabs Lx Ly Lz) :=
  indep_sel Lx Ly Lz hx hy hz hex hey hez

/-- the independent family consists of `n − k` distinct stabilizer locations -/
theorem generators_count (Lx Ly Lz : Nat) (hx : 2 ≤ Lx) (hy : 2 ≤ Ly) (hz : 2 ≤ Lz)
    (hey : Ly % 2 = 0) :
    (selStabs Lx Ly Lz).Nodup ∧ (∀ s ∈ selStabs Lx Ly Lz, s ∈ (lattice Lx Ly Lz).stabs) ∧
    (selStabs Lx Ly Lz).length + (lattice Lx Ly Lz).toCodeData.k =
      (lattice Lx Ly Lz).toCodeData.n :=
  ⟨nodup_selStabs Lx Ly Lz hx hy hz, fun _ hs => selStabs_sub hx hy hz hs,
    selStabs_count Lx Ly Lz hx hy hz hey⟩

/-- THE C01 STATEMENT FOR ALL SIZES of the supported family (all `L_i` even and `≥ 2`):
    `stabilizer_matrix`, `logicals_x`, `logicals_z` of the generic code model, applied to this
    lattice model, return (no `KeyError`) matrices that form a valid `[[3·Lx·Ly·Lz, 3]]` stabilizer
    code: generators pairwise commute, logicals commute with the generators, `ω(X_i, Z_j) = δ_ij`,
    `ω(X_i, X_j) = ω(Z_i, Z_j) = 0`, and the generators have GF(2) rank `n − 3` -/
theorem valid_code (Lx Ly Lz : Nat) (hx : 2 ≤ Lx) (hy : 2 ≤ Ly) (hz : 2 ≤ Lz)
    (hex : Lx % 2 = 0) (hey : Ly % 2 = 0) (hez : Lz % 2 = 0) :
    stabilizerMatrix (lattice Lx Ly Lz).toCodeData = some (lattice Lx Ly Lz).rowsH ∧
    logicalsX (lattice Lx Ly Lz).toCodeData = some (lattice Lx Ly Lz).rowsX ∧
    logicalsZ (lattice Lx Ly Lz).toCodeData = some (lattice Lx Ly Lz).rowsZ ∧
    ValidCodeL (3 * (Lx * Ly * Lz)) 3
      (lattice Lx Ly Lz).rowsH (lattice Lx Ly Lz).rowsX (lattice Lx Ly Lz).rowsZ := by
  obtain ⟨hnd, hsub, hcount⟩ := generators_count Lx Ly Lz hx hy hz hey
  have h := validCode_of_lattice_subset (lattice Lx Ly Lz) (wf Lx Ly Lz hx hy hz)
    (commPair Lx Ly Lz hx hy hz hex hey hez) (selStabs Lx Ly Lz) hnd hsub
    (generators_independent Lx Ly Lz hx hy hz hex hey hez) hcount
  rw [n_formula, k_value] at h
  exact h

/-- `qubit_axis` of a qubit is the direction of its edge (the odd coordinate) -/
theorem qubit_axis_rule (Lx Ly Lz : Nat) (x y z : Int) (h : [x, y, z] ∈ (lattice Lx Ly Lz).qubits) :
    qubitAxis [x, y, z] = some (if x % 2 = 1 then "x" else if y % 2 = 1 then "y" else "z") :=
  qubitAxis_qubit Lx Ly Lz x y z h

/-- `get_deformation(location, name)` for every name and every location with three coordinates
    (keyword arguments are ignored by the class): a name other than `'Checkerboard XZZX'` is a
    `ValueError`; otherwise `ValueError` where `qubit_axis` raises, X ↔ Z exactly on the z edges
    with `z % 4 = 3 ∧ (x+y) % 4 = 2` or `z % 4 = 1 ∧ (x+y) % 4 = 0`, and the identity elsewhere. -/
theorem deformation_rule (name : String) (x y z : Int) :
    getDeformation name [x, y, z] =
      if name ≠ "Checkerboard XZZX" then none
      else (qubitAxis [x, y, z]).map fun a =>
        if a = "z" ∧ ((z % 4 = 3 ∧ (x + y) % 4 = 2) ∨ (z % 4 = 1 ∧ (x + y) % 4 = 0))
        then PauliMap.swapXZ else PauliMap.id :=
  Rhombic.getDeformation_rule name x y z

/-- a location that does not have three coordinates is rejected (the tuple unpacking raises
    `ValueError`) -/
theorem deformation_bad_location (name : String) (loc : Coord) (h : loc.length ≠ 3) :
    getDeformation name loc = none :=
  Rhombic.getDeformation_bad_location name loc h

/-- on the qubits of every size: the deformation is defined, and it is X ↔ Z exactly on the z edges
    of the checkerboard -/
theorem deformation_on_qubits (Lx Ly Lz : Nat) (x y z : Int)
    (h : [x, y, z] ∈ (lattice Lx Ly Lz).qubits) :
    getDeformation "Checkerboard XZZX" [x, y, z] =
      some (if z % 2 = 1 ∧ ((z % 4 = 3 ∧ (x + y) % 4 = 2) ∨ (z % 4 = 1 ∧ (x + y) % 4 = 0))
        then PauliMap.swapXZ else PauliMap.id) := by
  rw [deformation_rule, qubit_axis_rule Lx Ly Lz x y z h]
  have hq := (mem_qubits_iff Lx Ly Lz x y z).mp h
  unfold QX QY QZ Lat3Db.R0 Lat3Db.R1 at hq
  simp only [ne_eq, not_true_eq_false, if_false, Option.map_some, Option.some.injEq]
  by_cases hx : x % 2 = 1
  · have hz : ¬ z % 2 = 1 := by omega
    simp [hx, hz]
  · by_cases hy : y % 2 = 1
    · have hz : ¬ z % 2 = 1 := by omega
      simp [hx, hy, hz]
    · have hz : z % 2 = 1 := by omega
      simp [hx, hy, hz]

/-- consequently every deformation the class returns is a permutation of {X, Y, Z} (so C08
    applies) -/
theorem deformation_isPerm (name : String) (loc : Coord) (m : PauliMap)
    (h : getDeformation name loc = some m) : m.isPerm = true :=
  Rhombic.getDeformation_isPerm h

/-! ### non-vacuity -/

example : (lattice 2 2 2).WF := wf 2 2 2 (by decide) (by decide) (by decide)
example : (lattice 2 4 6).CommPair :=
  commPair 2 4 6 (by decide) (by decide) (by decide) (by decide) (by decide) (by decide)
example : (lattice 2 2 4).toCodeData.n = 48 := n_formula 2 2 4
example : (lattice 2 2 2).toCodeData.n = 24 := by decide
example : (lattice 2 2 2).stabs.length = 36 := by decide
/-- a cube across the periodic boundary: twelve distinct edges -/
example : (getStab 2 2 2 [3, 3, 3]).length = 12 := by decide +kernel
/-- a triangle at the origin wraps to the far side -/
example : getStab 2 2 2 [1, 0, 0, 0] = [([3, 0, 0], .Z), ([0, 3, 0], .Z), ([0, 0, 1], .Z)] := by
  decide +kernel
example : opAntiCount ((logX 2 2 2).getD 0 []) ((logZ 2 2 2).getD 0 []) = 1 := by decide +kernel
/-- `X_0` and `Z_2` share the `Lz = 2` qubits of a whole line: an even number -/
example : opAntiCount ((logX 2 2 2).getD 0 []) ((logZ 2 2 2).getD 2 []) = 2 := by decide +kernel
example : IndepGenerators (lattice 2 4 6) (selStabs 2 4 6) :=
  generators_independent 2 4 6 (by decide) (by decide) (by decide) (by decide) (by decide) (by decide)
example : (selStabs 2 2 2).length = 21 := by decide +kernel
example : ValidCodeL 144 3 (lattice 2 4 6).rowsH (lattice 2 4 6).rowsX (lattice 2 4 6).rowsZ :=
  (valid_code 2 4 6 (by decide) (by decide) (by decide) (by decide) (by decide) (by decide)).2.2.2
/-- the smallest member of the family: 36 generators, rank 21 -/
example : (lattice 2 2 2).stabs.length = 36 ∧ HasRank (2 * 24) (lattice 2 2 2).rowsH 21 :=
  ⟨by decide,
    (valid_code 2 2 2 (by decide) (by decide) (by decide) (by decide) (by decide) (by decide)).2.2.2.rank⟩
example : getDeformation "Checkerboard XZZX" [0, 0, 1] = some PauliMap.swapXZ := by decide
example : getDeformation "Checkerboard XZZX" [2, 0, 1] = some PauliMap.id := by decide
example : getDeformation "Checkerboard XZZX" [1, 1, 1] = none := by decide
example : getDeformation "XZZX" [0, 0, 1] = none := by decide

end Panqec.C01RhombicToricCode
