/-
C01 (lattice part) — `RotatedPlanar3DCode` is a well-formed stabilizer-code specification whose
operators satisfy every commutation clause of C01, for EVERY lattice size in the supported family
`L_x, L_y, L_z ≥ 1` (no bound on the size).

The model `Model/Lattices/RotatedPlanar3DCode.lean` is a hand-written transcription of
`panqec/codes/surface_3d/_rotated_planar_3d_code.py` as functions of the size; it is tied to the
implementation by the correspondence streams of `harness/lattices/rotatedplanar3dcode.py`.
Property theorems only; the lemmas are in `Proofs/LatRotatedPlanar3DCode*.lean`.

Rank clause, for all sizes: all vertices, the horizontal faces of the bottom layer `z = 1` and all
vertical faces are independent (`generators_independent`, via a triangular family of single-qubit
probes, `Proofs/LatRotatedPlanar3DCodeRank.lean`) and there are exactly `n − k = n − 1` of them
(`generators_count`: one layer of the rotated planar code has `Lx·Ly − 1` vertices and faces).
`valid_code` puts everything together through the generic bridges `Proofs/OpComm.lean`
(`symp (to_bsf a) (to_bsf b) = opAntiCount a b mod 2` ⇒ `CommPairL` of the assembled rows) and
`Proofs/Lat2DRankBridge.lean` (operator-level independent sub-family of `n − k` generators ⇒
`HasRank (2n) rowsH (n − k)`): the matrices that `stabilizer_matrix`, `logicals_x`, `logicals_z` of
the generic code model (`Model/Code.lean`, C02) assemble from this lattice model form a valid
`[[n, 1]]` stabilizer code (`ValidCodeL`: all four clauses of C01, rank included) for EVERY size of
the family.

The family (`selStabs`) is defined in the Mathlib-free model file, printed by the driver op `rankfamily` and
evaluated on the IMPLEMENTATION's parity-check matrix on every run (stream
`lat-RotatedPlanar3DCode-rank-family`: members `n − k`, all distinct stabilizer locations, GF(2) rank
`n − k`).  `deformation_default_axis`: the default `deformation_axis='z'` of the signature (stream cases
with the keyword omitted).
-/
import PanqecVerif.Proofs.LatRotatedPlanar3DCode5
import PanqecVerif.Proofs.LatRotatedPlanar3DCode6
import PanqecVerif.Proofs.LatRotatedPlanar3DCodeRankCount
import PanqecVerif.Proofs.Lat2DRankBridge

namespace Panqec.C01RotatedPlanar3DCode

open Panqec Panqec.RotatedPlanar3DCode Panqec.Lat2D

/-- Coordinates are distinct, qubit and stabilizer coordinates are disjoint, every stabilizer and
    logical operator is a dict (distinct keys) supported on qubits with letters X/Y/Z, and no
    stabilizer is empty — for every size. -/
theorem wf (Lx Ly Lz : Nat) (hx : 1 ≤ Lx) (hy : 1 ≤ Ly) (hz : 1 ≤ Lz) : (lattice Lx Ly Lz).WF :=
  RotatedPlanar3DCode.wf Lx Ly Lz hx hy hz

/-- All pairs of stabilizer generators commute, both logical operators commute with every
    generator, logical X and logical Z anticommute (pairing table = identity), and the logical X's
    (Z's) commute among themselves — for every size. -/
theorem commPair (Lx Ly Lz : Nat) (hx : 1 ≤ Lx) (hy : 1 ≤ Ly) (hz : 1 ≤ Lz) :
    (lattice Lx Ly Lz).CommPair :=
  RotatedPlanar3DCode.commPair Lx Ly Lz hx hy hz

/-- `n = Lx·Ly·Lz` horizontal qubits plus `(Lz - 1)` layers of vertical qubits, one at each point of
    the checkerboard `{(i, j) : 1 ≤ i ≤ Lx-1, 0 ≤ j ≤ Ly, i + j odd}` -/
theorem n_formula (Lx Ly Lz : Nat) :
    (lattice Lx Ly Lz).toCodeData.n =
      Lx * Ly * Lz + ((Lx / 2) * (Ly / 2 + 1) + ((Lx - 1) / 2) * ((Ly + 1) / 2)) * (Lz - 1) :=
  length_qubits Lx Ly Lz

/-- exactly one logical qubit -/
theorem k_value (Lx Ly Lz : Nat) : (lattice Lx Ly Lz).toCodeData.k = 1 := rfl

/-- rank clause, operator level: the generators at all vertices, at the horizontal faces of the
    bottom layer `z = 1` and at all vertical faces are independent — every non-empty
    duplicate-free sub-family `T` has a Pauli operator `d` on the qubits anticommuting with an odd
    number of members of `T` (so no non-trivial product of them is trivial) — every
    `Lx, Ly, Lz ≥ 1` -/
theorem generators_independent (Lx Ly Lz : Nat) (hx : 1 ≤ Lx) (hy : 1 ≤ Ly) (hz : 1 ≤ Lz) :
    IndepGenerators (lattice Lx Ly Lz) (selStabs Lx Ly Lz) :=
  indep_sel Lx Ly Lz hx hy hz

/-- the independent family is a sub-list of `get_stabilizer_coordinates` with `n − k` members -/
theorem generators_count (Lx Ly Lz : Nat) (hx : 1 ≤ Lx) (hy : 1 ≤ Ly) (hz : 1 ≤ Lz) :
    (selStabs Lx Ly Lz).Sublist (lattice Lx Ly Lz).stabs ∧
    (selStabs Lx Ly Lz).length + (lattice Lx Ly Lz).toCodeData.k =
      (lattice Lx Ly Lz).toCodeData.n :=
  ⟨selStabs_sublist Lx Ly Lz hz, selStabs_count Lx Ly Lz hx hy hz⟩

/-- THE C01 STATEMENT FOR ALL SIZES (`Lx, Ly, Lz ≥ 1`): `stabilizer_matrix`, `logicals_x`,
    `logicals_z` of the generic code model, applied to this lattice model, return (no `KeyError`)
    matrices that form a valid `[[n, 1]]` stabilizer code (`n` as in `n_formula`): generators
    pairwise commute, logicals commute with the generators, `ω(X, Z) = 1`,
    `ω(X, X) = ω(Z, Z) = 0`, and the generators have GF(2) rank `n − 1` -/
theorem valid_code (Lx Ly Lz : Nat) (hx : 1 ≤ Lx) (hy : 1 ≤ Ly) (hz : 1 ≤ Lz) :
    stabilizerMatrix (lattice Lx Ly Lz).toCodeData = some (lattice Lx Ly Lz).rowsH ∧
    logicalsX (lattice Lx Ly Lz).toCodeData = some (lattice Lx Ly Lz).rowsX ∧
    logicalsZ (lattice Lx Ly Lz).toCodeData = some (lattice Lx Ly Lz).rowsZ ∧
    ValidCodeL
      (Lx * Ly * Lz + ((Lx / 2) * (Ly / 2 + 1) + ((Lx - 1) / 2) * ((Ly + 1) / 2)) * (Lz - 1)) 1
      (lattice Lx Ly Lz).rowsH (lattice Lx Ly Lz).rowsX (lattice Lx Ly Lz).rowsZ := by
  have h := validCode_of_lattice (lattice Lx Ly Lz) (wf Lx Ly Lz hx hy hz)
    (commPair Lx Ly Lz hx hy hz) (selStabs Lx Ly Lz) (generators_count Lx Ly Lz hx hy hz).1
    (generators_independent Lx Ly Lz hx hy hz) (generators_count Lx Ly Lz hx hy hz).2
  rw [n_formula, k_value] at h
  exact h

/-- `qubit_axis` of a qubit: `z` for the vertical qubits (even z); for the horizontal ones `x` when
    `(x + y) % 4 = 2` and `y` otherwise; every other location is a `ValueError`. -/
theorem qubit_axis_rule (Lx Ly Lz : Nat) (x y z : Int) (h : [x, y, z] ∈ (lattice Lx Ly Lz).qubits) :
    qubitAxis Lx Ly Lz [x, y, z] =
      some (if z % 2 = 0 then "z" else if (x + y) % 4 = 2 then "x" else "y") :=
  qubitAxis_qubit Lx Ly Lz x y z h

theorem qubit_axis_error (Lx Ly Lz : Nat) (loc : Coord) (h : loc ∉ (lattice Lx Ly Lz).qubits) :
    qubitAxis Lx Ly Lz loc = none :=
  qubitAxis_nonqubit Lx Ly Lz loc h

/-- `get_deformation` for every location, name and axis (keyword passed): an axis outside x/y/z or a
    name other than `XZZX` is a `ValueError`; `XZZX` swaps X and Z exactly on the qubits whose
    `qubit_axis` equals the deformation axis and is the identity on the other qubits (`ValueError` on a
    non-qubit). -/
theorem deformation_rule (Lx Ly Lz : Nat) (name axis : String) (loc : Coord) :
    getDeformation Lx Ly Lz name (some axis) loc =
      if axis ≠ "x" ∧ axis ≠ "y" ∧ axis ≠ "z" then none
      else if name ≠ "XZZX" then none
      else (qubitAxis Lx Ly Lz loc).map fun a => if a = axis then PauliMap.swapXZ else PauliMap.id :=
  getDeformation_rule Lx Ly Lz name (some axis) loc

/-- the default of the signature: `get_deformation(location, name)` without `deformation_axis` is
    `get_deformation(location, name, deformation_axis='z')` -/
theorem deformation_default_axis (Lx Ly Lz : Nat) (name : String) (loc : Coord) :
    getDeformation Lx Ly Lz name none loc = getDeformation Lx Ly Lz name (some "z") loc := rfl

/-- consequently every deformation the class returns is a permutation of {X, Y, Z} -/
theorem deformation_isPerm (Lx Ly Lz : Nat) (name : String) (axis : Option String) (loc : Coord)
    (m : PauliMap)
    (h : getDeformation Lx Ly Lz name axis loc = some m) : m.isPerm = true := by
  rw [getDeformation_rule] at h
  split at h
  · cases h
  · split at h
    · cases h
    · cases hq : qubitAxis Lx Ly Lz loc with
      | none => rw [hq] at h; cases h
      | some a =>
        rw [hq] at h
        simp only [Option.map_some, Option.some.injEq] at h
        subst h
        split <;> decide

/-! ### non-vacuity: the hypotheses are satisfiable and the model computes non-trivial data -/

example : (lattice 2 3 2).toCodeData.n = 14 := by decide
example : (lattice 2 3 2).stabs.length = 16 := by decide
example : getStab 2 2 2 [2, 0, 1] = [([1, 1, 1], Pauli.Z), ([3, 1, 1], Pauli.Z), ([2, 0, 2], Pauli.Z)] := by
  decide
example : getStab 2 2 2 [1, 1, 2] = [([2, 0, 2], Pauli.X), ([1, 1, 1], Pauli.X), ([1, 1, 3], Pauli.X)] := by
  decide
example : (lattice 3 2 4).CommPair := commPair 3 2 4 (by decide) (by decide) (by decide)
example : IndepGenerators (lattice 2 3 2) (selStabs 2 3 2) :=
  generators_independent 2 3 2 (by decide) (by decide) (by decide)
example : (selStabs 2 3 2).length = 13 := by decide
example : ValidCodeL 14 1 (lattice 2 3 2).rowsH (lattice 2 3 2).rowsX (lattice 2 3 2).rowsZ :=
  (valid_code 2 3 2 (by decide) (by decide) (by decide)).2.2.2
/-- 16 generators, rank 13: three relations among the faces -/
example : HasRank (2 * 14) (lattice 2 3 2).rowsH 13 :=
  (valid_code 2 3 2 (by decide) (by decide) (by decide)).2.2.2.rank
example : getDeformation 2 2 2 "XZZX" (some "z") [2, 0, 2] = some PauliMap.swapXZ := by decide
example : getDeformation 2 2 2 "XZZX" (some "x") [2, 0, 2] = some PauliMap.id := by decide
example : getDeformation 2 2 2 "XY" (some "x") [2, 0, 2] = none := by decide
/-- keyword omitted: the vertical qubits are deformed, the horizontal ones are not -/
example : getDeformation 2 2 2 "XZZX" none [2, 0, 2] = some PauliMap.swapXZ := by decide
example : getDeformation 2 2 2 "XZZX" none [1, 1, 1] = some PauliMap.id := by decide
example : getDeformation 2 2 2 "XY" none [2, 0, 2] = none := by decide

end Panqec.C01RotatedPlanar3DCode
