/-
C17 for `RhombicToricCode`, ALL sizes of the supported family (all `L_i` even and `≥ 2`, no upper
bound): the distance `code.d` reports is the true code distance, `min Lx (min Ly Lz)` — for the
undeformed code and for the deformed code the class offers (`'Checkerboard XZZX'`).

The matrices are the ones the generic code model assembles from the hand-written lattice model
`Model/Lattices/RhombicToricCode.lean` (tied to `panqec/codes/surface_3d/_rhombic_toric_code.py` by
the correspondence streams of `harness/lattices/rhombictoriccode.py`); they form a valid
`[[3·Lx·Ly·Lz, 3]]` code for every size of the family (`C01RhombicToricCode.valid_code`).

* `weights_listed`, `reported_distance` — the listed logicals are three X sheets (all edges lying
  in a lattice plane through the origin) of weights `2·Ly·Lz, 2·Lx·Lz, 2·Lx·Ly` and three Z lines of
  parallel edges of weights `Lx, Ly, Lz`; `code.d` (`distance`, the minimum Pauli weight over the
  rows of `logicals_x` and `logicals_z`, as `StabilizerCode.d` computes it) is `min Lx (min Ly Lz)`.
* `lower_bound` — every non-trivial logical operator has weight `≥ min Lx (min Ly Lz)`.  Packing
  argument (`Proofs/DistLattice.lean`, `Proofs/DistChecker.lean`,
  `Proofs/DistRhombicToricCode{A,B}.lean`): a non-trivial logical anticommutes with one of the six
  listed logicals (C04).  A Z line has `L` lattice translates across, consecutive translates
  differing by the row of planar stars between them (a planar star of a vertex is the product of
  two of its four triangles); an X sheet has `L` translates along its normal, consecutive translates
  differing by the coloured cubes of the slab between them — every in-plane edge lies on exactly one
  coloured cube of the slab, every edge across on exactly two, because the sizes are even.  So every
  operator commuting with all generators anticommutes with each translate exactly when it
  anticommutes with the listed logical: its support meets every translate.
* `distance` — `IsDistance (3·Lx·Ly·Lz) H (min Lx (min Ly Lz))`: some non-trivial logical operator
  has that weight and none is lighter; `distance_reported` states it for the reported `d`.
* `distance_deformed`, `distance_deformed_offered` — the same for the deformed code
  (`deform('Checkerboard XZZX')`; every other name raises), every size
  (`C17.distance_deformation_invariant`).
-/
import PanqecVerif.Properties.C01RhombicToricCode
import PanqecVerif.Proofs.DistRhombicToricCodeB
import PanqecVerif.Proofs.Dist
import PanqecVerif.Proofs.DistDeform

namespace Panqec.C17RhombicToricCode
open Panqec.RhombicToricCode

/-- the rows of `logicals_x` have Pauli weights `[2·Ly·Lz, 2·Lx·Lz, 2·Lx·Ly]` (sheets), those of
    `logicals_z` `[Lx, Ly, Lz]` (lines of parallel edges) — every `Lx, Ly, Lz ≥ 2` -/
theorem weights_listed (Lx Ly Lz : Nat) (hx : 2 ≤ Lx) (hy : 2 ≤ Ly) (hz : 2 ≤ Lz) :
    (lattice Lx Ly Lz).rowsX.map pauliWeight = [2 * (Ly * Lz), 2 * (Lx * Lz), 2 * (Lx * Ly)] ∧
    (lattice Lx Ly Lz).rowsZ.map pauliWeight = [Lx, Ly, Lz] :=
  RhombicToricCode.weights_listed (C01RhombicToricCode.wf Lx Ly Lz hx hy hz)

/-- what `code.d` returns — the minimum weight over the listed logical operators — is
    `min Lx (min Ly Lz)`, every `Lx, Ly, Lz ≥ 2` -/
theorem reported_distance (Lx Ly Lz : Nat) (hx : 2 ≤ Lx) (hy : 2 ≤ Ly) (hz : 2 ≤ Lz) :
    Panqec.distance (lattice Lx Ly Lz).rowsX (lattice Lx Ly Lz).rowsZ =
      some (min Lx (min Ly Lz)) :=
  RhombicToricCode.reported_distance (by omega) (by omega) (by omega)
    (C01RhombicToricCode.wf Lx Ly Lz hx hy hz)

/-- no non-trivial logical operator (commutes with every generator, is not a product of
    generators) of the `Lx × Ly × Lz` rhombic toric code is lighter than `min Lx (min Ly Lz)` —
    every even `Lx, Ly, Lz ≥ 2` -/
theorem lower_bound (Lx Ly Lz : Nat) (hx : 2 ≤ Lx) (hy : 2 ≤ Ly) (hz : 2 ≤ Lz)
    (hex : Lx % 2 = 0) (hey : Ly % 2 = 0) (hez : Lz % 2 = 0) :
    ∀ v, IsNontrivialLogical (3 * (Lx * Ly * Lz)) (lattice Lx Ly Lz).rowsH v →
      min Lx (min Ly Lz) ≤ pauliWeight v :=
  RhombicToricCode.lower_bound hx hy hz hex hey hez (C01RhombicToricCode.wf Lx Ly Lz hx hy hz)
    (C01RhombicToricCode.n_formula Lx Ly Lz)
    (C01RhombicToricCode.valid_code Lx Ly Lz hx hy hz hex hey hez).2.2.2

/-- THE C17 STATEMENT FOR ALL SIZES of the supported family (all `L_i` even and `≥ 2`): the code
    distance of the `Lx × Ly × Lz` rhombic toric code — the minimum weight of a non-trivial logical
    operator of the assembled parity-check matrix — is `min Lx (min Ly Lz)` -/
theorem distance (Lx Ly Lz : Nat) (hx : 2 ≤ Lx) (hy : 2 ≤ Ly) (hz : 2 ≤ Lz)
    (hex : Lx % 2 = 0) (hey : Ly % 2 = 0) (hez : Lz % 2 = 0) :
    IsDistance (3 * (Lx * Ly * Lz)) (lattice Lx Ly Lz).rowsH (min Lx (min Ly Lz)) :=
  distance_criterion (C01RhombicToricCode.valid_code Lx Ly Lz hx hy hz hex hey hez).2.2.2
    (min Lx (min Ly Lz)) (exists_listed_of_distance _ _ _ (reported_distance Lx Ly Lz hx hy hz))
    (lower_bound Lx Ly Lz hx hy hz hex hey hez)

/-- the same, stated for whatever `code.d` reports: the reported distance exists and is the
    true distance -/
theorem distance_reported (Lx Ly Lz : Nat) (hx : 2 ≤ Lx) (hy : 2 ≤ Ly) (hz : 2 ≤ Lz)
    (hex : Lx % 2 = 0) (hey : Ly % 2 = 0) (hez : Lz % 2 = 0) :
    ∃ d, Panqec.distance (lattice Lx Ly Lz).rowsX (lattice Lx Ly Lz).rowsZ = some d ∧
      IsDistance (3 * (Lx * Ly * Lz)) (lattice Lx Ly Lz).rowsH d :=
  ⟨_, reported_distance Lx Ly Lz hx hy hz, distance Lx Ly Lz hx hy hz hex hey hez⟩

/-! ### deformed code (`code.deform('Checkerboard XZZX')`) -/

/-- the class offers the deformation 'Checkerboard XZZX': `get_deformation` is defined on every
    qubit of every lattice (any other name raises, `C01RhombicToricCode.deformation_rule`) -/
theorem deformation_defined (Lx Ly Lz : Nat) (q : Coord) (hq : q ∈ (lattice Lx Ly Lz).qubits) :
    ∃ m, getDeformation "Checkerboard XZZX" q = some m := by
  obtain ⟨x, y, z, rfl⟩ := mem_qubits_shape Lx Ly Lz q hq
  exact ⟨_, C01RhombicToricCode.deformation_on_qubits Lx Ly Lz x y z hq⟩

/-- THE C17 STATEMENT FOR EVERY DEFORMED CODE OF THE CLASS, ALL SIZES (all `L_i` even and `≥ 2`): for
    every deformation name for which `get_deformation` is defined on the qubits (`D q` = the
    relabelling it returns on `q`), the matrices the deformed getters assemble are the relabelled
    rows, they form a valid `[[n, 3]]` code, `code.d` reports `min Lx (min Ly Lz)`, and that is the
    true distance of the deformed code -/
theorem distance_deformed (Lx Ly Lz : Nat) (hx : 2 ≤ Lx) (hy : 2 ≤ Ly) (hz : 2 ≤ Lz)
    (hex : Lx % 2 = 0) (hey : Ly % 2 = 0) (hez : Lz % 2 = 0)
    (name : String) (D : Coord → PauliMap)
    (hD : ∀ q ∈ (lattice Lx Ly Lz).qubits, getDeformation name q = some (D q)) :
    stabilizerMatrix ((lattice Lx Ly Lz).toCodeData.deform D) =
        some ((lattice Lx Ly Lz).rowsH.map (deformBsf ((lattice Lx Ly Lz).qubits.map D))) ∧
    logicalsX ((lattice Lx Ly Lz).toCodeData.deform D) =
        some ((lattice Lx Ly Lz).rowsX.map (deformBsf ((lattice Lx Ly Lz).qubits.map D))) ∧
    logicalsZ ((lattice Lx Ly Lz).toCodeData.deform D) =
        some ((lattice Lx Ly Lz).rowsZ.map (deformBsf ((lattice Lx Ly Lz).qubits.map D))) ∧
    ValidCodeL (3 * (Lx * Ly * Lz)) 3
      ((lattice Lx Ly Lz).rowsH.map (deformBsf ((lattice Lx Ly Lz).qubits.map D)))
      ((lattice Lx Ly Lz).rowsX.map (deformBsf ((lattice Lx Ly Lz).qubits.map D)))
      ((lattice Lx Ly Lz).rowsZ.map (deformBsf ((lattice Lx Ly Lz).qubits.map D))) ∧
    Panqec.distance ((lattice Lx Ly Lz).rowsX.map (deformBsf ((lattice Lx Ly Lz).qubits.map D)))
      ((lattice Lx Ly Lz).rowsZ.map (deformBsf ((lattice Lx Ly Lz).qubits.map D))) =
        some (min Lx (min Ly Lz)) ∧
    IsDistance (3 * (Lx * Ly * Lz))
      ((lattice Lx Ly Lz).rowsH.map (deformBsf ((lattice Lx Ly Lz).qubits.map D)))
      (min Lx (min Ly Lz)) :=
  Lattice.deformed_distance (lattice Lx Ly Lz) (C01RhombicToricCode.wf Lx Ly Lz hx hy hz)
    (C01RhombicToricCode.n_formula Lx Ly Lz)
    (C01RhombicToricCode.valid_code Lx Ly Lz hx hy hz hex hey hez).2.2.2
    (reported_distance Lx Ly Lz hx hy hz) (distance Lx Ly Lz hx hy hz hex hey hez) D
    (fun q hq => C01RhombicToricCode.deformation_isPerm name q _ (hD q hq))

/-- the relabelling `get_deformation(·, name)` as a function of the location (identity where it
    raises — nowhere on the qubits for the offered name) -/
def deformationOf (name : String) (q : Coord) : PauliMap :=
  (getDeformation name q).getD PauliMap.id

/-- the 'Checkerboard XZZX' code has distance `min Lx (min Ly Lz)` — every size of the family -/
theorem distance_deformed_offered (Lx Ly Lz : Nat) (hx : 2 ≤ Lx) (hy : 2 ≤ Ly) (hz : 2 ≤ Lz)
    (hex : Lx % 2 = 0) (hey : Ly % 2 = 0) (hez : Lz % 2 = 0) :
    IsDistance (3 * (Lx * Ly * Lz))
      ((lattice Lx Ly Lz).rowsH.map (deformBsf ((lattice Lx Ly Lz).qubits.map
        (deformationOf "Checkerboard XZZX")))) (min Lx (min Ly Lz)) :=
  (distance_deformed Lx Ly Lz hx hy hz hex hey hez "Checkerboard XZZX"
    (deformationOf "Checkerboard XZZX") (fun q hq => by
      obtain ⟨m, hm⟩ := deformation_defined Lx Ly Lz q hq
      unfold deformationOf
      rw [hm]; rfl)).2.2.2.2.2

/-! ### non-vacuity -/

example : IsDistance 144 (lattice 2 4 6).rowsH 2 :=
  distance 2 4 6 (by decide) (by decide) (by decide) (by decide) (by decide) (by decide)
example : IsDistance 1440 (lattice 10 8 6).rowsH 6 :=
  distance 10 8 6 (by decide) (by decide) (by decide) (by decide) (by decide) (by decide)
/-- the hypothesis of `lower_bound` is satisfiable: the first listed logical X is a non-trivial
    logical operator -/
example : IsNontrivialLogical 24 (lattice 2 2 2).rowsH ((lattice 2 2 2).rowsX.getD 0 []) :=
  listedX_nontrivial (C01RhombicToricCode.valid_code 2 2 2 (by decide) (by decide) (by decide)
    (by decide) (by decide) (by decide)).2.2.2 (by decide +kernel)
example : (lattice 2 4 6).rowsX.map pauliWeight = [48, 24, 16] ∧
    (lattice 2 4 6).rowsZ.map pauliWeight = [2, 4, 6] :=
  weights_listed 2 4 6 (by decide) (by decide) (by decide)
/-- the 'Checkerboard XZZX' code on the `4 × 4 × 6` lattice has distance 4 -/
example : IsDistance 288 ((lattice 4 4 6).rowsH.map
    (deformBsf ((lattice 4 4 6).qubits.map (deformationOf "Checkerboard XZZX")))) 4 :=
  distance_deformed_offered 4 4 6 (by decide) (by decide) (by decide) (by decide) (by decide)
    (by decide)
example : deformationOf "Checkerboard XZZX" [0, 0, 1] = PauliMap.swapXZ := by decide +kernel

end Panqec.C17RhombicToricCode
