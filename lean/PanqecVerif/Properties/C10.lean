import PanqecVerif.Model.Sweep
namespace Panqec.C10
open Panqec.Sweep
theorem placeholder : flipTableOK (toric3D 2 2 2) (flipFaces3D (toric3D 2 2 2)) = true := by decide +kernel
end Panqec.C10
