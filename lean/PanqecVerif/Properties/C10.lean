/-
C10 — sweep decoders track the true residual syndrome.

Statement (properties.jsonl): at every step of a sweep decoder's cellular automaton the
excitation pattern it tracks equals the face syndrome of (original error + correction
accumulated so far): flipping an edge toggles exactly the face stabilizers that anticommute
with Z on that edge, and an edge flipped twice is removed from the correction.  Hence the
returned correction is Z-only, and whenever the automaton stops with no excitations left the
face syndrome of error + correction is zero.

Model: `Model/Sweep.lean` (both automata, `site`, `to_bsf`), `Model/SweepLattices.lean`
(the four 3-D lattices).  Helper lemmas: `Proofs/SweepGeneric.lean`, `Proofs/SweepLattice.lean`,
`Proofs/SweepToric.lean`, `Proofs/SweepInstances.lean`.

Vocabulary
  `Tracks lat ez st`   : `st.signs = faceSyn lat (ez ⊕ Z-part of st.corr)`   (THE invariant)
  `ZOnly op`           : every letter of the dict is Z
  `flipTableOK lat F`  : on every edge of `lat`, the faces `F` toggles (odd multiplicity) are
                         exactly the stabilizer rows that are not flagged in `z_indices` and
                         carry X on that edge  (decidable; the geometry hypothesis)
  `sweepEdgesOK3D lat` : every edge `SweepDecoder3D.sweep_move` can propose is an edge of the
                         lattice (decidable; the rotated decoder checks this at run time)
All theorems quantify over every error (`ex`, `ez` arbitrary functions of the location), every
tie-break stream `ds`, every loop bound and every step.
-/
import PanqecVerif.Proofs.SweepToric
import PanqecVerif.Proofs.SweepInstances

namespace Panqec.C10

open Panqec Panqec.Sweep

/-! ## (i) the generic invariant -/

/-- ONE FLIP.  For any lattice data and any flip table `faces`: if the table is consistent on
    `loc`, flipping `loc` (toggle the listed faces, `site(correction, 'Z', loc)`) keeps the
    tracked signs equal to the face syndrome of error + correction, and does not raise. -/
theorem flip_one_edge_tracks (lat : Lattice) (faces : Loc → Option (List Loc))
    (hnd : lat.stabs.Nodup) (ez : Loc → Bool) (st : State) (loc : Loc)
    (hT : Tracks lat ez st) (hZ : ZOnly st.corr) (hok : flipOK lat faces loc = true) :
    ∃ s', flipWith lat faces loc st.signs = some s' ∧
      Tracks lat ez ⟨s', site st.corr .Z loc⟩ ∧ ZOnly (site st.corr .Z loc) :=
  flip_step lat faces hnd ez st loc hT hZ hok

/-- ANY SEQUENCE OF FLIPS (the second loop of either `sweep_move`, whatever rule chose the
    edges and in whatever order, repetitions included). -/
theorem flip_sequence_tracks (lat : Lattice) (faces : Loc → Option (List Loc))
    (hnd : lat.stabs.Nodup) (ez : Loc → Bool) (locs : List Loc) (st : State)
    (hT : Tracks lat ez st) (hZ : ZOnly st.corr)
    (hok : ∀ loc ∈ locs, flipOK lat faces loc = true) :
    ∃ st', applyFlips lat faces site locs st = some st' ∧ Tracks lat ez st' ∧ ZOnly st'.corr :=
  applyFlips_tracks lat faces hnd ez locs st hT hZ hok

/-- the toggle lemma behind it: on a Z-only operator `site(·,'Z',loc)` flips the Z part at
    `loc` and nowhere else — an edge flipped twice is removed from the correction -/
theorem site_toggles (op : Op) (loc q : Loc) (h : ZOnly op) :
    zPartOf (site op .Z loc) q = (zPartOf op q != (q == loc)) :=
  zPartOf_site op loc q h

/-- `get_initial_state(measure_syndrome(e))` is the face syndrome of `e` (any Pauli error:
    X part `ex`, Z part `ez`) -/
theorem initial_state_tracks (lat : Lattice) (ex ez : Loc → Bool) :
    Tracks lat ez ⟨initialState lat (syndromeOf lat ex ez), []⟩ :=
  (initial_good lat ex ez).1

/-- ONE `SweepDecoder3D.sweep_move` from any state that satisfies the invariant, any stream. -/
theorem sweep_move_3D_tracks (lat : Lattice) (hnd : lat.stabs.Nodup)
    (hft : flipTableOK lat (flipFaces3D lat) = true) (hse : sweepEdgesOK3D lat = true)
    (ez : Loc → Bool) (st : State) (ds : List Dir) (hT : Tracks lat ez st) (hZ : ZOnly st.corr) :
    ∃ st' ds', sweepMove3D lat st ds = some (st', ds') ∧ Tracks lat ez st' ∧ ZOnly st'.corr :=
  sweepMove3D_preserves lat hnd hft hse ez st ds ⟨hT, hZ⟩

/-- ONE `RotatedSweepDecoder3D.sweep_move`, any of the sweep directions (indeed any triple). -/
theorem sweep_move_rotated_tracks (lat : Lattice) (hnd : lat.stabs.Nodup)
    (hft : flipTableOK lat (flipFacesRot lat) = true) (ez : Loc → Bool) (sd : SweepDir)
    (st : State) (ds : List Dir) (hT : Tracks lat ez st) (hZ : ZOnly st.corr) :
    ∃ st' ds', sweepMoveRot lat sd st ds = some (st', ds') ∧ Tracks lat ez st' ∧ ZOnly st'.corr :=
  sweepMoveRot_preserves lat hnd hft ez sd st ds ⟨hT, hZ⟩

/-- EVERY STEP OF EVERY RUN of `SweepDecoder3D.decode`: for every error, every tie-break
    stream and every `max_sweep_factor`, the run does not raise, and every state it visits
    (and the final one) tracks the face syndrome of error + correction with a Z-only
    correction. -/
theorem sweep3D_every_step_tracks (lat : Lattice) (hnd : lat.stabs.Nodup)
    (hft : flipTableOK lat (flipFaces3D lat) = true) (hse : sweepEdgesOK3D lat = true)
    (ex ez : Loc → Bool) (maxSweepFactor : Nat) (ds : List Dir) :
    ∃ tr stf dsf, run3D lat maxSweepFactor (syndromeOf lat ex ez) ds = some (tr, stf, dsf) ∧
      (∀ st ∈ tr, Tracks lat ez st ∧ ZOnly st.corr) ∧ Tracks lat ez stf ∧ ZOnly stf.corr := by
  obtain ⟨tr, stf, dsf, h1, h2, h3⟩ :=
    sweepLoop_preserves (Good lat ez) (sweepMove3D lat) (sweepMove3D_preserves lat hnd hft hse ez)
      (maxSweepFactor * lat.maxSize) _ ds (initial_good lat ex ez)
  exact ⟨tr, stf, dsf, h1, h2, h3.1, h3.2⟩

/-- EVERY STEP OF EVERY RUN of `RotatedSweepDecoder3D.decode` (all rounds, all eight sweep
    directions, every inner sweep). -/
theorem rotated_every_step_tracks (lat : Lattice) (hnd : lat.stabs.Nodup)
    (hft : flipTableOK lat (flipFacesRot lat) = true)
    (ex ez : Loc → Bool) (maxRounds : Nat) (ds : List Dir) :
    ∃ tr stf dsf, runRot lat maxRounds (syndromeOf lat ex ez) ds = some (tr, stf, dsf) ∧
      (∀ st ∈ tr, Tracks lat ez st ∧ ZOnly st.corr) ∧ Tracks lat ez stf ∧ ZOnly stf.corr := by
  obtain ⟨tr, stf, dsf, h1, h2, h3⟩ :=
    roundsLoopRot_preserves (Good lat ez) lat (4 * (2 * lat.maxSize + 2))
      (fun sd => sweepMoveRot_preserves lat hnd hft ez sd) maxRounds _ ds (initial_good lat ex ez)
  exact ⟨tr, stf, dsf, h1, h2, h3.1, h3.2⟩

/-! ## (ii) the correction is Z-only -/

/-- the binary-symplectic image of a Z-only dict has an all-zero X block -/
theorem z_only_bsf_has_zero_x_block (lat : Lattice) (op : Op) (h : ZOnly op) (v : List Nat)
    (hv : toBsf lat op = some v) : v.take lat.qubits.length = List.replicate lat.qubits.length 0 :=
  toBsf_xblock_zero lat op h v hv

/-- what `SweepDecoder3D.decode` returns has an all-zero X block -/
theorem sweep3D_returns_z_only (lat : Lattice) (hnd : lat.stabs.Nodup)
    (hft : flipTableOK lat (flipFaces3D lat) = true) (hse : sweepEdgesOK3D lat = true)
    (ex ez : Loc → Bool) (maxSweepFactor : Nat) (ds : List Dir) (v : List Nat)
    (hv : decode3D lat maxSweepFactor (syndromeOf lat ex ez) ds = some v) :
    v.take lat.qubits.length = List.replicate lat.qubits.length 0 := by
  obtain ⟨tr, stf, dsf, h1, _, _, h4⟩ :=
    sweep3D_every_step_tracks lat hnd hft hse ex ez maxSweepFactor ds
  unfold decode3D at hv
  rw [h1] at hv
  exact toBsf_xblock_zero lat stf.corr h4 v hv

/-- what `RotatedSweepDecoder3D.decode` returns has an all-zero X block -/
theorem rotated_returns_z_only (lat : Lattice) (hnd : lat.stabs.Nodup)
    (hft : flipTableOK lat (flipFacesRot lat) = true)
    (ex ez : Loc → Bool) (maxRounds : Nat) (ds : List Dir) (v : List Nat)
    (hv : decodeRot lat maxRounds (syndromeOf lat ex ez) ds = some v) :
    v.take lat.qubits.length = List.replicate lat.qubits.length 0 := by
  obtain ⟨tr, stf, dsf, h1, _, _, h4⟩ := rotated_every_step_tracks lat hnd hft ex ez maxRounds ds
  unfold decodeRot at hv
  rw [h1] at hv
  exact toBsf_xblock_zero lat stf.corr h4 v hv

/-! ## (iii) stopping without excitations -/

/-- a state that satisfies the invariant and has no excitation left: the face syndrome of
    error + correction is zero on every row -/
theorem no_excitations_zero_face_syndrome (lat : Lattice) (ez : Loc → Bool) (st : State)
    (hT : Tracks lat ez st) (h0 : st.signs.any id = false) :
    ∀ b ∈ faceSyn lat (residualZ ez st.corr), b = false := by
  unfold Tracks at hT
  rw [← hT]
  intro b hb
  rw [List.any_eq_false] at h0
  simpa using h0 b hb

/-- `SweepDecoder3D.decode`: if the loop ends with no excitations, error + returned correction
    has zero face syndrome -/
theorem sweep3D_stop_clean (lat : Lattice) (hnd : lat.stabs.Nodup)
    (hft : flipTableOK lat (flipFaces3D lat) = true) (hse : sweepEdgesOK3D lat = true)
    (ex ez : Loc → Bool) (maxSweepFactor : Nat) (ds : List Dir) (tr : List State) (stf : State)
    (dsf : List Dir)
    (hrun : run3D lat maxSweepFactor (syndromeOf lat ex ez) ds = some (tr, stf, dsf))
    (h0 : stf.signs.any id = false) :
    ∀ b ∈ faceSyn lat (residualZ ez stf.corr), b = false := by
  obtain ⟨tr', stf', dsf', h1, _, h3, _⟩ :=
    sweep3D_every_step_tracks lat hnd hft hse ex ez maxSweepFactor ds
  rw [hrun] at h1
  cases h1
  exact no_excitations_zero_face_syndrome lat ez stf h3 h0

/-- the same for `RotatedSweepDecoder3D.decode` -/
theorem rotated_stop_clean (lat : Lattice) (hnd : lat.stabs.Nodup)
    (hft : flipTableOK lat (flipFacesRot lat) = true)
    (ex ez : Loc → Bool) (maxRounds : Nat) (ds : List Dir) (tr : List State) (stf : State)
    (dsf : List Dir)
    (hrun : runRot lat maxRounds (syndromeOf lat ex ez) ds = some (tr, stf, dsf))
    (h0 : stf.signs.any id = false) :
    ∀ b ∈ faceSyn lat (residualZ ez stf.corr), b = false := by
  obtain ⟨tr', stf', dsf', h1, _, h3, _⟩ := rotated_every_step_tracks lat hnd hft ex ez maxRounds ds
  rw [hrun] at h1
  cases h1
  exact no_excitations_zero_face_syndrome lat ez stf h3 h0

/-! ## (iv) geometry: the flip tables against the face stabilizers -/

/-- Toric3DCode, EVERY size `L_x, L_y, L_z ≥ 2`: on every edge `SweepDecoder3D.flip_edge`
    (neighbour table, `np.mod` by the limits, `is_stabilizer` filter) toggles exactly the face
    stabilizers that anticommute with Z on that edge. -/
theorem toric3D_flip_table_ok (Lx Ly Lz : Nat) (hx : 2 ≤ Lx) (hy : 2 ≤ Ly) (hz : 2 ≤ Lz) :
    flipTableOK (toric3D Lx Ly Lz) (flipFaces3D (toric3D Lx Ly Lz)) = true :=
  toric_flipTableOK Lx Ly Lz hx hy hz

/-- Toric3DCode, every size ≥ 2: the edges proposed by the sweep rule are edges of the lattice -/
theorem toric3D_sweep_edges_ok (Lx Ly Lz : Nat) (hx : 2 ≤ Lx) (hy : 2 ≤ Ly) (hz : 2 ≤ Lz) :
    sweepEdgesOK3D (toric3D Lx Ly Lz) = true :=
  toric_sweepEdgesOK Lx Ly Lz hx hy hz

/-- Toric3DCode, every size: stabilizer locations are pairwise distinct -/
theorem toric3D_stabilizers_distinct (Lx Ly Lz : Nat) : (toric3D Lx Ly Lz).stabs.Nodup :=
  toricStabs_nodup Lx Ly Lz

/-- C10 for `SweepDecoder3D` on `Toric3DCode`, unconditional: every size ≥ 2, every error,
    every stream, every bound, every step. -/
theorem toric3D_sweep_tracks (Lx Ly Lz : Nat) (hx : 2 ≤ Lx) (hy : 2 ≤ Ly) (hz : 2 ≤ Lz)
    (ex ez : Loc → Bool) (maxSweepFactor : Nat) (ds : List Dir) :
    ∃ tr stf dsf, run3D (toric3D Lx Ly Lz) maxSweepFactor
        (syndromeOf (toric3D Lx Ly Lz) ex ez) ds = some (tr, stf, dsf) ∧
      (∀ st ∈ tr, Tracks (toric3D Lx Ly Lz) ez st ∧ ZOnly st.corr) ∧
      Tracks (toric3D Lx Ly Lz) ez stf ∧ ZOnly stf.corr :=
  sweep3D_every_step_tracks _ (toricStabs_nodup Lx Ly Lz) (toric_flipTableOK Lx Ly Lz hx hy hz)
    (toric_sweepEdgesOK Lx Ly Lz hx hy hz) ex ez maxSweepFactor ds

/-
Planar3DCode and RotatedPlanar3DCode — full statement intended:

  ∀ Lx Ly Lz ≥ 1, flipTableOK (planar3D Lx Ly Lz) (flipFaces3D (planar3D Lx Ly Lz)) = true
                  ∧ sweepEdgesOK3D (planar3D Lx Ly Lz) = true ∧ (planar3D Lx Ly Lz).stabs.Nodup
  ∀ Lx Ly Lz ≥ 1, flipTableOK (rotPlanar3D Lx Ly Lz) (flipFacesRot (rotPlanar3D Lx Ly Lz)) = true
                  ∧ (rotPlanar3D Lx Ly Lz).stabs.Nodup

Proved below only for the listed sizes by kernel evaluation (`_partial`); what is missing is
the all-sizes coordinate argument (same pattern as `Proofs/SweepToric.lean`, with boundary
cases instead of wraps).  The generic theorems above apply to any size for which the three
decidable hypotheses are checked; the harness evaluates them with the compiled model on
every size it runs.
-/

/-- Planar3DCode, sizes listed in `planarSizes`: flip table consistent, proposed edges are
    edges, stabilizers distinct -/
theorem planar3D_geometry_partial :
    ∀ s ∈ planarSizes, GeometryOK3D (planar3D s.1 s.2.1 s.2.2) = true :=
  planar_geometry_instances

/-- RotatedPlanar3DCode, sizes listed in `rotPlanarSizes` -/
theorem rotated_planar3D_geometry_partial :
    ∀ s ∈ rotPlanarSizes, GeometryOKRot (rotPlanar3D s.1 s.2.1 s.2.2) = true :=
  rotPlanar_geometry_instances

/-- C10 for `SweepDecoder3D` on `Planar3DCode` at the checked sizes -/
theorem planar3D_sweep_tracks_partial (s : Nat × Nat × Nat) (hs : s ∈ planarSizes)
    (ex ez : Loc → Bool) (maxSweepFactor : Nat) (ds : List Dir) :
    ∃ tr stf dsf, run3D (planar3D s.1 s.2.1 s.2.2) maxSweepFactor
        (syndromeOf (planar3D s.1 s.2.1 s.2.2) ex ez) ds = some (tr, stf, dsf) ∧
      (∀ st ∈ tr, Tracks (planar3D s.1 s.2.1 s.2.2) ez st ∧ ZOnly st.corr) ∧
      Tracks (planar3D s.1 s.2.1 s.2.2) ez stf ∧ ZOnly stf.corr := by
  obtain ⟨h1, h2, h3⟩ := geometryOK3D_spec _ (planar_geometry_instances s hs)
  exact sweep3D_every_step_tracks _ h1 h2 h3 ex ez maxSweepFactor ds

/-- C10 for `RotatedSweepDecoder3D` on `RotatedPlanar3DCode` at the checked sizes -/
theorem rotated_planar3D_sweep_tracks_partial (s : Nat × Nat × Nat) (hs : s ∈ rotPlanarSizes)
    (ex ez : Loc → Bool) (maxRounds : Nat) (ds : List Dir) :
    ∃ tr stf dsf, runRot (rotPlanar3D s.1 s.2.1 s.2.2) maxRounds
        (syndromeOf (rotPlanar3D s.1 s.2.1 s.2.2) ex ez) ds = some (tr, stf, dsf) ∧
      (∀ st ∈ tr, Tracks (rotPlanar3D s.1 s.2.1 s.2.2) ez st ∧ ZOnly st.corr) ∧
      Tracks (rotPlanar3D s.1 s.2.1 s.2.2) ez stf ∧ ZOnly stf.corr := by
  obtain ⟨h1, h2⟩ := geometryOKRot_spec _ (rotPlanar_geometry_instances s hs)
  exact rotated_every_step_tracks _ h1 h2 ex ez maxRounds ds

/-! ## documented regressions (negative instances) -/

/-- D9 (fixed in /repo by 9208454).  With the OLD update `correction[location] = 'Z'`
    (assignment) the invariant is FALSE: Toric3DCode 2×2×2, Z errors on qubit indices 3 and 21
    (locations (1,2,2) and (2,0,3)), default `max_sweep_factor = 32`, no tie-break needed: some
    state visited by the run does not track the residual face syndrome. -/
theorem old_assignment_update_breaks_invariant :
    (oldRun3D (toric3D 2 2 2) 32 (syndromeOf (toric3D 2 2 2) (fun _ => false) witnessD9) []).map
      (fun r => r.1.all fun st => decide (Tracks (toric3D 2 2 2) witnessD9 st)) = some false :=
  old_update_witness

/-- the same input with the update the code has now (`site`, a toggle): every visited state
    tracks (instance of `toric3D_sweep_tracks`, evaluated) -/
theorem toggle_update_on_the_same_witness :
    (run3D (toric3D 2 2 2) 32 (syndromeOf (toric3D 2 2 2) (fun _ => false) witnessD9) []).map
      (fun r => r.1.all fun st => decide (Tracks (toric3D 2 2 2) witnessD9 st)) = some true :=
  new_update_witness

/-- D10 (known finding, NOT fixed).  `RotatedSweepDecoder3D.flip_edge` has no periodic seam:
    on RotatedToric3DCode 2×2×2 its flip table is inconsistent with the face stabilizers
    (8 of the 10 edges; the bad edges are listed by `rotated_toric_bad_edges`). -/
theorem rotated_toric_flip_table_inconsistent :
    flipTableOK (rotToric3D 2 2 2) (flipFacesRot (rotToric3D 2 2 2)) = false :=
  rotToric_table_bad

theorem rotated_toric_bad_edges :
    flipTableBad (rotToric3D 2 2 2) (flipFacesRot (rotToric3D 2 2 2)) =
      [(1, 1, 1), (1, 1, 3), (1, 3, 1), (1, 3, 3), (3, 1, 1), (3, 1, 3), (2, 4, 2), (4, 2, 2)] :=
  rotToric_bad_edges

/-! ## non-vacuity -/

/-- the hypotheses of the generic theorems hold on concrete lattices of both decoders -/
example : GeometryOK3D (toric3D 2 3 2) = true := by decide +kernel
example : GeometryOKRot (rotPlanar3D 2 2 2) = true := by decide +kernel

/-- a run that really flips edges: Toric3DCode 2×2×2, the D9 witness, new update: two sweeps -/
example :
    (run3D (toric3D 2 2 2) 32 (syndromeOf (toric3D 2 2 2) (fun _ => false) witnessD9) []).map
      (fun r => r.1.length) = some 2 := by decide +kernel

end Panqec.C10
