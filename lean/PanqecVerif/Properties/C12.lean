import PanqecVerif.Model.Batch
namespace Panqec.C12
end Panqec.C12
