/-
C12 — interrupted batch runs resume without losing or duplicating trials.

Model: `Model/Batch.lean` (state machine of `BatchSimulation.run` with the atomic `save_json`:
micro-steps, KeyboardInterrupt, kill, restart).  Helper lemmas: `Proofs/Batch.lean`,
`Proofs/BatchInv.lean`.

All theorems quantify over an arbitrary list of events `evs` (micro-steps of the running process,
KeyboardInterrupts, kills, restarts) applied to the initial world (no results file).  The only
hypothesis is `AllOK`: every (re)start uses a non-empty specification without duplicates that
contains every simulation already recorded in the file (it may have grown), a target `n_trials`
not below the recorded counts, and a save frequency ≥ 1; nobody else writes the file.
Crash schedules, interrupt schedules, save frequencies, numbers of restarts are unrestricted.
-/
import PanqecVerif.Proofs.BatchLive

namespace Panqec.C12

open Panqec.Batch

/-- the world after the events `evs`, starting without a results file, atomic `save_json` -/
abbrev after (fmt : Fmt) (evs : List Ev) : World := runEvs (World.init fmt true) evs

/-- **A restart never raises** (and no other step does): the process is never in a `failed`
    state — not `EOFError`/`BadGzipFile` from a torn file, not `min([])`, not `% 0`. -/
theorem restart_never_errors (fmt : Fmt) (evs : List Ev) (hok : AllOK (World.init fmt true) evs)
    (e : RunErr) : (after fmt evs).proc.pc ≠ .failed e := by
  have h := (inv_run evs (inv_init fmt) hok).1
  intro hpc
  have := h.loopOK
  simp only [LoopOK, hpc] at this

/-- the results file is never torn or empty: it is absent or a complete document -/
theorem file_never_torn (fmt : Fmt) (evs : List Ev) (hok : AllOK (World.init fmt true) evs) :
    (after fmt evs).disk.file = .absent ∨ ∃ d, (after fmt evs).disk.file = .complete d :=
  (inv_run evs (inv_init fmt) hok).1.fileOK

/-- **Exact counts after a completed run**: when the process has run to completion, every
    requested simulation is in memory with exactly `n_trials` trials and three result lists of
    exactly that length. -/
theorem completed_run_exact_counts_memory (fmt : Fmt) (evs : List Ev)
    (hok : AllOK (World.init fmt true) evs) (hdone : (after fmt evs).proc.pc = .done) :
    ∀ x ∈ (after fmt evs).proc.spec, ∃ s ∈ (after fmt evs).proc.mem, s.inputs = x ∧
      s.nRuns = (after fmt evs).proc.n ∧ s.ee.length = (after fmt evs).proc.n ∧
      s.su.length = (after fmt evs).proc.n ∧ s.cs.length = (after fmt evs).proc.n := by
  have h := (inv_run evs (inv_init fmt) hok).1
  intro x hx
  rw [← h.specMem] at hx
  obtain ⟨s, hs, rfl⟩ := List.mem_map.mp hx
  have hl := h.loopOK
  simp only [LoopOK, hdone] at hl
  have hge : (after fmt evs).proc.n ≤ s.nRuns := by
    have hs' := hs
    simp only [Proc.mem, hl.1, List.nil_append] at hs'
    exact hl.2.1 s hs'
  have hle := h.counts s hs
  obtain ⟨⟨w1, w2, w3⟩, _, _⟩ := h.memOK.each s hs
  have hn : s.nRuns = (after fmt evs).proc.n := Nat.le_antisymm hle hge
  refine ⟨s, hs, rfl, hn, ?_, ?_, ?_⟩
  · rw [← w3]; exact hn
  · rw [w1, ← w3]; exact hn
  · rw [w2, ← w3]; exact hn

/-- **Exact counts in the file after a completed run** (`n_trials ≥ 1`): the results file is a
    complete document (`fileDoc` = its records) that contains, for every requested simulation, a
    record with exactly `n_trials` trials and equally long lists. -/
theorem completed_run_exact_counts_file (fmt : Fmt) (evs : List Ev)
    (hok : AllOK (World.init fmt true) evs) (hdone : (after fmt evs).proc.pc = .done)
    (hn : 1 ≤ (after fmt evs).proc.n) :
    ((after fmt evs).proc.spec ≠ [] → ∃ d, (after fmt evs).disk.file = .complete d) ∧
      ∀ x ∈ (after fmt evs).proc.spec, ∃ r ∈ fileDoc (after fmt evs).disk.file, r.inputs = x ∧
        r.nRuns = (after fmt evs).proc.n ∧ r.ee.length = (after fmt evs).proc.n ∧
        r.su.length = (after fmt evs).proc.n ∧ r.cs.length = (after fmt evs).proc.n := by
  have h := (inv_run evs (inv_init fmt) hok).1
  have hl := h.loopOK
  simp only [LoopOK, hdone] at hl
  have hmem : ∀ s ∈ (after fmt evs).proc.mem, s ∈ fileDoc (after fmt evs).disk.file := by
    intro s hs
    simp only [Proc.mem, hl.1, List.nil_append] at hs
    exact hl.2.2 hn s hs
  have key : ∀ x ∈ (after fmt evs).proc.spec, ∃ r ∈ fileDoc (after fmt evs).disk.file, r.inputs = x ∧
      r.nRuns = (after fmt evs).proc.n ∧ r.ee.length = (after fmt evs).proc.n ∧
      r.su.length = (after fmt evs).proc.n ∧ r.cs.length = (after fmt evs).proc.n := by
    intro x hx
    obtain ⟨s, hs, a, b⟩ := completed_run_exact_counts_memory fmt evs hok hdone x hx
    exact ⟨s, hmem s hs, a, b⟩
  refine ⟨?_, key⟩
  intro hne
  rcases h.fileOK with hf | ⟨d, hf⟩
  · obtain ⟨x, hx⟩ := List.exists_mem_of_ne_nil _ hne
    obtain ⟨r, hr, _⟩ := key x hx
    rw [hf] at hr
    cases hr
  · exact ⟨d, hf⟩

/-- **The last completed save is kept unchanged as a prefix**: take the results file at any
    moment (after `evs₁`; under the atomic protocol its content *is* the last completed save) and
    let anything admissible happen afterwards (`evs₂`: more trials, saves, kills at any
    micro-step, interrupts, restarts with grown specifications).  Every record of the earlier file
    is still there, and its three result lists are prefixes of the later ones. -/
theorem last_completed_save_is_prefix (fmt : Fmt) (evs₁ evs₂ : List Ev)
    (hok : AllOK (World.init fmt true) (evs₁ ++ evs₂)) :
    ∀ r ∈ fileDoc (after fmt evs₁).disk.file,
      ∃ r' ∈ fileDoc (after fmt (evs₁ ++ evs₂)).disk.file,
        r'.inputs = r.inputs ∧ r.ee <+: r'.ee ∧ r.su <+: r'.su ∧ r.cs <+: r'.cs := by
  obtain ⟨h1, h2⟩ := (allOK_append evs₁ evs₂ _).mp hok
  have ha := (inv_run evs₁ (inv_init fmt) h1).1
  have hb := (inv_run evs₂ ha h2).2
  show FileLE _ _
  simp only [after, runEvs_append]
  exact hb

/-- **No trial is counted twice**: in the results file, at any moment, simulations are recorded
    once, and all trial identifiers of all records together are pairwise distinct (the same holds
    for each of the three lists, which hold the same trials). -/
theorem no_trial_counted_twice (fmt : Fmt) (evs : List Ev) (hok : AllOK (World.init fmt true) evs) :
    ((fileDoc (after fmt evs).disk.file).map (·.inputs)).Nodup ∧
    ((fileDoc (after fmt evs).disk.file).flatMap (·.ee)).Nodup ∧
    ∀ r ∈ fileDoc (after fmt evs).disk.file, r.su = r.ee ∧ r.cs = r.ee ∧ r.nRuns = r.ee.length := by
  have h := (inv_run evs (inv_init fmt) hok).1
  exact ⟨h.docOK.inputsNodup, h.docOK.flat_nodup, fun r hr => (h.docOK.each r hr).1⟩

/-- the same for the results held in memory by the running process -/
theorem no_trial_counted_twice_memory (fmt : Fmt) (evs : List Ev)
    (hok : AllOK (World.init fmt true) evs) :
    ((after fmt evs).proc.mem.flatMap (·.ee)).Nodup :=
  (inv_run evs (inv_init fmt) hok).1.memOK.flat_nodup

/-- every trial in the file has really been run (its identifier was issued by the counter) -/
theorem recorded_trials_were_run (fmt : Fmt) (evs : List Ev) (hok : AllOK (World.init fmt true) evs) :
    ∀ r ∈ fileDoc (after fmt evs).disk.file, ∀ id ∈ r.ee, id < (after fmt evs).next :=
  fun r hr => ((inv_run evs (inv_init fmt) hok).1.docOK.each r hr).2.2

/-- **A record is adopted only when the inputs are identical**: `load_results` of a simulation
    with inputs `x` either starts from scratch or takes over a record of the file whose inputs
    equal `x` — for *any* file content, well-formed or not. -/
theorem adoption_only_on_identical_inputs (od : Option Doc) (x : Nat) :
    loadSim od x = fresh x ∨
      ∃ d r, od = some d ∧ r ∈ d ∧ r.inputs = x ∧ loadSim od x = r := by
  rcases loadSim_cases od x with h | ⟨d, hd, hm, hx⟩
  · exact Or.inl h
  · exact Or.inr ⟨d, loadSim od x, hd, hm, hx, rfl⟩

/-- … and it is the *first* record with these inputs (`_find_current_simulation`) -/
theorem adoption_takes_first_match (d : Doc) (x : Nat) (pre : List Sim) (r : Sim) (post : List Sim)
    (hd : d = pre ++ r :: post) (hpre : ∀ p ∈ pre, p.inputs ≠ x) (hr : r.inputs = x) :
    loadSim (some d) x = r := by
  subst hd
  have : findRec (pre ++ r :: post) x = some r := by
    unfold findRec
    induction pre with
    | nil => simp [hr]
    | cons a t ih =>
      have ha : (a.inputs == x) = false := by simpa using hpre a (by simp)
      simp only [List.cons_append, List.find?_cons, ha]
      exact ih (fun p hp => hpre p (List.mem_cons_of_mem _ hp))
  simp only [loadSim, this]
  cases r; simp_all

/-- with a file whose records have different inputs, nothing is lost either: every record of a
    requested simulation is adopted by exactly that simulation (used by the prefix theorem) -/
theorem every_requested_record_is_adopted (d : Doc) (hn : (d.map (·.inputs)).Nodup) (r : Sim)
    (hr : r ∈ d) : loadSim (some d) r.inputs = r :=
  loadSim_of_mem hn hr

/-- **An uninterrupted restart runs to completion**: after any admissible history (kills at any
    micro-step, interrupts, earlier restarts), a new process started with an admissible
    specification reaches `done` after finitely many micro-steps, if it is left alone. -/
theorem uninterrupted_restart_completes (fmt : Fmt) (evs : List Ev)
    (hok : AllOK (World.init fmt true) evs) (spec : List Nat) (n sf : Nat)
    (hs : EvOK (after fmt evs) (.start spec n sf)) :
    ∃ k, AllOK (World.init fmt true) (evs ++ [.start spec n sf] ++ List.replicate k .step) ∧
      (after fmt (evs ++ [.start spec n sf] ++ List.replicate k .step)).proc.pc = .done ∧
      (after fmt (evs ++ [.start spec n sf] ++ List.replicate k .step)).proc.spec = spec ∧
      (after fmt (evs ++ [.start spec n sf] ++ List.replicate k .step)).proc.n = n := by
  have h := (inv_run evs (inv_init fmt) hok).1
  obtain ⟨hi, _⟩ := inv_start h hs
  have hq : (startProc (after fmt evs) spec n sf).proc.pc.quiet = true := by
    rcases start_quiet (after fmt evs) spec n sf with a | ⟨e, he⟩
    · exact a
    · have := hi.loopOK
      simp only [LoopOK, he] at this
  obtain ⟨k, hk, _, _⟩ := reaches_done _ hi hq
  have hrun : after fmt (evs ++ [.start spec n sf] ++ List.replicate k .step) =
      stepN k (startProc (after fmt evs) spec n sf) := by
    simp only [after, runEvs_append, stepN_eq_runEvs]
    rfl
  refine ⟨k, ?_, ?_, ?_, ?_⟩
  · rw [allOK_append, allOK_append]
    exact ⟨⟨hok, hs, trivial⟩, allOK_steps k _⟩
  · rw [hrun]; exact hk
  · rw [hrun]; exact (stepN_spec_n k _).1.trans (start_spec_n _ _ _ _).1
  · rw [hrun]; exact (stepN_spec_n k _).2.trans (start_spec_n _ _ _ _).2

/-- **The statement of C12 in one theorem**: after any admissible history, running the
    (possibly grown) specification again with a target `n ≥ 1` completes without error, and the
    results file then holds, for every requested simulation, exactly `n` trials with equally long
    lists, all records of the file as it was before the restart (= the last completed save) are
    unchanged prefixes, and no trial occurs twice. -/
theorem resume_is_correct (fmt : Fmt) (evs : List Ev)
    (hok : AllOK (World.init fmt true) evs) (spec : List Nat) (n sf : Nat) (hn : 1 ≤ n)
    (hs : EvOK (after fmt evs) (.start spec n sf)) :
    ∃ k, let w' := after fmt (evs ++ [.start spec n sf] ++ List.replicate k .step)
      w'.proc.pc = .done ∧
      (∃ d, w'.disk.file = .complete d) ∧
      (∀ x ∈ spec, ∃ r ∈ fileDoc w'.disk.file, r.inputs = x ∧ r.nRuns = n ∧
        r.ee.length = n ∧ r.su.length = n ∧ r.cs.length = n) ∧
      (∀ r ∈ fileDoc (after fmt evs).disk.file, ∃ r' ∈ fileDoc w'.disk.file,
        r'.inputs = r.inputs ∧ r.ee <+: r'.ee ∧ r.su <+: r'.su ∧ r.cs <+: r'.cs) ∧
      ((fileDoc w'.disk.file).flatMap (·.ee)).Nodup := by
  obtain ⟨k, hok', hdone, hspec, hnn⟩ := uninterrupted_restart_completes fmt evs hok spec n sf hs
  refine ⟨k, hdone, ?_, ?_, ?_, ?_⟩
  · have := (completed_run_exact_counts_file fmt _ hok' hdone (by rw [hnn]; exact hn)).1
    rw [hspec] at this
    exact this hs.1
  · have := (completed_run_exact_counts_file fmt _ hok' hdone (by rw [hnn]; exact hn)).2
    rw [hspec, hnn] at this
    exact this
  · have := last_completed_save_is_prefix fmt evs ([.start spec n sf] ++ List.replicate k .step)
      (by rw [← List.append_assoc]; exact hok')
    rw [← List.append_assoc] at this
    exact this
  · exact (no_trial_counted_twice fmt _ hok').2.1

/-! ### non-vacuity: the hypotheses hold on concrete, non-trivial schedules -/

/-- two simulations, 3 trials, save frequency 1; killed in the middle of the second save_json of
    the first checkpoint (temporary file torn); restart with a grown specification, larger target
    and another save frequency, interrupted by Ctrl-C during a save, then restarted again and
    run to completion -/
def demo : List Ev :=
  [.start [7, 8] 3 1] ++ List.replicate 13 .step ++ [.crash,
   .start [7, 8, 9] 4 2] ++ List.replicate 12 .step ++ [.kbint] ++ List.replicate 6 .step ++ [.crash,
   .start [7, 8, 9] 4 5] ++ List.replicate 40 .step

example : AllOK (World.init .gz true) demo := by decide +kernel
example : (after .gz demo).proc.pc = .done := by decide +kernel
example : (after .gz (demo.take 15)).disk = ⟨.complete [⟨7, 2, [0, 2], [0, 2], [0, 2]⟩,
    ⟨8, 2, [1, 3], [1, 3], [1, 3]⟩], .torn⟩ := by decide +kernel
example : (fileDoc (after .gz demo).disk.file).map (fun r => (r.inputs, r.ee)) =
    [(7, [0, 2, 4, 7]), (8, [1, 3, 5, 8]), (9, [6, 9, 10, 11])] := by decide +kernel

/-! ### the old in-place protocol (`open(file, 'w')` truncates the results file, then writes):
    the negated theorems on a concrete crash schedule (defect D11, repaired in /repo by
    "fix: save_json writes to a temporary file and renames it into place"; kept as a regression
    example — the correspondence harness compares this machine with the pre-fix `save_json`) -/

/-- one simulation, 2 trials, save frequency 1: the first `save_results` writes the file twice
    (`save_file()` then `save_json`); the process is killed while the second write is under way -/
def oldCrash : List Ev := [.start [0] 2 1] ++ List.replicate 10 .step ++ [.crash]

/-- after the first write the save had completed … -/
theorem old_protocol_completed_save (fmt : Fmt) :
    (runEvs (World.init fmt false) (oldCrash.take 9)).disk.file =
      .complete [⟨0, 2, [0, 1], [0, 1], [0, 1]⟩] := by
  cases fmt <;> decide

/-- … and the kill leaves the results file torn -/
theorem old_protocol_leaves_torn_file (fmt : Fmt) :
    (runEvs (World.init fmt false) oldCrash).disk.file = .torn := by
  cases fmt <;> decide

/-- gzip output: the restart raises (`EOFError` / `BadGzipFile`) — `restart_never_errors` fails -/
theorem old_protocol_restart_raises_gz :
    (runEvs (World.init .gz false) (oldCrash ++ [.start [0] 2 1])).proc.pc = .failed .eof := by
  decide

/-- plain JSON output: the restart silently starts from scratch; after it has completed, the
    trials 0 and 1 of the completed save are gone — `last_completed_save_is_prefix` fails -/
theorem old_protocol_loses_completed_save_json :
    ¬ FileLE (runEvs (World.init .json false) (oldCrash.take 9)).disk.file
        (runEvs (World.init .json false)
          (oldCrash ++ [.start [0] 2 1] ++ List.replicate 20 .step)).disk.file := by
  have h1 : (runEvs (World.init .json false) (oldCrash.take 9)).disk.file =
      .complete [⟨0, 2, [0, 1], [0, 1], [0, 1]⟩] := by decide
  have h2 : (runEvs (World.init .json false)
      (oldCrash ++ [.start [0] 2 1] ++ List.replicate 20 .step)).disk.file =
      .complete [⟨0, 2, [2, 3], [2, 3], [2, 3]⟩] := by decide
  rw [h1, h2]
  intro h
  obtain ⟨r', hr', _, hp, _⟩ := h ⟨0, 2, [0, 1], [0, 1], [0, 1]⟩ (by simp [fileDoc])
  simp only [fileDoc, List.mem_singleton] at hr'
  subst hr'
  simp at hp

/-- the same schedule under the atomic protocol is harmless -/
example : AllOK (World.init .gz true) (oldCrash ++ [.start [0] 2 1] ++ List.replicate 20 .step) := by
  decide +kernel
example : (after .gz (oldCrash ++ [.start [0] 2 1] ++ List.replicate 20 .step)).proc.pc = .done := by
  decide +kernel

end Panqec.C12
