/-
C01 for `RotatedPlanar2DCode`, ALL sizes of the supported family (`Lx ≥ 1`, `Ly ≥ 1`, no upper
bound): the hand-written lattice model `Model/Lattices/RotatedPlanar2DCode.lean` (tied to
`panqec/codes/surface_2d/_rotated_planar_2d_code.py` by the correspondence streams of
`harness/lattices/rotatedplanar2dcode.py`) is a well-formed coordinate system whose stabilizers
commute, whose logicals commute with the stabilizers and anticommute with each other;
`n = Lx·Ly`, `k = 1`; `get_deformation` follows the stated rule at every location.

Rank clause, for all sizes: the generators at all stabilizer locations are independent (`generators_independent`, via a
triangular family of single-qubit probes) and there are exactly `n − k` of them
(`generators_count`).  `valid_code` puts everything together through the generic bridge
`Proofs/OpComm.lean` (`symp (to_bsf a) (to_bsf b) = opAntiCount a b mod 2` for dicts with distinct
keys ⇒ `CommPairL` of the assembled rows) and `Proofs/Lat2DRankBridge.lean` (operator-level
independent sub-family of `n − k` generators ⇒ `HasRank (2n) rowsH (n − k)`): the matrices
that `stabilizer_matrix`, `logicals_x`, `logicals_z` of the generic code model (`Model/Code.lean`,
C02) assemble from this lattice model form a valid `[[n, k]]` stabilizer code (`ValidCodeL`: all
four clauses of C01, rank included) for EVERY size of the family.

The family of the rank clause is the whole list `(lattice Lx Ly).stabs`; the driver op `rankfamily` prints it
and the stream `lat-RotatedPlanar2DCode-rank-family` evaluates it on the IMPLEMENTATION's parity-check
matrix on every run (members `n − k`, all distinct stabilizer locations, GF(2) rank `n − k`).
-/
import PanqecVerif.Proofs.Lat2DRankBridge
import PanqecVerif.Proofs.LatRotatedPlanar2DCodeRank
import PanqecVerif.Proofs.LatRotatedPlanar2DCodeCount

namespace Panqec.C01RotatedPlanar2DCode
open Panqec.RotatedPlanar2DCode Panqec.Lat2D

/-- coordinates distinct and disjoint; every stabilizer and logical is a dict (distinct keys)
    supported on qubits with letters ≠ I; stabilizers are non-empty — every `Lx, Ly ≥ 1` -/
theorem wf (Lx Ly : Nat) (hx : 1 ≤ Lx) (hy : 1 ≤ Ly) : (lattice Lx Ly).WF :=
  wf_all hx hy

/-- all pairs of stabilizers commute, the logicals commute with every stabilizer,
    `opAntiCount (X_0, Z_0)` is odd — every `Lx, Ly ≥ 1` -/
theorem commPair (Lx Ly : Nat) (hx : 1 ≤ Lx) (hy : 1 ≤ Ly) : (lattice Lx Ly).CommPair :=
  commPair_all hx hy

/-- `n = Lx·Ly` (every size) -/
theorem n_formula (Lx Ly : Nat) : (lattice Lx Ly).toCodeData.n = Lx * Ly :=
  length_qubits Lx Ly

/-- `k = 1` (every size) -/
theorem k_value (Lx Ly : Nat) : (lattice Lx Ly).toCodeData.k = 1 := rfl

/-- rank clause, operator level: the generators at ALL stabilizer locations are independent —
    every non-empty duplicate-free sub-family `T` has a Pauli operator `d` on the qubits
    anticommuting with an odd number of members of `T` (so no non-trivial product of generators
    is trivial) — every `Lx, Ly ≥ 1` -/
theorem generators_independent (Lx Ly : Nat) (hx : 1 ≤ Lx) (hy : 1 ≤ Ly) :
    IndepGenerators (lattice Lx Ly) (lattice Lx Ly).stabs :=
  indep_all hx hy

/-- there are exactly `n − k = Lx·Ly − 1` generators (`Lx, Ly ≥ 1`): the count of the
    `(x + y) % 4` guard over the two nested loops -/
theorem generators_count (Lx Ly : Nat) (hx : 1 ≤ Lx) (hy : 1 ≤ Ly) :
    (lattice Lx Ly).stabs.length + (lattice Lx Ly).toCodeData.k = (lattice Lx Ly).toCodeData.n := by
  rw [n_formula, k_value]
  exact length_stabs hx hy

/-- THE C01 STATEMENT FOR ALL SIZES (`Lx, Ly ≥ 1`): `stabilizer_matrix`, `logicals_x`, `logicals_z` of
    the generic code model, applied to this lattice model, return (no `KeyError`) matrices that
    form a valid `[[n, k]]` stabilizer code: generators pairwise commute, logicals commute with
    the generators, `ω(X_i, Z_j) = δ_ij`, `ω(X_i, X_j) = ω(Z_i, Z_j) = 0`, and the generators
    have GF(2) rank `n − k` -/
theorem valid_code (Lx Ly : Nat) (hx : 1 ≤ Lx) (hy : 1 ≤ Ly) :
    stabilizerMatrix (lattice Lx Ly).toCodeData = some (lattice Lx Ly).rowsH ∧
    logicalsX (lattice Lx Ly).toCodeData = some (lattice Lx Ly).rowsX ∧
    logicalsZ (lattice Lx Ly).toCodeData = some (lattice Lx Ly).rowsZ ∧
    ValidCodeL (Lx * Ly) 1
      (lattice Lx Ly).rowsH (lattice Lx Ly).rowsX (lattice Lx Ly).rowsZ := by
  have h := validCode_of_lattice (lattice Lx Ly) (wf Lx Ly hx hy) (commPair Lx Ly hx hy)
    (lattice Lx Ly).stabs (List.Sublist.refl _) (generators_independent Lx Ly hx hy) (generators_count Lx Ly hx hy)
  rw [n_formula, k_value] at h
  exact h

/-- `is_qubit` in closed form -/
theorem isQubit_rule (Lx Ly : Nat) (x y : Int) :
    isQubit Lx Ly [x, y] = true ↔
      (x % 2 = 1 ∧ y % 2 = 1 ∧ 1 ≤ x ∧ x < 2 * (Lx : Int) + 1 ∧ 1 ≤ y ∧ y < 2 * (Ly : Int) + 1) :=
  isQubit_iff

/-- `is_stabilizer` in closed form: vertices `(x + y) % 4 = 2` on the columns `2 … 2Lx−2`
    (rows `0 … 2Ly`), faces `(x + y) % 4 = 0` on the rows `2 … 2Ly−2` (columns `0 … 2Lx`) -/
theorem isStabilizer_rule (Lx Ly : Nat) (x y : Int) :
    [x, y] ∈ (lattice Lx Ly).stabs ↔
      (x % 2 = 0 ∧ y % 2 = 0 ∧ 2 ≤ x ∧ x < 2 * (Lx : Int) ∧ 0 ≤ y ∧ y < 2 * (Ly : Int) + 1 ∧
        (x + y) % 4 = 2) ∨
      (x % 2 = 0 ∧ y % 2 = 0 ∧ 0 ≤ x ∧ x < 2 * (Lx : Int) + 1 ∧ 2 ≤ y ∧ y < 2 * (Ly : Int) ∧
        (x + y) % 4 = 0) :=
  mem_stabs'

/-- every stabilizer is the dict of those of its four diagonal neighbours (delta order) that are
    qubits (weight 2 on the boundary), letter `Z` on vertices and `X` on faces -/
theorem stabilizer_closed_form (Lx Ly : Nat) (x y : Int) (h : [x, y] ∈ (lattice Lx Ly).stabs) :
    (lattice Lx Ly).getStab [x, y] =
      ([[x - 1, y - 1], [x - 1, y + 1], [x + 1, y - 1], [x + 1, y + 1]].filter
        (isQubit Lx Ly)).map (fun q => (q, if (x + y) % 4 = 2 then Pauli.Z else Pauli.X)) :=
  getStab_eq h

/-- `qubit_axis` on the qubits of the lattice: a closed-form test on `(x + y) % 4` -/
theorem qubitAxis_rule (Lx Ly : Nat) (q : Coord) (h : q ∈ (lattice Lx Ly).qubits) :
    ∃ x y, q = [x, y] ∧
      (((x + y) % 4 = 2 ∧ qubitAxis q = some "x") ∨
       ((x + y) % 4 = 0 ∧ qubitAxis q = some "y")) :=
  qubitAxis_of_mem h

/-- 'XZZX': X↔Z exactly on the qubits whose axis is the deformation axis, identity elsewhere;
    `ValueError` (none) where `qubit_axis` raises -/
theorem deformation_rule_XZZX (axis : String) (loc : Coord) (hax : axis = "x" ∨ axis = "y") :
    getDeformation "XZZX" (some axis) loc =
      (qubitAxis loc).map (fun a => if a = axis then PauliMap.swapXZ else PauliMap.id) :=
  deformBy_XZZX _ _ _ hax

/-- 'XY': Y↔Z at every location -/
theorem deformation_rule_XY (axis : String) (loc : Coord) (hax : axis = "x" ∨ axis = "y") :
    getDeformation "XY" (some axis) loc = some PauliMap.swapYZ :=
  deformBy_XY _ _ _ hax

/-- a call that does not pass `deformation_axis` (the signature default `'y'`: `deform(name)` of
    the visualizer backend and of simulation inputs without `deformation_kwargs`) deforms along y -/
theorem deformation_default_axis (name : String) (loc : Coord) :
    getDeformation name none loc = getDeformation name (some "y") loc := rfl

/-- any other axis: ValueError -/
theorem deformation_rule_bad_axis (name axis : String) (loc : Coord)
    (hx : axis ≠ "x") (hy : axis ≠ "y") : getDeformation name (some axis) loc = none :=
  deformBy_bad_axis _ _ _ _ hx hy

/-- any other name: ValueError -/
theorem deformation_rule_bad_name (name : String) (axis : Option String) (loc : Coord)
    (h1 : name ≠ "XZZX") (h2 : name ≠ "XY") : getDeformation name axis loc = none :=
  deformBy_bad_name _ _ _ _ h1 h2

/-- on every qubit of every lattice, 'XZZX' along a valid axis is defined and is one of the two
    maps -/
theorem deformation_rule_on_qubits (Lx Ly : Nat) (axis : String) (q : Coord)
    (hax : axis = "x" ∨ axis = "y") (h : q ∈ (lattice Lx Ly).qubits) :
    getDeformation "XZZX" (some axis) q =
      some (if qubitAxis q = some axis then PauliMap.swapXZ else PauliMap.id) := by
  rw [deformation_rule_XZZX axis q hax]
  obtain ⟨x, y, rfl, h' | h'⟩ := qubitAxis_of_mem h <;> rw [h'.2] <;> simp

/-! ### non-vacuity -/

example : (lattice 1 1).WF := wf 1 1 (by decide) (by decide)
example : (lattice 5 4).CommPair := commPair 5 4 (by decide) (by decide)
example : (lattice 3 2).getStab [2, 0] = [([1, 1], .Z), ([3, 1], .Z)] := by decide
example : (lattice 3 2).getStab [4, 2] =
    [([3, 1], .Z), ([3, 3], .Z), ([5, 1], .Z), ([5, 3], .Z)] := by decide
example : (lattice 3 2).getStab [2, 2] =
    [([1, 1], .X), ([1, 3], .X), ([3, 1], .X), ([3, 3], .X)] := by decide
example : (lattice 3 2).getStab [6, 2] = [([5, 1], .X), ([5, 3], .X)] := by decide
example : (lattice 3 2).toCodeData.n = 6 := by decide
example : getDeformation "XZZX" (some "x") [1, 1] = some PauliMap.swapXZ := by decide
example : getDeformation "XZZX" (some "x") [1, 3] = some PauliMap.id := by decide
/-- keyword omitted: the default axis `y` -/
example : getDeformation "XZZX" none [1, 3] = getDeformation "XZZX" (some "y") [1, 3] := rfl
example : getDeformation "XY" none [1, 3] = some PauliMap.swapYZ := by decide
example : getDeformation "XZZX" none [1, 3] ≠ getDeformation "XZZX" (some "x") [1, 3] := by decide
example : IndepGenerators (lattice 3 2) (lattice 3 2).stabs :=
  generators_independent 3 2 (by decide) (by decide)
example : (lattice 3 2).stabs.length = 5 := by decide
example : ValidCodeL 6 1 (lattice 3 2).rowsH (lattice 3 2).rowsX
    (lattice 3 2).rowsZ := (valid_code 3 2 (by decide) (by decide)).2.2.2

end Panqec.C01RotatedPlanar2DCode
