/-
C17 for `Toric2DCode`, ALL sizes of the supported family (`Lx ≥ 2`, `Ly ≥ 2`, no upper bound):
the distance `code.d` reports is the true code distance, `min Lx Ly`.

The matrices are the ones the generic code model assembles from the hand-written lattice model
`Model/Lattices/Toric2DCode.lean` (tied to `panqec/codes/surface_2d/_toric_2d_code.py` by the
correspondence streams of `harness/lattices/toric2dcode.py`); they form a valid `[[2·Lx·Ly, 2]]`
code for every size (`C01Toric2DCode.valid_code`).

* `reported_distance` — `code.d` (`distance`, the minimum Pauli weight over the rows of
  `logicals_x` and `logicals_z`, as `StabilizerCode.d` computes it) is `min Lx Ly`; the four
  listed logicals have weights `Lx, Ly` (X) and `Ly, Lx` (Z) (`weights_listed`).
* `lower_bound` — every non-trivial logical operator has weight `≥ min Lx Ly`.  Packing argument
  (`Proofs/DistLattice.lean`, `Proofs/DistToric2DCode*.lean`): a non-trivial logical anticommutes
  with one of the four listed lines (C04); that line of `Ly` (resp. `Lx`) qubits has `Lx` (resp.
  `Ly`) lattice translates with pairwise disjoint supports; consecutive translates differ by the
  product of the column / row of vertex (Z lines) or face (X lines) generators between them, so
  every operator commuting with all generators anticommutes with each translate exactly when it
  anticommutes with the line — its support meets every translate.
* `distance` — `IsDistance (2·Lx·Ly) H (min Lx Ly)`: some non-trivial logical operator has weight
  `min Lx Ly` and none is lighter; `distance_reported` states it for the reported `d`.
-/
import PanqecVerif.Properties.C01Toric2DCode
import PanqecVerif.Proofs.DistToric2DCodeB
import PanqecVerif.Proofs.Dist

namespace Panqec.C17Toric2DCode
open Panqec.Toric2DCode Panqec.Lat2D

/-- the rows of `logicals_x` have Pauli weights `[Lx, Ly]`, those of `logicals_z` `[Ly, Lx]` —
    every `Lx, Ly ≥ 2` -/
theorem weights_listed (Lx Ly : Nat) (hx : 2 ≤ Lx) (hy : 2 ≤ Ly) :
    (lattice Lx Ly).rowsX.map pauliWeight = [Lx, Ly] ∧
    (lattice Lx Ly).rowsZ.map pauliWeight = [Ly, Lx] :=
  Toric2DCode.weights_listed hx hy

/-- what `code.d` returns — the minimum weight over the listed logical operators — is
    `min Lx Ly`, every `Lx, Ly ≥ 2` -/
theorem reported_distance (Lx Ly : Nat) (hx : 2 ≤ Lx) (hy : 2 ≤ Ly) :
    Panqec.distance (lattice Lx Ly).rowsX (lattice Lx Ly).rowsZ = some (min Lx Ly) :=
  Toric2DCode.reported_distance hx hy

/-- no non-trivial logical operator (commutes with every generator, is not a product of
    generators) of the `Lx × Ly` toric code is lighter than `min Lx Ly` — every `Lx, Ly ≥ 2` -/
theorem lower_bound (Lx Ly : Nat) (hx : 2 ≤ Lx) (hy : 2 ≤ Ly) :
    ∀ v, IsNontrivialLogical (2 * Lx * Ly) (lattice Lx Ly).rowsH v → min Lx Ly ≤ pauliWeight v :=
  Toric2DCode.lower_bound hx hy (C01Toric2DCode.valid_code Lx Ly hx hy).2.2.2

/-- THE C17 STATEMENT FOR ALL SIZES (`Lx, Ly ≥ 2`): the code distance of the `Lx × Ly` toric
    code — the minimum weight of a non-trivial logical operator of the assembled parity-check
    matrix — is `min Lx Ly` -/
theorem distance (Lx Ly : Nat) (hx : 2 ≤ Lx) (hy : 2 ≤ Ly) :
    IsDistance (2 * Lx * Ly) (lattice Lx Ly).rowsH (min Lx Ly) :=
  distance_criterion (C01Toric2DCode.valid_code Lx Ly hx hy).2.2.2 (min Lx Ly)
    (exists_listed_of_distance _ _ _ (reported_distance Lx Ly hx hy)) (lower_bound Lx Ly hx hy)

/-- the same, stated for whatever `code.d` reports: the reported distance exists and is the
    true distance -/
theorem distance_reported (Lx Ly : Nat) (hx : 2 ≤ Lx) (hy : 2 ≤ Ly) :
    ∃ d, Panqec.distance (lattice Lx Ly).rowsX (lattice Lx Ly).rowsZ = some d ∧
      IsDistance (2 * Lx * Ly) (lattice Lx Ly).rowsH d :=
  ⟨min Lx Ly, reported_distance Lx Ly hx hy, distance Lx Ly hx hy⟩

/-! ### non-vacuity -/

example : IsDistance 24 (lattice 3 4).rowsH 3 := distance 3 4 (by decide) (by decide)
example : IsDistance 140 (lattice 10 7).rowsH 7 := distance 10 7 (by decide) (by decide)
/-- the hypothesis of `lower_bound` is satisfiable: the first listed logical X is a non-trivial
    logical operator, of weight `Lx` -/
example : IsNontrivialLogical 12 (lattice 2 3).rowsH ((lattice 2 3).rowsX.getD 0 []) :=
  listedX_nontrivial (C01Toric2DCode.valid_code 2 3 (by decide) (by decide)).2.2.2 (by decide)
example : (lattice 2 3).rowsX.map pauliWeight = [2, 3] :=
  (weights_listed 2 3 (by decide) (by decide)).1
/-- outside the family (`Lx = 1`) the model reports `d = 1` -/
example : Panqec.distance (lattice 1 2).rowsX (lattice 1 2).rowsZ = some 1 := by decide

end Panqec.C17Toric2DCode
