/-
C17 for `Toric2DCode`, ALL sizes of the supported family (`Lx ≥ 2`, `Ly ≥ 2`, no upper bound):
the distance `code.d` reports is the true code distance, `min Lx Ly`.

The matrices are the ones the generic code model assembles from the hand-written lattice model
`Model/Lattices/Toric2DCode.lean` (tied to `panqec/codes/surface_2d/_toric_2d_code.py` by the
correspondence streams of `harness/lattices/toric2dcode.py`); they form a valid `[[2·Lx·Ly, 2]]`
code for every size (`C01Toric2DCode.valid_code`).

* `reported_distance` — `code.d` (`distance`, the minimum Pauli weight over the rows of
  `logicals_x` and `logicals_z`, as `StabilizerCode.d` computes it) is `min Lx Ly`; the four
  listed logicals have weights `Lx, Ly` (X) and `Ly, Lx` (Z) (`weights_listed`).
* `lower_bound` — every non-trivial logical operator has weight `≥ min Lx Ly`.  Packing argument
  (`Proofs/DistLattice.lean`, `Proofs/DistToric2DCode*.lean`): a non-trivial logical anticommutes
  with one of the four listed lines (C04); that line of `Ly` (resp. `Lx`) qubits has `Lx` (resp.
  `Ly`) lattice translates with pairwise disjoint supports; consecutive translates differ by the
  product of the column / row of vertex (Z lines) or face (X lines) generators between them, so
  every operator commuting with all generators anticommutes with each translate exactly when it
  anticommutes with the line — its support meets every translate.
* `distance` — `IsDistance (2·Lx·Ly) H (min Lx Ly)`: some non-trivial logical operator has weight
  `min Lx Ly` and none is lighter; `distance_reported` states it for the reported `d`.
* `distance_deformed`, `distance_deformed_offered` — the same for EVERY DEFORMED code of the
  class (every name and axis `get_deformation` accepts: 'XZZX' / 'XY' along 'x' / 'y'), every
  size: the deformed getters assemble the relabelled rows, these form a valid code, `code.d`
  is `min Lx Ly` and that is the true distance (`C17.distance_deformation_invariant`: a
  per-qubit permutation of {X, Y, Z} preserves weight, commutation and span).
-/
import PanqecVerif.Properties.C01Toric2DCode
import PanqecVerif.Proofs.DistToric2DCodeB
import PanqecVerif.Proofs.Dist
import PanqecVerif.Proofs.DistDeform

namespace Panqec.C17Toric2DCode
open Panqec.Toric2DCode Panqec.Lat2D

/-- the rows of `logicals_x` have Pauli weights `[Lx, Ly]`, those of `logicals_z` `[Ly, Lx]` —
    every `Lx, Ly ≥ 2` -/
theorem weights_listed (Lx Ly : Nat) (hx : 2 ≤ Lx) (hy : 2 ≤ Ly) :
    (lattice Lx Ly).rowsX.map pauliWeight = [Lx, Ly] ∧
    (lattice Lx Ly).rowsZ.map pauliWeight = [Ly, Lx] :=
  Toric2DCode.weights_listed hx hy

/-- what `code.d` returns — the minimum weight over the listed logical operators — is
    `min Lx Ly`, every `Lx, Ly ≥ 2` -/
theorem reported_distance (Lx Ly : Nat) (hx : 2 ≤ Lx) (hy : 2 ≤ Ly) :
    Panqec.distance (lattice Lx Ly).rowsX (lattice Lx Ly).rowsZ = some (min Lx Ly) :=
  Toric2DCode.reported_distance hx hy

/-- no non-trivial logical operator (commutes with every generator, is not a product of
    generators) of the `Lx × Ly` toric code is lighter than `min Lx Ly` — every `Lx, Ly ≥ 2` -/
theorem lower_bound (Lx Ly : Nat) (hx : 2 ≤ Lx) (hy : 2 ≤ Ly) :
    ∀ v, IsNontrivialLogical (2 * Lx * Ly) (lattice Lx Ly).rowsH v → min Lx Ly ≤ pauliWeight v :=
  Toric2DCode.lower_bound hx hy (C01Toric2DCode.valid_code Lx Ly hx hy).2.2.2

/-- THE C17 STATEMENT FOR ALL SIZES (`Lx, Ly ≥ 2`): the code distance of the `Lx × Ly` toric
    code — the minimum weight of a non-trivial logical operator of the assembled parity-check
    matrix — is `min Lx Ly` -/
theorem distance (Lx Ly : Nat) (hx : 2 ≤ Lx) (hy : 2 ≤ Ly) :
    IsDistance (2 * Lx * Ly) (lattice Lx Ly).rowsH (min Lx Ly) :=
  distance_criterion (C01Toric2DCode.valid_code Lx Ly hx hy).2.2.2 (min Lx Ly)
    (exists_listed_of_distance _ _ _ (reported_distance Lx Ly hx hy)) (lower_bound Lx Ly hx hy)

/-- the same, stated for whatever `code.d` reports: the reported distance exists and is the
    true distance -/
theorem distance_reported (Lx Ly : Nat) (hx : 2 ≤ Lx) (hy : 2 ≤ Ly) :
    ∃ d, Panqec.distance (lattice Lx Ly).rowsX (lattice Lx Ly).rowsZ = some d ∧
      IsDistance (2 * Lx * Ly) (lattice Lx Ly).rowsH d :=
  ⟨min Lx Ly, reported_distance Lx Ly hx hy, distance Lx Ly hx hy⟩

/-! ### deformed codes (`code.deform(name, deformation_axis=axis)`) -/

/-- the class offers the deformations 'XZZX' and 'XY' along the axes 'x' and 'y' (`none` = keyword
    omitted = the default 'y', `C01Toric2DCode.deformation_default_axis`): for these
    `get_deformation` is defined on every qubit of every lattice (for any other name or axis it
    raises, `C01Toric2DCode.deformation_rule_bad_name` / `_bad_axis`) -/
theorem deformation_defined (Lx Ly : Nat) (name : String) (axis : Option String)
    (hn : name = "XZZX" ∨ name = "XY") (ha : axis = none ∨ axis = some "x" ∨ axis = some "y")
    (q : Coord) (hq : q ∈ (lattice Lx Ly).qubits) : ∃ m, getDeformation name axis q = some m := by
  have key : ∀ a : String, a = "x" ∨ a = "y" → ∃ m, getDeformation name (some a) q = some m := by
    intro a ha'
    rcases hn with rfl | rfl
    · exact ⟨_, C01Toric2DCode.deformation_rule_on_qubits Lx Ly a q ha' hq⟩
    · exact ⟨_, C01Toric2DCode.deformation_rule_XY a q ha'⟩
  rcases ha with rfl | rfl | rfl
  · rw [C01Toric2DCode.deformation_default_axis]; exact key "y" (Or.inr rfl)
  · exact key "x" (Or.inl rfl)
  · exact key "y" (Or.inr rfl)

/-- THE C17 STATEMENT FOR EVERY DEFORMED CODE OF THE CLASS, ALL SIZES (`Lx, Ly ≥ 2`): for every
    deformation name and axis for which `get_deformation` is defined on the qubits (`D q` = the
    relabelling it returns on `q`), the matrices the deformed getters assemble are the
    relabelled rows, they form a valid `[[n, 2]]` code, `code.d` reports `min Lx Ly`, and
    `min Lx Ly` is the true distance of the deformed code -/
theorem distance_deformed (Lx Ly : Nat) (hx : 2 ≤ Lx) (hy : 2 ≤ Ly) (name : String)
    (axis : Option String) (D : Coord → PauliMap)
    (hD : ∀ q ∈ (lattice Lx Ly).qubits, getDeformation name axis q = some (D q)) :
    stabilizerMatrix ((lattice Lx Ly).toCodeData.deform D) =
        some ((lattice Lx Ly).rowsH.map (deformBsf ((lattice Lx Ly).qubits.map D))) ∧
    logicalsX ((lattice Lx Ly).toCodeData.deform D) =
        some ((lattice Lx Ly).rowsX.map (deformBsf ((lattice Lx Ly).qubits.map D))) ∧
    logicalsZ ((lattice Lx Ly).toCodeData.deform D) =
        some ((lattice Lx Ly).rowsZ.map (deformBsf ((lattice Lx Ly).qubits.map D))) ∧
    ValidCodeL (2 * Lx * Ly) 2
      ((lattice Lx Ly).rowsH.map (deformBsf ((lattice Lx Ly).qubits.map D)))
      ((lattice Lx Ly).rowsX.map (deformBsf ((lattice Lx Ly).qubits.map D)))
      ((lattice Lx Ly).rowsZ.map (deformBsf ((lattice Lx Ly).qubits.map D))) ∧
    Panqec.distance ((lattice Lx Ly).rowsX.map (deformBsf ((lattice Lx Ly).qubits.map D)))
      ((lattice Lx Ly).rowsZ.map (deformBsf ((lattice Lx Ly).qubits.map D))) =
        some (min Lx Ly) ∧
    IsDistance (2 * Lx * Ly)
      ((lattice Lx Ly).rowsH.map (deformBsf ((lattice Lx Ly).qubits.map D))) (min Lx Ly) :=
  Lattice.deformed_distance (lattice Lx Ly) (C01Toric2DCode.wf Lx Ly hx hy)
    (C01Toric2DCode.n_formula Lx Ly) (C01Toric2DCode.valid_code Lx Ly hx hy).2.2.2
    (reported_distance Lx Ly hx hy) (distance Lx Ly hx hy) D
    (fun q hq => Lat2D.deformBy_isPerm (hD q hq))

/-- the relabelling `get_deformation(·, name, axis)` as a function of the location (identity
    where it raises — nowhere on the qubits for the offered names and axes) -/
def deformationOf (name : String) (axis : Option String) (q : Coord) : PauliMap :=
  (getDeformation name axis q).getD PauliMap.id

/-- the deformed code of every offered name and axis has distance `min Lx Ly` — every size -/
theorem distance_deformed_offered (Lx Ly : Nat) (hx : 2 ≤ Lx) (hy : 2 ≤ Ly)
    (name : String) (axis : Option String) (hn : name = "XZZX" ∨ name = "XY")
    (ha : axis = none ∨ axis = some "x" ∨ axis = some "y") :
    IsDistance (2 * Lx * Ly)
      ((lattice Lx Ly).rowsH.map
        (deformBsf ((lattice Lx Ly).qubits.map (deformationOf name axis)))) (min Lx Ly) :=
  (distance_deformed Lx Ly hx hy name axis (deformationOf name axis) (fun q hq => by
    obtain ⟨m, hm⟩ := deformation_defined Lx Ly name axis hn ha q hq
    unfold deformationOf
    rw [hm]; rfl)).2.2.2.2.2

/-! ### non-vacuity -/

example : IsDistance 24 (lattice 3 4).rowsH 3 := distance 3 4 (by decide) (by decide)
example : IsDistance 140 (lattice 10 7).rowsH 7 := distance 10 7 (by decide) (by decide)
/-- the hypothesis of `lower_bound` is satisfiable: the first listed logical X is a non-trivial
    logical operator, of weight `Lx` -/
example : IsNontrivialLogical 12 (lattice 2 3).rowsH ((lattice 2 3).rowsX.getD 0 []) :=
  listedX_nontrivial (C01Toric2DCode.valid_code 2 3 (by decide) (by decide)).2.2.2 (by decide)
example : (lattice 2 3).rowsX.map pauliWeight = [2, 3] :=
  (weights_listed 2 3 (by decide) (by decide)).1
/-- outside the family (`Lx = 1`) the model reports `d = 1` -/
example : Panqec.distance (lattice 1 2).rowsX (lattice 1 2).rowsZ = some 1 := by decide

/-- the XZZX code on the `3 × 4` lattice has distance 3; its first generator is relabelled -/
example : IsDistance 24 ((lattice 3 4).rowsH.map
    (deformBsf ((lattice 3 4).qubits.map (deformationOf "XZZX" (some "x"))))) 3 :=
  distance_deformed_offered 3 4 (by decide) (by decide) "XZZX" (some "x") (Or.inl rfl) (Or.inr (Or.inl rfl))
example : ((lattice 2 2).rowsH.map
    (deformBsf ((lattice 2 2).qubits.map (deformationOf "XZZX" (some "x"))))) ≠ (lattice 2 2).rowsH := by
  decide

end Panqec.C17Toric2DCode
