/-
C17 for `HollowPlanar3DCode`, ALL sizes of the supported family (`Lx, Ly, Lz ≥ 1`, no upper bound):
the TRUE code distance for every size, what `code.d` reports for every size, and exactly when the
two agree.

The matrices are the ones the generic code model assembles from the hand-written lattice model
`Model/Lattices/HollowPlanar3DCode.lean` (tied to `panqec/codes/surface_3d/_hollow_planar_3d_code.py`
by the correspondence streams of `harness/lattices/hollowplanar3dcode.py`); they form a valid
`[[n, 1]]` code for every size (`C01HollowPlanar3DCode.valid_code`).

* `reported_distance` — `code.d` (the minimum Pauli weight over the rows of `logicals_x` and
  `logicals_z`, as `StabilizerCode.d` computes it) is `min Lx (Ly·Lz)`: the listed logical X is a
  line of `Lx` x-edges, the listed logical Z the FULL plane `x = 1` of `Ly·Lz` x-edges
  (`weights_listed`) — the hole never reaches `x = 1`.
* `distance` — the true distance is `min Lx (wZ Lx Ly Lz)` where `wZ` is the number of x-edges left
  in a cross-section through the hole: `wZ = Ly·Lz − (Ly − 2)(Lz − 2)` (truncated subtractions) when
  `Lx ≥ 3`, `Ly·Lz` otherwise (`wZ_hole`: `2·Ly + 2·Lz − 4` when the hole is there).  Lower bound
  (`lower_bound`): packing — the X line has one translate per x line that misses the hole (moved
  through rows of face generators that miss the hole: along `z` when `y` is outside the y-range of
  the hole, along `y` when `z` is outside its z-range), the Z plane has the `Lx` translates "existing
  x-edges of the cross-section `x = 2i + 1`" (a vertex location in the hole has no generator, but
  then none of its neighbours is a qubit).  Upper bound: the listed X line, or — `light_membrane` —
  the cross-section `x = 3`, which IS a non-trivial logical operator (same parities as the listed
  plane against everything commuting with the generators) of weight `wZ`.
* `distance_reported` — `code.d` is the true distance whenever `Lx ≤ 2` or `Ly ≤ 2` or `Lz ≤ 2` or
  `Lx ≤ 2·Ly + 2·Lz − 4`.
* `reported_distance_wrong` — **FINDING**: for `Ly, Lz ≥ 3` and `Lx > 2·Ly + 2·Lz − 4` (from
  `HollowPlanar3DCode(9, 3, 3)` on) `code.d = min Lx (Ly·Lz)` is NOT the code distance: the true
  distance is `2·Ly + 2·Lz − 4`, smaller.  Observed on the real class:
  `HollowPlanar3DCode(9, 3, 3)`: `n = 146`, `k = 1`, `code.d == 9`; the operator Z on the 8 qubits
  `(3, y, z)`, `(y, z) ∈ {0, 2, 4}² \ {(2, 2)}`, commutes with all 154 generators (`in_codespace` True, `is_logical_error` True) and anticommutes with
  the listed logical X.  (The listed logical Z is the end plane `x = 1`; the lightest membrane lives
  in the tube.)
* the class offers no deformation (`C01HollowPlanar3DCode.deformation_rule`: `get_deformation`
  never returns a map, `deformation_names = []`), so there is no deformed code to cover.
-/
import PanqecVerif.Properties.C01HollowPlanar3DCode
import PanqecVerif.Proofs.DistHollowPlanar3DCodeC

namespace Panqec.C17HollowPlanar3DCode
open Panqec.Cubic3D Panqec.HollowPlanar3DCode

/-- the number of qubits (truncated subtractions; `C01HollowPlanar3DCode.n_formula`) -/
abbrev nq (Lx Ly Lz : Nat) : Nat :=
  Lx * Ly * Lz + (Lx - 1) * (Ly - 1) * Lz + (Lx - 1) * Ly * (Lz - 1) -
    ((Lx - 2) * (Ly - 2) * (Lz - 2) + (Lx - 3) * (Ly - 1) * (Lz - 2) +
      (Lx - 3) * (Ly - 2) * (Lz - 1))

theorem qubits_length (Lx Ly Lz : Nat) : (qubits Lx Ly Lz).length = nq Lx Ly Lz := by
  have h := C01HollowPlanar3DCode.n_formula Lx Ly Lz
  simp only [Lattice.toCodeData, CodeData.n, lattice_qubits] at h
  exact h

/-- the row of `logicals_x` has Pauli weight `Lx` (a line), the row of `logicals_z` weight `Ly·Lz`
    (the full plane `x = 1`) — every `Lx, Ly, Lz ≥ 1` -/
theorem weights_listed (Lx Ly Lz : Nat) (hLx : 1 ≤ Lx) (hLy : 1 ≤ Ly) (hLz : 1 ≤ Lz) :
    (lattice Lx Ly Lz).rowsX.map pauliWeight = [Lx] ∧
    (lattice Lx Ly Lz).rowsZ.map pauliWeight = [Ly * Lz] :=
  HollowPlanar3DCode.weights_listed (C01HollowPlanar3DCode.wf Lx Ly Lz hLx hLy hLz)

/-- what `code.d` returns — the minimum weight over the listed logical operators — is
    `min Lx (Ly·Lz)`, every `Lx, Ly, Lz ≥ 1` -/
theorem reported_distance (Lx Ly Lz : Nat) (hLx : 1 ≤ Lx) (hLy : 1 ≤ Ly) (hLz : 1 ≤ Lz) :
    Panqec.distance (lattice Lx Ly Lz).rowsX (lattice Lx Ly Lz).rowsZ =
      some (min Lx (Ly * Lz)) :=
  HollowPlanar3DCode.reported_distance (C01HollowPlanar3DCode.wf Lx Ly Lz hLx hLy hLz)

/-- the weight of the lightest membrane when the hole is there: `2·Ly + 2·Lz − 4` -/
theorem wZ_hole (Lx Ly Lz : Nat) (hLx : 3 ≤ Lx) (hLy : 2 ≤ Ly) (hLz : 2 ≤ Lz) :
    wZ Lx Ly Lz = 2 * Ly + 2 * Lz - 4 := by
  unfold wZ
  rw [if_pos hLx]
  obtain ⟨a, rfl⟩ : ∃ a, Ly = a + 2 := ⟨Ly - 2, by omega⟩
  obtain ⟨b, rfl⟩ : ∃ b, Lz = b + 2 := ⟨Lz - 2, by omega⟩
  simp only [Nat.add_sub_cancel]
  have : (a + 2) * (b + 2) = a * b + (2 * (a + 2) + 2 * (b + 2) - 4) := by
    rw [Nat.add_mul, Nat.mul_add, Nat.mul_add]; omega
  rw [this, Nat.add_sub_cancel_left]

/-- … and the full plane `Ly·Lz` when the hole removes no x-edge -/
theorem wZ_nohole (Lx Ly Lz : Nat) (h : Lx ≤ 2 ∨ Ly ≤ 2 ∨ Lz ≤ 2) : wZ Lx Ly Lz = Ly * Lz := by
  unfold wZ
  split
  · rcases h with h | h | h
    · omega
    · have : Ly - 2 = 0 := by omega
      rw [this, Nat.zero_mul]; rfl
    · have : Lz - 2 = 0 := by omega
      rw [this, Nat.mul_zero]; rfl
  · rfl

/-- no non-trivial logical operator (commutes with every generator, is not a product of
    generators) of the `Lx × Ly × Lz` hollow planar code is lighter than `min Lx (wZ Lx Ly Lz)` —
    every `Lx, Ly, Lz ≥ 1` -/
theorem lower_bound (Lx Ly Lz : Nat) (hLx : 1 ≤ Lx) (hLy : 1 ≤ Ly) (hLz : 1 ≤ Lz) :
    ∀ v, IsNontrivialLogical (nq Lx Ly Lz) (lattice Lx Ly Lz).rowsH v →
      min Lx (wZ Lx Ly Lz) ≤ pauliWeight v :=
  HollowPlanar3DCode.lower_bound (C01HollowPlanar3DCode.wf Lx Ly Lz hLx hLy hLz)
    (qubits_length Lx Ly Lz) (C01HollowPlanar3DCode.valid_code Lx Ly Lz hLx hLy hLz).2.2.2

/-- for `Lx ≥ 3` the Z operator on the existing x-edges of the cross-section `x = 3` is a
    non-trivial logical operator of weight `wZ Lx Ly Lz` — lighter than the listed logical Z as soon
    as `Ly, Lz ≥ 3` -/
theorem light_membrane (Lx Ly Lz : Nat) (hLx : 3 ≤ Lx) (hLy : 1 ≤ Ly) (hLz : 1 ≤ Lz) :
    IsNontrivialLogical (nq Lx Ly Lz) (lattice Lx Ly Lz).rowsH
      (opRow (lattice Lx Ly Lz).qubits (uop (crossX Lx Ly Lz 1) Pauli.Z)) ∧
    pauliWeight (opRow (lattice Lx Ly Lz).qubits (uop (crossX Lx Ly Lz 1) Pauli.Z)) =
      wZ Lx Ly Lz := by
  have hwf := C01HollowPlanar3DCode.wf Lx Ly Lz (by omega) hLy hLz
  refine ⟨cross_nontrivial hwf (C01HollowPlanar3DCode.commPair Lx Ly Lz (by omega) hLy hLz)
    (qubits_length Lx Ly Lz) (C01HollowPlanar3DCode.valid_code Lx Ly Lz (by omega) hLy hLz).2.2.2
    (by omega), ?_⟩
  rw [cross_weight hwf (by omega), length_crossX_one]

/-- THE TRUE DISTANCE FOR ALL SIZES (`Lx, Ly, Lz ≥ 1`): the code distance of the `Lx × Ly × Lz`
    hollow planar code — the minimum weight of a non-trivial logical operator of the assembled
    parity-check matrix — is `min Lx (wZ Lx Ly Lz)` -/
theorem distance (Lx Ly Lz : Nat) (hLx : 1 ≤ Lx) (hLy : 1 ≤ Ly) (hLz : 1 ≤ Lz) :
    IsDistance (nq Lx Ly Lz) (lattice Lx Ly Lz).rowsH (min Lx (wZ Lx Ly Lz)) :=
  true_distance (C01HollowPlanar3DCode.wf Lx Ly Lz hLx hLy hLz)
    (C01HollowPlanar3DCode.commPair Lx Ly Lz hLx hLy hLz) (qubits_length Lx Ly Lz)
    (C01HollowPlanar3DCode.valid_code Lx Ly Lz hLx hLy hLz).2.2.2

/-- THE C17 STATEMENT wherever it holds: if `Lx ≤ 2`, `Ly ≤ 2`, `Lz ≤ 2` or `Lx ≤ 2·Ly + 2·Lz − 4`,
    the reported distance exists and is the true distance -/
theorem distance_reported (Lx Ly Lz : Nat) (hLx : 1 ≤ Lx) (hLy : 1 ≤ Ly) (hLz : 1 ≤ Lz)
    (h : Lx ≤ 2 ∨ Ly ≤ 2 ∨ Lz ≤ 2 ∨ Lx ≤ 2 * Ly + 2 * Lz - 4) :
    ∃ d, Panqec.distance (lattice Lx Ly Lz).rowsX (lattice Lx Ly Lz).rowsZ = some d ∧
      IsDistance (nq Lx Ly Lz) (lattice Lx Ly Lz).rowsH d := by
  refine ⟨_, reported_distance Lx Ly Lz hLx hLy hLz, ?_⟩
  have hd := distance Lx Ly Lz hLx hLy hLz
  by_cases hno : Lx ≤ 2 ∨ Ly ≤ 2 ∨ Lz ≤ 2
  · rw [wZ_nohole Lx Ly Lz hno] at hd; exact hd
  · have h' : Lx ≤ 2 * Ly + 2 * Lz - 4 := by omega
    have hw := wZ_hole Lx Ly Lz (by omega) (by omega) (by omega)
    have hle : wZ Lx Ly Lz ≤ Ly * Lz := by unfold wZ; omega
    rw [Nat.min_eq_left (by omega)] at hd
    rw [Nat.min_eq_left (by omega)]
    exact hd

/-- **FINDING** (every `Ly, Lz ≥ 3`, `Lx > 2·Ly + 2·Lz − 4`; smallest size `9 × 3 × 3`): what
    `code.d` reports, `min Lx (Ly·Lz)`, is NOT the code distance — the true distance is
    `2·Ly + 2·Lz − 4`, strictly smaller (a membrane through the hole is lighter than the listed
    end plane) -/
theorem reported_distance_wrong (Lx Ly Lz : Nat) (hLy : 3 ≤ Ly) (hLz : 3 ≤ Lz)
    (hLx : 2 * Ly + 2 * Lz - 4 < Lx) :
    Panqec.distance (lattice Lx Ly Lz).rowsX (lattice Lx Ly Lz).rowsZ =
      some (min Lx (Ly * Lz)) ∧
    IsDistance (nq Lx Ly Lz) (lattice Lx Ly Lz).rowsH (2 * Ly + 2 * Lz - 4) ∧
    2 * Ly + 2 * Lz - 4 < min Lx (Ly * Lz) ∧
    ¬ IsDistance (nq Lx Ly Lz) (lattice Lx Ly Lz).rowsH (min Lx (Ly * Lz)) := by
  have hd := distance Lx Ly Lz (by omega) (by omega) (by omega)
  have hw := wZ_hole Lx Ly Lz (by omega) (by omega) (by omega)
  rw [hw, Nat.min_eq_right (by omega)] at hd
  have hlt : 2 * Ly + 2 * Lz - 4 < Ly * Lz := by
    obtain ⟨a, rfl⟩ : ∃ a, Ly = a + 3 := ⟨Ly - 3, by omega⟩
    obtain ⟨b, rfl⟩ : ∃ b, Lz = b + 3 := ⟨Lz - 3, by omega⟩
    have : (a + 3) * (b + 3) = a * b + 3 * a + 3 * b + 9 := by
      rw [Nat.add_mul, Nat.mul_add, Nat.mul_add]; omega
    rw [this]; omega
  have hlt' : 2 * Ly + 2 * Lz - 4 < min Lx (Ly * Lz) := by
    rw [Nat.lt_min]; exact ⟨hLx, hlt⟩
  refine ⟨reported_distance Lx Ly Lz (by omega) (by omega) (by omega), hd, hlt', ?_⟩
  intro hrep
  obtain ⟨v, hv, hwv⟩ := hd.1
  have := hrep.2 v hv
  omega

/-! ### non-vacuity -/

/-- no cavity: the planar code, distance `min Lx (Ly·Lz)` -/
example : IsDistance (nq 2 3 4) (lattice 2 3 4).rowsH 2 :=
  distance 2 3 4 (by decide) (by decide) (by decide)
/-- a cavity, reported and true distance agree: `4 × 3 × 3` has `d = 4` (`wZ = 8`) -/
example : ∃ d, Panqec.distance (lattice 4 3 3).rowsX (lattice 4 3 3).rowsZ = some d ∧
    IsDistance 66 (lattice 4 3 3).rowsH d :=
  distance_reported 4 3 3 (by decide) (by decide) (by decide) (by decide)
example : IsDistance 66 (lattice 4 3 3).rowsH 4 :=
  distance 4 3 3 (by decide) (by decide) (by decide)
/-- the smallest member of the family: one qubit, no generator, distance 1 -/
example : IsDistance 1 (lattice 1 1 1).rowsH 1 :=
  distance 1 1 1 (by decide) (by decide) (by decide)
/-- THE FINDING on its smallest instance: `HollowPlanar3DCode(9, 3, 3)` (`n = 146`) reports
    `d = 9`, the true distance is 8 -/
example : Panqec.distance (lattice 9 3 3).rowsX (lattice 9 3 3).rowsZ = some 9 ∧
    IsDistance 146 (lattice 9 3 3).rowsH 8 ∧ ¬ IsDistance 146 (lattice 9 3 3).rowsH 9 := by
  obtain ⟨h1, h2, _, h4⟩ := reported_distance_wrong 9 3 3 (by decide) (by decide) (by decide)
  exact ⟨h1, h2, h4⟩
/-- the light membrane of `9 × 3 × 3`: the 8 x-edges `(3, y, z)` around the hole -/
example : crossX 9 3 3 1 =
    [[3, 0, 0], [3, 0, 2], [3, 0, 4], [3, 2, 0], [3, 2, 4], [3, 4, 0], [3, 4, 2], [3, 4, 4]] := by
  decide +kernel
example : wZ 9 3 3 = 8 ∧ wZ 2 3 3 = 9 ∧ wZ 5 2 4 = 8 ∧ wZ 11 3 4 = 10 := by decide
/-- the hypothesis of `lower_bound` is satisfiable: the light membrane is a non-trivial logical -/
example : IsNontrivialLogical (nq 3 3 3) (lattice 3 3 3).rowsH
    (opRow (lattice 3 3 3).qubits (uop (crossX 3 3 3 1) Pauli.Z)) :=
  (light_membrane 3 3 3 (by decide) (by decide) (by decide)).1
example : (lattice 4 3 3).rowsX.map pauliWeight = [4] ∧
    (lattice 4 3 3).rowsZ.map pauliWeight = [9] :=
  weights_listed 4 3 3 (by decide) (by decide) (by decide)

end Panqec.C17HollowPlanar3DCode
