/-
C17 for `HollowPlanar3DCode`, ALL sizes of the supported family (`Lx, Ly, Lz ≥ 1`, no upper bound):
the true code distance for every size, what `code.d` reports for every size, and that the two agree
for every size — since the repair of `get_logicals_z` (below); the behaviour before the repair is
kept as regression theorems.

The matrices are the ones the generic code model assembles from the hand-written lattice model
`Model/Lattices/HollowPlanar3DCode.lean` (tied to `panqec/codes/surface_3d/_hollow_planar_3d_code.py`
by the correspondence streams of `harness/lattices/hollowplanar3dcode.py`); they form a valid
`[[n, 1]]` code for every size (`C01HollowPlanar3DCode.valid_code`).

* `reported_distance` — `code.d` (the minimum Pauli weight over the rows of `logicals_x` and
  `logicals_z`, as `StabilizerCode.d` computes it) is `min Lx (wZ Lx Ly Lz)`: the listed logical X
  is a line of `Lx` x-edges, the listed logical Z the existing x-edges of the cross-section `x = 3`
  when `Lx ≥ 3` (the membrane through the cavity), of the plane `x = 1` otherwise
  (`weights_listed`); `wZ` is the number of x-edges left in a cross-section through the hole:
  `wZ = Ly·Lz − (Ly − 2)(Lz − 2)` (truncated subtractions) when `Lx ≥ 3`, `Ly·Lz` otherwise
  (`wZ_hole`: `2·Ly + 2·Lz − 4` when the hole is there, `wZ_nohole`).
* `distance` — the true distance is `min Lx (wZ Lx Ly Lz)`.  Lower bound (`lower_bound`): packing —
  the X line has one translate per x line that misses the hole (moved through rows of face
  generators that miss the hole: along `z` when `y` is outside the y-range of the hole, along `y`
  when `z` is outside its z-range), the Z membrane has the `Lx` translates "existing x-edges of the
  cross-section `x = 2i + 1`" (a vertex location in the hole has no generator, but then none of its
  neighbours is a qubit).  Upper bound: the listed X line or the listed Z membrane.
* `distance_reported` — **C17 for every size `Lx, Ly, Lz ≥ 1`**: `code.d` exists and IS the true
  distance.
* `light_membrane` — for `Lx ≥ 3` the cross-section `x = 3` is a non-trivial logical operator of
  weight `wZ` (it is the listed logical Z now).
* REGRESSION (`old_reported_distance`, `old_reported_distance_wrong`, `old_distance_reported`): the
  code before the repair listed the FULL end plane `x = 1` as logical Z
  (`HollowPlanar3DCode.oldLogZ`, `oldLattice`; the hole never reaches `x = 1`), so `code.d` was
  `min Lx (Ly·Lz)`, which for `Ly, Lz ≥ 3` and `Lx > 2·Ly + 2·Lz − 4` (from
  `HollowPlanar3DCode(9, 3, 3)` on) is NOT the code distance: the true distance is
  `2·Ly + 2·Lz − 4`, smaller.  Observed on the class before the repair:
  `HollowPlanar3DCode(9, 3, 3)`: `n = 146`, `k = 1`, `code.d == 9`; the operator Z on the 8 qubits
  `(3, y, z)`, `(y, z) ∈ {0, 2, 4}² \ {(2, 2)}`, commutes with all 154 generators (`in_codespace`
  True, `is_logical_error` True) and anticommutes with the listed logical X.  The repair puts the
  listed logical Z on that cross-section.
* the class offers no deformation (`C01HollowPlanar3DCode.deformation_rule`: `get_deformation`
  never returns a map, `deformation_names = []`), so there is no deformed code to cover.
-/
import PanqecVerif.Properties.C01HollowPlanar3DCode
import PanqecVerif.Proofs.DistHollowPlanar3DCodeC

namespace Panqec.C17HollowPlanar3DCode
open Panqec.Cubic3D Panqec.HollowPlanar3DCode

/-- the number of qubits (truncated subtractions; `C01HollowPlanar3DCode.n_formula`) -/
abbrev nq (Lx Ly Lz : Nat) : Nat :=
  Lx * Ly * Lz + (Lx - 1) * (Ly - 1) * Lz + (Lx - 1) * Ly * (Lz - 1) -
    ((Lx - 2) * (Ly - 2) * (Lz - 2) + (Lx - 3) * (Ly - 1) * (Lz - 2) +
      (Lx - 3) * (Ly - 2) * (Lz - 1))

theorem qubits_length (Lx Ly Lz : Nat) : (qubits Lx Ly Lz).length = nq Lx Ly Lz := by
  have h := C01HollowPlanar3DCode.n_formula Lx Ly Lz
  simp only [Lattice.toCodeData, CodeData.n, lattice_qubits] at h
  exact h

/-- the row of `logicals_x` has Pauli weight `Lx` (a line), the row of `logicals_z` weight
    `wZ Lx Ly Lz` (the existing x-edges of the cross-section `x = 3` when `Lx ≥ 3`, the full plane
    `x = 1` otherwise) — every `Lx, Ly, Lz ≥ 1` -/
theorem weights_listed (Lx Ly Lz : Nat) (hLx : 1 ≤ Lx) (hLy : 1 ≤ Ly) (hLz : 1 ≤ Lz) :
    (lattice Lx Ly Lz).rowsX.map pauliWeight = [Lx] ∧
    (lattice Lx Ly Lz).rowsZ.map pauliWeight = [wZ Lx Ly Lz] :=
  HollowPlanar3DCode.weights_listed (C01HollowPlanar3DCode.wf Lx Ly Lz hLx hLy hLz)

/-- what `code.d` returns — the minimum weight over the listed logical operators — is
    `min Lx (wZ Lx Ly Lz)`, every `Lx, Ly, Lz ≥ 1` -/
theorem reported_distance (Lx Ly Lz : Nat) (hLx : 1 ≤ Lx) (hLy : 1 ≤ Ly) (hLz : 1 ≤ Lz) :
    Panqec.distance (lattice Lx Ly Lz).rowsX (lattice Lx Ly Lz).rowsZ =
      some (min Lx (wZ Lx Ly Lz)) :=
  HollowPlanar3DCode.reported_distance (C01HollowPlanar3DCode.wf Lx Ly Lz hLx hLy hLz)

/-- the weight of the lightest membrane when the hole is there: `2·Ly + 2·Lz − 4` -/
theorem wZ_hole (Lx Ly Lz : Nat) (hLx : 3 ≤ Lx) (hLy : 2 ≤ Ly) (hLz : 2 ≤ Lz) :
    wZ Lx Ly Lz = 2 * Ly + 2 * Lz - 4 := by
  unfold wZ
  rw [if_pos hLx]
  obtain ⟨a, rfl⟩ : ∃ a, Ly = a + 2 := ⟨Ly - 2, by omega⟩
  obtain ⟨b, rfl⟩ : ∃ b, Lz = b + 2 := ⟨Lz - 2, by omega⟩
  simp only [Nat.add_sub_cancel]
  have : (a + 2) * (b + 2) = a * b + (2 * (a + 2) + 2 * (b + 2) - 4) := by
    rw [Nat.add_mul, Nat.mul_add, Nat.mul_add]; omega
  rw [this, Nat.add_sub_cancel_left]

/-- … and the full plane `Ly·Lz` when the hole removes no x-edge -/
theorem wZ_nohole (Lx Ly Lz : Nat) (h : Lx ≤ 2 ∨ Ly ≤ 2 ∨ Lz ≤ 2) : wZ Lx Ly Lz = Ly * Lz := by
  unfold wZ
  split
  · rcases h with h | h | h
    · omega
    · have : Ly - 2 = 0 := by omega
      rw [this, Nat.zero_mul]; rfl
    · have : Lz - 2 = 0 := by omega
      rw [this, Nat.mul_zero]; rfl
  · rfl

/-- no non-trivial logical operator (commutes with every generator, is not a product of
    generators) of the `Lx × Ly × Lz` hollow planar code is lighter than `min Lx (wZ Lx Ly Lz)` —
    every `Lx, Ly, Lz ≥ 1` -/
theorem lower_bound (Lx Ly Lz : Nat) (hLx : 1 ≤ Lx) (hLy : 1 ≤ Ly) (hLz : 1 ≤ Lz) :
    ∀ v, IsNontrivialLogical (nq Lx Ly Lz) (lattice Lx Ly Lz).rowsH v →
      min Lx (wZ Lx Ly Lz) ≤ pauliWeight v :=
  HollowPlanar3DCode.lower_bound (C01HollowPlanar3DCode.wf Lx Ly Lz hLx hLy hLz)
    (qubits_length Lx Ly Lz) (C01HollowPlanar3DCode.valid_code Lx Ly Lz hLx hLy hLz).2.2.2

/-- for `Lx ≥ 3` the Z operator on the existing x-edges of the cross-section `x = 3` — the listed
    logical Z since the repair — is a non-trivial logical operator of weight `wZ Lx Ly Lz`, lighter
    than the full end plane as soon as `Ly, Lz ≥ 3` -/
theorem light_membrane (Lx Ly Lz : Nat) (hLx : 3 ≤ Lx) (hLy : 1 ≤ Ly) (hLz : 1 ≤ Lz) :
    IsNontrivialLogical (nq Lx Ly Lz) (lattice Lx Ly Lz).rowsH
      (opRow (lattice Lx Ly Lz).qubits (uop (crossX Lx Ly Lz 1) Pauli.Z)) ∧
    pauliWeight (opRow (lattice Lx Ly Lz).qubits (uop (crossX Lx Ly Lz 1) Pauli.Z)) =
      wZ Lx Ly Lz := by
  have hwf := C01HollowPlanar3DCode.wf Lx Ly Lz (by omega) hLy hLz
  refine ⟨cross_nontrivial hwf (C01HollowPlanar3DCode.commPair Lx Ly Lz (by omega) hLy hLz)
    (qubits_length Lx Ly Lz) (C01HollowPlanar3DCode.valid_code Lx Ly Lz (by omega) hLy hLz).2.2.2
    (by omega), ?_⟩
  rw [cross_weight hwf (by omega), length_crossX_one]

/-- every cross-section `x = 2i + 1` (`i < Lx`) of existing x-edges, as a Z operator, is a
    non-trivial logical operator (the translates of the listed logical Z used by the packing bound) -/
theorem membrane (Lx Ly Lz : Nat) (hLx : 1 ≤ Lx) (hLy : 1 ≤ Ly) (hLz : 1 ≤ Lz) (i : Nat)
    (hi : i < Lx) :
    IsNontrivialLogical (nq Lx Ly Lz) (lattice Lx Ly Lz).rowsH
      (opRow (lattice Lx Ly Lz).qubits (uop (crossX Lx Ly Lz i) Pauli.Z)) :=
  cross_nontrivial (C01HollowPlanar3DCode.wf Lx Ly Lz hLx hLy hLz)
    (C01HollowPlanar3DCode.commPair Lx Ly Lz hLx hLy hLz) (qubits_length Lx Ly Lz)
    (C01HollowPlanar3DCode.valid_code Lx Ly Lz hLx hLy hLz).2.2.2 hi

/-- THE TRUE DISTANCE FOR ALL SIZES (`Lx, Ly, Lz ≥ 1`): the code distance of the `Lx × Ly × Lz`
    hollow planar code — the minimum weight of a non-trivial logical operator of the assembled
    parity-check matrix — is `min Lx (wZ Lx Ly Lz)` -/
theorem distance (Lx Ly Lz : Nat) (hLx : 1 ≤ Lx) (hLy : 1 ≤ Ly) (hLz : 1 ≤ Lz) :
    IsDistance (nq Lx Ly Lz) (lattice Lx Ly Lz).rowsH (min Lx (wZ Lx Ly Lz)) :=
  true_distance (C01HollowPlanar3DCode.wf Lx Ly Lz hLx hLy hLz) (qubits_length Lx Ly Lz)
    (C01HollowPlanar3DCode.valid_code Lx Ly Lz hLx hLy hLz).2.2.2

/-- **THE C17 STATEMENT, every size `Lx, Ly, Lz ≥ 1`** (no side condition): the reported distance
    exists and is the true distance -/
theorem distance_reported (Lx Ly Lz : Nat) (hLx : 1 ≤ Lx) (hLy : 1 ≤ Ly) (hLz : 1 ≤ Lz) :
    ∃ d, Panqec.distance (lattice Lx Ly Lz).rowsX (lattice Lx Ly Lz).rowsZ = some d ∧
      IsDistance (nq Lx Ly Lz) (lattice Lx Ly Lz).rowsH d :=
  ⟨_, reported_distance Lx Ly Lz hLx hLy hLz, distance Lx Ly Lz hLx hLy hLz⟩

/-- the reported (= true) distance in closed form: `min Lx (2·Ly + 2·Lz − 4)` when the cavity
    exists (`Lx, Ly, Lz ≥ 3`), `min Lx (Ly·Lz)` otherwise -/
theorem reported_distance_formula (Lx Ly Lz : Nat) (hLx : 1 ≤ Lx) (hLy : 1 ≤ Ly) (hLz : 1 ≤ Lz) :
    Panqec.distance (lattice Lx Ly Lz).rowsX (lattice Lx Ly Lz).rowsZ =
      some (if 3 ≤ Lx ∧ 3 ≤ Ly ∧ 3 ≤ Lz then min Lx (2 * Ly + 2 * Lz - 4) else min Lx (Ly * Lz)) := by
  rw [reported_distance Lx Ly Lz hLx hLy hLz]
  split
  · next h => rw [wZ_hole Lx Ly Lz h.1 (by omega) (by omega)]
  · next h => rw [wZ_nohole Lx Ly Lz (by omega)]

/-! ### regression: the code before the repair of `get_logicals_z` (former finding)

`oldLattice` = the same qubits and generators with the logical Z the class listed before the repair,
the full end plane `x = 1` (`HollowPlanar3DCode.oldLogZ`). -/

/-- before the repair `code.d` was `min Lx (Ly·Lz)`, every `Lx, Ly, Lz ≥ 1` -/
theorem old_reported_distance (Lx Ly Lz : Nat) (hLx : 1 ≤ Lx) (hLy : 1 ≤ Ly) (hLz : 1 ≤ Lz) :
    Panqec.distance (oldLattice Lx Ly Lz).rowsX (oldLattice Lx Ly Lz).rowsZ =
      some (min Lx (Ly * Lz)) :=
  HollowPlanar3DCode.old_reported_distance (C01HollowPlanar3DCode.wf Lx Ly Lz hLx hLy hLz) hLx

/-- before the repair the reported distance was the true one exactly under a side condition: if
    `Lx ≤ 2`, `Ly ≤ 2`, `Lz ≤ 2` or `Lx ≤ 2·Ly + 2·Lz − 4` -/
theorem old_distance_reported (Lx Ly Lz : Nat) (hLx : 1 ≤ Lx) (hLy : 1 ≤ Ly) (hLz : 1 ≤ Lz)
    (h : Lx ≤ 2 ∨ Ly ≤ 2 ∨ Lz ≤ 2 ∨ Lx ≤ 2 * Ly + 2 * Lz - 4) :
    ∃ d, Panqec.distance (oldLattice Lx Ly Lz).rowsX (oldLattice Lx Ly Lz).rowsZ = some d ∧
      IsDistance (nq Lx Ly Lz) (oldLattice Lx Ly Lz).rowsH d := by
  refine ⟨_, old_reported_distance Lx Ly Lz hLx hLy hLz, ?_⟩
  rw [oldLattice_rowsH]
  have hd := distance Lx Ly Lz hLx hLy hLz
  by_cases hno : Lx ≤ 2 ∨ Ly ≤ 2 ∨ Lz ≤ 2
  · rw [wZ_nohole Lx Ly Lz hno] at hd; exact hd
  · have h' : Lx ≤ 2 * Ly + 2 * Lz - 4 := by omega
    have hw := wZ_hole Lx Ly Lz (by omega) (by omega) (by omega)
    have hle : wZ Lx Ly Lz ≤ Ly * Lz := by unfold wZ; omega
    rw [Nat.min_eq_left (by omega)] at hd
    rw [Nat.min_eq_left (by omega)]
    exact hd

/-- **FORMER FINDING, repaired** (every `Ly, Lz ≥ 3`, `Lx > 2·Ly + 2·Lz − 4`; smallest size
    `9 × 3 × 3`): what `code.d` reported before the repair, `min Lx (Ly·Lz)`, is NOT the code
    distance — the true distance is `2·Ly + 2·Lz − 4`, strictly smaller (a membrane through the
    hole is lighter than the end plane that was listed) — and it is what `code.d` reports now -/
theorem old_reported_distance_wrong (Lx Ly Lz : Nat) (hLy : 3 ≤ Ly) (hLz : 3 ≤ Lz)
    (hLx : 2 * Ly + 2 * Lz - 4 < Lx) :
    Panqec.distance (oldLattice Lx Ly Lz).rowsX (oldLattice Lx Ly Lz).rowsZ =
      some (min Lx (Ly * Lz)) ∧
    IsDistance (nq Lx Ly Lz) (oldLattice Lx Ly Lz).rowsH (2 * Ly + 2 * Lz - 4) ∧
    2 * Ly + 2 * Lz - 4 < min Lx (Ly * Lz) ∧
    ¬ IsDistance (nq Lx Ly Lz) (oldLattice Lx Ly Lz).rowsH (min Lx (Ly * Lz)) ∧
    Panqec.distance (lattice Lx Ly Lz).rowsX (lattice Lx Ly Lz).rowsZ =
      some (2 * Ly + 2 * Lz - 4) := by
  have hd := distance Lx Ly Lz (by omega) (by omega) (by omega)
  have hr := reported_distance Lx Ly Lz (by omega) (by omega) (by omega)
  have hw := wZ_hole Lx Ly Lz (by omega) (by omega) (by omega)
  rw [hw, Nat.min_eq_right (by omega)] at hd hr
  have hlt : 2 * Ly + 2 * Lz - 4 < Ly * Lz := by
    obtain ⟨a, rfl⟩ : ∃ a, Ly = a + 3 := ⟨Ly - 3, by omega⟩
    obtain ⟨b, rfl⟩ : ∃ b, Lz = b + 3 := ⟨Lz - 3, by omega⟩
    have : (a + 3) * (b + 3) = a * b + 3 * a + 3 * b + 9 := by
      rw [Nat.add_mul, Nat.mul_add, Nat.mul_add]; omega
    rw [this]; omega
  have hlt' : 2 * Ly + 2 * Lz - 4 < min Lx (Ly * Lz) := by
    rw [Nat.lt_min]; exact ⟨hLx, hlt⟩
  rw [oldLattice_rowsH]
  refine ⟨old_reported_distance Lx Ly Lz (by omega) (by omega) (by omega), hd, hlt', ?_, hr⟩
  intro hrep
  obtain ⟨v, hv, hwv⟩ := hd.1
  have := hrep.2 v hv
  omega

/-! ### non-vacuity -/

/-- no cavity: the planar code, distance `min Lx (Ly·Lz)` -/
example : IsDistance (nq 2 3 4) (lattice 2 3 4).rowsH 2 :=
  distance 2 3 4 (by decide) (by decide) (by decide)
/-- a cavity: `4 × 3 × 3` has `d = 4` (`wZ = 8`) -/
example : ∃ d, Panqec.distance (lattice 4 3 3).rowsX (lattice 4 3 3).rowsZ = some d ∧
    IsDistance 66 (lattice 4 3 3).rowsH d :=
  distance_reported 4 3 3 (by decide) (by decide) (by decide)
example : IsDistance 66 (lattice 4 3 3).rowsH 4 :=
  distance 4 3 3 (by decide) (by decide) (by decide)
/-- the smallest member of the family: one qubit, no generator, distance 1 -/
example : IsDistance 1 (lattice 1 1 1).rowsH 1 :=
  distance 1 1 1 (by decide) (by decide) (by decide)
/-- the size of the former finding, `HollowPlanar3DCode(9, 3, 3)` (`n = 146`): `code.d = 8` now, the
    true distance -/
example : Panqec.distance (lattice 9 3 3).rowsX (lattice 9 3 3).rowsZ = some 8 ∧
    IsDistance 146 (lattice 9 3 3).rowsH 8 :=
  ⟨reported_distance_formula 9 3 3 (by decide) (by decide) (by decide),
   distance 9 3 3 (by decide) (by decide) (by decide)⟩
/-- THE FORMER FINDING on its smallest instance: before the repair `HollowPlanar3DCode(9, 3, 3)`
    reported `d = 9`, the true distance is 8 -/
example : Panqec.distance (oldLattice 9 3 3).rowsX (oldLattice 9 3 3).rowsZ = some 9 ∧
    IsDistance 146 (oldLattice 9 3 3).rowsH 8 ∧ ¬ IsDistance 146 (oldLattice 9 3 3).rowsH 9 := by
  obtain ⟨h1, h2, _, h4, _⟩ := old_reported_distance_wrong 9 3 3 (by decide) (by decide) (by decide)
  exact ⟨h1, h2, h4⟩
/-- the light membrane of `9 × 3 × 3`: the 8 x-edges `(3, y, z)` around the hole -/
example : crossX 9 3 3 1 =
    [[3, 0, 0], [3, 0, 2], [3, 0, 4], [3, 2, 0], [3, 2, 4], [3, 4, 0], [3, 4, 2], [3, 4, 4]] := by
  decide +kernel
/-- … is what `get_logicals_z` lists now, and the end plane `x = 1` (9 x-edges) what it listed -/
example : logZ 9 3 3 = [uop (crossX 9 3 3 1) Pauli.Z] ∧ (oldLogZ 9 3 3).map List.length = [9] := by
  decide +kernel
example : wZ 9 3 3 = 8 ∧ wZ 2 3 3 = 9 ∧ wZ 5 2 4 = 8 ∧ wZ 11 3 4 = 10 := by decide
/-- the hypothesis of `lower_bound` is satisfiable: the light membrane is a non-trivial logical -/
example : IsNontrivialLogical (nq 3 3 3) (lattice 3 3 3).rowsH
    (opRow (lattice 3 3 3).qubits (uop (crossX 3 3 3 1) Pauli.Z)) :=
  (light_membrane 3 3 3 (by decide) (by decide) (by decide)).1
example : (lattice 4 3 3).rowsX.map pauliWeight = [4] ∧
    (lattice 4 3 3).rowsZ.map pauliWeight = [8] :=
  weights_listed 4 3 3 (by decide) (by decide) (by decide)

end Panqec.C17HollowPlanar3DCode
