/-
C19 — generated input files cover exactly the requested parameter grid.
(placeholder while the proofs are being written)
-/
import PanqecVerif.Model.Cli

namespace Panqec.C19
open Panqec.Cli

theorem placeholder : (1 : Nat) = 1 := rfl

end Panqec.C19
