/-
C19 — generated input files cover exactly the requested parameter grid.

Property theorems only.  Model: `Model/Cli.lean` part 2 (`readRange`, `readBiasRatios`,
`getDirection`, `generateInput`, `finalFiles`, `expand`); helper lemmas:
`Proofs/CliRange.lean`, `Proofs/CliFiles.lean`.  Numbers are exact rationals; the
float ↔ rational gap is bridged by the harness (decimal-grid inputs, snapping) and listed in
the trusted base.  All statements are for arbitrary inputs (no bound on list lengths, sizes,
number of ratios, number of rates).
-/
import PanqecVerif.Proofs.CliRange
import PanqecVerif.Proofs.CliFiles

namespace Panqec.C19

open Panqec.Cli

/-! ## `min:max:step` ranges -/

/-- no value of a range lies beyond `max` — for every `min`, `max`, `step` -/
theorem range_never_exceeds_max (mn mx st : Rat) : ∀ v ∈ rangeValues mn mx st, v ≤ mx :=
  rangeValues_le_max mn mx st

/-- A range is the arithmetic progression `min, min+step, …` with `⌊(max-min)/step⌋ + 1`
    elements, provided the code's tolerance `1e-9·step` does not move `(max-min)/step`
    across an integer (see `grid_has_the_tolerance`). -/
theorem range_is_progression {mn mx st : Rat} (hst : 0 < st) (hle : mn ≤ mx)
    (htol : ((mx - mn) / st + eps).floor = ((mx - mn) / st).floor) :
    rangeValues mn mx st =
      (List.range (((mx - mn) / st).floor.toNat + 1)).map fun (i : Nat) => mn + (i : Rat) * st :=
  rangeValues_eq hst hle htol

/-- the tolerance hypothesis holds on every grid whose step is fewer than `10^9` units -/
theorem grid_has_the_tolerance {u : Rat} (hu : 0 < u) (a b : Int) (s : Nat) (hs : 0 < s)
    (hs9 : s < 1000000000) :
    (((b : Rat) * u - (a : Rat) * u) / ((s : Rat) * u) + eps).floor =
      (((b : Rat) * u - (a : Rat) * u) / ((s : Rat) * u)).floor :=
  grid_tolerance hu a b s hs hs9

/-- **Ranges on a decimal (or any) grid.**  For `min = a·u`, `max = b·u ≥ min`,
    `step = s·u` with `0 < s < 10^9` the values are exactly `min + i·step` for
    `i = 0 … ⌊(b-a)/s⌋` — no side condition left. -/
theorem range_on_grid {u : Rat} (hu : 0 < u) (a b : Int) (hab : a ≤ b) (s : Nat)
    (hs : 0 < s) (hs9 : s < 1000000000) :
    rangeValues ((a : Rat) * u) ((b : Rat) * u) ((s : Rat) * u) =
      (List.range (((b - a) / (s : Int)).toNat + 1)).map
        fun (i : Nat) => (a : Rat) * u + (i : Rat) * ((s : Rat) * u) :=
  rangeValues_on_grid hu a b hab s hs hs9

/-- number of values -/
theorem range_count {mn mx st : Rat} (hst : 0 < st) (hle : mn ≤ mx)
    (htol : ((mx - mn) / st + eps).floor = ((mx - mn) / st).floor) :
    (rangeValues mn mx st).length = ((mx - mn) / st).floor.toNat + 1 := by
  rw [rangeValues_eq hst hle htol]; simp

/-- the `i`-th value is `min + i·step` (so the first is `min` and consecutive values differ
    by `step`) -/
theorem range_nth {mn mx st : Rat} (hst : 0 < st) (hle : mn ≤ mx)
    (htol : ((mx - mn) / st + eps).floor = ((mx - mn) / st).floor) (i : Nat)
    (hi : i ≤ ((mx - mn) / st).floor.toNat) :
    (rangeValues mn mx st)[i]? = some (mn + (i : Rat) * st) := by
  rw [rangeValues_eq hst hle htol, List.getElem?_map, List.getElem?_range (by omega)]
  rfl

theorem range_first_is_min {mn mx st : Rat} (hst : 0 < st) (hle : mn ≤ mx)
    (htol : ((mx - mn) / st + eps).floor = ((mx - mn) / st).floor) :
    (rangeValues mn mx st)[0]? = some mn := by
  rw [range_nth hst hle htol 0 (by omega)]; simp

theorem range_consecutive_differ_by_step {mn mx st : Rat} (hst : 0 < st) (hle : mn ≤ mx)
    (htol : ((mx - mn) / st + eps).floor = ((mx - mn) / st).floor) (i : Nat)
    (hi : i + 1 ≤ ((mx - mn) / st).floor.toNat) :
    ∃ v w, (rangeValues mn mx st)[i]? = some v ∧ (rangeValues mn mx st)[i + 1]? = some w ∧
      w - v = st := by
  refine ⟨_, _, range_nth hst hle htol i (by omega), range_nth hst hle htol (i + 1) hi, ?_⟩
  push_cast; ring

/-- the values of a range are pairwise distinct (so "each requested rate exactly once" is
    meaningful for ranges) -/
theorem range_values_distinct {mn mx st : Rat} (hst : 0 < st) (hle : mn ≤ mx)
    (htol : ((mx - mn) / st + eps).floor = ((mx - mn) / st).floor) :
    (rangeValues mn mx st).Nodup := by
  rw [rangeValues_eq hst hle htol]
  apply List.Nodup.map_on _ List.nodup_range
  intro i _ j _ h
  have h1 : (i : Rat) * st = (j : Rat) * st := by linarith
  have h2 : (i : Rat) = (j : Rat) := mul_right_cancel₀ (ne_of_gt hst) h1
  exact_mod_cast h2

/-- when `max` lies on the grid of the range (`max = min + k·step`), the last value is `max` -/
theorem range_last_is_max {mn st : Rat} (hst : 0 < st) (k : Nat)
    (htol : ((mn + (k : Rat) * st - mn) / st + eps).floor = ((mn + (k : Rat) * st - mn) / st).floor) :
    (rangeValues mn (mn + (k : Rat) * st) st).getLast? = some (mn + (k : Rat) * st) := by
  have hle : mn ≤ mn + (k : Rat) * st := by
    have : 0 ≤ (k : Rat) * st := mul_nonneg (by exact_mod_cast Nat.zero_le k) (le_of_lt hst)
    linarith
  have hx : (mn + (k : Rat) * st - mn) / st = ((k : Int) : Rat) := by
    field_simp; push_cast; ring
  have hfl : ((mn + (k : Rat) * st - mn) / st).floor = (k : Int) := by
    rw [hx, Rat.floor_intCast]
  rw [rangeValues_eq hst hle htol, hfl]
  simp [List.range_succ]

/-! ## bias ratio ↦ noise direction -/

/-- the direction is defined for X, Y, Z and every ratio except `-1` -/
theorem direction_defined (p : Char) (hp : p = 'X' ∨ p = 'Y' ∨ p = 'Z') (eta : Eta)
    (h : ∀ e, eta.toRat? = some e → 1 + e ≠ 0) :
    ∃ d, getDirection p eta = .ok (some d) := by
  unfold getDirection
  cases he : eta.toRat? with
  | none => rcases hp with rfl | rfl | rfl <;> simp
  | some e =>
    have := h e he
    rcases hp with rfl | rfl | rfl <;> simp [this]

/-- explicit form of the result: bias component `r`, the two others `(1-r)/2`, where
    `r = 1` for `inf` and `r = eta/(1+eta)` otherwise -/
theorem direction_components (p : Char) (eta : Eta) (d : Direction)
    (h : getDirection p eta = .ok (some d)) :
    ∃ r : Rat, (eta.toRat? = none ∧ r = 1 ∨ ∃ e, eta.toRat? = some e ∧ 1 + e ≠ 0 ∧ r = e / (1 + e)) ∧
      d.along p = r ∧ d.across p = (1 - r) / 2 + (1 - r) / 2 ∧
      d.rx + d.ry + d.rz = r + (1 - r) / 2 + (1 - r) / 2 ∧
      (d.rx = r ∨ d.rx = (1 - r) / 2) ∧ (d.ry = r ∨ d.ry = (1 - r) / 2) ∧
      (d.rz = r ∨ d.rz = (1 - r) / 2) := by
  unfold getDirection at h
  cases he : eta.toRat? with
  | none =>
    rw [he] at h
    simp only at h
    refine ⟨1, Or.inl ⟨rfl, rfl⟩, ?_⟩
    split at h
    · cases h; subst_vars; simp [Direction.along, Direction.across]
    · split at h
      · cases h; subst_vars; simp [Direction.along, Direction.across]
      · split at h
        · cases h; subst_vars; simp [Direction.along, Direction.across]
        · cases h
  | some e =>
    rw [he] at h
    simp only at h
    by_cases h1 : 1 + e = 0
    · simp [h1] at h
    · simp only [h1, if_false] at h
      refine ⟨e / (1 + e), Or.inr ⟨e, rfl, h1, rfl⟩, ?_⟩
      split at h
      · cases h; subst_vars; simp [Direction.along, Direction.across]; ring
      · split at h
        · cases h; subst_vars; simp [Direction.along, Direction.across]
        · split at h
          · cases h; subst_vars; simp [Direction.along, Direction.across]; ring
          · cases h

/-- the direction always sums to 1 -/
theorem direction_sums_to_one (p : Char) (eta : Eta) (d : Direction)
    (h : getDirection p eta = .ok (some d)) : d.rx + d.ry + d.rz = 1 := by
  obtain ⟨r, _, _, _, hs, _⟩ := direction_components p eta d h
  rw [hs]; ring

/-- for a ratio `eta ≥ 0` (or `inf`) all components are non-negative -/
theorem direction_nonneg (p : Char) (eta : Eta) (d : Direction)
    (h : getDirection p eta = .ok (some d)) (hpos : ∀ e, eta.toRat? = some e → 0 ≤ e) :
    0 ≤ d.rx ∧ 0 ≤ d.ry ∧ 0 ≤ d.rz := by
  obtain ⟨r, hr, _, _, _, hx, hy, hz⟩ := direction_components p eta d h
  have hr' : 0 ≤ r ∧ 0 ≤ (1 - r) / 2 := by
    rcases hr with ⟨_, rfl⟩ | ⟨e, he, _, rfl⟩
    · norm_num
    · exact direction_nonneg_algebra (hpos e he)
  refine ⟨?_, ?_, ?_⟩
  · rcases hx with h | h <;> rw [h] <;> [exact hr'.1; exact hr'.2]
  · rcases hy with h | h <;> rw [h] <;> [exact hr'.1; exact hr'.2]
  · rcases hz with h | h <;> rw [h] <;> [exact hr'.1; exact hr'.2]

/-- the direction has the requested bias ratio: `r_bias = eta · (sum of the two others)` -/
theorem direction_has_the_bias_ratio (p : Char) (eta : Eta) (e : Rat) (d : Direction)
    (he : eta.toRat? = some e) (h : getDirection p eta = .ok (some d)) :
    d.along p = e * d.across p := by
  obtain ⟨r, hr, ha, hc, _⟩ := direction_components p eta d h
  rcases hr with ⟨hn, _⟩ | ⟨e', he', h1, rfl⟩
  · rw [he] at hn; cases hn
  · rw [he] at he'; cases he'
    rw [ha, hc]
    exact (direction_algebra h1).2

/-- `inf` is the pure bias -/
theorem direction_of_inf_is_pure (p : Char) (d : Direction)
    (h : getDirection p .inf = .ok (some d)) : d.along p = 1 ∧ d.across p = 0 := by
  obtain ⟨r, hr, ha, hc, _⟩ := direction_components p .inf d h
  rcases hr with ⟨_, rfl⟩ | ⟨e, he, _, _⟩
  · rw [ha, hc]; norm_num
  · simp [Eta.toRat?] at he

/-! ## one specification per bias ratio -/

/-- what `read_bias_ratios` returns is in normal form -/
theorem parsed_ratio_well_formed {tok : List Char} {e : Eta} (h : parseEta tok = .ok e) : e.WF :=
  parseEta_wf h

/-- with several ratios the file name determines the ratio: two ratios never share a file -/
theorem file_name_determines_ratio {label : List Char} {n : Nat} (hn : 1 < n) {e1 e2 : Eta}
    (h1 : e1.WF) (h2 : e2.WF) (h : fileName label n e1 = fileName label n e2) : e1 = e2 :=
  fileName_injective hn h1 h2 h

/-- the loop writes exactly one specification per requested ratio, in order, each under the
    name of its ratio -/
theorem one_specification_per_ratio (a : GenArgs) (rates : List Rat) (etas : List Eta)
    (spec : Eta → InputSpec) (hr : readRange a.prob = .ok rates)
    (he : readBiasRatios a.eta = .ok etas)
    (hs : ∀ e ∈ etas, specFor a rates e = .ok (spec e)) :
    generateInput a =
      (etas.map fun e => (fileName (spec e).label etas.length e, spec e), none) := by
  unfold generateInput
  rw [hr, he]
  exact writeAll_ok a rates etas.length spec etas hs

/-- the specification of a ratio carries the request: the rates of `--prob`, the direction of
    this ratio along `--bias`, the parsed sizes, and the names as given -/
theorem specification_content (a : GenArgs) (rates : List Rat) (e : Eta) (sp : InputSpec)
    (h : specFor a rates e = .ok sp) :
    sp.errorRates = rates ∧ getDirection a.bias e = .ok sp.direction ∧
    parseSizes a.sizes = .ok sp.codeParams ∧ sp.label = a.label.getD "experiment".toList ∧
    sp.codeName = a.codeClass ∧ sp.noiseName = a.noiseClass ∧ sp.decoderName = a.decoderClass ∧
    sp.methodName = a.method ∧ sp.deformationName = a.deformationName := by
  unfold specFor at h
  cases hd : getDirection a.bias e with
  | error err => rw [hd] at h; cases h
  | ok dir =>
    cases hz : parseSizes a.sizes with
    | error err => rw [hd, hz] at h; cases h
    | ok sizes =>
      rw [hd, hz] at h
      cases h
      exact ⟨rfl, rfl, rfl, rfl, rfl, rfl, rfl, rfl, rfl⟩

/-- distinct ratios keep distinct files: after the command the directory holds every
    specification that was written (no file was overwritten) -/
theorem every_ratio_keeps_its_file (label : List Char) (etas : List Eta) (spec : Eta → InputSpec)
    (hnd : etas.Nodup) (hwf : ∀ e ∈ etas, e.WF) :
    finalFiles (etas.map fun e => (fileName label etas.length e, spec e)) =
      etas.map fun e => (fileName label etas.length e, spec e) := by
  apply finalFiles_of_nodup
  rw [List.map_map]
  by_cases hn : 1 < etas.length
  · apply List.Nodup.map_on _ hnd
    intro x hx y hy hxy
    exact fileName_injective hn (hwf x hx) (hwf y hy) hxy
  · match etas, hn with
    | [], _ => simp
    | [e], _ => simp
    | _ :: _ :: _, hn => simp at hn

/-- whatever the ratios, the directory never holds two files of the same name and holds
    only files that were written -/
theorem directory_is_consistent (ws : List (List Char × InputSpec)) :
    ((finalFiles ws).map (·.1)).Nodup ∧ ∀ p ∈ finalFiles ws, p ∈ ws :=
  finalFiles_names_nodup ws

/-! ## read-back: one simulation per (size, rate) -/

/-- For both methods the simulations read back from a generated file cover exactly the
    Cartesian product sizes × rates, in order (method `direct`: one simulation per pair;
    method `splitting`: one simulation per size, holding every rate). -/
theorem read_back_covers_grid (spec : InputSpec)
    (hm : spec.methodName = "direct".toList ∨ spec.methodName = "splitting".toList) :
    coveredPairs (expand spec) =
      (parametersRange spec.codeParams).product (parametersRange spec.errorRates) := by
  unfold coveredPairs expand
  rcases hm with hm | hm
  · simp only [hm, if_true]
    exact coveredPairs_direct _ _
  · have : ¬ ("splitting".toList = "direct".toList) := by decide
    simp only [hm, this, if_false, if_true]
    exact coveredPairs_splitting _ _

/-- number of (size, rate) pairs = |sizes| · |rates| -/
theorem read_back_count (spec : InputSpec)
    (hm : spec.methodName = "direct".toList ∨ spec.methodName = "splitting".toList)
    (hc : spec.codeParams ≠ []) (hr : spec.errorRates ≠ []) :
    (coveredPairs (expand spec)).length = spec.codeParams.length * spec.errorRates.length := by
  rw [read_back_covers_grid spec hm]
  change ((parametersRange spec.codeParams) ×ˢ (parametersRange spec.errorRates)).length = _
  rw [List.length_product, parametersRange_length _ hc, parametersRange_length _ hr]

/-- method `direct`: that many simulations -/
theorem direct_simulation_count (spec : InputSpec) (hm : spec.methodName = "direct".toList)
    (hc : spec.codeParams ≠ []) (hr : spec.errorRates ≠ []) :
    (expand spec).length = spec.codeParams.length * spec.errorRates.length := by
  unfold expand
  simp only [hm, if_true]
  rw [length_flatMap_map, parametersRange_length _ hc, parametersRange_length _ hr]

/-- every requested (size, rate) is covered, nothing else is, and each exactly once when the
    requested sizes and rates are themselves without repetition -/
theorem read_back_exactly_once (spec : InputSpec)
    (hm : spec.methodName = "direct".toList ∨ spec.methodName = "splitting".toList)
    (hc : spec.codeParams.Nodup) (hr : spec.errorRates.Nodup) :
    (coveredPairs (expand spec)).Nodup ∧
    ∀ c r, (some c, some r) ∈ coveredPairs (expand spec) ↔
      (spec.codeParams ≠ [] ∧ c ∈ spec.codeParams) ∧ (spec.errorRates ≠ [] ∧ r ∈ spec.errorRates) := by
  rw [read_back_covers_grid spec hm]
  refine ⟨(parametersRange_nodup _ hc).product (parametersRange_nodup _ hr), ?_⟩
  intro c r
  change (some c, some r) ∈ (parametersRange spec.codeParams) ×ˢ (parametersRange spec.errorRates) ↔ _
  rw [List.mem_product]
  have key : ∀ {α : Type} (l : List α) (x : α), some x ∈ parametersRange l ↔ (l ≠ [] ∧ x ∈ l) := by
    intro α l x
    unfold parametersRange
    cases l with
    | nil => simp
    | cons a l => simp
  rw [key, key]

/-! ## non-vacuity -/

example : rangeValues (1/10) (3/10) (1/10) = [1/10, 1/5, 3/10] := by decide +kernel
example : (match readRange "0.1:0.35:0.1".toList with | .ok l => l | .error _ => []) =
    [1/10, 1/5, 3/10] := by decide +kernel
example : (match readBiasRatios "0.5, 10,inf".toList with | .ok l => l | .error _ => []) =
    [.flt false 0 [5], .int 10, .inf] := by decide +kernel
example : (match getDirection 'Z' (.flt false 0 [5]) with | .ok (some d) => [d.rx, d.ry, d.rz] | _ => []) =
    [1/3, 1/3, 1/3] := by decide +kernel
example : fileName "lab".toList 3 (.flt false 0 [5]) = "lab_eta-0.5.json".toList := by decide +kernel
example : ((1/5 - 0) / (1/10) + eps : Rat).floor = ((1/5 - 0) / (1/10) : Rat).floor := by decide +kernel

end Panqec.C19
