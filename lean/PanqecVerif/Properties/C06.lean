/-
C06 — decoding is a pure function of the syndrome.

Decoder objects are state machines in `Model/Decoders.lean`.  For the decoders
without internal randomness the correction returned for a syndrome is the same
after every history of earlier calls as on a freshly built object; for the
sweep-match decoders (whose sweeper carries a random generator) the X half and
the validity of the result are history-independent.  The third-party objects are
parameters: ldpc's `decode` is a function of (matrix, schedule, current channel
probabilities, syndrome) and may or may not rewrite its result buffer
(`converged`), PyMatching's `decode` is a function of (matrix, weights, syndrome).

Model functions take their inputs by value, so "the caller's syndrome and the
noise model's cached probability arrays are not modified" is structural in the
model; for the real numpy arrays it is checked by the harness on every run
(snapshots before/after) — tested, not proved.
-/
import PanqecVerif.Proofs.DecodersWeights

namespace Panqec.C06

open Panqec

/-- **BP-OSD**: after *every* history of `decode` calls on one object (any syndromes, any
    lengths, erroring calls included) the correction returned for `s` equals the pure
    function `pureDecode` of the immutable attributes and `s` — whatever the ldpc objects'
    channel probabilities and result buffers were left at, with or without
    `channel_update`, CSS or not. -/
theorem bposd_history_independent (S : BpSolver) (d : BpDec_dec) (hist : List Vec) (s : Vec) :
    (d.decode S (d.run S BpSt.init hist) s).2.2 = d.pureDecode S s :=
  (d.decode_eq_pure S _ s (d.run_good S hist _ d.good_init)).1

/-- in particular a reused object and a fresh object return the same correction -/
theorem bposd_reused_eq_fresh (S : BpSolver) (d : BpDec_dec) (hist : List Vec) (s : Vec) :
    (d.decode S (d.run S BpSt.init hist) s).2.2 = (d.decode S BpSt.init s).2.2 := by
  rw [bposd_history_independent S d hist s, ← bposd_history_independent S d [] s]
  rfl

/-- the ldpc result buffer (`osdw_decoding`) never reaches the output: two states that differ
    only in channel probabilities and buffers give the same correction -/
theorem bposd_ignores_buffers (S : BpSolver) (d : BpDec_dec) (st st' : BpSt) (s : Vec)
    (h : d.Good st) (h' : d.Good st') :
    (d.decode S st s).2.2 = (d.decode S st' s).2.2 := by
  rw [(d.decode_eq_pure S st s h).1, (d.decode_eq_pure S st' s h').1]

/-- the lazily initialised flag is set by the first call and the ldpc objects are then
    never rebuilt: every reachable state keeps the objects built from `Hx`/`Hz`/`H` -/
theorem bposd_reachable_states_good (S : BpSolver) (d : BpDec_dec) (hist : List Vec) :
    d.Good (d.run S BpSt.init hist) :=
  d.run_good S hist _ d.good_init

/-- **MatchingDecoder**: `decode` does not change the object, so the result after any
    history equals the result on the fresh object -/
theorem matching_history_independent {W : Type} (solve : WSolver W) (d : MatchingDec W)
    (hist : List Vec) (s : Vec) :
    ((MatchingDec.run solve d hist).step solve s).2 = (d.step solve s).2 := by
  induction hist generalizing d with
  | nil => rfl
  | cons a hist ih => exact ih d

/- UnionFindDecoder: `ufDecode` takes no decoder state at all (new `Support` objects are
   built from the syndrome on every call), so there is nothing to state beyond its type;
   that the real `Support` objects do not leak state between calls is checked by the
   harness (reused object vs fresh object). -/

/-- **Sweep-match decoders**: whatever the generator state (i.e. after every history), the
    result is a binary vector of length `2n` whose X half is the matching answer — a
    function of the syndrome only — and whose Z-row syndrome is the measured one. -/
theorem sweepmatch_validity_history_independent {W R : Type} (sweep : R → Vec → R × Vec)
    (solve : WSolver W) (H : Mat) (n : Nat) (mw : List W × List W) (m : MatchingDec W)
    (hm : sweepMatchMatcher H n mw = .ok m) (hX : SolverValidOn n solve (Hz H))
    (hsweep : ∀ r s, ∃ zz, (sweep r s).2 = List.replicate n 0 ++ zz ∧ zz.length = n ∧ ∀ x ∈ zz, x < 2)
    (rng0 : R) (hist : List Vec) (e : Vec) (he : e.length = 2 * n) :
    ∃ c ev, (sweepMatchDecode sweep solve m (sweepRun sweep rng0 hist) (measureSyndrome H e)).2
        = .ok (c, ev) ∧
      c.length = 2 * n ∧ (∀ x ∈ c, x < 2) ∧
      xPart c = solve (Hz H) mw.1 (extractZSyndrome H (measureSyndrome H e)) :=
  let ⟨c, ev, h1, h2, h3, h4, _⟩ :=
    sweepmatch_valid sweep solve H n mw m hm hX hsweep (sweepRun sweep rng0 hist) e he
  ⟨c, ev, h1, h2, h3, h4⟩

/-! ### non-vacuity: a solver whose state visibly changes, yet the result does not -/

/-- an "ldpc" that answers with the X-row/Z-row syndrome padded, and never converges (so the
    buffer is rewritten on every call) -/
def toyBp : BpSolver :=
  { decode := fun _ _ p s => (s ++ List.replicate p.length 0).take p.length,
    converged := fun _ _ _ _ => false }

def toyDec : BpDec_dec :=
  { H := [[1, 1, 0, 0], [0, 0, 1, 1]], n := 2, px := [1/8, 1/8], py := [1/16, 1/16],
    pz := [1/4, 1/4], cfg := ⟨1/8, 10, 0, "minimum_sum", true⟩ }

/-- the state after two calls differs from the initial one (buffers filled, flag set) … -/
example : (toyDec.run toyBp BpSt.init [[1, 0], [0, 1]]).initialized = true := by decide
/-- … and the third answer is the fresh answer -/
example : (toyDec.decode toyBp (toyDec.run toyBp BpSt.init [[1, 0], [0, 1]]) [1, 1]).2.2
    = (toyDec.decode toyBp BpSt.init [1, 1]).2.2 :=
  bposd_reused_eq_fresh toyBp toyDec _ _

end Panqec.C06
