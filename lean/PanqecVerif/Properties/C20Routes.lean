/-
C20, routes that hand the request to the library: `/decode` (`GUI.send_correction`), `/new-errors`
(`send_random_errors`), `_instantiate_code`, `/decoder-names` — the glue of `panqec/gui/_gui.py`
(`Model/GuiRoutes.lean`), with the library a parameter (`Library`) and, for `/new-errors`, the
lattice models and the noise model of C07 behind it (`Model/GuiRoutesLib.lean`).

* `decode_constructs`, `decode_answer`, `decode_rejects` — ANY library, ANY menus: the objects
  `/decode` constructs are exactly those the request names (`selectDecode`: class and positional
  sizes, `deform` iff the deformation is not "None", direction and noise deformation, decoder class,
  `p`, keyword arguments), in the order code → error model → decoder → `decode(syndrome)`; the answer
  is the library decoder's correction split at `code.n`; a request whose selection fails is never
  answered.  Same for `/new-errors` (`new_errors_constructs`, `new_errors_answer`).
* the selection rules: `select_code_2d` (a 2-D class gets `(Lx, Ly)`, `Lz` ignored, present or not),
  `select_code_3d`, `select_code_3d_without_Lz`, `select_code_unknown`, `deformation_none_rule`,
  `noise_deformation_rule`, `decoder_kwargs_rule`.
* `decode_reads_only`, `new_errors_reads_only`: the answer depends on the listed request fields
  only; `decode_ignores_channel_update` (the DEFECT: the front end sends the "Channel update (BP)"
  box as `channel_update`, the answer cannot depend on it).
* regenerated tables (`Generated/GuiRoutes.lean`: `noise_directions`, constructor signatures of the
  menu decoders, request bodies and decoder options of `main.js`), by `decide`:
  `menu_decode_selection` (every menu code × deformation × direction × decoder: the selection
  succeeds with exactly the named objects), `directions_sum_to_one`, `front_end_fields_served`,
  `options_forwarded` (`max_bp_iter`, `alpha`, `beta` reach exactly the decoders whose constructor
  has them; every keyword passed is accepted), `channel_update_not_forwarded` (the defect, on the
  current source).
* `new_errors_is_model_sample`: with the lattice and noise models as the library, `/new-errors`
  returns `generate` of `probability_distribution` of the requested direction, rate and noise
  deformation on the requested class and size (C07 says what that distribution is), all `2n` entries.
* `decoder_names_route`: `/decoder-names` = `offeredDecoders` of the class the menu name denotes.
-/
import PanqecVerif.Proofs.GuiRoutes
import PanqecVerif.Generated.GuiRoutes
import PanqecVerif.Generated.Gui
import PanqecVerif.Proofs.Noise

namespace Panqec.C20Routes
open Panqec.Gui Panqec.GuiRepr Panqec.GuiRoutes

variable {Code EM Dec : Type}

/-! ### `/decode`: what is constructed, what is answered -/

/-- `/decode` constructs exactly what the request names: whenever the selection (`selectDecode`: no
    library involved) succeeds, `send_correction` IS the chain of library calls `runDecode` on it —
    `codes[code_name](*sizes)`, `deform` iff asked, `PauliErrorModel(direction, noise deformation)`,
    `decoders[decoder](code, error_model, p, **kwargs)`, `decode(syndrome)`, split at `code.n` -/
theorem decode_constructs (L : Library Code EM Dec) (codes : List CodeMenu)
    (decs : List DecoderMenu) (dirs : List (String × Dir)) (content : Req) (sel : DecodeSel)
    (h : selectDecode codes decs dirs content = .ok sel) :
    sendCorrection L codes decs dirs content = runDecode L sel := by
  unfold selectDecode at h
  obtain ⟨syn, h1, h⟩ := bind_eq_ok.mp h
  obtain ⟨p, h2, h⟩ := bind_eq_ok.mp h
  obtain ⟨nd, h3, h⟩ := bind_eq_ok.mp h
  obtain ⟨mbi, h4, h⟩ := bind_eq_ok.mp h
  obtain ⟨al, h5, h⟩ := bind_eq_ok.mp h
  obtain ⟨be, h6, h⟩ := bind_eq_ok.mp h
  obtain ⟨dn, h7, h⟩ := bind_eq_ok.mp h
  obtain ⟨en, h8, h⟩ := bind_eq_ok.mp h
  obtain ⟨cs, h9, h⟩ := bind_eq_ok.mp h
  obtain ⟨dir, h10, h⟩ := bind_eq_ok.mp h
  obtain ⟨cls, h11, h⟩ := bind_eq_ok.mp h
  cases h
  unfold sendCorrection runDecode instantiateCode
  simp only [h1, h2, h3, h4, h5, h6, h7, h8, h9, h10, h11, ok_bind]

/-- a request whose selection fails (missing field, unknown code / error model / decoder name, 3-D
    code without `Lz`) is never answered, whatever the library does -/
theorem decode_rejects (L : Library Code EM Dec) (codes : List CodeMenu)
    (decs : List DecoderMenu) (dirs : List (String × Dir)) (content : Req) (e : String)
    (h : selectDecode codes decs dirs content = .error e) :
    ∃ e', sendCorrection L codes decs dirs content = .error e' := by
  cases hs : sendCorrection L codes decs dirs content with
  | error e' => exact ⟨e', rfl⟩
  | ok ans =>
    exfalso
    unfold sendCorrection instantiateCode at hs
    obtain ⟨syn, h1, hs⟩ := bind_eq_ok.mp hs
    obtain ⟨p, h2, hs⟩ := bind_eq_ok.mp hs
    obtain ⟨nd, h3, hs⟩ := bind_eq_ok.mp hs
    obtain ⟨mbi, h4, hs⟩ := bind_eq_ok.mp hs
    obtain ⟨al, h5, hs⟩ := bind_eq_ok.mp hs
    obtain ⟨be, h6, hs⟩ := bind_eq_ok.mp hs
    obtain ⟨dn, h7, hs⟩ := bind_eq_ok.mp hs
    obtain ⟨en, h8, hs⟩ := bind_eq_ok.mp hs
    obtain ⟨code, h9, hs⟩ := bind_eq_ok.mp hs
    obtain ⟨cs, h9a, h9b⟩ := bind_eq_ok.mp h9
    obtain ⟨dir, h10, hs⟩ := bind_eq_ok.mp hs
    obtain ⟨em, h11, hs⟩ := bind_eq_ok.mp hs
    obtain ⟨cls, h12, hs⟩ := bind_eq_ok.mp hs
    unfold selectDecode at h
    simp only [h1, h2, h3, h4, h5, h6, h7, h8, h9a, h10, h12, ok_bind] at h
    cases h

/-- THE ANSWER OF `/decode`: if the route answers, the selection succeeded, every constructor call
    named by it succeeded, and the answer is the library decoder's correction for the request's
    syndrome, `x` = the first `code.n` entries, `z` = the rest (nothing lost, nothing reordered) -/
theorem decode_answer (L : Library Code EM Dec) (codes : List CodeMenu)
    (decs : List DecoderMenu) (dirs : List (String × Dir)) (content : Req) (ans : JV)
    (h : sendCorrection L codes decs dirs content = .ok ans) :
    ∃ sel code em dec correction,
      selectDecode codes decs dirs content = .ok sel ∧
      runCode L sel.code = .ok code ∧
      L.newErrorModel sel.direction sel.noiseDeformation = .ok em ∧
      L.newDecoder sel.decoderCls code em sel.p sel.kwargs = .ok dec ∧
      L.decode dec sel.syndrome = .ok correction ∧
      ans = .obj [("x", JV.ints (correction.take (L.n code))),
                  ("z", JV.ints (correction.drop (L.n code)))] ∧
      correction.take (L.n code) ++ correction.drop (L.n code) = correction := by
  cases hsel : selectDecode codes decs dirs content with
  | error e =>
    obtain ⟨e', he'⟩ := decode_rejects L codes decs dirs content e hsel
    rw [he'] at h; cases h
  | ok sel =>
    rw [decode_constructs L codes decs dirs content sel hsel] at h
    unfold runDecode at h
    obtain ⟨code, h1, h⟩ := bind_eq_ok.mp h
    obtain ⟨em, h2, h⟩ := bind_eq_ok.mp h
    obtain ⟨dec, h3, h⟩ := bind_eq_ok.mp h
    obtain ⟨corr, h4, h⟩ := bind_eq_ok.mp h
    cases h
    exact ⟨sel, code, em, dec, corr, rfl, h1, h2, h3, h4, rfl, List.take_append_drop _ _⟩

/-- a correction of length `2n` is split into two halves of length `n` -/
theorem split_halves (n : Nat) (correction : List Int) (h : correction.length = 2 * n) :
    (correction.take n).length = n ∧ (correction.drop n).length = n := by
  constructor
  · rw [List.length_take]; omega
  · rw [List.length_drop]; omega

/-! ### `/new-errors` -/

/-- `/new-errors` constructs exactly what the request names and asks the noise model for a sample
    of the requested channel on the requested code -/
theorem new_errors_constructs (L : Library Code EM Dec) (codes : List CodeMenu)
    (dirs : List (String × Dir)) (content : Req) (sel : NoiseSel)
    (h : selectNoise codes dirs content = .ok sel) :
    sendRandomErrors L codes dirs content = runNoise L sel := by
  unfold selectNoise at h
  obtain ⟨p, h1, h⟩ := bind_eq_ok.mp h
  obtain ⟨nd, h2, h⟩ := bind_eq_ok.mp h
  obtain ⟨en, h3, h⟩ := bind_eq_ok.mp h
  obtain ⟨cs, h4, h⟩ := bind_eq_ok.mp h
  obtain ⟨dir, h5, h⟩ := bind_eq_ok.mp h
  cases h
  unfold sendRandomErrors runNoise instantiateCode
  simp only [h1, h2, h3, h4, h5, ok_bind]

/-- THE ANSWER OF `/new-errors`: if the route answers, the answer is the WHOLE vector
    `error_model.generate(code, p)` returned (not split), for the error model and code the request
    names; and (the discarded `error_spec` comprehension having run) its entries `i` and `i + n`,
    `i < n`, exist and are 0 / 1 -/
theorem new_errors_answer (L : Library Code EM Dec) (codes : List CodeMenu)
    (dirs : List (String × Dir)) (content : Req) (ans : JV)
    (h : sendRandomErrors L codes dirs content = .ok ans) :
    ∃ sel code em errors,
      selectNoise codes dirs content = .ok sel ∧
      runCode L sel.code = .ok code ∧
      L.newErrorModel sel.direction sel.noiseDeformation = .ok em ∧
      L.generate em code sel.p = .ok errors ∧
      ans = JV.ints errors ∧
      ∀ i < L.n code, ∃ a b, errors[i]? = some a ∧ errors[i + L.n code]? = some b ∧
        (a = 0 ∨ a = 1) ∧ (b = 0 ∨ b = 1) := by
  unfold sendRandomErrors instantiateCode at h
  obtain ⟨p, h1, h⟩ := bind_eq_ok.mp h
  obtain ⟨nd, h2, h⟩ := bind_eq_ok.mp h
  obtain ⟨en, h3, h⟩ := bind_eq_ok.mp h
  obtain ⟨code, h4, h⟩ := bind_eq_ok.mp h
  obtain ⟨cs, h4a, h4b⟩ := bind_eq_ok.mp h4
  obtain ⟨dir, h5, h⟩ := bind_eq_ok.mp h
  obtain ⟨em, h6, h⟩ := bind_eq_ok.mp h
  obtain ⟨errors, h7, h⟩ := bind_eq_ok.mp h
  obtain ⟨u, h8, h⟩ := bind_eq_ok.mp h
  cases h
  refine ⟨⟨cs, dir, noiseDeformation nd, p⟩, code, em, errors, ?_, h4b, h6, h7, rfl,
    (errorSpecCheck_ok_iff _ _).mp h8⟩
  unfold selectNoise
  simp only [h1, h2, h3, h4a, h5, ok_bind]
  rfl

end Panqec.C20Routes
