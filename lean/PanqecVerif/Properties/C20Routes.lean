/-
C20, routes that hand the request to the library: `/decode` (`GUI.send_correction`), `/new-errors`
(`send_random_errors`), `_instantiate_code`, `/decoder-names` — the glue of `panqec/gui/_gui.py`
(`Model/GuiRoutes.lean`), with the library a parameter (`Library`) and, for `/new-errors`, the
lattice models and the noise model of C07 behind it (`Model/GuiRoutesLib.lean`).

* `decode_constructs`, `decode_answer`, `decode_rejects` — ANY library, ANY menus: the objects
  `/decode` constructs are exactly those the request names (`selectDecode`: class and positional
  sizes, `deform` iff the deformation is not "None", direction and noise deformation, decoder class,
  `p`, keyword arguments), in the order code → error model → decoder → `decode(syndrome)`; the answer
  is the library decoder's correction split at `code.n`; a request whose selection fails is never
  answered.  Same for `/new-errors` (`new_errors_constructs`, `new_errors_answer`).
* the selection rules: `select_code_2d` (a 2-D class gets `(Lx, Ly)`, `Lz` ignored, present or not),
  `select_code_3d`, `select_code_3d_without_Lz`, `select_code_unknown`, `deformation_none_rule`,
  `noise_deformation_rule`, `decoder_kwargs_rule`.
* `decode_reads_only`, `new_errors_reads_only`: the answer depends on the listed request fields
  only.  The repaired defect (fix PENDING): the front end sends the "Channel update (BP)" box as
  `channel_update`; the old glue (`oldSendCorrection`) could not depend on it
  (`old_decode_ignores_channel_update`, `old_channel_update_not_forwarded`), the repaired one
  forwards its truth value to 'BP-OSD' (`decoder_kwargs_rule`, `channel_update_reaches_bposd`) and
  is the old route for every other decoder (`repaired_agrees_off_bposd`).
* regenerated tables (`Generated/GuiRoutes.lean`: `noise_directions`, constructor signatures of the
  menu decoders, request bodies and decoder options of `main.js`), by `decide`:
  `menu_decode_selection` (every menu code × deformation × direction × decoder: the selection
  succeeds with exactly the named objects), `directions_sum_to_one`, `front_end_fields_served`,
  `options_forwarded` (EVERY option control of the decoder folder — `max_bp_iter`, `channel_update`,
  `alpha`, `beta` — reaches exactly the decoders whose constructor has a parameter of that name;
  every keyword passed is accepted), `decoder_options_read`.
* `new_errors_is_model_sample` (in `Properties/C20RoutesNoise.lean`): with the lattice and noise models as the library, `/new-errors`
  returns `generate` of `probability_distribution` of the requested direction, rate and noise
  deformation on the requested class and size (C07 says what that distribution is), all `2n` entries.
* `decoder_names_route`: `/decoder-names` = `offeredDecoders` of the class the menu name denotes.
-/
import PanqecVerif.Proofs.GuiRoutes
import PanqecVerif.Generated.GuiRoutes
import PanqecVerif.Generated.Gui
import PanqecVerif.Proofs.Noise

namespace Panqec.C20Routes
open Panqec.Gui Panqec.GuiRepr Panqec.GuiRoutes

variable {Code EM Dec : Type}

/-! ### `/decode`: what is constructed, what is answered -/

/-- `/decode` constructs exactly what the request names: whenever the selection (`selectDecode`: no
    library involved) succeeds, `send_correction` IS the chain of library calls `runDecode` on it —
    `codes[code_name](*sizes)`, `deform` iff asked, `PauliErrorModel(direction, noise deformation)`,
    `decoders[decoder](code, error_model, p, **kwargs)`, `decode(syndrome)`, split at `code.n` -/
theorem decode_constructs (L : Library Code EM Dec) (codes : List CodeMenu)
    (decs : List DecoderMenu) (dirs : List (String × Dir)) (content : Req) (sel : DecodeSel)
    (h : selectDecode codes decs dirs content = .ok sel) :
    sendCorrection L codes decs dirs content = runDecode L sel := by
  unfold selectDecode at h
  obtain ⟨syn, h1, h⟩ := bind_eq_ok.mp h
  obtain ⟨p, h2, h⟩ := bind_eq_ok.mp h
  obtain ⟨nd, h3, h⟩ := bind_eq_ok.mp h
  obtain ⟨mbi, h4, h⟩ := bind_eq_ok.mp h
  obtain ⟨al, h5, h⟩ := bind_eq_ok.mp h
  obtain ⟨be, h6, h⟩ := bind_eq_ok.mp h
  obtain ⟨dn, h7, h⟩ := bind_eq_ok.mp h
  obtain ⟨en, h8, h⟩ := bind_eq_ok.mp h
  obtain ⟨cs, h9, h⟩ := bind_eq_ok.mp h
  obtain ⟨dir, h10, h⟩ := bind_eq_ok.mp h
  obtain ⟨cls, h11, h⟩ := bind_eq_ok.mp h
  cases h
  unfold sendCorrection runDecode instantiateCode
  simp only [h1, h2, h3, h4, h5, h6, h7, h8, h9, h10, h11, ok_bind]

/-- a request whose selection fails (missing field, unknown code / error model / decoder name, 3-D
    code without `Lz`) is never answered, whatever the library does -/
theorem decode_rejects (L : Library Code EM Dec) (codes : List CodeMenu)
    (decs : List DecoderMenu) (dirs : List (String × Dir)) (content : Req) (e : String)
    (h : selectDecode codes decs dirs content = .error e) :
    ∃ e', sendCorrection L codes decs dirs content = .error e' := by
  cases hs : sendCorrection L codes decs dirs content with
  | error e' => exact ⟨e', rfl⟩
  | ok ans =>
    exfalso
    unfold sendCorrection instantiateCode at hs
    obtain ⟨syn, h1, hs⟩ := bind_eq_ok.mp hs
    obtain ⟨p, h2, hs⟩ := bind_eq_ok.mp hs
    obtain ⟨nd, h3, hs⟩ := bind_eq_ok.mp hs
    obtain ⟨mbi, h4, hs⟩ := bind_eq_ok.mp hs
    obtain ⟨al, h5, hs⟩ := bind_eq_ok.mp hs
    obtain ⟨be, h6, hs⟩ := bind_eq_ok.mp hs
    obtain ⟨dn, h7, hs⟩ := bind_eq_ok.mp hs
    obtain ⟨en, h8, hs⟩ := bind_eq_ok.mp hs
    obtain ⟨code, h9, hs⟩ := bind_eq_ok.mp hs
    obtain ⟨cs, h9a, h9b⟩ := bind_eq_ok.mp h9
    obtain ⟨dir, h10, hs⟩ := bind_eq_ok.mp hs
    obtain ⟨em, h11, hs⟩ := bind_eq_ok.mp hs
    obtain ⟨cls, h12, hs⟩ := bind_eq_ok.mp hs
    unfold selectDecode at h
    simp only [h1, h2, h3, h4, h5, h6, h7, h8, h9a, h10, h12, ok_bind] at h
    cases h

/-- THE ANSWER OF `/decode`: if the route answers, the selection succeeded, every constructor call
    named by it succeeded, and the answer is the library decoder's correction for the request's
    syndrome, `x` = the first `code.n` entries, `z` = the rest (nothing lost, nothing reordered) -/
theorem decode_answer (L : Library Code EM Dec) (codes : List CodeMenu)
    (decs : List DecoderMenu) (dirs : List (String × Dir)) (content : Req) (ans : JV)
    (h : sendCorrection L codes decs dirs content = .ok ans) :
    ∃ sel code em dec correction,
      selectDecode codes decs dirs content = .ok sel ∧
      runCode L sel.code = .ok code ∧
      L.newErrorModel sel.direction sel.noiseDeformation = .ok em ∧
      L.newDecoder sel.decoderCls code em sel.p sel.kwargs = .ok dec ∧
      L.decode dec sel.syndrome = .ok correction ∧
      ans = .obj [("x", JV.ints (correction.take (L.n code))),
                  ("z", JV.ints (correction.drop (L.n code)))] ∧
      correction.take (L.n code) ++ correction.drop (L.n code) = correction := by
  cases hsel : selectDecode codes decs dirs content with
  | error e =>
    obtain ⟨e', he'⟩ := decode_rejects L codes decs dirs content e hsel
    rw [he'] at h; cases h
  | ok sel =>
    rw [decode_constructs L codes decs dirs content sel hsel] at h
    unfold runDecode at h
    obtain ⟨code, h1, h⟩ := bind_eq_ok.mp h
    obtain ⟨em, h2, h⟩ := bind_eq_ok.mp h
    obtain ⟨dec, h3, h⟩ := bind_eq_ok.mp h
    obtain ⟨corr, h4, h⟩ := bind_eq_ok.mp h
    cases h
    exact ⟨sel, code, em, dec, corr, rfl, h1, h2, h3, h4, rfl, List.take_append_drop _ _⟩

/-- a correction of length `2n` is split into two halves of length `n` -/
theorem split_halves (n : Nat) (correction : List Int) (h : correction.length = 2 * n) :
    (correction.take n).length = n ∧ (correction.drop n).length = n := by
  constructor
  · rw [List.length_take]; omega
  · rw [List.length_drop]; omega

/-! ### `/new-errors` -/

/-- `/new-errors` constructs exactly what the request names and asks the noise model for a sample
    of the requested channel on the requested code -/
theorem new_errors_constructs (L : Library Code EM Dec) (codes : List CodeMenu)
    (dirs : List (String × Dir)) (content : Req) (sel : NoiseSel)
    (h : selectNoise codes dirs content = .ok sel) :
    sendRandomErrors L codes dirs content = runNoise L sel := by
  unfold selectNoise at h
  obtain ⟨p, h1, h⟩ := bind_eq_ok.mp h
  obtain ⟨nd, h2, h⟩ := bind_eq_ok.mp h
  obtain ⟨en, h3, h⟩ := bind_eq_ok.mp h
  obtain ⟨cs, h4, h⟩ := bind_eq_ok.mp h
  obtain ⟨dir, h5, h⟩ := bind_eq_ok.mp h
  cases h
  unfold sendRandomErrors runNoise instantiateCode
  simp only [h1, h2, h3, h4, h5, ok_bind]

/-- THE ANSWER OF `/new-errors`: if the route answers, the answer is the WHOLE vector
    `error_model.generate(code, p)` returned (not split), for the error model and code the request
    names; and (the discarded `error_spec` comprehension having run) its entries `i` and `i + n`,
    `i < n`, exist and are 0 / 1 -/
theorem new_errors_answer (L : Library Code EM Dec) (codes : List CodeMenu)
    (dirs : List (String × Dir)) (content : Req) (ans : JV)
    (h : sendRandomErrors L codes dirs content = .ok ans) :
    ∃ sel code em errors,
      selectNoise codes dirs content = .ok sel ∧
      runCode L sel.code = .ok code ∧
      L.newErrorModel sel.direction sel.noiseDeformation = .ok em ∧
      L.generate em code sel.p = .ok errors ∧
      ans = JV.ints errors ∧
      ∀ i < L.n code, ∃ a b, errors[i]? = some a ∧ errors[i + L.n code]? = some b ∧
        (a = 0 ∨ a = 1) ∧ (b = 0 ∨ b = 1) := by
  unfold sendRandomErrors instantiateCode at h
  obtain ⟨p, h1, h⟩ := bind_eq_ok.mp h
  obtain ⟨nd, h2, h⟩ := bind_eq_ok.mp h
  obtain ⟨en, h3, h⟩ := bind_eq_ok.mp h
  obtain ⟨code, h4, h⟩ := bind_eq_ok.mp h
  obtain ⟨cs, h4a, h4b⟩ := bind_eq_ok.mp h4
  obtain ⟨dir, h5, h⟩ := bind_eq_ok.mp h
  obtain ⟨em, h6, h⟩ := bind_eq_ok.mp h
  obtain ⟨errors, h7, h⟩ := bind_eq_ok.mp h
  obtain ⟨u, h8, h⟩ := bind_eq_ok.mp h
  cases h
  refine ⟨⟨cs, dir, noiseDeformation nd, p⟩, code, em, errors, ?_, h4b, h6, h7, rfl,
    (errorSpecCheck_ok_iff _ _).mp h8⟩
  unfold selectNoise
  simp only [h1, h2, h3, h4a, h5, ok_bind]
  rfl

/-! ### the selection rules -/

/-- `code_deformation_name`: `"None"` means no `deform` call, every other value is passed on -/
theorem deformation_none_rule (codes : List CodeMenu) (data : Req) (sel : CodeSel) (dn : JV)
    (hd : getKey data "code_deformation_name" = some dn) (h : selectCode codes data = .ok sel) :
    sel.deformation = if isStr dn "None" then none else some dn := by
  unfold selectCode at h
  obtain ⟨lx, h1, h⟩ := bind_eq_ok.mp h
  obtain ⟨ly, h2, h⟩ := bind_eq_ok.mp h
  obtain ⟨name, h3, h⟩ := bind_eq_ok.mp h
  obtain ⟨dn', h4, h⟩ := bind_eq_ok.mp h
  have : dn' = dn := by
    have := field_eq_ok.mp h4; rw [hd] at this; exact (Option.some.inj this).symm
  subst this
  cases name with
  | str s =>
    simp only at h
    split at h
    · obtain ⟨cls, _, h⟩ := bind_eq_ok.mp h; cases h; rfl
    · split at h
      · obtain ⟨cls, _, h⟩ := bind_eq_ok.mp h
        cases hz : getKey data "Lz" with
        | none => simp [hz] at h
        | some z => simp only [hz] at h; cases h; rfl
      · cases h
  | _ => cases h

/-- THE RULE FOR 2-D CLASSES: a menu name of a 2-D class selects that class with the positional
    arguments `(Lx, Ly)` — `Lz` is not used, whether the request carries it (the front end always
    does) or not -/
theorem select_code_2d (codes : List CodeMenu) (data : Req) (c : CodeMenu) (lx ly dn : JV)
    (hfind : codes.find? (·.menuName == c.menuName) = some c) (hdim : c.dimension = 2)
    (hx : getKey data "Lx" = some lx) (hy : getKey data "Ly" = some ly)
    (hn : getKey data "code_name" = some (.str c.menuName))
    (hd : getKey data "code_deformation_name" = some dn) :
    selectCode codes data =
      .ok ⟨c.cls, [lx, ly], if isStr dn "None" then none else some dn⟩ := by
  have hmem : (codeNames codes 2).contains c.menuName = true := by
    rw [List.contains_iff_mem]
    unfold codeNames
    refine List.mem_map.mpr ⟨c, List.mem_filter.mpr ⟨List.mem_of_find?_eq_some hfind, ?_⟩, rfl⟩
    simp [hdim]
  unfold selectCode
  simp only [field_of_getKey hx, field_of_getKey hy, field_of_getKey hn, field_of_getKey hd, ok_bind,
    hmem, if_true, classOf, hfind]
  rfl

/-- a menu name of a 3-D class selects that class with `(Lx, Ly, Lz)` -/
theorem select_code_3d (codes : List CodeMenu) (data : Req) (c : CodeMenu) (lx ly lz dn : JV)
    (hfind : codes.find? (·.menuName == c.menuName) = some c) (hdim : c.dimension = 3)
    (hnodup : ∀ c' ∈ codes, c'.menuName = c.menuName → c'.dimension = 3)
    (hx : getKey data "Lx" = some lx) (hy : getKey data "Ly" = some ly)
    (hz : getKey data "Lz" = some lz)
    (hn : getKey data "code_name" = some (.str c.menuName))
    (hd : getKey data "code_deformation_name" = some dn) :
    selectCode codes data =
      .ok ⟨c.cls, [lx, ly, lz], if isStr dn "None" then none else some dn⟩ := by
  have hmem3 : (codeNames codes 3).contains c.menuName = true := by
    rw [List.contains_iff_mem]
    unfold codeNames
    refine List.mem_map.mpr ⟨c, List.mem_filter.mpr ⟨List.mem_of_find?_eq_some hfind, ?_⟩, rfl⟩
    simp [hdim]
  have hmem2 : (codeNames codes 2).contains c.menuName = false := by
    rw [Bool.eq_false_iff]
    intro hc
    rw [List.contains_iff_mem] at hc
    unfold codeNames at hc
    obtain ⟨c', hc', hname⟩ := List.mem_map.mp hc
    obtain ⟨hin, hd2⟩ := List.mem_filter.mp hc'
    have := hnodup c' hin hname
    simp [this] at hd2
  unfold selectCode
  simp only [field_of_getKey hx, field_of_getKey hy, field_of_getKey hn, field_of_getKey hd, ok_bind,
    hmem2, hmem3, if_true, classOf, hfind, hz, Bool.false_eq_true, if_false]
  rfl

/-- a 3-D class without `Lz` in the request: `UnboundLocalError` (the front end always sends it) -/
theorem select_code_3d_without_Lz (codes : List CodeMenu) (data : Req) (c : CodeMenu)
    (lx ly dn : JV)
    (hfind : codes.find? (·.menuName == c.menuName) = some c) (hdim : c.dimension = 3)
    (hnodup : ∀ c' ∈ codes, c'.menuName = c.menuName → c'.dimension = 3)
    (hx : getKey data "Lx" = some lx) (hy : getKey data "Ly" = some ly)
    (hz : getKey data "Lz" = none)
    (hn : getKey data "code_name" = some (.str c.menuName))
    (hd : getKey data "code_deformation_name" = some dn) :
    selectCode codes data = .error "UnboundLocalError" := by
  have hmem3 : (codeNames codes 3).contains c.menuName = true := by
    rw [List.contains_iff_mem]
    unfold codeNames
    refine List.mem_map.mpr ⟨c, List.mem_filter.mpr ⟨List.mem_of_find?_eq_some hfind, ?_⟩, rfl⟩
    simp [hdim]
  have hmem2 : (codeNames codes 2).contains c.menuName = false := by
    rw [Bool.eq_false_iff]
    intro hc
    rw [List.contains_iff_mem] at hc
    unfold codeNames at hc
    obtain ⟨c', hc', hname⟩ := List.mem_map.mp hc
    obtain ⟨hin, hd2⟩ := List.mem_filter.mp hc'
    have := hnodup c' hin hname
    simp [this] at hd2
  unfold selectCode
  simp only [field_of_getKey hx, field_of_getKey hy, field_of_getKey hn, field_of_getKey hd, ok_bind,
    hmem2, hmem3, if_true, classOf, hfind, hz, Bool.false_eq_true, if_false]

/-- a name that is in neither menu (or is not a string): `ValueError`, nothing is constructed -/
theorem select_code_unknown (codes : List CodeMenu) (data : Req) (name lx ly dn : JV)
    (hx : getKey data "Lx" = some lx) (hy : getKey data "Ly" = some ly)
    (hn : getKey data "code_name" = some name)
    (hd : getKey data "code_deformation_name" = some dn)
    (hnot : ∀ s, name = .str s → ∀ c ∈ codes, c.menuName = s → c.dimension ≠ 2 ∧ c.dimension ≠ 3) :
    selectCode codes data = .error "ValueError" := by
  unfold selectCode
  simp only [field_of_getKey hx, field_of_getKey hy, field_of_getKey hn, field_of_getKey hd, ok_bind]
  cases name with
  | str s =>
    have hm : ∀ d, (d = 2 ∨ d = 3) → (codeNames codes d).contains s = false := by
      intro d hd'
      rw [Bool.eq_false_iff]
      intro hc
      rw [List.contains_iff_mem] at hc
      unfold codeNames at hc
      obtain ⟨c', hc', hname⟩ := List.mem_map.mp hc
      obtain ⟨hin, hd2⟩ := List.mem_filter.mp hc'
      have := hnot s rfl c' hin hname
      have hd3 : c'.dimension = d := by simpa using hd2
      rcases hd' with rfl | rfl
      · exact this.1 hd3
      · exact this.2 hd3
    simp only [hm 2 (Or.inl rfl), hm 3 (Or.inr rfl), Bool.false_eq_true, if_false]
  | _ => rfl

/-- `noise_deformation_name`: `"None"` becomes Python `None`, every other value is passed on -/
theorem noise_deformation_rule (v : JV) :
    (v = .str "None" → noiseDeformation v = .null) ∧
    ((∀ s, v = .str s → s ≠ "None") → noiseDeformation v = v) := by
  constructor
  · rintro rfl; rfl
  · intro h
    unfold noiseDeformation isStr
    cases v with
    | str t =>
      have := h t rfl
      have hb : (t == "None") = false := by simpa using this
      simp [hb]
    | _ => rfl

/-- THE KEYWORD ARGUMENTS PER DECODER: 'BP-OSD' gets `max_bp_iter` (as sent), `osd_order = 0` and
    `channel_update` = the truth value of the request's field (`False` when absent); 'MBP' gets
    `max_bp_iter`, `alpha`, `beta` (as sent); every other decoder gets none — and no decoder gets
    anything else -/
theorem decoder_kwargs_rule (m a b : JV) (cu : Option JV) :
    decoderKwargs (.str "BP-OSD") m a b cu =
      [("max_bp_iter", m), ("osd_order", JV.i 0),
       ("channel_update", .bool (truthy (cu.getD (.bool false))))] ∧
    decoderKwargs (.str "MBP") m a b cu = [("max_bp_iter", m), ("alpha", a), ("beta", b)] ∧
    (∀ v, (∀ s, v = .str s → s ≠ "BP-OSD" ∧ s ≠ "MBP") → decoderKwargs v m a b cu = []) := by
  refine ⟨rfl, rfl, ?_⟩
  intro v hv
  unfold decoderKwargs inNames isStr
  cases v with
  | str s =>
    obtain ⟨h1, h2⟩ := hv s rfl
    have e1 : (s == "BP-OSD") = false := by simpa using h1
    have e2 : (s == "MBP") = false := by simpa using h2
    simp [e1, e2, h1, h2]
  | _ => rfl

/-- the box of the menu reaches the BP-OSD decoder: ticked (`true`) → `channel_update=True`,
    unticked or absent → `False` -/
theorem channel_update_reaches_bposd (m a b : JV) :
    (decoderKwargs (.str "BP-OSD") m a b (some (.bool true))).find? (·.1 == "channel_update") =
      some ("channel_update", .bool true) ∧
    (decoderKwargs (.str "BP-OSD") m a b (some (.bool false))).find? (·.1 == "channel_update") =
      some ("channel_update", .bool false) ∧
    (decoderKwargs (.str "BP-OSD") m a b none).find? (·.1 == "channel_update") =
      some ("channel_update", .bool false) := ⟨rfl, rfl, rfl⟩

/-! ### the answer depends on the fields read only -/

/-- `/decode` reads the fourteen fields of `decodeFieldsRead` and nothing else: two requests that
    agree on them get the same answer (same constructor calls, same error) from any library -/
theorem decode_reads_only (L : Library Code EM Dec) (codes : List CodeMenu)
    (decs : List DecoderMenu) (dirs : List (String × Dir)) (r1 r2 : Req)
    (h : ∀ k ∈ decodeFieldsRead, getKey r1 k = getKey r2 k) :
    sendCorrection L codes decs dirs r1 = sendCorrection L codes decs dirs r2 := by
  unfold sendCorrection instantiateCode selectCode field
  simp only [h "syndrome" (by decide), h "p" (by decide), h "noise_deformation_name" (by decide),
    h "max_bp_iter" (by decide), h "alpha" (by decide), h "beta" (by decide),
    h "decoder" (by decide), h "error_model" (by decide), h "Lx" (by decide), h "Ly" (by decide),
    h "Lz" (by decide), h "code_name" (by decide), h "code_deformation_name" (by decide),
    h "channel_update" (by decide)]

/-- `/new-errors` reads the eight fields of `newErrorsFieldsRead` and nothing else -/
theorem new_errors_reads_only (L : Library Code EM Dec) (codes : List CodeMenu)
    (dirs : List (String × Dir)) (r1 r2 : Req)
    (h : ∀ k ∈ newErrorsFieldsRead, getKey r1 k = getKey r2 k) :
    sendRandomErrors L codes dirs r1 = sendRandomErrors L codes dirs r2 := by
  unfold sendRandomErrors instantiateCode selectCode field
  simp only [h "p" (by decide), h "noise_deformation_name" (by decide),
    h "error_model" (by decide), h "Lx" (by decide), h "Ly" (by decide),
    h "Lz" (by decide), h "code_name" (by decide), h "code_deformation_name" (by decide)]

/-- the glue before the repair read the thirteen fields of `oldDecodeFieldsRead` only -/
theorem old_decode_reads_only (L : Library Code EM Dec) (codes : List CodeMenu)
    (decs : List DecoderMenu) (dirs : List (String × Dir)) (r1 r2 : Req)
    (h : ∀ k ∈ oldDecodeFieldsRead, getKey r1 k = getKey r2 k) :
    oldSendCorrection L codes decs dirs r1 = oldSendCorrection L codes decs dirs r2 := by
  unfold oldSendCorrection instantiateCode selectCode field
  simp only [h "syndrome" (by decide), h "p" (by decide), h "noise_deformation_name" (by decide),
    h "max_bp_iter" (by decide), h "alpha" (by decide), h "beta" (by decide),
    h "decoder" (by decide), h "error_model" (by decide), h "Lx" (by decide), h "Ly" (by decide),
    h "Lz" (by decide), h "code_name" (by decide), h "code_deformation_name" (by decide)]

/-- THE DEFECT THAT WAS REPAIRED (regression statement about the old glue): whatever value the
    request carried for `channel_update` — the "Channel update (BP)" box of the menu — the old answer
    of `/decode` was the same, for every library: the chosen option could not reach the decoder -/
theorem old_decode_ignores_channel_update (L : Library Code EM Dec) (codes : List CodeMenu)
    (decs : List DecoderMenu) (dirs : List (String × Dir)) (content : Req) (v : JV) :
    oldSendCorrection L codes decs dirs (setKey content "channel_update" v) =
      oldSendCorrection L codes decs dirs content := by
  apply old_decode_reads_only
  intro k hk
  apply getKey_setKey_ne
  revert k
  decide

/-- the repaired route differs from the old one in the keyword arguments only, and only for
    'BP-OSD': for every other decoder value the two routes are the same function of the request -/
theorem repaired_agrees_off_bposd (L : Library Code EM Dec) (codes : List CodeMenu)
    (decs : List DecoderMenu) (dirs : List (String × Dir)) (content : Req)
    (h : ∀ v, getKey content "decoder" = some v → isStr v "BP-OSD" = false) :
    sendCorrection L codes decs dirs content = oldSendCorrection L codes decs dirs content := by
  unfold sendCorrection oldSendCorrection
  cases hd : getKey content "decoder" with
  | none =>
    have hf : field content "decoder" = .error "KeyError" := by unfold field; rw [hd]
    simp only [hf, err_bind]
  | some v =>
    have hf : field content "decoder" = .ok v := field_of_getKey hd
    have hk : ∀ m a b cu, decoderKwargs v m a b cu = oldDecoderKwargs v m a b := by
      intro m a b cu
      unfold decoderKwargs oldDecoderKwargs
      rw [h v hd]
      rfl
    simp only [hf, ok_bind, hk]

/-! ### every menu combination (regenerated tables) -/

/-- the positional sizes of a menu class -/
def sizeArgs (c : CodeMenu) (lx ly lz : JV) : List JV :=
  if c.dimension = 2 then [lx, ly] else [lx, ly, lz]

/-- the selection a front-end `/decode` request must produce -/
def expectedDecodeSel (c : CodeMenu) (d : DecoderMenu) (e : String × Dir)
    (lx ly lz p m a b cu syn : JV) (ndn cdn : String) : DecodeSel :=
  ⟨⟨c.cls, sizeArgs c lx ly lz, if isStr (.str cdn) "None" then none else some (.str cdn)⟩,
   e.2, noiseDeformation (.str ndn), d.cls, p, decoderKwargs (.str d.menuName) m a b (some cu), syn⟩

/-- for ANY menus whose names are distinct keys (as those of Python dicts are): a front-end request
    naming a menu code, a menu decoder and a menu error model selects exactly them -/
theorem select_decode_front_end (codes : List CodeMenu) (decs : List DecoderMenu)
    (dirs : List (String × Dir)) (c : CodeMenu) (d : DecoderMenu) (e : String × Dir)
    (hc : codes.find? (·.menuName == c.menuName) = some c)
    (hdim : c.dimension = 2 ∨ c.dimension = 3)
    (huniq : ∀ c' ∈ codes, c'.menuName = c.menuName → c'.dimension = c.dimension)
    (hd : decs.find? (·.menuName == d.menuName) = some d)
    (he : dirs.find? (·.1 == e.1) = some e)
    (lx ly lz p m a b cu syn : JV) (ndn cdn : String) :
    selectDecode codes decs dirs
        (frontEndDecodeReq c.menuName lx ly lz p m a b cu syn ndn d.menuName e.1 cdn) =
      .ok (expectedDecodeSel c d e lx ly lz p m a b cu syn ndn cdn) := by
  have hsel : selectCode codes
      (frontEndDecodeReq c.menuName lx ly lz p m a b cu syn ndn d.menuName e.1 cdn) =
      .ok ⟨c.cls, sizeArgs c lx ly lz, if isStr (.str cdn) "None" then none else some (.str cdn)⟩ := by
    rcases hdim with h2 | h3
    · rw [select_code_2d codes _ c lx ly (.str cdn) hc h2 rfl rfl rfl rfl]
      simp [sizeArgs, h2]
    · rw [select_code_3d codes _ c lx ly lz (.str cdn) hc h3
        (fun c' hc' hn => by rw [huniq c' hc' hn, h3]) rfl rfl rfl rfl rfl]
      simp [sizeArgs, h3]
  unfold selectDecode
  have f1 : ∀ k v, getKey (frontEndDecodeReq c.menuName lx ly lz p m a b cu syn ndn d.menuName e.1 cdn) k
      = some v → field (frontEndDecodeReq c.menuName lx ly lz p m a b cu syn ndn d.menuName e.1 cdn) k
      = .ok v := fun k v h => field_of_getKey h
  simp only [f1 "syndrome" syn rfl, f1 "p" p rfl, f1 "noise_deformation_name" (.str ndn) rfl,
    f1 "max_bp_iter" m rfl, f1 "alpha" a rfl, f1 "beta" b rfl, f1 "decoder" (.str d.menuName) rfl,
    f1 "error_model" (.str e.1) rfl, hsel, ok_bind, directionOf, dictKey, he, decoderClassOf, hd]
  rfl

/-- table facts the theorem above needs: menu names are distinct keys, dimensions are 2 or 3 -/
def menusWellKeyed (codes : List CodeMenu) (decs : List DecoderMenu) (dirs : List (String × Dir)) :
    Bool :=
  (codes.all fun c => decide (codes.find? (·.menuName == c.menuName) = some c) &&
      (c.dimension == 2 || c.dimension == 3) &&
      codes.all fun c' => c'.menuName != c.menuName || c'.dimension == c.dimension) &&
  (decs.all fun d => decide (decs.find? (·.menuName == d.menuName) = some d)) &&
  (dirs.all fun e => decide (dirs.find? (·.1 == e.1) = some e))

theorem menus_well_keyed :
    menusWellKeyed Generated.Gui.codes Generated.Gui.decoders
      Generated.GuiRoutes.noiseDirections = true := by decide +kernel

/-- EVERY MENU COMBINATION, on the regenerated menus of the current source: for every code of the
    code menu, every decoder of the decoder menu (offered for that code or not: the route does not
    check), every error model of `noise_directions`, any sizes, rate, options, syndrome, any code
    and noise deformation names, the request `main.js` builds selects exactly: the class of that
    menu entry with `(Lx, Ly)` (2-D) or `(Lx, Ly, Lz)` (3-D), `deform(name)` iff the name is not
    "None", the direction of that error model with the noise deformation (`None` for "None"), the
    class of that decoder entry with the rate as sent and the keyword arguments of
    `decoder_kwargs_rule`, and the syndrome as sent -/
theorem menu_decode_selection (c : CodeMenu) (hc : c ∈ Generated.Gui.codes)
    (d : DecoderMenu) (hd : d ∈ Generated.Gui.decoders)
    (e : String × Dir) (he : e ∈ Generated.GuiRoutes.noiseDirections)
    (lx ly lz p m a b cu syn : JV) (ndn cdn : String) :
    selectDecode Generated.Gui.codes Generated.Gui.decoders Generated.GuiRoutes.noiseDirections
        (frontEndDecodeReq c.menuName lx ly lz p m a b cu syn ndn d.menuName e.1 cdn) =
      .ok (expectedDecodeSel c d e lx ly lz p m a b cu syn ndn cdn) := by
  have h := menus_well_keyed
  unfold menusWellKeyed at h
  simp only [Bool.and_eq_true, List.all_eq_true, decide_eq_true_eq, Bool.or_eq_true, beq_iff_eq,
    bne_iff_ne, ne_eq] at h
  obtain ⟨⟨h1, h2⟩, h3⟩ := h
  obtain ⟨⟨hfind, hdim⟩, huniq⟩ := h1 c hc
  refine select_decode_front_end _ _ _ c d e hfind hdim ?_ (h2 d hd) (h3 e he) ..
  intro c' hc' hn
  rcases huniq c' hc' with h' | h'
  · exact absurd hn h'
  · exact h'

/-- the same for `/new-errors` -/
theorem menu_noise_selection (c : CodeMenu) (hc : c ∈ Generated.Gui.codes)
    (e : String × Dir) (he : e ∈ Generated.GuiRoutes.noiseDirections)
    (lx ly lz p : JV) (ndn cdn : String) :
    selectNoise Generated.Gui.codes Generated.GuiRoutes.noiseDirections
        (frontEndNoiseReq c.menuName lx ly lz p ndn e.1 cdn) =
      .ok ⟨⟨c.cls, sizeArgs c lx ly lz, if isStr (.str cdn) "None" then none else some (.str cdn)⟩,
           e.2, noiseDeformation (.str ndn), p⟩ := by
  have h := menus_well_keyed
  unfold menusWellKeyed at h
  simp only [Bool.and_eq_true, List.all_eq_true, decide_eq_true_eq, Bool.or_eq_true, beq_iff_eq,
    bne_iff_ne, ne_eq] at h
  obtain ⟨⟨h1, _⟩, h3⟩ := h
  obtain ⟨⟨hfind, hdim⟩, huniq⟩ := h1 c hc
  have hsel : selectCode Generated.Gui.codes (frontEndNoiseReq c.menuName lx ly lz p ndn e.1 cdn) =
      .ok ⟨c.cls, sizeArgs c lx ly lz, if isStr (.str cdn) "None" then none else some (.str cdn)⟩ := by
    rcases hdim with h2 | h3'
    · rw [select_code_2d _ _ c lx ly (.str cdn) hfind h2 rfl rfl rfl rfl]
      simp [sizeArgs, h2]
    · rw [select_code_3d _ _ c lx ly lz (.str cdn) hfind h3'
        (fun c' hc' hn => by
          rcases huniq c' hc' with h' | h'
          · exact absurd hn h'
          · rw [h', h3']) rfl rfl rfl rfl rfl]
      simp [sizeArgs, h3']
  unfold selectNoise
  have f1 : ∀ k v, getKey (frontEndNoiseReq c.menuName lx ly lz p ndn e.1 cdn) k = some v →
      field (frontEndNoiseReq c.menuName lx ly lz p ndn e.1 cdn) k = .ok v :=
    fun k v h => field_of_getKey h
  simp only [f1 "p" p rfl, f1 "noise_deformation_name" (.str ndn) rfl,
    f1 "error_model" (.str e.1) rfl, hsel, ok_bind, directionOf, dictKey, h3 e he]
  rfl

/-- the noise directions of the menu sum to one (so `PauliErrorModel` accepts them) and are
    non-negative -/
theorem directions_sum_to_one :
    ∀ e ∈ Generated.GuiRoutes.noiseDirections,
      e.2.1 + e.2.2.1 + e.2.2.2 = 1 ∧ 0 ≤ e.2.1 ∧ 0 ≤ e.2.2.1 ∧ 0 ≤ e.2.2.2 := by
  decide +kernel

/-! ### what the front end sends against what the routes read and forward (regenerated) -/

open Generated.GuiRoutes in
/-- the requests `main.js` builds carry every field the routes read (no `KeyError` for a front-end
    request), `frontEndDecodeReq` / `frontEndNoiseReq` have exactly the keys `main.js` writes, and
    EVERY field sent is read (before the repair `channel_update` was the one field of `/decode` that
    was sent and not read) -/
theorem front_end_fields_served :
    decodeFieldsRead.all decodeFieldsSent.contains = true ∧
    newErrorsFieldsRead.all newErrorsFieldsSent.contains = true ∧
    decodeFieldsSent.filter (fun f => !decodeFieldsRead.contains f) = [] ∧
    newErrorsFieldsSent.filter (fun f => !newErrorsFieldsRead.contains f) = [] ∧
    decodeFieldsSent.filter (fun f => !oldDecodeFieldsRead.contains f) = ["channel_update"] ∧
    (∀ n lx ly lz p m a b cu syn ndn dec em cdn,
      (frontEndDecodeReq n lx ly lz p m a b cu syn ndn dec em cdn).map (·.1) = decodeFieldsSent) ∧
    (∀ n lx ly lz p ndn em cdn,
      (frontEndNoiseReq n lx ly lz p ndn em cdn).map (·.1) = newErrorsFieldsSent) := by
  refine ⟨by decide, by decide, by decide, by decide, by decide, ?_, ?_⟩
  · intros; rfl
  · intros; rfl

/-- the keyword parameters of the constructor of a menu decoder (`[]` for an unknown name) -/
def ctorParams (name : String) : List String :=
  ((Generated.GuiRoutes.decoderCtorParams.find? (·.1 == name)).map (·.2)).getD []

/-- THE OPTIONS REACH THE DECODERS: on the regenerated menu and constructor signatures, for every
    menu decoder (a) every keyword argument the route passes is a parameter of its constructor (no
    `TypeError`), and (b) EVERY option control of the menu's decoder folder (`max_bp_iter`,
    `channel_update`, `alpha`, `beta`: all controls but the decoder selector itself) is forwarded to
    exactly the decoders whose constructor has a parameter of that name -/
theorem options_forwarded :
    Generated.Gui.decoders.all (fun d =>
      ((decoderKwargs (.str d.menuName) .null .null .null none).map (·.1)).all
          (ctorParams d.menuName).contains &&
      (Generated.GuiRoutes.decoderFolderOptions.filter (· != "decoder")).all fun o =>
        (ctorParams d.menuName).contains o == (forwardedOptions d.menuName).contains o) = true := by
  decide

/-- every control of the decoder folder is a request field the route reads -/
theorem decoder_options_read :
    Generated.GuiRoutes.decoderFolderOptions.all decodeFieldsRead.contains = true := by decide

/-- THE DEFECT THAT WAS REPAIRED, regression statement on the regenerated tables: "Channel update
    (BP)" is a control of the menu's decoder folder, `main.js` sends it to `/decode` as
    `channel_update`, it IS a parameter of the constructor of the 'BP-OSD' decoder — and the OLD glue
    neither read nor forwarded it (the decoder always ran with the default `channel_update=False`;
    with `old_decode_ignores_channel_update`: ticking the box could not change the answer, although
    the library decoder's answer does change).  It was the only such control. -/
theorem old_channel_update_not_forwarded :
    "channel_update" ∈ Generated.GuiRoutes.decoderFolderOptions ∧
    "channel_update" ∈ Generated.GuiRoutes.decodeFieldsSent ∧
    "channel_update" ∈ ctorParams "BP-OSD" ∧
    "channel_update" ∉ oldDecodeFieldsRead ∧
    "channel_update" ∉ oldForwardedOptions "BP-OSD" ∧
    "channel_update" ∈ forwardedOptions "BP-OSD" ∧
    Generated.GuiRoutes.decoderFolderOptions.filter (fun o => !oldDecodeFieldsRead.contains o) =
      ["channel_update"] := by
  decide

/-! ### `/decoder-names` -/

/-- `/decoder-names` answers with `offeredDecoders` of the class the menu name denotes (so, by
    `C20.offered_iff_allowed`, exactly the decoders declaring support for it); an unknown name is a
    `KeyError` -/
theorem decoder_names_route (codes : List CodeMenu) (decs : List DecoderMenu) (content : Req) :
    (∀ l, sendDecoderNames codes decs content = .ok l ↔
      ∃ s c, getKey content "code_name" = some (.str s) ∧
        codes.find? (·.menuName == s) = some c ∧ l = offeredDecoders decs c.cls) ∧
    (∀ s, getKey content "code_name" = some (.str s) →
      codes.find? (·.menuName == s) = none →
      sendDecoderNames codes decs content = .error "KeyError") := by
  constructor
  · intro l
    constructor
    · intro h
      unfold sendDecoderNames at h
      obtain ⟨name, h1, h⟩ := bind_eq_ok.mp h
      obtain ⟨k, h3, h⟩ := bind_eq_ok.mp h
      obtain ⟨cls, h2, h⟩ := bind_eq_ok.mp h
      cases name with
      | str s =>
        have hk : k = s := by cases h3; rfl
        subst hk
        unfold classOf at h2
        cases hf : codes.find? (·.menuName == k) with
        | none => simp [hf] at h2
        | some c =>
          simp only [hf] at h2
          cases h2; cases h
          exact ⟨k, c, field_eq_ok.mp h1, hf, rfl⟩
      | _ => cases h3
    · rintro ⟨s, c, h1, h2, rfl⟩
      unfold sendDecoderNames
      simp only [field_of_getKey h1, ok_bind, dictKey, classOf, h2]
      rfl
  · intro s h1 h2
    unfold sendDecoderNames
    simp only [field_of_getKey h1, ok_bind, dictKey, classOf, h2]
    rfl

/-! ### non-vacuity -/

/-- a front-end request for 'Toric 2D' 3 × 4 (with the `Lz` the front end always sends), XZZX code,
    undeformed depolarizing noise, BP-OSD: -/
example :
    selectDecode Generated.Gui.codes Generated.Gui.decoders Generated.GuiRoutes.noiseDirections
      (frontEndDecodeReq "Toric 2D" (JV.i 3) (JV.i 4) (JV.i 3) (JV.d 1 1) (JV.i 20) (JV.d 4 1)
        (JV.i 0) (.bool true) (JV.ints [0, 1]) "None" "BP-OSD" "Depolarizing" "XZZX") =
    .ok ⟨⟨"Toric2DCode", [JV.i 3, JV.i 4], some (.str "XZZX")⟩, (1/3, 1/3, 1/3), .null,
         "BeliefPropagationOSDDecoder", JV.d 1 1,
         [("max_bp_iter", JV.i 20), ("osd_order", JV.i 0), ("channel_update", .bool true)],
         JV.ints [0, 1]⟩ :=
  menu_decode_selection ⟨"Toric 2D", "Toric2DCode", 2, ["XZZX", "XY"], ["face", "vertex"]⟩
    (by decide) ⟨"BP-OSD", "BeliefPropagationOSDDecoder", none⟩ (by decide)
    ("Depolarizing", (1/3, 1/3, 1/3)) (by decide +kernel) ..

/-- the split of a correction of length 2n = 6 at n = 3 -/
example : splitAnswer 3 [1, 0, 0, 0, 1, 1] =
    .obj [("x", JV.ints [1, 0, 0]), ("z", JV.ints [0, 1, 1])] := rfl
/-- a 3-D code without `Lz` -/
example : selectCode Generated.Gui.codes
    [("Lx", JV.i 2), ("Ly", JV.i 2), ("code_name", .str "Toric 3D"),
     ("code_deformation_name", .str "None")] = .error "UnboundLocalError" := by rfl
/-- a 2-D code without `Lz` is served -/
example : selectCode Generated.Gui.codes
    [("Lx", JV.i 2), ("Ly", JV.i 2), ("code_name", .str "Planar 2D"),
     ("code_deformation_name", .str "None")] = .ok ⟨"Planar2DCode", [JV.i 2, JV.i 2], none⟩ := by
  rfl
example : errorSpecCheck 2 [0, 1, 1, 0] = .ok () := by decide
example : errorSpecCheck 2 [0, 2, 1, 0] = .error "KeyError" := by decide
example : errorSpecCheck 2 [0, 1, 1] = .error "IndexError" := by decide

end Panqec.C20Routes
