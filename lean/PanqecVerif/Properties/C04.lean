/-
C04 — decoding success is declared iff the residual error is a stabilizer.

Property theorems only (thin wrappers); the proofs are in `Proofs/CodeAlgebra.lean`
(list level) and `Proofs/Symplectic.lean` (bridge to `ZMod 2` linear algebra and the
abstract dimension argument).  All statements are for every `n`, `k`, every parity-check
matrix `H` and logical operators `Lx`, `Lz` satisfying the C01 clauses (`ValidCodeL`),
and every binary vector `e` of length `2n` — no size bound.

Model functions (`Model/Code.lean`): `inCodespace` = `StabilizerCode.in_codespace`,
`logicalErrors` = `StabilizerCode.logical_errors` = `get_effective_error`,
`isLogicalError` = `is_logical_error`, `isSuccess` = `is_success`.
-/
import PanqecVerif.Proofs.CodeAlgebra

namespace Panqec.C04

open Panqec

/-- **Main theorem.** For a valid `[[n,k]]` stabilizer code, `is_success(e)` is `true`
    exactly when the residual error `e` is a product of stabilizer generators
    (`InSpan (2n) H e`: some GF(2) combination of the rows of `H` equals `e`).
    Holds for both dtypes of the dense `bs_prod` path. -/
theorem success_iff_stabilizer {n k : Nat} {H Lx Lz : List (List Nat)}
    (hv : ValidCodeL n k H Lx Lz) (dt : DType) (e : List Nat)
    (he_len : e.length = 2 * n) (he_bin : ∀ x ∈ e, x < 2) :
    isSuccess dt H Lx Lz e = true ↔ InSpan (2 * n) H e :=
  isSuccess_iff_inSpan hv dt e he_len he_bin

/-- `in_codespace(e)` is `true` exactly when `e` commutes with every generator
    (every matrix `H`, every vector `e`; no validity needed). -/
theorem codespace_iff_commutes_with_generators (H : List (List Nat)) (e : List Nat) :
    inCodespace H e = true ↔ ∀ g ∈ H, symp g e = 0 :=
  inCodespace_iff H e

/-- Among the errors in the codespace, "no logical error" is reported exactly for the
    products of generators. -/
theorem no_logical_error_iff_stabilizer {n k : Nat} {H Lx Lz : List (List Nat)}
    (hv : ValidCodeL n k H Lx Lz) (dt : DType) (e : List Nat)
    (he_len : e.length = 2 * n) (he_bin : ∀ x ∈ e, x < 2)
    (hcs : inCodespace H e = true) :
    isLogicalError dt Lx Lz e = false ↔ InSpan (2 * n) H e := by
  rw [← isSuccess_iff_inSpan hv dt e he_len he_bin]
  unfold isSuccess
  rw [hcs]
  simp

/-- The 2k-bit logical effect is GF(2)-linear in the error. -/
theorem logical_effect_linear (dt : DType) (Lx Lz : List (List Nat)) (e f : List Nat)
    (h : e.length = f.length) :
    logicalErrors dt Lx Lz (vxor e f) =
      vxor (logicalErrors dt Lx Lz e) (logicalErrors dt Lx Lz f) :=
  logicalErrors_linear dt Lx Lz e f h

/-- The logical effect is constant on cosets of the stabilizer group: multiplying the
    error by any product `s` of generators does not change it. -/
theorem logical_effect_constant_on_cosets {n k : Nat} {H Lx Lz : List (List Nat)}
    (hv : ValidCodeL n k H Lx Lz) (dt : DType) (e s : List Nat) (he_len : e.length = 2 * n)
    (hs : InSpan (2 * n) H s) :
    logicalErrors dt Lx Lz (vxor e s) = logicalErrors dt Lx Lz e :=
  logicalErrors_coset hv dt e s he_len hs

/-- Meaning of the bits: entry `i` (`i < k`) is the symplectic product of `e` with
    logical Z_i — set iff `e` acts X-type on logical qubit `i`; entry `k + i` is the
    product with logical X_i — set iff `e` acts Z-type on logical qubit `i`. -/
theorem logical_effect_bits_meaning (dt : DType) (Lx Lz : List (List Nat)) (e : List Nat) :
    (logicalErrors dt Lx Lz e).length = Lz.length + Lx.length ∧
    (∀ i (h : i < Lz.length), (logicalErrors dt Lx Lz e)[i]? = some (symp Lz[i] e)) ∧
    (∀ i (h : i < Lx.length),
      (logicalErrors dt Lx Lz e)[Lz.length + i]? = some (symp Lx[i] e)) :=
  ⟨logicalErrors_length dt Lx Lz e, logicalErrors_spec dt Lx Lz e⟩

/-- Consequence used by C01: the commutation and pairing clauses alone bound the number
    of independent generators by `n - k`. -/
theorem rank_bound_from_commutation_and_pairing {n k : Nat} {H Lx Lz : List (List Nat)}
    (hc : CommPairL n k H Lx Lz) (basis : List (List Nat)) (hsub : basis.Sublist H)
    (hind : Indep (2 * n) basis) : basis.length ≤ n - k :=
  rank_le_of_commute_pairing hc basis hsub hind

/-! ### non-vacuity: the `[[4,2,2]]` code as lists

`H = [XXXX, ZZZZ]`, `X̄₁ = XXII`, `X̄₂ = XIXI`, `Z̄₁ = IZIZ`, `Z̄₂ = IIZZ`. -/

def H422 : List (List Nat) := [[1,1,1,1, 0,0,0,0], [0,0,0,0, 1,1,1,1]]
def Lx422 : List (List Nat) := [[1,1,0,0, 0,0,0,0], [1,0,1,0, 0,0,0,0]]
def Lz422 : List (List Nat) := [[0,0,0,0, 0,1,0,1], [0,0,0,0, 0,0,1,1]]

theorem indep_H422 : Indep (2 * 4) H422 := by
  intro sel hl
  match sel, hl with
  | [a, b], _ => revert a b; decide

/-- the hypotheses of all theorems above are satisfiable by a non-trivial code (k = 2) -/
theorem valid422 : ValidCodeL 4 2 H422 Lx422 Lz422 where
  wfH := by decide
  wfX := by decide
  wfZ := by decide
  kX := rfl
  kZ := rfl
  stab_comm := by decide
  logX_comm := by decide
  logZ_comm := by decide
  pairing := by
    intro i j hi hj
    have hi' : i = 0 ∨ i = 1 := by omega
    have hj' : j = 0 ∨ j = 1 := by omega
    rcases hi' with rfl | rfl <;> rcases hj' with rfl | rfl <;> decide
  logXX := by decide
  logZZ := by decide
  rank := hasRank_of_indep (by decide) indep_H422
  k_le := by decide

/-- the product of the two generators (`YYYY`) is accepted … -/
example : isSuccess .u8 H422 Lx422 Lz422 [1,1,1,1, 1,1,1,1] = true := by decide
/-- … and the main theorem turns that into membership of the stabilizer group -/
example : InSpan (2 * 4) H422 [1,1,1,1, 1,1,1,1] :=
  (success_iff_stabilizer valid422 .u8 _ (by decide) (by decide)).mp (by decide)
/-- a logical operator is in the codespace but rejected; `X̄₁ = XXII` anticommutes with
    `Z̄₁` only, i.e. it acts X-type on logical qubit 1: exactly bit 0 of the effect is set -/
example : inCodespace H422 [1,1,0,0, 0,0,0,0] = true ∧
    isSuccess .u8 H422 Lx422 Lz422 [1,1,0,0, 0,0,0,0] = false ∧
    logicalErrors .u8 Lx422 Lz422 [1,1,0,0, 0,0,0,0] = [1, 0, 0, 0] := by decide
/-- `Z̄₁ = IZIZ` anticommutes with `X̄₁` only: Z-type action on logical qubit 1, bit `k + 0` -/
example : logicalErrors .wide Lx422 Lz422 [0,0,0,0, 0,1,0,1] = [0, 0, 1, 0] := by decide
/-- hence (by the main theorem, not by enumeration) `XXII` is no product of generators -/
example : ¬ InSpan (2 * 4) H422 [1,1,0,0, 0,0,0,0] := fun h => by
  have := (success_iff_stabilizer valid422 .u8 _ (by decide) (by decide)).mpr h
  revert this; decide
/-- an error outside the codespace -/
example : inCodespace H422 [1,0,0,0, 0,0,0,0] = false := by decide
/-- coset invariance instantiated: `Z̄₂ · ZZZZ = ZZII` has the same effect as `Z̄₂` -/
example : logicalErrors .wide Lx422 Lz422 (vxor [0,0,0,0, 0,0,1,1] [0,0,0,0, 1,1,1,1]) =
    logicalErrors .wide Lx422 Lz422 [0,0,0,0, 0,0,1,1] :=
  logical_effect_constant_on_cosets valid422 .wide _ _ (by decide)
    ⟨[false, true], rfl, by decide⟩

/-- rank bound instantiated: with the same generators and logicals no `k > 2` can pass,
    because the two independent generators force `2 ≤ 4 - k`. -/
example (k : Nat) (hc : CommPairL 4 k H422 Lx422 Lz422) : k ≤ 2 := by
  have := rank_bound_from_commutation_and_pairing hc H422 (List.Sublist.refl _) indep_H422
  simp [H422] at this
  omega

/-- distance criteria instantiated: every listed logical of the `[[4,2,2]]` code has two
    representatives with disjoint supports (`l` and `l·XXXX` resp. `l·ZZZZ`), so every
    non-trivial logical has weight ≥ 2, and `XXII` has weight 2: the distance is 2. -/
example : IsDistance 4 H422 2 := by
  apply distance_criterion valid422 2 ⟨[1,1,0,0, 0,0,0,0], by decide, by decide⟩
  apply packing_lower_bound valid422 2
  have hd : ∀ a b : List Nat, a.length = 2 * 4 → b.length = 2 * 4 → suppDisjointB a b = true →
      [a, b].Pairwise SuppDisjoint := by
    intro a b ha hb h
    simp [suppDisjoint_of_check ha hb h]
  intro l hl
  simp only [Lx422, Lz422, List.cons_append, List.nil_append, List.mem_cons,
    List.not_mem_nil, or_false] at hl
  rcases hl with rfl | rfl | rfl | rfl
  · refine ⟨[[1,1,0,0, 0,0,0,0], [0,0,1,1, 0,0,0,0]], rfl, ?_, hd _ _ rfl rfl (by decide)⟩
    intro r hr
    simp only [List.mem_cons, List.not_mem_nil, or_false] at hr
    rcases hr with rfl | rfl
    · exact ⟨rfl, [false, false], rfl, by decide⟩
    · exact ⟨rfl, [true, false], rfl, by decide⟩
  · refine ⟨[[1,0,1,0, 0,0,0,0], [0,1,0,1, 0,0,0,0]], rfl, ?_, hd _ _ rfl rfl (by decide)⟩
    intro r hr
    simp only [List.mem_cons, List.not_mem_nil, or_false] at hr
    rcases hr with rfl | rfl
    · exact ⟨rfl, [false, false], rfl, by decide⟩
    · exact ⟨rfl, [true, false], rfl, by decide⟩
  · refine ⟨[[0,0,0,0, 0,1,0,1], [0,0,0,0, 1,0,1,0]], rfl, ?_, hd _ _ rfl rfl (by decide)⟩
    intro r hr
    simp only [List.mem_cons, List.not_mem_nil, or_false] at hr
    rcases hr with rfl | rfl
    · exact ⟨rfl, [false, false], rfl, by decide⟩
    · exact ⟨rfl, [false, true], rfl, by decide⟩
  · refine ⟨[[0,0,0,0, 0,0,1,1], [0,0,0,0, 1,1,0,0]], rfl, ?_, hd _ _ rfl rfl (by decide)⟩
    intro r hr
    simp only [List.mem_cons, List.not_mem_nil, or_false] at hr
    rcases hr with rfl | rfl
    · exact ⟨rfl, [false, false], rfl, by decide⟩
    · exact ⟨rfl, [false, true], rfl, by decide⟩

end Panqec.C04
