/-
C16 — threshold estimation recovers a planted finite-size-scaling threshold  (level: other / partial).

FULL STATEMENT (not provable in Lean as it stands): when the logical error rates of ≥ 3 code
distances at ≥ 7 error rates lie on `A + B x + C x²`, `x = (p - p_th) d^ν`, then
`Analysis.thresholds` reports `p_th_fss = p_th` up to fit tolerance, inside
`[p_th_fss_left, p_th_fss_right]` and inside the data range, with `fit_status = 'success'`,
independently of the order of files and rows.

WHAT IS PROVED HERE (the part of the pipeline that is panqec's own arithmetic and logic):
  * `fit_function` / `rescale_prob` are the documented ansatz (the code uses `d**nu`; the power
    `s = d**nu` is an arbitrary parameter per row, so the statements hold for every exponent
    convention and every ν);
  * the planted parameters have zero residual, hence minimise the least-squares cost that
    `curve_fit` minimises (`cost ≥ 0 = cost planted`), and every zero-cost parameter vector
    reproduces every data point;
  * cost, truncation and the reported quantiles are invariant under permutations of the rows /
    bootstrap samples; the default truncation limits keep every row;
  * the reported estimate (median of the bootstrap column) lies inside the reported interval
    (0.16 / 0.84 quantiles) for every non-empty bootstrap sample;
  * `get_fit_status`: `success` iff all its conditions hold, each failure string exactly under
    its condition, and `success` under the planted-box hypotheses.

WHAT IS NOT PROVED (…`_partial`): that `scipy.optimize.curve_fit` (Levenberg–Marquardt from the
start point `[p_th_nearest, 2, f_0, 1, 1]`) converges to the minimiser, and that the quantiles
of 100 beta-resampled refits bracket it.  That is numeric runtime behaviour of a third-party
routine; it is exercised as a TEST by the correspondence (planted data → `Analysis.thresholds`).
-/
import PanqecVerif.Proofs.AnalysisFss
import PanqecVerif.Proofs.AnalysisQuantile

namespace Panqec.C16

open Panqec Panqec.An

/-! ## ansatz -/

/-- `fit_function((p, d), p_th, nu, A, B, C) = A + B x + C x²` with `x = rescale_prob = (p - p_th) d^ν` -/
theorem fit_function_is_ansatz (p s pth A B C : Rat) :
    rescaleProb p pth s = (p - pth) * s ∧
    fitFunction p s pth A B C = A + B * rescaleProb p pth s + C * (rescaleProb p pth s) ^ 2 :=
  ⟨rfl, rfl⟩

/-- at the threshold the ansatz does not depend on the distance: all curves cross at `(p_th, A)` -/
theorem curves_cross_at_threshold (s pth A B C : Rat) : fitFunction pth s pth A B C = A := by
  simp [fitFunction]

/-! ## planted parameters minimise the cost -/

/-- data that lie on the ansatz have zero residual at the planted parameters, and the planted
    parameters are a global minimiser of the least-squares cost -/
theorem planted_parameters_minimise_cost (θ : Params) (rows : List Row)
    (hplant : ∀ r ∈ rows, r.f = fitFunction r.p r.s θ.pth θ.A θ.B θ.C) :
    cost θ rows = 0 ∧ ∀ θ' : Params, cost θ rows ≤ cost θ' rows := by
  have h0 : cost θ rows = 0 :=
    (cost_eq_zero_iff θ rows).mpr (fun r hr => by simp [An.residual, hplant r hr])
  exact ⟨h0, fun θ' => h0 ▸ cost_nonneg θ' rows⟩

/-- conversely every minimiser of the cost of planted data reproduces every data point -/
theorem minimiser_reproduces_data (θ θ' : Params) (rows : List Row)
    (hplant : ∀ r ∈ rows, r.f = fitFunction r.p r.s θ.pth θ.A θ.B θ.C)
    (hmin : ∀ θ'' : Params, cost θ' rows ≤ cost θ'' rows) :
    ∀ r ∈ rows, fitFunction r.p r.s θ'.pth θ'.A θ'.B θ'.C = r.f := by
  have h0 := (planted_parameters_minimise_cost θ rows hplant).1
  have h1 : cost θ' rows = 0 := le_antisymm (h0 ▸ hmin θ) (cost_nonneg θ' rows)
  intro r hr
  have := (cost_eq_zero_iff θ' rows).mp h1 r hr
  unfold An.residual at this
  linarith

/-- FULL recovery claim, with the optimiser as a parameter: *if* the fitting routine returns a
    minimiser of the cost (contract of `curve_fit`, not proved), the fitted curve passes through
    every planted point and its cost is zero.  Identification of `p_th` itself from a zero-cost
    fit and the bootstrap quantiles are only tested. -/
theorem recovery_partial (fit : List Row → Params) (θ : Params) (rows : List Row)
    (contract : ∀ θ'' : Params, cost (fit rows) rows ≤ cost θ'' rows)
    (hplant : ∀ r ∈ rows, r.f = fitFunction r.p r.s θ.pth θ.A θ.B θ.C) :
    cost (fit rows) rows = 0 ∧
    ∀ r ∈ rows, fitFunction r.p r.s (fit rows).pth (fit rows).A (fit rows).B (fit rows).C = r.f := by
  have h := minimiser_reproduces_data θ (fit rows) rows hplant contract
  refine ⟨(cost_eq_zero_iff _ _).mpr (fun r hr => ?_), h⟩
  unfold An.residual; rw [h r hr]; ring

/-! ## order of rows and files -/

theorem cost_order_irrelevant (θ : Params) {rows₁ rows₂ : List Row} (h : rows₁.Perm rows₂) :
    cost θ rows₁ = cost θ rows₂ := cost_perm θ h

theorem truncation_order_irrelevant (pl pr : Rat) {rows₁ rows₂ : List Row} (h : rows₁.Perm rows₂) :
    (truncate pl pr rows₁).Perm (truncate pl pr rows₂) := truncate_perm pl pr h

/-- with the default limits `p_left = min error_rate`, `p_right = max error_rate` no row is dropped -/
theorem default_truncation_keeps_all_rows (rows : List Row) (pl pr : Rat)
    (hl : minRate rows = some pl) (hr : maxRate rows = some pr) : truncate pl pr rows = rows :=
  truncate_eq_self fun r hmem => ⟨minRate_le hl r hmem, le_maxRate hr r hmem⟩

/-- median and the 0.16 / 0.84 quantiles do not depend on the order of the bootstrap rows -/
theorem quantiles_order_irrelevant {a b : List Rat} (h : a.Perm b) (q : Rat) :
    quantile a q = quantile b q := quantile_perm h q

/-- the reported estimate lies inside its own reported interval, for every bootstrap sample:
    `quantile 0.16 ≤ median ≤ quantile 0.84` (NaN exactly for an empty sample) -/
theorem estimate_inside_its_interval (a : List Rat) (ha : a ≠ []) :
    ∃ l m r : Rat, quantile a (16 / 100) = some l ∧ quantile a (1 / 2) = some m ∧
      quantile a (84 / 100) = some r ∧ l ≤ m ∧ m ≤ r := by
  obtain ⟨l, hl⟩ := quantile_some a (16 / 100) ha
  obtain ⟨m, hm⟩ := quantile_some a (1 / 2) ha
  obtain ⟨r, hr⟩ := quantile_some a (84 / 100) ha
  exact ⟨l, m, r, hl, hm, hr,
    quantile_mono a (by norm_num) (by norm_num) (by norm_num) hl hm,
    quantile_mono a (by norm_num) (by norm_num) (by norm_num) hm hr⟩

/-! ## what is reported as `fss_params[0]`

`get_fit_params` starts a fit from the midpoint of the error-rate range when the hint `params_0[0]`
lies outside that range, and the bootstrap loop of `fit_fss_params` passes `params_opt` itself as
hint.  Since 182c096 the replacement is made on a copy. -/

/-- the reported best-fit parameters are exactly the optimiser's, whatever the resamples; each
    bootstrap fit starts from the optimiser's value, or from the midpoint of its own resample's
    range when that value lies outside -/
theorem reported_threshold_is_the_optimisers (raw : Option Rat) (bounds : List (Rat × Rat)) :
    reportedPth raw bounds = raw ∧ (bootstrapLoop raw bounds).2 = bounds.map (hintFor raw) := by
  unfold reportedPth
  rw [bootstrapLoop_spec]
  exact ⟨rfl, rfl⟩

/-- a hint inside the range is used as it is; otherwise the start value is inside the range -/
theorem start_value_inside_range (c : Rat) (b : Rat × Rat) (hb : b.1 ≤ b.2) :
    ((b.1 ≤ c ∧ c ≤ b.2) → hintFor (some c) b = some c) ∧
    ∃ v, hintFor (some c) b = some v ∧ b.1 ≤ v ∧ v ≤ b.2 := by
  unfold hintFor
  constructor
  · intro h; simp [h]
  · by_cases h : b.1 ≤ c ∧ c ≤ b.2
    · exact ⟨c, by simp [h], h.1, h.2⟩
    · refine ⟨(b.1 + b.2) / 2, by simp [h], ?_, ?_⟩ <;> linarith

/-- regression (behaviour before 182c096, `oldReportedPth`): the in-place replacement leaked into
    the reported value as soon as the first resample's range excluded the fitted threshold -/
theorem regression_old_reported_threshold_overwritten (raw : Rat) (b : Rat × Rat) (bs : List (Rat × Rat))
    (hout : ¬ (b.1 ≤ raw ∧ raw ≤ b.2)) :
    oldReportedPth (some raw) (b :: bs) = oldReportedPth (some ((b.1 + b.2) / 2)) bs := by
  simp [oldReportedPth, hintFor, if_neg hout]

/-- regression witness (numbers of the replayed data set, rounded): the optimiser returned
    p_th = -0.012 for rates in [0.116347, 0.202323]; 0.159335 was reported, -0.012 is reported now -/
theorem regression_fss_params_overwritten_witness :
    oldReportedPth (some (-12 / 1000)) [(116347 / 1000000, 202323 / 1000000), (116347 / 1000000, 202323 / 1000000)]
      = some (159335 / 1000000) ∧
    reportedPth (some (-12 / 1000)) [(116347 / 1000000, 202323 / 1000000), (116347 / 1000000, 202323 / 1000000)]
      = some (-12 / 1000) := by
  decide +kernel

/-! ## `get_fit_status` -/

/-- an entry all of whose numbers are finite -/
def finiteEntry (f0 nu A B C pth l r se pl pr : Rat) : FitEntry :=
  { fss0 := some f0, nu := some nu, A := some A, B := some B, C := some C, pth := some pth,
    left := some l, right := some r, se := some se, pLeft := pl, pRight := pr }

set_option linter.unnecessarySeqFocus false in
/-- 'Curve fitting failed.' exactly when some fitted parameter is NaN -/
theorem status_curve_fit_failed_iff (e : FitEntry) :
    fitStatus e = .curveFitFailed ↔
      (e.fss0 = none ∨ e.nu = none ∨ e.A = none ∨ e.B = none ∨ e.C = none) := by
  unfold fitStatus
  rcases e with ⟨_ | f0, _ | nu, _ | A, _ | B, _ | C, _ | pth, _ | l, _ | r, _ | se, pl, pr⟩ <;>
    simp <;> split_ifs <;> simp

set_option linter.unnecessarySeqFocus false in
/-- 'NaN threshold estimate or uncertainty.' exactly when the parameters are finite and one of
    the four reported numbers is NaN -/
theorem status_nan_iff (e : FitEntry) :
    fitStatus e = .nanThreshold ↔
      (e.fss0 ≠ none ∧ e.nu ≠ none ∧ e.A ≠ none ∧ e.B ≠ none ∧ e.C ≠ none) ∧
      (e.pth = none ∨ e.left = none ∨ e.right = none ∨ e.se = none) := by
  unfold fitStatus
  rcases e with ⟨_ | f0, _ | nu, _ | A, _ | B, _ | C, _ | pth, _ | l, _ | r, _ | se, pl, pr⟩ <;>
    simp <;> split_ifs <;> simp

section finite
variable (f0 nu A B C pth l r se pl pr : Rat)

/-- the decision chain on finite entries, in the order of the code -/
theorem status_chain :
    fitStatus (finiteEntry f0 nu A B C pth l r se pl pr) =
      if isClose l r then .zeroCI
      else if isClose se 0 then .zeroSE
      else if outside01 pth || outside01 l || outside01 r || outside01 se then .invalidThreshold
      else if outside01 A then .invalidRateAtThreshold
      else if pth < pl then .leftOfData
      else if pr < pth then .rightOfData
      else if isClose A 0 && isClose B 0 && isClose C 0 then .zeroFit
      else .success := rfl

/-- each failure string is returned exactly under its condition (all earlier tests passed);
    `bad` = some reported number outside [0,1] -/
theorem status_failure_conditions :
    let e := finiteEntry f0 nu A B C pth l r se pl pr
    let bad := outside01 pth || outside01 l || outside01 r || outside01 se
    (fitStatus e = .zeroCI ↔ isClose l r = true) ∧
    (fitStatus e = .zeroSE ↔ isClose l r = false ∧ isClose se 0 = true) ∧
    (fitStatus e = .invalidThreshold ↔ isClose l r = false ∧ isClose se 0 = false ∧ bad = true) ∧
    (fitStatus e = .invalidRateAtThreshold ↔
      isClose l r = false ∧ isClose se 0 = false ∧ bad = false ∧ outside01 A = true) ∧
    (fitStatus e = .leftOfData ↔
      isClose l r = false ∧ isClose se 0 = false ∧ bad = false ∧ outside01 A = false ∧ pth < pl) ∧
    (fitStatus e = .rightOfData ↔
      isClose l r = false ∧ isClose se 0 = false ∧ bad = false ∧ outside01 A = false ∧ pl ≤ pth ∧ pr < pth) ∧
    (fitStatus e = .zeroFit ↔
      isClose l r = false ∧ isClose se 0 = false ∧ bad = false ∧ outside01 A = false ∧ pl ≤ pth ∧ pth ≤ pr ∧
      (isClose A 0 && isClose B 0 && isClose C 0) = true) := by
  intro e bad
  simp only [e, status_chain]
  generalize hbad : (outside01 pth || outside01 l || outside01 r || outside01 se) = bad'
  simp only [bad, hbad]
  generalize (isClose A 0 && isClose B 0 && isClose C 0) = z
  refine ⟨?_, ?_, ?_, ?_, ?_, ?_, ?_⟩ <;> split_ifs <;> simp_all

/-- `success` exactly when every test passes -/
theorem status_success_iff :
    fitStatus (finiteEntry f0 nu A B C pth l r se pl pr) = .success ↔
      isClose l r = false ∧ isClose se 0 = false ∧
      (outside01 pth || outside01 l || outside01 r || outside01 se) = false ∧
      outside01 A = false ∧ pl ≤ pth ∧ pth ≤ pr ∧
      (isClose A 0 && isClose B 0 && isClose C 0) = false := by
  rw [status_chain]
  generalize (outside01 pth || outside01 l || outside01 r || outside01 se) = bad'
  generalize (isClose A 0 && isClose B 0 && isClose C 0) = z
  split_ifs <;> simp_all

/-- PLANTED BOX: a threshold inside the data range and inside (0,1), an interval of visible
    width, a visible standard error, and a logical rate at threshold that is a visible
    probability give `fit_status = 'success'` -/
theorem planted_box_success
    (hci : 1 / 100000000 + 1 / 100000 * |r| < |l - r|) (hse : 1 / 100000000 < |se|)
    (hpth : 0 ≤ pth ∧ pth ≤ 1) (hl : 0 ≤ l ∧ l ≤ 1) (hr : 0 ≤ r ∧ r ≤ 1) (hse1 : 0 ≤ se ∧ se ≤ 1)
    (hA : 1 / 100000000 < A ∧ A ≤ 1) (hrange : pl ≤ pth ∧ pth ≤ pr) :
    fitStatus (finiteEntry f0 nu A B C pth l r se pl pr) = .success := by
  rw [status_success_iff]
  have n1 : isClose l r = false := by
    rw [Bool.eq_false_iff]; intro h; rw [isClose_iff] at h; linarith
  have n2 : isClose se 0 = false := by
    rw [Bool.eq_false_iff]; intro h; rw [isClose_zero_iff] at h; linarith
  have n3 : isClose A 0 = false := by
    rw [Bool.eq_false_iff]; intro h; rw [isClose_zero_iff] at h
    have : |A| = A := abs_of_pos (by linarith [hA.1])
    linarith [hA.1]
  refine ⟨n1, n2, ?_, (outside01_iff _).mpr ⟨by linarith [hA.1], hA.2⟩, hrange.1, hrange.2, ?_⟩
  · rw [(outside01_iff _).mpr hpth, (outside01_iff _).mpr hl, (outside01_iff _).mpr hr,
      (outside01_iff _).mpr hse1]; rfl
  · rw [n3]; rfl

/-- the acceptance predicate used by the planted-threshold test is exactly the C16 statement -/
theorem recovered_iff (planted tol : Rat) :
    recovered planted tol (finiteEntry f0 nu A B C pth l r se pl pr) = true ↔
      |pth - planted| ≤ tol ∧ l ≤ pth ∧ pth ≤ r ∧ pl ≤ pth ∧ pth ≤ pr ∧
      fitStatus (finiteEntry f0 nu A B C pth l r se pl pr) = .success := by
  unfold recovered finiteEntry
  simp only [absR_eq_abs, Bool.and_eq_true, decide_eq_true_eq, beq_iff_eq, and_assoc]

end finite

/-! ## non-vacuity -/

/-- a planted instance: three "distances" (scales 4, 6, 8 for ν = 1), rates around p_th = 1/10 -/
def θ₀ : Params := { pth := 1 / 10, A := 3 / 10, B := 4 / 5, C := 1 / 2 }
def rows₀ : List Row :=
  ([4, 6, 8] : List Rat).flatMap fun s =>
    ([7 / 100, 9 / 100, 1 / 10, 11 / 100, 13 / 100] : List Rat).map fun p =>
      { p := p, s := s, f := fitFunction p s θ₀.pth θ₀.A θ₀.B θ₀.C }

example : ∀ r ∈ rows₀, r.f = fitFunction r.p r.s θ₀.pth θ₀.A θ₀.B θ₀.C := by decide +kernel
example : cost θ₀ rows₀ = 0 := by decide +kernel
example : cost { θ₀ with pth := 11 / 100 } rows₀ ≠ 0 := by decide +kernel
example : minRate rows₀ = some (7 / 100) ∧ maxRate rows₀ = some (13 / 100) := by decide +kernel
example : fitStatus (finiteEntry (1/10) 1 (3/10) (4/5) (1/2) (1/10) (99/1000) (101/1000) (1/1000)
    (7/100) (13/100)) = .success := by decide +kernel
example : fitStatus (finiteEntry (1/10) 1 (3/10) (4/5) (1/2) (1/10) (1/10) (1/10) (1/1000)
    (7/100) (13/100)) = .zeroCI := by decide +kernel
example : fitStatus (finiteEntry (1/10) 1 (3/10) (4/5) (1/2) (1/20) (4/100) (6/100) (1/1000)
    (7/100) (13/100)) = .leftOfData := by decide +kernel
example : quantile [3, 1, 2, 5, 4] (1 / 2) = some 3 ∧ quantile [3, 1, 2, 5, 4] (16 / 100) = some (41 / 25) := by
  decide +kernel

end Panqec.C16
