/-
C01 (lattice part) for `RotatedToric3DCode`, for EVERY lattice size (no bound).

The model `Model/Lattices/RotatedToric3DCode.lean` is a hand-written transcription of
`panqec/codes/surface_3d/_rotated_toric_3d_code.py` as functions of the size (seam rules, defect
lines for an odd `L_x` / `L_y`, vertical faces dropped on the defect columns, logical operators as
comprehensions over `qubit_coordinates`); it is tied to the implementation by the correspondence
streams of `harness/lattices/rotatedtoric3dcode.py`.  Property theorems only; the lemmas are in
`Proofs/LatRotatedToric3DCode*.lean`.

Supported family (DESIGN.md section 4): `L_x, L_y ≥ 2`, `L_z ≥ 1`, not both `L_x` and `L_y` odd.
For every size of the family: the coordinate system is well-formed (`wf`), any two stabilizer
generators commute, the logical operators commute with the generators and satisfy the pairing
table (`commPair`) — with two logical qubits when `L_x`, `L_y` are both even, one (with a logical Z
made of Y letters along the defect line) when one of them is odd.  The proof goes through the
observation that, whether or not a layer stabilizer sits on a defect line, it writes on a
neighbouring qubit `q` the letter fixed by the colour of `q` and by the diagonal on which it sees
`q` (`Proofs/LatRotatedToric3DCode3/4`): the swapped letters of the class on a defect line are
exactly what the checkerboard on the other side of the seam asks for.

The rank clause is proved for all sizes of the family, both parities (`rank_family`): the explicit
family `rankFamily` of the model — every vertex and horizontal face of the bottom layer except the
vertex `(2, 4, 1)` and, for even × even, the face `(2, 2, 1)`; every vertex of the layers above; the
horizontal faces of the layers above that lie next to the dropped column of vertical faces (odd `Lx`
or `Ly` only); every vertical face — has `n − k` distinct members whose operators are
GF(2)-independent (triangular witness criterion, `Proofs/LatRotatedToric3DCodeRank1-3.lean`; the
generators of the defect lines, which carry both X and Z letters, are handled by the same sign
rule as in `commPair`).  `valid_code` assembles everything through the generic bridges
(`Proofs/OpComm.lean`, `Proofs/Lat3DRankBridge.lean`): the matrices that `stabilizer_matrix`,
`logicals_x`, `logicals_z` of the generic code model (`Model/Code.lean`, C02) build from this
lattice model form a valid `[[n, k]]` stabilizer code (`ValidCodeL`: all four clauses of C01, rank
included) for EVERY size of the family, `k = 2` for even × even and `k = 1` otherwise.
-/
import PanqecVerif.Proofs.LatRotatedToric3DCodeRank3
import PanqecVerif.Proofs.Lat3DRankBridge

namespace Panqec.C01RotatedToric3DCode

open Panqec Panqec.RotatedToric3DCode

/-- Well-formedness for every size of the supported family: qubit / stabilizer coordinates are
    distinct and disjoint, every `get_stabilizer(loc)` and every logical operator is a dict
    (distinct keys: the neighbours after the seam rules are pairwise distinct from `L = 2` on)
    supported on qubits with letters ≠ I, and no stabilizer is empty. -/
theorem wf (Lx Ly Lz : Nat) (hx : 2 ≤ Lx) (hy : 2 ≤ Ly) (hodd : ¬ (Lx % 2 = 1 ∧ Ly % 2 = 1)) :
    (lattice Lx Ly Lz).WF :=
  RotatedToric3DCode.wf ⟨hx, hy, hodd⟩

/-- The operator-level C01 clauses other than rank, for every size of the supported family: any
    two stabilizer generators commute (also across the seams and on the defect lines of an odd
    `Lx` / `Ly`, where generators carry both X and Z letters); every logical X and logical Z
    commutes with every generator; there are as many logical Z as logical X operators (two for
    even × even, one otherwise) and `X_i`, `Z_j` anticommute exactly for `i = j`; logical X's
    (Z's) commute among themselves. -/
theorem commPair (Lx Ly Lz : Nat) (hx : 2 ≤ Lx) (hy : 2 ≤ Ly) (hz : 1 ≤ Lz)
    (hodd : ¬ (Lx % 2 = 1 ∧ Ly % 2 = 1)) : (lattice Lx Ly Lz).CommPair :=
  RotatedToric3DCode.commPair ⟨hx, hy, hodd⟩ hz

/-- The letter rule behind `commPair`, every size of the supported family: every generator is one
    of four kinds (vertex, horizontal face, vertical face of either orientation); its operator is
    carried by those of its 6 / 4 seam-wrapped neighbours that are qubits, and on a neighbour `q`
    it writes Z when its sign for `q` (main diagonal / vertical: `true`, anti-diagonal: `false`;
    reversed for the faces as listed in `KV`, `KH`, `KFX`, `KFY`) agrees with the colour of `q`, X
    otherwise — on and off the defect lines alike. -/
theorem stabilizer_letter_rule (Lx Ly Lz : Nat) (hx : 2 ≤ Lx) (hy : 2 ≤ Ly)
    (hodd : ¬ (Lx % 2 = 1 ∧ Ly % 2 = 1)) {s : Coord} (hs : s ∈ (lattice Lx Ly Lz).stabs) :
    ∃ K : List (Coord × Bool), Kind Lx Ly Lz s K ∧
      ∃ g : Coord → Pauli,
        (lattice Lx Ly Lz).getStab s =
          gop ((K.map Prod.fst).filter (isQubit Lx Ly Lz)) g ∧
        ∀ e ∈ K, g e.1 = dl e.2 e.1 := by
  obtain ⟨K, hk⟩ := kind_of_mem hs
  exact ⟨K, hk, (signed_of_kind ⟨hx, hy, hodd⟩ hk).eq⟩

/-- `n = Lx·Ly·Lz` horizontal qubits plus `(Lz − 1)` layers of vertical qubits, one at each point of
    the checkerboard `{(i, j) : 1 ≤ i ≤ Lx, 1 ≤ j ≤ Ly, i + j odd}` (every size) -/
theorem n_formula (Lx Ly Lz : Nat) :
    (lattice Lx Ly Lz).toCodeData.n =
      Lx * Ly * Lz + (((Lx + 1) / 2) * (Ly / 2) + (Lx / 2) * ((Ly + 1) / 2)) * (Lz - 1) :=
  length_qubits Lx Ly Lz

/-- in the supported family the checkerboard has `Lx·Ly/2` points: `2n = Lx·Ly·(3Lz − 1)`, stated
    without division as `2n + Lx·Ly = 3·Lx·Ly·Lz` -/
theorem n_formula_family (Lx Ly Lz : Nat) (hLz : 1 ≤ Lz) (h : ¬ (Lx % 2 = 1 ∧ Ly % 2 = 1)) :
    2 * (lattice Lx Ly Lz).toCodeData.n + Lx * Ly = 3 * (Lx * Ly * Lz) := by
  rw [n_formula]
  have hc := checker_even Lx Ly h
  generalize ((Lx + 1) / 2) * (Ly / 2) + (Lx / 2) * ((Ly + 1) / 2) = c at hc
  obtain ⟨m, rfl⟩ : ∃ m, Lz = m + 1 := ⟨Lz - 1, by omega⟩
  simp only [Nat.add_sub_cancel]
  rw [Nat.mul_add, ← Nat.mul_assoc 2 c m, hc, Nat.mul_add (Lx * Ly) m 1]
  omega

/-- `k = 2` when both `Lx` and `Ly` are even, `k = 1` otherwise (every size) -/
theorem k_value (Lx Ly Lz : Nat) :
    (lattice Lx Ly Lz).toCodeData.k = if Lx % 2 = 0 ∧ Ly % 2 = 0 then 2 else 1 :=
  logX_length Lx Ly Lz

/-- The rank clause for every size of the supported family: `rankFamily` is a duplicate-free list of
    stabilizer locations with exactly `n − k` members whose operators are GF(2)-independent: no
    non-empty sub-family multiplies to the identity (even X-parity and even Z-parity on every
    location).  Even × even: `n − 2` members (one vertex and one horizontal face of the bottom layer
    left out); odd × even and even × odd: `n − 1` (one vertex left out; the horizontal faces next to
    the dropped column of vertical faces are kept in every layer). -/
theorem rank_family (Lx Ly Lz : Nat) (hx : 2 ≤ Lx) (hy : 2 ≤ Ly) (hz : 1 ≤ Lz)
    (hodd : ¬ (Lx % 2 = 1 ∧ Ly % 2 = 1)) :
    (rankFamily Lx Ly Lz).Nodup ∧ (∀ s ∈ rankFamily Lx Ly Lz, s ∈ (lattice Lx Ly Lz).stabs) ∧
      (rankFamily Lx Ly Lz).length =
        (lattice Lx Ly Lz).toCodeData.n - (lattice Lx Ly Lz).toCodeData.k ∧
      Cubic3D.OpsIndep ((rankFamily Lx Ly Lz).map (lattice Lx Ly Lz).getStab) := by
  refine ⟨rankFamily_nodup hx hy Lz, fun s hs => rankFamily_subset ⟨hx, hy, hodd⟩ hz hs, ?_,
    rankFamily_indep ⟨hx, hy, hodd⟩ hz⟩
  rw [k_value]
  exact rankFamily_length ⟨hx, hy, hodd⟩ hz

/-- the number of members of the independent family in closed form:
    `|rankFamily| + k = Lx·Ly·Lz + checkerboard·(Lz − 1)` (every size of the family) -/
theorem generators_count (Lx Ly Lz : Nat) (hx : 2 ≤ Lx) (hy : 2 ≤ Ly) (hz : 1 ≤ Lz)
    (hodd : ¬ (Lx % 2 = 1 ∧ Ly % 2 = 1)) :
    (rankFamily Lx Ly Lz).length + (if Lx % 2 = 0 ∧ Ly % 2 = 0 then 2 else 1) =
      Lx * Ly * Lz + (((Lx + 1) / 2) * (Ly / 2) + (Lx / 2) * ((Ly + 1) / 2)) * (Lz - 1) := by
  have h := rankFamily_length (Lz := Lz) ⟨hx, hy, hodd⟩ hz
  have hn := length_qubits Lx Ly Lz
  have hpos : 4 ≤ Lx * Ly := Nat.mul_le_mul hx hy
  have hpos' : Lx * Ly * 1 ≤ Lx * Ly * Lz := Nat.mul_le_mul_left _ hz
  rw [← hn, h]
  split <;> omega

/-- **C01, all clauses, all sizes of the supported family** (`Lx, Ly ≥ 2` not both odd, `Lz ≥ 1`):
    `stabilizer_matrix`, `logicals_x`, `logicals_z` of the generic code model, applied to this
    lattice model, return (no `KeyError`) matrices that form a valid `[[n, k]]` stabilizer code with
    `n = Lx·Ly·Lz + checkerboard·(Lz − 1)` and `k = 2` (even × even) or `k = 1` (odd × even, even ×
    odd): generators pairwise commute (also on the defect lines), logicals commute with the
    generators, `ω(X_i, Z_j) = δ_ij`, `ω(X_i, X_j) = ω(Z_i, Z_j) = 0`, and the generators have GF(2)
    rank `n − k` -/
theorem valid_code (Lx Ly Lz : Nat) (hx : 2 ≤ Lx) (hy : 2 ≤ Ly) (hz : 1 ≤ Lz)
    (hodd : ¬ (Lx % 2 = 1 ∧ Ly % 2 = 1)) :
    stabilizerMatrix (lattice Lx Ly Lz).toCodeData = some (lattice Lx Ly Lz).rowsH ∧
    logicalsX (lattice Lx Ly Lz).toCodeData = some (lattice Lx Ly Lz).rowsX ∧
    logicalsZ (lattice Lx Ly Lz).toCodeData = some (lattice Lx Ly Lz).rowsZ ∧
    ValidCodeL (Lx * Ly * Lz + (((Lx + 1) / 2) * (Ly / 2) + (Lx / 2) * ((Ly + 1) / 2)) * (Lz - 1))
      (if Lx % 2 = 0 ∧ Ly % 2 = 0 then 2 else 1)
      (lattice Lx Ly Lz).rowsH (lattice Lx Ly Lz).rowsX (lattice Lx Ly Lz).rowsZ := by
  obtain ⟨hnd, hsub, hlen, hind⟩ := rank_family Lx Ly Lz hx hy hz hodd
  have h := Cubic3D.validCode_of_opsIndep (lattice Lx Ly Lz) (wf Lx Ly Lz hx hy hodd)
    (commPair Lx Ly Lz hx hy hz hodd) (rankFamily Lx Ly Lz) hnd hsub hlen hind
  rw [n_formula, k_value] at h
  exact h

/-- as many logical Z as logical X operators (every size) -/
theorem k_same (Lx Ly Lz : Nat) :
    (lattice Lx Ly Lz).logX.length = (lattice Lx Ly Lz).logZ.length := by
  rw [lattice_logX, lattice_logZ, logX_length, logZ_length]

/-- `qubit_axis` of a qubit: `z` for the vertical qubits (even z); for the horizontal ones `x` when
    `(x + y) % 4 = 2` and `y` otherwise; every other location is a `ValueError`. -/
theorem qubit_axis_rule (Lx Ly Lz : Nat) (x y z : Int) (h : [x, y, z] ∈ (lattice Lx Ly Lz).qubits) :
    qubitAxis Lx Ly Lz [x, y, z] =
      some (if z % 2 = 0 then "z" else if (x + y) % 4 = 2 then "x" else "y") :=
  qubitAxis_qubit Lx Ly Lz x y z h

theorem qubit_axis_error (Lx Ly Lz : Nat) (loc : Coord) (h : loc ∉ (lattice Lx Ly Lz).qubits) :
    qubitAxis Lx Ly Lz loc = none :=
  qubitAxis_nonqubit Lx Ly Lz loc h

/-- `get_deformation` for every location, name and axis (default axis `'y'` when the keyword is not
    passed): an axis outside x/y/z or a name other than `XZZX` is a `ValueError`; `XZZX` swaps X and
    Z exactly on the qubits whose `qubit_axis` equals the deformation axis and is the identity on
    the other qubits (`ValueError` on a non-qubit). -/
theorem deformation_rule (Lx Ly Lz : Nat) (name : String) (axis : Option String) (loc : Coord) :
    getDeformation Lx Ly Lz name axis loc =
      if axis.getD "y" ≠ "x" ∧ axis.getD "y" ≠ "y" ∧ axis.getD "y" ≠ "z" then none
      else if name ≠ "XZZX" then none
      else (qubitAxis Lx Ly Lz loc).map fun a =>
        if a = axis.getD "y" then PauliMap.swapXZ else PauliMap.id :=
  getDeformation_rule Lx Ly Lz name axis loc

/-- consequently every deformation the class returns is a permutation of {X, Y, Z} -/
theorem deformation_isPerm (Lx Ly Lz : Nat) (name : String) (axis : Option String) (loc : Coord)
    (m : PauliMap) (h : getDeformation Lx Ly Lz name axis loc = some m) : m.isPerm = true := by
  rw [getDeformation_rule] at h
  split at h
  · cases h
  · split at h
    · cases h
    · cases hq : qubitAxis Lx Ly Lz loc with
      | none => rw [hq] at h; cases h
      | some a =>
        rw [hq] at h
        simp only [Option.map_some, Option.some.injEq] at h
        subst h
        split <;> decide

/-! ### non-vacuity: the model computes non-trivial data -/

example : (lattice 2 3 2).toCodeData.n = 15 := by decide +kernel
example : (lattice 2 3 2).toCodeData.k = 1 := by decide +kernel
example : (lattice 4 2 1).toCodeData.k = 2 := by decide +kernel
/-- a vertex on the defect line `x = 2·Lx` of a 3×2×1 lattice: Z on the left, X across the seam -/
example : getStab 3 2 1 [6, 4, 1] =
    [([1, 3, 1], Pauli.X), ([5, 1, 1], Pauli.Z), ([1, 1, 1], Pauli.X), ([5, 3, 1], Pauli.Z)] := by
  decide +kernel
/-- the vertical faces of the defect column are not stabilizers -/
example : getStab? 3 2 2 [1, 1, 2] = none ∧ (getStab? 3 2 2 [3, 1, 2]).isSome = true := by
  decide +kernel
/-- odd × even: the single logical Z is a string of Y -/
example : logZ 3 2 1 = [[([1, 1, 1], Pauli.Y), ([3, 1, 1], Pauli.Y), ([5, 1, 1], Pauli.Y)]] := by
  decide +kernel
example : (lattice 3 2 2).WF := wf 3 2 2 (by decide) (by decide) (by decide)
example : (lattice 3 4 2).CommPair := commPair 3 4 2 (by decide) (by decide) (by decide) (by decide)
example : (lattice 4 6 3).CommPair := commPair 4 6 3 (by decide) (by decide) (by decide) (by decide)
/-- odd × even: the logical X (a line of X) and the logical Z (a line of Y) anticommute -/
example : opAntiCount ((logX 3 2 1).getD 0 []) ((logZ 3 2 1).getD 0 []) = 1 := by decide +kernel
/-- odd × even, with a defect line: 48 qubits, one logical qubit, 47 independent generators -/
example : ValidCodeL 48 1 (lattice 3 4 3).rowsH (lattice 3 4 3).rowsX (lattice 3 4 3).rowsZ :=
  (valid_code 3 4 3 (by decide) (by decide) (by decide) (by decide)).2.2.2
/-- even × even: two logical qubits -/
example : ValidCodeL 40 2 (lattice 4 4 2).rowsH (lattice 4 4 2).rowsX (lattice 4 4 2).rowsZ :=
  (valid_code 4 4 2 (by decide) (by decide) (by decide) (by decide)).2.2.2
/-- even × odd, a single layer (the 2-D twisted toric code) -/
example : ValidCodeL 6 1 (lattice 2 3 1).rowsH (lattice 2 3 1).rowsX (lattice 2 3 1).rowsZ :=
  (valid_code 2 3 1 (by decide) (by decide) (by decide) (by decide)).2.2.2
example : (rankFamily 3 4 3).length = 47 ∧ (stabs 3 4 3).length = 52 := by decide +kernel
example : (rankFamily 4 4 2).length = 38 ∧ (stabs 4 4 2).length = 48 := by decide +kernel
/-- the family keeps the horizontal faces next to the dropped column in the upper layers -/
example : [2, 2, 3] ∈ rankFamily 3 4 3 ∧ [4, 4, 3] ∉ rankFamily 3 4 3 ∧ [2, 4, 1] ∉ rankFamily 3 4 3 := by
  decide +kernel
/-- `OpsIndep` is not vacuous: a family containing the same operator twice is dependent -/
example : ¬ Cubic3D.OpsIndep [[(([1, 1, 1] : Coord), Pauli.X)], [([1, 1, 1], Pauli.X)]] := by
  intro h
  have := h _ (List.Sublist.refl _) (by
    intro q
    by_cases hq : q = [1, 1, 1]
    · simp [Cubic3D.hitX, Cubic3D.hitZ, Op.get?, hq]
    · have hq' : ¬ ([1, 1, 1] : Coord) = q := fun e => hq e.symm
      simp [Cubic3D.hitX, Cubic3D.hitZ, Op.get?, hq'])
  simp at this
example : getDeformation 2 2 2 "XZZX" none [2, 4, 2] = some PauliMap.id := by decide +kernel
example : getDeformation 2 2 2 "XZZX" (some "z") [2, 4, 2] = some PauliMap.swapXZ := by decide +kernel
example : getDeformation 2 2 2 "XY" (some "x") [2, 4, 2] = none := by decide +kernel

end Panqec.C01RotatedToric3DCode
