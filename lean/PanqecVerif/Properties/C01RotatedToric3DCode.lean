/-
C01 (lattice part) for `RotatedToric3DCode`, for EVERY lattice size (no bound).

The model `Model/Lattices/RotatedToric3DCode.lean` is a hand-written transcription of
`panqec/codes/surface_3d/_rotated_toric_3d_code.py` as functions of the size (seam rules, defect
lines for an odd `L_x` / `L_y`, vertical faces dropped on the defect columns, logical operators as
comprehensions over `qubit_coordinates`); it is tied to the implementation by the correspondence
streams of `harness/lattices/rotatedtoric3dcode.py`.  Property theorems only; the lemmas are in
`Proofs/LatRotatedToric3DCode*.lean`.

Supported family (DESIGN.md section 4): `L_x, L_y ≥ 2`, `L_z ≥ 1`, not both `L_x` and `L_y` odd.
-/
import PanqecVerif.Proofs.LatRotatedToric3DCode1

namespace Panqec.C01RotatedToric3DCode

open Panqec Panqec.RotatedToric3DCode

/-- The coordinate part of well-formedness, every size: qubit coordinates are distinct, stabilizer
    coordinates are distinct, and no location is both (`_partial`: the operator clauses of
    `Lattice.WF` — keys distinct, support on qubits, non-empty — are not proved here for all sizes;
    they are covered per instance by the kernel-checked tables of `Properties/C01.lean`). -/
theorem wf_coordinates_partial (Lx Ly Lz : Nat) :
    (lattice Lx Ly Lz).qubits.Nodup ∧ (lattice Lx Ly Lz).stabs.Nodup ∧
      ∀ q ∈ (lattice Lx Ly Lz).qubits, q ∉ (lattice Lx Ly Lz).stabs :=
  ⟨qubits_nodup Lx Ly Lz, stabs_nodup Lx Ly Lz, fun _ hq => qubits_not_stabs hq⟩

/-- `n = Lx·Ly·Lz` horizontal qubits plus `(Lz − 1)` layers of vertical qubits, one at each point of
    the checkerboard `{(i, j) : 1 ≤ i ≤ Lx, 1 ≤ j ≤ Ly, i + j odd}` (every size) -/
theorem n_formula (Lx Ly Lz : Nat) :
    (lattice Lx Ly Lz).toCodeData.n =
      Lx * Ly * Lz + (((Lx + 1) / 2) * (Ly / 2) + (Lx / 2) * ((Ly + 1) / 2)) * (Lz - 1) :=
  length_qubits Lx Ly Lz

/-- in the supported family the checkerboard has `Lx·Ly/2` points: `2n = Lx·Ly·(3Lz − 1)`, stated
    without division as `2n + Lx·Ly = 3·Lx·Ly·Lz` -/
theorem n_formula_family (Lx Ly Lz : Nat) (hLz : 1 ≤ Lz) (h : ¬ (Lx % 2 = 1 ∧ Ly % 2 = 1)) :
    2 * (lattice Lx Ly Lz).toCodeData.n + Lx * Ly = 3 * (Lx * Ly * Lz) := by
  rw [n_formula]
  have hc := checker_even Lx Ly h
  generalize ((Lx + 1) / 2) * (Ly / 2) + (Lx / 2) * ((Ly + 1) / 2) = c at hc
  obtain ⟨m, rfl⟩ : ∃ m, Lz = m + 1 := ⟨Lz - 1, by omega⟩
  simp only [Nat.add_sub_cancel]
  rw [Nat.mul_add, ← Nat.mul_assoc 2 c m, hc, Nat.mul_add (Lx * Ly) m 1]
  omega

/-- `k = 2` when both `Lx` and `Ly` are even, `k = 1` otherwise (every size) -/
theorem k_value (Lx Ly Lz : Nat) :
    (lattice Lx Ly Lz).toCodeData.k = if Lx % 2 = 0 ∧ Ly % 2 = 0 then 2 else 1 :=
  logX_length Lx Ly Lz

/-- as many logical Z as logical X operators (every size) -/
theorem k_same (Lx Ly Lz : Nat) :
    (lattice Lx Ly Lz).logX.length = (lattice Lx Ly Lz).logZ.length := by
  rw [lattice_logX, lattice_logZ, logX_length, logZ_length]

/-- `qubit_axis` of a qubit: `z` for the vertical qubits (even z); for the horizontal ones `x` when
    `(x + y) % 4 = 2` and `y` otherwise; every other location is a `ValueError`. -/
theorem qubit_axis_rule (Lx Ly Lz : Nat) (x y z : Int) (h : [x, y, z] ∈ (lattice Lx Ly Lz).qubits) :
    qubitAxis Lx Ly Lz [x, y, z] =
      some (if z % 2 = 0 then "z" else if (x + y) % 4 = 2 then "x" else "y") :=
  qubitAxis_qubit Lx Ly Lz x y z h

theorem qubit_axis_error (Lx Ly Lz : Nat) (loc : Coord) (h : loc ∉ (lattice Lx Ly Lz).qubits) :
    qubitAxis Lx Ly Lz loc = none :=
  qubitAxis_nonqubit Lx Ly Lz loc h

/-- `get_deformation` for every location, name and axis (default axis `'y'` when the keyword is not
    passed): an axis outside x/y/z or a name other than `XZZX` is a `ValueError`; `XZZX` swaps X and
    Z exactly on the qubits whose `qubit_axis` equals the deformation axis and is the identity on
    the other qubits (`ValueError` on a non-qubit). -/
theorem deformation_rule (Lx Ly Lz : Nat) (name : String) (axis : Option String) (loc : Coord) :
    getDeformation Lx Ly Lz name axis loc =
      if axis.getD "y" ≠ "x" ∧ axis.getD "y" ≠ "y" ∧ axis.getD "y" ≠ "z" then none
      else if name ≠ "XZZX" then none
      else (qubitAxis Lx Ly Lz loc).map fun a =>
        if a = axis.getD "y" then PauliMap.swapXZ else PauliMap.id :=
  getDeformation_rule Lx Ly Lz name axis loc

/-- consequently every deformation the class returns is a permutation of {X, Y, Z} -/
theorem deformation_isPerm (Lx Ly Lz : Nat) (name : String) (axis : Option String) (loc : Coord)
    (m : PauliMap) (h : getDeformation Lx Ly Lz name axis loc = some m) : m.isPerm = true := by
  rw [getDeformation_rule] at h
  split at h
  · cases h
  · split at h
    · cases h
    · cases hq : qubitAxis Lx Ly Lz loc with
      | none => rw [hq] at h; cases h
      | some a =>
        rw [hq] at h
        simp only [Option.map_some, Option.some.injEq] at h
        subst h
        split <;> decide

/-! ### non-vacuity: the model computes non-trivial data -/

example : (lattice 2 3 2).toCodeData.n = 15 := by decide +kernel
example : (lattice 2 3 2).toCodeData.k = 1 := by decide +kernel
example : (lattice 4 2 1).toCodeData.k = 2 := by decide +kernel
/-- a vertex on the defect line `x = 2·Lx` of a 3×2×1 lattice: Z on the left, X across the seam -/
example : getStab 3 2 1 [6, 4, 1] =
    [([1, 3, 1], Pauli.X), ([5, 1, 1], Pauli.Z), ([1, 1, 1], Pauli.X), ([5, 3, 1], Pauli.Z)] := by
  decide +kernel
/-- the vertical faces of the defect column are not stabilizers -/
example : getStab? 3 2 2 [1, 1, 2] = none ∧ (getStab? 3 2 2 [3, 1, 2]).isSome = true := by
  decide +kernel
/-- odd × even: the single logical Z is a string of Y -/
example : logZ 3 2 1 = [[([1, 1, 1], Pauli.Y), ([3, 1, 1], Pauli.Y), ([5, 1, 1], Pauli.Y)]] := by
  decide +kernel
example : getDeformation 2 2 2 "XZZX" none [2, 4, 2] = some PauliMap.id := by decide +kernel
example : getDeformation 2 2 2 "XZZX" (some "z") [2, 4, 2] = some PauliMap.swapXZ := by decide +kernel
example : getDeformation 2 2 2 "XY" (some "x") [2, 4, 2] = none := by decide +kernel

end Panqec.C01RotatedToric3DCode
