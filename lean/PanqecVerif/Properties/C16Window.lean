/-
C16, second part — WHICH ROWS the finite-size-scaling fit sees and WHERE it starts.

Model: `Model/AnalysisWindow.lean` (`get_p_th_nearest`, `get_p_th_sd_interp`, the default / `autotruncate` /
manual-override windows of `Analysis.calculate_thresholds`, the truncation and start vector of the first
`curve_fit`, `apply_overrides`, the skip / replace look-ups, `p_th_fss_se`).

PROVED (all tables, all grids, every monotone "square root" `sq`):
  * `get_p_th_nearest` returns one of the supplied error rates (data-range clause), is defined exactly on
    non-empty tables, and does not depend on the row order when every (code, rate) carries one value and the
    code tuples have distinct `n`; in the pipeline (one 'code' name per parameter set) it returns the
    SMALLEST error rate: the crossing heuristic is vacuous there.
  * `get_p_th_sd_interp` does not depend on the row order (no side condition inside its domain); its three
    values are grid points with `p_left ≤ p_crossover ≤ p_right`, the exact grid starts at the smallest rate and
    ends below `p_max + res`; it is total on two or more curves and fails (ValueError) on one; for curves that
    are straight lines through a common point `(p_th, A)` (ansatz with `C = 0`) the crossover is the grid point
    nearest to `p_th` (`|p_crossover − p_th| < res/2`) and the window is the whole grid.
  * default window: all rows, the seed `p_th_nearest` inside it; the first fit starts inside the range of the
    rows it uses, at the seed itself whenever the seed lies in that range, with `A₀` inside the range of the
    logical rates; the start does not depend on the row order; the call fails exactly when the window holds no
    row with a finite rate.
  * the whole selection (`calculate_thresholds` up to `curve_fit`) does not depend on the order of the rows of the
    results table (`thresholds_rows_order_irrelevant`).
  * overrides: a skipped parameter set has no row, every other one has exactly one; a replaced one reports
    exactly the given numbers and is not fitted; `apply_overrides` writes class-NAME keys while
    `calculate_thresholds` looks up LABEL keys, so a spec given to `Analysis(overrides=…)` never changes the
    thresholds (`overrides_spec_never_applies`; the implementation agrees, see the correspondence stream).

NOT TRUE / `_partial` (witnesses below): the `autotruncate` window need not contain the seed nor any data row
(`autotruncate_window_can_miss_every_row`: the call then dies with ValueError), so clause (d) "the window holds
the rows the fit needs" is proved for the default window only.
-/
import PanqecVerif.Proofs.AnalysisWindowOrder

namespace Panqec.C16Window

open Panqec Panqec.An

/-! ## `get_p_th_nearest` -/

/-- DATA RANGE: the seed `p_th_nearest` is one of the supplied error rates, hence between the smallest and the
    largest one -/
theorem nearest_is_a_supplied_rate {rows : List TRow} {p lo hi : Rat} (h : pThNearest rows = .ok p)
    (hlo : minList (rows.map (·.rate)) = some lo) (hhi : maxList (rows.map (·.rate)) = some hi) :
    (∃ r ∈ rows, r.rate = p) ∧ lo ≤ p ∧ p ≤ hi := by
  obtain ⟨r, hr, rfl⟩ := pThNearest_mem h
  exact ⟨⟨r, hr, rfl⟩, (minList_spec hlo).2 _ (List.mem_map_of_mem hr), (maxList_spec hhi).2 _ (List.mem_map_of_mem hr)⟩

/-- the function fails exactly on the empty table -/
theorem nearest_defined_iff (rows : List TRow) : (∃ p, pThNearest rows = .ok p) ↔ rows ≠ [] := by
  constructor
  · rintro ⟨p, hp⟩ rfl
    cases hp
  · intro hne
    cases h : pThNearest rows with
    | ok p => exact ⟨p, rfl⟩
    | error e => exact absurd ((pThNearest_error_iff rows).mp ⟨e, h⟩) hne

/-- ORDER INDEPENDENCE: any permutation of the rows gives the same seed, provided every (code, error rate)
    carries one value (`Keyed`, guaranteed by the group-by of `aggregate`) and distinct code tuples have
    distinct `n` (`DistinctN`; the sort by `n` is then determined) -/
theorem nearest_order_irrelevant {rows₁ rows₂ : List TRow} (h : rows₁.Perm rows₂) (hk : Keyed rows₁)
    (hn : DistinctN rows₁) : pThNearest rows₁ = pThNearest rows₂ := pThNearest_perm h hk hn

/-- In the pipeline every row of a parameter set carries the same 'code' (the class name): the function
    returns the smallest error rate, whatever the logical rates are. -/
theorem nearest_in_pipeline_is_smallest_rate {rows : List TRow} {c : Nat} {m : Rat} (h : ∀ r ∈ rows, r.code = c)
    (hm : minList (rows.map (·.rate)) = some m) : pThNearest rows = .ok m := pThNearest_single_code h hm

/-! ## `get_p_th_sd_interp` -/

/-- ORDER INDEPENDENCE: any permutation of the rows gives the same (crossover, left, right), for every grid and
    every `sq` (outside the modelled domain both sides are the same error) -/
theorem sd_interp_order_irrelevant (sq : Rat → Rat) (grid : List Rat) {rows₁ rows₂ : List TRow}
    (h : rows₁.Perm rows₂) : sdInterp sq grid rows₁ = sdInterp sq grid rows₂ := sdInterp_perm sq grid h

/-- the three returned values are points of the grid, in the order left ≤ crossover ≤ right when the grid is
    increasing: the window of `autotruncate` contains the reported `p_th_sd` -/
theorem sd_interp_window_ordered {sq : Rat → Rat} {grid : List Rat} {rows : List TRow} {pc pl pr : Rat}
    (h : sdInterp sq grid rows = .ok (pc, pl, pr)) (hs : grid.Pairwise (· ≤ ·)) :
    pc ∈ grid ∧ pl ∈ grid ∧ pr ∈ grid ∧ pl ≤ pc ∧ pc ≤ pr := by
  obtain ⟨ic, il, ir, _, h1, h2, h3, rfl, rfl, rfl⟩ := sdInterp_spec h
  have mem : ∀ i, i < grid.length → grid.getD i 0 ∈ grid := by
    intro i hi
    rw [List.getD_eq_getElem?_getD, List.getElem?_eq_getElem hi]
    exact List.getElem_mem hi
  exact ⟨mem ic (by omega), mem il (by omega), mem ir h3, sorted_getD_le' hs h1 (by omega), sorted_getD_le' hs h2 h3⟩

/-- DATA RANGE on the exact grid `p_min + i·res`, `i < N`: the window starts at or after the smallest rate and ends
    at or before the last grid point; with the exact length `N = ⌈(p_max + res − p_min)/res⌉` that point is
    below `p_max + res` -/
theorem sd_interp_inside_data_range {sq : Rat → Rat} {rows : List TRow} {pmin pmaxE res pc pl pr : Rat}
    (hres : 0 < res) (hle : pmin ≤ pmaxE)
    (h : sdInterp sq (exactGrid pmin res (gridLenExact pmin pmaxE res)) rows = .ok (pc, pl, pr)) :
    pmin ≤ pl ∧ pl ≤ pc ∧ pc ≤ pr ∧ pr < pmaxE + res := by
  obtain ⟨ic, il, ir, _, h1, h2, h3, rfl, rfl, rfl⟩ := sdInterp_spec h
  rw [exactGrid_length] at h3
  obtain ⟨_, hlast, _⟩ := gridLenExact_spec hres hle
  rw [exactGrid_getD _ _ (by omega : ic < _), exactGrid_getD _ _ (by omega : il < _), exactGrid_getD _ _ h3]
  refine ⟨?_, gridPt_mono (le_of_lt hres) h1, gridPt_mono (le_of_lt hres) h2, ?_⟩
  · unfold gridPt
    have : (0 : Rat) ≤ (il : Rat) := by positivity
    nlinarith
  · exact lt_of_le_of_lt (gridPt_mono (le_of_lt hres) (by omega)) hlast

/-- two or more curves inside the domain: the function returns a window (the list of local minima of the spread
    is never empty) -/
theorem sd_interp_total (sq : Rat → Rat) {grid : List Rat} {rows : List TRow} (hg : grid ≠ [])
    (hd : sdDomain rows = true) (hl : 2 ≤ (labelsOf rows).length) : ∃ r, sdInterp sq grid rows = .ok r := by
  obtain ⟨⟨ic, il, ir⟩, hr⟩ := sdInterpIdx_total sq hg hd hl
  exact ⟨_, by unfold sdInterp; rw [hr]⟩

/-- a single distance: the spread over one curve is NaN everywhere and `np.argmax([])` raises ValueError -/
theorem sd_interp_single_distance_fails (sq : Rat → Rat) (grid : List Rat) {rows : List TRow} (hne : rows ≠ [])
    (hd : sdDomain rows = true) (hl : (labelsOf rows).length < 2) : sdInterp sq grid rows = .error .noMinimum := by
  unfold sdInterp
  rw [sdInterpIdx_one_curve sq grid hne hd hl]

/-- on a V-shaped spread (strictly falling up to grid index `j`, strictly rising after it) the crossover is the
    bottom of the V and the window is the whole grid -/
theorem sd_select_on_v_shape {sd : List Rat} {j : Nat} (h : VShape sd j) : sdSelect sd = .ok (j, 0, sd.length - 1) :=
  sdSelect_vshape h

/-- (c) CROSSING POINT.  Curves that are straight lines through a common point `(p_th, A)` with at least two
    different slopes (the ansatz with `C = 0`: slope `B d^ν`), every distance sampled at two or more rates, any rates
    (not necessarily the same for all distances): on the exact grid the interpolated crossover is the grid point `j`
    nearest to `p_th` — `|p_crossover − p_th| < res/2` for `p_th` inside the grid span — and the window is the
    whole grid.  `sq` is any strictly increasing function on the non-negative rationals (the real square root is
    one).  Not covered: `p_th` exactly half-way between two grid points (a tie of the spread), curved data
    (`C ≠ 0`: measured, within 1.2 grid steps on the planted instances). -/
theorem crossover_of_lines (sq : Rat → Rat) (hsq : ∀ a c : Rat, 0 ≤ a → a < c → sq a < sq c)
    {rows : List TRow} {pth A : Rat} {b : Nat → Rat} (h : OnLines rows pth A b)
    (hb : ∃ l₁ ∈ labelsOf rows, ∃ l₂ ∈ labelsOf rows, b l₁ ≠ b l₂)
    (hfin : ∀ r ∈ rows, r.pest.isSome = true)
    {pmin res : Rat} (hres : 0 < res) {N j : Nat} (hj : j < N)
    (hlo : j = 0 ∨ gridPt pmin res j - res / 2 < pth) (hhi : j + 1 = N ∨ pth < gridPt pmin res j + res / 2) :
    sdInterp sq (exactGrid pmin res N) rows =
      .ok (gridPt pmin res j, gridPt pmin res 0, gridPt pmin res (N - 1)) := by
  obtain ⟨l₁, hl₁, l₂, hl₂, hne⟩ := hb
  have hV : 0 < sampleVariance ((labelsOf rows).map b) :=
    sampleVariance_pos (List.mem_map_of_mem hl₁) (List.mem_map_of_mem hl₂) hne
  have hlab : 2 ≤ (labelsOf rows).length := by
    have hnd := eraseDups_nodup (rows.map (·.label))
    match hlab : labelsOf rows, hl₁, hl₂ with
    | [], h1, _ => simp at h1
    | [x], h1, h2 =>
      simp only [List.mem_singleton] at h1 h2
      exact absurd (by rw [h1, h2]) hne
    | _ :: _ :: _, _, _ => simp
  have hrows : rows ≠ [] := by
    rintro rfl; simp [labelsOf] at hl₁
  have hdom : sdDomain rows = true := (sdDomain_iff rows).mpr ⟨hfin, h.keys⟩
  have hV' := vshape_of_lines sq hsq hV hres hj hlo hhi
  unfold sdInterp sdInterpIdx
  have he : rows.isEmpty = false := by
    cases rows with
    | nil => exact absurd rfl hrows
    | cons _ _ => rfl
  rw [he, hdom]
  simp only [Bool.false_eq_true, if_false, Bool.not_true]
  rw [if_neg (by omega), sdValues_lines sq h, sdSelect_vshape hV']
  simp only [List.length_map, exactGrid_length]
  rw [exactGrid_getD _ _ hj, exactGrid_getD _ _ (by omega : 0 < N), exactGrid_getD _ _ (by omega : N - 1 < N)]

/-- the bound of (c) in the form "within half a grid step": for `p_th` in the span of the grid and `j` as above -/
theorem crossover_within_half_step {pmin res pth : Rat} {N j : Nat} (hres : 0 < res) (hj : j < N)
    (hlo : j = 0 ∨ gridPt pmin res j - res / 2 < pth) (hhi : j + 1 = N ∨ pth < gridPt pmin res j + res / 2)
    (hspan : gridPt pmin res 0 ≤ pth ∧ pth ≤ gridPt pmin res (N - 1)) : |gridPt pmin res j - pth| < res / 2 := by
  rw [abs_lt]
  constructor
  · rcases hhi with hN | hhi
    · have : N - 1 = j := by omega
      rw [this] at hspan
      linarith [hspan.2]
    · linarith
  · rcases hlo with h0 | hlo
    · subst h0
      linarith [hspan.1]
    · linarith

/-! ## the window and the start of the first fit -/

/-- (d) DEFAULT WINDOW: limits = smallest and largest rate, every row is handed on, the window keeps every row with
    a finite logical rate, and the seed (one of the rates) lies inside it -/
theorem default_window_keeps_everything {rows : List TRow} {pn : Rat} {w : Window}
    (h : windowDefault rows pn = some w) (hpn : ∃ r ∈ rows, r.rate = pn) :
    w.rows = rows ∧ truncRows w.rows w.pLeft w.pRight = rows.filter (·.pest.isSome) ∧
    w.pLeft ≤ w.pNearest ∧ w.pNearest ≤ w.pRight ∧ w.pSd = w.pNearest := by
  obtain ⟨hlo, hhi, hr, hn, hs⟩ := windowDefault_spec h
  obtain ⟨r, hr', rfl⟩ := hpn
  refine ⟨hr, ?_, ?_, ?_, by rw [hs, hn]⟩
  · rw [hr]; exact truncRows_default hlo hhi
  · rw [hn]; exact (minList_spec hlo).2 _ (List.mem_map_of_mem hr')
  · rw [hn]; exact (maxList_spec hhi).2 _ (List.mem_map_of_mem hr')

/-- START OF THE FIRST FIT (any window): `curve_fit` receives the rows inside the window (at least one), starts
    `p_th` inside the range `[lo, hi]` of their error rates — hence inside the window —, at the seed itself
    whenever the seed lies in that range, and starts `A` inside the range of their logical rates -/
theorem first_fit_start_inside_window {rows : List TRow} {pl pr pn : Rat} {n : Nat} {p0 f0 : Rat}
    (h : firstFitStart rows pl pr pn = .ok (n, p0, f0)) :
    n = (truncRows rows pl pr).length ∧ 0 < n ∧ pl ≤ p0 ∧ p0 ≤ pr ∧
    (∃ lo hi, minList ((truncRows rows pl pr).map (·.rate)) = some lo ∧
      maxList ((truncRows rows pl pr).map (·.rate)) = some hi ∧ lo ≤ p0 ∧ p0 ≤ hi ∧ ((lo ≤ pn ∧ pn ≤ hi) → p0 = pn)) ∧
    ∀ a b : Rat, (∀ r ∈ truncRows rows pl pr, ∀ v, r.pest = some v → a ≤ v ∧ v ≤ b) → a ≤ f0 ∧ f0 ≤ b := by
  obtain ⟨h1, h2, lo, hi, h3, h4, h5, h6, h7, h8, h9, h10⟩ := firstFitStart_spec h
  exact ⟨h1, h2, le_trans h5 h7, le_trans h8 h6, ⟨lo, hi, h3, h4, h7, h8, h9⟩, h10⟩

/-- the start does not depend on the order of the rows -/
theorem first_fit_start_order_irrelevant {rows₁ rows₂ : List TRow} (h : rows₁.Perm rows₂) (pl pr pn : Rat) :
    firstFitStart rows₁ pl pr pn = firstFitStart rows₂ pl pr pn := firstFitStart_perm h pl pr pn

/-- the call dies (ValueError of `min()` on an empty sequence, not caught) exactly when no row with a finite
    logical rate lies inside the window -/
theorem first_fit_fails_iff_window_empty (rows : List TRow) (pl pr pn : Rat) :
    (∃ e, firstFitStart rows pl pr pn = .error e) ↔ truncRows rows pl pr = [] :=
  firstFitStart_error_iff rows pl pr pn

/-- default window, finite rates, seed among the rates: the first fit sees all rows and starts at the seed -/
theorem default_first_fit_starts_at_seed {rows : List TRow} {pn : Rat} {w : Window}
    (h : windowDefault rows pn = some w) (hpn : ∃ r ∈ rows, r.rate = pn) (hfin : ∀ r ∈ rows, r.pest.isSome = true) :
    ∃ f0, firstFitStart w.rows w.pLeft w.pRight w.pNearest = .ok (rows.length, pn, f0) := by
  obtain ⟨hlo, hhi, hr, hn, _⟩ := windowDefault_spec h
  have htr : truncRows rows w.pLeft w.pRight = rows := by
    rw [truncRows_default hlo hhi, List.filter_eq_self]
    exact hfin
  cases hf : firstFitStart w.rows w.pLeft w.pRight w.pNearest with
  | error e =>
    have := (firstFitStart_error_iff _ _ _ _).mp ⟨e, hf⟩
    rw [hr, htr] at this
    obtain ⟨r, hr', _⟩ := hpn
    subst this
    simp at hr'
  | ok v =>
    obtain ⟨n, p0, f0⟩ := v
    obtain ⟨h1, _, lo, hi, h3, h4, _, _, _, _, h9, _⟩ := firstFitStart_spec hf
    rw [hr, htr] at h1 h3 h4
    rw [h3] at hlo
    rw [h4] at hhi
    injection hlo with hlo
    injection hhi with hhi
    obtain ⟨r, hr', hrp⟩ := hpn
    have hin : lo ≤ w.pNearest ∧ w.pNearest ≤ hi := by
      rw [hn, ← hrp]
      exact ⟨(minList_spec h3).2 _ (List.mem_map_of_mem hr'), (maxList_spec h4).2 _ (List.mem_map_of_mem hr')⟩
    exact ⟨f0, by rw [h1, h9 hin, hn]⟩

/-- MANUAL WINDOW: the limits are the given ones widened by 1e-9 (the data range where none is given), the rows
    are cut by the size limits, and the reported `p_th_sd` lies inside a non-inverted window -/
theorem manual_window_limits {spec : TruncSpec} {rows : List TRow} {pn : Rat} {w : Window}
    (h : windowOverride spec rows pn = some w) :
    (∀ v, spec.hasRate = true → spec.rmin = some v → w.pLeft = v - tol9) ∧
    (∀ v, spec.hasRate = true → spec.rmax = some v → w.pRight = v + tol9) ∧
    (spec.hasRate = false → minList (rows.map (·.rate)) = some w.pLeft ∧ maxList (rows.map (·.rate)) = some w.pRight) ∧
    (∀ r ∈ w.rows, r ∈ rows) ∧ (w.pLeft ≤ w.pRight → w.pLeft ≤ w.pSd ∧ w.pSd ≤ w.pRight) := by
  obtain ⟨lo, hi, hlo, hhi, hl, hr, _, _, hrows⟩ := windowOverride_spec h
  refine ⟨?_, ?_, ?_, fun r hr' => ((hrows r).mp hr').1, windowOverride_pSd_inside h⟩
  · intro v hv hmin; rw [hl, hv, hmin]; rfl
  · intro v hv hmax; rw [hr, hv, hmax]; rfl
  · intro hv
    rw [hl, hr, hv]
    exact ⟨hlo, hhi⟩

/-- (d) `_partial`.  The window of `autotruncate` contains the reported `p_th_sd` (above), but neither the seed nor
    a minimum number of rows — not even one.  WITNESS: two distances at the rates 0.1005, 0.103, 0.108, 0.109
    (exact grid, no rounding involved): the window is [0.1035, 0.1075], strictly between two data rates; the seed
    0.1005 lies outside, no row lies inside, and the first fit dies with ValueError. -/
def emptyWindowRows : List TRow :=
  [ ⟨0, 0, 8, 1, 2, 201/2000, some (5/16)⟩, ⟨0, 0, 8, 1, 2, 103/1000, some (1/2)⟩,
    ⟨0, 0, 8, 1, 2, 27/250, some (1/16)⟩, ⟨0, 0, 8, 1, 2, 109/1000, some (1/4)⟩,
    ⟨0, 1, 18, 1, 3, 201/2000, some (1/2)⟩, ⟨0, 1, 18, 1, 3, 103/1000, some (1/16)⟩,
    ⟨0, 1, 18, 1, 3, 27/250, some (11/16)⟩, ⟨0, 1, 18, 1, 3, 109/1000, some (5/16)⟩ ]

set_option maxRecDepth 100000 in
theorem autotruncate_window_can_miss_every_row :
    pThNearest emptyWindowRows = .ok (201/2000) ∧
    sdExactGrid (1/1000) emptyWindowRows (some (201/2000)) = exactGrid (201/2000) (1/1000) 10 ∧
    windowAuto sqrtApprox (exactGrid (201/2000) (1/1000) 10) emptyWindowRows (201/2000) =
      .ok { pNearest := 201/2000, pSd := 211/2000, pLeft := 207/2000, pRight := 43/400, rows := emptyWindowRows } ∧
    truncRows emptyWindowRows (207/2000) (43/400) = [] ∧
    firstFitStart emptyWindowRows (207/2000) (43/400) (201/2000) = .error .emptyWindow := by
  decide +kernel

/-! ## overrides -/

/-- SKIP: `calculate_thresholds` reports one entry per parameter set that is not in `self.skips`, in sorted
    order, and none for a skipped one -/
theorem skip_removes_the_row {st : OvState} {sector : Nat} {mode : WindowMode} {rs : List ResRow}
    {es : List ThreshEntry} (h : calcThresholds st sector mode rs = .ok es) :
    es.map ThreshEntry.key = (paramSets rs).filter (fun t => !st.skips.contains t) ∧
    (∀ e ∈ es, e.key ∉ st.skips) ∧ (es.map ThreshEntry.key).Nodup := by
  have hk := calcThresholds_keys h
  refine ⟨hk, ?_, ?_⟩
  · intro e he hmem
    have : e.key ∈ es.map ThreshEntry.key := List.mem_map_of_mem he
    rw [hk] at this
    have := (List.mem_filter.mp this).2
    simp [hmem] at this
  · rw [hk]; exact (paramSets_nodup rs).filter _

/-- REPLACE: a parameter set in `self.replaces` with a 'p_th_fss' is not fitted and reports exactly the given
    values: estimate, estimate − uncertainty, estimate + uncertainty, uncertainty (0 when none is given) -/
theorem replace_reports_exactly_the_given_values {st : OvState} {sector : Nat} {mode : WindowMode}
    {rs : List ResRow} {es : List ThreshEntry} (h : calcThresholds st sector mode rs = .ok es)
    {e : ThreshEntry} (he : e ∈ es) {rp : Replace} {v : Rat} (hrp : st.replaces.lookup e.key = some rp)
    (hv : rp.pth = some v) :
    ∃ w, e = .replaced e.key w (v, v - rp.se.getD 0, v + rp.se.getD 0, rp.se.getD 0) :=
  thresholdEntry_replaced (calcThresholds_entries h e he) hrp hv

/-- a parameter set that is not replaced is fitted, on the rows and from the start of its window -/
theorem not_replaced_is_fitted {st : OvState} {sector : Nat} {mode : WindowMode} {rs : List ResRow}
    {es : List ThreshEntry} (h : calcThresholds st sector mode rs = .ok es) {e : ThreshEntry} (he : e ∈ es)
    (hrp : st.replaces.lookup e.key = none) :
    ∃ w n p0 f0, e = .fitted e.key w n p0 f0 ∧ firstFitStart w.rows w.pLeft w.pRight w.pNearest = .ok (n, p0, f0) :=
  thresholdEntry_fitted (calcThresholds_entries h e he) hrp

/-- `apply_overrides` keys everything it writes by `(code, error_model, decoder)` CLASS NAMES of rows of the
    results table -/
theorem apply_overrides_writes_name_keys (rs : List ResRow) (spec : List Override) :
    (∀ t ∈ (applyOverrides rs spec).skips, ∃ r ∈ rs, r.nameKey = t) ∧
    (∀ e ∈ (applyOverrides rs spec).replaces, ∃ r ∈ rs, r.nameKey = e.1) ∧
    (∀ e ∈ (applyOverrides rs spec).overrides, ∃ r ∈ rs, r.nameKey = e.1.2) := by
  obtain ⟨h1, h2, h3⟩ := applyOverrides_keysIn rs spec
  exact ⟨fun t ht => List.mem_map.mp (h1 t ht), fun e he => List.mem_map.mp (h2 e he),
    fun e he => List.mem_map.mp (h3 e he)⟩

/-- DEFECT of the implementation, as a theorem about the faithful model: `calculate_thresholds` looks the
    parameter sets up by `(code, error_model_label, decoder_label)`.  A label (`'Name(param=…)'`) is never a class
    name, so no key written by `apply_overrides` is ever found: whatever spec is given to
    `Analysis(overrides=…)` — skip, replace or truncate — the thresholds are those of the run without overrides
    (provided every 'replace' override matches some row; otherwise `extra_thresholds` makes the call fail). -/
theorem overrides_spec_never_applies (rs : List ResRow) (spec : List Override) (sector : Nat) (mode : WindowMode)
    (hdisj : ∀ r ∈ rs, ∀ r' ∈ rs, r.labelKey ≠ r'.nameKey) (hextra : (applyOverrides rs spec).extra = []) :
    calcThresholds (applyOverrides rs spec) sector mode rs = calcThresholds {} sector mode rs :=
  calcThresholds_blind sector mode (applyOverrides_keysIn rs spec) hdisj hextra

/-- skipping every parameter set leaves nothing to concatenate: the call fails (ValueError) -/
theorem skipping_everything_fails {st : OvState} {rs : List ResRow} (sector : Nat) (mode : WindowMode)
    (h : ∀ t ∈ paramSets rs, st.skips.contains t = true) : calcThresholds st sector mode rs = .error .nothingFitted :=
  calcThresholds_nothing_left sector mode h

/-! ## order of the rows of the results table -/

/-- ORDER INDEPENDENCE of the whole row selection (`calculate_thresholds` up to the call of `curve_fit`, any
    override state, default or `autotruncate` windows with a grid rule that does not look at the row order — the
    exact grid and numpy's both depend on the smallest and largest rate only): permuting the rows of the results
    table changes neither the parameter sets reported, nor any window limit (`p_th_nearest`, `p_th_sd`, `p_left`,
    `p_right`), nor the number of rows and the start values `p0[0]`, `p0[2]` handed to the first fit, nor the
    replacement values, nor the error the call ends with.  (No side condition: inside one parameter set all rows
    carry the same 'code', so `get_p_th_nearest` is the smallest rate.) -/
theorem thresholds_rows_order_irrelevant (st : OvState) (sector : Nat) {mode : WindowMode} (hmode : mode.OrderFree)
    {rs₁ rs₂ : List ResRow} (h : rs₁.Perm rs₂) : calcReport st sector mode rs₁ = calcReport st sector mode rs₂ :=
  calcReport_perm st sector hmode h

/-- the default mode and `autotruncate` on the exact grid satisfy the hypothesis of the previous theorem -/
theorem exact_grid_modes_order_free (sq : Rat → Rat) (res : Rat) :
    WindowMode.default.OrderFree ∧
    (WindowMode.auto sq fun rows pn => sdExactGrid res rows (some pn)).OrderFree := by
  refine ⟨trivial, ?_⟩
  intro a b pn h
  show sdExactGrid res a (some pn) = sdExactGrid res b (some pn)
  unfold sdExactGrid sdGridLen
  rw [minList_perm (h.map _), maxList_perm (h.map _)]

/-! ## `p_th_fss_se` -/

/-- the radicand of `p_th_fss_se` (population variance of the bootstrap column) is non-negative, does not depend
    on the order of the bootstrap rows, and vanishes exactly on a constant column — the case `get_fit_status`
    reports as 'Zero SE uncertainty.' -/
theorem se_radicand (col : List Rat) :
    0 ≤ popVariance col ∧ (∀ col', col.Perm col' → popVariance col = popVariance col') ∧
    (col ≠ [] → (popVariance col = 0 ↔ ∀ x ∈ col, ∀ y ∈ col, x = y)) :=
  ⟨popVariance_nonneg col, fun _ h => popVariance_perm h, popVariance_eq_zero_iff⟩

/-! ## non-vacuity and instances -/

/-- three distances on lines through (1/10, 3/10) with slopes 2, 3, 4; distance 2 lacks the rate 0.12 -/
def lineRows : List TRow :=
  [ ⟨0, 0, 8, 1, 2, 2/25, some (3/10 + 2 * (2/25 - 1/10))⟩, ⟨0, 0, 8, 1, 2, 1/10, some (3/10)⟩,
    ⟨0, 1, 18, 1, 3, 2/25, some (3/10 + 3 * (2/25 - 1/10))⟩, ⟨0, 1, 18, 1, 3, 1/10, some (3/10)⟩,
    ⟨0, 1, 18, 1, 3, 3/25, some (3/10 + 3 * (3/25 - 1/10))⟩,
    ⟨0, 2, 32, 1, 4, 2/25, some (3/10 + 4 * (2/25 - 1/10))⟩, ⟨0, 2, 32, 1, 4, 3/25, some (3/10 + 4 * (3/25 - 1/10))⟩ ]

def lineSlope (l : Nat) : Rat := (l : Rat) + 2

theorem lineRows_onLines : OnLines lineRows (1/10) (3/10) lineSlope :=
  ⟨by decide +kernel, by decide +kernel, by unfold KeysNodup; decide +kernel⟩

/-- instance of (c) with `sq` the identity (strictly increasing): crossover exactly at p_th = 0.1 = grid point 20 -/
example : sdInterp (fun x => x) (exactGrid (2/25) (1/1000) 41) lineRows = .ok (1/10, 2/25, 3/25) := by
  have := crossover_of_lines (fun x => x) (fun _ _ _ h => h) lineRows_onLines
    ⟨0, by decide +kernel, 1, by decide +kernel, by decide +kernel⟩ (by decide +kernel)
    (pmin := 2/25) (res := 1/1000) (by norm_num) (N := 41) (j := 20) (by norm_num)
    (Or.inr (by unfold gridPt; norm_num)) (Or.inr (by unfold gridPt; norm_num))
  rw [this]
  unfold gridPt; norm_num

set_option maxRecDepth 100000 in
/-- and the driver's `sqrtApprox` gives the same window on this table -/
example : sdInterp sqrtApprox (sdExactGrid (1/1000) lineRows none) lineRows = .ok (1/10, 2/25, 3/25) := by
  decide +kernel

/-- the hypotheses of the order-independence theorem hold on a table with a per-size 'code' column -/
def codedRows : List TRow :=
  [ ⟨0, 0, 8, 1, 2, 1/10, some (1/4)⟩, ⟨0, 0, 8, 1, 2, 1/5, some (1/2)⟩, ⟨0, 0, 8, 1, 2, 3/10, some (5/8)⟩,
    ⟨1, 1, 18, 1, 3, 1/10, some (1/8)⟩, ⟨1, 1, 18, 1, 3, 1/5, some (1/2 + 1/64)⟩, ⟨1, 1, 18, 1, 3, 3/10, some (7/8)⟩ ]

example : Keyed codedRows ∧ DistinctN codedRows := by
  constructor
  · unfold Keyed; decide +kernel
  · unfold DistinctN; decide +kernel

/-- the documented interface (one 'code' per size): the order of the curves changes after 0.1 → seed 0.1;
    the same data with the pipeline's 'code' column (one name): the smallest rate, 0.1, whatever the data -/
example : pThNearest codedRows = .ok (1/10) ∧
    pThNearest (codedRows.map fun r => { r with code := 0 }) = .ok (1/10) ∧
    pThNearest (codedRows.reverse) = .ok (1/10) := by decide +kernel

/-- a table where the heuristic answers differently with per-size codes (0.2) and with one code name (0.1) -/
example :
    let rows : List TRow :=
      [ ⟨0, 0, 8, 1, 2, 1/10, some (1/8)⟩, ⟨0, 0, 8, 1, 2, 1/5, some (1/4)⟩, ⟨0, 0, 8, 1, 2, 3/10, some (1/2)⟩,
        ⟨1, 1, 18, 1, 3, 1/10, some (1/16)⟩, ⟨1, 1, 18, 1, 3, 1/5, some (3/16)⟩, ⟨1, 1, 18, 1, 3, 3/10, some (3/4)⟩ ]
    pThNearest rows = .ok (1/5) ∧ pThNearest (rows.map fun r => { r with code := 0 }) = .ok (1/10) := by
  decide +kernel

/-- a results table with two parameter sets (two decoders); class names 1, 2 / 3; labels 11, 12 / 13 -/
def twoSets : List ResRow :=
  (codedRows.map fun r => { row := { r with code := 0 }, em := 1, dec := 2, emLabel := 11, decLabel := 12, attrs := [(0, 2)] }) ++
  (codedRows.map fun r => { row := { r with code := 0 }, em := 1, dec := 3, emLabel := 11, decLabel := 13, attrs := [(0, 3)] })

/-- a spec that skips decoder 2 and replaces the threshold of decoder 3 -/
def demoSpec : List Override :=
  [ { filters := [(0, 2)], skip := true },
    { filters := [(0, 3)], replace := some { pth := some (1/2), se := some (1/100) } } ]

set_option maxRecDepth 100000 in
/-- what `apply_overrides` stores: name keys; what `calculate_thresholds` makes of it: nothing — both parameter
    sets are fitted on all their rows, as without a spec -/
example :
    (applyOverrides twoSets demoSpec).skips = [(0, 1, 2)] ∧
    (applyOverrides twoSets demoSpec).replaces = [((0, 1, 3), { pth := some (1/2), se := some (1/100) })] ∧
    (calcThresholds (applyOverrides twoSets demoSpec) 0 .default twoSets).toOption.map (·.map ThreshEntry.key) =
      some [(0, 11, 12), (0, 11, 13)] ∧
    (calcThresholds (applyOverrides twoSets demoSpec) 0 .default twoSets).toOption.map (·.all ThreshEntry.isFitted) =
      some true := by
  decide +kernel

set_option maxRecDepth 100000 in
/-- the reports of the two parameter sets, and the same reports from the reversed table -/
example :
    (calcReport {} 0 .default twoSets).toOption =
      some [⟨(0, 11, 12), 1/10, 1/10, 1/10, 3/10, some (6, 1/10, 3/16), none⟩,
            ⟨(0, 11, 13), 1/10, 1/10, 1/10, 3/10, some (6, 1/10, 3/16), none⟩] ∧
    (calcReport {} 0 .default twoSets.reverse).toOption = (calcReport {} 0 .default twoSets).toOption := by
  decide +kernel

set_option maxRecDepth 100000 in
/-- the same state keyed the way `calculate_thresholds` reads it (label triples) does what the documentation says:
    decoder 2 has no row, decoder 3 reports 0.5 ∓ 0.01 … and the call fails, because nothing was fitted -/
example :
    (match calcThresholds
        { skips := [(0, 11, 12)], replaces := [((0, 11, 13), { pth := some (1/2), se := some (1/100) })] }
        0 .default twoSets with
      | .error e => some e
      | .ok _ => none) = some .nothingFitted ∧
    ((calcThresholds { skips := [(0, 11, 12)] } 0 .default twoSets).toOption.map (·.map ThreshEntry.key)) =
      some [(0, 11, 13)] := by
  decide +kernel

example : popVariance [1/10, 1/10, 1/10] = 0 ∧ popVariance [1/10, 3/10] = 1/100 := by decide +kernel

end Panqec.C16Window
