/-
C05 — the INTERNALS of the union-find decoder (`panqec/decoders/union_find/uf_support.py`).

Model: `Model/UnionFind.lean` — an executable transcription of `Support`, `Clustering_Tree`,
`Peeling_Tree`: cluster growth by half-edges on the masked matrix `_H_to_grow`, `find_root` with
path compression, `merge_clusters` (union by size, dummy records for fresh stabilizers, dict
pop / re-insert), `_smallest_invalid_cluster`, `_update_parents`, the breadth-first spanning tree
`_build_tree` on the `uint8` product `H Hᵀ`, `peel`, `correction[ind] = 1`.  The iteration order of
every Python `set` the algorithm iterates is an INPUT of the model (a schedule): the theorems
below hold for every schedule; the correspondence feeds the orders recorded from the running
implementation (`harness/uf_internals.py`, step-granular comparison).

`Peeling_Tree.peel` is modelled as it is SINCE the repair of known finding D15: one qubit per
syndrome-carrying leaf, the first one it shares with its parent (`shared.argmax(axis=1)`).  The
code before the repair (EVERY shared qubit: `np.where(…)[1]`) is kept as `oldPeelRound … oldDecodeWith,
oldUfSolve` for the regression theorems at the end.

What is proved here (helper lemmas: `Proofs/UnionFind*.lean`), for every matrix satisfying the
decidable predicate `multigraphLike` (rectangular, 0/1, every column of weight ≤ 2, two
different rows sharing fewer than 256 columns: a MULTIgraph — parallel edges and dangling edges
allowed; the simple graphs `graphLike` of the theorems before the repair are the special case
"at most one shared column", `uf_simple_graphs_included`), every syndrome and every schedule:

* `uf_build_tree_spanning`  — `_build_tree` terminates on a connected cluster and returns a
  spanning tree of the member stabilizers along member qubits together with its leaf list;
* `uf_peeling_boundary`     — (a) peeling a spanning tree of a cluster with an even number of
  defects terminates, raises no shape error, and returns a duplicate-free list of member qubits
  whose boundary in the FULL matrix is exactly the defect set of the cluster;
* `uf_clustering_post`      — whenever the growth loop terminates, every cluster it returns
  is connected through the qubits assigned to it and contains an even number of defects, every
  defect lies in exactly one cluster, `_s_parents`/`_q_parents` point at the roots, and the
  run never left the modelled fragment (no negative-index wrap in `find_root`, parent chains
  shorter than the array);
* `uf_growth_terminates`     — (b) on a CLOSED multigraph (`closedMultigraph`: multigraph-like and
  every column of weight 0 or 2, i.e. no dangling edges — ALL toric lattices, sides ≥ 2) the
  growth loop terminates within the fuel `m·n + 1` for the syndrome of any error: every odd
  cluster has a boundary element with a nonzero entry left in `_H_to_grow` (else it would be a
  union of connected components with an odd number of defects), so every turn zeroes an entry;
* `uf_decode_total`, `uf_solver_contract`, `unionfind_decoder_reproduces_syndrome` — (c) hence
  `Support.decode()` returns a binary vector of length `n` with `syndrome(correction) = syndrome`,
  for every closed multigraph, every error and every schedule; this DISCHARGES the solver
  contract `UfValidOn` of `C05.unionfind_correction_reproduces_syndrome` for the model of the
  internals: the glue theorem holds for `UnionFindDecoder` with no hypothesis on the solver left.
* `uf_decode_partial`, `uf_solver_contract_partial` — for multigraph-like matrices WITH dangling
  edges (columns of weight 1: planar codes) only partial correctness holds: whenever the growth
  loop terminates the answer is right.  The gap (termination) cannot be closed there: a
  connected component can carry an odd number of defects and the real `Support.clustering`
  loops for ever (example below; observed and compared on every run).
* regression (d): `old_uf_fails_on_parallel_edges` — the code BEFORE the repair, on `Hz` of
  `Toric2DCode(2,2)` (every pair of adjacent vertices is joined by two qubits), answered the
  syndrome of an X error on qubit 0 with qubits {0, 2}, whose syndrome is zero;
  `uf_fixed_on_parallel_edges` — the repaired code answers it with qubit 0 alone;
  `uf_toric22_not_graphLike`, `uf_toric22_closedMultigraph` — the witness was outside the old
  hypothesis and is inside the new one; `uf_fix_conservative` — on every simple graph
  (`graphLike`), for every syndrome and schedule, the code before and after the repair return
  the same result, step for step (every peeling trace): the repair changes nothing where the
  old code was proved correct.
* `uf_build_tree_wraps_at_256` — the bound 256 of `multigraphLike` is not an artefact: two
  stabilizers joined by 256 qubits are not adjacent in `(H @ H.T).astype(bool)` (`uint8`
  product), the breadth-first search never reaches the second one (the Python loops for ever).
-/
import PanqecVerif.Proofs.UnionFindTermD
import PanqecVerif.Proofs.UnionFindOld
import PanqecVerif.Proofs.DecodersGlue

namespace Panqec.C05UF

open Panqec Panqec.UF

/-- **spanning tree** (`Peeling_Tree._build_tree`): for the cluster of root `r` (member
    stabilizers `_s_parents == r`, member qubits `_q_parents == r`) whose members are all
    reachable from `r` through member qubits, the breadth-first loops terminate within `m + 1`
    rounds; the returned matrix is a spanning tree (`TreeOK`: unique parents, edges are shared
    member qubits, strictly increasing depth, every member but the root has a parent) and the
    returned list is the list of its leaves. -/
theorem uf_build_tree_spanning (H : Mat) (hG : multigraphLike H = true) (sPar qPar : Nat → Int) (r : Nat)
    (hroot : stabsOf H sPar r r = true)
    (hconn : ∀ v, stabsOf H sPar r v = true → Reach H (stabsOf H sPar r) (qubitsOf H qPar r) r v) :
    ∃ S0 leaves, buildTree H (stabsOf H sPar r) (qubitsOf H qPar r) r = some (S0, leaves) ∧
      TreeOK H (stabsOf H sPar r) (qubitsOf H qPar r) r S0 ∧ LeavesOK (stabsOf H sPar r) r S0 leaves :=
  buildTree_spec (multigraphLike_ok hG).1 (fun _ h => stabsOf_lt h) hroot hconn

/-- **(a) peeling**: `Peeling_Tree(r, …).peel()` (one qubit per syndrome-carrying leaf: the first
    member qubit it shares with its parent) on a connected cluster with an even number of
    defects returns (no divergence, no shape error) a duplicate-free list of member qubits such
    that, for EVERY row `s` of the full matrix, the number of listed qubits in row `s` is odd
    exactly when `s` is a defect of the cluster. -/
theorem uf_peeling_boundary (H : Mat) (hG : multigraphLike H = true) (sy : Vec) (sPar qPar : Nat → Int)
    (r : Nat) (hroot : stabsOf H sPar r r = true)
    (hconn : ∀ v, stabsOf H sPar r v = true → Reach H (stabsOf H sPar r) (qubitsOf H qPar r) r v)
    (heven : cnt H.length (fun s => defect sy s && stabsOf H sPar r s) % 2 = 0) :
    ∃ t, peelTree H sy sPar qPar r = .ok t ∧ t.corr.Nodup ∧
      (∀ q, q ∈ t.corr → qubitsOf H qPar r q = true) ∧
      ∀ s, t.corr.countP (fun q => hb H s q) % 2 = b2n (defect sy s && stabsOf H sPar r s) :=
  peelTree_spec (multigraphLike_ok hG).1 sy sPar qPar r hroot hconn heven

/-- **growth**: whenever `Support.clustering()` terminates, its result satisfies `ClusterPost`
    (distinct roots that are their own parents; every defect in exactly one cluster; every cluster
    connected through its own qubits; an even number of defects per cluster) and the run stayed
    inside the modelled fragment — for every schedule of set iteration orders. -/
theorem uf_clustering_post (H : Mat) (hG : multigraphLike H = true) (sy : Vec) (sched : List (List Int))
    (hterm : (clustering H sy sched).terminated = true) :
    ClusterPost H sy (clustering H sy sched).roots (clustering H sy sched).sPar
      (clustering H sy sched).qPar ∧ (clustering H sy sched).bad = false :=
  clustering_post (multigraphLike_ok hG).1 sy sched hterm

/-- **(b) termination of the growth loop** (`while smallest_cluster` in `Support.clustering`):
    on a closed multigraph, for the syndrome of any error `v` and every schedule, the loop stops
    within `m·n + 1` turns. -/
theorem uf_growth_terminates (H : Mat) (hC : closedMultigraph H = true) (v : Vec)
    (hv : v.length = ncols H) (sched : List (List Int)) :
    (clustering H (sectorSyndrome H v) sched).terminated = true :=
  clustering_terminates hC v hv sched

/-- **(c) `Support(sy, H).decode()` is correct on closed multigraphs** (columns of weight 0 or 2,
    parallel edges allowed): for every error `v` and every schedule the run terminates in all three phases, raises nothing, never leaves the modelled
    fragment, and returns a binary vector of length `n` with the syndrome of `v`. -/
theorem uf_decode_total (H : Mat) (hC : closedMultigraph H = true) (v : Vec) (hv : v.length = ncols H)
    (sched : List (List Int)) :
    ∃ c, (decodeWith H (sectorSyndrome H v) sched).outcome = .ok c ∧ c.length = ncols H ∧
      (∀ x, x ∈ c → x < 2) ∧ sectorSyndrome H c = sectorSyndrome H v ∧
      (decodeWith H (sectorSyndrome H v) sched).bad = false :=
  decodeWith_total hC v hv sched

/-- the contract `UfValidOn` (`Proofs/DecodersGlue.lean`) holds for the model of the internals on
    every closed multigraph -/
theorem uf_solver_contract (H : Mat) (hC : closedMultigraph H = true) :
    UfValidOn (ncols H) ufSolve H := by
  intro sy ⟨v, hv, hsy⟩
  subst hsy
  obtain ⟨c, hc, hlen, hbin, hsyn, _⟩ := decodeWith_total hC v hv []
  unfold ufSolve
  rw [hc]
  exact ⟨hlen, hbin, hsyn⟩

/-- **UnionFindDecoder, end to end** (glue of `uf_decoder.py` + internals of `uf_support.py`): for
    every CSS matrix whose two sector matrices are closed multigraphs on `n` qubits and every error `e`,
    `decode(measure_syndrome(e))` returns a binary vector of length `2n` with exactly the
    measured syndrome — no hypothesis on a solver left. -/
theorem unionfind_decoder_reproduces_syndrome (H : Mat) (n : Nat) (hcss : isCss H = true)
    (hz : closedMultigraph (Hz H) = true) (hx : closedMultigraph (Hx H) = true)
    (hnz : ncols (Hz H) = n) (hnx : ncols (Hx H) = n) (e : Vec) (he : e.length = 2 * n) :
    ∃ c ev, ufDecode ufSolve H n (measureSyndrome H e) = .ok (c, ev) ∧
      c.length = 2 * n ∧ (∀ x ∈ c, x < 2) ∧ measureSyndrome H c = measureSyndrome H e := by
  obtain ⟨c, ev, h1, _, h3, h4, h5⟩ := uf_valid ufSolve H n hcss
    (hnz ▸ uf_solver_contract (Hz H) hz) (hnx ▸ uf_solver_contract (Hx H) hx) e he
  exact ⟨c, ev, h1, h3, h4, h5⟩

/-- **partial correctness with dangling edges**: `Support(sy, H).decode()` for every
    multigraph-like `H` (columns of weight 1 allowed), every syndrome and every schedule either does not
    terminate in the growth phase, or returns a binary vector of length `n` whose syndrome is
    exactly the list of defect flags.  Named `_partial` because termination is missing; it
    cannot be added: see `hzPlanar22` below. -/
theorem uf_decode_partial (H : Mat) (hG : multigraphLike H = true) (sy : Vec) (sched : List (List Int)) :
    ((decodeWith H sy sched).outcome = .growthDiverges ∨
      ∃ c, (decodeWith H sy sched).outcome = .ok c ∧ c.length = ncols H ∧ (∀ x, x ∈ c → x < 2) ∧
        sectorSyndrome H c = (List.range H.length).map fun s => b2n (defect sy s)) ∧
    (decodeWith H sy sched).bad = false :=
  decodeWith_partial hG sy sched

/-- **the solver contract of `C05.unionfind_correction_reproduces_syndrome`, discharged for
    the model up to termination**: for a multigraph-like matrix and a syndrome in its image, the model
    (under any schedule) either diverges in the growth phase or `Solves` the syndrome equation. -/
theorem uf_solver_contract_partial (H : Mat) (hG : multigraphLike H = true) (sy : Vec)
    (hf : Feasible (ncols H) H sy) (sched : List (List Int)) :
    (decodeWith H sy sched).outcome = .growthDiverges ∨
      ∃ c, (decodeWith H sy sched).outcome = .ok c ∧ Solves (ncols H) H sy c := by
  rcases (decodeWith_partial hG sy sched).1 with h | ⟨c, hc, hlen, hbin, hsyn⟩
  · exact Or.inl h
  · refine Or.inr ⟨c, hc, hlen, hbin, ?_⟩
    obtain ⟨v, _, hv⟩ := hf
    rw [hsyn]
    apply defect_flags
    · rw [← hv]; unfold sectorSyndrome; simp
    · rw [← hv]; exact sectorSyndrome_binary H v

/-- the hypotheses of the theorems before the repair (simple graphs) are special cases: every
    theorem above applies to every `graphLike` / `closedGraph` matrix -/
theorem uf_simple_graphs_included (H : Mat) :
    (graphLike H = true → multigraphLike H = true) ∧
    (closedGraph H = true → closedMultigraph H = true) :=
  ⟨graphLike_multi, closedGraph_multi⟩

/-! ### (d) regression: `Toric2DCode(2, 2)`, before and after the repair of `peel` -/

/-- `Toric2DCode(2,2).Hz`: every two adjacent vertices are joined by TWO qubits -/
def hzToric22 : Mat :=
  [[1,0,1,0,1,1,0,0],[0,1,0,1,1,1,0,0],[1,0,1,0,0,0,1,1],[0,1,0,1,0,0,1,1]]

/-- the witness of the former finding D15 is not a simple graph (it was outside the hypothesis
    of the theorems about the code before the repair) … -/
theorem uf_toric22_not_graphLike : graphLike hzToric22 = false := by decide

/-- … and it is a closed multigraph: inside the hypothesis of the theorems above -/
theorem uf_toric22_closedMultigraph : closedMultigraph hzToric22 = true := by decide +kernel

/-- **the code BEFORE the repair failed on it** (`oldDecodeWith`, `oldUfSolve`: `peel` with
    `np.where(parent_qubits & leaf_qubits)[1]`): the syndrome `1010` of an X error on qubit 0 was
    answered by qubits {0, 2} — both parallel qubits of the tree edge — whose syndrome is zero. -/
theorem old_uf_fails_on_parallel_edges :
    sectorSyndrome hzToric22 [1,0,0,0,0,0,0,0] = [1,0,1,0] ∧
    (oldDecodeWith hzToric22 [1,0,1,0] []).outcome = .ok [1,0,1,0,0,0,0,0] ∧
    sectorSyndrome hzToric22 [1,0,1,0,0,0,0,0] = [0,0,0,0] ∧
    ¬ Solves 8 hzToric22 [1,0,1,0] (oldUfSolve hzToric22 [1,0,1,0]) := by
  refine ⟨by decide, by decide +kernel, by decide, ?_⟩
  intro h
  have h1 : oldUfSolve hzToric22 [1,0,1,0] = [1,0,1,0,0,0,0,0] := by decide +kernel
  rw [h1] at h
  exact absurd h.2.2 (by decide)

/-- **the repaired code succeeds on the same input** (`shared.argmax(axis=1)`: one qubit per
    leaf): the answer is qubit 0 alone, with the measured syndrome. -/
theorem uf_fixed_on_parallel_edges :
    (decodeWith hzToric22 [1,0,1,0] []).outcome = .ok [1,0,0,0,0,0,0,0] ∧
    sectorSyndrome hzToric22 [1,0,0,0,0,0,0,0] = [1,0,1,0] ∧
    Solves 8 hzToric22 [1,0,1,0] (ufSolve hzToric22 [1,0,1,0]) := by
  refine ⟨by decide +kernel, by decide, ?_⟩
  have h1 : ufSolve hzToric22 [1,0,1,0] = [1,0,0,0,0,0,0,0] := by decide +kernel
  rw [h1]
  exact ⟨by decide, by decide, by decide⟩

/-- the general theorem applies to the witness matrix: EVERY error on the 8 qubits, every
    schedule (the kernel-evaluated run above is the instance `v = 10000000`, list order) -/
example (v : Vec) (hv : v.length = 8) (sched : List (List Int)) :
    ∃ c, (decodeWith hzToric22 (sectorSyndrome hzToric22 v) sched).outcome = .ok c ∧
      sectorSyndrome hzToric22 c = sectorSyndrome hzToric22 v := by
  obtain ⟨c, h1, _, _, h2, _⟩ := uf_decode_total hzToric22 uf_toric22_closedMultigraph v hv sched
  exact ⟨c, h1, h2⟩

/-- `Toric2DCode(2,3).Hz` (6 vertices, 12 qubits; the vertices `(0,y)`, `(2,y)` are joined by two
    qubits: columns 0 and 3, 1 and 4, 2 and 5) -/
def hzToric23 : Mat :=
  [[1,0,0,1,0,0,1,0,1,0,0,0],[0,1,0,0,1,0,1,1,0,0,0,0],[0,0,1,0,0,1,0,1,1,0,0,0],
   [1,0,0,1,0,0,0,0,0,1,0,1],[0,1,0,0,1,0,0,0,0,1,1,0],[0,0,1,0,0,1,0,0,0,0,1,1]]

/-- a second kernel-checked side-2 instance: parallel edges, closed multigraph, and the run on
    the syndrome of X errors on qubits 0 and 7 (list order) reproduces that syndrome -/
example : graphLike hzToric23 = false ∧ closedMultigraph hzToric23 = true ∧
    ∃ c, (decodeWith hzToric23 (sectorSyndrome hzToric23 [1,0,0,0,0,0,0,1,0,0,0,0]) []).outcome = .ok c ∧
      sectorSyndrome hzToric23 c = sectorSyndrome hzToric23 [1,0,0,0,0,0,0,1,0,0,0,0] := by
  refine ⟨by decide +kernel, by decide +kernel, ?_⟩
  exact ⟨(ufSolve hzToric23 (sectorSyndrome hzToric23 [1,0,0,0,0,0,0,1,0,0,0,0])),
    by decide +kernel, by decide +kernel⟩

/-- **the repair is conservative**: on every simple graph (the matrices on which the code before
    the repair was proved correct: `Toric2DCode` with sides ≥ 3, planar codes), for every
    syndrome vector and every schedule, `Support.decode()` before and after the repair return
    the same outcome and flags (the peeling traces are equal round for round: a leaf and its
    parent share exactly one member qubit there, so "all of them" and "the first" coincide). -/
theorem uf_fix_conservative (H : Mat) (hG : graphLike H = true) (sy : Vec)
    (sched : List (List Int)) : oldDecodeWith H sy sched = decodeWith H sy sched :=
  oldDecodeWith_eq hG sy sched

/-- hence the solver before the repair satisfied the contract on every closed SIMPLE graph
    (what was proved about it before the repair) -/
theorem old_uf_solver_contract (H : Mat) (hC : closedGraph H = true) :
    UfValidOn (ncols H) oldUfSolve H := by
  have hG : graphLike H = true := by
    unfold closedGraph at hC; simp only [Bool.and_eq_true] at hC; exact hC.1
  have : oldUfSolve H = ufSolve H := by
    funext sy
    unfold oldUfSolve ufSolve
    rw [oldDecodeWith_eq hG sy []]
  intro sy hsy
  rw [this]
  exact uf_solver_contract H (closedGraph_multi hC) sy hsy

/-! ### the bound 256 on parallel edges -/

/-- two stabilizers joined by 256 qubits -/
def hPar256 : Mat := [List.replicate 256 1, List.replicate 256 1]

set_option maxRecDepth 100000 in
/-- **the bound of `multigraphLike` is necessary**: with 256 parallel edges the `uint8` entry of
    `H @ H.T` wraps to 0, the two stabilizers are not adjacent in `(H @ H.T).astype(bool)` and
    `_build_tree` for the cluster {0, 1} never reaches stabilizer 1 (fuel exhausted; the real
    `Support([1,1], H).decode()` hangs in `while np.sum(unseen) > 0` for exactly 256 columns and
    answers correctly for 255 and 257: observed on the implementation).  No code family of panqec
    comes near (at most 2 parallel edges: `Toric2DCode` with a side of length 2). -/
theorem uf_build_tree_wraps_at_256 :
    multigraphLike hPar256 = false ∧
    shared hPar256 (fun s => decide (s < 2)) (fun q => decide (q < 256)) 0 1 = false ∧
    (buildTree hPar256 (fun s => decide (s < 2)) (fun q => decide (q < 256)) 0).isNone = true := by
  refine ⟨by decide +kernel, by decide +kernel, by decide +kernel⟩

/-! ### non-vacuity: `Toric2DCode(3, 3)` and `Planar2DCode(2, 2)` -/

/-- `Toric2DCode(3,3).Hz` -/
def hzToric33 : Mat :=
  [[1,0,0,0,0,0,1,0,0,1,0,1,0,0,0,0,0,0],[0,1,0,0,0,0,0,1,0,1,1,0,0,0,0,0,0,0],
   [0,0,1,0,0,0,0,0,1,0,1,1,0,0,0,0,0,0],[1,0,0,1,0,0,0,0,0,0,0,0,1,0,1,0,0,0],
   [0,1,0,0,1,0,0,0,0,0,0,0,1,1,0,0,0,0],[0,0,1,0,0,1,0,0,0,0,0,0,0,1,1,0,0,0],
   [0,0,0,1,0,0,1,0,0,0,0,0,0,0,0,1,0,1],[0,0,0,0,1,0,0,1,0,0,0,0,0,0,0,1,1,0],
   [0,0,0,0,0,1,0,0,1,0,0,0,0,0,0,0,1,1]]

/-- the hypothesis holds on the lattices the decoder is allowed for: sides ≥ 3 (simple) … -/
example : closedGraph hzToric33 = true ∧ closedMultigraph hzToric33 = true := by
  refine ⟨by decide +kernel, by decide +kernel⟩

/-- … the growth loop terminates there and the answer has the measured syndrome
    (X errors on qubits 0, 5, 7) -/
example : sectorSyndrome hzToric33 [1,0,0,0,0,1,0,1,0,0,0,0,0,0,0,0,0,0] = [1,1,0,1,0,1,0,1,1] ∧
    ∃ c, (decodeWith hzToric33 [1,1,0,1,0,1,0,1,1] []).outcome = .ok c ∧
      sectorSyndrome hzToric33 c = [1,1,0,1,0,1,0,1,1] := by
  refine ⟨by decide +kernel, [0,0,0,0,0,0,0,0,0,1,0,0,0,0,1,0,1,0], by decide +kernel, by decide +kernel⟩

/-- the full stabilizer matrix of `Toric2DCode(3, 3)` (`code.stabilizer_matrix`, 18 × 36) -/
def toric33 : Mat :=
  [[0,0,0,0,0,0,0,0,0,0,0,0,0,0,0,0,0,0,1,0,0,0,0,0,1,0,0,1,0,1,0,0,0,0,0,0],
   [0,0,0,0,0,0,0,0,0,0,0,0,0,0,0,0,0,0,0,1,0,0,0,0,0,1,0,1,1,0,0,0,0,0,0,0],
   [0,0,0,0,0,0,0,0,0,0,0,0,0,0,0,0,0,0,0,0,1,0,0,0,0,0,1,0,1,1,0,0,0,0,0,0],
   [0,0,0,0,0,0,0,0,0,0,0,0,0,0,0,0,0,0,1,0,0,1,0,0,0,0,0,0,0,0,1,0,1,0,0,0],
   [0,0,0,0,0,0,0,0,0,0,0,0,0,0,0,0,0,0,0,1,0,0,1,0,0,0,0,0,0,0,1,1,0,0,0,0],
   [0,0,0,0,0,0,0,0,0,0,0,0,0,0,0,0,0,0,0,0,1,0,0,1,0,0,0,0,0,0,0,1,1,0,0,0],
   [0,0,0,0,0,0,0,0,0,0,0,0,0,0,0,0,0,0,0,0,0,1,0,0,1,0,0,0,0,0,0,0,0,1,0,1],
   [0,0,0,0,0,0,0,0,0,0,0,0,0,0,0,0,0,0,0,0,0,0,1,0,0,1,0,0,0,0,0,0,0,1,1,0],
   [0,0,0,0,0,0,0,0,0,0,0,0,0,0,0,0,0,0,0,0,0,0,0,1,0,0,1,0,0,0,0,0,0,0,1,1],
   [1,1,0,0,0,0,0,0,0,1,0,0,1,0,0,0,0,0,0,0,0,0,0,0,0,0,0,0,0,0,0,0,0,0,0,0],
   [0,1,1,0,0,0,0,0,0,0,1,0,0,1,0,0,0,0,0,0,0,0,0,0,0,0,0,0,0,0,0,0,0,0,0,0],
   [1,0,1,0,0,0,0,0,0,0,0,1,0,0,1,0,0,0,0,0,0,0,0,0,0,0,0,0,0,0,0,0,0,0,0,0],
   [0,0,0,1,1,0,0,0,0,0,0,0,1,0,0,1,0,0,0,0,0,0,0,0,0,0,0,0,0,0,0,0,0,0,0,0],
   [0,0,0,0,1,1,0,0,0,0,0,0,0,1,0,0,1,0,0,0,0,0,0,0,0,0,0,0,0,0,0,0,0,0,0,0],
   [0,0,0,1,0,1,0,0,0,0,0,0,0,0,1,0,0,1,0,0,0,0,0,0,0,0,0,0,0,0,0,0,0,0,0,0],
   [0,0,0,0,0,0,1,1,0,1,0,0,0,0,0,1,0,0,0,0,0,0,0,0,0,0,0,0,0,0,0,0,0,0,0,0],
   [0,0,0,0,0,0,0,1,1,0,1,0,0,0,0,0,1,0,0,0,0,0,0,0,0,0,0,0,0,0,0,0,0,0,0,0],
   [0,0,0,0,0,0,1,0,1,0,0,1,0,0,0,0,0,1,0,0,0,0,0,0,0,0,0,0,0,0,0,0,0,0,0,0]]

/-- the end-to-end theorem applies to the real code: CSS, both sector matrices closed
    multigraphs on 18 qubits -/
example : isCss toric33 = true ∧ closedMultigraph (Hz toric33) = true ∧ closedMultigraph (Hx toric33) = true ∧
    ncols (Hz toric33) = 18 ∧ ncols (Hx toric33) = 18 := by
  refine ⟨by decide +kernel, by decide +kernel, by decide +kernel, by decide +kernel, by decide +kernel⟩

/-- `Planar2DCode(2,2).Hz`: graph-like (columns of weight 1 are dangling edges) … -/
def hzPlanar22 : Mat := [[1,0,1,0,1],[0,1,0,1,1]]

example : graphLike hzPlanar22 = true ∧ multigraphLike hzPlanar22 = true := by decide

/-- … but a single defect makes the growth loop diverge (the implementation hangs): the
    termination gap of `uf_decode_partial` is real on matrices with columns of weight 1 -/
example : (decodeWith hzPlanar22 [1,0] []).outcome = .growthDiverges := by decide +kernel

end Panqec.C05UF
