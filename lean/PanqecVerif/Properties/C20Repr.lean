/-
C20, the list part of `/code-data`: for every size of the hand-modelled classes, every deformation the
menu offers and both pictures, the visualizer model (`Model/GuiRepr.lean`, `Model/GuiReprClasses.lean`:
the base `stabilizer_representation` / `qubit_representation` over the COMPLETE regenerated
`gui-config.json` table `Generated/GuiFull.lean`, the per-class overrides, `send_code_data`) answers
with exactly one complete description (object, colour, opacity, params, location) per qubit and per
stabilizer, the i-th one computed from and located at the i-th library coordinate of the lattice model,
and with the parity-check matrix and logical operators `rowsH` / `rowsX` / `rowsZ` of the C01
`valid_code` theorems (relabelled qubit by qubit under a deformation, C08).  The model is tied to the
Flask backend field by field by the streams `code-data-*-vs-model` of `harness/props/c20.py`.

The table facts (`classTablesOk`) are decided over the regenerated table, so a missing entry (as the
`rotated` entries of the 2-D colour codes before fix 97df331), a missing key or an unknown colour name
breaks the build of this file.
-/
import PanqecVerif.Proofs.GuiReprCubic3D

namespace Panqec.C20Repr
open Panqec.GuiRepr Panqec.Gui

/-- **Generic statement** (any class, any tables): if the lattice model is a well-formed coordinate
    system, both pictures of the class have servable configuration entries for the qubits and for each
    stabilizer type that occurs, every qubit has an axis, the overrides are plain dict assignments and
    the requested deformation is defined on every qubit, then `send_code_data` succeeds and the answer
    is `Faithful`: `n` qubit and `m` stabilizer descriptions; for every index `i` the i-th description
    is the (successful) representation of the i-th coordinate, carries all five fields, and its
    `location` is the class's location of that coordinate; `H`, `logical_x`, `logical_z` are
    `rowsH`, `rowsX`, `rowsZ` of the lattice (each row relabelled by `deformBsf` under a deformation). -/
theorem code_data_faithful (g : ClassGeom) (T : Tables) (types : List String) (name : String)
    (hs : Servable g T types name) (rot : Bool) :
    ∃ p, g.describeAll T name rot = .ok p ∧ Faithful g T name rot p :=
  describeAll_faithful hs rot

/-- A look-up miss is an error of the whole request (this is what the missing `rotated` entries
    caused): if some stabilizer coordinate has a type without configuration entry for the requested
    picture, `send_code_data` fails. -/
theorem lookup_miss_fails (g : ClassGeom) (T : Tables) (name : String) (rot : Bool) (s : Coord) (t : String)
    (hs : s ∈ g.lat.stabs) (ht : g.stabType s = some t)
    (hmiss : lookupFull T.cfg g.cls "stabilizers" (pictureName rot) t = none) :
    ∃ e, g.describeAll T name rot = .error e := by
  have hfail : g.stabRepr T rot s = .error "KeyError" := by
    unfold ClassGeom.stabRepr baseStab
    simp only [ht, hmiss]
  have hm : ∀ (l : List Coord), s ∈ l → ∃ e, l.mapM (g.stabRepr T rot) = .error e := by
    intro l
    induction l with
    | nil => intro h; simp at h
    | cons a l ih =>
      intro h
      rw [List.mapM_cons]
      cases ha : g.stabRepr T rot a with
      | error e => exact ⟨e, rfl⟩
      | ok d =>
        rcases List.mem_cons.mp h with h | h
        · rw [← h, hfail] at ha; cases ha
        · obtain ⟨e, he⟩ := ih h
          exact ⟨e, by rw [he]; rfl⟩
  obtain ⟨e, he⟩ := hm _ hs
  unfold ClassGeom.describeAll
  cases hq : g.lat.qubits.mapM (g.qubitRepr T rot) with
  | error e' => exact ⟨e', rfl⟩
  | ok qs => exact ⟨e, by simp only [he]⟩

/-! ### the three 2-D surface codes (no override: `location` is the coordinate itself) -/

/-- `Toric2DCode`, every size `Lx, Ly ≥ 2`, deformation None / XZZX / XY, both pictures. -/
theorem toric2D_code_data (Lx Ly : Nat) (hx : 2 ≤ Lx) (hy : 2 ≤ Ly) (name : String)
    (hn : name = "None" ∨ name = "XZZX" ∨ name = "XY") (rot : Bool) :
    ∃ p, (toric2D Lx Ly).describeAll Generated.GuiFull.tables name rot = .ok p ∧
      Faithful (toric2D Lx Ly) Generated.GuiFull.tables name rot p ∧
      (∀ c, (toric2D Lx Ly).stabLocation rot c = locJV c ∧ (toric2D Lx Ly).qubitLocation rot c = locJV c) :=
  let ⟨p, h1, h2⟩ := describeAll_faithful (toric2D_servable Lx Ly hx hy name hn) rot
  ⟨p, h1, h2, fun _ => ⟨rfl, rfl⟩⟩

/-- `Planar2DCode`, every size `Lx, Ly ≥ 1`, deformation None / XZZX / XY, both pictures. -/
theorem planar2D_code_data (Lx Ly : Nat) (hx : 1 ≤ Lx) (hy : 1 ≤ Ly) (name : String)
    (hn : name = "None" ∨ name = "XZZX" ∨ name = "XY") (rot : Bool) :
    ∃ p, (planar2D Lx Ly).describeAll Generated.GuiFull.tables name rot = .ok p ∧
      Faithful (planar2D Lx Ly) Generated.GuiFull.tables name rot p ∧
      (∀ c, (planar2D Lx Ly).stabLocation rot c = locJV c ∧ (planar2D Lx Ly).qubitLocation rot c = locJV c) :=
  let ⟨p, h1, h2⟩ := describeAll_faithful (planar2D_servable Lx Ly hx hy name hn) rot
  ⟨p, h1, h2, fun _ => ⟨rfl, rfl⟩⟩

/-- `RotatedPlanar2DCode`, every size `Lx, Ly ≥ 1`, deformation None / XZZX / XY, both pictures. -/
theorem rotatedPlanar2D_code_data (Lx Ly : Nat) (hx : 1 ≤ Lx) (hy : 1 ≤ Ly) (name : String)
    (hn : name = "None" ∨ name = "XZZX" ∨ name = "XY") (rot : Bool) :
    ∃ p, (rotatedPlanar2D Lx Ly).describeAll Generated.GuiFull.tables name rot = .ok p ∧
      Faithful (rotatedPlanar2D Lx Ly) Generated.GuiFull.tables name rot p ∧
      (∀ c, (rotatedPlanar2D Lx Ly).stabLocation rot c = locJV c ∧
        (rotatedPlanar2D Lx Ly).qubitLocation rot c = locJV c) :=
  let ⟨p, h1, h2⟩ := describeAll_faithful (rotatedPlanar2D_servable Lx Ly hx hy name hn) rot
  ⟨p, h1, h2, fun _ => ⟨rfl, rfl⟩⟩

/-! ### cubic-lattice 3-D surface codes (override: the `normal` of a face; `location` untouched) -/

theorem cubic_location (rot : Bool) (c : Coord) (t : String) :
    finalLocation (cubicStabEdits rot c t) (locJV c) = locJV c := by
  unfold cubicStabEdits
  split
  · split <;> rfl
  · rfl

/-- `Toric3DCode`, every size `Lx, Ly, Lz ≥ 2`, deformation None / XZZX, both pictures. -/
theorem toric3D_code_data (Lx Ly Lz : Nat) (hx : 2 ≤ Lx) (hy : 2 ≤ Ly) (hz : 2 ≤ Lz) (name : String)
    (hn : name = "None" ∨ name = "XZZX") (rot : Bool) :
    ∃ p, (toric3D Lx Ly Lz).describeAll Generated.GuiFull.tables name rot = .ok p ∧
      Faithful (toric3D Lx Ly Lz) Generated.GuiFull.tables name rot p ∧
      (∀ c, (toric3D Lx Ly Lz).stabLocation rot c = locJV c ∧ (toric3D Lx Ly Lz).qubitLocation rot c = locJV c) :=
  let ⟨p, h1, h2⟩ := describeAll_faithful (toric3D_servable Lx Ly Lz hx hy hz name hn) rot
  ⟨p, h1, h2, fun _ => ⟨cubic_location rot _ _, rfl⟩⟩

/-- `Planar3DCode`, every size `Lx, Ly, Lz ≥ 1`, deformation None / XZZX, both pictures. -/
theorem planar3D_code_data (Lx Ly Lz : Nat) (hx : 1 ≤ Lx) (hy : 1 ≤ Ly) (hz : 1 ≤ Lz) (name : String)
    (hn : name = "None" ∨ name = "XZZX") (rot : Bool) :
    ∃ p, (planar3D Lx Ly Lz).describeAll Generated.GuiFull.tables name rot = .ok p ∧
      Faithful (planar3D Lx Ly Lz) Generated.GuiFull.tables name rot p ∧
      (∀ c, (planar3D Lx Ly Lz).stabLocation rot c = locJV c ∧ (planar3D Lx Ly Lz).qubitLocation rot c = locJV c) :=
  let ⟨p, h1, h2⟩ := describeAll_faithful (planar3D_servable Lx Ly Lz hx hy hz name hn) rot
  ⟨p, h1, h2, fun _ => ⟨cubic_location rot _ _, rfl⟩⟩

/-- `HollowPlanar3DCode` (no deformation offered), every size `Lx, Ly, Lz ≥ 1`, both pictures. -/
theorem hollowPlanar3D_code_data (Lx Ly Lz : Nat) (hx : 1 ≤ Lx) (hy : 1 ≤ Ly) (hz : 1 ≤ Lz) (rot : Bool) :
    ∃ p, (hollowPlanar3D Lx Ly Lz).describeAll Generated.GuiFull.tables "None" rot = .ok p ∧
      Faithful (hollowPlanar3D Lx Ly Lz) Generated.GuiFull.tables "None" rot p ∧
      (∀ c, (hollowPlanar3D Lx Ly Lz).stabLocation rot c = locJV c ∧
        (hollowPlanar3D Lx Ly Lz).qubitLocation rot c = locJV c) :=
  let ⟨p, h1, h2⟩ := describeAll_faithful (hollowPlanar3D_servable Lx Ly Lz hx hy hz) rot
  ⟨p, h1, h2, fun _ => ⟨cubic_location rot _ _, rfl⟩⟩

/-- The answers carry valid codes: the `H`, `logical_x`, `logical_z` of the undeformed
    `Toric3DCode` answer form a valid `[[3·Lx·Ly·Lz, 3]]` stabilizer code (C01 `valid_code`). -/
theorem toric3D_code_data_valid (Lx Ly Lz : Nat) (hx : 2 ≤ Lx) (hy : 2 ≤ Ly) (hz : 2 ≤ Lz) (rot : Bool) :
    ∃ p, (toric3D Lx Ly Lz).describeAll Generated.GuiFull.tables "None" rot = .ok p ∧
      ValidCodeL (3 * (Lx * Ly * Lz)) 3 p.H p.logicalX p.logicalZ := by
  obtain ⟨p, h1, h2, _⟩ := toric3D_code_data Lx Ly Lz hx hy hz "None" (Or.inl rfl) rot
  obtain ⟨hH, hX, hZ⟩ := h2.undeformed rfl
  refine ⟨p, h1, ?_⟩
  rw [hH, hX, hZ]
  exact (C01Toric3DCode.valid_code Lx Ly Lz hx hy hz).2.2.2

/-! ### non-vacuity -/

example : ∃ p, (toric3D 2 3 4).describeAll Generated.GuiFull.tables "XZZX" true = .ok p ∧
    p.qubits.length = 72 ∧ p.stabilizers.length = 96 := by
  obtain ⟨p, h1, h2, _⟩ := toric3D_code_data 2 3 4 (by decide) (by decide) (by decide) "XZZX" (Or.inr rfl) true
  refine ⟨p, h1, ?_, ?_⟩
  · rw [h2.n_qubits]; exact C01Toric3DCode.n_formula 2 3 4
  · rw [h2.n_stabs]; exact C01Toric3DCode.n_stabilizers_formula 2 3 4

/-- the override is visible: an xy face of the Kitaev picture gets the normal `[0, 0, 1]`, a yz face
    `[1, 0, 0]` -/
example : (((toric3D 2 2 2).stabRepr Generated.GuiFull.tables false [1, 1, 0]).toOption.bind
    (getKey · "params")).map (JV.beq (.obj [("w", .d 15 1), ("h", .d 15 1), ("normal", JV.ints [0, 0, 1]),
      ("angle", .i 0)])) = some true := by
  decide +kernel
example : (((toric3D 2 2 2).stabRepr Generated.GuiFull.tables false [0, 1, 1]).toOption.bind
    (getKey · "params")).map (JV.beq (.obj [("w", .d 15 1), ("h", .d 15 1), ("normal", JV.ints [1, 0, 0]),
      ("angle", .i 0)])) = some true := by
  decide +kernel
/-- the colours are resolved through the colormap -/
example : (((toric3D 2 2 2).stabRepr Generated.GuiFull.tables false [0, 1, 1]).toOption.bind
    (getKey · "color")).map (JV.beq (.obj [("activated", .str "0xf1c232"), ("deactivated", .str "0x48BEFF")])) =
    some true := by
  decide +kernel

/-- a table without the `rotated` entries fails (the defect fixed by 97df331) -/
example : ∃ e, (toric2D 2 2).describeAll ⟨Generated.GuiFull.entries.filter (·.picture != "rotated"),
    Generated.GuiFull.colormap⟩ "None" true = .error e :=
  lookup_miss_fails _ _ _ _ [0, 0] "vertex" (by decide +kernel) (by decide +kernel) (by decide +kernel)

end Panqec.C20Repr
