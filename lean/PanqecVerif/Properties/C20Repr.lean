/-
C20, the list part of `/code-data`: for every size of the hand-modelled classes, every deformation the
menu offers and both pictures, the visualizer model (`Model/GuiRepr.lean`, `Model/GuiReprClasses.lean`:
the base `stabilizer_representation` / `qubit_representation` over the COMPLETE regenerated
`gui-config.json` table `Generated/GuiFull.lean`, the per-class overrides, `send_code_data`) answers
with exactly one complete description (object, colour, opacity, params, location) per qubit and per
stabilizer, the i-th one computed from and located at the i-th library coordinate of the lattice model,
and with the parity-check matrix and logical operators `rowsH` / `rowsX` / `rowsZ` of the C01
`valid_code` theorems (relabelled qubit by qubit under a deformation, C08).  The model is tied to the
Flask backend field by field by the streams `code-data-*-vs-model` of `harness/props/c20.py`.

The table facts (`classTablesOk`) are decided over the regenerated table, so a missing entry (as the
`rotated` entries of the 2-D colour codes before fix 97df331), a missing key or an unknown colour name
breaks the build of this file.
-/
import PanqecVerif.Generated.Gui
import PanqecVerif.Proofs.GuiReprCubic3D
import PanqecVerif.Proofs.GuiReprColor666Toric

namespace Panqec.C20Repr
open Panqec.GuiRepr Panqec.Gui

/-- **Generic statement** (any class, any tables): if the lattice model is a well-formed coordinate
    system, both pictures of the class have servable configuration entries for the qubits and for each
    stabilizer type that occurs, every qubit has an axis, the overrides are plain dict assignments and
    the requested deformation is defined on every qubit, then `send_code_data` succeeds and the answer
    is `Faithful`: `n` qubit and `m` stabilizer descriptions; for every index `i` the i-th description
    is the (successful) representation of the i-th coordinate, carries all five fields, and its
    `location` is the class's location of that coordinate; `H`, `logical_x`, `logical_z` are
    `rowsH`, `rowsX`, `rowsZ` of the lattice (each row relabelled by `deformBsf` under a deformation). -/
theorem code_data_faithful (g : ClassGeom) (T : Tables) (types : List String) (name : String)
    (hs : Servable g T types name) (rot : Bool) :
    ∃ p, g.describeAll T name rot = .ok p ∧ Faithful g T name rot p :=
  describeAll_faithful hs rot

/-- A look-up miss is an error of the whole request (this is what the missing `rotated` entries
    caused): if some stabilizer coordinate has a type without configuration entry for the requested
    picture, `send_code_data` fails. -/
theorem lookup_miss_fails (g : ClassGeom) (T : Tables) (name : String) (rot : Bool) (s : Coord) (t : String)
    (hs : s ∈ g.lat.stabs) (ht : g.stabType s = some t)
    (hmiss : lookupFull T.cfg g.cls "stabilizers" (pictureName rot) t = none) :
    ∃ e, g.describeAll T name rot = .error e := by
  have hfail : g.stabRepr T rot s = .error "KeyError" := by
    unfold ClassGeom.stabRepr baseStab
    simp only [ht, hmiss]
  have hm : ∀ (l : List Coord), s ∈ l → ∃ e, l.mapM (g.stabRepr T rot) = .error e := by
    intro l
    induction l with
    | nil => intro h; simp at h
    | cons a l ih =>
      intro h
      rw [List.mapM_cons]
      cases ha : g.stabRepr T rot a with
      | error e => exact ⟨e, rfl⟩
      | ok d =>
        rcases List.mem_cons.mp h with h | h
        · rw [← h, hfail] at ha; cases ha
        · obtain ⟨e, he⟩ := ih h
          exact ⟨e, by rw [he]; rfl⟩
  obtain ⟨e, he⟩ := hm _ hs
  unfold ClassGeom.describeAll
  cases hq : g.lat.qubits.mapM (g.qubitRepr T rot) with
  | error e' => exact ⟨e', rfl⟩
  | ok qs => exact ⟨e, by simp only [he]⟩

/-- The complete table used here and the summary table of `Properties/C20.lean` are two views of the
    same regenerated file: the summary rows (class, kind, picture, type, object, colour names,
    opacity / params present) of the complete entries are exactly `Generated.Gui.config`, and the
    colormaps agree. -/
theorem tables_agree :
    Generated.GuiFull.entries.map REntry.summary = Generated.Gui.config ∧
    Generated.GuiFull.colormap = Generated.Gui.colormap := by
  constructor <;> decide +kernel

/-- **Validity transfers to the answer** (C01 + C08): if the matrices of the lattice model form a valid
    `[[n, k]]` code and the installed relabelling is a permutation of {X, Y, Z} on every qubit, the
    `H`, `logical_x`, `logical_z` of a faithful answer form a valid `[[n, k]]` code, deformed or not. -/
theorem payload_valid (g : ClassGeom) (T : Tables) (name : String) (rot : Bool) (p : Payload)
    (hf : Faithful g T name rot p) {n k : Nat} (hn : g.lat.qubits.length = n)
    (hv : ValidCodeL n k g.lat.rowsH g.lat.rowsX g.lat.rowsZ)
    (hperm : ∀ q, (g.dmap name q).isPerm = true) :
    ValidCodeL n k p.H p.logicalX p.logicalZ := by
  by_cases h : name = "None"
  · obtain ⟨h1, h2, h3⟩ := hf.undeformed h
    rw [h1, h2, h3]; exact hv
  · obtain ⟨h1, h2, h3⟩ := hf.deformed h
    rw [h1, h2, h3]
    refine Deform.validCode_deform (by simpa using hn) ?_ hv
    intro D hD
    obtain ⟨q, _, rfl⟩ := List.mem_map.mp hD
    exact hperm q

/-! ### the three 2-D surface codes (no override: `location` is the coordinate itself) -/

/-- `Toric2DCode`, every size `Lx, Ly ≥ 2`, deformation None / XZZX / XY, both pictures. -/
theorem toric2D_code_data (Lx Ly : Nat) (hx : 2 ≤ Lx) (hy : 2 ≤ Ly) (name : String)
    (hn : name = "None" ∨ name = "XZZX" ∨ name = "XY") (rot : Bool) :
    ∃ p, (toric2D Lx Ly).describeAll Generated.GuiFull.tables name rot = .ok p ∧
      Faithful (toric2D Lx Ly) Generated.GuiFull.tables name rot p ∧
      (∀ c, (toric2D Lx Ly).stabLocation rot c = locJV c ∧ (toric2D Lx Ly).qubitLocation rot c = locJV c) :=
  let ⟨p, h1, h2⟩ := describeAll_faithful (toric2D_servable Lx Ly hx hy name hn) rot
  ⟨p, h1, h2, fun _ => ⟨rfl, rfl⟩⟩

/-- `Planar2DCode`, every size `Lx, Ly ≥ 1`, deformation None / XZZX / XY, both pictures. -/
theorem planar2D_code_data (Lx Ly : Nat) (hx : 1 ≤ Lx) (hy : 1 ≤ Ly) (name : String)
    (hn : name = "None" ∨ name = "XZZX" ∨ name = "XY") (rot : Bool) :
    ∃ p, (planar2D Lx Ly).describeAll Generated.GuiFull.tables name rot = .ok p ∧
      Faithful (planar2D Lx Ly) Generated.GuiFull.tables name rot p ∧
      (∀ c, (planar2D Lx Ly).stabLocation rot c = locJV c ∧ (planar2D Lx Ly).qubitLocation rot c = locJV c) :=
  let ⟨p, h1, h2⟩ := describeAll_faithful (planar2D_servable Lx Ly hx hy name hn) rot
  ⟨p, h1, h2, fun _ => ⟨rfl, rfl⟩⟩

/-- `RotatedPlanar2DCode`, every size `Lx, Ly ≥ 1`, deformation None / XZZX / XY, both pictures. -/
theorem rotatedPlanar2D_code_data (Lx Ly : Nat) (hx : 1 ≤ Lx) (hy : 1 ≤ Ly) (name : String)
    (hn : name = "None" ∨ name = "XZZX" ∨ name = "XY") (rot : Bool) :
    ∃ p, (rotatedPlanar2D Lx Ly).describeAll Generated.GuiFull.tables name rot = .ok p ∧
      Faithful (rotatedPlanar2D Lx Ly) Generated.GuiFull.tables name rot p ∧
      (∀ c, (rotatedPlanar2D Lx Ly).stabLocation rot c = locJV c ∧
        (rotatedPlanar2D Lx Ly).qubitLocation rot c = locJV c) :=
  let ⟨p, h1, h2⟩ := describeAll_faithful (rotatedPlanar2D_servable Lx Ly hx hy name hn) rot
  ⟨p, h1, h2, fun _ => ⟨rfl, rfl⟩⟩

/-! ### cubic-lattice 3-D surface codes (override: the `normal` of a face; `location` untouched) -/

theorem cubic_location (rot : Bool) (c : Coord) (t : String) :
    finalLocation (cubicStabEdits rot c t) (locJV c) = locJV c := by
  unfold cubicStabEdits
  split
  · split <;> rfl
  · rfl

/-- `Toric3DCode`, every size `Lx, Ly, Lz ≥ 2`, deformation None / XZZX, both pictures. -/
theorem toric3D_code_data (Lx Ly Lz : Nat) (hx : 2 ≤ Lx) (hy : 2 ≤ Ly) (hz : 2 ≤ Lz) (name : String)
    (hn : name = "None" ∨ name = "XZZX") (rot : Bool) :
    ∃ p, (toric3D Lx Ly Lz).describeAll Generated.GuiFull.tables name rot = .ok p ∧
      Faithful (toric3D Lx Ly Lz) Generated.GuiFull.tables name rot p ∧
      (∀ c, (toric3D Lx Ly Lz).stabLocation rot c = locJV c ∧ (toric3D Lx Ly Lz).qubitLocation rot c = locJV c) :=
  let ⟨p, h1, h2⟩ := describeAll_faithful (toric3D_servable Lx Ly Lz hx hy hz name hn) rot
  ⟨p, h1, h2, fun _ => ⟨cubic_location rot _ _, rfl⟩⟩

/-- `Planar3DCode`, every size `Lx, Ly, Lz ≥ 1`, deformation None / XZZX, both pictures. -/
theorem planar3D_code_data (Lx Ly Lz : Nat) (hx : 1 ≤ Lx) (hy : 1 ≤ Ly) (hz : 1 ≤ Lz) (name : String)
    (hn : name = "None" ∨ name = "XZZX") (rot : Bool) :
    ∃ p, (planar3D Lx Ly Lz).describeAll Generated.GuiFull.tables name rot = .ok p ∧
      Faithful (planar3D Lx Ly Lz) Generated.GuiFull.tables name rot p ∧
      (∀ c, (planar3D Lx Ly Lz).stabLocation rot c = locJV c ∧ (planar3D Lx Ly Lz).qubitLocation rot c = locJV c) :=
  let ⟨p, h1, h2⟩ := describeAll_faithful (planar3D_servable Lx Ly Lz hx hy hz name hn) rot
  ⟨p, h1, h2, fun _ => ⟨cubic_location rot _ _, rfl⟩⟩

/-- `HollowPlanar3DCode` (no deformation offered), every size `Lx, Ly, Lz ≥ 1`, both pictures. -/
theorem hollowPlanar3D_code_data (Lx Ly Lz : Nat) (hx : 1 ≤ Lx) (hy : 1 ≤ Ly) (hz : 1 ≤ Lz) (rot : Bool) :
    ∃ p, (hollowPlanar3D Lx Ly Lz).describeAll Generated.GuiFull.tables "None" rot = .ok p ∧
      Faithful (hollowPlanar3D Lx Ly Lz) Generated.GuiFull.tables "None" rot p ∧
      (∀ c, (hollowPlanar3D Lx Ly Lz).stabLocation rot c = locJV c ∧
        (hollowPlanar3D Lx Ly Lz).qubitLocation rot c = locJV c) :=
  let ⟨p, h1, h2⟩ := describeAll_faithful (hollowPlanar3D_servable Lx Ly Lz hx hy hz) rot
  ⟨p, h1, h2, fun _ => ⟨cubic_location rot _ _, rfl⟩⟩

/-- The answers carry valid codes: the `H`, `logical_x`, `logical_z` of the `Toric3DCode` answer,
    undeformed or XZZX-deformed, form a valid `[[3·Lx·Ly·Lz, 3]]` stabilizer code (C01 `valid_code`,
    C08 `validCode_deform`). -/
theorem toric3D_code_data_valid (Lx Ly Lz : Nat) (hx : 2 ≤ Lx) (hy : 2 ≤ Ly) (hz : 2 ≤ Lz) (name : String)
    (hn : name = "None" ∨ name = "XZZX") (rot : Bool) :
    ∃ p, (toric3D Lx Ly Lz).describeAll Generated.GuiFull.tables name rot = .ok p ∧
      ValidCodeL (3 * (Lx * Ly * Lz)) 3 p.H p.logicalX p.logicalZ := by
  obtain ⟨p, h1, h2, _⟩ := toric3D_code_data Lx Ly Lz hx hy hz name hn rot
  refine ⟨p, h1, payload_valid _ _ _ _ _ h2 (C01Toric3DCode.n_formula Lx Ly Lz)
    (C01Toric3DCode.valid_code Lx Ly Lz hx hy hz).2.2.2 ?_⟩
  intro q
  unfold ClassGeom.dmap
  cases hd : (toric3D Lx Ly Lz).deformation name q with
  | none => rfl
  | some m => exact C01Toric3DCode.deformation_perm (name := name) (axis := none) (loc := q) hd

/-! ### the other 3-D classes -/

/-- `XCubeCode`, every size `Lx, Ly, Lz ≥ 2`, deformation None / XZZX, both pictures. -/
theorem xcube_code_data (Lx Ly Lz : Nat) (hx : 2 ≤ Lx) (hy : 2 ≤ Ly) (hz : 2 ≤ Lz) (name : String)
    (hn : name = "None" ∨ name = "XZZX") (rot : Bool) :
    ∃ p, (xcube Lx Ly Lz).describeAll Generated.GuiFull.tables name rot = .ok p ∧
      Faithful (xcube Lx Ly Lz) Generated.GuiFull.tables name rot p :=
  describeAll_faithful (xcube_servable Lx Ly Lz hx hy hz name hn) rot

/-- in `XCubeCode` a face stabilizer `(axis, x, y, z)` is drawn at `[x, y, z]` -/
theorem xcube_face_location (rot : Bool) (axis x y z : Int) :
    finalLocation (xcubeStabEdits rot [axis, x, y, z] "face") (locJV [axis, x, y, z]) = JV.ints [x, y, z] := by
  unfold xcubeStabEdits
  simp only [beq_self_eq_true, if_true]
  split <;> split <;> rfl

/-- `RotatedPlanar3DCode`, every size `Lx, Ly, Lz ≥ 1`, deformation None / XZZX, both pictures. -/
theorem rotatedPlanar3D_code_data (Lx Ly Lz : Nat) (hx : 1 ≤ Lx) (hy : 1 ≤ Ly) (hz : 1 ≤ Lz) (name : String)
    (hn : name = "None" ∨ name = "XZZX") (rot : Bool) :
    ∃ p, (rotatedPlanar3D Lx Ly Lz).describeAll Generated.GuiFull.tables name rot = .ok p ∧
      Faithful (rotatedPlanar3D Lx Ly Lz) Generated.GuiFull.tables name rot p :=
  describeAll_faithful (rotatedPlanar3D_servable Lx Ly Lz hx hy hz name hn) rot

/-- `RotatedToric3DCode`, every size `Lx, Ly ≥ 2` not both odd (any `Lz`), deformation None / XZZX,
    both pictures. -/
theorem rotatedToric3D_code_data (Lx Ly Lz : Nat) (hx : 2 ≤ Lx) (hy : 2 ≤ Ly)
    (hodd : ¬ (Lx % 2 = 1 ∧ Ly % 2 = 1)) (name : String) (hn : name = "None" ∨ name = "XZZX") (rot : Bool) :
    ∃ p, (rotatedToric3D Lx Ly Lz).describeAll Generated.GuiFull.tables name rot = .ok p ∧
      Faithful (rotatedToric3D Lx Ly Lz) Generated.GuiFull.tables name rot p :=
  describeAll_faithful (rotatedToric3D_servable Lx Ly Lz hx hy hodd name hn) rot

/-- the two rotated 3-D classes stretch the z coordinate in the rotated picture (`z*1.4142`, kept
    symbolic), for qubits and stabilizers alike; the Kitaev picture draws at the coordinate -/
theorem rotated3D_location (rot : Bool) (x y z : Int) (t : String) :
    finalLocation (rotated3DStabEdits rot [x, y, z] t) (locJV [x, y, z]) =
      (if rot then .arr [JV.i x, JV.i y, JV.f (.mul14142 z)] else locJV [x, y, z]) ∧
    finalLocation (rotated3DQubitEdits rot [x, y, z] t) (locJV [x, y, z]) =
      (if rot then .arr [JV.i x, JV.i y, JV.f (.mul14142 z)] else locJV [x, y, z]) := by
  unfold rotated3DStabEdits rotated3DQubitEdits stretchedLocation
  cases rot <;> constructor <;> simp only [Bool.not_true, Bool.not_false, Bool.false_eq_true, if_true, if_false] <;>
    (repeat' split) <;> simp [finalLocation, locJV, JV.ints]

/-- `RhombicToricCode`, every size `Lx, Ly, Lz ≥ 2` (the lattice model is well-formed for every such
    size; the class documents even sizes), deformation None / Checkerboard XZZX, both pictures. -/
theorem rhombicToric_code_data (Lx Ly Lz : Nat) (hx : 2 ≤ Lx) (hy : 2 ≤ Ly) (hz : 2 ≤ Lz) (name : String)
    (hn : name = "None" ∨ name = "Checkerboard XZZX") (rot : Bool) :
    ∃ p, (rhombicToric Lx Ly Lz).describeAll Generated.GuiFull.tables name rot = .ok p ∧
      Faithful (rhombicToric Lx Ly Lz) Generated.GuiFull.tables name rot p :=
  describeAll_faithful (rhombicToric_servable Lx Ly Lz hx hy hz name hn) rot

/-- `RhombicPlanarCode`, every size `Lx, Ly ≥ 2`, `Lz ≥ 1`, deformation None / Checkerboard XZZX,
    both pictures. -/
theorem rhombicPlanar_code_data (Lx Ly Lz : Nat) (hx : 2 ≤ Lx) (hy : 2 ≤ Ly) (hz : 1 ≤ Lz) (name : String)
    (hn : name = "None" ∨ name = "Checkerboard XZZX") (rot : Bool) :
    ∃ p, (rhombicPlanar Lx Ly Lz).describeAll Generated.GuiFull.tables name rot = .ok p ∧
      Faithful (rhombicPlanar Lx Ly Lz) Generated.GuiFull.tables name rot p :=
  describeAll_faithful (rhombicPlanar_servable Lx Ly Lz hx hy hz name hn) rot

/-- `HollowRhombicCode`, every size `Lx, Ly ≥ 2`, `Lz ≥ 3`, deformation None / Checkerboard XZZX,
    both pictures (the parity-check matrix is `rowsH` of the lattice model; its rank defect at sides
    ≥ 6 is the C01 finding, not a visualizer matter). -/
theorem hollowRhombic_code_data (Lx Ly Lz : Nat) (h : C01HollowRhombicCode.Family Lx Ly Lz) (name : String)
    (hn : name = "None" ∨ name = "Checkerboard XZZX") (rot : Bool) :
    ∃ p, (hollowRhombic Lx Ly Lz).describeAll Generated.GuiFull.tables name rot = .ok p ∧
      Faithful (hollowRhombic Lx Ly Lz) Generated.GuiFull.tables name rot p :=
  describeAll_faithful (hollowRhombic_servable Lx Ly Lz h name hn) rot

/-- `Color3DCode` (no deformation offered), every size with all sides even and `≥ 2`, both pictures. -/
theorem color3D_code_data (Lx Ly Lz : Nat) (h : C01Color3DCode.Family Lx Ly Lz) (rot : Bool) :
    ∃ p, (color3D Lx Ly Lz).describeAll Generated.GuiFull.tables "None" rot = .ok p ∧
      Faithful (color3D Lx Ly Lz) Generated.GuiFull.tables "None" rot p :=
  describeAll_faithful (color3D_servable Lx Ly Lz h) rot

/-! ### the 2-D colour codes (the X/Z index of a stabilizer location is dropped: drawn at `(x, y)`) -/

/-- `Color488Code`, every square size `L ≥ 1`, deformation None / XXZZ, both pictures — the
    `rotated` entries exist since fix 97df331. -/
theorem color488_code_data (L : Nat) (hL : 1 ≤ L) (name : String) (hn : name = "None" ∨ name = "XXZZ")
    (rot : Bool) :
    ∃ p, (color488 L L).describeAll Generated.GuiFull.tables name rot = .ok p ∧
      Faithful (color488 L L) Generated.GuiFull.tables name rot p :=
  describeAll_faithful (color488_servable L hL name hn) rot

/-- `Color666PlanarCode` (no deformation offered; `Ly` is ignored by the class), every `Lx ≥ 1`, both
    pictures. -/
theorem color666Planar_code_data (Lx Ly : Nat) (hx : 1 ≤ Lx) (rot : Bool) :
    ∃ p, (color666Planar Lx Ly).describeAll Generated.GuiFull.tables "None" rot = .ok p ∧
      Faithful (color666Planar Lx Ly) Generated.GuiFull.tables "None" rot p :=
  describeAll_faithful (color666Planar_servable Lx Ly hx) rot

/-- `Color666ToricCode`, every square size `L ≥ 1`, deformation None / X3Z3, both pictures (the
    override rescales the polygon of the configuration entry by 1/2 for the X faces). -/
theorem color666Toric_code_data (L : Nat) (hL : 1 ≤ L) (name : String) (hn : name = "None" ∨ name = "X3Z3")
    (rot : Bool) :
    ∃ p, (color666Toric L L).describeAll Generated.GuiFull.tables name rot = .ok p ∧
      Faithful (color666Toric L L) Generated.GuiFull.tables name rot p :=
  (color666Toric_served L hL name hn).faithful rot

/-- the three 2-D colour codes draw the stabilizer `(x, y, p)` at `(x, y)` -/
theorem color2D_location (Lx Ly : Nat) (rot : Bool) (x y p : Int) (t : String) :
    finalLocation (color488StabEdits Lx Ly rot [x, y, p] t) (locJV [x, y, p]) = JV.ints [x, y] ∧
    finalLocation (color666PlanarStabEdits Lx rot [x, y, p] t) (locJV [x, y, p]) = JV.ints [x, y] ∧
    finalLocation (color666ToricStabEdits rot [x, y, p] t) (locJV [x, y, p]) = JV.ints [x, y] := by
  refine ⟨?_, ?_, rfl⟩
  · unfold color488StabEdits
    simp only [List.singleton_append]
    (repeat' split) <;> rfl
  · unfold color666PlanarStabEdits
    simp only [List.singleton_append, List.append_assoc]
    (repeat' split) <;> rfl

/-! ### non-vacuity -/

example : ∃ p, (toric3D 2 3 4).describeAll Generated.GuiFull.tables "XZZX" true = .ok p ∧
    p.qubits.length = 72 ∧ p.stabilizers.length = 96 := by
  obtain ⟨p, h1, h2, _⟩ := toric3D_code_data 2 3 4 (by decide) (by decide) (by decide) "XZZX" (Or.inr rfl) true
  refine ⟨p, h1, ?_, ?_⟩
  · rw [h2.n_qubits]; exact C01Toric3DCode.n_formula 2 3 4
  · rw [h2.n_stabs]; exact C01Toric3DCode.n_stabilizers_formula 2 3 4

/-- the override is visible: an xy face of the Kitaev picture gets the normal `[0, 0, 1]`, a yz face
    `[1, 0, 0]` -/
example : (((toric3D 2 2 2).stabRepr Generated.GuiFull.tables false [1, 1, 0]).toOption.bind
    (getKey · "params")).map (JV.beq (.obj [("w", .d 15 1), ("h", .d 15 1), ("normal", JV.ints [0, 0, 1]),
      ("angle", .i 0)])) = some true := by
  decide +kernel
example : (((toric3D 2 2 2).stabRepr Generated.GuiFull.tables false [0, 1, 1]).toOption.bind
    (getKey · "params")).map (JV.beq (.obj [("w", .d 15 1), ("h", .d 15 1), ("normal", JV.ints [1, 0, 0]),
      ("angle", .i 0)])) = some true := by
  decide +kernel
/-- the colours are resolved through the colormap -/
example : (((toric3D 2 2 2).stabRepr Generated.GuiFull.tables false [0, 1, 1]).toOption.bind
    (getKey · "color")).map (JV.beq (.obj [("activated", .str "0xf1c232"), ("deactivated", .str "0x48BEFF")])) =
    some true := by
  decide +kernel

/-- tagged constants: a face of `RotatedPlanar3DCode` with even `z` is, in the rotated picture, drawn at
    `z*1.4142` and turned by `np.pi/4` -/
example : (((rotatedPlanar3D 2 2 2).stabRepr Generated.GuiFull.tables true [1, 1, 2]).toOption.bind
    (getKey · "location")).map (JV.beq (.arr [.i 1, .i 1, .f (.mul14142 2)])) = some true := by
  decide +kernel
example : ((((rotatedPlanar3D 2 2 2).stabRepr Generated.GuiFull.tables true [1, 1, 2]).toOption.bind
    (getKey · "params")).bind fun p => match p with | .obj d => getKey d "angle" | _ => none).map
    (JV.beq (.f .piDiv4)) = some true := by
  decide +kernel
/-- exact halves: `np.array([[-1, -2], [2, 0]]) * 0.5` is `[[-0.5, -1.0], [1.0, 0.0]]`, and the int
    factor of the Z faces leaves the integers alone -/
example : beqList (scaleRows true [JV.ints [-1, -2], JV.ints [2, 0]])
    [.arr [.d (-5) 1, .d (-10) 1], .arr [.d 10 1, .d 0 1]] = true := by decide +kernel
example : beqList (scaleRows false [JV.ints [-1, -2], JV.ints [2, 0]])
    [JV.ints [-1, -2], JV.ints [2, 0]] = true := by decide +kernel

/-- a table without the `rotated` entries fails (the defect fixed by 97df331) -/
example : ∃ e, (toric2D 2 2).describeAll ⟨Generated.GuiFull.entries.filter (·.picture != "rotated"),
    Generated.GuiFull.colormap⟩ "None" true = .error e :=
  lookup_miss_fails _ _ _ _ [0, 0] "vertex" (by decide +kernel) (by decide +kernel) (by decide +kernel)

end Panqec.C20Repr
