/-
C09 — matching is exactly minimum-weight; correctable sets are always corrected.

(a) `minWeight_iff_mostLikely`: for positive per-qubit flip / no-flip likelihoods,
    minimising PyMatching's objective `Σ w_i c_i` with `w_i = -log(a_i/b_i)` over any set
    of candidate corrections is the same as maximising the likelihood
    `Π a_i^{c_i} b_i^{1-c_i}` (real logarithm, Mathlib).  With `a = P`, `b = 1 - P` this is
    the i.i.d. likelihood; with `a = P + ε`, `b = 1 - P + ε` it is literally the formula of
    `get_weights`.  Marginals below 1/2 give positive weights.
(b) `corrects_up_to_t`: for every CSS matrix, if the matching solver is valid and of
    minimum weight under uniform positive weights and both sector distances are at least
    `2t+1`, every error with at most `t` flips per sector (in particular every Pauli error
    of weight ≤ t) is corrected up to a trivial operator of each sector.
(c) the pairing (X corrections from `(Hz, w_x)` and the Z-row syndrome, Z corrections from
    `(Hx, w_z)` and the X-row syndrome) is `C05.matching_pairing` /
    `C05.matching_correction_reproduces_syndrome`, reused here.

NOT proved (bounded replay on the implementation, labelled partial in the harness):
PyMatching's optimality itself (third-party contract, tested against the full coset),
union-find t-correctability (no model of `uf_support.py`), and the sweep-match
single-qubit claim (sweep automata belong to C10; replay on the stated lattice set).
"Trivial operator ⇒ `is_success`" is C04's theorem and is not repeated here.
-/
import PanqecVerif.Proofs.DecodersWeights

namespace Panqec.C09

open Panqec

/-- **(a)** For any set `S` of candidate corrections (binary, one entry per qubit) — e.g.
    all solutions of `H c = s` — a candidate has minimum total weight
    `Σ_i w_i c_i`, `w_i = -log (a_i / b_i)`, iff it has maximum likelihood
    `Π_i (c_i = 1 ? a_i : b_i)`. -/
theorem minWeight_iff_mostLikely (a b : List ℝ) (ha : ∀ x ∈ a, 0 < x) (hb : ∀ x ∈ b, 0 < x)
    (hab : a.length = b.length) (S : Set Vec)
    (hS : ∀ c ∈ S, c.length = a.length ∧ ∀ x ∈ c, x < 2) (c : Vec) (hc : c ∈ S) :
    (∀ c' ∈ S, wdot (logOddsWeights a b) c ≤ wdot (logOddsWeights a b) c') ↔
    (∀ c' ∈ S, lik a b c' ≤ lik a b c) := by
  constructor
  · intro h c' hc'
    exact (weight_le_iff_lik_ge a b c c' ha hb hab (hS c hc) (hS c' hc')).mp (h c' hc')
  · intro h c' hc'
    exact (weight_le_iff_lik_ge a b c c' ha hb hab (hS c hc) (hS c' hc')).mpr (h c' hc')

/-- the i.i.d. instance: marginals `P_i ∈ (0,1)`, weights `log((1-P_i)/P_i)`, likelihood
    `Π P_i^{c_i} (1-P_i)^{1-c_i}` -/
theorem minWeight_iff_mostLikely_iid (P : List ℝ) (hP : ∀ p ∈ P, 0 < p ∧ p < 1) (S : Set Vec)
    (hS : ∀ c ∈ S, c.length = P.length ∧ ∀ x ∈ c, x < 2) (c : Vec) (hc : c ∈ S) :
    (∀ c' ∈ S, wdot (logOddsWeights P (P.map (1 - ·))) c ≤ wdot (logOddsWeights P (P.map (1 - ·))) c') ↔
    (∀ c' ∈ S, lik P (P.map (1 - ·)) c' ≤ lik P (P.map (1 - ·)) c) := by
  apply minWeight_iff_mostLikely P (P.map (1 - ·)) (fun x hx => (hP x hx).1) _ (by simp) S hS c hc
  intro x hx
  obtain ⟨p, hp, rfl⟩ := List.mem_map.mp hx
  have := (hP p hp).2
  linarith

/-- the literal formula of `get_weights`: `w_i = -log((P_i + ε) / (1 - P_i + ε))` for any
    guard `ε > 0` and marginals `P_i ∈ [0,1]` is minimum-weight ⇔ maximum of the
    ε-regularised likelihood `Π (P_i+ε)^{c_i} (1-P_i+ε)^{1-c_i}` -/
theorem minWeight_iff_mostLikely_eps (P : List ℝ) (ε : ℝ) (hε : 0 < ε)
    (hP : ∀ p ∈ P, 0 ≤ p ∧ p ≤ 1) (S : Set Vec)
    (hS : ∀ c ∈ S, c.length = P.length ∧ ∀ x ∈ c, x < 2) (c : Vec) (hc : c ∈ S) :
    (∀ c' ∈ S, wdot (logOddsWeights (P.map (· + ε)) (P.map (1 - · + ε))) c ≤
               wdot (logOddsWeights (P.map (· + ε)) (P.map (1 - · + ε))) c') ↔
    (∀ c' ∈ S, lik (P.map (· + ε)) (P.map (1 - · + ε)) c' ≤
               lik (P.map (· + ε)) (P.map (1 - · + ε)) c) := by
  apply minWeight_iff_mostLikely _ _ _ _ (by simp) S (by simpa using hS) c hc
  · intro x hx
    obtain ⟨p, hp, rfl⟩ := List.mem_map.mp hx
    have := (hP p hp).1
    linarith
  · intro x hx
    obtain ⟨p, hp, rfl⟩ := List.mem_map.mp hx
    have := (hP p hp).2
    linarith

/-- marginals below 1/2 give strictly positive matching weights -/
theorem weights_positive (p : ℝ) (h0 : 0 < p) (h1 : p < 1 / 2) : 0 < -Real.log (p / (1 - p)) :=
  logOdds_pos p h0 h1

/-- **(b), one sector, abstract**: minimum Hamming weight decoding + sector distance
    `≥ 2t+1` ⇒ every error of weight `≤ t` leaves a residual that is undetectable, of
    weight `≤ 2t`, and trivial. -/
theorem corrects_up_to_t_sector (M : Mat) (n t : Nat) (IsStab : Vec → Prop)
    (hdist : ∀ v : Vec, v.length = n → (∀ x ∈ v, x < 2) →
        (∀ x ∈ sectorSyndrome M v, x = 0) → ¬ IsStab v → 2 * t + 1 ≤ hammingWt v)
    (e c : Vec) (he : e.length = n) (heb : ∀ x ∈ e, x < 2) (hwt : hammingWt e ≤ t)
    (hc : Solves n M (sectorSyndrome M e) c)
    (hmin : ∀ c', Solves n M (sectorSyndrome M e) c' → hammingWt c ≤ hammingWt c') :
    (∀ x ∈ sectorSyndrome M (vxor e c), x = 0) ∧ hammingWt (vxor e c) ≤ 2 * t ∧
      IsStab (vxor e c) :=
  Panqec.corrects_up_to_t_sector M n t IsStab hdist e c he heb hwt hc hmin

/-- **(b)+(c), the matching decoder**: for every CSS matrix `H`, uniform positive weights
    `w0`, a valid minimum-weight solver, X-sector distance (undetectable by `Hz`, not in
    `StabX`) and Z-sector distance (undetectable by `Hx`, not in `StabZ`) at least `2t+1`:
    every binary error with at most `t` X flips and at most `t` Z flips is decoded to a
    correction such that the X part of `e ⊕ c` is in `StabX` and the Z part in `StabZ`, and
    `e ⊕ c` is in the code space. -/
theorem matching_corrects_up_to_t {K : Type} [Field K] [LinearOrder K] [IsStrictOrderedRing K]
    (solve : WSolver K) (H : Mat) (n t : Nat) (w0 : K) (hw0 : 0 < w0)
    (mw : List K × List K) (d : MatchingDec K)
    (hnew : MatchingDec.new H n none
      (some (List.replicate n w0, List.replicate n w0)) mw = .ok d)
    (hX : SolverValidOn n solve (Hz H)) (hZ : SolverValidOn n solve (Hx H))
    (hoX : SolverOptimalOn n solve (Hz H)) (hoZ : SolverOptimalOn n solve (Hx H))
    (StabX StabZ : Vec → Prop)
    (hdX : ∀ v : Vec, v.length = n → (∀ x ∈ v, x < 2) →
        (∀ x ∈ sectorSyndrome (Hz H) v, x = 0) → ¬ StabX v → 2 * t + 1 ≤ hammingWt v)
    (hdZ : ∀ v : Vec, v.length = n → (∀ x ∈ v, x < 2) →
        (∀ x ∈ sectorSyndrome (Hx H) v, x = 0) → ¬ StabZ v → 2 * t + 1 ≤ hammingWt v)
    (e : Vec) (he : e.length = 2 * n) (heb : ∀ x ∈ e, x < 2)
    (hwx : hammingWt (xPart e) ≤ t) (hwz : hammingWt (zPart e) ≤ t) :
    ∃ c ev, d.decode solve (measureSyndrome H e) = .ok (c, ev) ∧
      StabX (xPart (vxor e c)) ∧ StabZ (zPart (vxor e c)) ∧ inCodespace H (vxor e c) = true := by
  obtain ⟨c, ev, hd, hc, hcl, hcb, hcs⟩ :=
    matching_valid solve H n (some (List.replicate n w0, List.replicate n w0)) mw d hnew hX hZ e he
  obtain ⟨_, _, hcss, _⟩ := MatchingDec.new_ok H n none _ mw d hnew
  simp only [Option.getD_some] at hc
  have hfz := feasible_z H hcss e n he
  have hfx := feasible_x H hcss e n he
  have hsX := hX (List.replicate n w0) _ hfz
  have hsZ := hZ (List.replicate n w0) _ hfx
  rw [css_zrow_block H hcss e] at hsX
  rw [css_xrow_block H hcss e] at hsZ
  have hxl := xPart_length_of e n he
  have hzl := zPart_length_of e n he
  have hxb : ∀ x ∈ xPart e, x < 2 := fun x hx => heb x (List.mem_of_mem_take hx)
  have hzb : ∀ x ∈ zPart e, x < 2 := fun x hx => heb x (List.mem_of_mem_drop hx)
  -- uniform weights: minimum total weight = minimum Hamming weight
  have hminX : ∀ c', Solves n (Hz H) (sectorSyndrome (Hz H) (xPart e)) c' →
      hammingWt (solve (Hz H) (List.replicate n w0) (sectorSyndrome (Hz H) (xPart e))) ≤ hammingWt c' := by
    intro c' hc'
    exact hammingWt_le_of_wdot_uniform_le w0 hw0 n _ c' (by rw [hsX.1]) hsX.2.1
      (by rw [hc'.1]) hc'.2.1 (hoX _ _ c' hc')
  have hminZ : ∀ c', Solves n (Hx H) (sectorSyndrome (Hx H) (zPart e)) c' →
      hammingWt (solve (Hx H) (List.replicate n w0) (sectorSyndrome (Hx H) (zPart e))) ≤ hammingWt c' := by
    intro c' hc'
    exact hammingWt_le_of_wdot_uniform_le w0 hw0 n _ c' (by rw [hsZ.1]) hsZ.2.1
      (by rw [hc'.1]) hc'.2.1 (hoZ _ _ c' hc')
  have hrX := Panqec.corrects_up_to_t_sector (Hz H) n t StabX hdX (xPart e) _ hxl hxb hwx hsX hminX
  have hrZ := Panqec.corrects_up_to_t_sector (Hx H) n t StabZ hdZ (zPart e) _ hzl hzb hwz hsZ hminZ
  rw [css_zrow_block H hcss e, css_xrow_block H hcss e] at hc
  have hlen : e.length = c.length := by omega
  refine ⟨c, ev, hd, ?_, ?_, in_codespace_of_same_syndrome H e c hlen hcs⟩
  · rw [xPart_vxor_dec e c hlen, hc, xPart_append_dec _ _ (by rw [hsX.1, hsZ.1])]
    exact hrX.2.2
  · rw [zPart_vxor_dec e c hlen, hc, zPart_append_dec _ _ (by rw [hsX.1, hsZ.1])]
    exact hrZ.2.2

/-- a Pauli error of weight `≤ t` (panqec's `bsf_wt`) has at most `t` flips in each sector -/
theorem pauli_weight_bounds_sector_weights (e : Vec) (n t : Nat) (he : e.length = 2 * n)
    (hw : bsfWt e ≤ t) : hammingWt (xPart e) ≤ t ∧ hammingWt (zPart e) ≤ t := by
  have := sector_weights_le_pauli_weight e n he
  omega

/-- **(c)** pairing, restated from C05: with `error_type=None` the X half of the correction is
    the solver's answer for `(Hz, w_x, Z-row syndrome)`, the Z half for `(Hx, w_z, X-row
    syndrome)` -/
theorem matching_sector_pairing {W : Type} (solve : WSolver W) (H : Mat) (n : Nat)
    (wx wz : List W) (mw : List W × List W) (d : MatchingDec W)
    (hnew : MatchingDec.new H n none (some (wx, wz)) mw = .ok d)
    (hX : SolverValidOn n solve (Hz H)) (hZ : SolverValidOn n solve (Hx H))
    (e : Vec) (he : e.length = 2 * n) :
    ∃ c ev, d.decode solve (measureSyndrome H e) = .ok (c, ev) ∧
      xPart c = solve (Hz H) wx (extractZSyndrome H (measureSyndrome H e)) ∧
      zPart c = solve (Hx H) wz (extractXSyndrome H (measureSyndrome H e)) := by
  obtain ⟨c, ev, hd, hc, _⟩ := matching_valid solve H n (some (wx, wz)) mw d hnew hX hZ e he
  obtain ⟨_, _, hcss, _⟩ := MatchingDec.new_ok H n none _ mw d hnew
  have h1 := (hX wx _ (feasible_z H hcss e n he)).1
  have h2 := (hZ wz _ (feasible_x H hcss e n he)).1
  simp only [Option.getD_some] at hc
  refine ⟨c, ev, hd, ?_, ?_⟩
  · rw [hc]; exact xPart_append_dec _ _ (by rw [h1, h2])
  · rw [hc]; exact zPart_append_dec _ _ (by rw [h1, h2])

/-! ### non-vacuity -/

/-- two qubits with flip probabilities 1/10 and 3/10: flipping the second one (`[0,1]`) is
    lighter than flipping the first (`[1,0]`) and more likely -/
example : lik [1/10, 3/10] [9/10, 7/10] [1, 0] ≤ lik [1/10, 3/10] [9/10, 7/10] [0, 1] := by
  simp only [lik]; norm_num

/-- the distance hypothesis is satisfiable with t = 1: the 3-bit repetition code
    (`M` = two parity checks, only the zero vector is trivial, distance 3) -/
example : ∀ v : Vec, v.length = 3 → (∀ x ∈ v, x < 2) →
    (∀ x ∈ sectorSyndrome [[1, 1, 0], [0, 1, 1]] v, x = 0) → ¬ (v = [0, 0, 0]) →
    2 * 1 + 1 ≤ hammingWt v := by
  intro v hl hb hs hn
  match v, hl with
  | [a, b, c], _ =>
    have ha : a < 2 := hb a (by simp)
    have hb' : b < 2 := hb b (by simp)
    have hc : c < 2 := hb c (by simp)
    simp [sectorSyndrome, dot] at hs
    have : a = 1 ∧ b = 1 ∧ c = 1 := by
      refine ⟨?_, ?_, ?_⟩ <;> (by_contra h; apply hn; congr <;> omega)
    obtain ⟨rfl, rfl, rfl⟩ := this
    decide

end Panqec.C09
