/-
C17 for `RhombicPlanarCode`, ALL sizes of the supported family (`Lx, Ly ≥ 2`, `Lz ≥ 1`, no upper
bound): the distance `code.d` reports is the true code distance,
`min (Lx·Ly + (Lx−1)(Ly−1)) Lz` — for the undeformed code and for the deformed code the class offers
(`'Checkerboard XZZX'`).  (The distance is NOT `min(Lx, Ly, Lz)`: the X sheet has
`Lx·Ly + (Lx−1)(Ly−1)` qubits and a tall lattice has that distance, e.g.
`RhombicPlanarCode(2, 2, 7).d = 5`, and that is the true distance.)

The matrices are the ones the generic code model assembles from the hand-written lattice model
`Model/Lattices/RhombicPlanarCode.lean` (tied to `panqec/codes/surface_3d/_rhombic_planar_code.py`
by the correspondence streams of `harness/lattices/rhombicplanarcode.py`); they form a valid
`[[n, 1]]` code for every size of the family (`C01RhombicPlanarCode.valid_code`).

* `weights_listed`, `reported_distance` — the listed logical X is the sheet of all x- and y-edges
  of the plane `z = 0` (weight `Lx·Ly + (Lx−1)(Ly−1)`), the listed logical Z the vertical stack of
  the x-edges `(2Lx−1, 2Ly−2, ·)` (weight `Lz`); `code.d` (`distance`, the minimum Pauli weight over
  the rows of `logicals_x` and `logicals_z`, as `StabilizerCode.d` computes it) is their minimum.
* `lower_bound` — every non-trivial logical operator has at least that weight.  Packing argument
  (`Proofs/DistLattice.lean`, `Proofs/DistChecker.lean`, `Proofs/DistCheckerOpen.lean`,
  `Proofs/DistRhombicPlanarCode{A,B}.lean`): a non-trivial logical anticommutes with one of the two
  listed logicals (C04).  The X sheet has the `Lz` translates `z = 2i`, consecutive translates
  differing by the coloured cubes (and half cubes of the rough boundaries) of the slab between them —
  every in-plane edge lies on exactly one of them, every vertical edge on exactly two.  The Z stack
  is equivalent to each of the `Lx·Ly + (Lx−1)(Ly−1)` vertical stacks of x-edges and of y-edges: the
  product of the triangles of one axis over a vertical stack of vertices is the stack of their
  x-legs times the stack of their y-legs (the z-legs point alternately up and down and cancel in
  pairs), and the four triangles around a cell of the xy grid tie the x-stacks at its corners to
  the y-stack at its centre.  So every operator commuting with all generators anticommutes with
  each representative exactly when it anticommutes with the listed logical: its support meets each
  of them.
* `distance` — `IsDistance n H (min (Lx·Ly + (Lx−1)(Ly−1)) Lz)`: some non-trivial logical operator
  has that weight and none is lighter; `distance_reported` states it for the reported `d`.
* `distance_deformed`, `distance_deformed_offered` — the same for the deformed code
  (`deform('Checkerboard XZZX')`; every other name raises), every size
  (`C17.distance_deformation_invariant`).
-/
import PanqecVerif.Properties.C01RhombicPlanarCode
import PanqecVerif.Proofs.DistRhombicPlanarCodeB
import PanqecVerif.Proofs.Dist
import PanqecVerif.Proofs.DistDeform

namespace Panqec.C17RhombicPlanarCode
open Panqec.RhombicPlanarCode

/-- the number of qubits `n = Lx·Ly·Lz + (Lx−1)(Ly−1)Lz + (Lx−1)Ly(Lz−1)` -/
def nQ (Lx Ly Lz : Nat) : Nat := Lx * Ly * Lz + (Lx - 1) * (Ly - 1) * Lz + (Lx - 1) * Ly * (Lz - 1)

/-- the distance `min (Lx·Ly + (Lx−1)(Ly−1)) Lz` -/
def dist (Lx Ly Lz : Nat) : Nat := min (Lx * Ly + (Lx - 1) * (Ly - 1)) Lz

/-- the row of `logicals_x` has Pauli weight `Lx·Ly + (Lx−1)(Ly−1)` (sheet), that of `logicals_z`
    `Lz` (vertical stack) — every `Lx, Ly, Lz ≥ 1` -/
theorem weights_listed (Lx Ly Lz : Nat) (hx : 1 ≤ Lx) (hy : 1 ≤ Ly) (hz : 1 ≤ Lz) :
    (lattice Lx Ly Lz).rowsX.map pauliWeight = [Lx * Ly + (Lx - 1) * (Ly - 1)] ∧
    (lattice Lx Ly Lz).rowsZ.map pauliWeight = [Lz] :=
  RhombicPlanarCode.weights_listed hz (C01RhombicPlanarCode.wf Lx Ly Lz hx hy)

/-- what `code.d` returns — the minimum weight over the listed logical operators — is
    `min (Lx·Ly + (Lx−1)(Ly−1)) Lz`, every `Lx, Ly, Lz ≥ 1` -/
theorem reported_distance (Lx Ly Lz : Nat) (hx : 1 ≤ Lx) (hy : 1 ≤ Ly) (hz : 1 ≤ Lz) :
    Panqec.distance (lattice Lx Ly Lz).rowsX (lattice Lx Ly Lz).rowsZ = some (dist Lx Ly Lz) :=
  RhombicPlanarCode.reported_distance hz (C01RhombicPlanarCode.wf Lx Ly Lz hx hy)

/-- no non-trivial logical operator (commutes with every generator, is not a product of
    generators) of the `Lx × Ly × Lz` rhombic planar code is lighter than
    `min (Lx·Ly + (Lx−1)(Ly−1)) Lz` — every `Lx, Ly ≥ 2`, `Lz ≥ 1` -/
theorem lower_bound (Lx Ly Lz : Nat) (hx : 2 ≤ Lx) (hy : 2 ≤ Ly) (hz : 1 ≤ Lz) :
    ∀ v, IsNontrivialLogical (nQ Lx Ly Lz) (lattice Lx Ly Lz).rowsH v →
      dist Lx Ly Lz ≤ pauliWeight v :=
  RhombicPlanarCode.lower_bound hx hy hz (C01RhombicPlanarCode.wf Lx Ly Lz (by omega) (by omega))
    (C01RhombicPlanarCode.n_formula Lx Ly Lz)
    (C01RhombicPlanarCode.valid_code Lx Ly Lz hx hy hz).2.2.2

/-- THE C17 STATEMENT FOR ALL SIZES of the supported family (`Lx, Ly ≥ 2`, `Lz ≥ 1`): the code
    distance of the `Lx × Ly × Lz` rhombic planar code — the minimum weight of a non-trivial logical
    operator of the assembled parity-check matrix — is `min (Lx·Ly + (Lx−1)(Ly−1)) Lz` -/
theorem distance (Lx Ly Lz : Nat) (hx : 2 ≤ Lx) (hy : 2 ≤ Ly) (hz : 1 ≤ Lz) :
    IsDistance (nQ Lx Ly Lz) (lattice Lx Ly Lz).rowsH (dist Lx Ly Lz) :=
  distance_criterion (C01RhombicPlanarCode.valid_code Lx Ly Lz hx hy hz).2.2.2
    (dist Lx Ly Lz)
    (exists_listed_of_distance _ _ _ (reported_distance Lx Ly Lz (by omega) (by omega) hz))
    (lower_bound Lx Ly Lz hx hy hz)

/-- `distance` with `n` and `d` written out -/
theorem distance_explicit (Lx Ly Lz : Nat) (hx : 2 ≤ Lx) (hy : 2 ≤ Ly) (hz : 1 ≤ Lz) :
    IsDistance (Lx * Ly * Lz + (Lx - 1) * (Ly - 1) * Lz + (Lx - 1) * Ly * (Lz - 1))
      (lattice Lx Ly Lz).rowsH (min (Lx * Ly + (Lx - 1) * (Ly - 1)) Lz) :=
  distance Lx Ly Lz hx hy hz

/-- the same, stated for whatever `code.d` reports: the reported distance exists and is the
    true distance -/
theorem distance_reported (Lx Ly Lz : Nat) (hx : 2 ≤ Lx) (hy : 2 ≤ Ly) (hz : 1 ≤ Lz) :
    ∃ d, Panqec.distance (lattice Lx Ly Lz).rowsX (lattice Lx Ly Lz).rowsZ = some d ∧
      IsDistance (nQ Lx Ly Lz) (lattice Lx Ly Lz).rowsH d :=
  ⟨_, reported_distance Lx Ly Lz (by omega) (by omega) hz, distance Lx Ly Lz hx hy hz⟩

/-! ### deformed code (`code.deform('Checkerboard XZZX')`) -/

/-- the class offers the deformation 'Checkerboard XZZX': `get_deformation` is defined on every
    qubit of every lattice (any other name raises, `C01RhombicPlanarCode.deformation_rule`) -/
theorem deformation_defined (Lx Ly Lz : Nat) (q : Coord) (hq : q ∈ (lattice Lx Ly Lz).qubits) :
    ∃ m, getDeformation "Checkerboard XZZX" q = some m := by
  obtain ⟨x, y, z, rfl⟩ := mem_qubits_shape Lx Ly Lz q hq
  exact ⟨_, C01RhombicPlanarCode.deformation_on_qubits Lx Ly Lz x y z hq⟩

/-- THE C17 STATEMENT FOR EVERY DEFORMED CODE OF THE CLASS, ALL SIZES (`Lx, Ly ≥ 2`, `Lz ≥ 1`): for
    every deformation name for which `get_deformation` is defined on the qubits (`D q` = the
    relabelling it returns on `q`), the matrices the deformed getters assemble are the relabelled
    rows, they form a valid `[[n, 1]]` code, `code.d` reports `min (Lx·Ly + (Lx−1)(Ly−1)) Lz`, and
    that is the true distance of the deformed code -/
theorem distance_deformed (Lx Ly Lz : Nat) (hx : 2 ≤ Lx) (hy : 2 ≤ Ly) (hz : 1 ≤ Lz)
    (name : String) (D : Coord → PauliMap)
    (hD : ∀ q ∈ (lattice Lx Ly Lz).qubits, getDeformation name q = some (D q)) :
    stabilizerMatrix ((lattice Lx Ly Lz).toCodeData.deform D) =
        some ((lattice Lx Ly Lz).rowsH.map (deformBsf ((lattice Lx Ly Lz).qubits.map D))) ∧
    logicalsX ((lattice Lx Ly Lz).toCodeData.deform D) =
        some ((lattice Lx Ly Lz).rowsX.map (deformBsf ((lattice Lx Ly Lz).qubits.map D))) ∧
    logicalsZ ((lattice Lx Ly Lz).toCodeData.deform D) =
        some ((lattice Lx Ly Lz).rowsZ.map (deformBsf ((lattice Lx Ly Lz).qubits.map D))) ∧
    ValidCodeL (nQ Lx Ly Lz) 1
      ((lattice Lx Ly Lz).rowsH.map (deformBsf ((lattice Lx Ly Lz).qubits.map D)))
      ((lattice Lx Ly Lz).rowsX.map (deformBsf ((lattice Lx Ly Lz).qubits.map D)))
      ((lattice Lx Ly Lz).rowsZ.map (deformBsf ((lattice Lx Ly Lz).qubits.map D))) ∧
    Panqec.distance ((lattice Lx Ly Lz).rowsX.map (deformBsf ((lattice Lx Ly Lz).qubits.map D)))
      ((lattice Lx Ly Lz).rowsZ.map (deformBsf ((lattice Lx Ly Lz).qubits.map D))) =
        some (dist Lx Ly Lz) ∧
    IsDistance (nQ Lx Ly Lz)
      ((lattice Lx Ly Lz).rowsH.map (deformBsf ((lattice Lx Ly Lz).qubits.map D)))
      (dist Lx Ly Lz) :=
  Lattice.deformed_distance (lattice Lx Ly Lz)
    (C01RhombicPlanarCode.wf Lx Ly Lz (by omega) (by omega))
    (C01RhombicPlanarCode.n_formula Lx Ly Lz)
    (C01RhombicPlanarCode.valid_code Lx Ly Lz hx hy hz).2.2.2
    (reported_distance Lx Ly Lz (by omega) (by omega) hz) (distance Lx Ly Lz hx hy hz) D
    (fun q hq => C01RhombicPlanarCode.deformation_isPerm name q _ (hD q hq))

/-- the relabelling `get_deformation(·, name)` as a function of the location (identity where it
    raises — nowhere on the qubits for the offered name) -/
def deformationOf (name : String) (q : Coord) : PauliMap :=
  (getDeformation name q).getD PauliMap.id

/-- the 'Checkerboard XZZX' code has distance `min (Lx·Ly + (Lx−1)(Ly−1)) Lz` — every size of the
    family -/
theorem distance_deformed_offered (Lx Ly Lz : Nat) (hx : 2 ≤ Lx) (hy : 2 ≤ Ly) (hz : 1 ≤ Lz) :
    IsDistance (nQ Lx Ly Lz)
      ((lattice Lx Ly Lz).rowsH.map (deformBsf ((lattice Lx Ly Lz).qubits.map
        (deformationOf "Checkerboard XZZX")))) (dist Lx Ly Lz) :=
  (distance_deformed Lx Ly Lz hx hy hz "Checkerboard XZZX"
    (deformationOf "Checkerboard XZZX") (fun q hq => by
      obtain ⟨m, hm⟩ := deformation_defined Lx Ly Lz q hq
      unfold deformationOf
      rw [hm]; rfl)).2.2.2.2.2

/-! ### non-vacuity -/

example : IsDistance 41 (lattice 2 3 4).rowsH 4 := distance 2 3 4 (by decide) (by decide) (by decide)
/-- a tall lattice: the distance is the weight of the sheet, not `Lz` -/
example : IsDistance 47 (lattice 2 2 7).rowsH 5 := distance 2 2 7 (by decide) (by decide) (by decide)
example : IsDistance (nQ 10 8 6) (lattice 10 8 6).rowsH 6 :=
  distance 10 8 6 (by decide) (by decide) (by decide)
/-- the hypothesis of `lower_bound` is satisfiable: the listed logical X is a non-trivial logical
    operator -/
example : IsNontrivialLogical 12 (lattice 2 2 2).rowsH ((lattice 2 2 2).rowsX.getD 0 []) :=
  listedX_nontrivial (C01RhombicPlanarCode.valid_code 2 2 2 (by decide) (by decide) (by decide)).2.2.2
    (by decide +kernel)
example : (lattice 3 4 3).rowsX.map pauliWeight = [18] ∧ (lattice 3 4 3).rowsZ.map pauliWeight = [3] :=
  weights_listed 3 4 3 (by decide) (by decide) (by decide)
/-- the 'Checkerboard XZZX' code on the `3 × 3 × 4` lattice has distance 4 -/
example : IsDistance (nQ 3 3 4) ((lattice 3 3 4).rowsH.map
    (deformBsf ((lattice 3 3 4).qubits.map (deformationOf "Checkerboard XZZX")))) 4 :=
  distance_deformed_offered 3 3 4 (by decide) (by decide) (by decide)
example : deformationOf "Checkerboard XZZX" [2, 2, 1] = PauliMap.swapXZ := by decide +kernel

end Panqec.C17RhombicPlanarCode
