/-
C17 for `Color666ToricCode`, ALL sizes of the supported family (square lattices `Lx = Ly = L ≥ 1`,
no upper bound): the distance `code.d` reports is the true code distance, `4L` — for the undeformed
code and for the deformed code the class offers (`'X3Z3'`).

The matrices are the ones the generic code model assembles from the hand-written lattice model
`Model/Lattices/Color666ToricCode.lean` (tied to `panqec/codes/color_2d/_color_666_toric_code.py` by
the correspondence streams of `harness/lattices/color666toriccode.py`); they form a valid
`[[18L², 4]]` code for every `L ≥ 1` (`C01Color666ToricCode.valid_code`).

* `weights_listed`, `reported_distance` — each of the four rows of `logicals_x` and of `logicals_z`
  (a single letter on one of the zig-zag strings `kA … kD` winding around the torus) has weight
  `4L`; `code.d` (`distance`, the minimum Pauli weight over the listed logicals, as
  `StabilizerCode.d` computes it) is `4L`.
* `lower_bound` — every non-trivial logical operator has weight `≥ 4L`.  Packing argument
  (`Proofs/DistLattice.lean`, `Proofs/DistClass.lean`, `Proofs/DistColor666ToricCode{A…F}.lean`): a
  non-trivial logical anticommutes with one of the eight listed logicals (C04).  In FACE coordinates
  the sheared torus of the class is an unsheared `3L × 3L` torus of hexagons, each owning its right
  and its left corner; a second frame (the picture rotated by 240°) brings the strings `kA`, `kB`
  into the position of `kC`, `kD`.  A listed string is a zig-zag `Z c t₀` of its frame; its `3L`
  translates `Z c t` are pairwise disjoint and consecutive ones differ by the column of faces
  between them, so every operator commuting with all generators anticommutes with each of them
  exactly when it anticommutes with the listed logical (ladder).  The qubits the translates leave
  free are the `L` closed straight lines (`6L` qubits each) through the faces of the third colour:
  such a line is homologous to the zig-zag only modulo 2 — the generators whose product relates
  them fill half of the torus — so its equivalence is obtained from C04 (`Lattice.same_class`):
  the line meets every face in 0 or 2 qubits and has the same intersection parities with the four
  listed strings as the zig-zag (`line_zig_parity`: odd exactly against the strings of the other
  frame and the other colour; the pairing table of the strings agrees).  The `3L + L = 4L`
  representatives use every one of the `18L²` qubits exactly once.
* `distance` — `IsDistance (18L²) H (4L)`: some non-trivial logical operator has that weight and
  none is lighter; `distance_reported` states it for the reported `d`.
* `distance_deformed`, `distance_deformed_offered` — the same for the deformed code
  (`deform('X3Z3')`; every other name raises), every size (`C17.distance_deformation_invariant`).
-/
import PanqecVerif.Properties.C01Color666ToricCode
import PanqecVerif.Proofs.DistColor666ToricCodeF
import PanqecVerif.Proofs.Dist
import PanqecVerif.Proofs.DistDeform

namespace Panqec.C17Color666ToricCode
open Panqec.Color666ToricCode Panqec.Color

/-- every row of `logicals_x` and of `logicals_z` has Pauli weight `4L` — every `L ≥ 1` -/
theorem weights_listed (L : Nat) (hL : 1 ≤ L) :
    (lattice L L).rowsX.map pauliWeight = [4 * L, 4 * L, 4 * L, 4 * L] ∧
    (lattice L L).rowsZ.map pauliWeight = [4 * L, 4 * L, 4 * L, 4 * L] :=
  Color666ToricCode.weights_listed hL (C01Color666ToricCode.wf L hL)

/-- what `code.d` returns — the minimum weight over the listed logical operators — is `4L`, every
    `L ≥ 1` -/
theorem reported_distance (L : Nat) (hL : 1 ≤ L) :
    Panqec.distance (lattice L L).rowsX (lattice L L).rowsZ = some (4 * L) :=
  Color666ToricCode.reported_distance hL (C01Color666ToricCode.wf L hL)

/-- no non-trivial logical operator (commutes with every generator, is not a product of
    generators) of the `L × L` 6.6.6 toric colour code is lighter than `4L` — every `L ≥ 1` -/
theorem lower_bound (L : Nat) (hL : 1 ≤ L) :
    ∀ v, IsNontrivialLogical (18 * (L * L)) (lattice L L).rowsH v → 4 * L ≤ pauliWeight v :=
  Color666ToricCode.lower_bound hL (C01Color666ToricCode.wf L hL) (C01Color666ToricCode.n_formula L hL)
    (C01Color666ToricCode.valid_code L hL).2.2.2

/-- THE C17 STATEMENT FOR ALL SIZES of the supported family (`Lx = Ly = L ≥ 1`): the code distance
    of the `L × L` 6.6.6 toric colour code — the minimum weight of a non-trivial logical operator of the
    assembled parity-check matrix — is `4L` -/
theorem distance (L : Nat) (hL : 1 ≤ L) : IsDistance (18 * (L * L)) (lattice L L).rowsH (4 * L) :=
  distance_criterion (C01Color666ToricCode.valid_code L hL).2.2.2 (4 * L)
    (exists_listed_of_distance _ _ _ (reported_distance L hL)) (lower_bound L hL)

/-- the same, stated for whatever `code.d` reports: the reported distance exists and is the
    true distance -/
theorem distance_reported (L : Nat) (hL : 1 ≤ L) :
    ∃ d, Panqec.distance (lattice L L).rowsX (lattice L L).rowsZ = some d ∧
      IsDistance (18 * (L * L)) (lattice L L).rowsH d :=
  ⟨_, reported_distance L hL, distance L hL⟩

/-! ### deformed code (`code.deform('X3Z3')`) -/

/-- every map `get_deformation` returns is a permutation of {X, Y, Z} (so C08 applies) -/
theorem deformation_isPerm {name : String} {loc : Coord} {m : PauliMap}
    (h : getDeformation name loc = DeformResult.map m) : m.isPerm = true := by
  unfold getDeformation at h
  split at h
  · split at h
    · split at h
      · cases h
      · split at h <;> (injection h with h; subst h; decide)
    · cases h
  · cases h

/-- the class offers the deformation 'X3Z3': `get_deformation` is defined on every qubit of every
    lattice (any other name raises, `C01Color666ToricCode.deformation_rule_bad_name`) -/
theorem deformation_defined (L : Nat) (hL : 1 ≤ L) (q : Coord) (hq : q ∈ (lattice L L).qubits) :
    ∃ m, getDeformation "X3Z3" q = DeformResult.map m := by
  rcases C01Color666ToricCode.deformation_rule_on_qubits L hL q hq with h | h
  · exact ⟨_, h⟩
  · exact ⟨_, h⟩

/-- THE C17 STATEMENT FOR EVERY DEFORMED CODE OF THE CLASS, ALL SIZES (`L ≥ 1`): for every
    deformation name for which `get_deformation` returns a map on the qubits (`D q` = the relabelling
    it returns on `q`), the matrices the deformed getters assemble are the relabelled rows, they form
    a valid `[[18L², 4]]` code, `code.d` reports `4L`, and that is the true distance of the deformed
    code -/
theorem distance_deformed (L : Nat) (hL : 1 ≤ L) (name : String) (D : Coord → PauliMap)
    (hD : ∀ q ∈ (lattice L L).qubits, getDeformation name q = DeformResult.map (D q)) :
    stabilizerMatrix ((lattice L L).toCodeData.deform D) =
        some ((lattice L L).rowsH.map (deformBsf ((lattice L L).qubits.map D))) ∧
    logicalsX ((lattice L L).toCodeData.deform D) =
        some ((lattice L L).rowsX.map (deformBsf ((lattice L L).qubits.map D))) ∧
    logicalsZ ((lattice L L).toCodeData.deform D) =
        some ((lattice L L).rowsZ.map (deformBsf ((lattice L L).qubits.map D))) ∧
    ValidCodeL (18 * (L * L)) 4
      ((lattice L L).rowsH.map (deformBsf ((lattice L L).qubits.map D)))
      ((lattice L L).rowsX.map (deformBsf ((lattice L L).qubits.map D)))
      ((lattice L L).rowsZ.map (deformBsf ((lattice L L).qubits.map D))) ∧
    Panqec.distance ((lattice L L).rowsX.map (deformBsf ((lattice L L).qubits.map D)))
      ((lattice L L).rowsZ.map (deformBsf ((lattice L L).qubits.map D))) = some (4 * L) ∧
    IsDistance (18 * (L * L))
      ((lattice L L).rowsH.map (deformBsf ((lattice L L).qubits.map D))) (4 * L) :=
  Lattice.deformed_distance (lattice L L) (C01Color666ToricCode.wf L hL)
    (C01Color666ToricCode.n_formula L hL) (C01Color666ToricCode.valid_code L hL).2.2.2
    (reported_distance L hL) (distance L hL) D (fun q hq => deformation_isPerm (hD q hq))

/-- the relabelling `get_deformation(·, name)` as a function of the location (identity where it
    raises — nowhere on the qubits for the offered name) -/
def deformationOf (name : String) (q : Coord) : PauliMap :=
  match getDeformation name q with
  | DeformResult.map m => m
  | _ => PauliMap.id

/-- the 'X3Z3' code has distance `4L` — every size of the family -/
theorem distance_deformed_offered (L : Nat) (hL : 1 ≤ L) :
    IsDistance (18 * (L * L))
      ((lattice L L).rowsH.map (deformBsf ((lattice L L).qubits.map (deformationOf "X3Z3"))))
      (4 * L) :=
  (distance_deformed L hL "X3Z3" (deformationOf "X3Z3") (fun q hq => by
      obtain ⟨m, hm⟩ := deformation_defined L hL q hq
      unfold deformationOf
      rw [hm])).2.2.2.2.2

/-! ### non-vacuity -/

example : IsDistance 18 (lattice 1 1).rowsH 4 := distance 1 (by decide)
example : IsDistance 162 (lattice 3 3).rowsH 12 := distance 3 (by decide)
example : IsDistance 1800 (lattice 10 10).rowsH 40 := distance 10 (by decide)
/-- the hypothesis of `lower_bound` is satisfiable: the first listed logical X is a non-trivial
    logical operator -/
example : IsNontrivialLogical 18 (lattice 1 1).rowsH ((lattice 1 1).rowsX.getD 0 []) :=
  listedX_nontrivial (C01Color666ToricCode.valid_code 1 (by decide)).2.2.2
    (getD_mem' _ _ 0 (by
      rw [(C01Color666ToricCode.valid_code 1 (by decide)).2.2.2.kX]; decide))
example : (lattice 3 3).rowsX.map pauliWeight = [12, 12, 12, 12] ∧
    (lattice 3 3).rowsZ.map pauliWeight = [12, 12, 12, 12] := weights_listed 3 (by decide)
/-- the 'X3Z3' code on the `4 × 4` lattice has distance 16 -/
example : IsDistance 288 ((lattice 4 4).rowsH.map
    (deformBsf ((lattice 4 4).qubits.map (deformationOf "X3Z3")))) 16 :=
  distance_deformed_offered 4 (by decide)
example : deformationOf "X3Z3" [1, 0] = PauliMap.swapXZ := by decide
example : deformationOf "X3Z3" [3, 4] = PauliMap.id := by decide

end Panqec.C17Color666ToricCode
