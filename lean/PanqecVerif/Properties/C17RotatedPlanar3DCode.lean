/-
C17 for `RotatedPlanar3DCode`, ALL sizes of the supported family (`Lx, Ly, Lz ≥ 1`, no upper
bound): the distance `code.d` reports is the true code distance, `min Lx (Ly·Lz)` — for the
undeformed code and for every deformed code the class offers.

The matrices are the ones the generic code model assembles from the hand-written lattice model
`Model/Lattices/RotatedPlanar3DCode.lean` (tied to
`panqec/codes/surface_3d/_rotated_planar_3d_code.py` by the correspondence streams of
`harness/lattices/rotatedplanar3dcode.py`); they form a valid `[[n, 1]]` code for every size
(`C01RotatedPlanar3DCode.valid_code`).

* `reported_distance` — `code.d` (`distance`, the minimum Pauli weight over the rows of
  `logicals_x` and `logicals_z`, as `StabilizerCode.d` computes it) is `min Lx (Ly·Lz)`: the listed
  logical X is a row of `Lx` horizontal qubits, the listed logical Z a plane of `Ly·Lz`
  horizontal qubits (`weights_listed`).  (Checked against the Python:
  `RotatedPlanar3DCode(4, 3, 2).d == 4`, `RotatedPlanar3DCode(2, 2, 1).d == 2`.)
* `lower_bound` — every non-trivial logical operator has weight `≥ min Lx (Ly·Lz)`.  Packing
  argument (`Proofs/DistLattice.lean`, `Proofs/DistCubic3D.lean`,
  `Proofs/DistRotatedPlanar3DCode.lean`): a non-trivial logical anticommutes with the listed X row
  or with the listed Z plane (C04).  The row has `Ly·Lz` lattice translates
  `(y, z) = (2j + 1, 2k + 1)` with pairwise disjoint supports: moving up one layer multiplies by the
  row of vertical face generators between the rows (consecutive faces share one vertical qubit),
  moving to the next row of the bottom layer by the horizontal face generators between the rows
  (which tile both rows like dominoes).  The plane has `Lx` translates `x = 2i + 1`; the vertex
  generators between two consecutive planes tile both planes like dominoes in every layer and
  share their vertical qubits in pairs.  So every operator commuting with all generators meets
  all `Ly·Lz` translates of the row or all `Lx` translates of the plane.
* `distance` — `IsDistance n H (min Lx (Ly·Lz))`; `distance_reported` for the reported `d`.
* `distance_deformed`, `distance_deformed_offered` — the same for EVERY DEFORMED code of the class
  (`deform('XZZX', deformation_axis=ax)`, `ax ∈ {x, y, z}`; every other name or axis raises),
  every size (`C17.distance_deformation_invariant`).
-/
import PanqecVerif.Properties.C01RotatedPlanar3DCode
import PanqecVerif.Proofs.DistRotatedPlanar3DCode
import PanqecVerif.Proofs.Dist
import PanqecVerif.Proofs.DistDeform

namespace Panqec.C17RotatedPlanar3DCode
open Panqec Panqec.RotatedPlanar3DCode

/-- the number of qubits: `Lx·Ly·Lz` horizontal ones and `Lz − 1` layers of vertical ones -/
abbrev nq (Lx Ly Lz : Nat) : Nat :=
  Lx * Ly * Lz + ((Lx / 2) * (Ly / 2 + 1) + ((Lx - 1) / 2) * ((Ly + 1) / 2)) * (Lz - 1)

/-- the row of `logicals_x` has Pauli weight `Lx` (a row of qubits), the row of `logicals_z`
    weight `Ly·Lz` (a plane) — every `Lx, Ly, Lz ≥ 1` -/
theorem weights_listed (Lx Ly Lz : Nat) (hx : 1 ≤ Lx) (hy : 1 ≤ Ly) (hz : 1 ≤ Lz) :
    (lattice Lx Ly Lz).rowsX.map pauliWeight = [Lx] ∧
    (lattice Lx Ly Lz).rowsZ.map pauliWeight = [Ly * Lz] :=
  RotatedPlanar3DCode.weights_listed (C01RotatedPlanar3DCode.wf Lx Ly Lz hx hy hz)

/-- what `code.d` returns — the minimum weight over the listed logical operators — is
    `min Lx (Ly·Lz)`, every `Lx, Ly, Lz ≥ 1` -/
theorem reported_distance (Lx Ly Lz : Nat) (hx : 1 ≤ Lx) (hy : 1 ≤ Ly) (hz : 1 ≤ Lz) :
    Panqec.distance (lattice Lx Ly Lz).rowsX (lattice Lx Ly Lz).rowsZ =
      some (min Lx (Ly * Lz)) :=
  RotatedPlanar3DCode.reported_distance (C01RotatedPlanar3DCode.wf Lx Ly Lz hx hy hz)

/-- no non-trivial logical operator (commutes with every generator, is not a product of
    generators) of the `Lx × Ly × Lz` rotated 3-D planar code is lighter than `min Lx (Ly·Lz)` —
    every `Lx, Ly, Lz ≥ 1` -/
theorem lower_bound (Lx Ly Lz : Nat) (hx : 1 ≤ Lx) (hy : 1 ≤ Ly) (hz : 1 ≤ Lz) :
    ∀ v, IsNontrivialLogical (nq Lx Ly Lz) (lattice Lx Ly Lz).rowsH v →
      min Lx (Ly * Lz) ≤ pauliWeight v :=
  RotatedPlanar3DCode.lower_bound hz (C01RotatedPlanar3DCode.wf Lx Ly Lz hx hy hz)
    (length_qubits Lx Ly Lz) (C01RotatedPlanar3DCode.valid_code Lx Ly Lz hx hy hz).2.2.2

/-- THE C17 STATEMENT FOR ALL SIZES (`Lx, Ly, Lz ≥ 1`): the code distance of the `Lx × Ly × Lz`
    rotated 3-D planar code — the minimum weight of a non-trivial logical operator of the
    assembled parity-check matrix — is `min Lx (Ly·Lz)` -/
theorem distance (Lx Ly Lz : Nat) (hx : 1 ≤ Lx) (hy : 1 ≤ Ly) (hz : 1 ≤ Lz) :
    IsDistance (nq Lx Ly Lz) (lattice Lx Ly Lz).rowsH (min Lx (Ly * Lz)) :=
  distance_criterion (C01RotatedPlanar3DCode.valid_code Lx Ly Lz hx hy hz).2.2.2
    (min Lx (Ly * Lz)) (exists_listed_of_distance _ _ _ (reported_distance Lx Ly Lz hx hy hz))
    (lower_bound Lx Ly Lz hx hy hz)

/-- the same, stated for whatever `code.d` reports: the reported distance exists and is the
    true distance -/
theorem distance_reported (Lx Ly Lz : Nat) (hx : 1 ≤ Lx) (hy : 1 ≤ Ly) (hz : 1 ≤ Lz) :
    ∃ d, Panqec.distance (lattice Lx Ly Lz).rowsX (lattice Lx Ly Lz).rowsZ = some d ∧
      IsDistance (nq Lx Ly Lz) (lattice Lx Ly Lz).rowsH d :=
  ⟨_, reported_distance Lx Ly Lz hx hy hz, distance Lx Ly Lz hx hy hz⟩

/-! ### deformed codes (`code.deform('XZZX', deformation_axis=ax)`) -/

/-- the class offers the deformation 'XZZX' along the axes 'x', 'y', 'z': for these
    `get_deformation` is defined on every qubit of every lattice (any other name or axis raises,
    `C01RotatedPlanar3DCode.deformation_rule`) -/
theorem deformation_defined (Lx Ly Lz : Nat) (axis : String)
    (ha : axis = "x" ∨ axis = "y" ∨ axis = "z") (q : Coord)
    (hq : q ∈ (lattice Lx Ly Lz).qubits) :
    ∃ m, getDeformation Lx Ly Lz "XZZX" (some axis) q = some m := by
  obtain ⟨x, y, z, rfl⟩ := mem_qubits_shape Lx Ly Lz q hq
  rw [C01RotatedPlanar3DCode.deformation_rule, C01RotatedPlanar3DCode.qubit_axis_rule Lx Ly Lz x y z hq]
  have h1 : ¬ (axis ≠ "x" ∧ axis ≠ "y" ∧ axis ≠ "z") := by
    rintro ⟨a, b, c⟩; rcases ha with h | h | h <;> contradiction
  rw [if_neg h1, if_neg (by decide)]
  exact ⟨_, rfl⟩

/-- THE C17 STATEMENT FOR EVERY DEFORMED CODE OF THE CLASS, ALL SIZES (`Lx, Ly, Lz ≥ 1`): for every
    deformation name and axis for which `get_deformation` is defined on the qubits (`D q` = the
    relabelling it returns on `q`), the matrices the deformed getters assemble are the relabelled
    rows, they form a valid `[[n, 1]]` code, `code.d` reports `min Lx (Ly·Lz)`, and that is the true
    distance of the deformed code -/
theorem distance_deformed (Lx Ly Lz : Nat) (hx : 1 ≤ Lx) (hy : 1 ≤ Ly) (hz : 1 ≤ Lz)
    (name : String) (axis : Option String) (D : Coord → PauliMap)
    (hD : ∀ q ∈ (lattice Lx Ly Lz).qubits, getDeformation Lx Ly Lz name axis q = some (D q)) :
    stabilizerMatrix ((lattice Lx Ly Lz).toCodeData.deform D) =
        some ((lattice Lx Ly Lz).rowsH.map (deformBsf ((lattice Lx Ly Lz).qubits.map D))) ∧
    logicalsX ((lattice Lx Ly Lz).toCodeData.deform D) =
        some ((lattice Lx Ly Lz).rowsX.map (deformBsf ((lattice Lx Ly Lz).qubits.map D))) ∧
    logicalsZ ((lattice Lx Ly Lz).toCodeData.deform D) =
        some ((lattice Lx Ly Lz).rowsZ.map (deformBsf ((lattice Lx Ly Lz).qubits.map D))) ∧
    ValidCodeL (nq Lx Ly Lz) 1
      ((lattice Lx Ly Lz).rowsH.map (deformBsf ((lattice Lx Ly Lz).qubits.map D)))
      ((lattice Lx Ly Lz).rowsX.map (deformBsf ((lattice Lx Ly Lz).qubits.map D)))
      ((lattice Lx Ly Lz).rowsZ.map (deformBsf ((lattice Lx Ly Lz).qubits.map D))) ∧
    Panqec.distance ((lattice Lx Ly Lz).rowsX.map (deformBsf ((lattice Lx Ly Lz).qubits.map D)))
      ((lattice Lx Ly Lz).rowsZ.map (deformBsf ((lattice Lx Ly Lz).qubits.map D))) =
        some (min Lx (Ly * Lz)) ∧
    IsDistance (nq Lx Ly Lz)
      ((lattice Lx Ly Lz).rowsH.map (deformBsf ((lattice Lx Ly Lz).qubits.map D)))
      (min Lx (Ly * Lz)) :=
  Lattice.deformed_distance (lattice Lx Ly Lz) (C01RotatedPlanar3DCode.wf Lx Ly Lz hx hy hz)
    (C01RotatedPlanar3DCode.n_formula Lx Ly Lz)
    (C01RotatedPlanar3DCode.valid_code Lx Ly Lz hx hy hz).2.2.2
    (reported_distance Lx Ly Lz hx hy hz) (distance Lx Ly Lz hx hy hz) D
    (fun q hq => C01RotatedPlanar3DCode.deformation_isPerm Lx Ly Lz name axis q _ (hD q hq))

/-- the relabelling `get_deformation(·, name, axis)` as a function of the location (identity
    where it raises — nowhere on the qubits for the offered name and axes) -/
def deformationOf (Lx Ly Lz : Nat) (name : String) (axis : Option String) (q : Coord) : PauliMap :=
  (getDeformation Lx Ly Lz name axis q).getD PauliMap.id

/-- the XZZX-deformed code along every axis has distance `min Lx (Ly·Lz)` — every size -/
theorem distance_deformed_offered (Lx Ly Lz : Nat) (hx : 1 ≤ Lx) (hy : 1 ≤ Ly) (hz : 1 ≤ Lz)
    (axis : String) (ha : axis = "x" ∨ axis = "y" ∨ axis = "z") :
    IsDistance (nq Lx Ly Lz)
      ((lattice Lx Ly Lz).rowsH.map (deformBsf ((lattice Lx Ly Lz).qubits.map
        (deformationOf Lx Ly Lz "XZZX" (some axis))))) (min Lx (Ly * Lz)) :=
  (distance_deformed Lx Ly Lz hx hy hz "XZZX" (some axis) (deformationOf Lx Ly Lz "XZZX" (some axis))
    (fun q hq => by
      obtain ⟨m, hm⟩ := deformation_defined Lx Ly Lz axis ha q hq
      unfold deformationOf
      rw [hm]; rfl)).2.2.2.2.2

/-! ### non-vacuity -/

example : IsDistance 30 (lattice 2 3 4).rowsH 2 :=
  distance 2 3 4 (by decide) (by decide) (by decide)
/-- the distance is not `min Lx (min Ly Lz)`: the `4 × 3 × 2` code has distance 4 -/
example : IsDistance 30 (lattice 4 3 2).rowsH 4 :=
  distance 4 3 2 (by decide) (by decide) (by decide)
/-- the smallest member of the family: one qubit, no generator, distance 1 -/
example : IsDistance 1 (lattice 1 1 1).rowsH 1 :=
  distance 1 1 1 (by decide) (by decide) (by decide)
/-- the hypothesis of `lower_bound` is satisfiable: the listed logical X is a non-trivial
    logical operator -/
example : IsNontrivialLogical 10 (lattice 2 2 2).rowsH ((lattice 2 2 2).rowsX.getD 0 []) :=
  listedX_nontrivial (C01RotatedPlanar3DCode.valid_code 2 2 2 (by decide) (by decide) (by decide)).2.2.2
    (by decide +kernel)
example : (lattice 2 3 4).rowsX.map pauliWeight = [2] ∧
    (lattice 2 3 4).rowsZ.map pauliWeight = [12] :=
  weights_listed 2 3 4 (by decide) (by decide) (by decide)
/-- the XZZX code on the `3 × 4 × 5` lattice along 'z' has distance 3 -/
example : IsDistance (nq 3 4 5) ((lattice 3 4 5).rowsH.map
    (deformBsf ((lattice 3 4 5).qubits.map (deformationOf 3 4 5 "XZZX" (some "z"))))) 3 :=
  distance_deformed_offered 3 4 5 (by decide) (by decide) (by decide) "z" (by decide)
example : deformationOf 2 2 2 "XZZX" (some "z") [2, 0, 2] = PauliMap.swapXZ := by decide +kernel
/-- `code.deform('XZZX')` without an axis is the deformation along 'z' -/
example : deformationOf 2 2 2 "XZZX" none = deformationOf 2 2 2 "XZZX" (some "z") := rfl

end Panqec.C17RotatedPlanar3DCode
