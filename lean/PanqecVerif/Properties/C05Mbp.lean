/-
C05 / C06 for `MemoryBeliefPropagationDecoder`: the integer / boolean glue
(`Model/MbpDecoder.lean`).  The floating-point message passing is a parameter (`msgs`: per
iteration and qubit, whether all three `gamma` are positive and which is the smallest), so every
statement holds whatever the messages are — NaN, overflow and non-convergence included.

Proved: with `max_bp_iter ≥ 1` `decode` returns a binary vector of length `2n` which is exactly the
vector whose syndrome the last executed iteration tested (the final `reverse=True` conversion and
the swap of the halves cancel); the loop stops after the first iteration whose hard decision has the
measured syndrome, so whenever some iteration within the budget reaches the syndrome the returned
correction reproduces it; otherwise the hard decision of the last iteration is returned unchecked
(MBP is not a complete decoder); `max_bp_iter = 0` raises (`UnboundLocalError`).  C06: `decode`
works on copies of the message arrays, so the model is a plain function of the immutable attributes
and the syndrome and there is no state to state a theorem about; that the real object leaks none is
tested by the C06 oracle (reused object vs fresh object).

Tie to the code: `harness/mbp_dec.py` replays the model's loop on the hard decisions read off the
vectors the implementation hands to `measure_syndrome`.
-/
import PanqecVerif.Proofs.MbpDecoder

namespace Panqec.C05Mbp

open Panqec Panqec.Mbp

/-- **Validity and identity of the returned vector.**  For every matrix, every number of qubits,
    every `max_bp_iter ≥ 1`, every syndrome and whatever the messages: `decode` returns a binary
    vector of length `2n`; it ran `1 ≤ k ≤ max_bp_iter` iterations and returns the vector tested in
    the last one; every earlier iteration failed the syndrome test. -/
theorem mbp_correction_valid (H : Mat) (n maxIter : Nat) (msgs : Nat → List (Bool × Fin 3)) (s : Vec)
    (hmax : 1 ≤ maxIter) :
    ∃ c k, decode H n maxIter msgs s = (.ok c, k) ∧ c.length = 2 * n ∧ (∀ x ∈ c, x < 2) ∧
      1 ≤ k ∧ k ≤ maxIter ∧ c = testedVector n msgs (k - 1) ∧
      ∀ j, j + 1 < k → measureSyndrome H (testedVector n msgs j) ≠ s := by
  unfold decode
  cases hl : loop H n msgs s maxIter 0 none with
  | mk r k =>
    obtain ⟨_, h2, h3, h4, h5⟩ := loop_spec H n msgs s maxIter 0 none r k hl
    have hk : 0 < k := by
      rcases Nat.eq_zero_or_pos k with h0 | h0
      · have := (h4 h0).2; omega
      · exact h0
    obtain ⟨hr, _⟩ := h5 hk
    subst hr
    simp only
    have hfin := finalVector_eq n (hardVec n (msgs (k - 1))) (hardVec_length _ _)
    refine ⟨_, k, rfl, ?_, ?_, hk, by omega, hfin, fun j hj => h3 j (Nat.zero_le _) hj⟩
    · rw [hfin, pauliToSymplectic_length, hardVec_length]
    · rw [hfin]; exact pauliToSymplectic_binary _ _

/-- **A converged run reproduces the syndrome.**  If some iteration within the budget produces a
    hard decision with the measured syndrome, the returned correction has the measured syndrome
    (and it is the hard decision of the first such iteration). -/
theorem mbp_converged_reproduces_syndrome (H : Mat) (n maxIter : Nat)
    (msgs : Nat → List (Bool × Fin 3)) (s : Vec)
    (j : Nat) (hj : j < maxIter) (hconv : measureSyndrome H (testedVector n msgs j) = s) :
    ∃ c k, decode H n maxIter msgs s = (.ok c, k) ∧ measureSyndrome H c = s ∧ k ≤ j + 1 := by
  obtain ⟨c, k, hd, _, _, hk1, hk2, hc, hfail⟩ := mbp_correction_valid H n maxIter msgs s (by omega)
  refine ⟨c, k, hd, ?_, ?_⟩
  · -- the loop ended at iteration k - 1: either its test succeeded or the budget ran out
    unfold decode at hd
    cases hl : loop H n msgs s maxIter 0 none with
    | mk r k' =>
      rw [hl] at hd
      obtain ⟨_, _, h3, _, h5⟩ := loop_spec H n msgs s maxIter 0 none r k' hl
      have hkk : k' = k := by
        cases r <;> simp only [Prod.mk.injEq] at hd <;> exact hd.2
      subst hkk
      rcases (h5 (by omega)).2 with hs | hend
      · rw [hc]; exact hs
      · -- budget exhausted: then iteration j < maxIter = k was an earlier or the last one
        by_cases hjk : j + 1 < k'
        · exact absurd hconv (h3 j (Nat.zero_le _) hjk)
        · have : j = k' - 1 := by omega
          rw [hc, ← this]; exact hconv
  · refine Decidable.byContradiction fun hlt => ?_
    exact hfail j (by omega) hconv

/-- **Budget exhausted**: when no iteration reaches the syndrome the hard decision of the last
    iteration is returned, unchecked. -/
theorem mbp_not_converged_returns_last (H : Mat) (n maxIter : Nat)
    (msgs : Nat → List (Bool × Fin 3)) (s : Vec) (hmax : 1 ≤ maxIter)
    (hno : ∀ j, j < maxIter → measureSyndrome H (testedVector n msgs j) ≠ s) :
    decode H n maxIter msgs s = (.ok (testedVector n msgs (maxIter - 1)), maxIter) := by
  obtain ⟨c, k, hd, _, _, hk1, hk2, hc, _⟩ := mbp_correction_valid H n maxIter msgs s hmax
  unfold decode at hd ⊢
  cases hl : loop H n msgs s maxIter 0 none with
  | mk r k' =>
    rw [hl] at hd
    obtain ⟨_, _, _, _, h5⟩ := loop_spec H n msgs s maxIter 0 none r k' hl
    have hkk : k' = k := by
      cases r <;> simp only [Prod.mk.injEq] at hd <;> exact hd.2
    subst hkk
    have hend : k' = maxIter := by
      rcases (h5 (by omega)).2 with hs | hend
      · exact absurd hs (hno (k' - 1) (by omega))
      · omega
    rw [(h5 (by omega)).1]
    simp only
    rw [finalVector_eq n _ (hardVec_length _ _), hend]
    rfl

/-- `max_bp_iter = 0`: the loop body never runs and `decode` raises `UnboundLocalError` -/
theorem mbp_zero_iterations_raises (H : Mat) (n : Nat) (msgs : Nat → List (Bool × Fin 3)) (s : Vec) :
    decode H n 0 msgs s = (.error .unboundLocal, 0) := rfl

/-- the hard decisions are Pauli numbers `0 … 3` -/
theorem mbp_hard_decision_is_pauli (n : Nat) (msg : List (Bool × Fin 3)) :
    (hardVec n msg).length = n ∧ ∀ x ∈ hardVec n msg, x < 4 :=
  ⟨hardVec_length n msg, hardVec_lt n msg⟩

/-- the final `pauli_to_symplectic(correction, reverse=True)` followed by the swap of the halves
    is the plain conversion -/
theorem mbp_reverse_and_swap_cancel (n : Nat) (c : Vec) (h : c.length = n) :
    finalVector n c = pauliToSymplectic c false :=
  finalVector_eq n c h

/-! ### non-vacuity: the two-qubit code (XX, ZZ) -/

def H2 : Mat := [[1, 1, 0, 0], [0, 0, 1, 1]]

/-- messages that decide "X on qubit 0" in iteration 0 -/
def msgsX0 : Nat → List (Bool × Fin 3) := fun _ => [(false, 0), (true, 0)]

example : symplecticToPauli [[1, 0, 1, 1], [0, 1, 0, 0]] = [[2, 3], [0, 1]] := by decide
example : decode H2 2 3 msgsX0 (measureSyndrome H2 [1, 0, 0, 0]) = (.ok [1, 0, 0, 0], 1) := by rfl
/-- a run that does not converge returns the last hard decision after the whole budget -/
example : decode H2 2 3 msgsX0 [1, 0] = (.ok [1, 0, 0, 0], 3) := by rfl

end Panqec.C05Mbp
