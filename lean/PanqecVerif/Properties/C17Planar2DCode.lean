/-
C17 for `Planar2DCode`, ALL sizes of the supported family (`Lx ≥ 1`, `Ly ≥ 1`, no upper bound):
the distance `code.d` reports is the true code distance, `min Lx Ly`.

The matrices are the ones the generic code model assembles from the hand-written lattice model
`Model/Lattices/Planar2DCode.lean` (tied to `panqec/codes/surface_2d/_planar_2d_code.py` by the
correspondence streams of `harness/lattices/planar2dcode.py`); they form a valid
`[[Lx·Ly + (Lx−1)(Ly−1), 1]]` code for every size (`C01Planar2DCode.valid_code`).

* `reported_distance` — `code.d` (`distance`, the minimum Pauli weight over the rows of
  `logicals_x` and `logicals_z`, as `StabilizerCode.d` computes it) is `min Lx Ly`; the listed
  logical X has weight `Lx`, the listed logical Z weight `Ly` (`weights_listed`).
* `lower_bound` — every non-trivial logical operator has weight `≥ min Lx Ly`.  Packing argument
  (`Proofs/DistLattice.lean`, `Proofs/DistPlanar2DCode.lean`): a non-trivial logical
  anticommutes with `X̄` or `Z̄` (C04); `X̄` (row `y = 0`, `Lx` qubits) has the `Ly` translates
  `y = 2i`, `Z̄` (column `x = 1`, `Ly` qubits) the `Lx` translates `x = 2i + 1`, pairwise
  disjoint; consecutive translates differ by the row of face (resp. column of vertex)
  generators between them, boundary generators included, so every operator commuting with all
  generators anticommutes with each translate exactly when it anticommutes with the line.
* `distance` — `IsDistance n H (min Lx Ly)`; `distance_reported` states it for the reported `d`.
-/
import PanqecVerif.Properties.C01Planar2DCode
import PanqecVerif.Proofs.DistPlanar2DCode
import PanqecVerif.Proofs.Dist

namespace Panqec.C17Planar2DCode
open Panqec.Planar2DCode Panqec.Lat2D

/-- the row of `logicals_x` has Pauli weight `Lx`, the row of `logicals_z` weight `Ly` —
    every `Lx, Ly ≥ 1` -/
theorem weights_listed (Lx Ly : Nat) (hx : 1 ≤ Lx) (hy : 1 ≤ Ly) :
    (lattice Lx Ly).rowsX.map pauliWeight = [Lx] ∧
    (lattice Lx Ly).rowsZ.map pauliWeight = [Ly] :=
  Planar2DCode.weights_listed hx hy

/-- what `code.d` returns — the minimum weight over the listed logical operators — is
    `min Lx Ly`, every `Lx, Ly ≥ 1` -/
theorem reported_distance (Lx Ly : Nat) (hx : 1 ≤ Lx) (hy : 1 ≤ Ly) :
    Panqec.distance (lattice Lx Ly).rowsX (lattice Lx Ly).rowsZ = some (min Lx Ly) :=
  Planar2DCode.reported_distance hx hy

/-- no non-trivial logical operator (commutes with every generator, is not a product of
    generators) of the `Lx × Ly` planar code is lighter than `min Lx Ly` — every `Lx, Ly ≥ 1` -/
theorem lower_bound (Lx Ly : Nat) (hx : 1 ≤ Lx) (hy : 1 ≤ Ly) :
    ∀ v, IsNontrivialLogical (Lx * Ly + (Lx - 1) * (Ly - 1)) (lattice Lx Ly).rowsH v →
      min Lx Ly ≤ pauliWeight v :=
  Planar2DCode.lower_bound hx hy (C01Planar2DCode.valid_code Lx Ly hx hy).2.2.2

/-- THE C17 STATEMENT FOR ALL SIZES (`Lx, Ly ≥ 1`): the code distance of the `Lx × Ly` planar
    code — the minimum weight of a non-trivial logical operator of the assembled parity-check
    matrix — is `min Lx Ly` -/
theorem distance (Lx Ly : Nat) (hx : 1 ≤ Lx) (hy : 1 ≤ Ly) :
    IsDistance (Lx * Ly + (Lx - 1) * (Ly - 1)) (lattice Lx Ly).rowsH (min Lx Ly) :=
  distance_criterion (C01Planar2DCode.valid_code Lx Ly hx hy).2.2.2 (min Lx Ly)
    (exists_listed_of_distance _ _ _ (reported_distance Lx Ly hx hy)) (lower_bound Lx Ly hx hy)

/-- the same, stated for whatever `code.d` reports: the reported distance exists and is the
    true distance -/
theorem distance_reported (Lx Ly : Nat) (hx : 1 ≤ Lx) (hy : 1 ≤ Ly) :
    ∃ d, Panqec.distance (lattice Lx Ly).rowsX (lattice Lx Ly).rowsZ = some d ∧
      IsDistance (Lx * Ly + (Lx - 1) * (Ly - 1)) (lattice Lx Ly).rowsH d :=
  ⟨min Lx Ly, reported_distance Lx Ly hx hy, distance Lx Ly hx hy⟩

/-! ### non-vacuity -/

example : IsDistance 18 (lattice 3 4).rowsH 3 := distance 3 4 (by decide) (by decide)
example : IsDistance 124 (lattice 10 7).rowsH 7 := distance 10 7 (by decide) (by decide)
/-- the smallest member of the family: one qubit, no generator, distance 1 -/
example : IsDistance 1 (lattice 1 1).rowsH 1 := distance 1 1 (by decide) (by decide)
/-- the hypothesis of `lower_bound` is satisfiable: the listed logical X is a non-trivial
    logical operator -/
example : IsNontrivialLogical 8 (lattice 2 3).rowsH ((lattice 2 3).rowsX.getD 0 []) :=
  listedX_nontrivial (C01Planar2DCode.valid_code 2 3 (by decide) (by decide)).2.2.2 (by decide)
example : (lattice 2 3).rowsX.map pauliWeight = [2] ∧ (lattice 2 3).rowsZ.map pauliWeight = [3] :=
  weights_listed 2 3 (by decide) (by decide)

end Panqec.C17Planar2DCode
