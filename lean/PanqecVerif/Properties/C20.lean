/-
C20 — the visualizer backend serves every offered choice with faithful data.

Table theorems are proved by `decide` over `Generated/Gui.lean`, which a translator rewrites
from the current source (menus of `_gui.py`, key structure of `gui-config.json`, colormap,
`allowed_codes`, stabilizer types of every class) on every run — so they are re-proved
against the code as it is now.  Generic theorems hold for every table.
-/
import PanqecVerif.Generated.Gui

namespace Panqec.C20
open Panqec.Gui

/-- Regenerated tables: for every code the menus list, both pictures, the qubit description and
    the description of every stabilizer type of that class exist and are complete (object,
    opacity, params, all colour keys, colour names known to the colormap). -/
theorem gui_tables_complete :
    guiComplete Generated.Gui.codes Generated.Gui.config Generated.Gui.colormap = true := by
  decide

/-- For EVERY set of tables: completeness implies that no lookup the backend performs for an
    offered (code, picture, stabilizer type) raises, and it returns the object with every colour
    resolved through the colormap. -/
theorem complete_lookup_succeeds (codes : List CodeMenu) (cfg : List Entry)
    (colormap : List (String × String)) (h : guiComplete codes cfg colormap = true)
    (c : CodeMenu) (hc : c ∈ codes) (pic : String) (hp : pic ∈ pictures)
    (t : String) (ht : t ∈ c.stabTypes) :
    ∃ obj cols, representation cfg colormap c.cls "stabilizers" pic t = .ok (obj, cols) ∧
      cols.map (·.1) = ["activated", "deactivated"] := by
  unfold guiComplete at h
  have h1 := List.all_eq_true.mp h c hc
  have h2 := List.all_eq_true.mp h1 pic hp
  simp only [Bool.and_eq_true] at h2
  have h3 := List.all_eq_true.mp h2.2 t ht
  unfold representation
  cases hl : lookup cfg c.cls "stabilizers" pic t with
  | none => simp [hl] at h3
  | some e =>
    simp only [hl] at h3 ⊢
    unfold entryComplete at h3
    simp only [Bool.and_eq_true] at h3
    have hk := h3.2
    have hkind : e.kind = "stabilizers" := by
      unfold lookup at hl
      have := List.find?_some hl
      simp only [Bool.and_eq_true, beq_iff_eq] at this
      exact this.1.1.2
    have hreq : requiredColorKeys "stabilizers" = ["activated", "deactivated"] := by decide
    rw [hkind, hreq] at hk
    simp only [List.all_cons, List.all_nil, Bool.and_true, Bool.and_eq_true] at hk
    rw [hreq]
    obtain ⟨ha, hd⟩ := hk
    cases hfa : e.colors.find? (·.1 == "activated") with
    | none => simp [hfa] at ha
    | some pa =>
      cases hfd : e.colors.find? (·.1 == "deactivated") with
      | none => simp [hfd] at hd
      | some pd =>
        simp only [hfa] at ha
        simp only [hfd] at hd
        cases hra : resolve colormap pa.2 with
        | none => simp [hra] at ha
        | some xa =>
          cases hrd : resolve colormap pd.2 with
          | none => simp [hrd] at hd
          | some xd =>
            refine ⟨e.object, [("activated", xa), ("deactivated", xd)], ?_, rfl⟩
            simp [List.mapM_cons, List.mapM_nil, hfa, hfd, hra, hrd]

/-- The decoders offered for a code are exactly those declaring support for it
    (`allowed_codes is None` or containing the class), for every decoder table. -/
theorem offered_iff_allowed (decs : List DecoderMenu) (cls name : String) :
    name ∈ offeredDecoders decs cls ↔
      ∃ d ∈ decs, d.menuName = name ∧ (d.allowed = none ∨ ∃ l, d.allowed = some l ∧ cls ∈ l) := by
  unfold offeredDecoders
  simp only [List.mem_map, List.mem_filter]
  constructor
  · rintro ⟨d, ⟨hd, hf⟩, rfl⟩
    refine ⟨d, hd, rfl, ?_⟩
    cases ha : d.allowed with
    | none => exact Or.inl rfl
    | some l =>
      right
      refine ⟨l, rfl, ?_⟩
      simp only [ha] at hf
      exact List.contains_iff_mem.mp hf
  · rintro ⟨d, hd, rfl, h⟩
    refine ⟨d, ⟨hd, ?_⟩, rfl⟩
    rcases h with h | ⟨l, hl, hm⟩
    · simp [h]
    · simp only [hl]
      exact List.contains_iff_mem.mpr hm

/-- the regenerated decoder table offers, for each menu code, exactly the decoders whose
    `allowed_codes` admit it (instance of the above on the current source) -/
theorem offered_decoders_table :
    Generated.Gui.codes.all (fun c =>
      (offeredDecoders Generated.Gui.decoders c.cls).all fun name =>
        Generated.Gui.decoders.any fun d => d.menuName == name &&
          (match d.allowed with | none => true | some l => l.contains c.cls)) = true := by
  decide

/-- `/code-data` returns one description per coordinate, in index order -/
theorem one_description_per_coordinate {α β} (coords : List α) (describe : α → β) :
    (describeAll coords describe).length = coords.length ∧
    ∀ i (h : i < coords.length), (describeAll coords describe)[i]? = some (describe coords[i]) := by
  unfold describeAll
  constructor
  · simp
  · intro i h; simp [h]

/-! non-vacuity -/
example : Generated.Gui.codes.length = 16 := by decide
example : offeredDecoders Generated.Gui.decoders "Toric2DCode" ≠ [] := by decide

end Panqec.C20
