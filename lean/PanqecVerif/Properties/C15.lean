/-
C15 — analysis aggregates are conserved however results are split.

Property theorems only; helper lemmas are in `Proofs/Analysis.lean` (lists, core Lean) and
`Proofs/AnalysisRates.lean` (rates over ℚ, word rate over ℝ).  Every statement is for all
lists of containers / entries / trials (no size bound), all k.

Vocabulary: a `Trial` is (effective-error row, success, codespace); an `Entry` is one results
dict (three columns); `Data` is the parsed JSON of a file (dict or nested lists, which is
also what `merge-results` writes); `aggregate` is `Analysis.aggregate` (group by the input
key, sum / concatenate); `pool ms` is the list of all trials stored in the entries `ms`.
-/
import PanqecVerif.Proofs.AnalysisRates

namespace Panqec.C15

open Panqec Panqec.An

/-! ## containers: files, nested lists, merged files, order of files -/

/-- `merge-results` does not change the entries that are read -/
theorem merge_results_preserves_entries (files : List Data) :
    (mergeResults files).flatten = flattenList files := flatten_list files

/-- reading several files one after the other = reading their concatenation; a list nested in
    a list reads as its members (arbitrary nesting depth by iteration) -/
theorem reading_is_concatenation (a b : List Data) (l : List Data) :
    flattenList (a ++ b) = flattenList a ++ flattenList b ∧
    flattenList (Data.list l :: b) = flattenList l ++ flattenList b := by
  refine ⟨flattenList_append a b, ?_⟩
  simp [flattenList, Data.flatten]

/-- any order of the files (and of the containers inside a merged file) gives, for every key,
    a permutation of the same pooled trials, and the same set of keys -/
theorem file_order_irrelevant {files₁ files₂ : List Data} (h : files₁.Perm files₂) (κ : Key) :
    (pool (groupOf (flattenList files₁) κ)).Perm (pool (groupOf (flattenList files₂) κ)) ∧
    (κ ∈ keysOf (flattenList files₁) ↔ κ ∈ keysOf (flattenList files₂)) :=
  ⟨pool_perm (groupOf_perm (flattenList_perm h) κ), mem_keysOf_perm (flattenList_perm h) κ⟩

/-- splitting the entries of a key over two file sets pools their trials -/
theorem pool_of_split (es₁ es₂ : List Entry) (κ : Key) :
    pool (groupOf (es₁ ++ es₂) κ) = pool (groupOf es₁ κ) ++ pool (groupOf es₂ κ) := by
  rw [groupOf_append, pool_append]

/-! ## the rows of the results table -/

/-- `aggregate` reports exactly one row per key that occurs, and that row is the group of all
    entries with this key -/
theorem aggregate_rows {es : List Entry} {gs : List Group} (h : aggregate es = .ok gs) :
    (∀ g ∈ gs, ∃ κ ∈ keysOf es, mkGroup κ (groupOf es κ) = .ok g) ∧
    (∀ κ ∈ keysOf es, ∃ g ∈ gs, mkGroup κ (groupOf es κ) = .ok g) ∧
    (∀ κ, κ ∈ keysOf es ↔ ∃ e ∈ es, e.key = κ) :=
  ⟨(aggregate_spec h).1, (aggregate_spec h).2, fun _ => mem_keysOf⟩

/-- `aggregate` succeeds whenever, per key, all entries are non-empty with rows of one width -/
theorem aggregate_succeeds (es : List Entry)
    (h : ∀ κ, ∃ W, ∀ e ∈ groupOf es κ, e.HasWidth W) : ∃ gs, aggregate es = .ok gs :=
  mapM_except_total _ _ fun κ _ =>
    let ⟨_, hW⟩ := h κ
    mkGroup_ok_of_width hW

/-- the counts of a row are the counts of the pooled trials: `n_trials` is their number,
    `n_fail` the number of unsuccessful ones, `n_trials_X = n_trials_Z` is k times the number of
    in-codespace trials, `n_results` (denominator of the single-qubit rates) their number -/
theorem reported_counts_are_pooled_counts {κ : Key} {ms : List Entry} {g : Group}
    (h : mkGroup κ ms = .ok g) (wf : ∀ e ∈ ms, e.WF) :
    g.nTrials = (pool ms).length ∧
    g.nFail = ((pool ms).countP (fun t => !t.su) : Int) ∧
    g.nTrialsSector = g.k * (pool ms).countP (·.cs) ∧
    g.nResults = (pool ms).length ∧
    g.wall = (ms.map (·.wall)).sum := by
  have hp := mkGroup_isPool h wf
  exact ⟨hp.nTrials, hp.nFail, hp.nTrialsSector, hp.nResults, (mkGroup_key h).2.2.2⟩

/-- `n_fail_X` / `n_fail_Z` are the flagged logical X / Z bits (first / last `w/2` columns)
    summed over the in-codespace trials; with rows of width `2k` the blocks are the first and
    the last `k` bits -/
theorem sector_counts_are_flagged_bits {κ : Key} {ms : List Entry} {g : Group} {k : Nat}
    (h : mkGroup κ ms = .ok g) (wf : ∀ e ∈ ms, e.WF) (hne : pool ms ≠ [])
    (hw : ∀ e ∈ ms, e.HasWidth (2 * k)) (sectorX : Bool) :
    g.countFails sectorX = .ok
      ((((pool ms).filter (·.cs)).map fun t =>
        (if sectorX then t.row.take k else t.row.drop k).sum).sum) := by
  have hs := mkGroup_shape_of_width h wf hw
  rw [if_neg hne] at hs
  have := (mkGroup_isPool h wf).countFails hs sectorX
  rw [this]
  simp [specSectorFails]

/-- single-logical-qubit rates: for every logical qubit `i < k` and each of the four events
    (any, X, Y, Z) the count is the number of pooled trials whose bits `(x_i, z_i)` show that
    event; on binary rows the X, Y, Z counts add up to the `any` count -/
theorem single_qubit_counts {κ : Key} {ms : List Entry} {g : Group} {k : Nat}
    (h : mkGroup κ ms = .ok g) (wf : ∀ e ∈ ms, e.WF) (hne : pool ms ≠ [])
    (hw : ∀ e ∈ ms, e.HasWidth (2 * k)) (hk : g.k = k) (hk0 : 0 < k) :
    g.singleCounts = .ok (some ((List.range k).map fun i =>
      (List.range 4).map fun t => specPattern k i t (pool ms))) ∧
    ((∀ t ∈ pool ms, ∀ x ∈ t.row, x < 2) → ∀ i,
      specPattern k i 0 (pool ms) =
        specPattern k i 1 (pool ms) + specPattern k i 2 (pool ms) + specPattern k i 3 (pool ms)) := by
  have hs := mkGroup_shape_of_width h wf hw
  rw [if_neg hne] at hs
  have := (mkGroup_isPool h wf).singleCounts hs (by omega) (by rw [hk]; omega)
  rw [this, hk]
  refine ⟨by simp, fun hbin i => specPattern_partition k i _ hbin⟩

/-- `p_est = 1 - mean(success)` is `n_fail / n_trials`, a number in [0,1]; a pool without
    trials has no estimate (NaN) -/
theorem p_est_is_fail_fraction {κ : Key} {ms : List Entry} {g : Group}
    (h : mkGroup κ ms = .ok g) (wf : ∀ e ∈ ms, e.WF) :
    (pool ms ≠ [] → ∃ p : Rat, g.pEst = some p ∧ p = (g.nFail : Rat) / (g.nTrials : Rat) ∧
      0 ≤ p ∧ p ≤ 1) ∧
    (pool ms = [] → g.pEst = none) := by
  have hp := mkGroup_isPool h wf
  constructor
  · intro hne
    refine ⟨_, hp.pEst hne, ?_, ?_⟩
    · rw [hp.nFail, hp.nTrials]; simp
    · exact rate_mem_unit _ _ (specNFail_le_length _) (List.length_pos_iff.mpr hne)
  · intro he
    rw [he] at hp
    exact hp.pEst_empty

/-- the standard error is `sqrt` of `p (1-p) / (n+1)`; the radicand lies in `[0, 1/(4(n+1))]` -/
theorem se_radicand (p : Rat) (n : Nat) (h0 : 0 ≤ p) (h1 : p ≤ 1) :
    seRad p n = p * (1 - p) / ((n : Rat) + 1) ∧ 0 ≤ seRad p n ∧ seRad p n ≤ 1 / (4 * ((n : Rat) + 1)) :=
  ⟨rfl, seRad_nonneg p n h0 h1, seRad_le_quarter p n⟩

/-! ## conservation -/

/-- MAIN THEOREM.  Two ways of storing the same multiset of trials of one key (any partition
    into entries / files / containers, any order of entries and of trials) give the same row:
    pooled `n_trials`, `n_fail`, `p_est`, sector trial and fail counts, single-qubit counts. -/
theorem pooled_counts_invariant {κ : Key} {ms₁ ms₂ : List Entry} {g₁ g₂ : Group}
    (h₁ : mkGroup κ ms₁ = .ok g₁) (h₂ : mkGroup κ ms₂ = .ok g₂)
    (wf₁ : ∀ e ∈ ms₁, e.WF) (wf₂ : ∀ e ∈ ms₂, e.WF)
    (hperm : (pool ms₁).Perm (pool ms₂)) (hk : g₁.k = g₂.k) (hs : g₁.shape = g₂.shape) :
    g₁.nTrials = g₂.nTrials ∧ g₁.nFail = g₂.nFail ∧ g₁.pEst = g₂.pEst ∧
    g₁.nTrialsSector = g₂.nTrialsSector ∧
    g₁.countFails true = g₂.countFails true ∧ g₁.countFails false = g₂.countFails false ∧
    g₁.nResults = g₂.nResults ∧ g₁.singleCounts = g₂.singleCounts := by
  have p₁ := mkGroup_isPool h₁ wf₁
  have p₂ := mkGroup_isPool h₂ wf₂
  have hlen : (pool ms₁).length = (pool ms₂).length := hperm.length_eq
  have hnf : specNFail (pool ms₁) = specNFail (pool ms₂) := specNFail_perm hperm
  have hnT : g₁.nTrials = g₂.nTrials := by rw [p₁.nTrials, p₂.nTrials, hlen]
  have hnF : g₁.nFail = g₂.nFail := by rw [p₁.nFail, p₂.nFail, hnf]
  have hpe : g₁.pEst = g₂.pEst := by
    by_cases hne : pool ms₁ = []
    · have hne₂ : pool ms₂ = [] := by
        apply List.eq_nil_of_length_eq_zero; rw [← hlen, hne]; rfl
      have e₁ := p₁; rw [hne] at e₁
      have e₂ := p₂; rw [hne₂] at e₂
      rw [e₁.pEst_empty, e₂.pEst_empty]
    · have hne₂ : pool ms₂ ≠ [] := by
        intro h0; apply hne; apply List.eq_nil_of_length_eq_zero; rw [hlen, h0]; rfl
      rw [p₁.pEst hne, p₂.pEst hne₂, hnf, hlen]
  have hcf : ∀ b, g₁.countFails b = g₂.countFails b := by
    intro b
    cases hsh : g₁.shape with
    | none =>
      have hsh₂ : g₂.shape = none := by rw [← hs, hsh]
      simp [Group.countFails, hsh, hsh₂]
    | some w =>
      have hsh₂ : g₂.shape = some w := by rw [← hs, hsh]
      rw [p₁.countFails hsh b, p₂.countFails hsh₂ b, specSectorFails_perm _ _ hperm]
  refine ⟨hnT, hnF, hpe, ?_, hcf true, hcf false, ?_, ?_⟩
  · rw [p₁.nTrialsSector, p₂.nTrialsSector, hk, specCodespace_perm hperm]
  · rw [p₁.nResults, p₂.nResults, hlen]
  · unfold Group.singleCounts
    rw [← hs, ← hk]
    cases g₁.shape with
    | none => rfl
    | some w =>
      simp only [p₁.patternCount, p₂.patternCount, fun kq i t => specPattern_perm kq i t hperm]

/-- the same with the side conditions discharged from the stored data: all entries of the key
    are well-formed results of one code (`k` logical qubits, rows of width `2k`); entries WITHOUT
    TRIALS are allowed on both sides -/
theorem pooled_counts_invariant_of_code {κ : Key} {ms₁ ms₂ : List Entry} {g₁ g₂ : Group} {k : Nat}
    (h₁ : mkGroup κ ms₁ = .ok g₁) (h₂ : mkGroup κ ms₂ = .ok g₂)
    (wf₁ : ∀ e ∈ ms₁, e.WF ∧ e.HasWidth (2 * k) ∧ e.k = k)
    (wf₂ : ∀ e ∈ ms₂, e.WF ∧ e.HasWidth (2 * k) ∧ e.k = k)
    (hne₁ : ms₁ ≠ []) (hne₂ : ms₂ ≠ [])
    (hperm : (pool ms₁).Perm (pool ms₂)) :
    g₁.nTrials = g₂.nTrials ∧ g₁.nFail = g₂.nFail ∧ g₁.pEst = g₂.pEst ∧
    g₁.nTrialsSector = g₂.nTrialsSector ∧
    g₁.countFails true = g₂.countFails true ∧ g₁.countFails false = g₂.countFails false ∧
    g₁.nResults = g₂.nResults ∧ g₁.singleCounts = g₂.singleCounts := by
  have hk : ∀ {ms : List Entry} {g : Group}, mkGroup κ ms = .ok g → ms ≠ [] →
      (∀ e ∈ ms, e.WF ∧ e.HasWidth (2 * k) ∧ e.k = k) → g.k = k := by
    intro ms g hg hne hall
    rw [(mkGroup_key hg).2.1]
    cases ms with
    | nil => exact absurd rfl hne
    | cons e rest => simpa using (hall e (by simp)).2.2
  apply pooled_counts_invariant h₁ h₂ (fun e he => (wf₁ e he).1) (fun e he => (wf₂ e he).1) hperm
  · rw [hk h₁ hne₁ wf₁, hk h₂ hne₂ wf₂]
  · rw [mkGroup_shape_of_width h₁ (fun e he => (wf₁ e he).1) (fun e he => (wf₁ e he).2.1),
        mkGroup_shape_of_width h₂ (fun e he => (wf₂ e he).1) (fun e he => (wf₂ e he).2.1)]
    have hiff : pool ms₁ = [] ↔ pool ms₂ = [] := by
      constructor
      · intro h0; rw [h0] at hperm; exact hperm.symm.eq_nil
      · intro h0; rw [h0] at hperm; exact hperm.eq_nil
    by_cases h0 : pool ms₁ = []
    · rw [if_pos h0, if_pos (hiff.mp h0)]
    · rw [if_neg h0, if_neg (fun h' => h0 (hiff.mpr h'))]

/-- at the level of whole file sets: if two sets of files hold, for the key `κ`, well-formed
    entries whose pooled trials are permutations of each other (same code, hence same `k` and row
    width `2k`; any number of zero-trial entries), the rows reported for `κ` coincide in every count -/
theorem analysis_conserved_under_repartition {files₁ files₂ : List Data} {κ : Key} {g₁ g₂ : Group}
    {k : Nat}
    (h₁ : mkGroup κ (groupOf (flattenList files₁) κ) = .ok g₁)
    (h₂ : mkGroup κ (groupOf (flattenList files₂) κ) = .ok g₂)
    (wf₁ : ∀ e ∈ groupOf (flattenList files₁) κ, e.WF ∧ e.HasWidth (2 * k) ∧ e.k = k)
    (wf₂ : ∀ e ∈ groupOf (flattenList files₂) κ, e.WF ∧ e.HasWidth (2 * k) ∧ e.k = k)
    (hne₁ : groupOf (flattenList files₁) κ ≠ []) (hne₂ : groupOf (flattenList files₂) κ ≠ [])
    (hperm : (pool (groupOf (flattenList files₁) κ)).Perm (pool (groupOf (flattenList files₂) κ))) :
    g₁.nTrials = g₂.nTrials ∧ g₁.nFail = g₂.nFail ∧ g₁.pEst = g₂.pEst ∧
    g₁.nTrialsSector = g₂.nTrialsSector ∧
    g₁.countFails true = g₂.countFails true ∧ g₁.countFails false = g₂.countFails false ∧
    g₁.nResults = g₂.nResults ∧ g₁.singleCounts = g₂.singleCounts :=
  pooled_counts_invariant_of_code h₁ h₂ wf₁ wf₂ hne₁ hne₂ hperm

/-- parts with zero trials (a run that saved before its first trial) change nothing: pooling the
    entries `ms` together with any zero-trial entries `extra`, in any interleaving `ms'`, succeeds
    and reports the row of `ms` -/
theorem zero_trial_parts_change_nothing {κ : Key} {ms extra ms' : List Entry} {g : Group} {k : Nat}
    (h : mkGroup κ ms = .ok g)
    (wf : ∀ e ∈ ms, e.WF ∧ e.HasWidth (2 * k) ∧ e.k = k) (hne : ms ≠ [])
    (hextra : ∀ e ∈ extra, e.ee = [] ∧ e.success = [] ∧ e.codespace = [] ∧ e.k = k)
    (hperm : ms'.Perm (ms ++ extra)) :
    ∃ g', mkGroup κ ms' = .ok g' ∧
      g'.nTrials = g.nTrials ∧ g'.nFail = g.nFail ∧ g'.pEst = g.pEst ∧
      g'.nTrialsSector = g.nTrialsSector ∧
      g'.countFails true = g.countFails true ∧ g'.countFails false = g.countFails false ∧
      g'.nResults = g.nResults ∧ g'.singleCounts = g.singleCounts := by
  have hx : ∀ e ∈ extra, e.WF ∧ e.HasWidth (2 * k) ∧ e.k = k := by
    intro e he
    obtain ⟨h1, h2, h3, h4⟩ := hextra e he
    exact ⟨by simp [Entry.WF, h1, h2, h3], by simp [Entry.HasWidth, h1], h4⟩
  have hall : ∀ e ∈ ms', e.WF ∧ e.HasWidth (2 * k) ∧ e.k = k := by
    intro e he
    rcases List.mem_append.mp (hperm.mem_iff.mp he) with h1 | h1
    · exact wf e h1
    · exact hx e h1
  obtain ⟨g', hg'⟩ := mkGroup_ok_of_width (κ := κ) (fun e he => (hall e he).2.1)
  have hpx : pool extra = [] := by
    unfold pool
    rw [List.flatMap_eq_nil_iff]
    intro e he
    obtain ⟨h1, _, _, _⟩ := hextra e he
    simp [Entry.trials, h1, zip3]
  have hpool : (pool ms').Perm (pool ms) := by
    have := pool_perm hperm
    rwa [pool_append, hpx, List.append_nil] at this
  have hne' : ms' ≠ [] := by
    intro h0
    rw [h0] at hperm
    have := hperm.symm.eq_nil
    simp at this
    exact hne this.1
  exact ⟨g', hg', pooled_counts_invariant_of_code hg' h hall wf hne' hne hpool⟩

/-- the wall time of a row is the sum over its entries, in any order -/
theorem wall_time_order_irrelevant {κ : Key} {ms₁ ms₂ : List Entry} {g₁ g₂ : Group}
    (h₁ : mkGroup κ ms₁ = .ok g₁) (h₂ : mkGroup κ ms₂ = .ok g₂) (hperm : ms₁.Perm ms₂) :
    g₁.wall = g₂.wall := by
  rw [(mkGroup_key h₁).2.2.2, (mkGroup_key h₂).2.2.2, sum_wall_perm hperm]

/-- counts are additive over a split of the pooled trials (`count (l₁ ++ l₂) = count l₁ + count l₂`) -/
theorem counts_additive (P Q : List Trial) (kq i t : Nat) (b : Bool) :
    (P ++ Q).length = P.length + Q.length ∧
    specNFail (P ++ Q) = specNFail P + specNFail Q ∧
    specCodespace (P ++ Q) = specCodespace P + specCodespace Q ∧
    specSectorFails kq b (P ++ Q) = specSectorFails kq b P + specSectorFails kq b Q ∧
    specPattern kq i t (P ++ Q) = specPattern kq i t P + specPattern kq i t Q :=
  ⟨List.length_append, specNFail_append P Q, specCodespace_append P Q,
   specSectorFails_append kq b P Q, specPattern_append kq i t P Q⟩

/-! ## word error rate (over ℝ; the code evaluates the same expressions in floating point) -/

/-- `p_word = 1 - (1-p)^(1/k)` satisfies `(1 - p_word)^k = 1 - p` -/
theorem word_rate_relation (p : ℝ) (k : ℕ) (hk : 0 < k) (hp : p ≤ 1) :
    (1 - wordRate p k) ^ k = 1 - p := wordRate_relation p k hk hp

/-- `p_word_se = (1/k)(1-p)^(1/k-1) · p_se` is the first-order propagation of `p_se`: the
    factor is the derivative of `p ↦ p_word` -/
theorem word_rate_se_is_first_order_propagation (p se : ℝ) (k : ℕ) (hp : p < 1) :
    ∃ d : ℝ, HasDerivAt (fun q => wordRate q k) d p ∧ wordSe p se k = d * se :=
  ⟨_, wordRate_hasDerivAt p k hp, rfl⟩

/-- root-free form of the same fact (the relation the model driver tests on the reported
    floats): `p_word_se · k · (1 - p_word)^(k-1) = p_se` -/
theorem word_rate_se_rootfree (p se : ℝ) (k : ℕ) (hk : 0 < k) (hp : p < 1) :
    wordSe p se k * k * (1 - wordRate p k) ^ (k - 1) = se := wordSe_rootfree p se k hk hp

/-! ## what the verdict `ok` of the model driver means for a float column -/

theorem float_verdicts_sound {ε δ f r p w : Rat} {k : ℕ} (hε0 : 0 ≤ ε) (hε1 : ε ≤ 1) :
    (within ε δ f r = true → |f - r| ≤ ε * |r| + δ) ∧
    (sqrtWithin ε f r = true → (f : ℝ) * (1 - ε) ≤ Real.sqrt r ∧ Real.sqrt r ≤ (f : ℝ) * (1 + ε)) ∧
    (0 < k → p ≤ 1 → wordWithin ε δ k p w = true →
      ((w * (1 - ε) - δ : Rat) : ℝ) ≤ wordRate p k ∧ wordRate p k ≤ ((w * (1 + ε) + δ : Rat) : ℝ)) :=
  ⟨within_sound, sqrtWithin_sound hε0 hε1, fun hk hp h => wordWithin_sound hk hp h⟩

/-! ## regression: partitions with an empty part (fixed in /repo by ad5e045)

A results entry without trials has a 1-dimensional `effective_error`.  Before ad5e045 `aggregate`
called `np.concatenate` on all members of a group, which refuses to pool it with the 2-dimensional
arrays of the other entries, and `Analysis` raised (`oldShapesAgree`).  `concatenate_nonempty` now
skips such entries; the same two entries are replayed on the implementation by the oracle (class
`empty-part`). -/

def witnessNonEmpty : Entry := Entry.ofTrials 0 (1/10) 1 (1/2) [⟨[1, 0], false, true⟩]
def witnessEmpty : Entry := Entry.ofTrials 0 (1/10) 1 0 []

/-- the witness of the former defect is now pooled, in either order, with the counts of the
    non-empty part -/
theorem empty_part_is_pooled :
    witnessNonEmpty.WF ∧ witnessEmpty.WF ∧ witnessNonEmpty.key = witnessEmpty.key ∧
    pool [witnessNonEmpty, witnessEmpty] = pool [witnessNonEmpty] ∧
    (aggregate [witnessNonEmpty]).toOption.map (fun gs => gs.map fun g => (g.nTrials, g.nFail))
      = some [(1, 1)] ∧
    (aggregate [witnessNonEmpty, witnessEmpty]).toOption.map
      (fun gs => gs.map fun g => (g.nTrials, g.nFail, g.countFails true, g.shape)) = some [(1, 1, .ok 1, some 2)] ∧
    (aggregate [witnessEmpty, witnessNonEmpty]).toOption.map
      (fun gs => gs.map fun g => (g.nTrials, g.nFail, g.countFails true, g.shape)) = some [(1, 1, .ok 1, some 2)] := by
  refine ⟨Entry.ofTrials_wf _ _ _ _ _, Entry.ofTrials_wf _ _ _ _ _, rfl, rfl, ?_, ?_, ?_⟩ <;>
    decide +kernel

/-- regression example: the behaviour before ad5e045 rejected exactly this input -/
theorem regression_empty_part_broke_old_aggregate :
    oldAggregateOk [witnessNonEmpty] = true ∧
    oldAggregateOk [witnessNonEmpty, witnessEmpty] = false ∧
    oldAggregateOk [witnessEmpty, witnessNonEmpty] = false := by
  decide +kernel

/-! ## non-vacuity -/

/-- two different splits of the same three trials (k = 1): `[t₁,t₂] ++ [t₃]` in two entries vs
    `[t₃,t₁,t₂]` in one entry -/
def t₁ : Trial := ⟨[1, 0], false, true⟩
def t₂ : Trial := ⟨[0, 0], true, true⟩
def t₃ : Trial := ⟨[0, 1], false, false⟩
def splitA : List Entry := [Entry.ofTrials 0 (1/10) 1 (1/2) [t₁, t₂], Entry.ofTrials 0 (1/10) 1 (1/4) [t₃]]
def splitB : List Entry := [Entry.ofTrials 0 (1/10) 1 (3/4) [t₃, t₁, t₂]]

example : (pool splitA).Perm (pool splitB) := by decide
example : ∀ e ∈ splitA, e.WF ∧ e.HasWidth 2 := by
  intro e he
  simp only [splitA, List.mem_cons, List.not_mem_nil, or_false] at he
  rcases he with rfl | rfl <;> exact ⟨Entry.ofTrials_wf _ _ _ _ _, by unfold Entry.HasWidth; decide⟩
example : ∃ g, mkGroup (0, 100000) splitA = .ok g ∧ g.nTrials = 3 ∧ g.nFail = 2 ∧
    g.countFails true = .ok 1 ∧ g.countFails false = .ok 0 ∧ g.nTrialsSector = 2 :=
  ⟨_, rfl, by decide +kernel, by decide +kernel, by decide +kernel, by decide +kernel, by decide +kernel⟩
example : rintHalfEven ((1 / 10 : Rat) * 1000000) = 100000 := by decide +kernel

end Panqec.C15
