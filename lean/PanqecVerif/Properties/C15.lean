import PanqecVerif.Model.Analysis
namespace Panqec.C15
theorem stub : True := trivial
end Panqec.C15
