/-
C01 for `Color666PlanarCode`, ALL sizes of the supported family (`Lx ≥ 1`, no upper bound; `Ly` is
ignored by the class): the hand-written lattice model `Model/Lattices/Color666PlanarCode.lean`
(tied to `panqec/codes/color_2d/_color_666_planar_code.py` by the correspondence streams of
`harness/lattices/color666planarcode.py`) is a well-formed coordinate system — in particular the
qubit list, which the class DERIVES from the stabilizer supports, is duplicate-free and disjoint
from the stabilizer locations (the C02 clause, for every size) — whose stabilizers commute (any two
faces share an even number of qubits; every face keeps an even number of corners inside the
triangle), whose logicals commute with the stabilizers and anticommute with each other (odd
weight `2Lx + 1`); `n = 3Lx² + 3Lx + 1`, `k = 1`, `n_stabilizers = 3Lx(Lx+1) = n − k`; the class
has no deformation (`get_deformation` returns a `NotImplementedError` instance at every input).

Rank clause, for all sizes: the generators at ALL stabilizer locations are independent
(`generators_independent`, triangular single-qubit probes) and there are exactly `n − k` of them
(`generators_count`).  `valid_code` puts everything together through the generic bridges
`Proofs/OpComm.lean` and `Proofs/Lat2DRankBridge.lean`: the matrices that `stabilizer_matrix`,
`logicals_x`, `logicals_z` of the generic code model (`Model/Code.lean`, C02) assemble from this
lattice model form a valid `[[3Lx²+3Lx+1, 1]]` stabilizer code (`ValidCodeL`: all four clauses of
C01, rank included) for EVERY size of the family.

The family of the rank clause is the whole list `(lattice Lx Ly).stabs`; the driver op `rankfamily` prints it
and the stream `lat-Color666PlanarCode-rank-family` evaluates it on the IMPLEMENTATION's parity-check matrix
on every run (members `n − k`, all distinct stabilizer locations, GF(2) rank `n − k`).
-/
import PanqecVerif.Proofs.Lat2DRankBridge
import PanqecVerif.Proofs.LatColor666PlanarCodeRank

namespace Panqec.C01Color666PlanarCode
open Panqec.Color666PlanarCode Panqec.Lat2D Panqec.Color

/-- coordinates distinct and disjoint (the qubit list is derived from the stabilizers: first
    occurrences only); every stabilizer and logical is a dict (distinct keys) supported on qubits
    with letters ≠ I; stabilizers are non-empty — every `Lx ≥ 1`, any `Ly` -/
theorem wf (Lx Ly : Nat) (hx : 1 ≤ Lx) : (lattice Lx Ly).WF :=
  wf_all hx

/-- all pairs of stabilizers commute (two faces share 0, 2, 4 or 6 qubits), the logicals commute
    with every stabilizer, `opAntiCount (X_0, Z_0) = 2Lx + 1` is odd — every `Lx ≥ 1` -/
theorem commPair (Lx Ly : Nat) (hx : 1 ≤ Lx) : (lattice Lx Ly).CommPair :=
  commPair_all hx

/-- `n = 3Lx² + 3Lx + 1` (every `Lx ≥ 1`): the derived qubit list has exactly the sites of the
    closed form `isQubit_rule`, counted column by column -/
theorem n_formula (Lx Ly : Nat) (hx : 1 ≤ Lx) :
    (lattice Lx Ly).toCodeData.n = 3 * Lx * Lx + 3 * Lx + 1 := by
  show (qubits Lx Ly).length = _
  rw [length_qubits hx, Nat.mul_add]; omega

/-- `k = 1` (every size) -/
theorem k_value (Lx Ly : Nat) : (lattice Lx Ly).toCodeData.k = 1 := rfl

/-- `n_stabilizers = 3Lx(Lx+1)` (every size): an X and a Z generator on each of the
    `3Lx(Lx+1)/2` faces -/
theorem n_stabilizers (Lx Ly : Nat) : (lattice Lx Ly).stabs.length = 3 * Lx * (Lx + 1) :=
  length_stabs Lx Ly

/-- `L_y` is ignored: every getter of the model depends on `Lx` only -/
theorem Ly_ignored (Lx Ly Ly' : Nat) :
    (lattice Lx Ly).qubits = (lattice Lx Ly').qubits ∧ (lattice Lx Ly).stabs = (lattice Lx Ly').stabs ∧
    (lattice Lx Ly).getStab = (lattice Lx Ly').getStab ∧ (lattice Lx Ly).logX = (lattice Lx Ly').logX ∧
    (lattice Lx Ly).logZ = (lattice Lx Ly').logZ :=
  ⟨rfl, rfl, rfl, rfl, rfl⟩

/-- rank clause, operator level: the generators at ALL stabilizer locations are independent —
    every non-empty duplicate-free sub-family `T` has a Pauli operator `d` on the qubits
    anticommuting with an odd number of members of `T` (so no non-trivial product of generators
    is trivial) — every `Lx ≥ 1` -/
theorem generators_independent (Lx Ly : Nat) (hx : 1 ≤ Lx) :
    IndepGenerators (lattice Lx Ly) (lattice Lx Ly).stabs :=
  indep_all hx

/-- there are exactly `n − k` generators (`Lx ≥ 1`) -/
theorem generators_count (Lx Ly : Nat) (hx : 1 ≤ Lx) :
    (lattice Lx Ly).stabs.length + (lattice Lx Ly).toCodeData.k = (lattice Lx Ly).toCodeData.n :=
  count_all hx

/-- THE C01 STATEMENT FOR ALL SIZES (`Lx ≥ 1`, any `Ly`): `stabilizer_matrix`, `logicals_x`,
    `logicals_z` of the generic code model, applied to this lattice model, return (no `KeyError`)
    matrices that form a valid `[[n, k]]` stabilizer code: generators pairwise commute, logicals
    commute with the generators, `ω(X_0, Z_0) = 1`, `ω(X_0, X_0) = ω(Z_0, Z_0) = 0`, and the
    generators have GF(2) rank `n − k` -/
theorem valid_code (Lx Ly : Nat) (hx : 1 ≤ Lx) :
    stabilizerMatrix (lattice Lx Ly).toCodeData = some (lattice Lx Ly).rowsH ∧
    logicalsX (lattice Lx Ly).toCodeData = some (lattice Lx Ly).rowsX ∧
    logicalsZ (lattice Lx Ly).toCodeData = some (lattice Lx Ly).rowsZ ∧
    ValidCodeL (3 * Lx * Lx + 3 * Lx + 1) 1
      (lattice Lx Ly).rowsH (lattice Lx Ly).rowsX (lattice Lx Ly).rowsZ := by
  have h := validCode_of_lattice (lattice Lx Ly) (wf Lx Ly hx) (commPair Lx Ly hx)
    (lattice Lx Ly).stabs (List.Sublist.refl _) (generators_independent Lx Ly hx)
    (generators_count Lx Ly hx)
  rw [n_formula Lx Ly hx, k_value] at h
  exact h

/-- `is_stabilizer` in closed form: `(x, y, p)` with `p ∈ {0, 1}` (X / Z generator) and `(x, y)` a
    face centre: `x ≡ 2 (mod 6), y ≡ 0 (mod 4)` or `x ≡ 5 (mod 6), y ≡ 2 (mod 4)`, inside
    `0 ≤ y < min(2x+1, 12Lx−2x+3)` -/
theorem isStabilizer_rule (Lx Ly : Nat) (x y p : Int) :
    [x, y, p] ∈ (lattice Lx Ly).stabs ↔
      ((2 ≤ x ∧ 0 ≤ y ∧ y < 2 * x + 1 ∧ y < 12 * (Lx : Int) - 2 * x + 3 ∧
        ((x % 6 = 2 ∧ y % 4 = 0) ∨ (x % 6 = 5 ∧ y % 4 = 2))) ∧ (p = 0 ∨ p = 1)) :=
  mem_stabs' (L' := Ly)

/-- `is_qubit` in closed form — the DERIVED qubit list consists exactly of the vertices of the
    hexagonal tiling inside the triangle `0 ≤ y ≤ min(2x+1, 12Lx−2x+3)`, `x ≥ 0` -/
theorem isQubit_rule (Lx Ly : Nat) (hx : 1 ≤ Lx) (x y : Int) :
    isQubit Lx Ly [x, y] = true ↔
      ((0 ≤ x ∧ 0 ≤ y ∧ y ≤ 2 * x + 1 ∧ y ≤ 12 * (Lx : Int) - 2 * x + 3) ∧
        (((x % 6 = 0 ∨ x % 6 = 4) ∧ y % 4 = 0) ∨ ((x % 6 = 1 ∨ x % 6 = 3) ∧ y % 4 = 2))) :=
  isQubit_iff hx

/-- every stabilizer is the dict of those of the six corners of its hexagon (delta order) that are
    inside the triangle (weight 4 on the boundary), letter `X` for `p = 0` and `Z` for `p = 1`;
    the X and the Z generator of a face have the same support -/
theorem stabilizer_closed_form (Lx Ly : Nat) (x y p : Int) (h : [x, y, p] ∈ (lattice Lx Ly).stabs) :
    (lattice Lx Ly).getStab [x, y, p] =
      ([[x - 1, y - 2], [x + 1, y - 2], [x + 2, y], [x + 1, y + 2], [x - 1, y + 2],
        [x - 2, y]].filter (inTriangle Lx)).map (fun q => (q, if p = 0 then Pauli.X else Pauli.Z)) :=
  getStab_eq h

/-- the logical X (Z) is X (Z) on the `2Lx + 1` qubits of the row `y = 0` -/
theorem logical_weight (Lx Ly : Nat) (hx : 1 ≤ Lx) :
    (lattice Lx Ly).logX = [(kB Lx Ly).map (fun q => (q, Pauli.X))] ∧
    (lattice Lx Ly).logZ = [(kB Lx Ly).map (fun q => (q, Pauli.Z))] ∧
    (kB Lx Ly).length = 2 * Lx + 1 :=
  ⟨logX_eq Lx Ly, logZ_eq Lx Ly, length_kB hx⟩

/-- the class offers no deformation: whatever the name and the location, `get_deformation` is the
    base-class method, which RETURNS (does not raise) a `NotImplementedError` instance -/
theorem deformation_rule (name : String) (loc : Coord) :
    getDeformation name loc = DeformResult.returnsNotImplementedError := rfl

/-- `qubit_axis` is `'x'` on every 2-tuple -/
theorem qubitAxis_rule (x y : Int) : qubitAxis [x, y] = some "x" := rfl

/-! ### non-vacuity -/

example : (lattice 1 1).WF := wf 1 1 (by decide)
example : (lattice 5 4).CommPair := commPair 5 4 (by decide)
example : (lattice 1 1).qubits = [[4, 0], [3, 2], [1, 2], [0, 0], [4, 4], [3, 6], [6, 0]] := by decide
example : (lattice 1 1).stabs = [[2, 0, 0], [2, 0, 1], [2, 4, 0], [2, 4, 1], [5, 2, 0], [5, 2, 1]] := by
  decide
example : (lattice 1 1).getStab [2, 4, 1] = [([1, 2], .Z), ([3, 2], .Z), ([4, 4], .Z), ([3, 6], .Z)] := by
  decide
example : (lattice 2 2).getStab [5, 6, 0] =
    [([4, 4], .X), ([6, 4], .X), ([7, 6], .X), ([6, 8], .X), ([4, 8], .X), ([3, 6], .X)] := by decide
example : (lattice 1 1).logX = [[([0, 0], .X), ([4, 0], .X), ([6, 0], .X)]] := by decide
example : (lattice 2 2).toCodeData.n = 19 := n_formula 2 2 (by decide)
example : IndepGenerators (lattice 3 3) (lattice 3 3).stabs := generators_independent 3 3 (by decide)
example : (lattice 3 3).stabs.length = 36 := n_stabilizers 3 3
example : ValidCodeL 7 1 (lattice 1 1).rowsH (lattice 1 1).rowsX (lattice 1 1).rowsZ :=
  (valid_code 1 1 (by decide)).2.2.2
example : ValidCodeL 37 1 (lattice 3 9).rowsH (lattice 3 9).rowsX (lattice 3 9).rowsZ :=
  (valid_code 3 9 (by decide)).2.2.2

end Panqec.C01Color666PlanarCode
