/-
C01 for `Planar3DCode`, ALL sizes of the supported family `1 ≤ Lx, Ly, Lz` (no bound on the size):
the hand-written lattice model `Model/Lattices/Planar3DCode.lean` (tied to the Python class by the
correspondence streams of `harness/lattices/planar3dcode.py`) is a well-formed coordinate system,
all stabilizer generators commute (the operators are truncated at the open boundaries by the
`is_qubit` filter), the logical operators commute with the stabilizers and anticommute with each
other, `n = Lx·Ly·Lz + (Lx−1)(Ly−1)Lz + (Lx−1)Ly(Lz−1)`, `k = 1`, and `get_deformation` follows the
`XZZX` rule.

The rank clause is proved for all sizes at the operator level (`rank_family`): an explicit family
of `n − k` generators — all vertices, the xy faces of the layer `z = 0`, all yz and xz faces — is
GF(2)-independent (no non-empty sub-family has even X- and Z-parity on every location).
`valid_code` puts everything together through the generic bridges `Proofs/OpComm.lean`
(`symp (to_bsf a) (to_bsf b) = opAntiCount a b mod 2` ⇒ `CommPairL` of the assembled rows) and
`Proofs/Lat3DRankBridge.lean` / `Proofs/Lat2DRankBridge.lean` (parity-form independent family of
`n − k` distinct generators ⇒ `HasRank (2n) rowsH (n − k)`): the matrices that
`stabilizer_matrix`, `logicals_x`, `logicals_z` of the generic code model (`Model/Code.lean`, C02)
assemble from this lattice model form a valid `[[n, 1]]` stabilizer code (`ValidCodeL`: all four
clauses of C01, rank included) for EVERY size of the family.
-/
import PanqecVerif.Proofs.LatPlanar3DCodeRank
import PanqecVerif.Proofs.Lat3DRankBridge

namespace Panqec.C01Planar3DCode
open Panqec.Cubic3D Panqec.Planar3DCode

/-- Well-formedness for every supported size: qubit / stabilizer coordinates are distinct and
    disjoint, every `get_stabilizer(loc)` and every logical operator is a dict (distinct keys)
    supported on qubits with letters ≠ I, and no stabilizer is empty (also at the boundaries). -/
theorem wf (Lx Ly Lz : Nat) (hLx : 1 ≤ Lx) (hLy : 1 ≤ Ly) (hLz : 1 ≤ Lz) :
    (lattice Lx Ly Lz).WF := by
  constructor <;>
    simp only [lattice_qubits, lattice_stabs, lattice_getStab, lattice_logX, lattice_logZ]
  · exact qubits_nodup Lx Ly Lz
  · exact stabs_nodup Lx Ly Lz
  · exact fun _ hq => qubits_not_stabs hq
  · intro s hs
    obtain ⟨ks, p, h, hn, _, _, _⟩ := getStab_form hLx hs
    rw [h, uop_keys]; exact hn
  · intro s hs e he
    obtain ⟨ks, p, h, _, hq, _, hp⟩ := getStab_form hLx hs
    rw [h, mem_uop] at he
    exact ⟨hq _ he.1, by rw [he.2]; exact hp⟩
  · intro s hs
    obtain ⟨ks, p, h, _, _, hne, _⟩ := getStab_form hLx hs
    rw [h]
    cases ks with
    | nil => exact absurd rfl hne
    | cons k ks => simp [uop]
  · intro a ha
    obtain ⟨ks, p, rfl, hn, _, _⟩ := logical_form hLx hLy hLz ha
    rw [uop_keys]; exact hn
  · intro a ha e he
    obtain ⟨ks, p, rfl, _, hq, hp⟩ := logical_form hLx hLy hLz ha
    rw [mem_uop] at he
    exact ⟨hq _ he.1, by rw [he.2]; exact hp⟩

/-- The operator-level C01 clauses other than rank, for every supported size: any two stabilizer
    generators commute; the logical X and the logical Z commute with every generator; there is one
    of each and they anticommute. -/
theorem commPair (Lx Ly Lz : Nat) (hLx : 1 ≤ Lx) (hLy : 1 ≤ Ly) (hLz : 1 ≤ Lz) :
    (lattice Lx Ly Lz).CommPair := by
  constructor <;>
    simp only [lattice_stabs, lattice_getStab, lattice_logX, lattice_logZ]
  · exact fun _ hs _ ht => stab_comm hLx hLy hLz hs ht
  · exact fun _ ha _ hs => logX_comm hLx hLy hLz ha hs
  · exact fun _ ha _ hs => logZ_comm hLx hLy hLz ha hs
  · rfl
  · exact fun i j hi hj => pairing hLx hLy hLz i j hi hj
  · exact fun _ ha _ hb => logXX ha hb
  · exact fun _ ha _ hb => logZZ ha hb

/-- `n = Lx·Ly·Lz + (Lx−1)·(Ly−1)·Lz + (Lx−1)·Ly·(Lz−1)` (x, y and z edges; every size, with
    truncated subtraction). -/
theorem n_formula (Lx Ly Lz : Nat) : (lattice Lx Ly Lz).toCodeData.n =
    Lx * Ly * Lz + (Lx - 1) * (Ly - 1) * Lz + (Lx - 1) * Ly * (Lz - 1) := by
  simp only [Lattice.toCodeData, CodeData.n, lattice_qubits]; exact qubits_length Lx Ly Lz

/-- the number of stabilizer generators (vertices, xy / yz / xz faces; every size). -/
theorem n_stabilizers_formula (Lx Ly Lz : Nat) :
    (lattice Lx Ly Lz).toCodeData.stabs.length =
      (Lx - 1) * Ly * Lz + Lx * (Ly - 1) * Lz + (Lx - 1) * (Ly - 1) * (Lz - 1) +
        Lx * Ly * (Lz - 1) := by
  simp only [Lattice.toCodeData, lattice_stabs]; exact stabs_length Lx Ly Lz

/-- `k = 1` (every size). -/
theorem k_value (Lx Ly Lz : Nat) : (lattice Lx Ly Lz).toCodeData.k = 1 := by
  simp only [Lattice.toCodeData, CodeData.k, lattice_logX]; rfl

/-- The rank clause for every supported size: `rankFamily` (all vertices, the xy faces with
    `z = 0`, all yz faces, all xz faces) is a sub-list of `get_stabilizer_coordinates` with exactly
    `n − k` members whose operators are GF(2)-independent: no non-empty sub-family multiplies to the
    identity (even X-parity and even Z-parity on every location). -/
theorem rank_family (Lx Ly Lz : Nat) (hLx : 1 ≤ Lx) (hLy : 1 ≤ Ly) (hLz : 1 ≤ Lz) :
    ∃ B : List Coord, B.Sublist (lattice Lx Ly Lz).stabs ∧
      B.length = (lattice Lx Ly Lz).toCodeData.n - (lattice Lx Ly Lz).toCodeData.k ∧
      OpsIndep (B.map (lattice Lx Ly Lz).getStab) := by
  refine ⟨rankFamily Lx Ly Lz, ?_, ?_, ?_⟩
  · rw [lattice_stabs]; exact rankFamily_sublist hLz
  · rw [k_value]
    simp only [Lattice.toCodeData, CodeData.n, lattice_qubits]
    exact rankFamily_length hLx hLy hLz
  · rw [lattice_getStab]; exact rankFamily_indep hLx hLy hLz

/-- THE C01 STATEMENT FOR ALL SIZES (`Lx, Ly, Lz ≥ 1`): `stabilizer_matrix`, `logicals_x`,
    `logicals_z` of the generic code model, applied to this lattice model, return (no `KeyError`)
    matrices that form a valid `[[n, 1]]` stabilizer code
    (`n = Lx·Ly·Lz + (Lx−1)(Ly−1)Lz + (Lx−1)Ly(Lz−1)`): generators pairwise commute, logicals
    commute with the generators, `ω(X, Z) = 1`, `ω(X, X) = ω(Z, Z) = 0`, and the generators have
    GF(2) rank `n − 1` -/
theorem valid_code (Lx Ly Lz : Nat) (hLx : 1 ≤ Lx) (hLy : 1 ≤ Ly) (hLz : 1 ≤ Lz) :
    stabilizerMatrix (lattice Lx Ly Lz).toCodeData = some (lattice Lx Ly Lz).rowsH ∧
    logicalsX (lattice Lx Ly Lz).toCodeData = some (lattice Lx Ly Lz).rowsX ∧
    logicalsZ (lattice Lx Ly Lz).toCodeData = some (lattice Lx Ly Lz).rowsZ ∧
    ValidCodeL (Lx * Ly * Lz + (Lx - 1) * (Ly - 1) * Lz + (Lx - 1) * Ly * (Lz - 1)) 1
      (lattice Lx Ly Lz).rowsH (lattice Lx Ly Lz).rowsX (lattice Lx Ly Lz).rowsZ := by
  obtain ⟨B, hsub, hlen, hind⟩ := rank_family Lx Ly Lz hLx hLy hLz
  have hwf := wf Lx Ly Lz hLx hLy hLz
  have h := validCode_of_opsIndep (lattice Lx Ly Lz) hwf
    (commPair Lx Ly Lz hLx hLy hLz) B (hwf.stabs_nodup.sublist hsub) (fun s hs => hsub.subset hs)
    hlen hind
  rw [n_formula, k_value] at h
  exact h

/-- CSS structure for every size: a stabilizer location is a `'vertex'` whose operator carries only Z
    (on at most 6 qubits) or a `'face'` whose operator carries only X (on at most 4 qubits). -/
theorem stabilizer_shape (Lx Ly Lz : Nat) {s : Coord}
    (hs : s ∈ (lattice Lx Ly Lz).stabs) :
    (Planar3DCode.stabilizerType Lx Ly Lz s = some StabType.vertex ∧
      ∃ ks, (lattice Lx Ly Lz).getStab s = uop ks Pauli.Z ∧ ks.length ≤ 6) ∨
    (Planar3DCode.stabilizerType Lx Ly Lz s = some StabType.face ∧
      ∃ ks, (lattice Lx Ly Lz).getStab s = uop ks Pauli.X ∧ ks.length ≤ 4) := by
  rw [lattice_stabs] at hs
  rw [lattice_getStab]
  exact stab_shape hs

/-- `get_deformation('XZZX', axis)` on every qubit of every size: the qubit has an axis (x, y, z
    for the three blocks of `get_qubit_coordinates`), and the deformation is X↔Z exactly on the
    qubits whose axis is the deformation axis, the identity elsewhere. -/
theorem deformation_rule (Lx Ly Lz : Nat) {q : Coord} (hq : q ∈ (lattice Lx Ly Lz).qubits)
    (ax : Axis) :
    ∃ a, Planar3DCode.qubitAxis q = some a ∧
      Planar3DCode.getDeformation "XZZX" (some ax.toString) q =
        some (if a = ax then PauliMap.swapXZ else PauliMap.id) := by
  rw [lattice_qubits] at hq
  obtain ⟨x, y, z, rfl⟩ := shape_of_mem_qubits hq
  refine ⟨_, qubitAxis_of_mem_qubits hq, ?_⟩
  unfold Planar3DCode.getDeformation
  rw [getDeformation_xzzx]
  have := qubitAxis_of_mem_qubits hq
  unfold Planar3DCode.qubitAxis at this
  rw [this]; rfl

/-- the axis of a qubit is the direction of its edge: odd x / odd y / odd z coordinate -/
theorem qubit_axis_rule (Lx Ly Lz : Nat) {x y z : Int} (hq : [x, y, z] ∈ (lattice Lx Ly Lz).qubits) :
    Planar3DCode.qubitAxis [x, y, z] =
      some (if x % 2 = 1 then Axis.x else if y % 2 = 1 then Axis.y else Axis.z) := by
  rw [lattice_qubits] at hq; exact qubitAxis_of_mem_qubits hq

/-- the default `deformation_axis` is `'z'` -/
theorem deformation_default_axis (name : String) (loc : Coord) :
    Planar3DCode.getDeformation name none loc =
      Planar3DCode.getDeformation name (some "z") loc := rfl

/-- any deformation name other than `'XZZX'` is rejected (`ValueError`), in particular `'XY'` -/
theorem deformation_other_name {name : String} (h : name ≠ "XZZX") (axis : Option String)
    (loc : Coord) : Planar3DCode.getDeformation name axis loc = none :=
  getDeformation_bad_name _ h axis loc

/-- an axis other than `'x'`, `'y'`, `'z'` is rejected (`ValueError`) -/
theorem deformation_bad_axis (name : String) {s : String} (h : Axis.ofString? s = none)
    (loc : Coord) : Planar3DCode.getDeformation name (some s) loc = none :=
  getDeformation_bad_axis _ name h loc

/-- whatever `get_deformation` returns is a permutation of {X, Y, Z} (so C08 applies) -/
theorem deformation_perm {name : String} {axis : Option String} {loc : Coord} {m : PauliMap}
    (h : Planar3DCode.getDeformation name axis loc = some m) : m.isPerm = true :=
  getDeformation_isPerm h

/-! ### non-vacuity: the hypotheses are satisfiable and the model computes non-trivial data -/

example : (lattice 1 1 1).WF := wf 1 1 1 (by decide) (by decide) (by decide)
example : (lattice 2 3 4).CommPair := commPair 2 3 4 (by decide) (by decide) (by decide)
example : (lattice 2 3 4).toCodeData.n = 41 := n_formula 2 3 4
example : (rankFamily 2 3 4).length = 40 := by decide +kernel
example : ValidCodeL 41 1 (lattice 2 3 4).rowsH (lattice 2 3 4).rowsX (lattice 2 3 4).rowsZ :=
  (valid_code 2 3 4 (by decide) (by decide) (by decide)).2.2.2
/-- the smallest member of the family: one qubit, no generator, rank 0 -/
example : ValidCodeL 1 1 (lattice 1 1 1).rowsH (lattice 1 1 1).rowsX (lattice 1 1 1).rowsZ :=
  (valid_code 1 1 1 (by decide) (by decide) (by decide)).2.2.2
/-- `OpsIndep` is not vacuous: a family containing the same operator twice is dependent -/
example : ¬ OpsIndep [uop [[1, 0, 0]] .X, uop [[1, 0, 0]] .X] := by
  intro h
  have := h _ (List.Sublist.refl _) (by
    intro q
    simp only [List.countP_cons, List.countP_nil, hitX_uop, hitZ_uop]
    by_cases hq : q ∈ [[(1 : Int), 0, 0]] <;> simp [hq])
  simp at this
/-- a vertex on the boundary `y = 0`, `z = 0`: four of the six neighbours are qubits -/
example : getStab 2 2 2 [2, 0, 0] =
    [([3, 0, 0], .Z), ([1, 0, 0], .Z), ([2, 1, 0], .Z), ([2, 0, 1], .Z)] := by decide +kernel
/-- an xy face on the rough boundary `x = 1`: three of the four neighbours are qubits -/
example : getStab 2 2 2 [1, 1, 0] =
    [([2, 1, 0], .X), ([1, 0, 0], .X), ([1, 2, 0], .X)] := by decide +kernel
example : opAntiCount ((logX 2 2 2).getD 0 []) ((logZ 2 2 2).getD 0 []) = 1 := by decide +kernel
example : Planar3DCode.getDeformation "XZZX" none [2, 0, 1] = some PauliMap.swapXZ := by
  decide +kernel
example : Planar3DCode.getDeformation "XZZX" (some "x") [2, 0, 1] = some PauliMap.id := by
  decide +kernel
example : Planar3DCode.getDeformation "XY" none [1, 0, 0] = none := by decide +kernel

end Panqec.C01Planar3DCode
