/-
C17 for `Color488Code`, ALL sizes of the supported family (square lattices `Lx = Ly = L ≥ 1`, no
upper bound): the distance `code.d` reports is the true code distance, `2L` — for the undeformed
code and for the deformed code the class offers (`'XXZZ'`).

The matrices are the ones the generic code model assembles from the hand-written lattice model
`Model/Lattices/Color488Code.lean` (tied to `panqec/codes/color_2d/_color_488_code.py` by the
correspondence streams of `harness/lattices/color488code.py`); they form a valid `[[8L², 4]]` code
for every `L ≥ 1` (`C01Color488Code.valid_code`).

* `weights_listed`, `reported_distance` — each of the four rows of `logicals_x` and of `logicals_z`
  (a single letter on the qubits of the column `x = 3` / `x = 7` or of the row `y = 5` / `y = 1`) has
  weight `2L`; `code.d` (`distance`, the minimum Pauli weight over the listed logicals, as
  `StabilizerCode.d` computes it) is `2L`.
* `lower_bound` — every non-trivial logical operator has weight `≥ 2L`.  Packing argument
  (`Proofs/DistLattice.lean`, `Proofs/DistColor488Code{A,B}.lean`): a non-trivial logical
  anticommutes with one of the eight listed logicals (C04).  The column `x = 3` has the `2L`
  translates `x = 8a+3, 8a+5`: the columns `8a+3` and `8a+5` differ by the column of red squares
  between them, the columns `8a+5` and `8a+11` by the column of octagons and squares between them
  (the corners of the squares are counted twice).  The same holds for the column `x = 7` (translates
  `8a+7, 8a+9`, the last one wrapping to `x = 1`) and, transposed, for the rows.  So every operator
  commuting with all generators anticommutes with each translate exactly when it anticommutes with
  the listed logical: its support meets each of the `2L` disjoint translates.
* `distance` — `IsDistance (8L²) H (2L)`: some non-trivial logical operator has that weight and none
  is lighter; `distance_reported` states it for the reported `d`.
* `distance_deformed`, `distance_deformed_offered` — the same for the deformed code
  (`deform('XXZZ')`; every other name raises), every size (`C17.distance_deformation_invariant`).
-/
import PanqecVerif.Properties.C01Color488Code
import PanqecVerif.Proofs.DistColor488CodeB
import PanqecVerif.Proofs.Dist
import PanqecVerif.Proofs.DistDeform

namespace Panqec.C17Color488Code
open Panqec.Color488Code Panqec.Color

/-- every row of `logicals_x` and of `logicals_z` has Pauli weight `2L` — every `L ≥ 1` -/
theorem weights_listed (L : Nat) (hL : 1 ≤ L) :
    (lattice L L).rowsX.map pauliWeight = [2 * L, 2 * L, 2 * L, 2 * L] ∧
    (lattice L L).rowsZ.map pauliWeight = [2 * L, 2 * L, 2 * L, 2 * L] :=
  Color488Code.weights_listed hL (C01Color488Code.wf L hL)

/-- what `code.d` returns — the minimum weight over the listed logical operators — is `2L`, every
    `L ≥ 1` -/
theorem reported_distance (L : Nat) (hL : 1 ≤ L) :
    Panqec.distance (lattice L L).rowsX (lattice L L).rowsZ = some (2 * L) :=
  Color488Code.reported_distance hL (C01Color488Code.wf L hL)

/-- no non-trivial logical operator (commutes with every generator, is not a product of
    generators) of the `L × L` 4.8.8 colour code is lighter than `2L` — every `L ≥ 1` -/
theorem lower_bound (L : Nat) (hL : 1 ≤ L) :
    ∀ v, IsNontrivialLogical (8 * (L * L)) (lattice L L).rowsH v → 2 * L ≤ pauliWeight v :=
  Color488Code.lower_bound hL (C01Color488Code.wf L hL) (C01Color488Code.n_formula L hL)
    (C01Color488Code.valid_code L hL).2.2.2

/-- THE C17 STATEMENT FOR ALL SIZES of the supported family (`Lx = Ly = L ≥ 1`): the code distance
    of the `L × L` 4.8.8 colour code — the minimum weight of a non-trivial logical operator of the
    assembled parity-check matrix — is `2L` -/
theorem distance (L : Nat) (hL : 1 ≤ L) : IsDistance (8 * (L * L)) (lattice L L).rowsH (2 * L) :=
  distance_criterion (C01Color488Code.valid_code L hL).2.2.2 (2 * L)
    (exists_listed_of_distance _ _ _ (reported_distance L hL)) (lower_bound L hL)

/-- the same, stated for whatever `code.d` reports: the reported distance exists and is the
    true distance -/
theorem distance_reported (L : Nat) (hL : 1 ≤ L) :
    ∃ d, Panqec.distance (lattice L L).rowsX (lattice L L).rowsZ = some d ∧
      IsDistance (8 * (L * L)) (lattice L L).rowsH d :=
  ⟨_, reported_distance L hL, distance L hL⟩

/-! ### deformed code (`code.deform('XXZZ')`) -/

/-- every map `get_deformation` returns is a permutation of {X, Y, Z} (so C08 applies) -/
theorem deformation_isPerm {name : String} {loc : Coord} {m : PauliMap}
    (h : getDeformation name loc = DeformResult.map m) : m.isPerm = true := by
  unfold getDeformation at h
  split at h
  · split at h
    · split at h <;> (injection h with h; subst h; decide)
    · cases h
  · cases h

/-- the class offers the deformation 'XXZZ': `get_deformation` is defined on every qubit of every
    lattice (any other name raises, `C01Color488Code.deformation_rule_bad_name`) -/
theorem deformation_defined (L : Nat) (hL : 1 ≤ L) (q : Coord) (hq : q ∈ (lattice L L).qubits) :
    ∃ m, getDeformation "XXZZ" q = DeformResult.map m := by
  obtain ⟨x, y, rfl, _⟩ := C01Color488Code.deformation_rule_on_qubits L hL q hq
  exact ⟨_, C01Color488Code.deformation_rule x y⟩

/-- THE C17 STATEMENT FOR EVERY DEFORMED CODE OF THE CLASS, ALL SIZES (`L ≥ 1`): for every
    deformation name for which `get_deformation` returns a map on the qubits (`D q` = the relabelling
    it returns on `q`), the matrices the deformed getters assemble are the relabelled rows, they form
    a valid `[[8L², 4]]` code, `code.d` reports `2L`, and that is the true distance of the deformed
    code -/
theorem distance_deformed (L : Nat) (hL : 1 ≤ L) (name : String) (D : Coord → PauliMap)
    (hD : ∀ q ∈ (lattice L L).qubits, getDeformation name q = DeformResult.map (D q)) :
    stabilizerMatrix ((lattice L L).toCodeData.deform D) =
        some ((lattice L L).rowsH.map (deformBsf ((lattice L L).qubits.map D))) ∧
    logicalsX ((lattice L L).toCodeData.deform D) =
        some ((lattice L L).rowsX.map (deformBsf ((lattice L L).qubits.map D))) ∧
    logicalsZ ((lattice L L).toCodeData.deform D) =
        some ((lattice L L).rowsZ.map (deformBsf ((lattice L L).qubits.map D))) ∧
    ValidCodeL (8 * (L * L)) 4
      ((lattice L L).rowsH.map (deformBsf ((lattice L L).qubits.map D)))
      ((lattice L L).rowsX.map (deformBsf ((lattice L L).qubits.map D)))
      ((lattice L L).rowsZ.map (deformBsf ((lattice L L).qubits.map D))) ∧
    Panqec.distance ((lattice L L).rowsX.map (deformBsf ((lattice L L).qubits.map D)))
      ((lattice L L).rowsZ.map (deformBsf ((lattice L L).qubits.map D))) = some (2 * L) ∧
    IsDistance (8 * (L * L))
      ((lattice L L).rowsH.map (deformBsf ((lattice L L).qubits.map D))) (2 * L) :=
  Lattice.deformed_distance (lattice L L) (C01Color488Code.wf L hL)
    (C01Color488Code.n_formula L hL) (C01Color488Code.valid_code L hL).2.2.2
    (reported_distance L hL) (distance L hL) D (fun q hq => deformation_isPerm (hD q hq))

/-- the relabelling `get_deformation(·, name)` as a function of the location (identity where it
    raises — nowhere on the qubits for the offered name) -/
def deformationOf (name : String) (q : Coord) : PauliMap :=
  match getDeformation name q with
  | DeformResult.map m => m
  | _ => PauliMap.id

/-- the 'XXZZ' code has distance `2L` — every size of the family -/
theorem distance_deformed_offered (L : Nat) (hL : 1 ≤ L) :
    IsDistance (8 * (L * L))
      ((lattice L L).rowsH.map (deformBsf ((lattice L L).qubits.map (deformationOf "XXZZ"))))
      (2 * L) :=
  (distance_deformed L hL "XXZZ" (deformationOf "XXZZ") (fun q hq => by
      obtain ⟨m, hm⟩ := deformation_defined L hL q hq
      unfold deformationOf
      rw [hm])).2.2.2.2.2

/-! ### non-vacuity -/

example : IsDistance 8 (lattice 1 1).rowsH 2 := distance 1 (by decide)
example : IsDistance 72 (lattice 3 3).rowsH 6 := distance 3 (by decide)
example : IsDistance 800 (lattice 10 10).rowsH 20 := distance 10 (by decide)
/-- the hypothesis of `lower_bound` is satisfiable: the first listed logical X is a non-trivial
    logical operator -/
example : IsNontrivialLogical 8 (lattice 1 1).rowsH ((lattice 1 1).rowsX.getD 0 []) :=
  listedX_nontrivial (C01Color488Code.valid_code 1 (by decide)).2.2.2 (by decide +kernel)
example : (lattice 3 3).rowsX.map pauliWeight = [6, 6, 6, 6] ∧
    (lattice 3 3).rowsZ.map pauliWeight = [6, 6, 6, 6] := weights_listed 3 (by decide)
/-- the 'XXZZ' code on the `4 × 4` lattice has distance 8 -/
example : IsDistance 128 ((lattice 4 4).rowsH.map
    (deformBsf ((lattice 4 4).qubits.map (deformationOf "XXZZ")))) 8 :=
  distance_deformed_offered 4 (by decide)
example : deformationOf "XXZZ" [7, 1] = PauliMap.swapXZ := by decide +kernel

end Panqec.C17Color488Code
