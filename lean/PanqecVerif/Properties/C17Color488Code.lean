/-
C17 for `Color488Code`, ALL sizes of the supported family (`Lx, Ly ≥ 1`, square or rectangular, no
upper bound): the distance `code.d` reports is the true code distance, `min (2Lx) (2Ly)` — for the
undeformed code and for the deformed code the class offers (`'XXZZ'`).

The matrices are the ones the generic code model assembles from the hand-written lattice model
`Model/Lattices/Color488Code.lean` (tied to `panqec/codes/color_2d/_color_488_code.py` by the
correspondence streams of `harness/lattices/color488code.py`); they form a valid `[[8·Lx·Ly, 4]]`
code for every `Lx, Ly ≥ 1` (`C01Color488Code.valid_code`).

* `weights_listed`, `reported_distance` — the rows of `logicals_x` (a single letter on the qubits of
  the column `x = 3` / `x = 7`, then of the row `y = 5` / `y = 1`) have weights `2Ly, 2Ly, 2Lx, 2Lx`,
  those of `logicals_z` weights `2Lx, 2Lx, 2Ly, 2Ly`; `code.d` (`distance`, the minimum Pauli weight
  over the listed logicals, as `StabilizerCode.d` computes it) is `min (2Lx) (2Ly)`.  (Before the
  repair of the logical operators the column `x = 7` and the row `y = 1` were cut or over-run for
  `Lx ≠ Ly`; regression theorems in `Properties/C01Color488Code.lean`.)
* `lower_bound` — every non-trivial logical operator has weight `≥ min (2Lx) (2Ly)`.  Packing
  argument (`Proofs/DistLattice.lean`, `Proofs/DistColor488Code{A,B}.lean`): a non-trivial logical
  anticommutes with one of the eight listed logicals (C04).  The column `x = 3` has the `2Lx`
  translates `x = 8a+3, 8a+5`: the columns `8a+3` and `8a+5` differ by the column of red squares
  between them, the columns `8a+5` and `8a+11` by the column of octagons and squares between them
  (the corners of the squares are counted twice).  The same holds for the column `x = 7` (translates
  `8a+7, 8a+9`, the last one wrapping to `x = 1`) and, transposed, for the rows (`2Ly` translates
  each).  So every operator commuting with all generators anticommutes with each translate exactly
  when it anticommutes with the listed logical: its support meets each of the `2Lx` (resp. `2Ly`)
  disjoint translates.
* `distance` — `IsDistance (8·Lx·Ly) H (min (2Lx) (2Ly))`: some non-trivial logical operator has
  that weight and none is lighter; `distance_reported` states it for the reported `d`.
* `distance_deformed`, `distance_deformed_offered` — the same for the deformed code
  (`deform('XXZZ')`; every other name raises), every size (`C17.distance_deformation_invariant`).
-/
import PanqecVerif.Properties.C01Color488Code
import PanqecVerif.Proofs.DistColor488CodeB
import PanqecVerif.Proofs.Dist
import PanqecVerif.Proofs.DistDeform

namespace Panqec.C17Color488Code
open Panqec.Color488Code Panqec.Color

/-- the rows of `logicals_x` have Pauli weights `2Ly, 2Ly, 2Lx, 2Lx` (columns `x = 3`, `x = 7`,
    rows `y = 5`, `y = 1`), those of `logicals_z` weights `2Lx, 2Lx, 2Ly, 2Ly` — every
    `Lx, Ly ≥ 1` -/
theorem weights_listed (Lx Ly : Nat) (hx : 1 ≤ Lx) (hy : 1 ≤ Ly) :
    (lattice Lx Ly).rowsX.map pauliWeight = [2 * Ly, 2 * Ly, 2 * Lx, 2 * Lx] ∧
    (lattice Lx Ly).rowsZ.map pauliWeight = [2 * Lx, 2 * Lx, 2 * Ly, 2 * Ly] :=
  Color488Code.weights_listed hx hy (C01Color488Code.wf Lx Ly hx hy)

/-- what `code.d` returns — the minimum weight over the listed logical operators — is
    `min (2Lx) (2Ly)`, every `Lx, Ly ≥ 1` -/
theorem reported_distance (Lx Ly : Nat) (hx : 1 ≤ Lx) (hy : 1 ≤ Ly) :
    Panqec.distance (lattice Lx Ly).rowsX (lattice Lx Ly).rowsZ = some (min (2 * Lx) (2 * Ly)) :=
  Color488Code.reported_distance hx hy (C01Color488Code.wf Lx Ly hx hy)

/-- no non-trivial logical operator (commutes with every generator, is not a product of
    generators) of the `Lx × Ly` 4.8.8 colour code is lighter than `min (2Lx) (2Ly)` — every
    `Lx, Ly ≥ 1` -/
theorem lower_bound (Lx Ly : Nat) (hx : 1 ≤ Lx) (hy : 1 ≤ Ly) :
    ∀ v, IsNontrivialLogical (8 * (Lx * Ly)) (lattice Lx Ly).rowsH v →
      min (2 * Lx) (2 * Ly) ≤ pauliWeight v :=
  Color488Code.lower_bound hx hy (C01Color488Code.wf Lx Ly hx hy)
    (C01Color488Code.n_formula Lx Ly hx hy) (C01Color488Code.valid_code Lx Ly hx hy).2.2.2

/-- THE C17 STATEMENT FOR ALL SIZES of the supported family (`Lx, Ly ≥ 1`): the code distance of
    the `Lx × Ly` 4.8.8 colour code — the minimum weight of a non-trivial logical operator of the
    assembled parity-check matrix — is `min (2Lx) (2Ly)` -/
theorem distance (Lx Ly : Nat) (hx : 1 ≤ Lx) (hy : 1 ≤ Ly) :
    IsDistance (8 * (Lx * Ly)) (lattice Lx Ly).rowsH (min (2 * Lx) (2 * Ly)) :=
  distance_criterion (C01Color488Code.valid_code Lx Ly hx hy).2.2.2 (min (2 * Lx) (2 * Ly))
    (exists_listed_of_distance _ _ _ (reported_distance Lx Ly hx hy)) (lower_bound Lx Ly hx hy)

/-- the square case in the familiar form: the `L × L` code has distance `2L` -/
theorem distance_square (L : Nat) (hL : 1 ≤ L) :
    IsDistance (8 * (L * L)) (lattice L L).rowsH (2 * L) := by
  have h := distance L L hL hL
  rwa [Nat.min_self] at h

/-- the same, stated for whatever `code.d` reports: the reported distance exists and is the
    true distance -/
theorem distance_reported (Lx Ly : Nat) (hx : 1 ≤ Lx) (hy : 1 ≤ Ly) :
    ∃ d, Panqec.distance (lattice Lx Ly).rowsX (lattice Lx Ly).rowsZ = some d ∧
      IsDistance (8 * (Lx * Ly)) (lattice Lx Ly).rowsH d :=
  ⟨_, reported_distance Lx Ly hx hy, distance Lx Ly hx hy⟩

/-! ### deformed code (`code.deform('XXZZ')`) -/

/-- every map `get_deformation` returns is a permutation of {X, Y, Z} (so C08 applies) -/
theorem deformation_isPerm {name : String} {loc : Coord} {m : PauliMap}
    (h : getDeformation name loc = DeformResult.map m) : m.isPerm = true := by
  unfold getDeformation at h
  split at h
  · split at h
    · split at h <;> (injection h with h; subst h; decide)
    · cases h
  · cases h

/-- the class offers the deformation 'XXZZ': `get_deformation` is defined on every qubit of every
    lattice (any other name raises, `C01Color488Code.deformation_rule_bad_name`) -/
theorem deformation_defined (Lx Ly : Nat) (hx : 1 ≤ Lx) (hy : 1 ≤ Ly) (q : Coord)
    (hq : q ∈ (lattice Lx Ly).qubits) :
    ∃ m, getDeformation "XXZZ" q = DeformResult.map m := by
  obtain ⟨x, y, rfl, _⟩ := C01Color488Code.deformation_rule_on_qubits Lx Ly hx hy q hq
  exact ⟨_, C01Color488Code.deformation_rule x y⟩

/-- THE C17 STATEMENT FOR EVERY DEFORMED CODE OF THE CLASS, ALL SIZES (`Lx, Ly ≥ 1`): for every
    deformation name for which `get_deformation` returns a map on the qubits (`D q` = the relabelling
    it returns on `q`), the matrices the deformed getters assemble are the relabelled rows, they form
    a valid `[[8·Lx·Ly, 4]]` code, `code.d` reports `min (2Lx) (2Ly)`, and that is the true distance
    of the deformed code -/
theorem distance_deformed (Lx Ly : Nat) (hx : 1 ≤ Lx) (hy : 1 ≤ Ly) (name : String)
    (D : Coord → PauliMap)
    (hD : ∀ q ∈ (lattice Lx Ly).qubits, getDeformation name q = DeformResult.map (D q)) :
    stabilizerMatrix ((lattice Lx Ly).toCodeData.deform D) =
        some ((lattice Lx Ly).rowsH.map (deformBsf ((lattice Lx Ly).qubits.map D))) ∧
    logicalsX ((lattice Lx Ly).toCodeData.deform D) =
        some ((lattice Lx Ly).rowsX.map (deformBsf ((lattice Lx Ly).qubits.map D))) ∧
    logicalsZ ((lattice Lx Ly).toCodeData.deform D) =
        some ((lattice Lx Ly).rowsZ.map (deformBsf ((lattice Lx Ly).qubits.map D))) ∧
    ValidCodeL (8 * (Lx * Ly)) 4
      ((lattice Lx Ly).rowsH.map (deformBsf ((lattice Lx Ly).qubits.map D)))
      ((lattice Lx Ly).rowsX.map (deformBsf ((lattice Lx Ly).qubits.map D)))
      ((lattice Lx Ly).rowsZ.map (deformBsf ((lattice Lx Ly).qubits.map D))) ∧
    Panqec.distance ((lattice Lx Ly).rowsX.map (deformBsf ((lattice Lx Ly).qubits.map D)))
      ((lattice Lx Ly).rowsZ.map (deformBsf ((lattice Lx Ly).qubits.map D)))
        = some (min (2 * Lx) (2 * Ly)) ∧
    IsDistance (8 * (Lx * Ly))
      ((lattice Lx Ly).rowsH.map (deformBsf ((lattice Lx Ly).qubits.map D)))
      (min (2 * Lx) (2 * Ly)) :=
  Lattice.deformed_distance (lattice Lx Ly) (C01Color488Code.wf Lx Ly hx hy)
    (C01Color488Code.n_formula Lx Ly hx hy) (C01Color488Code.valid_code Lx Ly hx hy).2.2.2
    (reported_distance Lx Ly hx hy) (distance Lx Ly hx hy) D
    (fun q hq => deformation_isPerm (hD q hq))

/-- the relabelling `get_deformation(·, name)` as a function of the location (identity where it
    raises — nowhere on the qubits for the offered name) -/
def deformationOf (name : String) (q : Coord) : PauliMap :=
  match getDeformation name q with
  | DeformResult.map m => m
  | _ => PauliMap.id

/-- the 'XXZZ' code has distance `min (2Lx) (2Ly)` — every size of the family -/
theorem distance_deformed_offered (Lx Ly : Nat) (hx : 1 ≤ Lx) (hy : 1 ≤ Ly) :
    IsDistance (8 * (Lx * Ly))
      ((lattice Lx Ly).rowsH.map (deformBsf ((lattice Lx Ly).qubits.map (deformationOf "XXZZ"))))
      (min (2 * Lx) (2 * Ly)) :=
  (distance_deformed Lx Ly hx hy "XXZZ" (deformationOf "XXZZ") (fun q hq => by
      obtain ⟨m, hm⟩ := deformation_defined Lx Ly hx hy q hq
      unfold deformationOf
      rw [hm])).2.2.2.2.2

/-! ### non-vacuity -/

example : IsDistance 8 (lattice 1 1).rowsH 2 := distance 1 1 (by decide) (by decide)
example : IsDistance 72 (lattice 3 3).rowsH 6 := distance_square 3 (by decide)
example : IsDistance 800 (lattice 10 10).rowsH 20 := distance_square 10 (by decide)
/-- rectangular: the `2 × 3` code (not a valid code before the repair) has distance 4, the
    `7 × 3` code distance 6, the `1 × 9` code distance 2 -/
example : IsDistance 48 (lattice 2 3).rowsH 4 := distance 2 3 (by decide) (by decide)
example : IsDistance 168 (lattice 7 3).rowsH 6 := distance 7 3 (by decide) (by decide)
example : IsDistance 72 (lattice 1 9).rowsH 2 := distance 1 9 (by decide) (by decide)
/-- the hypothesis of `lower_bound` is satisfiable: the first listed logical X is a non-trivial
    logical operator -/
example : IsNontrivialLogical 8 (lattice 1 1).rowsH ((lattice 1 1).rowsX.getD 0 []) :=
  listedX_nontrivial (C01Color488Code.valid_code 1 1 (by decide) (by decide)).2.2.2 (by decide +kernel)
example : (lattice 3 3).rowsX.map pauliWeight = [6, 6, 6, 6] ∧
    (lattice 3 3).rowsZ.map pauliWeight = [6, 6, 6, 6] := weights_listed 3 3 (by decide) (by decide)
example : (lattice 2 3).rowsX.map pauliWeight = [6, 6, 4, 4] ∧
    (lattice 2 3).rowsZ.map pauliWeight = [4, 4, 6, 6] := weights_listed 2 3 (by decide) (by decide)
/-- the 'XXZZ' code on the `4 × 4` lattice has distance 8, on the `4 × 2` lattice distance 4 -/
example : IsDistance 128 ((lattice 4 4).rowsH.map
    (deformBsf ((lattice 4 4).qubits.map (deformationOf "XXZZ")))) 8 :=
  distance_deformed_offered 4 4 (by decide) (by decide)
example : IsDistance 64 ((lattice 4 2).rowsH.map
    (deformBsf ((lattice 4 2).qubits.map (deformationOf "XXZZ")))) 4 :=
  distance_deformed_offered 4 2 (by decide) (by decide)
example : deformationOf "XXZZ" [7, 1] = PauliMap.swapXZ := by decide +kernel

end Panqec.C17Color488Code
