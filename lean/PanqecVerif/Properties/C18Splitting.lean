/-
C18, last clause — "the Metropolis step of the splitting method therefore uses true
likelihood ratios": the body of `SplittingSimulation`
(`panqec/simulation/_splitting_simulation.py`, model `Model/Splitting.lean`).

Property theorems only (helper lemmas: `Proofs/SplittingStep.lean`, `Proofs/SplittingRun.lean`,
`Proofs/SplittingEst.lean`).  Quantifiers: every code (any `H`, `Lx`, `Lz`), every decoder
(any function of the syndrome, one per error rate), every list `ds` of per-qubit
distributions (so: every error rate, direction and deformation — `ds` is what
`probability_distribution` returns, C07), every previous error, every draw.

What holds: (a) each step accepts with probability `min(1, P(e')/P(e))` of the product-form
probabilities of C18 and moves only into the failure set; (b) the step is in detailed
balance with the product distribution restricted to that set; (d) the bookkeeping of
`_run` / `get_results`.  What does NOT hold: (c) the estimator
`compute_logical_probabilities` forms `exp(log P_j(e) − log P_{j+1}(e'))` for two DIFFERENT
errors `e`, `e'` (the current errors of two independent chains), not a likelihood ratio of
one error; the telescoping algebra is right, the factors are not
(`estimator_is_not_the_acceptance_ratio`).
-/
import PanqecVerif.Proofs.SplittingRun
import PanqecVerif.Proofs.SplittingEst

namespace Panqec.C18Splitting

open Panqec Panqec.Split

/-! ### (a) one call of `get_next_error` -/

/-- A call from a previous error of non-zero probability: the proposal is the previous
    error times the drawn letter on the drawn qubit; the acceptance probability is
    `min(1, P(new)/P(previous))` with `P` the per-qubit product of C18 — equivalently the
    ratio of the two single-qubit probabilities on the changed qubit; the coin is 1 exactly
    for variates in `[1-q, 1)`; the chain moves iff the coin is 1 and the proposal does not
    decode successfully; the pair returned is (error, its probability at this rate). -/
theorem chain_step_uses_likelihood_ratio (dt : DType) (c : Sim.CodeMats)
    (decode : List Nat → List Nat) (rate : Rat) (ds : List Dist) (s : List Pauli) (d : Draw)
    (dq : Dist) (σ τ : Pauli) (hs : s.length = ds.length) (hr : Sim.rateOk rate = true)
    (hq : ds[d.idx]? = some dq) (hτ : s[d.idx]? = some τ)
    (hσ : (proposalLetters dq)[d.letter]? = some σ) (hpos : stringProb ds s ≠ 0) :
    ∃ tr, getNextError dt c ds.length decode rate ds (pauliToBsf s) d = .ok tr ∧
      tr.proposed = pauliToBsf (s.set d.idx (σ.mul τ)) ∧
      tr.q = min 1 (stringProb ds (s.set d.idx (σ.mul τ)) / stringProb ds s) ∧
      tr.q = min 1 (dq.get (σ.mul τ) / dq.get τ) ∧
      tr.coin = decide (1 - tr.q ≤ d.u) ∧
      tr.accepted = (tr.coin && fails dt c decode tr.proposed) ∧
      tr.next = (if tr.accepted then tr.proposed else pauliToBsf s) ∧
      tr.pNext = (if tr.accepted then stringProb ds (s.set d.idx (σ.mul τ)) else stringProb ds s) := by
  refine ⟨_, getNextError_pauli dt c decode rate ds s d dq σ τ hs hr hq hτ hσ, rfl, ?_, ?_, rfl, rfl, rfl, rfl⟩
  · exact acceptQ_eq_min _ _ hpos
  · show acceptQ _ _ = _
    rw [acceptQ_eq_min _ _ hpos, stringProb_ratio ds s d.idx dq τ (σ.mul τ) hq hτ hpos]

/-- the same for the channel as stated (C07): on an undeformed qubit the ratio is formed from
    `(1-p, r_x p, r_y p, r_z p)`, on a deformed qubit from the same numbers permuted by that
    qubit's deformation — for every rate, direction and (permutation) deformation -/
theorem chain_step_stated_channel (dt : DType) (c : Sim.CodeMats) (decode : List Nat → List Nat)
    (p rx ry rz : Rat) (n : Nat) (Ds : Option (List PauliMap)) (ds : List Dist)
    (hds : probabilityDistribution p rx ry rz n Ds = some ds)
    (s : List Pauli) (d : Draw) (dq : Dist) (σ τ : Pauli) (hs : s.length = ds.length)
    (hr : Sim.rateOk p = true) (hq : ds[d.idx]? = some dq) (hτ : s[d.idx]? = some τ)
    (hσ : (proposalLetters dq)[d.letter]? = some σ) (hpos : stringProb ds s ≠ 0) :
    ∃ tr, getNextError dt c ds.length decode p ds (pauliToBsf s) d = .ok tr ∧
      tr.q = min 1 (dq.get (σ.mul τ) / dq.get τ) ∧
      (Ds = none → dq = baseDist p rx ry rz) ∧
      (∀ L, Ds = some L → (∀ D ∈ L, D.isPerm = true) →
        ∃ D, L[d.idx]? = some D ∧ dq = permDist D (baseDist p rx ry rz)) := by
  obtain ⟨tr, h1, _, _, h4, _⟩ :=
    chain_step_uses_likelihood_ratio dt c decode p ds s d dq σ τ hs hr hq hτ hσ hpos
  refine ⟨tr, h1, h4, ?_, ?_⟩
  · intro hD
    subst hD
    simp only [probabilityDistribution, Option.some.injEq] at hds
    subst hds
    rw [List.getElem?_replicate] at hq
    split at hq
    · exact (Option.some.inj hq).symm
    · cases hq
  · intro L hD hperm
    subst hD
    simp only [probabilityDistribution] at hds
    rw [mapM_deformDist_of_perm _ L hperm, Option.some.injEq] at hds
    subst hds
    rw [List.getElem?_map] at hq
    cases hL : L[d.idx]? with
    | none => simp [hL] at hq
    | some D =>
      simp only [hL, Option.map_some, Option.some.injEq] at hq
      exact ⟨D, rfl, hq.symm⟩

/-- a previous error of probability 0 (`log = -inf`; only at rate 1): the difference of logs
    is `+inf` or `nan`, `min(0, ·)` is 0, the proposal is accepted with probability 1 -/
theorem chain_step_from_impossible_error (dt : DType) (c : Sim.CodeMats)
    (decode : List Nat → List Nat) (rate : Rat) (ds : List Dist) (s : List Pauli) (d : Draw)
    (dq : Dist) (σ τ : Pauli) (hs : s.length = ds.length) (hr : Sim.rateOk rate = true)
    (hq : ds[d.idx]? = some dq) (hτ : s[d.idx]? = some τ)
    (hσ : (proposalLetters dq)[d.letter]? = some σ) (h0 : stringProb ds s = 0) :
    ∃ tr, getNextError dt c ds.length decode rate ds (pauliToBsf s) d = .ok tr ∧ tr.q = 1 := by
  refine ⟨_, getNextError_pauli dt c decode rate ds s d dq σ τ hs hr hq hτ hσ, ?_⟩
  show acceptQ _ _ = 1
  simp [acceptQ, h0]

/-- the guard on the error rate comes before any draw -/
theorem chain_step_rate_guard (dt : DType) (c : Sim.CodeMats) (n : Nat) (decode : List Nat → List Nat)
    (rate : Rat) (ds : List Dist) (prev : List Nat) (d : Draw) (h : ¬ (0 ≤ rate ∧ rate ≤ 1)) :
    getNextError dt c n decode rate ds prev d = .error .rate := by
  apply getNextError_rate
  simp only [Sim.rateOk, Bool.and_eq_false_iff, decide_eq_false_iff_not]
  by_cases h1 : 0 ≤ rate
  · right; exact fun h2 => h ⟨h1, h2⟩
  · left; exact h1

/-- a qubit on which X, Y and Z all have probability 0 (rate 0): `np.random.choice([])` raises -/
theorem chain_step_no_candidate_letter (dt : DType) (c : Sim.CodeMats) (n : Nat)
    (decode : List Nat → List Nat) (rate : Rat) (ds : List Dist) (prev : List Nat) (d : Draw)
    (dq : Dist) (hr : Sim.rateOk rate = true) (hq : ds[d.idx]? = some dq)
    (h0 : dq.x = 0 ∧ dq.y = 0 ∧ dq.z = 0) :
    getNextError dt c n decode rate ds prev d = .error .noLetters :=
  getNextError_noLetters dt c n decode rate ds prev d dq hr hq h0

/-- whatever the call, the value returned with the error is that error's probability at the
    chain's own rate (this is what `_run` appends to `log_p_errors[i_p]`) -/
theorem returned_value_is_probability_of_returned_error (dt : DType) (c : Sim.CodeMats) (n : Nat)
    (decode : List Nat → List Nat) (rate : Rat) (ds : List Dist) (prev : List Nat) (d : Draw)
    (t : StepTrace) (h : getNextError dt c n decode rate ds prev d = .ok t) :
    errorProbability ds t.next = some t.pNext :=
  getNextError_pNext dt c n decode rate ds prev d t h

/-! ### (b) the Metropolis kernel -/

/-- the acceptance probability is a probability -/
theorem acceptance_probability_in_unit_interval (a b : Rat) (ha : 0 ≤ a) (hb : 0 ≤ b) :
    0 ≤ acceptQ a b ∧ acceptQ a b ≤ 1 :=
  ⟨acceptQ_nonneg a b ha hb, acceptQ_le_one a b⟩

/-- the set of coin variates on which a call moves is the interval `[1 - q, 1)` (of length
    `q`) when the proposal fails to decode, and empty otherwise -/
theorem moves_iff_variate_in_interval (dt : DType) (c : Sim.CodeMats) (n : Nat)
    (decode : List Nat → List Nat) (rate : Rat) (ds : List Dist) (prev : List Nat) (d : Draw)
    (t : StepTrace) (h : getNextError dt c n decode rate ds prev d = .ok t) :
    t.accepted = true ↔ (1 - t.q ≤ d.u ∧ fails dt c decode t.proposed = true) := by
  obtain ⟨dq, σ, a, b, _, _, _, _, _, rfl⟩ := getNextError_inv dt c n decode rate ds prev d t h
  simp [traceOf, coin]

/-- The set the chain is conditioned on: `fails dt c decode e`, i.e. decoding `e` with this
    chain's decoder does NOT succeed in the sense of `run_once` (C11) — a logical error or a
    residual syndrome. -/
theorem failure_set_is_complement_of_success (dt : DType) (c : Sim.CodeMats)
    (decode : List Nat → List Nat) (e : List Nat) :
    fails dt c decode e = !(Sim.classify dt c e decode).success :=
  fails_eq_not_success dt c decode e

/-- Detailed balance of one step with respect to `target = P · 1[failure set]`, for every
    single-qubit move `(i, σ)`: `target(s) · K(s → s·σ_i) = target(s·σ_i) · K(s·σ_i → s)`, where
    `K` = (1/n)(1/#candidate letters)(acceptance probability)·1[destination fails]
    (`moveProb`).  Division-free, valid also when probabilities vanish. -/
theorem metropolis_detailed_balance (ds : List Dist) (F : List Pauli → Bool) (s : List Pauli)
    (i : Nat) (σ τ : Pauli) (hnn : ∀ d ∈ ds, ∀ ρ, 0 ≤ d.get ρ) (hτ : s[i]? = some τ) :
    target ds F s * moveProb ds F s i σ =
      target ds F (s.set i (σ.mul τ)) * moveProb ds F (s.set i (σ.mul τ)) i σ :=
  detailed_balance ds F s i σ τ hnn hτ

/-- the reverse move uses the same qubit and the same letter -/
theorem reverse_move (s : List Pauli) (i : Nat) (σ τ : Pauli) (h : s[i]? = some τ) :
    (s.set i (σ.mul τ)).set i (σ.mul (σ.mul τ)) = s :=
  set_set_self s i σ τ h

/-- Stationarity, summed form: for any list `M` of moves, the mass flowing into `s` along the
    reverses of `M` plus the mass that stays equals `target s` when the staying probability is
    `1 - Σ_M K(s → ·)`. -/
theorem metropolis_stationary (ds : List Dist) (F : List Pauli → Bool) (s : List Pauli)
    (M : List (Nat × Pauli)) (hnn : ∀ d ∈ ds, ∀ ρ, 0 ≤ d.get ρ) (hM : ∀ m ∈ M, m.1 < s.length) :
    ratSum (M.map fun m => target ds F (s.set m.1 (m.2.mul (s[m.1]?.getD .I))) *
        moveProb ds F (s.set m.1 (m.2.mul (s[m.1]?.getD .I))) m.1 m.2) +
      target ds F s * (1 - ratSum (M.map fun m => moveProb ds F s m.1 m.2)) = target ds F s := by
  have h : ∀ (M : List (Nat × Pauli)), (∀ m ∈ M, m.1 < s.length) →
      ratSum (M.map fun m => target ds F (s.set m.1 (m.2.mul (s[m.1]?.getD .I))) *
        moveProb ds F (s.set m.1 (m.2.mul (s[m.1]?.getD .I))) m.1 m.2) =
      target ds F s * ratSum (M.map fun m => moveProb ds F s m.1 m.2) := by
    intro M
    induction M with
    | nil => intro _; simp [ratSum]
    | cons m M ih =>
      intro hM
      have hm := hM m (by simp)
      have hτ : s[m.1]? = some (s[m.1]?.getD .I) := by
        rw [List.getElem?_eq_getElem hm]; rfl
      have := detailed_balance ds F s m.1 m.2 _ hnn hτ
      simp only [List.map_cons, ratSum]
      rw [ih fun x hx => hM x (by simp [hx]), ← this]
      ring
  rw [h M hM]
  ring

/-- once a chain is in the failure set of its decoder it never leaves it -/
theorem chain_stays_in_failure_set (dt : DType) (c : Sim.CodeMats) (n : Nat)
    (decode : List Nat → List Nat) (rate : Rat) (ds : List Dist) (prev : List Nat) (d : Draw)
    (t : StepTrace) (h : getNextError dt c n decode rate ds prev d = .ok t)
    (hp : fails dt c decode prev = true) : fails dt c decode t.next = true :=
  getNextError_stays dt c n decode rate ds prev d t h hp

/-- every move ends in the failure set of the moving chain's own decoder, wherever it started -/
theorem every_move_ends_in_failure_set (cfg : Cfg) (draws : Nat → Draw) (s s' : State) (j : Nat)
    (rate : Rat) (t : StepTrace) (h : chainStep cfg draws s j rate = .ok (s', t))
    (hacc : t.accepted = true) :
    ∃ dec, cfg.decoders[j]? = some dec ∧ s'.current[j]? = some t.next ∧
      fails cfg.dt cfg.code dec t.next = true :=
  chainStep_moved_fails cfg draws s s' j rate t h hacc

/-- the initial error (the same for all chains) is checked against `decoders[0]` only: it is
    in the failure set of the first decoder; nothing is checked for the other decoders -/
theorem initial_error_fails_first_decoder (cfg : Cfg) (cur : List (List Nat))
    (h : initialise cfg = .ok cur) :
    cur.length = cfg.rates.length ∧
    ∀ dec e, cfg.decoders[0]? = some dec → e ∈ cur → fails cfg.dt cfg.code dec e = true :=
  ⟨(initialise_length cfg cur h).1, initialise_confined cfg cur h⟩

/-- confinement is preserved by every step of every chain -/
theorem confinement_preserved (cfg : Cfg) (draws : Nat → Draw) (s s' : State) (j i : Nat) (rate : Rat)
    (t : StepTrace) (hc : Confined cfg s i) (h : chainStep cfg draws s j rate = .ok (s', t)) :
    Confined cfg s' i :=
  chainStep_confined cfg draws s s' j i rate t hc h

/-! ### (d) bookkeeping of `_run`, `postprocess`, `get_results` -/

/-- after `_run(k)` on a fresh object: `n_runs = k`, one list per error rate in
    `log_p_errors`, each of length `k`, one current error per rate, `3·k·len(error_rates)`
    draws consumed (`k·len(error_rates)` calls), `logical_error_rates` still `[]` -/
theorem run_lengths (cfg : Cfg) (draws : Nat → Draw) (k : Nat) (s' : State) (tr : List StepTrace)
    (h : runTr cfg draws k (State.init cfg) = .ok (s', tr)) :
    s'.nRuns = k ∧ s'.logP.length = cfg.rates.length ∧ (∀ l ∈ s'.logP, l.length = k) ∧
      s'.current.length = cfg.rates.length ∧ s'.pos = k * cfg.rates.length ∧
      tr.length = k * cfg.rates.length ∧ s'.pEst = none := by
  obtain ⟨hw, hn, ht, hp⟩ := runTr_init cfg draws k s' tr h
  exact ⟨hn, hw.logLen, by simpa [hn] using hw.rows, hw.curLen, by simpa [hn] using hw.pos, ht, hp⟩

/-- `_run(a)` then `_run(b)` is `_run(a + b)`: same state, same sequence of steps -/
theorem interleaving_irrelevant (cfg : Cfg) (draws : Nat → Draw) (a b : Nat) (s1 s2 : State)
    (tr1 tr2 : List StepTrace) (hne : cfg.rates ≠ [])
    (h1 : runTr cfg draws a (State.init cfg) = .ok (s1, tr1))
    (h2 : runTr cfg draws b s1 = .ok (s2, tr2)) :
    runTr cfg draws (a + b) (State.init cfg) = .ok (s2, tr1 ++ tr2) :=
  runTr_add cfg draws a b (State.init cfg) s1 s2 tr1 tr2 hne (Or.inl rfl) h1 h2

/-- the last value recorded for a chain is the probability, at that chain's rate, of the
    error the chain is in (invariant of every chain step) -/
theorem recorded_value_is_probability_of_current_error (cfg : Cfg) (draws : Nat → Draw)
    (s s' : State) (j : Nat) (rate : Rat) (t : StepTrace) (hr : Rec cfg s)
    (h : chainStep cfg draws s j rate = .ok (s', t)) : Rec cfg s' :=
  chainStep_rec cfg draws s s' j rate t hr h

/-- … so after any `_run(k)` on a fresh object, for every chain, the last entry of its
    `log_p_errors` list is the probability — at THAT chain's rate — of THAT chain's current
    error: what the estimator later subtracts are log-probabilities of different errors -/
theorem run_records_own_rate_probability_of_own_error (cfg : Cfg) (draws : Nat → Draw) (k : Nat)
    (s' : State) (tr : List StepTrace) (h : runTr cfg draws k (State.init cfg) = .ok (s', tr)) :
    ∀ (i : Nat) (ds : List Dist) (cur : List Nat) (l : List Rat), cfg.dists[i]? = some ds →
      s'.current[i]? = some cur → s'.logP[i]? = some l →
      ∀ x, l.getLast? = some x → errorProbability ds cur = some x :=
  runTr_init_preserves cfg draws (Rec cfg)
    (fun s s1 j rate t hp hc => chainStep_rec cfg draws s s1 j rate t hp hc)
    (fun _ _ hp => hp) (fun cur _ => rec_init cfg cur) k s' tr h

/-- the chain at the highest rate (chain 0, decoder 0) is inside the failure set of its decoder
    after every `_run(k)` on a fresh object; so is every chain `i` whose decoder also fails on
    the common initial error -/
theorem run_keeps_chains_in_failure_set (cfg : Cfg) (draws : Nat → Draw) (k : Nat) (i : Nat)
    (s' : State) (tr : List StepTrace) (h : runTr cfg draws k (State.init cfg) = .ok (s', tr))
    (hi : i = 0 ∨ ∀ cur dec e, initialise cfg = .ok cur → cfg.decoders[i]? = some dec → e ∈ cur →
      fails cfg.dt cfg.code dec e = true) :
    Confined cfg s' i := by
  refine runTr_init_preserves cfg draws (fun s => Confined cfg s i)
    (fun s s1 j rate t hp hc => chainStep_confined cfg draws s s1 j i rate t hp hc)
    (fun _ _ hp => hp) ?_ k s' tr h
  intro cur hcur dec e hd he
  have hmem : e ∈ cur := List.mem_of_getElem? he
  rcases hi with h0 | hall
  · subst h0
    exact initialise_confined cfg cur hcur dec e hd hmem
  · exact hall cur dec e hcur hd hmem

/-- `get_results()` before `postprocess()` raises (`1 - []`): and nothing in `_run` or in the
    batch layer calls `postprocess` -/
theorem get_results_before_postprocess_raises (cfg : Cfg) (draws : Nat → Draw) (k : Nat)
    (s' : State) (tr : List StepTrace) (h : runTr cfg draws k (State.init cfg) = .ok (s', tr)) :
    getResults cfg s' = .error .type := by
  have := (run_lengths cfg draws k s' tr h).2.2.2.2.2.2
  simp [getResults, this]

/-- after `_run(k)` and `postprocess()`: `get_results()` reports `n_runs = k`, the error rates
    in descending order as stored, and one `p_est` / `p_se` entry per error rate; the first
    entry of `p_est` is the direct Monte-Carlo estimate at the highest rate -/
theorem get_results_consistent (cfg : Cfg) (draws : Nat → Draw) (u : Nat → Rat) (k : Nat)
    (s1 s2 : State) (tr : List StepTrace) (h1 : runTr cfg draws k (State.init cfg) = .ok (s1, tr))
    (h2 : postprocess cfg u s1 = .ok s2) :
    ∃ r p0 rest, getResults cfg s2 = .ok r ∧ r.nRuns = k ∧ r.errorRates = cfg.rates ∧
      r.pEst.length = cfg.rates.length ∧ r.seRadicand.length = cfg.rates.length ∧
      initialLogicalP cfg u = .ok p0 ∧ r.pEst = p0 :: rest := by
  obtain ⟨hw, hn, _, _⟩ := runTr_init cfg draws k s1 tr h1
  obtain ⟨lp, hlp, hlen, hnr, _, _⟩ := postprocess_length cfg u s1 s2 hw h2
  unfold postprocess computeLogicalProbabilities at h2
  cases hi : initialLogicalP cfg u with
  | error e => simp [hi] at h2
  | ok p0 =>
    simp only [hi] at h2
    cases ht : telescope cfg.startRun p0 s1.logP with
    | error e => simp [ht] at h2
    | ok l =>
      simp only [ht, Except.ok.injEq] at h2
      subst h2
      simp only [Option.some.injEq] at hlp
      subst hlp
      exact ⟨_, p0, l, rfl, hn, rfl, hlen, by simpa using hlen, rfl, rfl⟩

/-! ### (c) the estimator -/

/-- every sample contributes exactly 1 to `lhs + rhs` (`g(x) + g(1/x) = 1`): the balance
    `lhs = rhs` that `compute_optimal_c` looks for is `lhs = N/2` -/
theorem lhs_plus_rhs_is_sample_count (c : Rat) (hc : 0 < c) (ab : List (Rat × Rat))
    (h : ∀ p ∈ ab, 0 < p.1 ∧ 0 < p.2) : lhs c ab + rhs c ab = (ab.length : Rat) :=
  lhs_add_rhs c hc ab h

/-- `lhs - rhs` is decreasing in `c`, so it changes sign at most once -/
theorem balance_function_decreasing (c c' : Rat) (hc : 0 < c) (hcc : c ≤ c') (ab : List (Rat × Rat))
    (h : ∀ p ∈ ab, 0 < p.1 ∧ 0 < p.2) : lhs c' ab - rhs c' ab ≤ lhs c ab - rhs c ab :=
  diff_anti c c' hc hcc ab h

/-- what the grid search of `compute_optimal_c` returns: the grid point just below the
    balance point (bracket `[c_k, c_{k+1}]`, `k ≤ 98`, step 0.0101), or the fallback `1`
    when `lhs - rhs` has the same sign on the whole grid `[0.0001, 1]` (in particular whenever
    the balance point is above 1) -/
theorem optimal_c_brackets_balance_point (ab : List (Rat × Rat)) (h : ∀ p ∈ ab, 0 < p.1 ∧ 0 < p.2) :
    (∃ k, k ≤ 98 ∧ optimalC ab = gridC k ∧
        0 ≤ lhs (gridC k) ab - rhs (gridC k) ab ∧
        lhs (gridC (k + 1)) ab - rhs (gridC (k + 1)) ab ≤ 0 ∧
        lhs (gridC (k + 1)) ab - rhs (gridC (k + 1)) ab < lhs (gridC k) ab - rhs (gridC k) ab) ∨
    (optimalC ab = 1 ∧ ∀ j, j ≤ 99 →
        sgn (lhs (gridC j) ab - rhs (gridC j) ab) = sgn (lhs (gridC 0) ab - rhs (gridC 0) ab)) :=
  optimalC_spec ab h

/-- at an exact balance point the factor `c · numerator / denominator` is `c` itself -/
theorem ratio_at_balance_point (c : Rat) (ab : List (Rat × Rat)) (hbal : lhs c ab = rhs c ab)
    (h0 : rhs c ab ≠ 0) : ratioOf c ab = c :=
  Split.ratio_at_balance c ab hbal h0

/-- Telescoping identity (algebra over `Rat`): if `logical_p[0]` is the failure probability
    `Z 0` at the highest rate and every factor is the exact conditional ratio
    (`Z j · ratio_j = Z (j+1)`), `compute_logical_probabilities` returns `Z 0, Z 1, …, Z (R-1)`:
    in particular the last entry is the failure probability at the lowest rate. -/
theorem telescoping_identity (start : Nat) (Z : Nat → Rat) (lp : List (List Rat)) (l : List Rat)
    (h : telescope start (Z 0) lp = .ok l)
    (hr : ∀ i pj pk ab, lp[i]? = some pj → lp[i + 1]? = some pk → samplePairs start pj pk = .ok ab →
      Z i * ratioOf (optimalC ab) ab = Z (i + 1)) :
    Z 0 :: l = (List.range lp.length.pred.succ).map Z := by
  have := telescope_exact start Z lp 0 l h (by simpa using hr)
  rw [this, List.range_succ_eq_map, List.map_cons, List.map_map]
  simp [Function.comp]

/-- the value returned for the lowest rate is `logical_p[0]` times the product of all factors -/
theorem logical_probability_is_product (start : Nat) (lp : List (List Rat)) (p0 : Rat) (l : List Rat)
    (h : telescope start p0 lp = .ok l) :
    ∃ rs : List Rat, rs.length = l.length ∧ (l.getLast?.getD p0) = p0 * ratProd rs :=
  telescope_product start lp p0 l h

/-- The acceptance-ratio identity the method rests on (Bennett; Bravyi–Vargo eq. for
    `P(p_{j+1})/P(p_j)`): for densities `a_e`, `b_e` on the failure set and ANY `c > 0`,
    `c · E_a[g(c·a/b)] / E_b[g(b/(c·a))] = (Σ b) / (Σ a)`, both densities being evaluated on
    the SAME error inside each expectation. -/
theorem acceptance_ratio_identity (c : Rat) (hc : 0 < c) (w : List (Rat × Rat))
    (h : ∀ p ∈ w, 0 < p.1 ∧ 0 < p.2) (hne : w ≠ []) :
    c * (num1 c w / mass1 w) / (den2 c w / mass2 w) = mass2 w / mass1 w := by
  have h1 : 0 < mass1 w := mass_pos (·.1) w (fun p hp => (h p hp).1) hne
  have h2 : 0 < mass2 w := mass_pos (·.2) w (fun p hp => (h p hp).2) hne
  have h3 : 0 < den2 c w := den2_pos c hc w h hne
  rw [← bennett_sums c hc w h] at h3 ⊢
  have h4 : num1 c w ≠ 0 := by
    intro h0; rw [h0, mul_zero] at h3; exact lt_irrefl _ h3
  field_simp

/-- What the class computes instead.  On the population of `Proofs/SplittingEst.lean`
    (failure set of two errors, densities `(1/4, 1/8)` and `(1/8, 1/32)`, every pair of
    current errors of the two independent chains occurring with exactly its stationary
    frequency), the acceptance-ratio identity gives the exact ratio `5/12` for every `c`, while
    `compute_logical_probabilities` — which pairs `log P_j` of chain `j`'s error with
    `log P_{j+1}` of chain `j+1`'s error — returns `0.4856…`: the estimator is not consistent. -/
theorem estimator_is_not_the_acceptance_ratio :
    (∀ c : Rat, 0 < c → c * (num1 c witnessW / mass1 witnessW) / (den2 c witnessW / mass2 witnessW) = 5 / 12) ∧
    telescope 0 1 [witnessA, witnessB] = .ok [(546632863706 : Rat) / 1125749669665] ∧
    (546632863706 : Rat) / 1125749669665 ≠ 5 / 12 := by
  refine ⟨fun c hc => ?_, by decide +kernel, by norm_num⟩
  rw [acceptance_ratio_identity c hc witnessW (by simp [witnessW]) (by simp [witnessW])]
  try norm_num [mass1, mass2, witnessW, ratSum]

/-! ### non-vacuity -/

/-- a concrete accepted step: planar 1×1 code (one qubit, no stabilizer), previous error X at
    rate 1/4 with direction (1/2, 1/4, 1/4), letter Z drawn: proposal Y, `q = 1/2` -/
example :
    (getNextError .wide ⟨[], [[1, 0]], [[0, 1]]⟩ 1 (fun _ => [0, 0]) (1/4) [⟨3/4, 1/8, 1/16, 1/16⟩]
      [1, 0] ⟨0, 2, 3/4⟩).map (fun t => (t.proposed, t.q, t.coin, t.accepted, t.next, t.pNext)) =
      .ok ([1, 1], 1/2, true, true, [1, 1], 1/16) := by decide +kernel

example : optimalC [(1/4, 1/8), (1/8, 1/8)] = 7071 / 10000 := by decide +kernel

example : (State.init ⟨.wide, ⟨[], [[1, 0]], [[0, 1]]⟩, 1, [1/4, 1/8], [], [], [], 1, 0⟩).logP.length = 2 := by
  decide

end Panqec.C18Splitting
