/-
C17 for `Toric3DCode`, ALL sizes of the supported family (`Lx, Ly, Lz ≥ 2`, no upper bound): the
distance `code.d` reports is the true code distance, `min Lx (min Ly Lz)` — for the undeformed
code and for every deformed code the class offers.

The matrices are the ones the generic code model assembles from the hand-written lattice model
`Model/Lattices/Toric3DCode.lean` (tied to `panqec/codes/surface_3d/_toric_3d_code.py` by the
correspondence streams of `harness/lattices/toric3dcode.py`); they form a valid
`[[3·Lx·Ly·Lz, 3]]` code for every size (`C01Toric3DCode.valid_code`).

* `reported_distance` — `code.d` (`distance`, the minimum Pauli weight over the rows of
  `logicals_x` and `logicals_z`, as `StabilizerCode.d` computes it) is `min Lx (min Ly Lz)`; the
  listed logicals are three X lines of weights `Lx, Ly, Lz` and three Z planes of weights
  `Ly·Lz, Lz·Lx, Lx·Ly` (`weights_listed`).
* `lower_bound` — every non-trivial logical operator has weight `≥ min Lx (min Ly Lz)`.  Packing
  argument (`Proofs/DistLattice.lean`, `Proofs/DistCubic3D.lean`, `Proofs/DistToric3DCode*.lean`):
  a non-trivial logical anticommutes with one of the six listed logicals (C04).  A listed X line
  along one axis has `L` lattice translates along a second axis with pairwise disjoint supports,
  consecutive translates differing by the product of the row of face generators between them; a
  listed Z plane has `L` translates along its normal, consecutive translates differing by the
  product of the slab of vertex generators between them.  So every operator commuting with all
  generators anticommutes with each translate exactly when it anticommutes with the listed
  logical — its support meets every translate.
* `distance` — `IsDistance (3·Lx·Ly·Lz) H (min Lx (min Ly Lz))`: some non-trivial logical operator
  has that weight and none is lighter; `distance_reported` states it for the reported `d`.
* `distance_deformed`, `distance_deformed_offered` — the same for EVERY DEFORMED code of the class
  (`deform('XZZX', deformation_axis=ax)`, `ax ∈ {x, y, z}` or omitted; every other name or axis
  raises), every size: the deformed getters assemble the relabelled rows, these form a valid code,
  `code.d` is `min Lx (min Ly Lz)` and that is the true distance
  (`C17.distance_deformation_invariant`).
-/
import PanqecVerif.Properties.C01Toric3DCode
import PanqecVerif.Proofs.DistToric3DCodeB
import PanqecVerif.Proofs.Dist
import PanqecVerif.Proofs.DistDeform

namespace Panqec.C17Toric3DCode
open Panqec.Cubic3D Panqec.Toric3DCode

/-- the rows of `logicals_x` have Pauli weights `[Lx, Ly, Lz]` (lines), those of `logicals_z`
    `[Ly·Lz, Lz·Lx, Lx·Ly]` (planes) — every `Lx, Ly, Lz ≥ 2` -/
theorem weights_listed (Lx Ly Lz : Nat) (hLx : 2 ≤ Lx) (hLy : 2 ≤ Ly) (hLz : 2 ≤ Lz) :
    (lattice Lx Ly Lz).rowsX.map pauliWeight = [Lx, Ly, Lz] ∧
    (lattice Lx Ly Lz).rowsZ.map pauliWeight = [Ly * Lz, Lz * Lx, Lx * Ly] :=
  Toric3DCode.weights_listed (C01Toric3DCode.wf Lx Ly Lz hLx hLy hLz)

/-- what `code.d` returns — the minimum weight over the listed logical operators — is
    `min Lx (min Ly Lz)`, every `Lx, Ly, Lz ≥ 2` -/
theorem reported_distance (Lx Ly Lz : Nat) (hLx : 2 ≤ Lx) (hLy : 2 ≤ Ly) (hLz : 2 ≤ Lz) :
    Panqec.distance (lattice Lx Ly Lz).rowsX (lattice Lx Ly Lz).rowsZ =
      some (min Lx (min Ly Lz)) :=
  Toric3DCode.reported_distance (by omega) (by omega) (by omega)
    (C01Toric3DCode.wf Lx Ly Lz hLx hLy hLz)

/-- no non-trivial logical operator (commutes with every generator, is not a product of
    generators) of the `Lx × Ly × Lz` 3-D toric code is lighter than `min Lx (min Ly Lz)` — every
    `Lx, Ly, Lz ≥ 2` -/
theorem lower_bound (Lx Ly Lz : Nat) (hLx : 2 ≤ Lx) (hLy : 2 ≤ Ly) (hLz : 2 ≤ Lz) :
    ∀ v, IsNontrivialLogical (3 * (Lx * Ly * Lz)) (lattice Lx Ly Lz).rowsH v →
      min Lx (min Ly Lz) ≤ pauliWeight v :=
  Toric3DCode.lower_bound hLx hLy hLz (C01Toric3DCode.wf Lx Ly Lz hLx hLy hLz)
    (C01Toric3DCode.valid_code Lx Ly Lz hLx hLy hLz).2.2.2

/-- THE C17 STATEMENT FOR ALL SIZES (`Lx, Ly, Lz ≥ 2`): the code distance of the `Lx × Ly × Lz`
    3-D toric code — the minimum weight of a non-trivial logical operator of the assembled
    parity-check matrix — is `min Lx (min Ly Lz)` -/
theorem distance (Lx Ly Lz : Nat) (hLx : 2 ≤ Lx) (hLy : 2 ≤ Ly) (hLz : 2 ≤ Lz) :
    IsDistance (3 * (Lx * Ly * Lz)) (lattice Lx Ly Lz).rowsH (min Lx (min Ly Lz)) :=
  distance_criterion (C01Toric3DCode.valid_code Lx Ly Lz hLx hLy hLz).2.2.2 (min Lx (min Ly Lz))
    (exists_listed_of_distance _ _ _ (reported_distance Lx Ly Lz hLx hLy hLz))
    (lower_bound Lx Ly Lz hLx hLy hLz)

/-- the same, stated for whatever `code.d` reports: the reported distance exists and is the
    true distance -/
theorem distance_reported (Lx Ly Lz : Nat) (hLx : 2 ≤ Lx) (hLy : 2 ≤ Ly) (hLz : 2 ≤ Lz) :
    ∃ d, Panqec.distance (lattice Lx Ly Lz).rowsX (lattice Lx Ly Lz).rowsZ = some d ∧
      IsDistance (3 * (Lx * Ly * Lz)) (lattice Lx Ly Lz).rowsH d :=
  ⟨_, reported_distance Lx Ly Lz hLx hLy hLz, distance Lx Ly Lz hLx hLy hLz⟩

/-! ### deformed codes (`code.deform('XZZX', deformation_axis=ax)`) -/

/-- the class offers the deformation 'XZZX' along the axes 'x', 'y', 'z' (default 'y'): for these
    `get_deformation` is defined on every qubit of every lattice (any other name or axis raises,
    `C01Toric3DCode.deformation_other_name` / `deformation_bad_axis`) -/
theorem deformation_defined (Lx Ly Lz : Nat) (ax : Axis) (q : Coord)
    (hq : q ∈ (lattice Lx Ly Lz).qubits) :
    ∃ m, Toric3DCode.getDeformation "XZZX" (some ax.toString) q = some m := by
  obtain ⟨a, _, h⟩ := C01Toric3DCode.deformation_rule Lx Ly Lz hq ax
  exact ⟨_, h⟩

/-- THE C17 STATEMENT FOR EVERY DEFORMED CODE OF THE CLASS, ALL SIZES (`Lx, Ly, Lz ≥ 2`): for every
    deformation name and axis for which `get_deformation` is defined on the qubits (`D q` = the
    relabelling it returns on `q`), the matrices the deformed getters assemble are the relabelled
    rows, they form a valid `[[n, 3]]` code, `code.d` reports `min Lx (min Ly Lz)`, and that is the
    true distance of the deformed code -/
theorem distance_deformed (Lx Ly Lz : Nat) (hLx : 2 ≤ Lx) (hLy : 2 ≤ Ly) (hLz : 2 ≤ Lz)
    (name : String) (axis : Option String) (D : Coord → PauliMap)
    (hD : ∀ q ∈ (lattice Lx Ly Lz).qubits,
      Toric3DCode.getDeformation name axis q = some (D q)) :
    stabilizerMatrix ((lattice Lx Ly Lz).toCodeData.deform D) =
        some ((lattice Lx Ly Lz).rowsH.map (deformBsf ((lattice Lx Ly Lz).qubits.map D))) ∧
    logicalsX ((lattice Lx Ly Lz).toCodeData.deform D) =
        some ((lattice Lx Ly Lz).rowsX.map (deformBsf ((lattice Lx Ly Lz).qubits.map D))) ∧
    logicalsZ ((lattice Lx Ly Lz).toCodeData.deform D) =
        some ((lattice Lx Ly Lz).rowsZ.map (deformBsf ((lattice Lx Ly Lz).qubits.map D))) ∧
    ValidCodeL (3 * (Lx * Ly * Lz)) 3
      ((lattice Lx Ly Lz).rowsH.map (deformBsf ((lattice Lx Ly Lz).qubits.map D)))
      ((lattice Lx Ly Lz).rowsX.map (deformBsf ((lattice Lx Ly Lz).qubits.map D)))
      ((lattice Lx Ly Lz).rowsZ.map (deformBsf ((lattice Lx Ly Lz).qubits.map D))) ∧
    Panqec.distance ((lattice Lx Ly Lz).rowsX.map (deformBsf ((lattice Lx Ly Lz).qubits.map D)))
      ((lattice Lx Ly Lz).rowsZ.map (deformBsf ((lattice Lx Ly Lz).qubits.map D))) =
        some (min Lx (min Ly Lz)) ∧
    IsDistance (3 * (Lx * Ly * Lz))
      ((lattice Lx Ly Lz).rowsH.map (deformBsf ((lattice Lx Ly Lz).qubits.map D)))
      (min Lx (min Ly Lz)) :=
  Lattice.deformed_distance (lattice Lx Ly Lz) (C01Toric3DCode.wf Lx Ly Lz hLx hLy hLz)
    (C01Toric3DCode.n_formula Lx Ly Lz) (C01Toric3DCode.valid_code Lx Ly Lz hLx hLy hLz).2.2.2
    (reported_distance Lx Ly Lz hLx hLy hLz) (distance Lx Ly Lz hLx hLy hLz) D
    (fun q hq => C01Toric3DCode.deformation_perm (hD q hq))

/-- the relabelling `get_deformation(·, name, axis)` as a function of the location (identity
    where it raises — nowhere on the qubits for the offered name and axes) -/
def deformationOf (name : String) (axis : Option String) (q : Coord) : PauliMap :=
  (Toric3DCode.getDeformation name axis q).getD PauliMap.id

/-- the XZZX-deformed code along every axis has distance `min Lx (min Ly Lz)` — every size -/
theorem distance_deformed_offered (Lx Ly Lz : Nat) (hLx : 2 ≤ Lx) (hLy : 2 ≤ Ly) (hLz : 2 ≤ Lz)
    (ax : Axis) :
    IsDistance (3 * (Lx * Ly * Lz))
      ((lattice Lx Ly Lz).rowsH.map (deformBsf ((lattice Lx Ly Lz).qubits.map
        (deformationOf "XZZX" (some ax.toString))))) (min Lx (min Ly Lz)) :=
  (distance_deformed Lx Ly Lz hLx hLy hLz "XZZX" (some ax.toString)
    (deformationOf "XZZX" (some ax.toString)) (fun q hq => by
      obtain ⟨m, hm⟩ := deformation_defined Lx Ly Lz ax q hq
      unfold deformationOf
      rw [hm]; rfl)).2.2.2.2.2

/-! ### non-vacuity -/

example : IsDistance 72 (lattice 2 3 4).rowsH 2 :=
  distance 2 3 4 (by decide) (by decide) (by decide)
example : IsDistance 1260 (lattice 10 7 6).rowsH 6 :=
  distance 10 7 6 (by decide) (by decide) (by decide)
/-- the hypothesis of `lower_bound` is satisfiable: the first listed logical X is a non-trivial
    logical operator -/
example : IsNontrivialLogical 24 (lattice 2 2 2).rowsH ((lattice 2 2 2).rowsX.getD 0 []) :=
  listedX_nontrivial (C01Toric3DCode.valid_code 2 2 2 (by decide) (by decide) (by decide)).2.2.2
    (by decide +kernel)
example : (lattice 2 3 4).rowsX.map pauliWeight = [2, 3, 4] ∧
    (lattice 2 3 4).rowsZ.map pauliWeight = [12, 8, 6] :=
  weights_listed 2 3 4 (by decide) (by decide) (by decide)
/-- the XZZX code on the `3 × 4 × 5` lattice (default axis 'y') has distance 3 -/
example : IsDistance 180 ((lattice 3 4 5).rowsH.map
    (deformBsf ((lattice 3 4 5).qubits.map (deformationOf "XZZX" (some "y"))))) 3 :=
  distance_deformed_offered 3 4 5 (by decide) (by decide) (by decide) Axis.y
example : deformationOf "XZZX" (some "y") [0, 1, 0] = PauliMap.swapXZ := by decide +kernel

end Panqec.C17Toric3DCode
