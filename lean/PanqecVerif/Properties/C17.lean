/-
C17 — the reported distance `d` is the true code distance.

`IsDistance n H d` (Proofs/ValidCode.lean): some non-trivial logical operator (commutes with
every generator, is not a product of generators) has Pauli weight `d`, and none is lighter.
`code.d` is the minimum weight of the *listed* logical operators — an upper bound only; the
property is that no lighter non-trivial logical exists.

Generic theorems (every n, k, every matrices):
* `distance_criterion` — upper bound from a listed logical + lower bound ⇒ `IsDistance`;
* `packing_bound` — `m` representatives modulo the stabilizer group with pairwise disjoint
  supports for every listed logical ⇒ every non-trivial logical has weight ≥ `m` (uses C04:
  a non-trivial logical anticommutes with some listed logical);
* `exhaustive_bound`, `exhaustive_css_bound`, `checker_sound` — soundness of the executable certificate checker
  `checkDistance` (Model/Dist.lean) for EVERY packed code and certificate.

Instance theorems `distance_<Class>_partial`: for every instance of the regenerated table of
the class that carries a certificate (`Generated.<Class>.certified`; tables and certificates
are regenerated from /repo by harness/regen_codes.py and harness/regen_dist.py on every run and
kernel-checked with `decide +kernel`), the reported `d` is the true distance.

FULL STATEMENT (not proved): for every class and every supported size (DESIGN.md §4),
`IsDistance n H code.d`.  PROVED: the same for every supported size up to the table bound
(2-D: L ≤ 6, 3-D: L ≤ 4, n ≤ 400) for which the untrusted search finds a certificate —
everything except `Color666PlanarCode` L ≥ 3 (the triangular 6.6.6 colour code has d² > n, so
disjoint representatives cannot exist, and the enumeration below `d` is beyond the kernel; the
periodic 6.6.6 code, n = 18L², d = 4L, has an exact packing: 3L translates of the listed zig-zag
string and the L straight lines of the same colour).  `coverage_<Class>` pins how many instances
of each table are certified, so a silently shrinking coverage breaks the build.  ALL SIZES
(unbounded in L) are proved for ten hand-modelled codes: `Properties/C17Toric2DCode.lean`
(`Lx, Ly ≥ 2`), `Properties/C17Planar2DCode.lean`, `Properties/C17RotatedPlanar2DCode.lean`
(`Lx, Ly ≥ 1`): `IsDistance n H (min Lx Ly)`; `Properties/C17Toric3DCode.lean`,
`Properties/C17XCubeCode.lean` (`Lx, Ly, Lz ≥ 2`): `IsDistance n H (min Lx (min Ly Lz))`;
`Properties/C17Planar3DCode.lean`, `Properties/C17RotatedPlanar3DCode.lean` (`Lx, Ly, Lz ≥ 1`):
`IsDistance n H (min Lx (Ly·Lz))`; `Properties/C17RhombicToricCode.lean` (all `L_i` even `≥ 2`):
`IsDistance n H (min Lx (min Ly Lz))`; `Properties/C17RhombicPlanarCode.lean` (`Lx, Ly ≥ 2`,
`Lz ≥ 1`): `IsDistance n H (min (Lx·Ly + (Lx−1)(Ly−1)) Lz)`; `Properties/C17Color488Code.lean`
(`Lx, Ly ≥ 1`): `IsDistance (8·Lx·Ly) H (min (2Lx) (2Ly))` — and `code.d` equals that value for every lattice
size, by packing with lattice translates; the same for every DEFORMED code of these classes,
through the generic `distance_deformation_invariant` below (a per-qubit permutation of {X, Y, Z}
changes neither the distance nor the reported distance of ANY code).  Missing for the full
statement: the all-sizes statement for the other 6 classes.
-/
import PanqecVerif.Instances.DistAll
import PanqecVerif.Proofs.Dist
import PanqecVerif.Proofs.DistDeform

namespace Panqec.C17
open Panqec

/-- If some listed logical operator of a valid code has weight `d` and no non-trivial logical
    operator is lighter, `d` is the distance. -/
theorem distance_criterion {n k : Nat} {H Lx Lz : List (List Nat)}
    (hv : ValidCodeL n k H Lx Lz) (d : Nat)
    (hex : ∃ l ∈ Lx ++ Lz, pauliWeight l = d)
    (hlow : ∀ v, IsNontrivialLogical n H v → d ≤ pauliWeight v) : IsDistance n H d :=
  Panqec.distance_criterion hv d hex hlow

/-- Packing bound: if every listed logical `l` has `m` representatives `r` modulo the
    stabilizer group (`l ⊕ r` is a product of generators) with pairwise disjoint Pauli
    supports, every non-trivial logical operator has weight at least `m`. -/
theorem packing_bound {n k : Nat} {H Lx Lz : List (List Nat)}
    (hv : ValidCodeL n k H Lx Lz) (m : Nat)
    (hreps : ∀ l ∈ Lx ++ Lz, ∃ reps : List (List Nat), reps.length = m ∧
      (∀ r ∈ reps, r.length = 2 * n ∧ InSpan (2 * n) H (vxor l r)) ∧
      reps.Pairwise SuppDisjoint) :
    ∀ v, IsNontrivialLogical n H v → m ≤ pauliWeight v :=
  packing_lower_bound hv m hreps

/-! ### Clifford deformation (`StabilizerCode.deform`, C08) does not change the distance

`deform` replaces every row of `stabilizer_matrix`, `logicals_x`, `logicals_z` by its image under
`deformBsf Ds` (C08 `matrices_deform`), `Ds` = the per-qubit relabellings `get_deformation`
returns, each a permutation of {X, Y, Z} (`deformationTable_perm`, regenerated from the source).
Quantifiers: every `n`, every such `Ds`, every stack of binary rows `H`. -/

/-- a per-qubit permutation of {X, Y, Z} does not change the Pauli weight of an operator -/
theorem weight_deformation_invariant {n : Nat} {Ds : List PauliMap} (hlen : Ds.length = n)
    (hperm : ∀ D ∈ Ds, D.isPerm = true) {v : List Nat}
    (hv : v.length = 2 * n) (hb : ∀ x ∈ v, x < 2) :
    pauliWeight (deformBsf Ds v) = pauliWeight v :=
  Deform.pauliWeight_deformBsf hlen hperm hv hb

/-- `v` is a non-trivial logical operator of the generators `H` exactly when its image is a
    non-trivial logical operator of the relabelled generators (commutation: C08
    `symp_deformBsf`; span: `inSpan_deform` for the relabelling and for its inverse) -/
theorem nontrivial_logical_deformation_iff {n : Nat} {Ds : List PauliMap} (hlen : Ds.length = n)
    (hperm : ∀ D ∈ Ds, D.isPerm = true) {H : List (List Nat)} (hH : WFRows n H)
    {v : List Nat} (hl : v.length = 2 * n) (hb : ∀ x ∈ v, x < 2) :
    IsNontrivialLogical n (H.map (deformBsf Ds)) (deformBsf Ds v) ↔ IsNontrivialLogical n H v :=
  Deform.nontrivial_deform_iff hlen hperm hH hl hb

/-- … and every non-trivial logical operator of the relabelled generators is such an image -/
theorem nontrivial_logical_deformation_surj {n : Nat} {Ds : List PauliMap} (hlen : Ds.length = n)
    (hperm : ∀ D ∈ Ds, D.isPerm = true) {H : List (List Nat)} (hH : WFRows n H)
    {w : List Nat} (h : IsNontrivialLogical n (H.map (deformBsf Ds)) w) :
    ∃ v, IsNontrivialLogical n H v ∧ deformBsf Ds v = w :=
  ⟨_, Deform.nontrivial_deform_inv hlen hperm hH h⟩

/-- **The distance is invariant under Clifford deformation**: if `d` is the distance of the
    code with generators `H` (binary rows of length `2n`), it is the distance of the code whose
    generators are relabelled qubit by qubit by permutations of {X, Y, Z}. -/
theorem distance_deformation_invariant {n d : Nat} {Ds : List PauliMap} (hlen : Ds.length = n)
    (hperm : ∀ D ∈ Ds, D.isPerm = true) {H : List (List Nat)} (hH : WFRows n H)
    (h : IsDistance n H d) : IsDistance n (H.map (deformBsf Ds)) d :=
  Deform.isDistance_deform hlen hperm hH h

/-- the same in both directions (the relabelling is a bijection) -/
theorem distance_deformation_invariant_iff {n d : Nat} {Ds : List PauliMap} (hlen : Ds.length = n)
    (hperm : ∀ D ∈ Ds, D.isPerm = true) {H : List (List Nat)} (hH : WFRows n H) :
    IsDistance n (H.map (deformBsf Ds)) d ↔ IsDistance n H d :=
  Deform.isDistance_deform_iff hlen hperm hH

/-- **The reported distance is invariant**: `code.d` (minimum weight over the rows of
    `logicals_x`, `logicals_z`) of the deformed code is that of the undeformed code. -/
theorem reported_distance_deformation_invariant {n : Nat} {Ds : List PauliMap}
    (hlen : Ds.length = n) (hperm : ∀ D ∈ Ds, D.isPerm = true) {Lx Lz : List (List Nat)}
    (hX : WFRows n Lx) (hZ : WFRows n Lz) :
    distance (Lx.map (deformBsf Ds)) (Lz.map (deformBsf Ds)) = distance Lx Lz :=
  Deform.distance_deform hlen hperm hX hZ

/-- Assembled for a hand-written lattice model `l` (valid `[[n, k]]` code of reported and true
    distance `d`) and ANY assignment `D` of permutations of {X, Y, Z} to its qubits: the three
    matrices computed from the deformed getters are the relabelled rows (no `KeyError`), they
    form a valid `[[n, k]]` code, `code.d` is still `d` and `d` is still the true distance. -/
theorem deformed_lattice_distance (l : Lattice) (hwf : l.WF) {n k d : Nat}
    (hn : l.qubits.length = n) (hv : ValidCodeL n k l.rowsH l.rowsX l.rowsZ)
    (hrep : distance l.rowsX l.rowsZ = some d) (hd : IsDistance n l.rowsH d)
    (D : Coord → PauliMap) (hperm : ∀ q ∈ l.qubits, (D q).isPerm = true) :
    stabilizerMatrix (l.toCodeData.deform D) =
        some (l.rowsH.map (deformBsf (l.qubits.map D))) ∧
    logicalsX (l.toCodeData.deform D) = some (l.rowsX.map (deformBsf (l.qubits.map D))) ∧
    logicalsZ (l.toCodeData.deform D) = some (l.rowsZ.map (deformBsf (l.qubits.map D))) ∧
    ValidCodeL n k (l.rowsH.map (deformBsf (l.qubits.map D)))
      (l.rowsX.map (deformBsf (l.qubits.map D))) (l.rowsZ.map (deformBsf (l.qubits.map D))) ∧
    distance (l.rowsX.map (deformBsf (l.qubits.map D)))
      (l.rowsZ.map (deformBsf (l.qubits.map D))) = some d ∧
    IsDistance n (l.rowsH.map (deformBsf (l.qubits.map D))) d :=
  Lattice.deformed_distance l hwf hn hv hrep hd D hperm

/-- Enumeration bound: if `checkExhaustive` accepts (every Pauli operator of weight `< d` is
    detected by a generator or commutes with every listed logical), every non-trivial logical
    operator of the (valid) code has weight at least `d`. -/
theorem exhaustive_bound (c : MaskCode)
    (hv : ValidCodeL c.n c.k (c.stabs.map (unpackBits (2 * c.n)))
      (c.logX.map (unpackBits (2 * c.n))) (c.logZ.map (unpackBits (2 * c.n))))
    (h : checkExhaustive c = true) :
    ∀ v, IsNontrivialLogical c.n (c.stabs.map (unpackBits (2 * c.n))) v →
      c.d ≤ pauliWeight v :=
  checkExhaustive_sound c hv h

/-- CSS codes: if every generator is pure X-type or pure Z-type and `checkExhaustiveCSS` accepts
    (every pure X-type and every pure Z-type operator of weight `< d` is detected or commutes with
    every listed logical), every non-trivial logical operator — of any type — has weight at
    least `d`: the X part or the Z part of a non-trivial logical of a CSS code is a non-trivial
    logical that is not heavier. -/
theorem exhaustive_css_bound (c : MaskCode)
    (hv : ValidCodeL c.n c.k (c.stabs.map (unpackBits (2 * c.n)))
      (c.logX.map (unpackBits (2 * c.n))) (c.logZ.map (unpackBits (2 * c.n))))
    (h : checkExhaustiveCSS c = true) :
    ∀ v, IsNontrivialLogical c.n (c.stabs.map (unpackBits (2 * c.n))) v →
      c.d ≤ pauliWeight v :=
  checkExhaustiveCSS_sound c hv h

/-- Soundness of the executable checks, for every packed code and every certificate: a valid
    code (`checkValidFast`) whose reported `d` is the weight of its lightest listed logical
    (`reportedDistanceFast`) and whose lower-bound certificate is accepted (`checkDistance`)
    has distance exactly `d`. -/
theorem checker_sound (c : MaskCode) (rc : RankCert) (cert : DistCert)
    (hvalid : checkValidFast c rc = true) (hrep : reportedDistanceFast c = true)
    (h : checkDistance c cert = true) :
    IsDistance c.n (c.stabs.map (unpackBits (2 * c.n))) c.d :=
  checkDistance_sound c rc cert hvalid hrep h

/-- The distance statement for one certified table entry. -/
abbrev InstanceDistance (q : MaskCode × RankCert × DistCert) : Prop :=
  IsDistance q.1.n (q.1.stabs.map (unpackBits (2 * q.1.n))) q.1.d

/-! Bounded instance theorems, one per exported class (full statement: ∀ supported size). -/
theorem distance_Toric2DCode_partial : ∀ q ∈ Generated.Toric2DCode.certified, InstanceDistance q :=
  Instances.Toric2DCode_distance
theorem distance_Planar2DCode_partial : ∀ q ∈ Generated.Planar2DCode.certified, InstanceDistance q :=
  Instances.Planar2DCode_distance
theorem distance_RotatedPlanar2DCode_partial : ∀ q ∈ Generated.RotatedPlanar2DCode.certified, InstanceDistance q :=
  Instances.RotatedPlanar2DCode_distance
theorem distance_Color666PlanarCode_partial : ∀ q ∈ Generated.Color666PlanarCode.certified, InstanceDistance q :=
  Instances.Color666PlanarCode_distance
theorem distance_Color666ToricCode_partial : ∀ q ∈ Generated.Color666ToricCode.certified, InstanceDistance q :=
  Instances.Color666ToricCode_distance
theorem distance_Color488Code_partial : ∀ q ∈ Generated.Color488Code.certified, InstanceDistance q :=
  Instances.Color488Code_distance
theorem distance_Toric3DCode_partial : ∀ q ∈ Generated.Toric3DCode.certified, InstanceDistance q :=
  Instances.Toric3DCode_distance
theorem distance_Planar3DCode_partial : ∀ q ∈ Generated.Planar3DCode.certified, InstanceDistance q :=
  Instances.Planar3DCode_distance
theorem distance_RotatedPlanar3DCode_partial : ∀ q ∈ Generated.RotatedPlanar3DCode.certified, InstanceDistance q :=
  Instances.RotatedPlanar3DCode_distance
theorem distance_RotatedToric3DCode_partial : ∀ q ∈ Generated.RotatedToric3DCode.certified, InstanceDistance q :=
  Instances.RotatedToric3DCode_distance
theorem distance_RhombicToricCode_partial : ∀ q ∈ Generated.RhombicToricCode.certified, InstanceDistance q :=
  Instances.RhombicToricCode_distance
theorem distance_RhombicPlanarCode_partial : ∀ q ∈ Generated.RhombicPlanarCode.certified, InstanceDistance q :=
  Instances.RhombicPlanarCode_distance
theorem distance_XCubeCode_partial : ∀ q ∈ Generated.XCubeCode.certified, InstanceDistance q :=
  Instances.XCubeCode_distance
theorem distance_HollowPlanar3DCode_partial : ∀ q ∈ Generated.HollowPlanar3DCode.certified, InstanceDistance q :=
  Instances.HollowPlanar3DCode_distance
theorem distance_HollowRhombicCode_partial : ∀ q ∈ Generated.HollowRhombicCode.certified, InstanceDistance q :=
  Instances.HollowRhombicCode_distance
theorem distance_Color3DCode_partial : ∀ q ∈ Generated.Color3DCode.certified, InstanceDistance q :=
  Instances.Color3DCode_distance

/-! Coverage: (certified instances, table instances) per class. -/
theorem coverage_Toric2DCode :
    Generated.Toric2DCode.certified.length = 25 ∧ Generated.Toric2DCode.all.length = 25 := by
  decide +kernel
theorem coverage_Planar2DCode :
    Generated.Planar2DCode.certified.length = 36 ∧ Generated.Planar2DCode.all.length = 36 := by
  decide +kernel
theorem coverage_RotatedPlanar2DCode :
    Generated.RotatedPlanar2DCode.certified.length = 36 ∧ Generated.RotatedPlanar2DCode.all.length = 36 := by
  decide +kernel
theorem coverage_Color666PlanarCode :
    Generated.Color666PlanarCode.certified.length = 2 ∧ Generated.Color666PlanarCode.all.length = 6 := by
  decide +kernel
theorem coverage_Color666ToricCode :
    Generated.Color666ToricCode.certified.length = 4 ∧ Generated.Color666ToricCode.all.length = 4 := by
  decide +kernel
theorem coverage_Color488Code :
    Generated.Color488Code.certified.length = 36 ∧ Generated.Color488Code.all.length = 36 := by
  decide +kernel
theorem coverage_Toric3DCode :
    Generated.Toric3DCode.certified.length = 27 ∧ Generated.Toric3DCode.all.length = 27 := by
  decide +kernel
theorem coverage_Planar3DCode :
    Generated.Planar3DCode.certified.length = 64 ∧ Generated.Planar3DCode.all.length = 64 := by
  decide +kernel
theorem coverage_RotatedPlanar3DCode :
    Generated.RotatedPlanar3DCode.certified.length = 64 ∧ Generated.RotatedPlanar3DCode.all.length = 64 := by
  decide +kernel
theorem coverage_RotatedToric3DCode :
    Generated.RotatedToric3DCode.certified.length = 32 ∧ Generated.RotatedToric3DCode.all.length = 32 := by
  decide +kernel
theorem coverage_RhombicToricCode :
    Generated.RhombicToricCode.certified.length = 8 ∧ Generated.RhombicToricCode.all.length = 8 := by
  decide +kernel
theorem coverage_RhombicPlanarCode :
    Generated.RhombicPlanarCode.certified.length = 36 ∧ Generated.RhombicPlanarCode.all.length = 36 := by
  decide +kernel
theorem coverage_XCubeCode :
    Generated.XCubeCode.certified.length = 27 ∧ Generated.XCubeCode.all.length = 27 := by
  decide +kernel
theorem coverage_HollowPlanar3DCode :
    Generated.HollowPlanar3DCode.certified.length = 64 ∧ Generated.HollowPlanar3DCode.all.length = 64 := by
  decide +kernel
theorem coverage_HollowRhombicCode :
    Generated.HollowRhombicCode.certified.length = 20 ∧ Generated.HollowRhombicCode.all.length = 20 := by
  decide +kernel
theorem coverage_Color3DCode :
    Generated.Color3DCode.certified.length = 7 ∧ Generated.Color3DCode.all.length = 7 := by
  decide +kernel

/-! ### non-vacuity -/

/-- the tables are not empty and contain codes of distance up to 6 -/
example : (Generated.Toric2DCode.certified.map fun q => q.1.d).contains 6 = true := by
  decide +kernel
example : (Generated.Toric3DCode.certified.map fun q => (q.1.n, q.1.d)).contains (192, 4) = true := by
  decide +kernel

/-- one instance spelled out: the 3×3 toric code has distance 3 -/
example : IsDistance 18 (Generated.Toric2DCode.i3_3.stabs.map (unpackBits 36)) 3 :=
  checker_sound Generated.Toric2DCode.i3_3 Generated.Toric2DCode.i3_3_cert
    Generated.Toric2DCode.i3_3_dist (by decide +kernel) (by decide +kernel) (by decide +kernel)

/-- the checker is not vacuous: an overstated distance is rejected by the enumeration
    (`XXII` has weight 2 < 3) and no family of 3 disjoint representatives exists -/
example : checkDistance { code422 with d := 3 } .exhaustive = false := by decide
example : checkDistance code422 .exhaustive = true := by decide
example : checkDistance code422 .exhaustiveCSS = true := by decide
example : checkDistance { code422 with d := 3 } .exhaustiveCSS = false := by decide
/-- a non-CSS code (generators `XZZX`-like) is refused by the CSS-restricted enumeration -/
example : checkDistance { code422 with stabs := [0x69, 0x96] } .exhaustiveCSS = false := by decide
example : checkDistance code422 (.packing [0, 1, 0, 1, 0, 2, 0, 2]) = true := by decide
example : checkDistance code422 (.packing [0, 0, 0, 1, 0, 2, 0, 2]) = false := by decide
/-- on the 3×3 toric code a claimed `d = 4` is refuted by the enumeration -/
example : checkDistance { Generated.Toric2DCode.i3_3 with d := 4 } .exhaustive = false := by
  decide +kernel

/-- deformation invariance instantiated: the `[[4,2,2]]` code relabelled by a Hadamard on
    qubits 0 and 3 and `Y↔Z` on qubit 2 (generators `ZXXZ`, `XZYX`) still has distance 2, and the
    weight-2 operator `XXII ↦ ZXII` is a non-trivial logical of it -/
example : IsDistance 4 ((code422.stabs.map (unpackBits 8)).map
    (deformBsf [.swapXZ, .id, .swapYZ, .swapXZ])) 2 :=
  distance_deformation_invariant (n := 4) (Ds := [.swapXZ, .id, .swapYZ, .swapXZ]) rfl (by decide)
    (by unfold WFRows; decide)
    (checker_sound code422 cert422 .exhaustive (by decide) (by decide) (by decide))
example : (code422.stabs.map (unpackBits 8)).map (deformBsf [.swapXZ, .id, .swapYZ, .swapXZ]) =
    [[0,1,1,0, 1,0,0,1], [1,0,1,1, 0,1,1,0]] := by decide
/-- the permutation hypothesis is needed: a map sending `Y` to `I` changes the weight of `Y` -/
example : pauliWeight (deformBsf [⟨.X, .I, .Z⟩] [1, 1]) = 0 ∧ pauliWeight [1, 1] = 1 := by decide

end Panqec.C17
