/-
C01 — every library code is a valid [[n,k]] stabilizer code.

* `ValidCodeL n k H Lx Lz` (Proofs/ValidCode.lean) is the statement: generators pairwise
  commute, logicals commute with generators, X_i/Z_j anticommute iff i = j (XX, ZZ commute),
  GF(2) rank of the generators = n − k.
* `checker_sound`: the executable checker is sound for EVERY code (all n, k, matrices).
* `rank_upper_bound`: commutation + pairing alone force rank ≤ n − k, for every code.
* `valid_<Class>`: every instance of the regenerated table of that class (all supported
  sizes up to the bound in harness/regen_codes.py, rectangular/cuboid included) satisfies
  `ValidCodeL` — kernel-checked (`decide +kernel`) against tables regenerated from /repo on
  every run.  These are bounded (per-instance) theorems; see `…_partial` naming below.
* deformations: `deformation_maps_are_permutations` (regenerated table of every map any class
  returns) + C08.validCode_deform (every per-qubit permutation preserves `ValidCodeL`).
-/
import PanqecVerif.Instances.All
import PanqecVerif.Proofs.CodeAlgebra
import PanqecVerif.Proofs.DeformTable
import PanqecVerif.Proofs.Deform

namespace Panqec.C01
open Panqec

/-- Soundness of the executable validity checker, for every packed code and certificate. -/
theorem checker_sound (c : MaskCode) (rc : RankCert) (h : checkValidFast c rc = true) :
    ValidCodeL c.n c.k (c.stabs.map (unpackBits (2 * c.n)))
      (c.logX.map (unpackBits (2 * c.n))) (c.logZ.map (unpackBits (2 * c.n))) :=
  checkValidFast_sound c rc h

/-- For every code: if generators commute, logicals commute with them and the pairing table
    holds, no independent family of generators has more than n − k members — a wrong `k` or
    dependent logicals cannot hide behind the rank clause. -/
theorem rank_upper_bound {n k : Nat} {H Lx Lz : List (List Nat)}
    (hc : CommPairL n k H Lx Lz) (basis : List (List Nat)) (hsub : basis.Sublist H)
    (hind : Indep (2 * n) basis) : basis.length ≤ n - k :=
  rank_le_of_commute_pairing hc basis hsub hind

/-- Every single-qubit map returned by any class's `get_deformation` (table regenerated from
    the source over all instance sizes, names and axes) is a permutation of {X,Y,Z}; together
    with `C08.validCode_deform` every offered deformation of a valid code is a valid code. -/
theorem deformation_maps_are_permutations :
    ∀ e ∈ Generated.deformationTable, e.2.2.isPerm = true := by
  intro e he
  exact List.all_eq_true.mp deformationTable_perm e he

/-- Every deformation of a valid code is a valid code: for ANY assignment of permutations of
    {X,Y,Z} to the qubits (all sizes, all codes), relabelling every generator and logical keeps
    all four clauses, rank included.  With `deformation_maps_are_permutations` this covers every
    deformation name and axis any class offers. -/
theorem deformed_code_valid {n k : Nat} {Ds : List PauliMap} (hlen : Ds.length = n)
    (hperm : ∀ D ∈ Ds, D.isPerm = true) {H Lx Lz : List (List Nat)}
    (hv : ValidCodeL n k H Lx Lz) :
    ValidCodeL n k (H.map (deformBsf Ds)) (Lx.map (deformBsf Ds)) (Lz.map (deformBsf Ds)) :=
  Deform.validCode_deform hlen hperm hv

/-- The valid-code statement for one packed instance. -/
abbrev InstanceValid (p : MaskCode × RankCert) : Prop :=
  ValidCodeL p.1.n p.1.k (p.1.stabs.map (unpackBits (2 * p.1.n)))
    (p.1.logX.map (unpackBits (2 * p.1.n))) (p.1.logZ.map (unpackBits (2 * p.1.n)))

/-! Bounded instance theorems (full statement: ∀ supported size; proved: ∀ size in the
    regenerated table).  One per exported class. -/
theorem valid_Toric2DCode_partial : ∀ p ∈ Generated.Toric2DCode.all, InstanceValid p :=
  fun p hp => (Instances.Toric2DCode_valid p hp).1
theorem valid_Planar2DCode_partial : ∀ p ∈ Generated.Planar2DCode.all, InstanceValid p :=
  fun p hp => (Instances.Planar2DCode_valid p hp).1
theorem valid_RotatedPlanar2DCode_partial : ∀ p ∈ Generated.RotatedPlanar2DCode.all, InstanceValid p :=
  fun p hp => (Instances.RotatedPlanar2DCode_valid p hp).1
theorem valid_Color666PlanarCode_partial : ∀ p ∈ Generated.Color666PlanarCode.all, InstanceValid p :=
  fun p hp => (Instances.Color666PlanarCode_valid p hp).1
theorem valid_Color666ToricCode_partial : ∀ p ∈ Generated.Color666ToricCode.all, InstanceValid p :=
  fun p hp => (Instances.Color666ToricCode_valid p hp).1
theorem valid_Color488Code_partial : ∀ p ∈ Generated.Color488Code.all, InstanceValid p :=
  fun p hp => (Instances.Color488Code_valid p hp).1
theorem valid_Toric3DCode_partial : ∀ p ∈ Generated.Toric3DCode.all, InstanceValid p :=
  fun p hp => (Instances.Toric3DCode_valid p hp).1
theorem valid_Planar3DCode_partial : ∀ p ∈ Generated.Planar3DCode.all, InstanceValid p :=
  fun p hp => (Instances.Planar3DCode_valid p hp).1
theorem valid_RotatedPlanar3DCode_partial : ∀ p ∈ Generated.RotatedPlanar3DCode.all, InstanceValid p :=
  fun p hp => (Instances.RotatedPlanar3DCode_valid p hp).1
theorem valid_RotatedToric3DCode_partial : ∀ p ∈ Generated.RotatedToric3DCode.all, InstanceValid p :=
  fun p hp => (Instances.RotatedToric3DCode_valid p hp).1
theorem valid_RhombicToricCode_partial : ∀ p ∈ Generated.RhombicToricCode.all, InstanceValid p :=
  fun p hp => (Instances.RhombicToricCode_valid p hp).1
theorem valid_RhombicPlanarCode_partial : ∀ p ∈ Generated.RhombicPlanarCode.all, InstanceValid p :=
  fun p hp => (Instances.RhombicPlanarCode_valid p hp).1
theorem valid_XCubeCode_partial : ∀ p ∈ Generated.XCubeCode.all, InstanceValid p :=
  fun p hp => (Instances.XCubeCode_valid p hp).1
theorem valid_HollowPlanar3DCode_partial : ∀ p ∈ Generated.HollowPlanar3DCode.all, InstanceValid p :=
  fun p hp => (Instances.HollowPlanar3DCode_valid p hp).1
theorem valid_HollowRhombicCode_partial : ∀ p ∈ Generated.HollowRhombicCode.all, InstanceValid p :=
  fun p hp => (Instances.HollowRhombicCode_valid p hp).1
theorem valid_Color3DCode_partial : ∀ p ∈ Generated.Color3DCode.all, InstanceValid p :=
  fun p hp => (Instances.Color3DCode_valid p hp).1

/-! non-vacuity: the tables are not empty and contain non-trivial codes -/
example : Generated.Toric3DCode.all.length ≥ 8 := by decide
example : (Generated.Toric3DCode.all.map fun p => p.1.n).contains 81 = true := by decide

end Panqec.C01
