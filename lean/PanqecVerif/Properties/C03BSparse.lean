/-
C03 (part) — `panqec/bsparse.py`: the binary-sparse helpers that the sparse operands of the binary
symplectic form go through.  Model: `Model/BSparse.lean` (a csr matrix = width, dtype, per row the stored
`(column, value)` pairs in storage order), tied to the implementation by the `bsparse-*` correspondence
streams of `harness/props/c03_bsparse.py`.  Helper lemmas: `Proofs/BSparse.lean`.

All statements are for every shape and every stored form (no size bound); hypotheses name exactly what a
statement needs (e.g. "duplicate-free column list"), and where the code deviates from the dense reading of
a matrix (explicitly stored zeros) that is stated as a theorem about a concrete witness.
-/
import PanqecVerif.Proofs.BSparse

namespace Panqec.C03BSparse

open Panqec Panqec.BSp

/-! ### `insert_mod2` / `is_one` -/

/-- `insert_mod2` accepts a csr matrix exactly when it has one row -/
theorem insert_mod2_accepts_rows_only (i : Nat) (m : Csr) :
    (∃ m', insertMod2 i (.csr m) = .ok m') ↔ m.rows.length = 1 := by
  unfold insertMod2
  by_cases h : m.rows.length = 1
  · simp [h]
  · simp [h]

/-- `insert_mod2(index, row)` flips what `is_one(index, ·)` answers and leaves `is_one(j, ·)` unchanged for
    every other `j` — for every stored form of the row (unsorted, duplicates, stored zeros, any dtype),
    also for an index outside the row. -/
theorem insert_mod2_toggles_exactly_index (i nc : Nat) (dt : DT) (r : List Entry) :
    ∃ m', insertMod2 i (.csr ⟨nc, dt, [r]⟩) = .ok m' ∧ m'.rows.length = 1 ∧ m'.ncols = nc ∧
      (∀ b, isOne i (.csr ⟨nc, dt, [r]⟩) = .ok b → isOne i (.csr m') = .ok (!b)) ∧
      (∀ j, j ≠ i → isOne j (.csr m') = isOne j (.csr ⟨nc, dt, [r]⟩)) := by
  refine ⟨_, insertMod2_row i nc dt r, rfl, rfl, ?_, ?_⟩
  · intro b hb
    rw [isOne_row] at hb ⊢
    rw [map_pair_fst]
    injection hb with hb
    subst hb
    rw [decide_mem_insCols_self]
  · intro j hj
    rw [isOne_row, isOne_row, map_pair_fst, decide_mem_insCols_other _ _ _ hj]

/-- `insert_mod2` twice with the same index gives back a row with the same `is_one` answers everywhere
    (involution on the set of stored columns). -/
theorem insert_mod2_involution (i nc : Nat) (dt : DT) (r : List Entry) :
    ∃ m' m'', insertMod2 i (.csr ⟨nc, dt, [r]⟩) = .ok m' ∧ insertMod2 i (.csr m') = .ok m'' ∧
      ∀ j, isOne j (.csr m'') = isOne j (.csr ⟨nc, dt, [r]⟩) := by
  refine ⟨_, _, insertMod2_row i nc dt r, insertMod2_row i nc .u8 _, ?_⟩
  intro j
  rw [isOne_row, isOne_row, map_pair_fst, map_pair_fst]
  by_cases hj : j = i
  · subst hj
    rw [decide_mem_insCols_self, decide_mem_insCols_self, Bool.not_not]
  · rw [decide_mem_insCols_other _ _ _ hj, decide_mem_insCols_other _ _ _ hj]

/-- on a row whose stored columns are distinct and in range and whose stored values are ones (what
    `zero_row`, `from_array` of 0/1 data and `insert_mod2` itself produce) the involution is exact on the
    dense value: inserting twice gives back the same `to_array`. -/
theorem insert_mod2_dense_toggle (i nc : Nat) (dt : DT) (cols : List Nat) (hn : cols.Nodup) (j : Nat) :
    ∃ m', insertMod2 i (.csr ⟨nc, dt, [cols.map fun c => (c, 1)]⟩) = .ok m' ∧
      ∀ r' ∈ m'.rows, denseVal .u8 r' j =
        if j = i then (if i ∈ cols then 0 else 1) else (if j ∈ cols then 1 else 0) := by
  have hr := map_pair_fst cols
  refine ⟨_, insertMod2_row i nc dt _, ?_⟩
  intro r' hr'
  simp only [List.mem_singleton] at hr'
  subst hr'
  rw [hr, denseVal_ones _ (insCols_nodup i cols hn)]
  have := mem_insCols i j cols
  by_cases hj : j = i
  · subst hj
    simp only [if_true] at this ⊢
    by_cases hi : j ∈ cols <;> simp_all
  · simp only [hj, if_false] at this ⊢
    by_cases hjc : j ∈ cols <;> simp_all

/-- Stored zeros are not binary zeros for these two functions: on the row `[0 0 0 0 1 0]` stored with an
    explicit zero at column 2, `is_one(2, ·)` answers True, and `insert_mod2(5, ·)` turns column 2 into a
    one (`to_array` goes from `000010` to `001011`). -/
theorem stored_zero_is_seen_as_one :
    isOne 2 (.csr ⟨6, .u8, [[(2, 0), (4, 1)]]⟩) = .ok true ∧
    toArray (.csr ⟨6, .u8, [[(2, 0), (4, 1)]]⟩) = .ok (.arr2 .u8 6 [[0, 0, 0, 0, 1, 0]]) ∧
    (insertMod2 5 (.csr ⟨6, .u8, [[(2, 0), (4, 1)]]⟩) >>= fun m => toArray (.csr m)) =
      .ok (.arr2 .u8 6 [[0, 0, 1, 0, 1, 1]]) := ⟨by decide, by decide, by decide⟩

/-! ### `dot` -/

/-- shape rule of `dot` on csr operands: one row each and equal widths, otherwise `ValueError` -/
theorem dot_shape_rule (a b : Csr) :
    BSp.dot (.csr a) (.csr b) =
      if a.rows.length = 1 ∧ b.rows.length = 1 ∧ a.ncols = b.ncols
      then .ok (nCommon a.indices b.indices % 2) else .error .valueError := by
  unfold BSp.dot
  by_cases h1 : a.rows.length = 1 <;> by_cases h2 : b.rows.length = 1 <;>
    by_cases h3 : a.ncols = b.ncols <;> simp [h1, h2, h3]

/-- `dot` counts, modulo 2, the columns that are STORED in both rows (each once, whatever the stored
    values and however often the column is stored) -/
theorem dot_counts_common_stored_columns (n : Nat) (dta dtb : DT) (ra rb : List Entry)
    (ha : ∀ e ∈ ra, e.1 < n) :
    BSp.dot (.csr ⟨n, dta, [ra]⟩) (.csr ⟨n, dtb, [rb]⟩) =
      .ok (((List.range n).filter fun c =>
        decide (c ∈ ra.map (·.1)) && decide (c ∈ rb.map (·.1))).length % 2) := by
  rw [dot_shape_rule]
  simp only [List.length_cons, List.length_nil, true_and, and_self, if_true, indices_single]
  rw [nCommon_eq_count n _ _ (by
    intro c hc
    rcases List.mem_map.mp hc with ⟨e, he, rfl⟩
    exact ha e he)]

/-- for binary rows (distinct in-range stored columns, stored values one) `dot` is the GF(2) inner product
    of the dense rows: the integer dot product of `Model/Bits.lean` reduced modulo 2 (the quantity the
    symplectic form `symp` is built from) -/
theorem dot_is_gf2_inner_product (n : Nat) (A B : List Nat) (hA : ∀ c ∈ A, c < n)
    (hnA : A.Nodup) (hnB : B.Nodup) :
    BSp.dot (.csr ⟨n, .u8, [A.map fun c => (c, 1)]⟩) (.csr ⟨n, .u8, [B.map fun c => (c, 1)]⟩) =
      .ok (Panqec.dot (denseRow .u8 n (A.map fun c => (c, 1))) (denseRow .u8 n (B.map fun c => (c, 1))) % 2) := by
  rw [dot_shape_rule]
  simp only [List.length_cons, List.length_nil, true_and, and_self, if_true, indices_single, map_pair_fst]
  rw [nCommon_eq_bitsDot n A B hA hnA hnB]

/-- with a stored zero `dot` differs from the inner product of the dense values:
    `a = [0 0 0 0 1 0]` stored as {2:0, 4:1}, `b = [0 0 1 0 1 0]`: dense inner product 1, `dot` = 0 -/
theorem dot_counts_stored_zeros :
    BSp.dot (.csr ⟨6, .u8, [[(2, 0), (4, 1)]]⟩) (.list1 [0, 0, 1, 0, 1, 0]) = .ok 0 ∧
    Panqec.dot (denseRow .u8 6 [(2, 0), (4, 1)]) [0, 0, 1, 0, 1, 0] % 2 = 1 := ⟨by decide, by decide⟩

/-! ### `equal` -/

/-- two csr matrices of one dtype are `equal` exactly when their `to_array` values are equal (shape
    included) — stored zeros, storage order and duplicates do not matter here -/
theorem equal_iff_same_dense (a b : Csr) (hdt : a.dt = b.dt) :
    equal (.csr a) (.csr b) = .ok true ↔ toArray (.csr a) = toArray (.csr b) := by
  rcases a with ⟨na, dta, A⟩
  rcases b with ⟨nb, dtb, B⟩
  simp only at hdt
  subst hdt
  have hp : DT.promote dta dta = dta := by cases dta <;> rfl
  simp only [equal, equalCsr, toArray, hp, Except.ok.injEq, Arg.arr2.injEq, true_and]
  constructor
  · intro h
    by_cases hs : A.length ≠ B.length ∨ na ≠ nb
    · rw [if_pos hs] at h; exact absurd h (by decide)
    · rw [if_neg hs] at h
      have hc : na = nb := by
        rcases Nat.decEq na nb with h' | h'
        · exact absurd (Or.inr h') hs
        · exact h'
      subst hc
      exact ⟨rfl, by simpa using h⟩
  · rintro ⟨hc, hr⟩
    subst hc
    have hl : A.length = B.length := by
      have := congrArg List.length hr
      simpa using this
    have hs : ¬ (A.length ≠ B.length ∨ na ≠ na) := by simp [hl]
    rw [if_neg hs]
    simpa using hr

/-- matrices of different shapes are never `equal` -/
theorem equal_false_of_shape (a b : Csr) (h : a.rows.length ≠ b.rows.length ∨ a.ncols ≠ b.ncols) :
    equal (.csr a) (.csr b) = .ok false := by
  simp [equal, equalCsr, h]

/-- `equal(0, m)` (either argument order) holds exactly when NOTHING is stored in `m` -/
theorem equal_zero_iff_nothing_stored (m : Csr) :
    (equal (.int 0) (.csr m) = .ok true ↔ m.data = []) ∧
    equal (.csr m) (.int 0) = equal (.int 0) (.csr m) := by
  constructor
  · simp [equal, equalInt]
  · rfl

/-- … so a matrix that stores a zero is not `equal` to `0` although it is `equal` to `zero_row` and its
    `to_array` is all zero -/
theorem equal_zero_rejects_stored_zero :
    equal (.int 0) (.csr ⟨3, .u8, [[(1, 0)]]⟩) = .ok false ∧
    equal (.csr ⟨3, .u8, [[(1, 0)]]⟩) (.csr ⟨3, .u8, [[]]⟩) = .ok true ∧
    toArray (.csr ⟨3, .u8, [[(1, 0)]]⟩) = .ok (.arr2 .u8 3 [[0, 0, 0]]) := ⟨by decide, by decide, by decide⟩

/-- anything that is not csr/csr or csr/int is a `TypeError` -/
theorem equal_type_rule (x y : Arg) :
    equal x y = .error .typeError ↔
      ¬ ((x.isCsr ∧ y.isCsr) ∨ (x.isCsr ∧ ∃ k, y = .int k) ∨ (y.isCsr ∧ ∃ k, x = .int k)) := by
  cases x <;> cases y <;> simp [equal, Arg.isCsr]

/-! ### `hstack`, `vstack`, `hsplit` -/

/-- `hsplit` rejects exactly the odd widths (csr input) -/
theorem hsplit_error_rule (m : Csr) :
    (hsplit (.csr m) = .error .valueError ↔ m.ncols % 2 = 1) ∧
    ((∃ p, hsplit (.csr m) = .ok p) ↔ m.ncols % 2 = 0) := by
  unfold hsplit
  by_cases h : m.ncols % 2 = 0
  · have h' : ¬ m.ncols % 2 = 1 := by omega
    by_cases h1 : m.rows.length = 1 <;> simp [h, h1]
  · have h' : m.ncols % 2 = 1 := by omega
    simp [h']

/-- `hsplit(hstack([a, b])) = (a, b)` for `uint8` csr matrices of equal shape with in-range columns and
    more or fewer than one row: the stored form (order, duplicates, stored zeros) comes back unchanged -/
theorem hsplit_hstack_matrix (n : Nat) (A B : List (List Entry)) (hl : A.length = B.length)
    (hne : A.length ≠ 1) (hA : ∀ r ∈ A, ∀ e ∈ r, e.1 < n) :
    (hstack [.csr ⟨n, .u8, A⟩, .csr ⟨n, .u8, B⟩] >>= fun m => hsplit (.csr m)) =
      .ok (.csr ⟨n, .u8, A⟩, .csr ⟨n, .u8, B⟩) := by
  rw [hstack_two_u8 n n A B hl]
  show hsplit (.csr ⟨n + n, .u8, hcat2 n A B⟩) = _
  unfold hsplit
  have h2 : (n + n) % 2 = 0 := by omega
  have h3 : (n + n) / 2 = n := by omega
  simp only [h2, h3, ne_eq, not_true_eq_false, if_false, hcat2_length n A B hl, hne]
  rw [map_filter_lt_hcat2 n A B hl hA, map_filter_ge_hcat2 n A B hl hA]

/-- the same for single rows, where `hsplit` rebuilds both halves with stored values one: the round trip
    is the identity when the stored values are ones (binary rows) -/
theorem hsplit_hstack_row (n : Nat) (ca cb : List Nat) (ha : ∀ c ∈ ca, c < n) :
    (hstack [.csr ⟨n, .u8, [ca.map fun c => (c, 1)]⟩, .csr ⟨n, .u8, [cb.map fun c => (c, 1)]⟩]
        >>= fun m => hsplit (.csr m)) =
      .ok (.csr ⟨n, .u8, [ca.map fun c => (c, 1)]⟩, .csr ⟨n, .u8, [cb.map fun c => (c, 1)]⟩) := by
  rw [hstack_two_u8 n n [ca.map fun c => (c, 1)] [cb.map fun c => (c, 1)] rfl]
  show hsplit (.csr ⟨n + n, .u8, hcat2 n [ca.map fun c => (c, 1)] [cb.map fun c => (c, 1)]⟩) = _
  unfold hsplit
  have h2 : (n + n) % 2 = 0 := by omega
  have h3 : (n + n) / 2 = n := by omega
  have hidx : (Csr.mk (n + n) .u8 (hcat2 n [ca.map fun c => ((c, 1) : Entry)] [cb.map fun c => (c, 1)])).indices
      = ca ++ cb.map (· + n) := by
    simp [Csr.indices, hcat2, shiftRow, Function.comp_def]
  simp only [h2, h3, ne_eq, not_true_eq_false, if_false, hidx]
  have hlen : (hcat2 n [ca.map fun c => ((c, 1) : Entry)] [cb.map fun c => (c, 1)]).length = 1 := rfl
  simp only [hlen, if_true]
  have f1 : (ca ++ cb.map (· + n)).filter (fun c => decide (c < n)) = ca := by
    rw [List.filter_append, List.filter_eq_self.mpr (fun c hc => by simp [ha c hc])]
    have : (cb.map (· + n)).filter (fun c => decide (c < n)) = [] := by
      rw [List.filter_eq_nil_iff]; intro c hc
      rcases List.mem_map.mp hc with ⟨c', _, rfl⟩; simp
    rw [this, List.append_nil]
  have f2 : ((ca ++ cb.map (· + n)).filter (fun c => decide (n ≤ c))).map (fun c => ((c - n, 1) : Entry))
      = cb.map fun c => (c, 1) := by
    rw [List.filter_append]
    have h1 : ca.filter (fun c => decide (n ≤ c)) = [] := by
      rw [List.filter_eq_nil_iff]; intro c hc; have := ha c hc; simp; omega
    have h2 : (cb.map (· + n)).filter (fun c => decide (n ≤ c)) = cb.map (· + n) :=
      List.filter_eq_self.mpr (fun c hc => by
        rcases List.mem_map.mp hc with ⟨c', _, rfl⟩; simp)
    rw [h1, h2, List.nil_append, List.map_map]
    apply List.map_congr_left
    intro c _; simp
  rw [f1, f2]

/-- dense value of `hstack([a, b])`: every row is the concatenation of the dense rows -/
theorem hstack_dense (na nb : Nat) (A B : List (List Entry)) (hl : A.length = B.length)
    (hA : ∀ r ∈ A, ∀ e ∈ r, e.1 < na) :
    (hstack [.csr ⟨na, .u8, A⟩, .csr ⟨nb, .u8, B⟩] >>= fun m => toArray (.csr m)) =
      .ok (.arr2 .u8 (na + nb)
        (List.zipWith (· ++ ·) (A.map (denseRow .u8 na)) (B.map (denseRow .u8 nb)))) := by
  rw [hstack_two_u8 na nb A B hl]
  show toArray (.csr ⟨na + nb, .u8, hcat2 na A B⟩) = _
  unfold toArray
  simp only [map_denseRow_hcat2 na nb A B hl hA]

/-- `vstack` of csr blocks: `ValueError` exactly when a width differs from the first; otherwise a `uint8`
    matrix of that width whose rows are, in order, the rows of the blocks, each with its dense value
    reduced modulo 256 — for every mixture of dtypes and every stored form (the `sum_duplicates()` that
    scipy runs on the non-`uint8` path changes the stored form but not the dense value) -/
theorem vstack_dense (m0 : Csr) (ms : List Csr) :
    (ms.any (fun m => m.ncols ≠ m0.ncols) = true →
      vstack ((m0 :: ms).map Arg.csr) = .error .valueError) ∧
    (ms.any (fun m => m.ncols ≠ m0.ncols) = false →
      (vstack ((m0 :: ms).map Arg.csr) >>= fun m => toArray (.csr m)) =
        .ok (.arr2 .u8 m0.ncols ((m0.rows ++ ms.flatMap (·.rows)).map (denseRow .u8 m0.ncols)))) := by
  rw [vstack_csr]
  constructor
  · intro h; rw [if_pos h]
  · intro h
    rw [if_neg (by rw [h]; exact Bool.false_ne_true)]
    show toArray (.csr (finishStack m0.ncols (promoteAll m0.dt ms) (m0.rows ++ ms.flatMap (·.rows)))) = _
    unfold toArray
    simp only [finishStack_dt, finishStack_ncols, finishStack_dense]

/-- when every block is already `uint8` the stored form is kept as it is: plain concatenation of rows -/
theorem vstack_u8_is_concatenation (m0 : Csr) (ms : List Csr)
    (hw : ms.any (fun m => m.ncols ≠ m0.ncols) = false) (h0 : m0.dt = .u8) (hd : ∀ m ∈ ms, m.dt = .u8) :
    vstack ((m0 :: ms).map Arg.csr) = .ok ⟨m0.ncols, .u8, m0.rows ++ ms.flatMap (·.rows)⟩ := by
  rw [vstack_csr, if_neg (by rw [hw]; exact Bool.false_ne_true)]
  have : promoteAll m0.dt ms = .u8 := by
    unfold promoteAll
    rw [h0]
    clear hw h0
    induction ms with
    | nil => rfl
    | cons m ms ih =>
      rw [List.foldl_cons, hd m (by simp)]
      exact ih (fun m' hm' => hd m' (by simp [hm']))
  rw [this]; rfl

/-- the empty lists: `vstack([])` is a `ValueError`, `hstack([])` an `IndexError` -/
theorem stack_of_nothing : vstack [] = .error .valueError ∧ hstack [] = .error .indexError :=
  ⟨rfl, rfl⟩

/-! ### `from_array`, `to_array`, constructors -/

/-- `to_array(from_array(M)) = M` for every rectangular `uint8` array `M` (any values below 256) -/
theorem to_array_from_array (nc : Nat) (rows : List (List Nat))
    (hw : ∀ r ∈ rows, r.length = nc) (hv : ∀ r ∈ rows, ∀ v ∈ r, v < 256) :
    (fromArray (.arr2 .u8 nc rows) >>= fun m => toArray (.csr m)) = .ok (.arr2 .u8 nc rows) := by
  show toArray (.csr ⟨nc, .u8, rows.map fromDenseRow⟩) = _
  unfold toArray
  simp only [List.map_map]
  congr 2
  conv => rhs; rw [← List.map_id rows]
  apply List.map_congr_left
  intro r hr
  simp only [Function.comp, id]
  rw [← hw r hr]
  exact denseRow_fromDenseRow r (hv r hr)

/-- lists go the same way as arrays, and a dense array is returned by `to_array` as it is -/
theorem from_array_list_eq_array (dt : DT) (nc : Nat) (rows : List (List Nat)) (v : List Nat) :
    fromArray (.list2 nc rows) = fromArray (.arr2 dt nc rows) ∧
    fromArray (.list1 v) = fromArray (.arr1 dt v) ∧
    toArray (.arr2 dt nc rows) = .ok (.arr2 dt nc rows) ∧ toArray (.arr1 dt v) = .ok (.arr1 dt v) :=
  ⟨rfl, rfl, rfl, rfl⟩

/-- `from_array` never stores a value that was zero before the cast, but does store what the `uint8` cast
    turns into zero: `[0, 256, 257, 3]` becomes the stored row {1:0, 2:1, 3:3} -/
theorem from_array_stores_wrapped_zero :
    fromArray (.list1 [0, 256, 257, 3]) = .ok ⟨4, .u8, [[(1, 0), (2, 1), (3, 3)]]⟩ := by decide

/-- `zero_row`, `zero_matrix`, `empty_row`: nothing stored, `uint8`, the requested shape; `to_array` is all
    zero; only `empty_row` (and `zero_matrix` with zero rows) `is_empty`; all are `equal` to `0` -/
theorem zero_constructors (n r c : Nat) :
    zeroRow n = .ok ⟨n, .u8, [[]]⟩ ∧
    zeroMatrix [r, c] = .ok ⟨c, .u8, List.replicate r []⟩ ∧
    emptyRow n = .ok ⟨n, .u8, []⟩ ∧
    isEmpty (.csr ⟨n, .u8, [[]]⟩) = .ok false ∧
    isEmpty (.csr ⟨n, .u8, []⟩) = .ok true ∧
    isEmpty (.csr ⟨c, .u8, List.replicate r []⟩) = .ok (r == 0) ∧
    toArray (.csr ⟨n, .u8, [[]]⟩) = .ok (.arr2 .u8 n [List.replicate n 0]) ∧
    equal (.int 0) (.csr ⟨c, .u8, List.replicate r []⟩) = .ok true ∧
    (∀ i, isOne i (.csr ⟨c, .u8, List.replicate r []⟩) = .ok false) := by
  refine ⟨?_, ?_, ?_, rfl, rfl, ?_, ?_, ?_, ?_⟩
  · simp [zeroRow]
  · simp [zeroMatrix]
  · simp [emptyRow]
  · simp [isEmpty]
  · simp only [toArray, List.map_cons, List.map_nil, denseRow]
    congr 3
    apply List.ext_getElem <;> simp [denseVal, colSum, castRow, reduceIn]
  · simp [equal, equalInt, Csr.data]
  · intro i
    simp [isOne, Csr.indices]

/-- negative sizes are `ValueError`s; a shape that is not a pair is an error too -/
theorem constructors_reject (n : Int) (hn : n < 0) (k : Int) :
    zeroRow n = .error .valueError ∧ emptyRow n = .error .valueError ∧
    zeroMatrix [n, k] = .error .valueError ∧ zeroMatrix [k, n] = .error .valueError ∧
    zeroMatrix [] = .error .typeError ∧ zeroMatrix [k] = .error .valueError := by
  refine ⟨by simp [zeroRow, hn], by simp [emptyRow, hn], by simp [zeroMatrix, hn],
    by simp [zeroMatrix, hn], rfl, rfl⟩

/-- `is_sparse` is true for csr only; `is_empty` looks at the number of rows only -/
theorem is_sparse_is_empty (m : Csr) (dt : DT) (v : List Nat) (nc : Nat) (rows : List (List Nat)) :
    isSparse (.csr m) = true ∧ isSparse (.arr1 dt v) = false ∧ isSparse (.arr2 dt nc rows) = false ∧
    isSparse (.list1 v) = false ∧ isSparse (.list2 nc rows) = false ∧
    isEmpty (.csr m) = .ok (m.rows.length == 0) ∧ isEmpty (.arr2 dt nc rows) = .ok (rows.length == 0) :=
  ⟨rfl, rfl, rfl, rfl, rfl, rfl, rfl⟩

/-! ### non-vacuity -/

example : insertMod2 1 (.csr ⟨6, .i64, [[(3, 0), (1, 1), (1, 1), (0, 2)]]⟩) =
    .ok ⟨6, .u8, [[(0, 1), (3, 1)]]⟩ := by decide
example : insertMod2 5 (.csr ⟨6, .u8, [[(4, 1), (2, 1)]]⟩) = .ok ⟨6, .u8, [[(4, 1), (2, 1), (5, 1)]]⟩ := by
  decide
example : BSp.dot (.csr ⟨6, .u8, [[(4, 1), (2, 1), (5, 1)]]⟩) (.list1 [0, 0, 1, 0, 1, 0]) = .ok 0 := by decide
example : BSp.dot (.csr ⟨6, .u8, [[(4, 1), (2, 1), (5, 1)]]⟩) (.arr1 .i64 [1, 0, 0, 0, 1, 0]) = .ok 1 := by decide
example : BSp.dot (.csr ⟨6, .u8, [[(4, 1)]]⟩) (.csr ⟨5, .u8, [[(4, 1)]]⟩) = .error .valueError := by decide
example : equal (.csr ⟨3, .u8, [[(1, 200), (1, 100), (0, 1)]]⟩) (.csr ⟨3, .u8, [[(0, 1), (1, 44)]]⟩) = .ok true := by
  decide
example : equal (.csr ⟨3, .u8, [[(1, 200), (1, 100), (0, 1)]]⟩) (.csr ⟨3, .i64, [[(0, 1), (1, 300)]]⟩) = .ok true := by
  decide
example : hsplit (.csr ⟨5, .u8, [[]]⟩) = .error .valueError := by decide
example : (hstack [.csr ⟨2, .u8, [[(1, 1), (0, 0)], []]⟩, .csr ⟨2, .u8, [[(1, 7)], [(0, 1), (0, 1)]]⟩]
    >>= fun m => hsplit (.csr m)) =
    .ok (.csr ⟨2, .u8, [[(1, 1), (0, 0)], []]⟩, .csr ⟨2, .u8, [[(1, 7)], [(0, 1), (0, 1)]]⟩) := by decide
example : vstack [.csr ⟨3, .i64, [[(2, 300), (2, 1), (0, 256)]]⟩, .csr ⟨3, .u8, [[(1, 1)]]⟩] =
    .ok ⟨3, .u8, [[(0, 0), (2, 45)], [(1, 1)]]⟩ := by decide
example : (fromArray (.arr2 .u8 3 [[0, 255, 1], [0, 0, 0]]) >>= fun m => toArray (.csr m)) =
    .ok (.arr2 .u8 3 [[0, 255, 1], [0, 0, 0]]) := by decide

end Panqec.C03BSparse
