/-
C10 — companion of `Properties/C10.lean`: the lattice data of RotatedToric3DCode.

The C10 theorems about RotatedToric3DCode (`rotated_toric3D_flip_table_ok`, `…_sweep_tracks`, …) are
stated on the lattice record `Sweep.rotToric3D` of `Model/SweepLattices.lean`.  This file ties that
record, for every size, to the hand-written lattice model of the class that C01 / C17 verify
(`Model/Lattices/RotatedToric3DCode.lean`).  Kept in a file of its own because the two models
both call their record `Lattice`.  Helper lemmas: `Proofs/SweepRotToricBridge.lean`.
-/
import PanqecVerif.Proofs.SweepRotToricBridge

namespace Panqec.C10

open Panqec.Sweep

/-- ONE OBJECT.  The lattice data of RotatedToric3DCode used by the C10 theorems
    (`Model/SweepLattices.lean`) is, for every size, the hand-written lattice model of C01 / C17
    (`Model/Lattices/RotatedToric3DCode.lean`, the subject of `C01RotatedToric3DCode.valid_code`,
    `stabilizer_letter_rule`, …): the same qubit and stabilizer coordinates in the same order, the
    same `stabilizer_type`, and for every stabilizer the same `get_stabilizer` dict (same keys in
    the same order, same letters, on and off the defect lines). -/
theorem rotated_toric3D_lattice_is_the_C01_model (Lx Ly Lz : Nat) :
    (rotToric3D Lx Ly Lz).qubits.map toCoord = (Panqec.RotatedToric3DCode.lattice Lx Ly Lz).qubits ∧
    (rotToric3D Lx Ly Lz).stabs.map toCoord = (Panqec.RotatedToric3DCode.lattice Lx Ly Lz).stabs ∧
    (∀ s ∈ (rotToric3D Lx Ly Lz).stabs,
      toCOp ((rotToric3D Lx Ly Lz).stabOp s) =
        (Panqec.RotatedToric3DCode.lattice Lx Ly Lz).getStab (toCoord s)) ∧
    (∀ s ∈ (rotToric3D Lx Ly Lz).stabs,
      Panqec.RotatedToric3DCode.stabilizerType Lx Ly Lz (toCoord s) =
        some (if (rotToric3D Lx Ly Lz).isFace s then "face" else "vertex")) :=
  ⟨rotToric_qubits_agree Lx Ly Lz, rotToric_stabs_agree Lx Ly Lz,
    fun s hs => rotToric_stabOp_agree Lx Ly Lz s hs,
    fun s hs => rotToric_stabilizerType_agree Lx Ly Lz s hs⟩

/-- non-vacuity: the odd × even lattice 2×3×2 has 15 qubits and 16 stabilizers, 10 of them of
    type `'face'` -/
example : (rotToric3D 2 3 2).qubits.length = 15 ∧ (rotToric3D 2 3 2).stabs.length = 16 ∧
    ((rotToric3D 2 3 2).stabs.filter (rotToric3D 2 3 2).isFace).length = 10 := by decide +kernel

end Panqec.C10
