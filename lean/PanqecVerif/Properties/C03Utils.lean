/-
C03 (part) — the pure integer / list helpers of `panqec/utils.py` (`list_where`, `list_where_str`,
`set_where`, `dict_where`, `nested_map`, `face_coords`, `edge_coords`, `find_nearest`).
Model: `Model/UtilsPure.lean`, tied to the implementation by the stream `utils-pure-helpers`
(`harness/props/c03_utils.py`).  Helper lemmas: `Proofs/UtilsPure.lean`.
-/
import PanqecVerif.Proofs.UtilsPure

namespace Panqec.C03Utils

open Panqec.UtilsPure

/-- `list_where` of a 1-D array returns exactly the index tuples `(i,)` of its nonzero entries -/
theorem list_where_exact (v : List Int) (t : List Nat) :
    t ∈ listWhere1 v ↔ ∃ i, t = [i] ∧ i < v.length ∧ v.getD i 0 ≠ 0 := by
  unfold listWhere1
  rw [List.mem_map]
  constructor
  · rintro ⟨i, hi, rfl⟩
    have := (mem_idxNonzero 0 i v).mp hi
    exact ⟨i, rfl, by simpa using this.2.1, by simpa using this.2.2⟩
  · rintro ⟨i, rfl, h1, h2⟩
    exact ⟨i, (mem_idxNonzero 0 i v).mpr ⟨Nat.zero_le _, by simpa using h1, by simpa using h2⟩, rfl⟩

/-- … in ascending order without repetition (what `sorted` produces) -/
theorem list_where_sorted (v : List Int) :
    (listWhere1 v).Pairwise (fun s t => ∃ i j, s = [i] ∧ t = [j] ∧ i < j) := by
  unfold listWhere1
  rw [List.pairwise_map]
  exact (idxNonzero_sorted 0 v).imp (fun {a b} h => ⟨a, b, rfl, rfl, h⟩)

/-- `list_where` of a 2-D array: the pairs `(i, j)` of row `i`, preceded by those of the rows above -/
theorem list_where_2d_rows (r : List Int) (rs : List (List Int)) (i : Nat) :
    listWhere2Aux i (r :: rs) = (idxNonzero 0 r).map (fun j => [i, j]) ++ listWhere2Aux (i + 1) rs := rfl

/-- `dict_where` returns exactly the keys whose value is truthy -/
theorem dict_where_exact (d : List (Nat × Int)) (k : Nat) :
    k ∈ dictWhere d ↔ ∃ v, (k, v) ∈ d ∧ v ≠ 0 := by
  unfold dictWhere
  simp only [List.mem_map, List.mem_filter, decide_eq_true_eq]
  constructor
  · rintro ⟨⟨k', v⟩, ⟨h1, h2⟩, rfl⟩; exact ⟨v, h1, h2⟩
  · rintro ⟨v, h1, h2⟩; exact ⟨(k, v), ⟨h1, h2⟩, rfl⟩

/-- `find_nearest` raises on an empty array and otherwise returns an element of the array at minimal
    distance from the value -/
theorem find_nearest_is_nearest (arr : List Int) (x : Int) :
    (arr = [] → findNearest arr x = .error .valueError) ∧
    (arr ≠ [] → ∃ r, findNearest arr x = .ok r ∧ r ∈ arr ∧ ∀ a ∈ arr, (r - x).natAbs ≤ (a - x).natAbs) := by
  constructor
  · rintro rfl; rfl
  · intro h
    cases arr with
    | nil => exact absurd rfl h
    | cons a as => exact ⟨_, rfl, (nearestAux_spec x a as).1, (nearestAux_spec x a as).2⟩

/-- of two elements at the same minimal distance the earlier one is returned (numpy `argmin`) -/
theorem find_nearest_first_minimum : findNearest [5, 1, 9, 3] 4 = .ok 5 ∧ findNearest [3, 1, 9, 5] 4 = .ok 3 := by
  decide

/-- `face_coords` / `edge_coords` for positive sizes and a valid axis: every output coordinate lies in
    `[0, 2·size)`, is congruent to `2·(x,y,z) + offset` modulo `2·size`, and has the parity of the offset -/
theorem coords_one (diff : Nat → List Int) (d0 d1 d2 : Int) (i x y z a b c : Int) (k : Nat)
    (hk : pyIndex3 i = some k) (hd : diff k = [d0, d1, d2]) (ha : 0 < a) (hb : 0 < b) (hc : 0 < c) :
    ∃ p q r, coordOne diff [a, b, c] [i, x, y, z] = .ok [p, q, r] ∧
      (0 ≤ p ∧ p < 2 * a ∧ p % 2 = (2 * x + d0) % 2 ∧ (2 * a) ∣ (2 * x + d0 - p)) ∧
      (0 ≤ q ∧ q < 2 * b ∧ q % 2 = (2 * y + d1) % 2 ∧ (2 * b) ∣ (2 * y + d1 - q)) ∧
      (0 ≤ r ∧ r < 2 * c ∧ r % 2 = (2 * z + d2) % 2 ∧ (2 * c) ∣ (2 * z + d2 - r)) := by
  refine ⟨npMod (2 * x + d0) (2 * a), npMod (2 * y + d1) (2 * b), npMod (2 * z + d2) (2 * c), ?_,
    npMod_spec _ a ha, npMod_spec _ b hb, npMod_spec _ c hc⟩
  simp [coordOne, hk, limOf, hd]

/-- a face has exactly two odd coordinates, an edge exactly one (positive sizes, valid axis) -/
theorem face_two_odd_edge_one_odd (i x y z a b c : Int) (k : Nat) (hk : pyIndex3 i = some k)
    (ha : 0 < a) (hb : 0 < b) (hc : 0 < c) :
    (∃ p q r, coordOne faceDiff [a, b, c] [i, x, y, z] = .ok [p, q, r] ∧ p % 2 + q % 2 + r % 2 = 2) ∧
    (∃ p q r, coordOne edgeDiff [a, b, c] [i, x, y, z] = .ok [p, q, r] ∧ p % 2 + q % 2 + r % 2 = 1) := by
  have hk3 : k = 0 ∨ k = 1 ∨ k = 2 := by
    unfold pyIndex3 at hk
    by_cases h1 : 0 ≤ i ∧ i < 3
    · rw [if_pos h1] at hk; injection hk with hk; omega
    · rw [if_neg h1] at hk
      by_cases h2 : -3 ≤ i ∧ i < 0
      · rw [if_pos h2] at hk; injection hk with hk; omega
      · rw [if_neg h2] at hk; exact absurd hk (by simp)
  constructor
  · rcases hk3 with rfl | rfl | rfl
    · obtain ⟨p, q, r, h, hp, hq, hr⟩ := coords_one faceDiff 0 1 1 i x y z a b c 0 hk rfl ha hb hc
      exact ⟨p, q, r, h, by omega⟩
    · obtain ⟨p, q, r, h, hp, hq, hr⟩ := coords_one faceDiff 1 0 1 i x y z a b c 1 hk rfl ha hb hc
      exact ⟨p, q, r, h, by omega⟩
    · obtain ⟨p, q, r, h, hp, hq, hr⟩ := coords_one faceDiff 1 1 0 i x y z a b c 2 hk rfl ha hb hc
      exact ⟨p, q, r, h, by omega⟩
  · rcases hk3 with rfl | rfl | rfl
    · obtain ⟨p, q, r, h, hp, hq, hr⟩ := coords_one edgeDiff 1 0 0 i x y z a b c 0 hk rfl ha hb hc
      exact ⟨p, q, r, h, by omega⟩
    · obtain ⟨p, q, r, h, hp, hq, hr⟩ := coords_one edgeDiff 0 1 0 i x y z a b c 1 hk rfl ha hb hc
      exact ⟨p, q, r, h, by omega⟩
    · obtain ⟨p, q, r, h, hp, hq, hr⟩ := coords_one edgeDiff 0 0 1 i x y z a b c 2 hk rfl ha hb hc
      exact ⟨p, q, r, h, by omega⟩

/-- error rule of one item: wrong tuple length, then axis outside `-3..2`, then a size that does not
    broadcast against three coordinates -/
theorem coords_error_rule (diff : Nat → List Int) (size item : List Int) :
    (item.length ≠ 4 → coordOne diff size item = .error .valueError) ∧
    (∀ i x y z, item = [i, x, y, z] → pyIndex3 i = none → coordOne diff size item = .error .indexError) ∧
    (∀ i x y z k, item = [i, x, y, z] → pyIndex3 i = some k → size.length ≠ 1 → size.length ≠ 3 →
      coordOne diff size item = .error .valueError) := by
  refine ⟨?_, ?_, ?_⟩
  · intro h
    match item, h with
    | [], _ => rfl
    | [_], _ => rfl
    | [_, _], _ => rfl
    | [_, _, _], _ => rfl
    | [_, _, _, _], h => exact absurd rfl h
    | _ :: _ :: _ :: _ :: _ :: _, _ => rfl
  · rintro i x y z rfl hk; simp [coordOne, hk]
  · rintro i x y z k rfl hk h1 h3
    have : limOf size = none := by
      match size, h1, h3 with
      | [], _, _ => rfl
      | [_], h1, _ => exact absurd rfl h1
      | [_, _], _, _ => rfl
      | [_, _, _], _, h3 => exact absurd rfl h3
      | _ :: _ :: _ :: _ :: _, _, _ => rfl
    simp [coordOne, hk, this]

/-- `nested_map` keeps the nesting, applies the function to every leaf: identity and composition laws -/
theorem nested_map_functor (f g : Int → Int) (x : NL) (xs : List NL) :
    NL.map (fun v => v) x = x ∧ NL.map f (NL.map g x) = NL.map (fun v => f (g v)) x ∧
    NL.map f (.node xs) = .node (xs.map (NL.map f)) ∧ NL.map f (.leaf 3) = .leaf (f 3) := by
  refine ⟨NL.map_id x, NL.map_comp f g x, ?_, ?_⟩
  · rw [NL.map, NL.mapList_eq_map]
  · rw [NL.map]

/-! ### non-vacuity -/

example : listWhere1 [0, 2, 0, -1] = [[1], [3]] := by decide
example : listWhere2 [[0, 1], [1, 1]] = [[0, 1], [1, 0], [1, 1]] := by decide
example : whereStr (listWhere2 [[0, 0, 0, 0, 0, 0, 0, 0, 0, 0, 0, 0, 1], [1, 0]]) = "012 10" := by decide
example : dictWhere [(3, 1), (1, 0), (2, -1), (0, 1)] = [3, 2, 0] := by decide
example : faceCoords [[0, 1, 2, 3], [-1, 0, 0, 0], [2, -1, -1, -1]] [2, 3, 4] =
    .ok [[2, 5, 7], [1, 1, 0], [3, 5, 6]] := by decide
example : edgeCoords [[0, 1, 2, 3], [-1, 0, 0, 0], [2, -1, -1, -1]] [2, 3, 4] =
    .ok [[3, 4, 6], [0, 0, 1], [2, 4, 7]] := by decide
example : faceCoords [[3, 1, 2, 3]] [2, 3, 4] = .error .indexError := by decide
example : pyIndex3 (-1) = some 2 := by decide

end Panqec.C03Utils
