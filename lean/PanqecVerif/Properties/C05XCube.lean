/-
C05 for `XCubeMatchingDecoder` (`panqec/decoders/xcube/_xcube_matching_decoder.py`).

Model: `Model/XCubeDecoder.lean` — the whole pure-Python glue (sub-problem construction from the
lattice size, syndrome slicing, `get_matched_pairs`, `find_connected_components`, the projection and
loop scatters, `decode_plane`, minimum-weight choice, BP-OSD call, final sum mod 2) with PyMatching
and ldpc as parameters, on top of the all-sizes lattice models of `XCubeCode` and `Toric2DCode`.
It is tied to the implementation on every run (`harness/xcube_dec.py`): every sliced syndrome,
every solver answer, every helper result, the three scatter vectors and the returned vector (or
the `KeyError` and its key) are compared on every lattice in {2,3}³ and a few larger ones.

What is proved (every lattice size, every syndrome, every solver answer unless stated):

* a returned correction is a binary vector of length `2n` (no contract needed);
* the parity-check matrix of `XCubeCode` is CSS at every size; the Z half of the correction is the
  ldpc answer on `(Hx, pz+py, X-row syndrome)` and, under the ldpc contract, the correction
  reproduces the X-row (vertex-operator) syndrome; under the ldpc contracts the BP-OSD stage
  never fails;
* **no `KeyError` on any lattice with all sides ≥ 2** (`xcube_no_keyerror`): every dict look-up
  of `decode` (toric `stabilizer_index`, `plane_syndrome`, `connected_planes`, `neighbors` in
  `find_connected_components`, `qubit_index` in the projection, `state` in `decode_plane`,
  `qubit_index` in the loop scatter) finds its key, for every syndrome vector, every PyMatching /
  ldpc answer, every `list(set)` order that keeps the elements;
* regression (code before 869642d, `XCubeDec.old`: `decode_plane` always given `(Lx, Ly)`): the
  loop-scatter keys all exist iff `Lx ≤ Ly ≤ Lz` (`old_xcube_loop_keys_exist_iff_ascending`), no
  `KeyError` on such lattices (`old_xcube_no_keyerror_of_ascending`), kernel-evaluated `KeyError
  (1, 4, 0)` on `XCubeCode(3,2,2)`, X on qubit 0 (`old_xcube_keyerror_witness_322`), and a
  kernel-evaluated wrong cube syndrome on the ascending lattice 2×2×3
  (`old_xcube_cube_syndrome_not_reproduced_223`); the repaired model decodes both inputs to the
  error itself (`xcube_repaired_on_former_witnesses`).

Not claimed: that the cube (Z-row) syndrome is reproduced for every syndrome — that is the
correctness of the projection / loop-filling heuristic itself (it held on all 1 686 corrections the
repair was tried on, and is tested by the oracle); `XCubeMatchingDecoder` is not in the list of
complete decoders of C05.

Not proved: termination of the `while` walk of `get_matched_pairs` — it is false in general: the
walk follows the PyMatching answer and a cycle in the answer makes it run forever
(`get_matched_pairs_can_hang`; observed on the implementation with zero matching weights); the
model reports that as `XErr.hang`, exactly when the loop does not terminate
(`get_matched_pairs_fuel_exact`); the harness has a watchdog.  That the other exceptions (`IndexError` on a syndrome of the wrong
length, numpy shape errors when a solver answer has the wrong length) are the only ones left is
read off the model, not stated as a theorem.
-/
import PanqecVerif.Proofs.XCubeDecValid
import PanqecVerif.Proofs.XCubeDecKeys
import PanqecVerif.Proofs.XCubeDecCss
import PanqecVerif.Proofs.XCubeDecNoKeyError
import PanqecVerif.Proofs.XCubeDecWitness
import PanqecVerif.Proofs.XCubeDecWalk
import PanqecVerif.Properties.C05

namespace Panqec.C05XCube

open Panqec Panqec.XCube

variable {W : Type}

/-- the parity-check matrix of (undeformed) `XCubeCode(Lx, Ly, Lz)` is CSS, for every size -/
theorem xcube_lattice_is_css (Lx Ly Lz : Nat) :
    isCss ((stabilizerMatrix (codeData Lx Ly Lz none)).getD []) = true :=
  isCss_xcube Lx Ly Lz

/-- **Validity.**  For every decoder object (any lattice size, deformed or not), every state of
    its BP-OSD decoder, every syndrome vector and every answer of PyMatching and ldpc: if
    `decode` returns, the result is a binary vector of length `2n`. -/
theorem xcube_correction_valid (solve : WSolver W) (S : BpSolver) (castEv : Event Rat → Event W)
    (order : List Int → List Int) (d : XCubeDec W) (st : BpSt) (s c : Vec)
    (h : (d.decode solve S castEv order st s).2.val = .ok c) :
    c.length = 2 * d.n ∧ ∀ x ∈ c, x < 2 :=
  decode_valid solve S castEv order d st s c h

/-- **The Z half, every lattice size.**  On the decoder `__init__` builds for
    `XCubeCode(Lx, Ly, Lz)`, after any history of `decode` calls, for the syndrome of any error
    `e`: if `decode` returns `c`, then the second half of `c` is
    `ldpc(Hx, priors pz + py).decode(X-row syndrome)` and — ldpc contract on `Hx` — the X-row
    (vertex operator) syndrome of `c` is the measured one, whatever PyMatching answered. -/
theorem xcube_z_half_reproduces_x_rows (logOdds : Rat → W) (Lx Ly Lz : Nat) (px py pz : List Rat)
    (cfg : BpCfg) (d : XCubeDec W) (hnew : XCubeDec.new logOdds Lx Ly Lz none px py pz cfg = .ok d)
    (solve : WSolver W) (S : BpSolver) (castEv : Event Rat → Event W) (order : List Int → List Int)
    (hS : BpValidOn d.n S (Hx d.H)) (hist : List Vec) (e : Vec) (he : e.length = 2 * d.n) (c : Vec)
    (h : (d.decode solve S castEv order (d.run solve S castEv order BpSt.init hist)
          (measureSyndrome d.H e)).2.val = .ok c) :
    zPart c = S.decode (Hx d.H) true (raddv pz py) (extractXSyndrome d.H (measureSyndrome d.H e)) ∧
      extractXSyndrome d.H (measureSyndrome d.H c) = extractXSyndrome d.H (measureSyndrome d.H e) := by
  obtain ⟨_, _, _, _, _, hH, hzH, _, _, hpy, hpz, _⟩ := new_ok_fields logOdds Lx Ly Lz none px py pz cfg d hnew
  have hcss : isCss d.H = true := by rw [hH]; exact isCss_xcube Lx Ly Lz
  have hg := run_good solve S castEv order d hist BpSt.init d.zdec.good_init
  have := decode_xrows solve S castEv order d hzH hcss hS _ hg e he c h
  rwa [hpy, hpz] at this

/-- **The BP-OSD stage cannot fail** (ldpc contracts on `Hx` and `Hz`): on the decoder built for
    `XCubeCode(Lx, Ly, Lz)`, after any history, for the syndrome of any error, `decode` returns a
    correction whenever its matching part does. -/
theorem xcube_returns_when_matching_part_returns (logOdds : Rat → W) (Lx Ly Lz : Nat)
    (px py pz : List Rat) (cfg : BpCfg) (d : XCubeDec W)
    (hnew : XCubeDec.new logOdds Lx Ly Lz none px py pz cfg = .ok d)
    (solve : WSolver W) (S : BpSolver) (castEv : Event Rat → Event W) (order : List Int → List Int)
    (hSX : BpValidOn d.n S (Hz d.H)) (hSZ : BpValidOn d.n S (Hx d.H))
    (hist : List Vec) (e : Vec) (he : e.length = 2 * d.n) (pc : Vec)
    (hm : (matchingPart solve order d (measureSyndrome d.H e)).val = .ok pc) :
    ∃ c, (d.decode solve S castEv order (d.run solve S castEv order BpSt.init hist)
          (measureSyndrome d.H e)).2.val = .ok c := by
  obtain ⟨_, _, _, _, _, hH, hzH, hzn, _⟩ := new_ok_fields logOdds Lx Ly Lz none px py pz cfg d hnew
  have hcss : isCss d.H = true := by rw [hH]; exact isCss_xcube Lx Ly Lz
  have hg := run_good solve S castEv order d hist BpSt.init d.zdec.good_init
  exact decode_ok_of_matching_ok solve S castEv order d hzH hzn hcss hSX hSZ _ hg e he pc hm

/-- when the matching part raises, `decode` raises the same exception -/
theorem xcube_matching_error_propagates (solve : WSolver W) (S : BpSolver)
    (castEv : Event Rat → Event W) (order : List Int → List Int) (d : XCubeDec W) (st : BpSt)
    (s : Vec) (e : XErr) (h : (matchingPart solve order d s).val = .error e) :
    (d.decode solve S castEv order st s).2.val = .error e :=
  (decode_matching_error solve S castEv order d st s e h).1

/-! ### no `KeyError` -/

/-- shape of the decode result as far as `KeyError` goes: it can only come from the matching part -/
theorem decode_keyError_from_matching (solve : WSolver W) (S : BpSolver) (castEv : Event Rat → Event W)
    (order : List Int → List Int) (d : XCubeDec W) (st : BpSt) (s : Vec) (k : Coord)
    (hk : (d.decode solve S castEv order st s).2.val = .error (.keyError k)) :
    (matchingPart solve order d s).val = .error (.keyError k) := by
  cases hmv : (matchingPart solve order d s).val with
  | error e =>
    rw [(decode_matching_error solve S castEv order d st s e hmv).1] at hk
    exact hk
  | ok pc =>
    unfold XCubeDec.decode at hk
    simp only [hmv] at hk
    rw [Out.bind_val_ok hmv] at hk
    unfold liftBp at hk
    simp only at hk
    cases hz : (d.zdec.decode S st (restoreX d.H s)).2.2 with
    | error e =>
      rw [Out.bind_val_error (e := .dec e) (by simp [hz])] at hk
      cases hk
    | ok zc =>
      rw [Out.bind_val_ok (a := zc) (by simp [hz])] at hk
      split at hk <;> simp at hk

/-- `decode_plane(loops, (La, Lb))` only returns cells `(x', y')` with `x' < 2 La`, `y' < 2 Lb`,
    both even — whatever the loops -/
theorem decode_plane_returns_cells (loops : List Coord) (La Lb : Nat) (cs : List Coord)
    (h : (decodePlane loops La Lb : Out W _).val = .ok cs) : ∀ c ∈ cs, Cell La Lb c :=
  post_decodePlane loops La Lb cs h

/-- **No `KeyError`, every lattice with sides ≥ 2.**  For the decoder `__init__` builds on an
    undeformed `XCubeCode(Lx, Ly, Lz)` with `Lx, Ly, Lz ≥ 2` (ordered or not): for every state of
    its BP-OSD decoder, every syndrome vector (any length, any entries), every answer of PyMatching
    and ldpc and every `list(set)` order that keeps the elements, `decode` does not raise
    `KeyError`: each of its dict look-ups finds its key. -/
theorem xcube_no_keyerror (logOdds : Rat → W) (Lx Ly Lz : Nat) (px py pz : List Rat)
    (cfg : BpCfg) (d : XCubeDec W) (hnew : XCubeDec.new logOdds Lx Ly Lz none px py pz cfg = .ok d)
    (hx : 2 ≤ Lx) (hy : 2 ≤ Ly) (hz : 2 ≤ Lz)
    (solve : WSolver W) (S : BpSolver) (castEv : Event Rat → Event W) (order : List Int → List Int)
    (horder : ∀ l x, x ∈ order l ↔ x ∈ l) (st : BpSt) (s : Vec) (k : Coord) :
    (d.decode solve S castEv order st s).2.val ≠ .error (.keyError k) := by
  obtain ⟨h1, h2, h3, _, _, _, _, _, _, _, _, _, hp⟩ := new_ok_fields logOdds Lx Ly Lz none px py pz cfg d hnew
  have b := built_of_new logOdds Lx Ly Lz px py pz cfg (by omega) (by omega) (by omega) d hnew
  have hok : PlaneKeysOk d := planeKeysOk_current d b.geom.qubits (by rw [hp, h1, h2, h3])
  have hsz : ∀ proj, 1 ≤ (d.planeSizes proj).2 := by
    intro proj; rw [hp]; cases proj <;> simp only [planeSizesOf] <;> omega
  intro hk
  exact errs_matchingPart solve order horder d b (h1 ▸ hx) (h2 ▸ hy) (h3 ▸ hz) hok hsz s _
    (decode_keyError_from_matching solve S castEv order d st s k hk) k rfl

/-- the `list(set)` order used by the model driver (ascending) keeps the elements, so the theorem
    above applies to it -/
theorem ascending_keeps_elements (l : List Int) (x : Int) : x ∈ ascending l ↔ x ∈ l :=
  mem_ascending l x

/-! ### regression: the code before 869642d (`XCubeDec.old`, former finding D16) -/

/-- **Which lattices could raise.**  With `decode_plane(toric_loop, (Lx, Ly))` whatever the
    projection axis, the keys `tuple_insert(cell, proj_axis, plane)` the loop scatter looks up in
    `qubit_index` — over all cells of the `(Lx, Ly)` grid, all three projection axes and all planes
    of the projection axis — all exist iff `Lx ≤ Ly ≤ Lz`. -/
theorem old_xcube_loop_keys_exist_iff_ascending (Lx Ly Lz : Nat) (hx : 1 ≤ Lx) (hy : 1 ≤ Ly) (hz : 1 ≤ Lz) :
    LoopKeysOk Lx Ly Lz ↔ Lx ≤ Ly ∧ Ly ≤ Lz :=
  loopKeysOk_iff Lx Ly Lz hx hy hz

/-- the same for a decoder object: `XCubeDec.old` has all its loop-scatter keys iff the lattice is
    ascending, whereas the repaired object always has them -/
theorem old_vs_repaired_keys (logOdds : Rat → W) (Lx Ly Lz : Nat) (px py pz : List Rat)
    (cfg : BpCfg) (d : XCubeDec W) (hnew : XCubeDec.new logOdds Lx Ly Lz none px py pz cfg = .ok d)
    (hx : 1 ≤ Lx) (hy : 1 ≤ Ly) (hz : 1 ≤ Lz) :
    PlaneKeysOk d ∧ (PlaneKeysOk d.old ↔ Lx ≤ Ly ∧ Ly ≤ Lz) := by
  obtain ⟨h1, h2, h3, _, _, _, _, _, _, _, _, _, hp⟩ := new_ok_fields logOdds Lx Ly Lz none px py pz cfg d hnew
  have b := built_of_new logOdds Lx Ly Lz px py pz cfg hx hy hz d hnew
  refine ⟨planeKeysOk_current d b.geom.qubits (by rw [hp, h1, h2, h3]), ?_⟩
  have := planeKeysOk_old_iff d b.geom.qubits b.geom.hx b.geom.hy b.geom.hz
  rwa [h1, h2, h3] at this

/-- a returned cell whose 3-D location is not a qubit raises `KeyError` with that location -/
theorem xcube_loop_scatter_raises (d : XCubeDec W) (proj : Axis) (pp : Int) (c : Coord)
    (rest : List Coord) (pc : Vec) (h : tupleInsert c proj.toNat pp ∉ d.qubits) :
    (loopScatter d proj pp (c :: rest) pc).val = .error (.keyError (tupleInsert c proj.toNat pp)) :=
  loopScatter_raises d proj pp c rest pc h

/-- the old code raised no `KeyError` on lattices with `2 ≤ Lx ≤ Ly ≤ Lz` (all look-ups, all
    syndromes, all solver answers) -/
theorem old_xcube_no_keyerror_of_ascending (logOdds : Rat → W) (Lx Ly Lz : Nat) (px py pz : List Rat)
    (cfg : BpCfg) (d : XCubeDec W) (hnew : XCubeDec.new logOdds Lx Ly Lz none px py pz cfg = .ok d)
    (hx : 2 ≤ Lx) (hxy : Lx ≤ Ly) (hyz : Ly ≤ Lz)
    (solve : WSolver W) (S : BpSolver) (castEv : Event Rat → Event W) (order : List Int → List Int)
    (horder : ∀ l x, x ∈ order l ↔ x ∈ l) (st : BpSt) (s : Vec) (k : Coord) :
    (d.old.decode solve S castEv order st s).2.val ≠ .error (.keyError k) := by
  obtain ⟨h1, h2, h3, _⟩ := new_ok_fields logOdds Lx Ly Lz none px py pz cfg d hnew
  have b := built_of_new logOdds Lx Ly Lz px py pz cfg (by omega) (by omega) (by omega) d hnew
  have hok : PlaneKeysOk d.old :=
    (planeKeysOk_old_iff d b.geom.qubits b.geom.hx b.geom.hy b.geom.hz).mpr
      ⟨h1 ▸ h2 ▸ hxy, h2 ▸ h3 ▸ hyz⟩
  have hsz : ∀ proj, 1 ≤ (d.old.planeSizes proj).2 := fun _ => b.geom.hy
  intro hk
  exact errs_matchingPart solve order horder d.old (built_old b) (h1 ▸ hx)
    (show 2 ≤ d.Ly by rw [h2]; omega) (show 2 ≤ d.Lz by rw [h3]; omega) hok hsz s _
    (decode_keyError_from_matching solve S castEv order d.old st s k hk) k rfl

/-- **Witness of the former finding (kernel-evaluated).**  `XCubeCode(3, 2, 2)`, X error on qubit
    0, PyMatching answers that solve their sliced syndromes: the old `decode` raises
    `KeyError (1, 4, 0)`. -/
theorem old_xcube_keyerror_witness_322 :
    ∃ d, witnessDec 3 2 2 = .ok d ∧
      (witnessCall d.old (measureSyndrome d.H (xError 36 0))).val = .error (.keyError [1, 4, 0]) ∧
      answersSolve (witnessCall d.old (measureSyndrome d.H (xError 36 0))).events = true := by
  have h := keyErrorCheck322_true
  unfold keyErrorCheck322 at h
  split at h
  · cases h
  · rename_i d hd
    refine ⟨d, hd, ?_⟩
    simp only [Bool.and_eq_true] at h
    refine ⟨?_, h.2⟩
    have h1 := h.1
    split at h1
    · rename_i k hk
      rw [hk]
      simp only [beq_iff_eq] at h1
      rw [h1]
    · cases h1

/-- **The old code also returned wrong cube (Z-row) syndromes without raising (kernel-evaluated).**
    `XCubeCode(2, 2, 3)` — an ascending lattice — X error on qubit 2, PyMatching answers that solve
    their sliced syndromes, ldpc answering zero on the zero X-row syndrome: the old `decode` returns
    the zero vector, whose syndrome is not the measured one. -/
theorem old_xcube_cube_syndrome_not_reproduced_223 :
    ∃ d, witnessDec 2 2 3 = .ok d ∧
      (witnessCall d.old (measureSyndrome d.H (xError 36 2))).val = .ok (List.replicate 72 0) ∧
      answersSolve (witnessCall d.old (measureSyndrome d.H (xError 36 2))).events = true ∧
      measureSyndrome d.H (List.replicate 72 0) ≠ measureSyndrome d.H (xError 36 2) := by
  have h := cubeSyndromeCheck223_true
  unfold cubeSyndromeCheck223 at h
  split at h
  · cases h
  · rename_i d hd
    refine ⟨d, hd, ?_⟩
    simp only [Bool.and_eq_true, bne_iff_ne, ne_eq] at h
    refine ⟨?_, h.1.2, h.2⟩
    have h1 := h.1.1
    split at h1
    · rename_i c hc
      rw [hc]
      simp only [beq_iff_eq] at h1
      rw [h1]
    · cases h1

/-- **The repaired code on the two former witnesses (kernel-evaluated)**: with the same PyMatching
    answers, X on qubit 0 of 3×2×2 and X on qubit 2 of 2×2×3 are decoded to the error itself. -/
theorem xcube_repaired_on_former_witnesses :
    (∃ d, witnessDec 3 2 2 = .ok d ∧
      (witnessCall d (measureSyndrome d.H (xError 36 0))).val = .ok (xError 36 0)) ∧
    (∃ d, witnessDec 2 2 3 = .ok d ∧
      (witnessCall d (measureSyndrome d.H (xError 36 2))).val = .ok (xError 36 2)) := by
  constructor
  · have h := okCheck322_true
    unfold okCheck322 at h
    split at h
    · cases h
    · rename_i d hd
      refine ⟨d, hd, ?_⟩
      simp only [Bool.and_eq_true] at h
      have h1 := h.1
      split at h1
      · rename_i c hc
        rw [hc]
        simp only [beq_iff_eq] at h1
        rw [h1]
      · cases h1
  · have h := okCheck223_true
    unfold okCheck223 at h
    split at h
    · cases h
    · rename_i d hd
      refine ⟨d, hd, ?_⟩
      simp only [Bool.and_eq_true] at h
      have h1 := h.1
      split at h1
      · rename_i c hc
        rw [hc]
        simp only [beq_iff_eq] at h1
        rw [h1]
      · cases h1

/-! ### `get_matched_pairs` need not terminate -/

/-- a correction with a cycle through the syndrome vertex makes the walk of `get_matched_pairs`
    run forever (triangle graph, all three edges in the correction): the model reports `hang`.
    On the implementation this happens with zero matching weights, e.g. pure X noise at rate 1/2 on
    `XCubeCode(3,3,3)` (watchdog in the harness; the model stops at the same point). -/
theorem get_matched_pairs_can_hang :
    (matchedPairs [[1, 1, 0], [0, 1, 1], [1, 0, 1]] [1, 1, 1] [1, 0, 0] : Out Unit _).val = .error .hang := by
  decide

/-- **The model's `hang` is exact.**  The walk is deterministic on (stabilizer, previous qubit); on
    a matrix with `rows` rows of `cols` columns there are at most `rows · (cols + 1)` such states,
    so a walk that has not ended within the model's fuel `rows · (cols + 1) + 1` has repeated a
    state: it ends within no fuel at all, i.e. the Python `while` loop does not terminate
    (pigeonhole).  So the model reports `hang` only for inputs on which `get_matched_pairs` really
    runs forever. -/
theorem get_matched_pairs_fuel_exact (H : Mat) (corr : Vec)
    (hcols : ∀ r ∈ H, r.length = (H.headD []).length) (sp : Nat) (hsp : sp < H.length)
    (h : walk H corr (walkFuel H) sp none = none) : ∀ fuel, walk H corr fuel sp none = none :=
  walk_fuel_exact H corr hcols sp hsp h

/-- without the cycle the same call returns the matched pair -/
example : (matchedPairs [[1, 1, 0], [0, 1, 1], [1, 0, 1]] [1, 0, 0] [1, 0, 1] : Out Unit _).val
    = .ok [(0, 2)] := by decide

/-! ### non-vacuity -/

/-- on the cubic lattice 2×2×2 an X error on qubit 0 is decoded to itself (an `.ok` call, to which
    the theorems above apply) -/
example : okCheck222 = true := okCheck222_true

/-- the no-`KeyError` theorem applies to the decoder of the unordered 3×2×2 witness (an object
    that exists, the driver's order) -/
example (d : XCubeDec Unit) (h : witnessDec 3 2 2 = .ok d) (s : Vec) (k : Coord) :
    (witnessCall d s).val ≠ .error (.keyError k) :=
  xcube_no_keyerror (fun _ => ()) 3 2 2 _ _ _ witnessCfg d (by unfold witnessDec at h; exact h)
    (by decide) (by decide) (by decide)
    witnessSolve witnessBp dropPriors ascending ascending_keeps_elements BpSt.init s k

example : LoopKeysOk 2 2 3 := (old_xcube_loop_keys_exist_iff_ascending 2 2 3 (by decide) (by decide) (by decide)).mpr (by decide)
example : ¬ LoopKeysOk 3 2 2 := fun h =>
  absurd ((old_xcube_loop_keys_exist_iff_ascending 3 2 2 (by decide) (by decide) (by decide)).mp h) (by decide)

/-- the ldpc contract is satisfiable together with the other hypotheses of `decode_xrows`: a
    two-qubit decoder object on the CSS matrix (XX, ZZ) with the brute-force solver of `C05` -/
def toyBp : BpSolver := { decode := fun M _ _ sy => C05.bruteSolve2 M [] sy, converged := fun _ _ _ _ => true }

example : BpValidOn 2 toyBp (Hx C05.H2) := fun _ _ sy hf => C05.bruteSolve2_valid [] sy hf

end Panqec.C05XCube
