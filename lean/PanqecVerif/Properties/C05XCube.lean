/-
C05 for `XCubeMatchingDecoder` (`panqec/decoders/xcube/_xcube_matching_decoder.py`).

Model: `Model/XCubeDecoder.lean` — the whole pure-Python glue (sub-problem construction from the
lattice size, syndrome slicing, `get_matched_pairs`, `find_connected_components`, the projection and
loop scatters, `decode_plane`, minimum-weight choice, BP-OSD call, final sum mod 2) with PyMatching
and ldpc as parameters, on top of the all-sizes lattice models of `XCubeCode` and `Toric2DCode`.
It is tied to the implementation on every run (`harness/xcube_dec.py`): every sliced syndrome,
every solver answer, every helper result, the three scatter vectors and the returned vector (or
the `KeyError` and its key) are compared on every lattice in {2,3}³ and a few larger ones.

What is proved (every lattice size, every syndrome, every solver answer unless stated):

* a returned correction is a binary vector of length `2n` (no contract needed);
* the parity-check matrix of `XCubeCode` is CSS at every size; the Z half of the correction is the
  ldpc answer on `(Hx, pz+py, X-row syndrome)` and, under the ldpc contract, the correction
  reproduces the X-row (vertex-operator) syndrome; under the ldpc contracts the BP-OSD stage
  never fails;
* the look-up that raises: the loop scatter asks `qubit_index` for `tuple_insert(cell, proj_axis,
  plane)` with `cell` from the `(Lx, Ly)` grid of `decode_plane`; all those keys exist iff
  `Lx ≤ Ly ≤ Lz`; on the other lattices it raises `KeyError` as soon as `decode_plane` returns an
  offending cell — kernel-checked witness `XCubeCode(3,2,2)`, X on qubit 0, `KeyError (1, 4, 0)`
  (known finding D16);
* **no `KeyError` at all on lattices with `2 ≤ Lx ≤ Ly ≤ Lz`** (`xcube_no_keyerror_of_ascending`):
  every dict look-up of `decode` (toric `stabilizer_index`, `plane_syndrome`, `connected_planes`,
  `neighbors` in `find_connected_components`, `qubit_index` in the projection, `state` in
  `decode_plane`, `qubit_index` in the loop scatter) finds its key, for every syndrome vector, every
  PyMatching / ldpc answer, every `list(set)` order.

What is NOT true and therefore not claimed: the Z-row (cube) syndrome is not reproduced in general
— `xcube_cube_syndrome_not_reproduced_223` is a kernel-checked counterexample on the ascending
lattice 2×2×3 (X on qubit 2, PyMatching answers that satisfy its contract, result: the zero
vector).  `XCubeMatchingDecoder` is not a complete decoder in the sense of C05.

Not proved: termination of the `while` walk of `get_matched_pairs` (it follows the PyMatching
answer; a cycle in the answer would make it run forever — the model reports that as `XErr.hang`,
the harness has a watchdog); that the other exceptions (`IndexError` on a syndrome of the wrong
length, numpy shape errors when a solver answer has the wrong length) are the only ones left is
read off the model, not stated as a theorem.
-/
import PanqecVerif.Proofs.XCubeDecValid
import PanqecVerif.Proofs.XCubeDecKeys
import PanqecVerif.Proofs.XCubeDecCss
import PanqecVerif.Proofs.XCubeDecNoKeyError
import PanqecVerif.Proofs.XCubeDecWitness
import PanqecVerif.Properties.C05

namespace Panqec.C05XCube

open Panqec Panqec.XCube

variable {W : Type}

/-- the parity-check matrix of (undeformed) `XCubeCode(Lx, Ly, Lz)` is CSS, for every size -/
theorem xcube_lattice_is_css (Lx Ly Lz : Nat) :
    isCss ((stabilizerMatrix (codeData Lx Ly Lz none)).getD []) = true :=
  isCss_xcube Lx Ly Lz

/-- **Validity.**  For every decoder object (any lattice size, deformed or not), every state of
    its BP-OSD decoder, every syndrome vector and every answer of PyMatching and ldpc: if
    `decode` returns, the result is a binary vector of length `2n`. -/
theorem xcube_correction_valid (solve : WSolver W) (S : BpSolver) (castEv : Event Rat → Event W)
    (order : List Int → List Int) (d : XCubeDec W) (st : BpSt) (s c : Vec)
    (h : (d.decode solve S castEv order st s).2.val = .ok c) :
    c.length = 2 * d.n ∧ ∀ x ∈ c, x < 2 :=
  decode_valid solve S castEv order d st s c h

/-- **The Z half, every lattice size.**  On the decoder `__init__` builds for
    `XCubeCode(Lx, Ly, Lz)`, after any history of `decode` calls, for the syndrome of any error
    `e`: if `decode` returns `c`, then the second half of `c` is
    `ldpc(Hx, priors pz + py).decode(X-row syndrome)` and — ldpc contract on `Hx` — the X-row
    (vertex operator) syndrome of `c` is the measured one, whatever PyMatching answered. -/
theorem xcube_z_half_reproduces_x_rows (logOdds : Rat → W) (Lx Ly Lz : Nat) (px py pz : List Rat)
    (cfg : BpCfg) (d : XCubeDec W) (hnew : XCubeDec.new logOdds Lx Ly Lz none px py pz cfg = .ok d)
    (solve : WSolver W) (S : BpSolver) (castEv : Event Rat → Event W) (order : List Int → List Int)
    (hS : BpValidOn d.n S (Hx d.H)) (hist : List Vec) (e : Vec) (he : e.length = 2 * d.n) (c : Vec)
    (h : (d.decode solve S castEv order (d.run solve S castEv order BpSt.init hist)
          (measureSyndrome d.H e)).2.val = .ok c) :
    zPart c = S.decode (Hx d.H) true (raddv pz py) (extractXSyndrome d.H (measureSyndrome d.H e)) ∧
      extractXSyndrome d.H (measureSyndrome d.H c) = extractXSyndrome d.H (measureSyndrome d.H e) := by
  obtain ⟨_, _, _, _, _, hH, hzH, _, _, hpy, hpz, _⟩ := new_ok_fields logOdds Lx Ly Lz none px py pz cfg d hnew
  have hcss : isCss d.H = true := by rw [hH]; exact isCss_xcube Lx Ly Lz
  have hg := run_good solve S castEv order d hist BpSt.init d.zdec.good_init
  have := decode_xrows solve S castEv order d hzH hcss hS _ hg e he c h
  rwa [hpy, hpz] at this

/-- **The BP-OSD stage cannot fail** (ldpc contracts on `Hx` and `Hz`): on the decoder built for
    `XCubeCode(Lx, Ly, Lz)`, after any history, for the syndrome of any error, `decode` returns a
    correction whenever its matching part does. -/
theorem xcube_returns_when_matching_part_returns (logOdds : Rat → W) (Lx Ly Lz : Nat)
    (px py pz : List Rat) (cfg : BpCfg) (d : XCubeDec W)
    (hnew : XCubeDec.new logOdds Lx Ly Lz none px py pz cfg = .ok d)
    (solve : WSolver W) (S : BpSolver) (castEv : Event Rat → Event W) (order : List Int → List Int)
    (hSX : BpValidOn d.n S (Hz d.H)) (hSZ : BpValidOn d.n S (Hx d.H))
    (hist : List Vec) (e : Vec) (he : e.length = 2 * d.n) (pc : Vec)
    (hm : (matchingPart solve order d (measureSyndrome d.H e)).val = .ok pc) :
    ∃ c, (d.decode solve S castEv order (d.run solve S castEv order BpSt.init hist)
          (measureSyndrome d.H e)).2.val = .ok c := by
  obtain ⟨_, _, _, _, _, hH, hzH, hzn, _⟩ := new_ok_fields logOdds Lx Ly Lz none px py pz cfg d hnew
  have hcss : isCss d.H = true := by rw [hH]; exact isCss_xcube Lx Ly Lz
  have hg := run_good solve S castEv order d hist BpSt.init d.zdec.good_init
  exact decode_ok_of_matching_ok solve S castEv order d hzH hzn hcss hSX hSZ _ hg e he pc hm

/-- when the matching part raises, `decode` raises the same exception -/
theorem xcube_matching_error_propagates (solve : WSolver W) (S : BpSolver)
    (castEv : Event Rat → Event W) (order : List Int → List Int) (d : XCubeDec W) (st : BpSt)
    (s : Vec) (e : XErr) (h : (matchingPart solve order d s).val = .error e) :
    (d.decode solve S castEv order st s).2.val = .error e :=
  (decode_matching_error solve S castEv order d st s e h).1

/-! ### the `KeyError` (known finding D16) -/

/-- `decode_plane(loops, (Lx, Ly))` only returns cells `(x', y')` with `x' < 2 Lx`, `y' < 2 Ly`,
    both even — whatever the loops and whatever the projection axis -/
theorem decode_plane_returns_cells (loops : List Coord) (Lx Ly : Nat) (cs : List Coord)
    (h : (decodePlane loops Lx Ly : Out W _).val = .ok cs) : ∀ c ∈ cs, Cell Lx Ly c :=
  post_decodePlane loops Lx Ly cs h

/-- **Which lattices can raise.**  The keys `tuple_insert(cell, proj_axis, plane)` the loop scatter
    looks up in `qubit_index` — over all cells of the `(Lx, Ly)` grid, all three projection axes
    and all planes of the projection axis — all exist iff `Lx ≤ Ly ≤ Lz`. -/
theorem xcube_loop_keys_exist_iff_ascending (Lx Ly Lz : Nat) (hx : 1 ≤ Lx) (hy : 1 ≤ Ly) (hz : 1 ≤ Lz) :
    LoopKeysOk Lx Ly Lz ↔ Lx ≤ Ly ∧ Ly ≤ Lz :=
  loopKeysOk_iff Lx Ly Lz hx hy hz

/-- on a lattice with `Lx ≤ Ly ≤ Lz` the loop scatter raises nothing, for every list of cells
    (in particular every result of `decode_plane`), every plane and every vector -/
theorem xcube_loop_scatter_safe_of_ascending (d : XCubeDec W)
    (hq : d.qubits = XCubeCode.qubits d.Lx d.Ly d.Lz) (hx : 1 ≤ d.Lx) (hxy : d.Lx ≤ d.Ly)
    (hyz : d.Ly ≤ d.Lz) (proj : Axis) (pp : Int) (hpp : Lat3Db.R1 (2 * d.side proj) pp)
    (coords : List Coord) (hc : ∀ c ∈ coords, Cell d.Lx d.Ly c) (pc : Vec) :
    ∃ v, (loopScatter d proj pp coords pc).val = .ok v := by
  have hok := (loopKeysOk_iff d.Lx d.Ly d.Lz hx (by omega) (by omega)).mpr ⟨hxy, hyz⟩
  have := errs_loopScatter_ascending d hq hok proj pp hpp coords hc pc
  cases hv : (loopScatter d proj pp coords pc).val with
  | ok v => exact ⟨v, rfl⟩
  | error e => exact (this e hv).elim

/-- a returned cell whose 3-D location is not a qubit raises `KeyError` with that location -/
theorem xcube_loop_scatter_raises (d : XCubeDec W) (proj : Axis) (pp : Int) (c : Coord)
    (rest : List Coord) (pc : Vec) (h : tupleInsert c proj.toNat pp ∉ d.qubits) :
    (loopScatter d proj pp (c :: rest) pc).val = .error (.keyError (tupleInsert c proj.toNat pp)) :=
  loopScatter_raises d proj pp c rest pc h

/-- **No `KeyError` on ascending lattices.**  For the decoder `__init__` builds on an undeformed
    `XCubeCode(Lx, Ly, Lz)` with `2 ≤ Lx ≤ Ly ≤ Lz`: for every state of its BP-OSD decoder, every
    syndrome vector (any length, any entries), every answer of PyMatching and ldpc and every
    `list(set)` order that keeps the elements, `decode` does not raise `KeyError` — together with
    `xcube_loop_keys_exist_iff_ascending` and the witness below this is the characterisation of
    known finding D16. -/
theorem xcube_no_keyerror_of_ascending (logOdds : Rat → W) (Lx Ly Lz : Nat) (px py pz : List Rat)
    (cfg : BpCfg) (d : XCubeDec W) (hnew : XCubeDec.new logOdds Lx Ly Lz none px py pz cfg = .ok d)
    (hx : 2 ≤ Lx) (hxy : Lx ≤ Ly) (hyz : Ly ≤ Lz)
    (solve : WSolver W) (S : BpSolver) (castEv : Event Rat → Event W) (order : List Int → List Int)
    (horder : ∀ l x, x ∈ order l ↔ x ∈ l) (st : BpSt) (s : Vec) (k : Coord) :
    (d.decode solve S castEv order st s).2.val ≠ .error (.keyError k) := by
  obtain ⟨h1, h2, h3, _⟩ := new_ok_fields logOdds Lx Ly Lz none px py pz cfg d hnew
  have b := built_of_new logOdds Lx Ly Lz px py pz cfg (by omega) (by omega) (by omega) d hnew
  have hm := errs_matchingPart solve order horder d b (h1 ▸ hx) (h1 ▸ h2 ▸ hxy) (h2 ▸ h3 ▸ hyz) s
  intro hk
  cases hmv : (matchingPart solve order d s).val with
  | error e =>
    rw [(decode_matching_error solve S castEv order d st s e hmv).1] at hk
    cases hk
    exact hm _ hmv k rfl
  | ok pc =>
    unfold XCubeDec.decode at hk
    simp only [hmv] at hk
    rw [Out.bind_val_ok hmv] at hk
    unfold liftBp at hk
    simp only at hk
    cases hz : (d.zdec.decode S st (restoreX d.H s)).2.2 with
    | error e =>
      rw [Out.bind_val_error (e := .dec e) (by simp [hz])] at hk
      cases hk
    | ok zc =>
      rw [Out.bind_val_ok (a := zc) (by simp [hz])] at hk
      split at hk <;> simp at hk

/-- the `list(set)` order used by the model driver (ascending) keeps the elements, so the theorem
    above applies to it -/
theorem ascending_keeps_elements (l : List Int) (x : Int) : x ∈ ascending l ↔ x ∈ l :=
  mem_ascending l x

/-- **Witness of the finding (kernel-checked).**  `XCubeCode(3, 2, 2)`, X error on qubit 0,
    PyMatching answers that solve their sliced syndromes: `decode` raises `KeyError (1, 4, 0)`. -/
theorem xcube_keyerror_witness_322 :
    ∃ d, witnessDec 3 2 2 = .ok d ∧
      (witnessCall d (measureSyndrome d.H (xError 36 0))).val = .error (.keyError [1, 4, 0]) ∧
      answersSolve (witnessCall d (measureSyndrome d.H (xError 36 0))).events = true := by
  have h := keyErrorCheck322_true
  unfold keyErrorCheck322 at h
  split at h
  · cases h
  · rename_i d hd
    refine ⟨d, hd, ?_⟩
    simp only [Bool.and_eq_true] at h
    refine ⟨?_, h.2⟩
    have h1 := h.1
    split at h1
    · rename_i k hk
      rw [hk]
      simp only [beq_iff_eq] at h1
      rw [h1]
    · cases h1

/-- **The cube (Z-row) syndrome is not reproduced in general (kernel-checked counterexample).**
    `XCubeCode(2, 2, 3)` — an ascending lattice, no exception — X error on qubit 2, PyMatching
    answers that solve their sliced syndromes, ldpc answering zero on the zero X-row syndrome:
    `decode` returns the zero vector, whose syndrome is not the measured one. -/
theorem xcube_cube_syndrome_not_reproduced_223 :
    ∃ d, witnessDec 2 2 3 = .ok d ∧
      (witnessCall d (measureSyndrome d.H (xError 36 2))).val = .ok (List.replicate 72 0) ∧
      answersSolve (witnessCall d (measureSyndrome d.H (xError 36 2))).events = true ∧
      measureSyndrome d.H (List.replicate 72 0) ≠ measureSyndrome d.H (xError 36 2) := by
  have h := cubeSyndromeCheck223_true
  unfold cubeSyndromeCheck223 at h
  split at h
  · cases h
  · rename_i d hd
    refine ⟨d, hd, ?_⟩
    simp only [Bool.and_eq_true, bne_iff_ne, ne_eq] at h
    refine ⟨?_, h.1.2, h.2⟩
    have h1 := h.1.1
    split at h1
    · rename_i c hc
      rw [hc]
      simp only [beq_iff_eq] at h1
      rw [h1]
    · cases h1

/-! ### non-vacuity -/

/-- on the cubic lattice 2×2×2 an X error on qubit 0 is decoded to itself (an `.ok` call, to which
    the theorems above apply) -/
example : okCheck222 = true := okCheck222_true

/-- the no-`KeyError` theorem applies to the decoder of the 2×2×3 witness above (an object that
    exists, an ascending lattice, the driver's order) -/
example (d : XCubeDec Unit) (h : witnessDec 2 2 3 = .ok d) (s : Vec) (k : Coord) :
    (witnessCall d s).val ≠ .error (.keyError k) :=
  xcube_no_keyerror_of_ascending (fun _ => ()) 2 2 3 _ _ _ witnessCfg d (by unfold witnessDec at h; exact h)
    (by decide) (by decide) (by decide)
    witnessSolve witnessBp dropPriors ascending ascending_keeps_elements BpSt.init s k

example : LoopKeysOk 2 2 3 := (xcube_loop_keys_exist_iff_ascending 2 2 3 (by decide) (by decide) (by decide)).mpr (by decide)
example : ¬ LoopKeysOk 3 2 2 := fun h =>
  absurd ((xcube_loop_keys_exist_iff_ascending 3 2 2 (by decide) (by decide) (by decide)).mp h) (by decide)

/-- the ldpc contract is satisfiable together with the other hypotheses of `decode_xrows`: a
    two-qubit decoder object on the CSS matrix (XX, ZZ) with the brute-force solver of `C05` -/
def toyBp : BpSolver := { decode := fun M _ _ sy => C05.bruteSolve2 M [] sy, converged := fun _ _ _ _ => true }

example : BpValidOn 2 toyBp (Hx C05.H2) := fun _ _ sy hf => C05.bruteSolve2_valid [] sy hf

end Panqec.C05XCube
