/-
C05 for `XCubeMatchingDecoder` (`panqec/decoders/xcube/_xcube_matching_decoder.py`).

Model: `Model/XCubeDecoder.lean` — the whole pure-Python glue (sub-problem construction from the
lattice size, syndrome slicing, `get_matched_pairs`, `find_connected_components`, the projection and
loop scatters, `decode_plane`, minimum-weight choice, BP-OSD call, final sum mod 2) with PyMatching
and ldpc as parameters, on top of the all-sizes lattice models of `XCubeCode` and `Toric2DCode`.
It is tied to the implementation on every run (`harness/xcube_dec.py`): every sliced syndrome,
every solver answer, every helper result, the three scatter vectors and the returned vector (or
the `KeyError` and its key) are compared on every lattice in {2,3}³ and a few larger ones.

What is proved (every lattice size, every syndrome, every solver answer unless stated):

* a returned correction is a binary vector of length `2n` (no contract needed);
* the parity-check matrix of `XCubeCode` is CSS at every size; the Z half of the correction is the
  ldpc answer on `(Hx, pz+py, X-row syndrome)` and, under the ldpc contract, the correction
  reproduces the X-row (vertex-operator) syndrome; under the ldpc contracts the BP-OSD stage
  never fails;
* the look-up that raises: the loop scatter asks `qubit_index` for `tuple_insert(cell, proj_axis,
  plane)` with `cell` from the `(Lx, Ly)` grid of `decode_plane`; all those keys exist iff
  `Lx ≤ Ly ≤ Lz`; on such lattices the scatter never raises, on the others it raises `KeyError`
  as soon as `decode_plane` returns an offending cell — kernel-checked witness
  `XCubeCode(3,2,2)`, X on qubit 0, `KeyError (1, 4, 0)` (known finding D16).

What is NOT true and therefore not claimed: the Z-row (cube) syndrome is not reproduced in general
— `xcube_cube_syndrome_not_reproduced_223` is a kernel-checked counterexample on the ascending
lattice 2×2×3 (X on qubit 2, PyMatching answers that satisfy its contract, result: the zero
vector).  `XCubeMatchingDecoder` is not a complete decoder in the sense of C05.

Not proved (stated as `…_partial`): absence of `KeyError` from the *other* dict look-ups of
`decode` (toric `stabilizer_index`, `plane_syndrome`, `connected_planes`, `qubit_index` in the
projection, `state` in `decode_plane`) for all sizes; these are exercised by the correspondence.
-/
import PanqecVerif.Proofs.XCubeDecValid
import PanqecVerif.Proofs.XCubeDecKeys
import PanqecVerif.Proofs.XCubeDecCss
import PanqecVerif.Properties.C05

namespace Panqec.C05XCube

open Panqec Panqec.XCube

variable {W : Type}

/-- the parity-check matrix of (undeformed) `XCubeCode(Lx, Ly, Lz)` is CSS, for every size -/
theorem xcube_lattice_is_css (Lx Ly Lz : Nat) :
    isCss ((stabilizerMatrix (codeData Lx Ly Lz none)).getD []) = true :=
  isCss_xcube Lx Ly Lz

/-- **Validity.**  For every decoder object (any lattice size, deformed or not), every state of
    its BP-OSD decoder, every syndrome vector and every answer of PyMatching and ldpc: if
    `decode` returns, the result is a binary vector of length `2n`. -/
theorem xcube_correction_valid (solve : WSolver W) (S : BpSolver) (castEv : Event Rat → Event W)
    (order : List Int → List Int) (d : XCubeDec W) (st : BpSt) (s c : Vec)
    (h : (d.decode solve S castEv order st s).2.val = .ok c) :
    c.length = 2 * d.n ∧ ∀ x ∈ c, x < 2 :=
  decode_valid solve S castEv order d st s c h

/-- **The Z half, every lattice size.**  On the decoder `__init__` builds for
    `XCubeCode(Lx, Ly, Lz)`, after any history of `decode` calls, for the syndrome of any error
    `e`: if `decode` returns `c`, then the second half of `c` is
    `ldpc(Hx, priors pz + py).decode(X-row syndrome)` and — ldpc contract on `Hx` — the X-row
    (vertex operator) syndrome of `c` is the measured one, whatever PyMatching answered. -/
theorem xcube_z_half_reproduces_x_rows (logOdds : Rat → W) (Lx Ly Lz : Nat) (px py pz : List Rat)
    (cfg : BpCfg) (d : XCubeDec W) (hnew : XCubeDec.new logOdds Lx Ly Lz none px py pz cfg = .ok d)
    (solve : WSolver W) (S : BpSolver) (castEv : Event Rat → Event W) (order : List Int → List Int)
    (hS : BpValidOn d.n S (Hx d.H)) (hist : List Vec) (e : Vec) (he : e.length = 2 * d.n) (c : Vec)
    (h : (d.decode solve S castEv order (d.run solve S castEv order BpSt.init hist)
          (measureSyndrome d.H e)).2.val = .ok c) :
    zPart c = S.decode (Hx d.H) true (raddv pz py) (extractXSyndrome d.H (measureSyndrome d.H e)) ∧
      extractXSyndrome d.H (measureSyndrome d.H c) = extractXSyndrome d.H (measureSyndrome d.H e) := by
  obtain ⟨_, _, _, _, _, hH, hzH, _, _, hpy, hpz, _⟩ := new_ok_fields logOdds Lx Ly Lz none px py pz cfg d hnew
  have hcss : isCss d.H = true := by rw [hH]; exact isCss_xcube Lx Ly Lz
  have hg := run_good solve S castEv order d hist BpSt.init d.zdec.good_init
  have := decode_xrows solve S castEv order d hzH hcss hS _ hg e he c h
  rwa [hpy, hpz] at this

/-- **The BP-OSD stage cannot fail** (ldpc contracts on `Hx` and `Hz`): on the decoder built for
    `XCubeCode(Lx, Ly, Lz)`, after any history, for the syndrome of any error, `decode` returns a
    correction whenever its matching part does. -/
theorem xcube_returns_when_matching_part_returns (logOdds : Rat → W) (Lx Ly Lz : Nat)
    (px py pz : List Rat) (cfg : BpCfg) (d : XCubeDec W)
    (hnew : XCubeDec.new logOdds Lx Ly Lz none px py pz cfg = .ok d)
    (solve : WSolver W) (S : BpSolver) (castEv : Event Rat → Event W) (order : List Int → List Int)
    (hSX : BpValidOn d.n S (Hz d.H)) (hSZ : BpValidOn d.n S (Hx d.H))
    (hist : List Vec) (e : Vec) (he : e.length = 2 * d.n) (pc : Vec)
    (hm : (matchingPart solve order d (measureSyndrome d.H e)).val = .ok pc) :
    ∃ c, (d.decode solve S castEv order (d.run solve S castEv order BpSt.init hist)
          (measureSyndrome d.H e)).2.val = .ok c := by
  obtain ⟨_, _, _, _, _, hH, hzH, hzn, _⟩ := new_ok_fields logOdds Lx Ly Lz none px py pz cfg d hnew
  have hcss : isCss d.H = true := by rw [hH]; exact isCss_xcube Lx Ly Lz
  have hg := run_good solve S castEv order d hist BpSt.init d.zdec.good_init
  exact decode_ok_of_matching_ok solve S castEv order d hzH hzn hcss hSX hSZ _ hg e he pc hm

/-- when the matching part raises, `decode` raises the same exception -/
theorem xcube_matching_error_propagates (solve : WSolver W) (S : BpSolver)
    (castEv : Event Rat → Event W) (order : List Int → List Int) (d : XCubeDec W) (st : BpSt)
    (s : Vec) (e : XErr) (h : (matchingPart solve order d s).val = .error e) :
    (d.decode solve S castEv order st s).2.val = .error e :=
  (decode_matching_error solve S castEv order d st s e h).1

/-! ### the `KeyError` (known finding D16) -/

/-- `decode_plane(loops, (Lx, Ly))` only returns cells `(x', y')` with `x' < 2 Lx`, `y' < 2 Ly`,
    both even — whatever the loops and whatever the projection axis -/
theorem decode_plane_returns_cells (loops : List Coord) (Lx Ly : Nat) (cs : List Coord)
    (h : (decodePlane loops Lx Ly : Out W _).val = .ok cs) : ∀ c ∈ cs, Cell Lx Ly c :=
  post_decodePlane loops Lx Ly cs h

/-- **Which lattices can raise.**  The keys `tuple_insert(cell, proj_axis, plane)` the loop scatter
    looks up in `qubit_index` — over all cells of the `(Lx, Ly)` grid, all three projection axes
    and all planes of the projection axis — all exist iff `Lx ≤ Ly ≤ Lz`. -/
theorem xcube_loop_keys_exist_iff_ascending (Lx Ly Lz : Nat) (hx : 1 ≤ Lx) (hy : 1 ≤ Ly) (hz : 1 ≤ Lz) :
    LoopKeysOk Lx Ly Lz ↔ Lx ≤ Ly ∧ Ly ≤ Lz :=
  loopKeysOk_iff Lx Ly Lz hx hy hz

/-- on a lattice with `Lx ≤ Ly ≤ Lz` the loop scatter raises nothing, for every list of cells
    (in particular every result of `decode_plane`), every plane and every vector -/
theorem xcube_loop_scatter_safe_of_ascending (d : XCubeDec W)
    (hq : d.qubits = XCubeCode.qubits d.Lx d.Ly d.Lz) (hx : 1 ≤ d.Lx) (hxy : d.Lx ≤ d.Ly)
    (hyz : d.Ly ≤ d.Lz) (proj : Axis) (pp : Int) (hpp : Lat3Db.R1 (2 * d.side proj) pp)
    (coords : List Coord) (hc : ∀ c ∈ coords, Cell d.Lx d.Ly c) (pc : Vec) :
    ∃ v, (loopScatter d proj pp coords pc).val = .ok v := by
  have hok := (loopKeysOk_iff d.Lx d.Ly d.Lz hx (by omega) (by omega)).mpr ⟨hxy, hyz⟩
  have := errs_loopScatter_ascending d hq hok proj pp hpp coords hc pc
  cases hv : (loopScatter d proj pp coords pc).val with
  | ok v => exact ⟨v, rfl⟩
  | error e => exact (this e hv).elim

/-- a returned cell whose 3-D location is not a qubit raises `KeyError` with that location -/
theorem xcube_loop_scatter_raises (d : XCubeDec W) (proj : Axis) (pp : Int) (c : Coord)
    (rest : List Coord) (pc : Vec) (h : tupleInsert c proj.toNat pp ∉ d.qubits) :
    (loopScatter d proj pp (c :: rest) pc).val = .error (.keyError (tupleInsert c proj.toNat pp)) :=
  loopScatter_raises d proj pp c rest pc h

/-- PyMatching's answers in the two kernel-checked witnesses below (each is a solution of the
    sliced syndrome it was asked for, which the witnesses check) -/
def witnessSolve : WSolver Unit := fun M _ sy =>
  if sy == [1, 1, 1, 1] then [0, 0, 0, 0, 1, 1, 0, 0]
  else if sy == [1, 1, 0, 0, 0, 0] then [1, 0, 0, 0, 0, 0, 0, 0, 0, 0, 0, 0]
  else if sy == [0, 1, 1, 0, 1, 1] then [0, 0, 0, 0, 0, 0, 0, 1, 1, 0, 0, 0]
  else if sy == [0, 1, 1, 0, 0, 0] then [0, 0, 1, 0, 0, 0, 0, 0, 0, 0, 0, 0]
  else if sy == [1, 1, 0, 0] then [1, 0, 0, 0, 0, 0, 0, 0]
  else List.replicate (M.headD []).length 0

/-- ldpc on a zero syndrome: the zero vector -/
def witnessBp : BpSolver :=
  { decode := fun M _ _ _ => List.replicate (M.headD []).length 0, converged := fun _ _ _ _ => true }

def witnessCfg : BpCfg := ⟨1/8, 1000, 10, "minimum_sum", false⟩

/-- the decoder for `XCubeCode(Lx, Ly, Lz)` with uniform priors -/
def witnessDec (Lx Ly Lz : Nat) : Except XErr (XCubeDec Unit) :=
  let p := List.replicate (3 * Lx * Ly * Lz) (1/16 : Rat)
  XCubeDec.new (fun _ => ()) Lx Ly Lz none p p p witnessCfg

/-- the BP-OSD decoder's events without their priors -/
def dropPriors : Event Rat → Event Unit
  | .ctor m s er mi oo bm => .ctor m s er mi oo bm
  | .update m p => .update m p
  | .decode m w s a => .decode m (w.map fun _ => ()) s a
  | .sub s a => .sub s a

/-- X error on qubit `q` of `n` qubits -/
def xError (n q : Nat) : Vec := (List.replicate (2 * n) 0).set q 1

/-- every recorded PyMatching answer solves the sliced syndrome it was asked for -/
def answersSolve (ev : List (Event Unit)) : Bool :=
  ev.all fun e => match e with
    | .decode M _ sy a => sectorSyndrome M a == sy
    | _ => true

/-- one call on a fresh decoder object -/
def witnessCall (d : XCubeDec Unit) (s : Vec) : Out Unit Vec :=
  (d.decode witnessSolve witnessBp dropPriors ascending BpSt.init s).2

/-- executable form of `xcube_keyerror_witness_322` -/
def keyErrorCheck322 : Bool :=
  match witnessDec 3 2 2 with
  | .error _ => false
  | .ok d =>
    let r := witnessCall d (measureSyndrome d.H (xError 36 0))
    (match r.val with
      | .error (.keyError k) => k == [1, 4, 0]
      | _ => false) && answersSolve r.events

set_option maxRecDepth 100000 in
theorem keyErrorCheck322_true : keyErrorCheck322 = true := by decide +kernel

/-- **Witness of the finding (kernel-checked).**  `XCubeCode(3, 2, 2)`, X error on qubit 0,
    PyMatching answers that solve their sliced syndromes: `decode` raises `KeyError (1, 4, 0)`. -/
theorem xcube_keyerror_witness_322 :
    ∃ d, witnessDec 3 2 2 = .ok d ∧
      (witnessCall d (measureSyndrome d.H (xError 36 0))).val = .error (.keyError [1, 4, 0]) ∧
      answersSolve (witnessCall d (measureSyndrome d.H (xError 36 0))).events = true := by
  have h := keyErrorCheck322_true
  unfold keyErrorCheck322 at h
  split at h
  · cases h
  · rename_i d hd
    refine ⟨d, hd, ?_⟩
    simp only [Bool.and_eq_true] at h
    refine ⟨?_, h.2⟩
    have h1 := h.1
    split at h1
    · rename_i k hk
      rw [hk]
      simp only [beq_iff_eq] at h1
      rw [h1]
    · cases h1

/-- executable form of `xcube_cube_syndrome_not_reproduced_223` -/
def cubeSyndromeCheck223 : Bool :=
  match witnessDec 2 2 3 with
  | .error _ => false
  | .ok d =>
    let s := measureSyndrome d.H (xError 36 2)
    let r := witnessCall d s
    (match r.val with
      | .ok c => c == List.replicate 72 0
      | _ => false) && answersSolve r.events && (measureSyndrome d.H (List.replicate 72 0) != s)

set_option maxRecDepth 100000 in
theorem cubeSyndromeCheck223_true : cubeSyndromeCheck223 = true := by decide +kernel

/-- **The cube (Z-row) syndrome is not reproduced in general (kernel-checked counterexample).**
    `XCubeCode(2, 2, 3)` — an ascending lattice, no exception — X error on qubit 2, PyMatching
    answers that solve their sliced syndromes, ldpc answering zero on the zero X-row syndrome:
    `decode` returns the zero vector, whose syndrome is not the measured one. -/
theorem xcube_cube_syndrome_not_reproduced_223 :
    ∃ d, witnessDec 2 2 3 = .ok d ∧
      (witnessCall d (measureSyndrome d.H (xError 36 2))).val = .ok (List.replicate 72 0) ∧
      answersSolve (witnessCall d (measureSyndrome d.H (xError 36 2))).events = true ∧
      measureSyndrome d.H (List.replicate 72 0) ≠ measureSyndrome d.H (xError 36 2) := by
  have h := cubeSyndromeCheck223_true
  unfold cubeSyndromeCheck223 at h
  split at h
  · cases h
  · rename_i d hd
    refine ⟨d, hd, ?_⟩
    simp only [Bool.and_eq_true, bne_iff_ne, ne_eq] at h
    refine ⟨?_, h.1.2, h.2⟩
    have h1 := h.1.1
    split at h1
    · rename_i c hc
      rw [hc]
      simp only [beq_iff_eq] at h1
      rw [h1]
    · cases h1

/-! ### non-vacuity -/

/-- on the cubic lattice 2×2×2 the same kind of X error is decoded to itself (an `.ok` call, to
    which the theorems above apply) -/
def okCheck222 : Bool :=
  match witnessDec 2 2 2 with
  | .error _ => false
  | .ok d =>
    match (witnessCall d (measureSyndrome d.H (xError 24 0))).val with
    | .ok c => c == xError 24 0
    | _ => false

set_option maxRecDepth 100000 in
example : okCheck222 = true := by decide +kernel

example : LoopKeysOk 2 2 3 := (xcube_loop_keys_exist_iff_ascending 2 2 3 (by decide) (by decide) (by decide)).mpr (by decide)
example : ¬ LoopKeysOk 3 2 2 := fun h =>
  absurd ((xcube_loop_keys_exist_iff_ascending 3 2 2 (by decide) (by decide) (by decide)).mp h) (by decide)

/-- the ldpc contract is satisfiable together with the other hypotheses of `decode_xrows`: a
    two-qubit decoder object on the CSS matrix (XX, ZZ) with the brute-force solver of `C05` -/
def toyBp : BpSolver := { decode := fun M _ _ sy => C05.bruteSolve2 M [] sy, converged := fun _ _ _ _ => true }

example : BpValidOn 2 toyBp (Hx C05.H2) := fun _ _ sy hf => C05.bruteSolve2_valid [] sy hf

end Panqec.C05XCube
