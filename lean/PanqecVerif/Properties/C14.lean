/-
C14 — parallel runs execute exactly the requested trials per input.

Property theorems only; the model is `Model/Cli.lean` (`taskPlan`, `runParallel`), helper
lemmas are in `Proofs/CliPlanSpike.lean` and `Proofs/CliPlan.lean`.
All statements hold for every number of inputs `I ≥ 1`, nodes `N`, cores `C`, trials `T`
with `I ≤ N*C` (no size bound).
-/
import PanqecVerif.Proofs.CliPlan

namespace Panqec.C14

open Panqec.Cli

/-- With at least as many tasks as inputs, a valid job index and a core count the machine
    has, `run_parallel` raises nothing and starts exactly the tasks
    `taskPlan I N C T job 0 … taskPlan I N C T job (C-1)`, in this order. -/
theorem run_parallel_does_not_raise (I N C cpu T job : Nat) (hI : 0 < I) (hC : 0 < C)
    (hcpu : C ≤ cpu) (hj : 1 ≤ job ∧ job ≤ N) (hle : I ≤ N * C) :
    runParallel I N C cpu T job = .ok ((List.range C).map (taskPlan I N C T job)) := by
  unfold runParallel
  have h0 : ¬ C = 0 := by omega
  have hq : ¬ N * C / I = 0 := by
    have := Nat.div_pos hle hI; omega
  have hI0 : ¬ I = 0 := by omega
  simp [hj, h0, hcpu, hq, hI0]

/-- an absent `--n_cores` means "all cores of the machine" -/
theorem run_parallel_default_cores (I N cpu T job : Nat) :
    runParallel I N 0 cpu T job = runParallel I N cpu cpu T job ∨ cpu = 0 := by
  by_cases h : cpu = 0
  · exact Or.inr h
  · left; unfold runParallel; simp [h]

/-- the only configuration error after the guards is the division by zero, and it occurs
    exactly when there are fewer tasks than inputs -/
theorem run_parallel_zero_division_iff (I N C cpu T job : Nat) (hI : 0 < I) (hC : 0 < C)
    (hcpu : C ≤ cpu) (hj : 1 ≤ job ∧ job ≤ N) :
    runParallel I N C cpu T job = .error .zeroDivision ↔ N * C < I := by
  unfold runParallel
  have h0 : ¬ C = 0 := by omega
  have hI0 : ¬ I = 0 := by omega
  have hdiv : N * C / I = 0 ↔ N * C < I := by
    rw [Nat.div_eq_zero_iff]; omega
  by_cases hlt : N * C < I
  · simp [hj, h0, hcpu, hI0, hdiv.mpr hlt, hlt]
  · have : ¬ N * C / I = 0 := fun h => hlt (hdiv.mp h)
    simp [hj, h0, hcpu, hI0, this, hlt]

/-- every task works on an existing input file -/
theorem task_input_exists (I N C T job core : Nat) (hI : 0 < I) :
    (taskPlan I N C T job core).input < I := by
  simp only [taskPlan, inputOf]
  split <;> omega

/-- **Conservation.** The tasks started by all nodes `job = 1..N` together run exactly `T`
    trials on every input `j`. -/
theorem trials_conserved (I N C T j : Nat) (hI : 0 < I) (hle : I ≤ N * C) (hj : j < I) :
    trialsFor j (allTasks I N C T) = T := by
  rw [trialsFor_allTasks, sumRuns_eq_total _ _ _ _ _ hI]
  exact Plan.run_parallel_conserves I (N * C) T j hI hle hj

/-- every input is worked on by exactly `N*C / I` tasks, the last input by `N*C / I + N*C % I`
    (in particular by at least one) -/
theorem tasks_per_input (I N C T j : Nat) (hI : 0 < I) (hle : I ≤ N * C) (hj : j < I) :
    ((allTasks I N C T).filter (fun t => t.input == j)).length =
      (if j = I - 1 then N * C / I + N * C % I else N * C / I) := by
  rw [tasksFor_allTasks, countTasks_eq_cnt _ _ _ hI, plan_count I (N * C) j hI hle hj]
  rfl

/-- `allTasks` is what the `N` invocations of `run_parallel` start, node after node -/
theorem all_tasks_are_the_nodes_tasks (I N C cpu T : Nat) (hI : 0 < I) (hC : 0 < C)
    (hcpu : C ≤ cpu) (hle : I ≤ N * C) :
    (List.range N).map (fun n => runParallel I N C cpu T (n + 1)) =
      (List.range N).map (fun n => .ok ((List.range C).map (taskPlan I N C T (n + 1)))) := by
  apply List.map_congr_left
  intro n hn
  have := List.mem_range.mp hn
  exact run_parallel_does_not_raise I N C cpu T (n + 1) hI hC hcpu ⟨by omega, by omega⟩ hle

/-- every task gets at least one trial when the trials cover the tasks of one input
    (`N*C / I + N*C % I` is the largest number of tasks any input has) -/
theorem every_task_runs (I N C T job core : Nat) (hI : 0 < I) (hle : I ≤ N * C)
    (hT : N * C / I + N * C % I ≤ T) : 1 ≤ (taskPlan I N C T job core).nRuns := by
  have hq : 0 < N * C / I := Nat.div_pos hle hI
  simp only [taskPlan, runsOf]
  generalize inputOf (N * C / I) I (taskIndex C job core) = j
  have htp : 0 < tpi (N * C / I) (N * C % I) I j ∧ tpi (N * C / I) (N * C % I) I j ≤ T := by
    unfold tpi; split <;> omega
  have := Nat.div_pos htp.2 htp.1
  split <;> omega

/-- result files of different tasks (any two distinct (node, core) pairs) are different -/
theorem result_files_distinct (I N C T job job' core core' : Nat)
    (hc : core < C) (hc' : core' < C) (hj : 1 ≤ job) (hj' : 1 ≤ job')
    (h : (taskPlan I N C T job core).resultFile = (taskPlan I N C T job' core').resultFile) :
    job = job' ∧ core = core' := by
  simp only [taskPlan] at h
  exact taskIndex_injective C job job' core core' hc hc' hj hj' (resultName_injective _ _ _ h)

/-- the same for the progress logs -/
theorem log_files_distinct (I N C T job job' core core' : Nat)
    (hc : core < C) (hc' : core' < C) (hj : 1 ≤ job) (hj' : 1 ≤ job')
    (h : (taskPlan I N C T job core).logFile = (taskPlan I N C T job' core').logFile) :
    job = job' ∧ core = core' := by
  simp only [taskPlan] at h
  exact taskIndex_injective C job job' core core' hc hc' hj hj' (progressName_injective _ _ _ h)

/-- the number in a result file name is the global task number `i_task + 1` -/
theorem result_file_number (nT t : Nat) : strVal (taskNumber nT t) = t + 1 :=
  strVal_taskNumber nT t

/-- Regression example (defect D2, repaired by 51dca01): with the historical remainder
    `trials % n_runs` one input on 4 tasks asked for 10 trials ran only 8. -/
theorem old_remainder_loses_trials : allRunsOld 1 4 10 0 = 8 := by decide

/-! non-vacuity: 3 inputs, 2 nodes × 4 cores, 17 trials -/
example : trialsFor 2 (allTasks 3 2 4 17) = 17 := by decide
example : (allTasks 3 2 4 17).map (fun t => (t.input, t.nRuns)) =
    [(0, 8), (0, 9), (1, 8), (1, 9), (2, 4), (2, 4), (2, 4), (2, 5)] := by decide
example : (taskPlan 3 2 6 17 2 3).resultFile = "results_10.json.gz".toList := by decide
example : (taskPlan 3 2 6 17 1 3).resultFile = "results_04.json.gz".toList := by decide
example : runParallel 5 2 2 8 17 1 = .error .zeroDivision := by rfl

end Panqec.C14
