/-
C14 — parallel runs execute exactly the requested trials per input.

Property theorems only; the model is `Model/Cli.lean` (`taskPlan`, `runParallel`), helper
lemmas are in `Proofs/CliPlanSpike.lean` and `Proofs/CliPlan.lean`.
All statements hold for every number of inputs `I ≥ 1`, nodes `N`, cores `C`, trials `T`
with `I ≤ N*C` (no size bound).

Second part (end of the file): what a task does with its `n_runs` — the body `run_file`
(`Model/RunFile.lean` = `Model/Spec.lean` expansion ∘ `Model/Batch.lean` protocol; helper lemmas
in `Proofs/RunFile.lean`) — and the composition plan → run.
-/
import PanqecVerif.Proofs.CliPlan
import PanqecVerif.Proofs.RunFile
import PanqecVerif.Model.Sim

namespace Panqec.C14

open Panqec.Cli

/-- With at least as many tasks as inputs, a valid job index and a core count the machine
    has, `run_parallel` raises nothing and starts exactly the tasks
    `taskPlan I N C T job 0 … taskPlan I N C T job (C-1)`, in this order. -/
theorem run_parallel_does_not_raise (I N C cpu T job : Nat) (hI : 0 < I) (hC : 0 < C)
    (hcpu : C ≤ cpu) (hj : 1 ≤ job ∧ job ≤ N) (hle : I ≤ N * C) :
    runParallel I N C cpu T job = .ok ((List.range C).map (taskPlan I N C T job)) := by
  unfold runParallel
  have h0 : ¬ C = 0 := by omega
  have hq : ¬ N * C / I = 0 := by
    have := Nat.div_pos hle hI; omega
  have hI0 : ¬ I = 0 := by omega
  simp [hj, h0, hcpu, hq, hI0]

/-- an absent `--n_cores` means "all cores of the machine" -/
theorem run_parallel_default_cores (I N cpu T job : Nat) :
    runParallel I N 0 cpu T job = runParallel I N cpu cpu T job ∨ cpu = 0 := by
  by_cases h : cpu = 0
  · exact Or.inr h
  · left; unfold runParallel; simp [h]

/-- the only configuration error after the guards is the division by zero, and it occurs
    exactly when there are fewer tasks than inputs -/
theorem run_parallel_zero_division_iff (I N C cpu T job : Nat) (hI : 0 < I) (hC : 0 < C)
    (hcpu : C ≤ cpu) (hj : 1 ≤ job ∧ job ≤ N) :
    runParallel I N C cpu T job = .error .zeroDivision ↔ N * C < I := by
  unfold runParallel
  have h0 : ¬ C = 0 := by omega
  have hI0 : ¬ I = 0 := by omega
  have hdiv : N * C / I = 0 ↔ N * C < I := by
    rw [Nat.div_eq_zero_iff]; omega
  by_cases hlt : N * C < I
  · simp [hj, h0, hcpu, hI0, hdiv.mpr hlt, hlt]
  · have : ¬ N * C / I = 0 := fun h => hlt (hdiv.mp h)
    simp [hj, h0, hcpu, hI0, this, hlt]

/-- every task works on an existing input file -/
theorem task_input_exists (I N C T job core : Nat) (hI : 0 < I) :
    (taskPlan I N C T job core).input < I := by
  simp only [taskPlan, inputOf]
  split <;> omega

/-- **Conservation.** The tasks started by all nodes `job = 1..N` together run exactly `T`
    trials on every input `j`. -/
theorem trials_conserved (I N C T j : Nat) (hI : 0 < I) (hle : I ≤ N * C) (hj : j < I) :
    trialsFor j (allTasks I N C T) = T := by
  rw [trialsFor_allTasks, sumRuns_eq_total _ _ _ _ _ hI]
  exact Plan.run_parallel_conserves I (N * C) T j hI hle hj

/-- every input is worked on by exactly `N*C / I` tasks, the last input by `N*C / I + N*C % I`
    (in particular by at least one) -/
theorem tasks_per_input (I N C T j : Nat) (hI : 0 < I) (hle : I ≤ N * C) (hj : j < I) :
    ((allTasks I N C T).filter (fun t => t.input == j)).length =
      (if j = I - 1 then N * C / I + N * C % I else N * C / I) := by
  rw [tasksFor_allTasks, countTasks_eq_cnt _ _ _ hI, plan_count I (N * C) j hI hle hj]
  rfl

/-- `allTasks` is what the `N` invocations of `run_parallel` start, node after node -/
theorem all_tasks_are_the_nodes_tasks (I N C cpu T : Nat) (hI : 0 < I) (hC : 0 < C)
    (hcpu : C ≤ cpu) (hle : I ≤ N * C) :
    (List.range N).map (fun n => runParallel I N C cpu T (n + 1)) =
      (List.range N).map (fun n => .ok ((List.range C).map (taskPlan I N C T (n + 1)))) := by
  apply List.map_congr_left
  intro n hn
  have := List.mem_range.mp hn
  exact run_parallel_does_not_raise I N C cpu T (n + 1) hI hC hcpu ⟨by omega, by omega⟩ hle

/-- every task gets at least one trial when the trials cover the tasks of one input
    (`N*C / I + N*C % I` is the largest number of tasks any input has) -/
theorem every_task_runs (I N C T job core : Nat) (hI : 0 < I) (hle : I ≤ N * C)
    (hT : N * C / I + N * C % I ≤ T) : 1 ≤ (taskPlan I N C T job core).nRuns := by
  have hq : 0 < N * C / I := Nat.div_pos hle hI
  simp only [taskPlan, runsOf]
  generalize inputOf (N * C / I) I (taskIndex C job core) = j
  have htp : 0 < tpi (N * C / I) (N * C % I) I j ∧ tpi (N * C / I) (N * C % I) I j ≤ T := by
    unfold tpi; split <;> omega
  have := Nat.div_pos htp.2 htp.1
  split <;> omega

/-- result files of different tasks (any two distinct (node, core) pairs) are different -/
theorem result_files_distinct (I N C T job job' core core' : Nat)
    (hc : core < C) (hc' : core' < C) (hj : 1 ≤ job) (hj' : 1 ≤ job')
    (h : (taskPlan I N C T job core).resultFile = (taskPlan I N C T job' core').resultFile) :
    job = job' ∧ core = core' := by
  simp only [taskPlan] at h
  exact taskIndex_injective C job job' core core' hc hc' hj hj' (resultName_injective _ _ _ h)

/-- the same for the progress logs -/
theorem log_files_distinct (I N C T job job' core core' : Nat)
    (hc : core < C) (hc' : core' < C) (hj : 1 ≤ job) (hj' : 1 ≤ job')
    (h : (taskPlan I N C T job core).logFile = (taskPlan I N C T job' core').logFile) :
    job = job' ∧ core = core' := by
  simp only [taskPlan] at h
  exact taskIndex_injective C job job' core core' hc hc' hj hj' (progressName_injective _ _ _ h)

/-- the number in a result file name is the global task number `i_task + 1` -/
theorem result_file_number (nT t : Nat) : strVal (taskNumber nT t) = t + 1 :=
  strVal_taskNumber nT t

/-- Regression example (defect D2, repaired by 51dca01): with the historical remainder
    `trials % n_runs` one input on 4 tasks asked for 10 trials ran only 8. -/
theorem old_remainder_loses_trials : allRunsOld 1 4 10 0 = 8 := by decide

/-! non-vacuity: 3 inputs, 2 nodes × 4 cores, 17 trials -/
example : trialsFor 2 (allTasks 3 2 4 17) = 17 := by decide
example : (allTasks 3 2 4 17).map (fun t => (t.input, t.nRuns)) =
    [(0, 8), (0, 9), (1, 8), (1, 9), (2, 4), (2, 4), (2, 4), (2, 5)] := by decide
example : (taskPlan 3 2 6 17 2 3).resultFile = "results_10.json.gz".toList := by decide
example : (taskPlan 3 2 6 17 1 3).resultFile = "results_04.json.gz".toList := by decide
example : runParallel 5 2 2 8 17 1 = .error .zeroDivision := by rfl

/-! ## the task body `run_file`, and plan → run -/

open Panqec.RunFile Panqec.Batch in
/-- **`run_file` completes the requested trials.**  Let the input file expand (`read_input_dict`)
    to the batch `b` of direct simulations, at least one, pairwise different (`idents` numbers
    them by their recorded inputs), and let the results file be in any admissible state before
    the task (`UniformFile`): absent (`k = 0`), or a complete well-formed document holding a
    record with `k` trials for every expanded simulation and nothing else — the state a
    `run_file(…, k)` call leaves.  Then, for every `n_trials = n`, output format and trial
    counter, `run_file` raises nothing and returns with the batch of the specification (label,
    method, simulations); the run has ended (`done`) within the model's step bound; the
    results file is absent or a complete document; for **every expanded simulation** it holds
    (`Holds`) a record carrying that simulation's identity with exactly `max k n` trials and
    three result lists of exactly that length (no file at all only when `max k n = 0`); it has
    records of expanded simulations only, each simulation once. -/
theorem run_file_completes_requested_trials (spec : Spec.Spec) (b : Spec.Batch) (fmt : Fmt)
    (pre : FileSt) (next0 k n : Nat)
    (hread : Spec.readInputDict spec = .ok b)
    (hdirect : b.sims.any (·.splitting) = false)
    (hne : idents b.sims ≠ []) (hnd : (idents b.sims).Nodup)
    (hpre : UniformFile pre (idents b.sims) k next0) :
    ∃ res, runFile spec fmt pre next0 n = .ok res ∧
      res.label = b.label ∧ res.method = b.method ∧ res.sims = b.sims ∧
      res.ids = idents b.sims ∧ res.final.proc.pc = .done ∧
      (res.final.disk.file = .absent ∨ ∃ d, res.final.disk.file = .complete d) ∧
      (∀ x ∈ idents b.sims, Holds res.final.disk.file x (max k n) ∧
        trialsRecorded res.final.disk.file x = max k n) ∧
      (∀ r ∈ docOf res.final.disk.file, r.inputs ∈ idents b.sims) ∧
      ((docOf res.final.disk.file).map (·.inputs)).Nodup := by
  obtain ⟨hdone, hfile, hholds, hsub, hnodup⟩ :=
    runBatch_uniform fmt pre next0 (idents b.sims) k n hne hnd hpre
  have heq : runFile spec fmt pre next0 n = .ok ⟨b.label, b.method, b.sims, idents b.sims,
      firstTrialOf (startProc (initWorld fmt pre next0) (idents b.sims) n saveFrequency).proc.pc,
      runBatch fmt pre next0 (idents b.sims) n⟩ := by
    unfold runFile
    simp only [hread, hdirect, Bool.false_eq_true, if_false, hdone]
  exact ⟨_, heq, rfl, rfl, rfl, rfl, hdone, hfile,
    fun x hx => ⟨hholds x hx, trialsRecorded_of_holds (hholds x hx)⟩, hsub, hnodup⟩

open Panqec.RunFile Panqec.Batch in
/-- the same for a task that starts without a results file (every task of `run_parallel`
    after `--delete-existing`, or in a fresh data directory): each simulation ends with exactly
    `n` trials -/
theorem run_file_from_scratch (fmt : Fmt) (ids : List Nat) (n x : Nat)
    (hne : ids ≠ []) (hnd : ids.Nodup) (hx : x ∈ ids) :
    trialsRecorded (runBatch fmt .absent 0 ids n).disk.file x = n := by
  have := (runBatch_uniform fmt .absent 0 ids 0 n hne hnd (Or.inl ⟨rfl, rfl⟩)).2.2.1 x hx
  rw [Nat.zero_max] at this
  exact trialsRecorded_of_holds this

open Panqec.RunFile Panqec.Batch in
/-- **Plan, then run: the trials arrive.**  `I ≥ 1` input files on `N` nodes × `C` cores with
    `I ≤ N·C`; every task of the plan of `run_parallel` executes `run_file` on its own results
    file, starting without one.  Then for every input `j` and every simulation `x` of its
    (non-empty, duplicate-free) expansion `ids`, the trials recorded for `x` in the result files
    of the tasks of `j` — what `merge-results` and `Analysis` add up — sum to exactly the
    requested `T`.  (Composition of `trials_conserved` with `run_file_from_scratch`.) -/
theorem plan_then_run_conserves_trials (fmt : Fmt) (ids : List Nat) (I N C T j x : Nat)
    (hI : 0 < I) (hle : I ≤ N * C) (hj : j < I)
    (hne : ids ≠ []) (hnd : ids.Nodup) (hx : x ∈ ids) :
    pipelineTrials fmt ids (allTasks I N C T) j x = T := by
  unfold pipelineTrials
  have : ((allTasks I N C T).filter (fun t => t.input == j)).map (fun t =>
      trialsRecorded (runBatch fmt .absent 0 ids t.nRuns).disk.file x) =
      ((allTasks I N C T).filter (fun t => t.input == j)).map (·.nRuns) :=
    List.map_congr_left fun t _ => run_file_from_scratch fmt ids t.nRuns x hne hnd hx
  rw [this]
  exact trials_conserved I N C T j hI hle hj

/-- the record of the protocol model advances like the trial bookkeeping of
    `DirectSimulation._run` (`Model/Sim.lean`): one trial adds one to `n_runs` and one entry to
    each of the three result lists -/
theorem record_shape_is_the_trial_bookkeeping (cfg : Sim.Config) (u : Nat → Rat)
    (s s' : Sim.State) (r : Batch.Sim) (id : Nat) (h : Sim.step cfg u s = .ok s')
    (hr : r.nRuns = s.nRuns ∧ r.ee.length = s.effectiveError.length ∧
      r.su.length = s.success.length ∧ r.cs.length = s.codespace.length) :
    (r.runOne id).nRuns = s'.nRuns ∧ (r.runOne id).ee.length = s'.effectiveError.length ∧
      (r.runOne id).su.length = s'.success.length ∧ (r.runOne id).cs.length = s'.codespace.length := by
  unfold Sim.step at h
  split at h
  · cases h
  · cases h
    simp only [Batch.Sim.runOne, List.length_append, List.length_singleton]
    omega

/-! non-vacuity: three simulations, first 2 trials from scratch, then 5 on the file left behind;
    a 2-node × 2-core plan on 3 inputs -/
section
open Panqec.RunFile Panqec.Batch

example : (runBatch .gz .absent 0 [0, 1, 2] 2).disk.file =
    .complete [⟨0, 2, [0, 3], [0, 3], [0, 3]⟩, ⟨1, 2, [1, 4], [1, 4], [1, 4]⟩,
               ⟨2, 2, [2, 5], [2, 5], [2, 5]⟩] := by decide +kernel

/-- the file a first task leaves is an admissible state for the next one -/
example : UniformFile (.complete [⟨0, 2, [0, 3], [0, 3], [0, 3]⟩, ⟨1, 2, [1, 4], [1, 4], [1, 4]⟩,
    ⟨2, 2, [2, 5], [2, 5], [2, 5]⟩]) [0, 1, 2] 2 6 :=
  Or.inr ⟨_, rfl, ⟨by decide, by simp [Sim.WF], by decide⟩, by decide, by decide⟩

example : shapeOf (runBatch .json (runBatch .json .absent 0 [0, 1, 2] 2).disk.file 6 [0, 1, 2] 5).disk.file =
    [(0, 5, 5, 5, 5), (1, 5, 5, 5, 5), (2, 5, 5, 5, 5)] := by decide +kernel
example : shapeOf (runBatch .json (runBatch .json .absent 0 [0, 1, 2] 2).disk.file 6 [0, 1, 2] 1).disk.file =
    [(0, 2, 2, 2, 2), (1, 2, 2, 2, 2), (2, 2, 2, 2, 2)] := by decide +kernel
example : pipelineTrials .gz [0, 1] (allTasks 3 2 2 7) 2 1 = 7 := by decide +kernel

/-- an input file: two sizes of the toric code, one noise direction, matching decoder, one rate -/
def demoSpec : Spec.Spec :=
  ⟨some (.single ⟨some "demo", none,
    some ⟨some "Toric2DCode", some (.list [.dict [("L_x", .int 2)], .dict [("L_x", .int 3), ("L_y", .int 2)]])⟩,
    some ⟨some "PauliErrorModel", some (.dict [("r_x", .num (1/4)), ("r_y", .num (1/4)), ("r_z", .num (1/2))])⟩,
    some ⟨some "MatchingDecoder", some (.dict [])⟩,
    some (.list [.num (1/8)]), none⟩), none⟩

/-- the hypotheses of `run_file_completes_requested_trials` hold on it: two direct
    simulations with different recorded inputs -/
example : ((Spec.readInputDict demoSpec).toOption.map fun b =>
    (b.label, b.sims.length, idents b.sims, b.sims.any (·.splitting))) =
    some ("demo", 2, [0, 1], false) := by decide +kernel

/-- … and the whole of `run_file` on it: 3 trials from scratch, progress log `3/3` -/
example : ((runFile demoSpec .gz .absent 0 3).toOption.map fun r => shapeOf r.final.disk.file) =
    some [(0, 3, 3, 3, 3), (1, 3, 3, 3, 3)] := by decide +kernel
example : ((runFile demoSpec .gz .absent 0 3).toOption.map fun r => (r.ids, r.log, r.progressRange)) =
    some ([0, 1], some (3, 3), (0, 3)) := by decide +kernel
end

end Panqec.C14
