/-
C01 (lattice part) — `RhombicPlanarCode` for EVERY lattice size (no bound on the size).

The model `Model/Lattices/RhombicPlanarCode.lean` is a hand-written transcription of
`panqec/codes/surface_3d/_rhombic_planar_code.py` as functions of the size (the `(x+y+z) % 4`
colouring of the cubes, the `on_edge` / `edge_triangle` / `rough_triangle` filters of
`get_stabilizer_coordinates`, the `is_qubit` truncation of the operators at the open boundaries, dict
overwrite); it is tied to the implementation by the correspondence streams of
`harness/lattices/rhombicplanarcode.py`.  Property theorems only; the lemmas are in
`Proofs/LatRhombic.lean` and `Proofs/LatRhombicPlanarCode*.lean`.

Commutation of a cube (X on its edges that are qubits) with a triangle (Z on the legs that are
qubits): with `d` the offset from the vertex to the cube and `s` the sign vector of the triangle, the
shared qubits are the legs `i` with `d_i = s_i` (all `|d_i| = 1`); the cube is coloured
(`(x+y+z) % 4 = 1`) and the triangle points into an uncoloured cube (`% 4 = 3`), so `d` and `s`
differ in an odd number of places and the overlap is 0 or 2; a leg that is not a qubit (z legs of
the bottom / top layer) is an edge of no cube, and the triangles whose y leg would be missing are
exactly the `rough_triangle`s that the class drops (`edge_triangle` is implied by `rough_triangle`).
-/
import PanqecVerif.Proofs.LatRhombicPlanarCode4

namespace Panqec.C01RhombicPlanarCode

open Panqec Panqec.RhombicPlanarCode

/-- Coordinates are distinct, qubit and stabilizer coordinates are disjoint, every stabilizer and
    logical operator is a dict (distinct keys) supported on qubits with letters X/Y/Z, and no
    stabilizer is empty (also the half cubes and two-legged triangles of the boundaries) — for every
    size with `Lx, Ly ≥ 1` (any `Lz`). -/
theorem wf (Lx Ly Lz : Nat) (hx : 1 ≤ Lx) (hy : 1 ≤ Ly) : (lattice Lx Ly Lz).WF :=
  RhombicPlanarCode.wf Lx Ly Lz hx hy

/-- All pairs of stabilizer generators commute (cube/cube and triangle/triangle trivially, cube
    against triangle by the colouring argument, truncated operators included), the logical X (sheet
    `z = 0`) and the logical Z (line of x edges along z) commute with every generator, and they
    anticommute with each other (`k = 1` pairing table) — for every size `≥ 1`. -/
theorem commPair (Lx Ly Lz : Nat) (hx : 1 ≤ Lx) (hy : 1 ≤ Ly) (hz : 1 ≤ Lz) :
    (lattice Lx Ly Lz).CommPair :=
  RhombicPlanarCode.commPair Lx Ly Lz hx hy hz

/-- the qubit lattice of `Planar3DCode`: `n = Lx·Ly·Lz + (Lx−1)(Ly−1)Lz + (Lx−1)Ly(Lz−1)`
    (every size, truncated subtraction) -/
theorem n_formula (Lx Ly Lz : Nat) : (lattice Lx Ly Lz).toCodeData.n =
    Lx * Ly * Lz + (Lx - 1) * (Ly - 1) * Lz + (Lx - 1) * Ly * (Lz - 1) :=
  length_qubits Lx Ly Lz

/-- `k = 1` (every size) -/
theorem k_value (Lx Ly Lz : Nat) : (lattice Lx Ly Lz).toCodeData.k = 1 :=
  length_logX Lx Ly Lz

/-- `qubit_axis` of a qubit is the direction of its edge (the odd coordinate) -/
theorem qubit_axis_rule (Lx Ly Lz : Nat) (x y z : Int) (h : [x, y, z] ∈ (lattice Lx Ly Lz).qubits) :
    qubitAxis [x, y, z] = some (if x % 2 = 1 then "x" else if y % 2 = 1 then "y" else "z") :=
  qubitAxis_qubit Lx Ly Lz x y z h

/-- `get_deformation(location, name)` for every name and every location with three coordinates
    (keyword arguments are ignored by the class): a name other than `'Checkerboard XZZX'` is a
    `ValueError`; otherwise `ValueError` where `qubit_axis` raises, X ↔ Z exactly on the z edges
    with `z % 4 = 3 ∧ (x+y) % 4 = 2` or `z % 4 = 1 ∧ (x+y) % 4 = 0`, and the identity elsewhere. -/
theorem deformation_rule (name : String) (x y z : Int) :
    getDeformation name [x, y, z] =
      if name ≠ "Checkerboard XZZX" then none
      else (qubitAxis [x, y, z]).map fun a =>
        if a = "z" ∧ ((z % 4 = 3 ∧ (x + y) % 4 = 2) ∨ (z % 4 = 1 ∧ (x + y) % 4 = 0))
        then PauliMap.swapXZ else PauliMap.id :=
  Rhombic.getDeformation_rule name x y z

/-- a location that does not have three coordinates is rejected (the tuple unpacking raises
    `ValueError`) -/
theorem deformation_bad_location (name : String) (loc : Coord) (h : loc.length ≠ 3) :
    getDeformation name loc = none :=
  Rhombic.getDeformation_bad_location name loc h

/-- on the qubits of every size: the deformation is defined, and it is X ↔ Z exactly on the z edges
    of the checkerboard -/
theorem deformation_on_qubits (Lx Ly Lz : Nat) (x y z : Int)
    (h : [x, y, z] ∈ (lattice Lx Ly Lz).qubits) :
    getDeformation "Checkerboard XZZX" [x, y, z] =
      some (if z % 2 = 1 ∧ ((z % 4 = 3 ∧ (x + y) % 4 = 2) ∨ (z % 4 = 1 ∧ (x + y) % 4 = 0))
        then PauliMap.swapXZ else PauliMap.id) := by
  rw [deformation_rule, qubit_axis_rule Lx Ly Lz x y z h]
  have hq := (mem_qubits_iff Lx Ly Lz x y z).mp h
  unfold QX QY QZ Lat3Db.R0 Lat3Db.R1 Lat3Db.R2 at hq
  simp only [ne_eq, not_true_eq_false, if_false, Option.map_some, Option.some.injEq]
  by_cases hx : x % 2 = 1
  · have hz : ¬ z % 2 = 1 := by omega
    simp [hx, hz]
  · by_cases hy : y % 2 = 1
    · have hz : ¬ z % 2 = 1 := by omega
      simp [hx, hy, hz]
    · have hz : z % 2 = 1 := by omega
      simp [hx, hy, hz]

/-- consequently every deformation the class returns is a permutation of {X, Y, Z} (so C08
    applies) -/
theorem deformation_isPerm (name : String) (loc : Coord) (m : PauliMap)
    (h : getDeformation name loc = some m) : m.isPerm = true :=
  Rhombic.getDeformation_isPerm h

/-! ### non-vacuity -/

example : (lattice 2 2 1).WF := wf 2 2 1 (by decide) (by decide)
example : (lattice 2 3 4).CommPair := commPair 2 3 4 (by decide) (by decide) (by decide)
example : (lattice 2 3 4).toCodeData.n = 41 := n_formula 2 3 4
example : (lattice 2 2 2).toCodeData.n = 12 := by decide
example : (lattice 2 2 2).stabs.length = 11 := by decide
/-- a half cube of the lower rough boundary `y = -1`: three of the twelve edges are qubits -/
example : getStab 2 2 2 [1, -1, 1] = [([2, 0, 1], .X), ([1, 0, 2], .X), ([1, 0, 0], .X)] := by
  decide +kernel
/-- a triangle of the bottom layer: the z leg is missing -/
example : getStab 2 2 2 [0, 2, 0, 0] = [([3, 0, 0], .Z), ([2, 1, 0], .Z)] := by decide +kernel
/-- an interior cube has all twelve edges -/
example : (getStab 3 3 3 [3, 3, 3]).length = 12 := by decide +kernel
example : opAntiCount ((logX 2 2 2).getD 0 []) ((logZ 2 2 2).getD 0 []) = 1 := by decide +kernel
example : getDeformation "Checkerboard XZZX" [2, 2, 1] = some PauliMap.swapXZ := by decide
example : getDeformation "Checkerboard XZZX" [2, 0, 1] = some PauliMap.id := by decide
example : getDeformation "Checkerboard XZZX" [1, 1, 1] = none := by decide
example : getDeformation "XZZX" [2, 2, 1] = none := by decide

end Panqec.C01RhombicPlanarCode
