/-
C01 (lattice part) — `RhombicPlanarCode` for EVERY lattice size (no bound on the size).

The model `Model/Lattices/RhombicPlanarCode.lean` is a hand-written transcription of
`panqec/codes/surface_3d/_rhombic_planar_code.py` as functions of the size (the `(x+y+z) % 4`
colouring of the cubes, the `on_edge` / `edge_triangle` / `rough_triangle` filters of
`get_stabilizer_coordinates`, the `is_qubit` truncation of the operators at the open boundaries, dict
overwrite); it is tied to the implementation by the correspondence streams of
`harness/lattices/rhombicplanarcode.py`.  Property theorems only; the lemmas are in
`Proofs/LatRhombic.lean` and `Proofs/LatRhombicPlanarCode*.lean`.

Commutation of a cube (X on its edges that are qubits) with a triangle (Z on the legs that are
qubits): with `d` the offset from the vertex to the cube and `s` the sign vector of the triangle, the
shared qubits are the legs `i` with `d_i = s_i` (all `|d_i| = 1`); the cube is coloured
(`(x+y+z) % 4 = 1`) and the triangle points into an uncoloured cube (`% 4 = 3`), so `d` and `s`
differ in an odd number of places and the overlap is 0 or 2; a leg that is not a qubit (z legs of
the bottom / top layer) is an edge of no cube, and the triangles whose y leg would be missing are
exactly the `rough_triangle`s that the class drops (`edge_triangle` is implied by `rough_triangle`).

Rank clause, for all sizes of the supported family `Lx, Ly ≥ 2`, `Lz ≥ 1`
(`⌈Lx(Ly+1)(Lz−1)/2⌉ + 4(Lx−1)(Ly−1)Lz` generators; the four triangles of a vertex with
`0 < y < 2Ly−2` multiply to the identity and so do the eight corner triangles of an uncoloured cube
not cut by an x boundary): all cubes, all triangles of axis 3 and 2, the axis-1 triangles of the row
`y = 2Ly−2`, the axis-0 triangles of the column `x = 2Lx−2` and, in the other columns, the upper one
(`(x+y+z) % 4 = 2`, `z ≥ 2`) of the two axis-0 triangles pointing into the same uncoloured cube, are
independent (`generators_independent`, via a triangular family of single-qubit probes,
`Proofs/LatRhombicPlanarCodeRank2.lean`) and there are exactly `n − 1` of them (`generators_count`;
checkerboard counting lemma `Proofs/LatRhombicCount.lean`).  `valid_code` puts everything together
through the generic bridges `Proofs/OpComm.lean` and `Proofs/Lat2DRankBridge.lean` /
`Proofs/Lat2DRankSubset.lean`: the matrices that `stabilizer_matrix`, `logicals_x`, `logicals_z` of
the generic code model (`Model/Code.lean`, C02) assemble from this lattice model form a valid
`[[n, 1]]` stabilizer code (`ValidCodeL`: all four clauses of C01, rank included) for EVERY size of
the family.
-/
import PanqecVerif.Proofs.LatRhombicPlanarCode5
import PanqecVerif.Proofs.LatRhombicPlanarCodeRank2
import PanqecVerif.Proofs.Lat2DRankSubset

namespace Panqec.C01RhombicPlanarCode

open Panqec Panqec.RhombicPlanarCode Panqec.Lat2D

/-- Coordinates are distinct, qubit and stabilizer coordinates are disjoint, every stabilizer and
    logical operator is a dict (distinct keys) supported on qubits with letters X/Y/Z, and no
    stabilizer is empty (also the half cubes and two-legged triangles of the boundaries) — for every
    size with `Lx, Ly ≥ 1` (any `Lz`). -/
theorem wf (Lx Ly Lz : Nat) (hx : 1 ≤ Lx) (hy : 1 ≤ Ly) : (lattice Lx Ly Lz).WF :=
  RhombicPlanarCode.wf Lx Ly Lz hx hy

/-- All pairs of stabilizer generators commute (cube/cube and triangle/triangle trivially, cube
    against triangle by the colouring argument, truncated operators included), the logical X (sheet
    `z = 0`) and the logical Z (line of x edges along z) commute with every generator, and they
    anticommute with each other (`k = 1` pairing table) — for every size `≥ 1`. -/
theorem commPair (Lx Ly Lz : Nat) (hx : 1 ≤ Lx) (hy : 1 ≤ Ly) (hz : 1 ≤ Lz) :
    (lattice Lx Ly Lz).CommPair :=
  RhombicPlanarCode.commPair Lx Ly Lz hx hy hz

/-- the qubit lattice of `Planar3DCode`: `n = Lx·Ly·Lz + (Lx−1)(Ly−1)Lz + (Lx−1)Ly(Lz−1)`
    (every size, truncated subtraction) -/
theorem n_formula (Lx Ly Lz : Nat) : (lattice Lx Ly Lz).toCodeData.n =
    Lx * Ly * Lz + (Lx - 1) * (Ly - 1) * Lz + (Lx - 1) * Ly * (Lz - 1) :=
  length_qubits Lx Ly Lz

/-- `k = 1` (every size) -/
theorem k_value (Lx Ly Lz : Nat) : (lattice Lx Ly Lz).toCodeData.k = 1 :=
  length_logX Lx Ly Lz

/-- the number of stabilizer generators (every size with `Ly ≥ 1`): the coloured cubes of the box
    `Lx × (Ly+1) × (Lz−1)` (half of it rounded up; the half cubes `y = −1`, `y = 2Ly−1` of the rough
    boundaries included) and `4(Lx−1)(Ly−1)Lz` triangles (the rough ones are dropped) -/
theorem n_stabilizers (Lx Ly Lz : Nat) (hy : 1 ≤ Ly) :
    (lattice Lx Ly Lz).toCodeData.stabs.length =
      (Lx * ((Ly + 1) * (Lz - 1)) + 1) / 2 + 4 * ((Lx - 1) * (Ly - 1) * Lz) :=
  length_stabs Lx Ly Lz hy

/-- rank clause, operator level: the selected generators (all cubes; all triangles of axis 3 and 2;
    axis 1 in the row `y = 2Ly−2`; axis 0 in the column `x = 2Lx−2`, and elsewhere those with
    `(x+y+z) % 4 = 2`, `z ≥ 2`) are independent — every non-empty duplicate-free sub-family `T` has a
    Pauli operator `d` on the qubits anticommuting with an odd number of members of `T` (so no
    non-trivial product of them is trivial) — every `Lx, Ly ≥ 2`, every `Lz` -/
theorem generators_independent (Lx Ly Lz : Nat) (hx : 2 ≤ Lx) (hy : 2 ≤ Ly) :
    IndepGenerators (lattice Lx Ly Lz) (selStabs Lx Ly Lz) :=
  indep_sel Lx Ly Lz hx hy

/-- the independent family consists of `n − k` distinct stabilizer locations -/
theorem generators_count (Lx Ly Lz : Nat) (hx : 2 ≤ Lx) (hy : 2 ≤ Ly) (hz : 1 ≤ Lz) :
    (selStabs Lx Ly Lz).Nodup ∧ (∀ s ∈ selStabs Lx Ly Lz, s ∈ (lattice Lx Ly Lz).stabs) ∧
    (selStabs Lx Ly Lz).length + (lattice Lx Ly Lz).toCodeData.k =
      (lattice Lx Ly Lz).toCodeData.n :=
  ⟨nodup_selStabs Lx Ly Lz, fun _ hs => selStabs_sub hx hy hs, selStabs_count Lx Ly Lz hx hy hz⟩

/-- THE C01 STATEMENT FOR ALL SIZES of the supported family (`Lx, Ly ≥ 2`, `Lz ≥ 1`):
    `stabilizer_matrix`, `logicals_x`, `logicals_z` of the generic code model, applied to this
    lattice model, return (no `KeyError`) matrices that form a valid `[[n, 1]]` stabilizer code
    (`n = Lx·Ly·Lz + (Lx−1)(Ly−1)Lz + (Lx−1)Ly(Lz−1)`): generators pairwise commute, logicals
    commute with the generators, `ω(X, Z) = 1`, `ω(X, X) = ω(Z, Z) = 0`, and the generators have
    GF(2) rank `n − 1` -/
theorem valid_code (Lx Ly Lz : Nat) (hx : 2 ≤ Lx) (hy : 2 ≤ Ly) (hz : 1 ≤ Lz) :
    stabilizerMatrix (lattice Lx Ly Lz).toCodeData = some (lattice Lx Ly Lz).rowsH ∧
    logicalsX (lattice Lx Ly Lz).toCodeData = some (lattice Lx Ly Lz).rowsX ∧
    logicalsZ (lattice Lx Ly Lz).toCodeData = some (lattice Lx Ly Lz).rowsZ ∧
    ValidCodeL (Lx * Ly * Lz + (Lx - 1) * (Ly - 1) * Lz + (Lx - 1) * Ly * (Lz - 1)) 1
      (lattice Lx Ly Lz).rowsH (lattice Lx Ly Lz).rowsX (lattice Lx Ly Lz).rowsZ := by
  obtain ⟨hnd, hsub, hcount⟩ := generators_count Lx Ly Lz hx hy hz
  have h := validCode_of_lattice_subset (lattice Lx Ly Lz) (wf Lx Ly Lz (by omega) (by omega))
    (commPair Lx Ly Lz (by omega) (by omega) hz) (selStabs Lx Ly Lz) hnd hsub
    (generators_independent Lx Ly Lz hx hy) hcount
  rw [n_formula, k_value] at h
  exact h

/-- `qubit_axis` of a qubit is the direction of its edge (the odd coordinate) -/
theorem qubit_axis_rule (Lx Ly Lz : Nat) (x y z : Int) (h : [x, y, z] ∈ (lattice Lx Ly Lz).qubits) :
    qubitAxis [x, y, z] = some (if x % 2 = 1 then "x" else if y % 2 = 1 then "y" else "z") :=
  qubitAxis_qubit Lx Ly Lz x y z h

/-- `get_deformation(location, name)` for every name and every location with three coordinates
    (keyword arguments are ignored by the class): a name other than `'Checkerboard XZZX'` is a
    `ValueError`; otherwise `ValueError` where `qubit_axis` raises, X ↔ Z exactly on the z edges
    with `z % 4 = 3 ∧ (x+y) % 4 = 2` or `z % 4 = 1 ∧ (x+y) % 4 = 0`, and the identity elsewhere. -/
theorem deformation_rule (name : String) (x y z : Int) :
    getDeformation name [x, y, z] =
      if name ≠ "Checkerboard XZZX" then none
      else (qubitAxis [x, y, z]).map fun a =>
        if a = "z" ∧ ((z % 4 = 3 ∧ (x + y) % 4 = 2) ∨ (z % 4 = 1 ∧ (x + y) % 4 = 0))
        then PauliMap.swapXZ else PauliMap.id :=
  Rhombic.getDeformation_rule name x y z

/-- a location that does not have three coordinates is rejected (the tuple unpacking raises
    `ValueError`) -/
theorem deformation_bad_location (name : String) (loc : Coord) (h : loc.length ≠ 3) :
    getDeformation name loc = none :=
  Rhombic.getDeformation_bad_location name loc h

/-- on the qubits of every size: the deformation is defined, and it is X ↔ Z exactly on the z edges
    of the checkerboard -/
theorem deformation_on_qubits (Lx Ly Lz : Nat) (x y z : Int)
    (h : [x, y, z] ∈ (lattice Lx Ly Lz).qubits) :
    getDeformation "Checkerboard XZZX" [x, y, z] =
      some (if z % 2 = 1 ∧ ((z % 4 = 3 ∧ (x + y) % 4 = 2) ∨ (z % 4 = 1 ∧ (x + y) % 4 = 0))
        then PauliMap.swapXZ else PauliMap.id) := by
  rw [deformation_rule, qubit_axis_rule Lx Ly Lz x y z h]
  have hq := (mem_qubits_iff Lx Ly Lz x y z).mp h
  unfold QX QY QZ Lat3Db.R0 Lat3Db.R1 Lat3Db.R2 at hq
  simp only [ne_eq, not_true_eq_false, if_false, Option.map_some, Option.some.injEq]
  by_cases hx : x % 2 = 1
  · have hz : ¬ z % 2 = 1 := by omega
    simp [hx, hz]
  · by_cases hy : y % 2 = 1
    · have hz : ¬ z % 2 = 1 := by omega
      simp [hx, hy, hz]
    · have hz : z % 2 = 1 := by omega
      simp [hx, hy, hz]

/-- consequently every deformation the class returns is a permutation of {X, Y, Z} (so C08
    applies) -/
theorem deformation_isPerm (name : String) (loc : Coord) (m : PauliMap)
    (h : getDeformation name loc = some m) : m.isPerm = true :=
  Rhombic.getDeformation_isPerm h

/-! ### non-vacuity -/

example : (lattice 2 2 1).WF := wf 2 2 1 (by decide) (by decide)
example : (lattice 2 3 4).CommPair := commPair 2 3 4 (by decide) (by decide) (by decide)
example : (lattice 2 3 4).toCodeData.n = 41 := n_formula 2 3 4
example : (lattice 2 2 2).toCodeData.n = 12 := by decide
example : (lattice 2 2 2).stabs.length = 11 := by decide
/-- a half cube of the lower rough boundary `y = -1`: three of the twelve edges are qubits -/
example : getStab 2 2 2 [1, -1, 1] = [([2, 0, 1], .X), ([1, 0, 2], .X), ([1, 0, 0], .X)] := by
  decide +kernel
/-- a triangle of the bottom layer: the z leg is missing -/
example : getStab 2 2 2 [0, 2, 0, 0] = [([3, 0, 0], .Z), ([2, 1, 0], .Z)] := by decide +kernel
/-- an interior cube has all twelve edges -/
example : (getStab 3 3 3 [3, 3, 3]).length = 12 := by decide +kernel
example : opAntiCount ((logX 2 2 2).getD 0 []) ((logZ 2 2 2).getD 0 []) = 1 := by decide +kernel
example : IndepGenerators (lattice 2 3 4) (selStabs 2 3 4) :=
  generators_independent 2 3 4 (by decide) (by decide)
example : (selStabs 2 2 2).length = 11 := by decide
example : (selStabs 3 3 3).length = 50 := by decide +kernel
example : ValidCodeL 41 1 (lattice 2 3 4).rowsH (lattice 2 3 4).rowsX (lattice 2 3 4).rowsZ :=
  (valid_code 2 3 4 (by decide) (by decide) (by decide)).2.2.2
/-- the smallest member of the family: 5 qubits, no cube, 4 triangles, rank 4 -/
example : (lattice 2 2 1).stabs.length = 4 ∧ HasRank (2 * 5) (lattice 2 2 1).rowsH 4 :=
  ⟨by decide, (valid_code 2 2 1 (by decide) (by decide) (by decide)).2.2.2.rank⟩
/-- 60 generators, rank 50: the relations among the triangles are real -/
example : (lattice 3 3 3).stabs.length = 60 ∧ HasRank (2 * 51) (lattice 3 3 3).rowsH 50 :=
  ⟨by decide +kernel, (valid_code 3 3 3 (by decide) (by decide) (by decide)).2.2.2.rank⟩
example : getDeformation "Checkerboard XZZX" [2, 2, 1] = some PauliMap.swapXZ := by decide
example : getDeformation "Checkerboard XZZX" [2, 0, 1] = some PauliMap.id := by decide
example : getDeformation "Checkerboard XZZX" [1, 1, 1] = none := by decide
example : getDeformation "XZZX" [2, 2, 1] = none := by decide

end Panqec.C01RhombicPlanarCode
