/-
C03 (rank part) — `gf2_rank` / `brank` of `panqec/bpauli.py` compute the GF(2) rank.

Model: `Model/Bits.lean` (`lowBit`, `gf2RankAux`, `gf2Rank`, `bvectorToInt`, `brank`) — pop the
LAST row as pivot; if it is non-zero, count it and xor it into every remaining row that has
the pivot's lowest set bit.

Property theorems only; the lemmas are in `Proofs/Gf2RankBits.lean` (bit facts),
`Proofs/Gf2Rank.lean` (loop invariant against `Module.finrank`), `Proofs/Gf2RankBrank.lean`
(big-endian packing = coordinate reversal), `Proofs/Gf2RankSel.lean` and
`Proofs/Gf2RankList.lean` (elementary xor-combination form of the rank).
All statements are for every number of rows and every width (no size bound).
-/
import PanqecVerif.Proofs.Gf2Rank
import PanqecVerif.Proofs.Gf2RankBrank
import PanqecVerif.Proofs.Gf2RankList

namespace Panqec.C03Rank

open Panqec Module Submodule

/-- `lowBit r` is `r & -r`: for `r ≠ 0` it is `2 ^ t` where `t` is the index of the lowest
    set bit of `r` (bit `t` is set and no lower bit is). -/
theorem lowBit_is_lowest_set_bit (r : ℕ) (h : r ≠ 0) :
    ∃ t, lowBit r = 2 ^ t ∧ r.testBit t = true ∧ ∀ i < t, r.testBit i = false :=
  lowBit_spec r h

/-- the elimination test `row & lsb` (with `lsb = lowBit pivot`) is "the row has the
    pivot's lowest set bit" -/
theorem elimination_test_reads_pivot_bit (pivot row : ℕ) (h : pivot ≠ 0) :
    ∃ t, (pivot.testBit t = true ∧ ∀ i < t, pivot.testBit i = false) ∧
      (row &&& lowBit pivot ≠ 0 ↔ row.testBit t = true) := by
  obtain ⟨t, hl, hb⟩ := lowBit_spec pivot h
  exact ⟨t, hb, by rw [hl]; exact and_two_pow_ne_zero_iff row t⟩

/-- **MAIN: `gf2_rank` computes the GF(2) rank.**  For rows that fit in `w` bits, the
    number returned by the elimination loop is the dimension over `ZMod 2` of the span of
    the rows read as vectors `Fin w → ZMod 2` (coordinate `i` = bit `i` of the row). -/
theorem gf2Rank_eq_finrank (w : ℕ) (rows : List ℕ) (h : ∀ r ∈ rows, r < 2 ^ w) :
    gf2Rank rows =
      finrank (ZMod 2) (span (ZMod 2)
        (Set.range fun i : Fin rows.length =>
          (fun j : Fin w => if rows[i].testBit j then (1 : ZMod 2) else 0))) :=
  Panqec.gf2Rank_eq_finrank w rows h

/-- the loop invariant behind the main theorem, for every intermediate state: with enough
    fuel the loop returns (rank counted so far) + (GF(2) rank of the rows still stacked) -/
theorem gf2RankAux_invariant (w fuel : ℕ) (rows : List ℕ) (rank : ℕ)
    (hf : rows.length ≤ fuel) (h : ∀ r ∈ rows, r < 2 ^ w) :
    gf2RankAux fuel rows rank = rank + maskRank w rows :=
  gf2RankAux_eq w fuel rows rank hf h

/-- **`brank` computes the GF(2) rank of a 0/1 matrix**: for a matrix whose rows all have
    length `w` and entries 0/1, `brank m` is the dimension of the span of its rows read as
    vectors `Fin w → ZMod 2` (coordinate `j` = entry `j`; the big-endian packing
    `bvectorToInt` only reverses the coordinate order). -/
theorem brank_eq_rank (w : ℕ) (m : List (List ℕ))
    (hlen : ∀ r ∈ m, r.length = w) (hbin : ∀ r ∈ m, ∀ x ∈ r, x < 2) :
    brank m =
      finrank (ZMod 2) (span (ZMod 2)
        (Set.range fun i : Fin m.length =>
          (fun j : Fin w => ((m[i].getD j 0 : ℕ) : ZMod 2)))) :=
  Panqec.brank_eq_rank w m hlen hbin

/-- **elementary form, no width hypothesis**: `gf2Rank rows = r` exactly when the xor-span
    of the rows has a basis of `r` masks — a list `basis` of length `r` such that only the
    empty selection of it xors to zero, every basis mask is a xor of some rows, and every
    row is a xor of some basis masks. -/
theorem gf2Rank_eq_iff_basis (rows : List ℕ) (r : ℕ) :
    gf2Rank rows = r ↔
      ∃ basis : List ℕ, basis.length = r ∧
        (∀ sel, sel < 2 ^ basis.length → xorSelect basis sel = 0 → sel = 0) ∧
        (∀ b ∈ basis, ∃ sel, xorSelect rows sel = b) ∧
        (∀ v ∈ rows, ∃ sel, xorSelect basis sel = v) :=
  gf2Rank_eq_iff_maskRank rows r

/-- the elementary rank is well defined: two bases of the same xor-span have the same
    number of elements -/
theorem maskRank_unique {rows : List ℕ} {r r' : ℕ} (h : MaskRank rows r) (h' : MaskRank rows r') :
    r = r' :=
  Panqec.maskRank_unique h h'

/-- a basis can be chosen among the rows themselves, and it has `gf2Rank rows` elements -/
theorem exists_row_basis (rows : List ℕ) :
    ∃ basis : List ℕ, basis.length = gf2Rank rows ∧ MaskIndep basis ∧
      (∀ b ∈ basis, b ∈ rows) ∧ ∀ v ∈ rows, MaskInSpan basis v := by
  obtain ⟨basis, hind, hsub, hspan⟩ := exists_maskBasis rows
  refine ⟨basis, ?_, hind, hsub, hspan⟩
  exact (gf2Rank_eq_of_maskRank
    ⟨basis, rfl, hind, fun b hb => maskInSpan_of_mem (hsub b hb), hspan⟩).symm

/-- consequences one expects of a rank: at most the number of rows, at most the width -/
theorem gf2Rank_le_length (rows : List ℕ) : gf2Rank rows ≤ rows.length := by
  obtain ⟨w, hw⟩ := exists_width rows
  rw [Panqec.gf2Rank_eq_finrank w rows hw, maskRank, maskSpan]
  have h := finrank_range_le_card (R := ZMod 2)
    (fun i : Fin rows.length => toVecMask w rows[i])
  simpa [Set.finrank] using h

theorem gf2Rank_le_width (w : ℕ) (rows : List ℕ) (h : ∀ r ∈ rows, r < 2 ^ w) :
    gf2Rank rows ≤ w := by
  rw [Panqec.gf2Rank_eq_finrank w rows h, maskRank]
  have := Submodule.finrank_le (maskSpan w rows)
  simpa using this

/-! ### non-vacuity: concrete runs of the model -/

example : lowBit 12 = 4 := by decide
example : gf2Rank [6, 3, 5] = 2 := by decide
example : gf2Rank [1, 2, 4, 7] = 3 := by decide
example : gf2Rank [0, 0] = 0 := by decide
example : gf2Rank [] = 0 := by decide
example : brank [[1, 1, 0], [0, 1, 1], [1, 0, 1]] = 2 := by decide
example : brank [[1, 0, 0], [0, 1, 0], [0, 0, 1]] = 3 := by decide
/-- the hypotheses of `brank_eq_rank` hold on a concrete matrix -/
example : (∀ r ∈ [[1, 1, 0], [0, 1, 1], [1, 0, 1]], r.length = 3) ∧
    (∀ r ∈ [[1, 1, 0], [0, 1, 1], [1, 0, 1]], ∀ x ∈ r, x < 2) := by decide
/-- `[6, 3]` is a basis of the xor-span of `[6, 3, 5]` (5 = 6 ^^^ 3), witnessing rank 2 -/
example : MaskRank [6, 3, 5] 2 :=
  ⟨[6, 3], rfl, by unfold MaskIndep; decide,
    by
      intro b hb
      simp only [List.mem_cons, List.not_mem_nil, or_false] at hb
      rcases hb with rfl | rfl
      · exact ⟨1, by decide⟩
      · exact ⟨2, by decide⟩,
    by
      intro v hv
      simp only [List.mem_cons, List.not_mem_nil, or_false] at hv
      rcases hv with rfl | rfl | rfl
      · exact ⟨1, by decide⟩
      · exact ⟨2, by decide⟩
      · exact ⟨3, by decide⟩⟩

end Panqec.C03Rank
