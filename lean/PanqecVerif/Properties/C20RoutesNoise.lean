/-
C20, `/new-errors` with the models behind the library: on top of the hand-written lattice models
(`GuiRepr.geomOf`) and the noise model of C07 (`Model/Noise.lean`), the route returns `generate` of
`probability_distribution` of the requested direction, rate and noise deformation on the requested
class and size — all `2n` entries, the discarded `error_spec` comprehension never raising.
-/
import PanqecVerif.Proofs.GuiRoutes
import PanqecVerif.Proofs.Noise
import PanqecVerif.Generated.Gui
import PanqecVerif.Generated.GuiRoutes

namespace Panqec.C20Routes
open Panqec.Gui Panqec.GuiRepr Panqec.GuiRoutes

theorem mapM_option_length {α β} (f : α → Option β) :
    ∀ (l : List α) (l' : List β), l.mapM f = some l' → l'.length = l.length
  | [], l', h => by
    simp only [List.mapM_nil] at h
    cases h; rfl
  | a :: l, l', h => by
    rw [List.mapM_cons] at h
    cases hfa : f a with
    | none => simp [hfa] at h
    | some b =>
      cases hl : l.mapM f with
      | none => simp [hfa, hl] at h
      | some bs =>
        simp only [hfa, hl] at h
        cases h
        simp [mapM_option_length f l bs hl]

theorem sizesOf_nats (size : List Nat) : sizesOf (size.map fun k => JV.i (Int.ofNat k)) = some size := by
  unfold sizesOf
  induction size with
  | nil => rfl
  | cons a l ih =>
    rw [List.map_cons, List.mapM_cons, ih]
    simp [JV.i]

/-- `/new-errors` IS THE MODEL'S SAMPLE OF THE REQUESTED CHANNEL: with the lattice models and the
    noise model as the library, for every class and size the lattice models cover (`geomOf`), any code
    deformation name (it does not enter: `deform` is lazy and `generate` never asks for the
    stabilizers), every direction summing to one, rate `p`, noise deformation (`None` or a name for
    which `get_deformation` is defined on the qubits: `Ds` = the per-qubit dicts in qubit order) and
    variates `us` (one per qubit), the answer is `generate` of `probability_distribution(code, p)` —
    by C07 (`deformed_distribution`): on qubit `i` the base channel `(1-p, r_x p, r_y p, r_z p)`
    permuted by the `i`-th dict — and it has `2n` entries -/
theorem new_errors_is_model_sample (us : List Rat)
    (run : DecCtor MCode MEM → JV → Except String (List Int))
    (cls : String) (size : List Nat) (g : ClassGeom) (hg : geomOf cls size = some g)
    (cdef : Option String) (dir : Dir) (hdir : dir.1 + dir.2.1 + dir.2.2 = 1)
    (ndName : Option String) (p : JV) (pr : Rat) (hp : ratOf p = some pr)
    (Ds : Option (List PauliMap)) (hDs : noiseMaps g ndName = .ok Ds)
    (ds : List Dist)
    (hds : probabilityDistribution pr dir.1 dir.2.1 dir.2.2 g.lat.qubits.length Ds = some ds)
    (hus : us.length = g.lat.qubits.length) :
    runNoise (modelLib us run)
        ⟨⟨cls, size.map (fun k => JV.i (Int.ofNat k)), cdef.map JV.str⟩, dir,
          (match ndName with | none => .null | some s => .str s), p⟩ =
      .ok (JV.ints ((generate ds us).map Int.ofNat)) ∧
    (generate ds us).length = 2 * g.lat.qubits.length := by
  have hlen : ds.length = g.lat.qubits.length := by
    cases Ds with
    | none =>
      simp only [probabilityDistribution] at hds
      cases hds; simp
    | some Dl =>
      simp only [probabilityDistribution] at hds
      rw [mapM_option_length _ _ _ hds]
      cases ndName with
      | none => simp [noiseMaps] at hDs
      | some name =>
        simp only [noiseMaps] at hDs
        cases hm : g.lat.qubits.mapM (g.deformation name) with
        | none => simp [hm] at hDs
        | some Dl' =>
          simp only [hm] at hDs
          cases hDs
          exact mapM_option_length _ _ _ hm
  have hgl : (generate ds us).length = 2 * g.lat.qubits.length := by
    rw [Panqec.generate_length ds us (by rw [hus, hlen]), hlen]
  refine ⟨?_, hgl⟩
  have hcode : runCode (modelLib us run) ⟨cls, size.map (fun k => JV.i (Int.ofNat k)), cdef.map JV.str⟩ =
      .ok ⟨g, cdef⟩ := by
    unfold runCode
    simp only [modelLib, newMCode, sizesOf_nats, hg, ok_bind]
    cases cdef <;> rfl
  have hem : (modelLib us run).newErrorModel dir (match ndName with | none => .null | some s => .str s) =
      .ok ⟨dir, ndName⟩ := by
    simp only [modelLib, hdir, ne_eq, not_true_eq_false, if_false]
    cases ndName <;> rfl
  have hgen : (modelLib us run).generate ⟨dir, ndName⟩ ⟨g, cdef⟩ p =
      .ok ((generate ds us).map Int.ofNat) := by
    simp only [modelLib, generateM, hp, hDs, hds]
  have hspec : errorSpecCheck ((modelLib us run).n ⟨g, cdef⟩) ((generate ds us).map Int.ofNat) =
      .ok () := by
    apply errorSpecCheck_binary _ _ hgl
    intro x hx
    simp only [generate, pauliToBsf, List.mem_append, List.mem_map] at hx
    rcases hx with ⟨σ, _, rfl⟩ | ⟨σ, _, rfl⟩ <;> cases σ <;> decide
  unfold runNoise
  simp only [hcode, hem, hgen, hspec, ok_bind]
  rfl

/-- non-vacuity: the hypotheses are satisfiable — Toric 2 × 2 (8 qubits), pure Z noise at p = 1/4
    without noise deformation, eight variates -/
example : (generate (List.replicate 8 (baseDist (1/4) 0 0 1))
    [1/64, 63/64, 60/64, 10/64, 1/2, 50/64, 62/64, 61/64]).length = 2 * (toric2D 2 2).lat.qubits.length :=
  (new_errors_is_model_sample [1/64, 63/64, 60/64, 10/64, 1/2, 50/64, 62/64, 61/64]
    (fun _ _ => .error "unsupported") "Toric2DCode" [2, 2] (toric2D 2 2) rfl (some "XZZX") (0, 0, 1)
    (by decide +kernel) none (JV.d 25 2) (1/4) (by decide +kernel) none rfl _ rfl (by decide)).2

end Panqec.C20Routes
