/-
C05 — decoders return valid corrections that reproduce the measured syndrome.

Model: `Model/Decoders.lean` (the glue of each decoder around its third-party
solver; the solver is a parameter).  Contracts (`Proofs/DecodersGlue.lean`):
`SolverValidOn n solve M` (PyMatching built from `M`), `UfValidOn`, `BpValidOn`:
for a syndrome in the image of `M` the answer is a binary vector of length `n`
with `M c = s (mod 2)`; `SolverOptimalOn` adds minimum total weight.

Every statement is for every parity-check matrix `H` (any size), every error and
every weight vector.  Proved, not sampled: which matrix goes with which sector
syndrome, which weights and which half of the output.

Tested only (harness, labelled as such): the contracts themselves,
constructibility of every (decoder, allowed code) pair, and "binary vector of
length 2n without raising" for the decoders that are modelled by interface only
(sweep automata, MBP, XCube matching).
-/
import PanqecVerif.Proofs.DecodersWeights

namespace Panqec.C05

open Panqec

/-- CSS block structure: the X-row syndrome of `[x | z]` depends only on `z`, through `Hx` -/
theorem css_x_rows_see_only_z (H : Mat) (hcss : isCss H = true) (v : Vec) :
    extractXSyndrome H (measureSyndrome H v) = sectorSyndrome (Hx H) (zPart v) :=
  css_xrow_block H hcss v

/-- CSS block structure: the Z-row syndrome of `[x | z]` depends only on `x`, through `Hz` -/
theorem css_z_rows_see_only_x (H : Mat) (hcss : isCss H = true) (v : Vec) :
    extractZSyndrome H (measureSyndrome H v) = sectorSyndrome (Hz H) (xPart v) :=
  css_zrow_block H hcss v

/-- Pairing in `MatchingDecoder.__init__` with the model's own weights:
    `matcher_x = Matching(Hz, w_x)` with `w_x = logOdds(px + py)` and
    `matcher_z = Matching(Hx, w_z)` with `w_z = logOdds(pz + py)`; the constructor fails
    exactly on non-CSS codes (for a legal `error_type`). -/
theorem matching_pairing {W : Type} (logOdds : Rat → W) (H : Mat) (n : Nat) (px py pz : List Rat) :
    MatchingDec.new H n none none (getWeights logOdds px py pz) =
      if isCss H then
        .ok { H := H, n := n, errType := .all,
              matcherX := some ⟨Hz H, (raddv px py).map logOdds⟩,
              matcherZ := some ⟨Hx H, (raddv pz py).map logOdds⟩ }
      else .error .valueError := by
  unfold MatchingDec.new getWeights
  cases isCss H <;> simp [parseErrType, ErrType_dec.doesX, ErrType_dec.doesZ]

/-- **MatchingDecoder**: for every CSS matrix, every error `e` and every weights, the
    correction is `[solve(Hz, w_x, Z-row syndrome) | solve(Hx, w_z, X-row syndrome)]`, has
    length `2n`, is binary, and has exactly the measured syndrome. -/
theorem matching_correction_reproduces_syndrome {W : Type} (solve : WSolver W) (H : Mat) (n : Nat)
    (weights : Option (List W × List W)) (mw : List W × List W) (d : MatchingDec W)
    (hnew : MatchingDec.new H n none weights mw = .ok d)
    (hX : SolverValidOn n solve (Hz H)) (hZ : SolverValidOn n solve (Hx H))
    (e : Vec) (he : e.length = 2 * n) :
    ∃ c ev, d.decode solve (measureSyndrome H e) = .ok (c, ev) ∧
      c = solve (Hz H) (weights.getD mw).1 (extractZSyndrome H (measureSyndrome H e)) ++
          solve (Hx H) (weights.getD mw).2 (extractXSyndrome H (measureSyndrome H e)) ∧
      c.length = 2 * n ∧ (∀ x ∈ c, x < 2) ∧ measureSyndrome H c = measureSyndrome H e :=
  matching_valid solve H n weights mw d hnew hX hZ e he

/-- hence error + correction is back in the code space -/
theorem matching_residual_in_codespace {W : Type} (solve : WSolver W) (H : Mat) (n : Nat)
    (weights : Option (List W × List W)) (mw : List W × List W) (d : MatchingDec W)
    (hnew : MatchingDec.new H n none weights mw = .ok d)
    (hX : SolverValidOn n solve (Hz H)) (hZ : SolverValidOn n solve (Hx H))
    (e : Vec) (he : e.length = 2 * n) :
    ∃ c ev, d.decode solve (measureSyndrome H e) = .ok (c, ev) ∧
      inCodespace H (vxor e c) = true := by
  obtain ⟨c, ev, hd, _, hl, _, hs⟩ := matching_valid solve H n weights mw d hnew hX hZ e he
  exact ⟨c, ev, hd, in_codespace_of_same_syndrome H e c (by omega) hs⟩

/-- any correction with the measured syndrome brings the state back to the code space -/
theorem same_syndrome_gives_codespace (H : Mat) (e c : Vec) (hlen : e.length = c.length)
    (hs : measureSyndrome H c = measureSyndrome H e) : inCodespace H (vxor e c) = true :=
  in_codespace_of_same_syndrome H e c hlen hs

/-- **trivial syndrome ↦ trivial correction** for matching: minimum-weight contract and
    positive weights (marginals below 1/2, see `C09.weights_positive`). -/
theorem matching_zero_syndrome_zero_correction {K : Type} [Field K] [LinearOrder K]
    [IsStrictOrderedRing K] (solve : WSolver K) (H : Mat) (n : Nat) (wx wz : List K)
    (mw : List K × List K) (d : MatchingDec K)
    (hnew : MatchingDec.new H n none (some (wx, wz)) mw = .ok d)
    (hwx : ∀ x ∈ wx, 0 < x) (hwz : ∀ x ∈ wz, 0 < x) (hlx : wx.length = n) (hlz : wz.length = n)
    (hX : SolverValidOn n solve (Hz H)) (hZ : SolverValidOn n solve (Hx H))
    (hoX : SolverOptimalOn n solve (Hz H)) (hoZ : SolverOptimalOn n solve (Hx H)) :
    ∃ ev, d.decode solve (List.replicate H.length 0) = .ok (List.replicate (2 * n) 0, ev) := by
  obtain ⟨c, ev, hd, hc, _⟩ := matching_valid solve H n (some (wx, wz)) mw d hnew hX hZ
    (List.replicate (2 * n) 0) (by simp)
  obtain ⟨_, _, hcss, _⟩ := MatchingDec.new_ok H n none (some (wx, wz)) mw d hnew
  rw [measureSyndrome_zeros] at hd hc
  refine ⟨ev, ?_⟩
  rw [hd, hc]
  have hz : extractZSyndrome H (List.replicate H.length 0) = List.replicate (Hz H).length 0 := by
    have := css_zrow_block H hcss (List.replicate (2 * n) 0)
    rw [measureSyndrome_zeros, xPart_zeros, sectorSyndrome_zeros] at this
    exact this
  have hx : extractXSyndrome H (List.replicate H.length 0) = List.replicate (Hx H).length 0 := by
    have := css_xrow_block H hcss (List.replicate (2 * n) 0)
    rw [measureSyndrome_zeros, zPart_zeros, sectorSyndrome_zeros] at this
    exact this
  simp only [Option.getD_some]
  rw [hz, hx, solver_zero_of_zero_syndrome n solve (Hz H) wx hwx hlx hX hoX,
    solver_zero_of_zero_syndrome n solve (Hx H) wz hwz hlz hZ hoZ]
  have : 2 * n = n + n := by omega
  rw [this, List.replicate_add]

/-- **UnionFindDecoder**: X half from `Support(Z-row syndrome, Hz)`, Z half from
    `Support(X-row syndrome, Hx)`; the correction reproduces the syndrome. -/
theorem unionfind_correction_reproduces_syndrome (uf : USolver) (H : Mat) (n : Nat)
    (hcss : isCss H = true) (hufX : UfValidOn n uf (Hz H)) (hufZ : UfValidOn n uf (Hx H))
    (e : Vec) (he : e.length = 2 * n) :
    ∃ c ev, ufDecode uf H n (measureSyndrome H e) = .ok (c, ev) ∧
      c = uf (Hz H) (extractZSyndrome H (measureSyndrome H e)) ++
          uf (Hx H) (extractXSyndrome H (measureSyndrome H e)) ∧
      c.length = 2 * n ∧ (∀ x ∈ c, x < 2) ∧ measureSyndrome H c = measureSyndrome H e :=
  uf_valid uf H n hcss hufX hufZ e he

/-- **BP-OSD, CSS codes**, on an object in any state reachable from `__init__` by any
    history of `decode` calls: Z correction from the ldpc object built on `Hx` fed the
    X-row syndrome, X correction from the one built on `Hz` fed the Z-row syndrome,
    concatenated `[x | z]`; reproduces the syndrome (with or without `channel_update`). -/
theorem bposd_css_correction_reproduces_syndrome (S : BpSolver) (d : BpDec_dec)
    (hcss : isCss d.H = true) (hSX : BpValidOn d.n S (Hz d.H)) (hSZ : BpValidOn d.n S (Hx d.H))
    (hist : List Vec) (e : Vec) (he : e.length = 2 * d.n) :
    ∃ c, (d.decode S (d.run S BpSt.init hist) (measureSyndrome d.H e)).2.2 = .ok c ∧
      c.length = 2 * d.n ∧ (∀ x ∈ c, x < 2) ∧ measureSyndrome d.H c = measureSyndrome d.H e := by
  rw [(d.decode_eq_pure S _ _ (d.run_good S hist _ d.good_init)).1]
  exact bposd_css_valid S d hcss hSX hSZ e he

/-- **BP-OSD, non-CSS codes** (Clifford-deformed): one ldpc object on the full matrix with
    priors `[pz+py | px+py]`; the answer is in `[z | x]` order and its halves are swapped
    back; reproduces the syndrome. -/
theorem bposd_noncss_correction_reproduces_syndrome (S : BpSolver) (d : BpDec_dec)
    (hcss : isCss d.H = false) (hrows : ∀ r ∈ d.H, r.length = 2 * d.n)
    (hS : BpValidOn (2 * d.n) S d.H) (hist : List Vec) (e : Vec) (he : e.length = 2 * d.n) :
    ∃ c, (d.decode S (d.run S BpSt.init hist) (measureSyndrome d.H e)).2.2 = .ok c ∧
      c.length = 2 * d.n ∧ (∀ x ∈ c, x < 2) ∧ measureSyndrome d.H c = measureSyndrome d.H e := by
  rw [(d.decode_eq_pure S _ _ (d.run_good S hist _ d.good_init)).1]
  exact bposd_noncss_valid S d hcss hrows hS e he

/-- what the non-CSS ldpc object is given: the full matrix, no serial schedule, priors
    `[pz+py | px+py]` (model fact used by the correspondence) -/
theorem bposd_noncss_priors (S : BpSolver) (d : BpDec_dec) (hcss : isCss d.H = false) (s : Vec)
    (hl : s.length = d.H.length) :
    d.pureDecode S s =
      .ok ((S.decode d.H false (raddv d.pz d.py ++ raddv d.px d.py) s).drop d.n ++
           (S.decode d.H false (raddv d.pz d.py ++ raddv d.px d.py) s).take d.n) := by
  unfold BpDec_dec.pureDecode; simp [hcss, hl]

/-- **Sweep-match decoders** (`SweepMatchDecoder`, `RotatedSweepMatchDecoder`): with a
    sweeper that returns a Z-only binary vector of length `2n` (black box, any generator
    state) the result is `[matching X part | sweeper Z part]`: length `2n`, binary, and
    its Z-row syndrome is the measured one. -/
theorem sweepmatch_interface {W R : Type} (sweep : R → Vec → R × Vec) (solve : WSolver W)
    (H : Mat) (n : Nat) (mw : List W × List W) (m : MatchingDec W)
    (hm : sweepMatchMatcher H n mw = .ok m)
    (hX : SolverValidOn n solve (Hz H))
    (hsweep : ∀ r s, ∃ zz, (sweep r s).2 = List.replicate n 0 ++ zz ∧ zz.length = n ∧ ∀ x ∈ zz, x < 2)
    (rng : R) (e : Vec) (he : e.length = 2 * n) :
    ∃ c ev, (sweepMatchDecode sweep solve m rng (measureSyndrome H e)).2 = .ok (c, ev) ∧
      c.length = 2 * n ∧ (∀ x ∈ c, x < 2) ∧
      xPart c = solve (Hz H) mw.1 (extractZSyndrome H (measureSyndrome H e)) ∧
      extractZSyndrome H (measureSyndrome H c) = extractZSyndrome H (measureSyndrome H e) :=
  sweepmatch_valid sweep solve H n mw m hm hX hsweep rng e he

/-! ### non-vacuity: the two-qubit code with checks XX and ZZ and a brute-force solver -/

/-- tries the four vectors of length 2 -/
def bruteSolve2 : WSolver Rat := fun M _ sy =>
  ([[0, 0], [1, 0], [0, 1], [1, 1]].find? fun v => sectorSyndrome M v == sy).getD [0, 0]

def H2 : Mat := [[1, 1, 0, 0], [0, 0, 1, 1]]

example : isCss H2 = true := by decide
example : Hx H2 = [[1, 1]] ∧ Hz H2 = [[1, 1]] := by decide

theorem bruteSolve2_valid : SolverValidOn 2 bruteSolve2 [[1, 1]] := by
  intro w sy ⟨v, _, hv⟩
  subst hv
  have hk : dot [1, 1] v % 2 < 2 := Nat.mod_lt _ (by omega)
  unfold sectorSyndrome
  simp only [List.map_cons, List.map_nil]
  generalize dot [1, 1] v % 2 = k at hk
  rcases Nat.lt_succ_iff_lt_or_eq.mp hk with h | h
  · have : k = 0 := by omega
    subst this
    show Solves 2 [[1, 1]] [0] [0, 0]
    exact ⟨rfl, by decide, rfl⟩
  · subst h
    show Solves 2 [[1, 1]] [1] [1, 0]
    exact ⟨rfl, by decide, rfl⟩

/-- the theorem applies to concrete data: X error on qubit 0 is answered by a valid correction -/
example : ∃ d, MatchingDec.new H2 2 none (some ([1, 1], [1, 1])) ([], []) = .ok d ∧
    (d.decode bruteSolve2 (measureSyndrome H2 [1, 0, 0, 0])).toOption.map (·.1) = some [1, 0, 0, 0] := by
  refine ⟨_, rfl, ?_⟩
  decide

end Panqec.C05
