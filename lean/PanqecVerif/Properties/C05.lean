import PanqecVerif.Model.Decoders
namespace Panqec.C05
theorem stub : True := trivial
end Panqec.C05
