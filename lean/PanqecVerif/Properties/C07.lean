import PanqecVerif.Model.Noise
namespace Panqec.C07
theorem placeholder : (1 : Nat) = 1 := rfl
end Panqec.C07
