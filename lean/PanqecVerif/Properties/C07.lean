/-
C07 — the Pauli noise model is the stated i.i.d. channel and is sampled faithfully.

Property theorems only (helper lemmas: `Proofs/Noise.lean`, `Proofs/NoiseProb.lean`).
Quantifiers: every error rate `p ∈ [0,1]`, every direction `(r_x, r_y, r_z)` on the
simplex (faces and vertices included: only `0 ≤ r_σ` is assumed), every per-qubit
deformation dict that is a permutation of {X,Y,Z}, every variate `u ∈ [0,1)`, every
number of qubits.  Everything is over ℚ; `np.log` only enters through monotonicity:
a matching weight is `-log(odds)`, so `weight > 0 ↔ odds < 1`, `weight = 0 ↔ odds = 1`
and weights are ordered opposite to odds.
-/
import PanqecVerif.Proofs.NoiseProb

namespace Panqec.C07

open Panqec

/-! ### the per-qubit distribution -/

/-- entries `(1-p, r_x p, r_y p, r_z p)` are non-negative -/
theorem channel_nonneg (p rx ry rz : Rat) (hp0 : 0 ≤ p) (hp1 : p ≤ 1) (hx : 0 ≤ rx)
    (hy : 0 ≤ ry) (hz : 0 ≤ rz) (σ : Pauli) : 0 ≤ (baseDist p rx ry rz).get σ :=
  baseDist_nonneg p rx ry rz hp0 hp1 hx hy hz σ

/-- and sum to one whenever the direction does -/
theorem channel_sums_to_one (p rx ry rz : Rat) (h : rx + ry + rz = 1) :
    (baseDist p rx ry rz).total = 1 := baseDist_total p rx ry rz h

/-- without a deformation name `probability_distribution` is `n` copies of it -/
theorem undeformed_distribution (p rx ry rz : Rat) (n : Nat) :
    probabilityDistribution p rx ry rz n none = some (List.replicate n (baseDist p rx ry rz)) := rfl

/-- with a deformation, qubit `i` carries the base distribution permuted by its own dict:
    the probability of `σ` is the undeformed probability of `D_i σ` (the direction in which
    the code applies the dict), and `I` keeps `1 - p`. -/
theorem deformed_distribution (p rx ry rz : Rat) (n : Nat) (Ds : List PauliMap)
    (hperm : ∀ D ∈ Ds, D.isPerm = true) :
    ∃ ds, probabilityDistribution p rx ry rz n (some Ds) = some ds ∧ ds.length = Ds.length ∧
      ∀ (i : Nat) (D : PauliMap), Ds[i]? = some D →
        ∃ d, ds[i]? = some d ∧ ∀ σ, d.get σ = (baseDist p rx ry rz).get (D.apply σ) := by
  refine ⟨Ds.map fun D => permDist D (baseDist p rx ry rz), ?_, by simp, ?_⟩
  · exact mapM_deformDist_of_perm _ Ds hperm
  · intro i D hD
    refine ⟨permDist D (baseDist p rx ry rz), by simp [List.getElem?_map, hD], ?_⟩
    exact permDist_get D _

/-- every qubit of the deformed channel still has a probability distribution -/
theorem deformed_distribution_valid (p rx ry rz : Rat) (n : Nat) (Ds : List PauliMap)
    (hp0 : 0 ≤ p) (hp1 : p ≤ 1) (hx : 0 ≤ rx) (hy : 0 ≤ ry) (hz : 0 ≤ rz)
    (h : rx + ry + rz = 1) (hperm : ∀ D ∈ Ds, D.isPerm = true) :
    ∃ ds, probabilityDistribution p rx ry rz n (some Ds) = some ds ∧ ∀ d ∈ ds, d.Valid := by
  refine ⟨Ds.map fun D => permDist D (baseDist p rx ry rz), mapM_deformDist_of_perm _ Ds hperm, ?_⟩
  intro d hd
  obtain ⟨D, hD, rfl⟩ := List.mem_map.mp hd
  exact permDist_valid D _ (hperm D hD) (baseDist_valid p rx ry rz hp0 hp1 hx hy hz h)

/-- the only dicts the code cannot use are those with an image outside {X,Y,Z} (KeyError) -/
theorem deformation_keyError_iff (D : PauliMap) (d : Dist) :
    deformDist D d = none ↔ (D.x = .I ∨ D.y = .I ∨ D.z = .I) := deformDist_keyError D d

/-! ### sampling one qubit -/

/-- `fast_choice` returns `σ` exactly when the variate lies in the half-open interval
    `[lo σ, hi σ)` … -/
theorem fast_choice_preimage (u : Rat) (d : Dist) (hv : d.Valid) (hu0 : 0 ≤ u) (hu1 : u < 1)
    (σ : Pauli) : fastChoice u d = σ ↔ d.lo σ ≤ u ∧ u < d.hi σ :=
  fastChoice_iff u d hv hu0 hu1 σ

/-- … whose length is exactly the probability of `σ`; the four intervals tile `[0, 1)` -/
theorem fast_choice_intervals (d : Dist) (hv : d.Valid) :
    (∀ σ, d.hi σ - d.lo σ = d.get σ) ∧ d.lo .I = 0 ∧ d.hi .I = d.lo .X ∧ d.hi .X = d.lo .Y ∧
      d.hi .Y = d.lo .Z ∧ d.hi .Z = 1 := by
  obtain ⟨_, _, _, _, h5⟩ := hv
  simp only [Dist.total] at h5
  refine ⟨fun σ => by simp [Dist.hi], rfl, ?_, ?_, ?_, ?_⟩ <;> simp [Dist.hi, Dist.lo, Dist.get, h5]

/-- `p = 0` (identity has probability 1, deformed or not): never an error -/
theorem no_error_at_p_zero (u : Rat) (d : Dist) (hi : d.i = 1) (hu1 : u < 1) :
    fastChoice u d = .I := fastChoice_p_zero u d hi hu1

/-- `p = 1` (identity has probability 0): always an error -/
theorem always_error_at_p_one (u : Rat) (d : Dist) (hi : d.i = 0) (hu0 : 0 ≤ u) :
    fastChoice u d ≠ .I := fastChoice_p_one u d hi hu0

/-- the identity entry is `1 - p` on every qubit, deformed or not -/
theorem identity_probability (p rx ry rz : Rat) (D : PauliMap) :
    (baseDist p rx ry rz).i = 1 - p ∧ (permDist D (baseDist p rx ry rz)).i = 1 - p := ⟨rfl, rfl⟩

/-! ### sampling a whole error -/

/-- `generate` returns a vector of length `2n` … -/
theorem generate_length (ds : List Dist) (us : List Rat) (h : us.length = ds.length) :
    (generate ds us).length = 2 * ds.length := Panqec.generate_length ds us h

/-- … with entries 0/1 … -/
theorem generate_binary (ds : List Dist) (us : List Rat) : ∀ x ∈ generate ds us, x < 2 := by
  intro x hx
  simp only [generate, pauliToBsf, List.mem_append, List.mem_map] at hx
  rcases hx with ⟨σ, _, rfl⟩ | ⟨σ, _, rfl⟩ <;> cases σ <;> decide

/-- … which is the BSF image of independently chosen letters: the letter of qubit `q`
    depends only on the `q`-th variate and the `q`-th distribution; its X bit sits at
    position `q`, its Z bit at position `n + q`. -/
theorem generate_is_qubitwise (ds : List Dist) (us : List Rat) (h : us.length = ds.length)
    (q : Nat) (d : Dist) (u : Rat) (hd : ds[q]? = some d) (hu : us[q]? = some u) :
    (bsfToPauli (generate ds us))[q]? = some (fastChoice u d) ∧
    (generate ds us)[q]? = some (fastChoice u d).xBit ∧
    (generate ds us)[ds.length + q]? = some (fastChoice u d).zBit := by
  refine ⟨?_, generate_xbit ds us q d u hd hu, ?_⟩
  · unfold generate
    rw [bsfToPauli_pauliToBsf]
    exact sampleLetters_get ds us q d u hd hu
  · have := generate_zbit ds us q d u hd hu
    rwa [sampleLetters_length, h, Nat.min_self] at this

/-- the sampled error is a given Pauli string iff every variate lies in the interval of
    its letter (so the events of different qubits are independent and the probability of a
    string is the product of interval lengths, see C18) -/
theorem generate_preimage (ds : List Dist) (s : List Pauli) (us : List Rat)
    (hv : ∀ d ∈ ds, d.Valid) (hu : ∀ u ∈ us, 0 ≤ u ∧ u < 1) (hl : ds.length = us.length) :
    bsfToPauli (generate ds us) = s ↔ inBox ds s us := by
  unfold generate
  rw [bsfToPauli_pauliToBsf]
  exact sampleLetters_iff_inBox ds s us hv hu hl

/-- `p = 0` on all qubits: the zero vector is returned for every random stream -/
theorem generate_p_zero (ds : List Dist) (us : List Rat) (h0 : ∀ d ∈ ds, d.i = 1)
    (hu : ∀ u ∈ us, u < 1) : ∀ σ ∈ sampleLetters ds us, σ = .I :=
  sampleLetters_forall (· = .I) ds us fun d hd u hu' => fastChoice_p_zero u d (h0 d hd) (hu u hu')

/-- `p = 1` on all qubits: every qubit carries an error -/
theorem generate_p_one (ds : List Dist) (us : List Rat) (h0 : ∀ d ∈ ds, d.i = 0)
    (hu : ∀ u ∈ us, 0 ≤ u) : ∀ σ ∈ sampleLetters ds us, σ ≠ .I :=
  sampleLetters_forall (· ≠ .I) ds us fun d hd u hu' => fastChoice_p_one u d (h0 d hd) (hu u hu')

/-! ### flip marginals -/

/-- the X bit is set exactly on an interval of length `p_X + p_Y` -/
theorem x_flip_marginal (u : Rat) (d : Dist) (hv : d.Valid) :
    (fastChoice u d).xBit = 1 ↔ d.i ≤ u ∧ u < d.i + d.xMarginal := xFlip_iff u d hv

/-- the Z bit is set exactly on `[1 - (p_Z + p_Y), 1)` -/
theorem z_flip_marginal (u : Rat) (d : Dist) (hv : d.Valid) :
    (fastChoice u d).zBit = 1 ↔ 1 - d.zMarginal ≤ u := zFlip_iff u d hv

/-- both bits are set exactly on the interval of `Y` (length `p_Y`) -/
theorem xz_flip_joint (u : Rat) (d : Dist) (hv : d.Valid) (hu0 : 0 ≤ u) (hu1 : u < 1) :
    ((fastChoice u d).xBit = 1 ∧ (fastChoice u d).zBit = 1) ↔
      d.lo .Y ≤ u ∧ u < d.lo .Y + d.y := xzFlip_iff u d hv hu0 hu1

/-- the marginals are sums of the joint distribution of the two bits -/
theorem marginals_from_joint (d : Dist) :
    d.xMarginal = d.joint 1 0 + d.joint 1 1 ∧ d.zMarginal = d.joint 0 1 + d.joint 1 1 := by
  obtain ⟨_, h2, h3, h4⟩ := joint_values d
  simp [Dist.xMarginal, Dist.zMarginal, h2, h3, h4]

/-! ### matching weights -/

/-- `MatchingDecoder` builds the X matcher on `Hz` with the odds of the X-flip marginals and
    the Z matcher on `Hx` with those of the Z-flip marginals; `error_type` selects which. -/
theorem matching_receives_marginals (ds : List Dist) :
    matchingCalls .both ds = [(Sector.Hz, ds.map fun d => odds d.xMarginal),
                              (Sector.Hx, ds.map fun d => odds d.zMarginal)] ∧
    matchingCalls .X ds = [(Sector.Hz, ds.map fun d => odds d.xMarginal)] ∧
    matchingCalls .Z ds = [(Sector.Hx, ds.map fun d => odds d.zMarginal)] := by
  refine ⟨rfl, rfl, rfl⟩

/-- a weight is `-log` of `P/(1-P)`: defined for `P < 1`, non-negative odds, below 1 (weight
    positive) iff `P < 1/2`, equal to 1 (weight zero) iff `P = 1/2`, strictly increasing in
    `P` (weights strictly decreasing); `P = 1` is the only undefined case. -/
theorem weight_is_log_likelihood_ratio (P : Rat) (h0 : 0 ≤ P) (h1 : P < 1) :
    odds P = some (P / (1 - P)) ∧ 0 ≤ P / (1 - P) ∧ (P / (1 - P) < 1 ↔ P < 1 / 2) ∧
      (P / (1 - P) = 1 ↔ P = 1 / 2) ∧ ∀ Q, P < Q → Q < 1 → P / (1 - P) < Q / (1 - Q) :=
  ⟨odds_some P h1, odds_nonneg P h0 h1, odds_lt_one_iff P h1, odds_eq_one_iff P h1,
   fun Q hPQ hQ => odds_strictMono P Q hPQ hQ⟩

theorem weight_undefined_iff (P : Rat) : odds P = none ↔ P = 1 := odds_none P

/-- the marginals of a valid distribution are probabilities -/
theorem marginals_in_unit_interval (d : Dist) (hv : d.Valid) :
    0 ≤ d.xMarginal ∧ d.xMarginal ≤ 1 ∧ 0 ≤ d.zMarginal ∧ d.zMarginal ≤ 1 := by
  obtain ⟨h1, h2, h3, h4, h5⟩ := hv
  simp only [Dist.total] at h5
  simp only [Dist.xMarginal, Dist.zMarginal]
  refine ⟨?_, ?_, ?_, ?_⟩ <;> linarith

/-! ### belief propagation priors -/

/-- CSS path: the X decoder (built on `Hz`) first receives the X-flip marginals, the Z decoder
    (built on `Hx`) the Z-flip marginals; without channel update nothing else is sent, and
    the result is `[x_correction | z_correction]`. -/
theorem bp_priors_css (ds : List Dist) (zCorr xCorr : List Nat) :
    bposdCss false ds zCorr xCorr =
      some ([.update .x (ratVals (ds.map Dist.xMarginal)),
             .update .z (ratVals (ds.map Dist.zMarginal)), .decode .z, .decode .x],
            xCorr ++ zCorr) := rfl

/-- with channel update the X decoder receives, between the two decodings, the vector
    `update_probabilities(z_correction, …, "z->x")` -/
theorem bp_priors_css_update (ds : List Dist) (zCorr xCorr : List Nat) (v : List UpdVal)
    (h : updateProbabilities .zToX zCorr (ds.map (·.x)) (ds.map (·.y)) (ds.map (·.z)) = some v) :
    bposdCss true ds zCorr xCorr =
      some ([.update .x (ratVals (ds.map Dist.xMarginal)),
             .update .z (ratVals (ds.map Dist.zMarginal)), .decode .z, .update .x v, .decode .x],
            xCorr ++ zCorr) := by
  simp [bposdCss, h]

/-- `update_probabilities` works qubit by qubit -/
theorem update_probabilities_entries (dir : UpdDir) (cs : List Nat) (pxs pys pzs : List Rat)
    (h1 : cs.length ≤ pxs.length) (h2 : cs.length ≤ pys.length) (h3 : cs.length ≤ pzs.length) :
    ∃ v : List UpdVal, updateProbabilities dir cs pxs pys pzs = some v ∧ v.length = cs.length ∧
      ∀ (q c : Nat) (px py pz : Rat), cs[q]? = some c → pxs[q]? = some px → pys[q]? = some py →
        pzs[q]? = some pz → v[q]? = some (updateEntry dir c px py pz) :=
  updateProbabilities_get dir cs pxs pys pzs h1 h2 h3

/-- the updated X prior is the conditional probability `P(x-flip | z-flip = c)`:
    joint probability over marginal, for both values of the decoded Z bit … -/
theorem update_is_conditional_z_to_x (d : Dist) (ht : d.total = 1) :
    (d.zMarginal ≠ 0 →
      updateEntry .zToX 1 d.x d.y d.z = .val (d.joint 1 1 / (d.joint 0 1 + d.joint 1 1))) ∧
    (∀ c, c ≠ 1 → d.zMarginal ≠ 1 →
      updateEntry .zToX c d.x d.y d.z = .val (d.joint 1 0 / (d.joint 0 0 + d.joint 1 0))) :=
  ⟨updateEntry_zToX_one d, fun c hc h => updateEntry_zToX_zero d c hc ht h⟩

/-- … and symmetrically `P(z-flip | x-flip = c)` in the other direction -/
theorem update_is_conditional_x_to_z (d : Dist) (ht : d.total = 1) :
    (d.xMarginal ≠ 0 →
      updateEntry .xToZ 1 d.x d.y d.z = .val (d.joint 1 1 / (d.joint 1 0 + d.joint 1 1))) ∧
    (∀ c, c ≠ 1 → d.xMarginal ≠ 1 →
      updateEntry .xToZ c d.x d.y d.z = .val (d.joint 0 1 / (d.joint 0 0 + d.joint 0 1))) :=
  ⟨updateEntry_xToZ_one d, fun c hc h => updateEntry_xToZ_zero d c hc ht h⟩

/-- conditioning on a flip of probability zero keeps the entry at 0 (the guard in the code);
    conditioning on "no flip" of probability zero divides by zero (`nan`, since then the
    numerator is zero as well for a valid distribution) -/
theorem update_null_events (d : Dist) (hv : d.Valid) :
    (d.zMarginal = 0 → updateEntry .zToX 1 d.x d.y d.z = .val 0) ∧
    (d.xMarginal = 0 → updateEntry .xToZ 1 d.x d.y d.z = .val 0) ∧
    (d.zMarginal = 1 → updateEntry .zToX 0 d.x d.y d.z = .nan) ∧
    (d.xMarginal = 1 → updateEntry .xToZ 0 d.x d.y d.z = .nan) := by
  obtain ⟨h1, h2, h3, h4, h5⟩ := hv
  simp only [Dist.total] at h5
  simp only [Dist.zMarginal, Dist.xMarginal]
  refine ⟨?_, ?_, ?_, ?_⟩ <;> intro h
  · simp [updateEntry, h]
  · simp [updateEntry, h]
  · have e1 : (1 : Rat) - d.z - d.y = 0 := by linarith
    have e2 : d.x = 0 := by linarith
    simp [updateEntry, floatDiv, e1, e2]
  · have e1 : (1 : Rat) - d.x - d.y = 0 := by linarith
    have e2 : d.z = 0 := by linarith
    simp [updateEntry, floatDiv, e1, e2]

/-- non-CSS path: the single decoder works on the full stabilizer matrix, whose first `n`
    columns (the X parts of the stabilizers) detect Z flips: its priors are
    `[z-marginals | x-marginals]`, entry `i` the Z-flip marginal of qubit `i`, entry `n + i`
    its X-flip marginal, and its decoding `[z | x]` is returned as `[x | z]`. -/
theorem bp_priors_noncss (ds : List Dist) (corr : List Nat) :
    ∃ v : List UpdVal, bposdNonCss ds corr =
        ([.update .joint v, .decode .joint], corr.drop ds.length ++ corr.take ds.length) ∧
      v.length = 2 * ds.length ∧
      ∀ (i : Nat) (d : Dist), ds[i]? = some d →
        v[i]? = some (.val d.zMarginal) ∧ v[ds.length + i]? = some (.val d.xMarginal) := by
  refine ⟨ratVals (ds.map Dist.zMarginal ++ ds.map Dist.xMarginal), rfl, ?_, ?_⟩
  · simp [ratVals]; omega
  · intro i d hd
    have hi : i < ds.length := by
      by_contra hc
      rw [List.getElem?_eq_none (by omega)] at hd
      simp at hd
    constructor
    · have hd' : ds[i] = d := by
        rw [List.getElem?_eq_getElem hi] at hd
        exact Option.some.inj hd
      simp [ratVals, List.getElem?_append_left, hi, hd']
    · simp [ratVals, List.getElem?_append_right, List.getElem?_map, hd]

/-- the re-ordering undoes the `[z | x]` layout: a decoding `cz ++ cx` becomes `cx ++ cz` -/
theorem bp_noncss_reorder (ds : List Dist) (cz cx : List Nat) (h : cz.length = ds.length) :
    (bposdNonCss ds (cz ++ cx)).2 = cx ++ cz := by
  simp [bposdNonCss, ← h]

/-! ### non-vacuity -/

example : (baseDist (1/4) (1/2) (1/4) (1/4)).Valid := by
  refine baseDist_valid _ _ _ _ ?_ ?_ ?_ ?_ ?_ ?_ <;> norm_num
example : PauliMap.swapXZ.isPerm = true ∧ (⟨.Y, .Z, .X⟩ : PauliMap).isPerm = true := by decide
/-- a three-cycle shows the direction: new `p_X` is the old `p_Y` -/
example : (permDist ⟨.Y, .Z, .X⟩ (baseDist (1/2) (1/2) (1/4) (1/4))).x = 1/8 := by
  norm_num [permDist, baseDist, Dist.get]
example : fastChoice (3/4) (baseDist (1/4) (1/2) (1/4) (1/4)) = .X ∧
    fastChoice (7/8) (baseDist (1/4) (1/2) (1/4) (1/4)) = .Y := by
  constructor <;> rw [fastChoice_eq] <;> norm_num [baseDist]

end Panqec.C07
