/-
C01 for `Color3DCode`, ALL sizes of the supported family (every side even and `≥ 2`; DESIGN.md
section 4): the hand-written lattice model `Model/Lattices/Color3DCode.lean` (tied to
`panqec/codes/color_3d/_color_3d_code.py` by the correspondence streams of
`harness/lattices/color3dcode.py`, which also run odd sizes) is a well-formed coordinate system — the
qubit list, which the class DERIVES from the stabilizer supports, is duplicate-free and disjoint
from the stabilizer locations, and no generator loses a key to the wrap-around `% 4L` (the C02
clause, for every size) — whose generators commute (a cell and a face of the tessellation by
truncated octahedra share 0, 2, 4 or 6 vertices), whose nine logical pairs (X strings, Z membranes;
three of the membranes are the unions of the hexagons between red and green cells) commute with the
generators and have the pairing table `ω(X_i, Z_j) = δ_ij`; `n = 12·LxLyLz`, `k = 9`,
`n_stabilizers = 8·LxLyLz + (2Lx+1)(2Ly+1)(2Lz+1)` (the class lists every hexagon of the seam planes
twice); the class has no `get_deformation`.

Method: the periodic identification is removed once — two wrapped keys of two locations coincide
iff the difference of the deltas equals the CENTRED difference of the locations
(`Proofs/LatColor3DCodeWrap.lean`) — after which every overlap count is a finite function of the
centred differences / residues modulo 8 of the location, evaluated by the kernel
(`decide +kernel`) over all parameter values.  Evenness of the sides is used exactly where the class
needs it: the colour `(x+y+z) % 8` of a cell must survive the wrap-around.

The rank clause (GF(2) rank of the generators `= n − k = 12·LxLyLz − 9`) is proved here for all
sizes only in its Z-type half: `z_generators_independent_partial` — an explicit family of
`2·LxLyLz − 3` cell generators (all cells but a red, a yellow and a green one; the three relations
"the cells of one colour multiply to the cells of another colour" are the only ones) is
GF(2)-independent, by a peeling order with one witness qubit per cell (a starting line of cells in
`y`, then the slab `z ≤ 6` in `x`, then layer by layer in `z`; `Proofs/LatColor3DCodeRank*.lean`).
MISSING for `valid_code`: the X-type half, `10·LxLyLz − 6` independent face generators (the faces of
every cell satisfy two local relations, so the family needs a 2-D ordered seam region; no closed form
found yet); the full rank clause is covered by the kernel-checked instances of `Properties/C01.lean`
(`valid_Color3DCode_partial`).
-/
import PanqecVerif.Proofs.LatColor3DCodeP
import PanqecVerif.Proofs.LatColor3DCodeRankC

namespace Panqec.C01Color3DCode
open Panqec.Color3DCode Panqec.Lat2D Panqec.Color

/-- the supported family: every side even and at least 2 -/
def Family (Lx Ly Lz : Nat) : Prop :=
  (2 ≤ Lx ∧ Lx % 2 = 0) ∧ (2 ≤ Ly ∧ Ly % 2 = 0) ∧ (2 ≤ Lz ∧ Lz % 2 = 0)

instance (Lx Ly Lz : Nat) : Decidable (Family Lx Ly Lz) := by unfold Family; infer_instance

/-- coordinates distinct and disjoint (the qubit list is derived from the stabilizers: first
    occurrences only); every stabilizer and logical is a dict (distinct keys — the 24 / 6 / 4 wrapped
    vertices of a generator never collide; the membranes assign many keys twice, the dict keeps the
    first occurrence) supported on qubits with letters ≠ I; stabilizers are non-empty — every size
    of the family -/
theorem wf (Lx Ly Lz : Nat) (h : Family Lx Ly Lz) : (lattice Lx Ly Lz).WF :=
  wf_all h.1.1 h.2.1.1 h.2.2.1 h.1.2 h.2.1.2 h.2.2.2

/-- all pairs of generators commute, the nine X and nine Z logicals commute with every generator,
    `opAntiCount (X_i, Z_j)` is odd iff `i = j`, logicals of the same letter commute — every size of
    the family -/
theorem commPair (Lx Ly Lz : Nat) (h : Family Lx Ly Lz) : (lattice Lx Ly Lz).CommPair :=
  commPair_all h.1.1 h.2.1.1 h.2.2.1 h.1.2 h.2.1.2 h.2.2.2

/-- the generators commute as soon as every side is `≥ 2` (odd sides included: only the logical
    operators need the 4-colouring) -/
theorem stabilizers_commute (Lx Ly Lz : Nat) (hx : 2 ≤ Lx) (hy : 2 ≤ Ly) (hz : 2 ≤ Lz) :
    ∀ s ∈ (lattice Lx Ly Lz).stabs, ∀ t ∈ (lattice Lx Ly Lz).stabs,
      opCommute ((lattice Lx Ly Lz).getStab s) ((lattice Lx Ly Lz).getStab t) = true :=
  stab_comm_all hx hy hz

/-- `n = 12·LxLyLz` (every side `≥ 2`): the derived qubit list has exactly the sites of the closed
    form `isQubit_rule`, twelve per unit cell -/
theorem n_formula (Lx Ly Lz : Nat) (hx : 2 ≤ Lx) (hy : 2 ≤ Ly) (hz : 2 ≤ Lz) :
    (lattice Lx Ly Lz).toCodeData.n = 12 * (Lz * (Lx * Ly)) :=
  length_qubits hx hy hz

/-- `k = 9` (every size): nine logical X strings, nine logical Z membranes -/
theorem k_value (Lx Ly Lz : Nat) : (lattice Lx Ly Lz).toCodeData.k = 9 := rfl

/-- `n_stabilizers = 8·LxLyLz + (2Lx+1)(2Ly+1)(2Lz+1)` (every size): `2·LxLyLz` cells, `6·LxLyLz`
    squares, and `(2Lx+1)(2Ly+1)(2Lz+1)` LISTED hexagons — `range(1, 4L+2, 2)` lists the seam plane
    `4L+1`, which is the plane `1` again -/
theorem n_stabilizers (Lx Ly Lz : Nat) :
    (lattice Lx Ly Lz).stabs.length =
      8 * (Lz * (Lx * Ly)) + (2 * Lz + 1) * ((2 * Lx + 1) * (2 * Ly + 1)) :=
  length_stabs Lx Ly Lz

/-- `is_stabilizer` in closed form: the nine boxes of `get_stabilizer_coordinates` -/
theorem isStabilizer_rule (Lx Ly Lz : Nat) (x y z : Int) :
    [x, y, z] ∈ (lattice Lx Ly Lz).stabs ↔ IsS Lx Ly Lz x y z :=
  mem_stabs'

/-- `is_qubit` in closed form — the DERIVED qubit list consists exactly of the points of the box
    with one odd coordinate whose two even coordinates differ by 2 modulo 4 (the vertices of the
    truncated octahedra) -/
theorem isQubit_rule (Lx Ly Lz : Nat) (hx : 2 ≤ Lx) (hy : 2 ≤ Ly) (hz : 2 ≤ Lz) (a b c : Int) :
    isQubit Lx Ly Lz [a, b, c] = true ↔ IsQ Lx Ly Lz a b c :=
  isQubit_iff hx hy hz

/-- `stabilizer_type` never misses its colour table (no `KeyError`) -/
theorem stabilizerType_total (x y z : Int) : typeOf x y z ≠ StabType.keyError :=
  typeOf_ne_keyError x y z

/-- every generator is the dict of its wrapped deltas, in delta order and without collision: 24 on a
    cell (letter `Z`), 4 on a square, 6 on a hexagon (letter `X`) -/
theorem stabilizer_closed_form (Lx Ly Lz : Nat) (hx : 2 ≤ Lx) (hy : 2 ≤ Ly) (hz : 2 ≤ Lz) (x y z : Int)
    (h : [x, y, z] ∈ (lattice Lx Ly Lz).stabs) :
    (lattice Lx Ly Lz).getStab [x, y, z] =
      ((shape x y z).map (wrapAt (4 * (Lx : Int)) (4 * (Ly : Int)) (4 * (Lz : Int)) x y z)).map
        (fun q => (q, letterOf x y z)) :=
  getStab_eq hx hy hz h

/-- the three hexagon membranes of `get_logicals_z` in closed form: the keys of the hexagons of the
    plane `x = 3` whose free coordinates add up to `0 (mod 8)` — the hexagons shared by a red and a
    green cell (here for the first one) -/
theorem hexagon_membrane_rule (Lx Ly Lz : Nat) (h : Family Lx Ly Lz) (q : Coord) :
    q ∈ kZ3 Lx Ly Lz ↔
      ∃ y z, InH Ly y ∧ InH Lz z ∧ (y + z) % 8 = 0 ∧ q ∈ keys Lx Ly Lz 3 y z :=
  mem_kZ3 h.1.1 h.2.1.1 h.2.2.1 h.1.2 h.2.1.2 h.2.2.2

/-- PARTIAL rank clause (Z-type half), every side `≥ 2`: the `2·LxLyLz − 3` cell generators of
    `selCells` (every cell of `get_stabilizer_coordinates` except `(6,2,2)`, `(6,2,6)`, `(4,4,4)` — a
    red, a yellow and a green cell) are distinct stabilizer locations whose operators are
    GF(2)-independent: no non-empty sub-family has even Z-parity (and X-parity) on every qubit.
    Hence the GF(2) rank of the stabilizer matrix is at least `2·LxLyLz − 3`.
    MISSING for the full rank clause `rank = n − k`: `10·LxLyLz − 6` independent face generators. -/
theorem z_generators_independent_partial (Lx Ly Lz : Nat) (hx : 2 ≤ Lx) (hy : 2 ≤ Ly) (hz : 2 ≤ Lz) :
    (selCells Lx Ly Lz).Nodup ∧ (∀ s ∈ selCells Lx Ly Lz, s ∈ (lattice Lx Ly Lz).stabs) ∧
    (selCells Lx Ly Lz).length + 3 = 2 * (Lz * (Lx * Ly)) ∧
    Cubic3D.OpsIndep ((selCells Lx Ly Lz).map (lattice Lx Ly Lz).getStab) :=
  ⟨nodup_selCells Lx Ly Lz, selCells_sub, length_selCells Lx Ly Lz hx (by omega) hz,
    cells_indep hx hy hz⟩

/-- the class defines no deformation: the inherited `get_deformation` RETURNS a
    `NotImplementedError` instance for every name and location -/
theorem deformation_rule (name : String) (loc : Coord) :
    getDeformation name loc = DeformResult.returnsNotImplementedError := rfl

/-- `qubit_axis` is `'x'` on every 3-tuple -/
theorem qubitAxis_rule (x y z : Int) : qubitAxis [x, y, z] = some "x" := rfl

/-! ### non-vacuity -/

example : Family 2 2 2 := by decide
example : Family 4 2 6 := by decide
example : (lattice 2 2 2).WF := wf 2 2 2 (by decide)
example : (lattice 2 4 6).CommPair := commPair 2 4 6 (by decide)
example : (lattice 2 2 4).toCodeData.n = 192 := n_formula 2 2 4 (by decide) (by decide) (by decide)
example : (lattice 2 2 2).stabs.length = 189 := n_stabilizers 2 2 2
example : (selCells 2 2 2).length = 13 := by decide
example : Cubic3D.OpsIndep ((selCells 2 4 6).map (lattice 2 4 6).getStab) :=
  (z_generators_independent_partial 2 4 6 (by decide) (by decide) (by decide)).2.2.2
example : typeOf 2 2 6 = StabType.red := by decide
example : typeOf 4 4 4 = StabType.green := by decide
example : stabilizerType 2 2 2 [2, 2, 2] = some StabType.yellow := by decide
example : getDeformation "XZZX" [0, 1, 2] = DeformResult.returnsNotImplementedError := rfl
set_option maxRecDepth 100000 in
example : (lattice 2 2 2).getStab [0, 2, 2] =
    [([0, 2, 1], .X), ([0, 2, 3], .X), ([0, 1, 2], .X), ([0, 3, 2], .X)] := by
  decide
-- the hexagon `(9, 1, 1)` of the seam plane is the hexagon `(1, 1, 1)` again
set_option maxRecDepth 100000 in
example : (lattice 2 2 2).getStab [9, 1, 1] = (lattice 2 2 2).getStab [1, 1, 1] ∧
    (lattice 2 2 2).getStab [9, 1, 1] =
      [([0, 1, 2], .X), ([2, 1, 0], .X), ([1, 0, 2], .X), ([1, 2, 0], .X), ([0, 2, 1], .X), ([2, 0, 1], .X)] := by
  decide

end Panqec.C01Color3DCode
