/-
C01 for `Color3DCode` (work in progress: the all-sizes theorems are added as they are proved).
-/
import PanqecVerif.Model.Lattices.Color3DCode

namespace Panqec.C01Color3DCode
open Panqec.Color3DCode Panqec.Color

/-- `k = 9` (every size): nine logical X strings, nine logical Z membranes -/
theorem k_value (Lx Ly Lz : Nat) : (lattice Lx Ly Lz).toCodeData.k = 9 := rfl

/-- the class defines no deformation: the inherited `get_deformation` RETURNS a
    `NotImplementedError` instance for every name and location -/
theorem deformation_rule (name : String) (loc : Coord) :
    getDeformation name loc = DeformResult.returnsNotImplementedError := rfl

/-- `qubit_axis` is `'x'` on every 3-tuple -/
theorem qubitAxis_rule (x y z : Int) : qubitAxis [x, y, z] = some "x" := rfl

end Panqec.C01Color3DCode
