/-
C17 for `HollowRhombicCode`, EVERY size of the supported family (`Lx, Ly ≥ 2`, `Lz ≥ 3`, no upper
bound) that is a valid code, i.e. that is not `Deficient` (`C01HollowRhombicCode.valid_iff_not_deficient`):
the distance `code.d` reports is the true code distance, `min wX Lz`, where

    wX = Lx·Ly + (Lx−1)(Ly−1) − [Lz ≥ 5]·((Lx−2)(Ly−4) + (Lx−3)(Ly−3))

is the weight of the listed logical X — the existing x- and y-edges of the plane `z = 4`, which
crosses the hole exactly when `Lz ≥ 5` — for the undeformed code and for the deformed code the class
offers (`'Checkerboard XZZX'`).  As for `RhombicPlanarCode` the distance is not `min(Lx, Ly, Lz)`:
`HollowRhombicCode(2, 2, 9).d = 5`, `(3, 3, 14).d = 13`, and the exact search (integer program on
both CSS sectors, 107 non-deficient sizes with `n ≤ 330` and the tall lattices `(2,3,9)`, `(3,3,14)`,
`(2,4,11)`) confirms that these are the true distances.  The hard-coded height `z = 4` of the listed
sheet is the right choice for every size: it is a lightest sheet (it goes through the hole whenever
a horizontal plane can).

The matrices are the ones the generic code model assembles from the hand-written lattice model
`Model/Lattices/HollowRhombicCode.lean` (tied to `panqec/codes/surface_3d/_hollow_rhombic_code.py` by
the correspondence streams of `harness/lattices/hollowrhombiccode.py`).

* `weights_listed`, `reported_distance` — the listed logical X has weight `wX` (counted: the two
  edge loops of the plane with the hole guard), the listed logical Z (the vertical stack
  `(2Lx−1, 2Ly−2, ·)`) weight `Lz`; `code.d` (`distance`, the minimum Pauli weight over the rows of
  `logicals_x` and `logicals_z`, as `StabilizerCode.d` computes it) is their minimum.  Every size
  of the family, deficient or not.
* `lower_bound` — every non-trivial logical operator has at least that weight.  Packing argument
  (`Proofs/DistLattice.lean`, `Proofs/DistClass.lean`, `Proofs/DistHollowRhombicCode{A,B}.lean`): a
  non-trivial logical anticommutes with one of the two listed logicals (C04).  The X sheet has the
  `Lz` representatives `z = 2i` (existing x- and y-edges of that plane): a listed triangle has its
  x key iff it has its y key (`C01HollowRhombicCode.triangle_keys_rule`), so every sheet commutes with
  every generator, and it meets the listed Z stack in one qubit.  The Z stack has one
  representative per key `(x, y, 4)` of the listed sheet — `wX` of them — namely the vertical stack
  `(x, y, ·)`: all its locations are qubits (the hole has the same cross-section at every height it
  reaches, and it reaches the height 4 whenever it reaches an even height), it meets every cube in
  0 or 2 edges and the listed sheet in one.  A representative is NOT shown to differ from the
  listed logical by an explicit product of generators: it commutes with all generators and has
  the same parities against the two listed logicals, hence is in the class of the listed logical
  by C04 (`Lattice.same_class`) — this is where the validity of the code (not deficient) enters.
* `distance` — `IsDistance n H (min wX Lz)`; `distance_reported` states it for the reported `d`.
* `distance_deformed`, `distance_deformed_offered` — the same for the deformed code
  (`deform('Checkerboard XZZX')`; every other name raises), every non-deficient size
  (`C17.distance_deformation_invariant`).
* `deficient_reported_distance_wrong_x` / `_y` — NEGATIVE, a consequence of the recorded C01 finding:
  on the deficient sizes with `Lx = 3` (`Ly, Lz ≥ 6`) and with `Ly = 4` (`Lx ≥ 5`, `Lz ≥ 6`) the
  reported `d ≥ 6` is not the minimum weight of an operator that commutes with all generators and
  is not a product of generators: the undeclared logical X of the thin hole, a plaquette of
  weight 4, is one (`HollowRhombicCode(3, 6, 6).d = 6`, exact search: 4).
-/
import PanqecVerif.Properties.C01HollowRhombicCode
import PanqecVerif.Proofs.DistHollowRhombicCodeB
import PanqecVerif.Proofs.DistHollowRhombicCodeC
import PanqecVerif.Proofs.Dist
import PanqecVerif.Proofs.DistDeform

namespace Panqec.C17HollowRhombicCode
open Panqec.HollowRhombicCode Panqec.Color
open Panqec.C01HollowRhombicCode (Family Deficient)

/-- the number of qubits: the edges of the `Lx × Ly × Lz` planar cubic lattice minus the x, y and z
    edges in the hole -/
def nQ (Lx Ly Lz : Nat) : Nat :=
  Lx * Ly * Lz + (Lx - 1) * (Ly - 1) * Lz + (Lx - 1) * Ly * (Lz - 1) -
    ((Lx - 2) * (Ly - 4) * (Lz - 4) + (Lx - 3) * (Ly - 3) * (Lz - 4) + (Lx - 3) * (Ly - 4) * (Lz - 3))

theorem n_eq (Lx Ly Lz : Nat) : (lattice Lx Ly Lz).qubits.length = nQ Lx Ly Lz := by
  have := C01HollowRhombicCode.n_formula Lx Ly Lz
  unfold nQ
  show (qubits Lx Ly Lz).length = _
  have e : (lattice Lx Ly Lz).toCodeData.n = (qubits Lx Ly Lz).length := rfl
  omega

/-- the weight of the listed sheet `z = 4` -/
abbrev wX := HollowRhombicCode.wX

/-- the distance `min wX Lz` -/
def dist (Lx Ly Lz : Nat) : Nat := min (wX Lx Ly Lz) Lz

/-- the row of `logicals_x` has Pauli weight `wX` (the existing edges of the plane `z = 4`), that of
    `logicals_z` `Lz` (vertical stack) — every size of the family -/
theorem weights_listed (Lx Ly Lz : Nat) (h : Family Lx Ly Lz) :
    (lattice Lx Ly Lz).rowsX.map pauliWeight = [wX Lx Ly Lz] ∧
    (lattice Lx Ly Lz).rowsZ.map pauliWeight = [Lz] :=
  HollowRhombicCode.weights_listed h.2.2 (C01HollowRhombicCode.wf Lx Ly Lz h)

/-- `wX` written out: without hole in the plane (`Lz ≤ 4`) the full sheet, with the hole the sheet
    minus its `(Lx−2)(Ly−4)` x-edges and `(Lx−3)(Ly−3)` y-edges -/
theorem wX_formula (Lx Ly Lz : Nat) :
    (Lz ≤ 4 → wX Lx Ly Lz = Lx * Ly + (Lx - 1) * (Ly - 1)) ∧
    (5 ≤ Lz → wX Lx Ly Lz + ((Lx - 2) * (Ly - 4) + (Lx - 3) * (Ly - 3)) =
      Lx * Ly + (Lx - 1) * (Ly - 1)) := by
  unfold wX HollowRhombicCode.wX
  constructor
  · intro h; rw [if_neg (by omega)]; rfl
  · intro h
    rw [if_pos h]
    have : (Lx - 2) * (Ly - 4) + (Lx - 3) * (Ly - 3) ≤ Lx * Ly + (Lx - 1) * (Ly - 1) := by
      have h1 : (Lx - 2) * (Ly - 4) ≤ Lx * Ly := Nat.mul_le_mul (by omega) (by omega)
      have h2 : (Lx - 3) * (Ly - 3) ≤ (Lx - 1) * (Ly - 1) := Nat.mul_le_mul (by omega) (by omega)
      omega
    omega

/-- what `code.d` returns — the minimum weight over the listed logical operators — is
    `min wX Lz`, every size of the family -/
theorem reported_distance (Lx Ly Lz : Nat) (h : Family Lx Ly Lz) :
    Panqec.distance (lattice Lx Ly Lz).rowsX (lattice Lx Ly Lz).rowsZ = some (dist Lx Ly Lz) :=
  HollowRhombicCode.reported_distance h.2.2 (C01HollowRhombicCode.wf Lx Ly Lz h)

/-- no non-trivial logical operator (commutes with every generator, is not a product of
    generators) of the `Lx × Ly × Lz` hollow rhombic code is lighter than `min wX Lz` — every size of
    the family that is not deficient -/
theorem lower_bound (Lx Ly Lz : Nat) (h : Family Lx Ly Lz) (hd : ¬ Deficient Lx Ly Lz) :
    ∀ v, IsNontrivialLogical (nQ Lx Ly Lz) (lattice Lx Ly Lz).rowsH v →
      dist Lx Ly Lz ≤ pauliWeight v := by
  have hv := (C01HollowRhombicCode.valid_code Lx Ly Lz h hd).2.2.2
  have e : (lattice Lx Ly Lz).toCodeData.n = nQ Lx Ly Lz := n_eq Lx Ly Lz
  rw [e] at hv
  have := HollowRhombicCode.lower_bound h.1 h.2.1 h.2.2 (C01HollowRhombicCode.wf Lx Ly Lz h)
    (n_eq Lx Ly Lz) hv
  rw [HollowRhombicCode.length_sheetKeys h.2.2] at this
  exact this

/-- the validity premise with `n` written out -/
theorem valid (Lx Ly Lz : Nat) (h : Family Lx Ly Lz) (hd : ¬ Deficient Lx Ly Lz) :
    ValidCodeL (nQ Lx Ly Lz) 1 (lattice Lx Ly Lz).rowsH (lattice Lx Ly Lz).rowsX
      (lattice Lx Ly Lz).rowsZ := by
  have hv := (C01HollowRhombicCode.valid_code Lx Ly Lz h hd).2.2.2
  have e : (lattice Lx Ly Lz).toCodeData.n = nQ Lx Ly Lz := n_eq Lx Ly Lz
  rw [e] at hv
  exact hv

/-- THE C17 STATEMENT FOR ALL VALID SIZES of the supported family (`Lx, Ly ≥ 2`, `Lz ≥ 3`, not
    deficient): the code distance of the `Lx × Ly × Lz` hollow rhombic code — the minimum weight of a
    non-trivial logical operator of the assembled parity-check matrix — is `min wX Lz` -/
theorem distance (Lx Ly Lz : Nat) (h : Family Lx Ly Lz) (hd : ¬ Deficient Lx Ly Lz) :
    IsDistance (nQ Lx Ly Lz) (lattice Lx Ly Lz).rowsH (dist Lx Ly Lz) :=
  distance_criterion (valid Lx Ly Lz h hd) (dist Lx Ly Lz)
    (exists_listed_of_distance _ _ _ (reported_distance Lx Ly Lz h))
    (lower_bound Lx Ly Lz h hd)

/-- the same, stated for whatever `code.d` reports: the reported distance exists and is the
    true distance -/
theorem distance_reported (Lx Ly Lz : Nat) (h : Family Lx Ly Lz) (hd : ¬ Deficient Lx Ly Lz) :
    ∃ d, Panqec.distance (lattice Lx Ly Lz).rowsX (lattice Lx Ly Lz).rowsZ = some d ∧
      IsDistance (nQ Lx Ly Lz) (lattice Lx Ly Lz).rowsH d :=
  ⟨_, reported_distance Lx Ly Lz h, distance Lx Ly Lz h hd⟩

/-- the tall lattices: for `Lz ≥ wX` the distance is the weight of the sheet, not the height -/
theorem distance_tall (Lx Ly Lz : Nat) (h : Family Lx Ly Lz) (hd : ¬ Deficient Lx Ly Lz)
    (ht : wX Lx Ly Lz ≤ Lz) :
    IsDistance (nQ Lx Ly Lz) (lattice Lx Ly Lz).rowsH (wX Lx Ly Lz) := by
  have := distance Lx Ly Lz h hd
  unfold dist at this
  rwa [Nat.min_eq_left ht] at this

/-! ### deformed code (`code.deform('Checkerboard XZZX')`) -/

/-- every map `get_deformation` returns is a permutation of {X, Y, Z} (so C08 applies) -/
theorem deformation_isPerm {name : String} {loc : Coord} {m : PauliMap}
    (h : getDeformation name loc = DeformResult.map m) : m.isPerm = true := by
  unfold getDeformation at h
  split at h
  · split at h
    · split at h
      · cases h
      · split at h <;> (injection h with h; subst h; decide)
    · cases h
  · cases h

/-- the class offers the deformation 'Checkerboard XZZX': `get_deformation` is defined on every
    qubit of every lattice (any other name raises, `C01HollowRhombicCode.deformation_rule_bad_name`) -/
theorem deformation_defined (Lx Ly Lz : Nat) (q : Coord) (hq : q ∈ (lattice Lx Ly Lz).qubits) :
    ∃ m, getDeformation "Checkerboard XZZX" q = DeformResult.map m := by
  rcases C01HollowRhombicCode.deformation_rule_on_qubits Lx Ly Lz q hq with h | h
  · exact ⟨_, h⟩
  · exact ⟨_, h⟩

/-- THE C17 STATEMENT FOR EVERY DEFORMED CODE OF THE CLASS, ALL VALID SIZES: for every deformation
    name for which `get_deformation` returns a map on the qubits (`D q` = the relabelling it returns
    on `q`), the matrices the deformed getters assemble are the relabelled rows, they form a valid
    `[[n, 1]]` code, `code.d` reports `min wX Lz`, and that is the true distance of the deformed
    code -/
theorem distance_deformed (Lx Ly Lz : Nat) (h : Family Lx Ly Lz) (hd : ¬ Deficient Lx Ly Lz)
    (name : String) (D : Coord → PauliMap)
    (hD : ∀ q ∈ (lattice Lx Ly Lz).qubits, getDeformation name q = DeformResult.map (D q)) :
    stabilizerMatrix ((lattice Lx Ly Lz).toCodeData.deform D) =
        some ((lattice Lx Ly Lz).rowsH.map (deformBsf ((lattice Lx Ly Lz).qubits.map D))) ∧
    logicalsX ((lattice Lx Ly Lz).toCodeData.deform D) =
        some ((lattice Lx Ly Lz).rowsX.map (deformBsf ((lattice Lx Ly Lz).qubits.map D))) ∧
    logicalsZ ((lattice Lx Ly Lz).toCodeData.deform D) =
        some ((lattice Lx Ly Lz).rowsZ.map (deformBsf ((lattice Lx Ly Lz).qubits.map D))) ∧
    ValidCodeL (nQ Lx Ly Lz) 1
      ((lattice Lx Ly Lz).rowsH.map (deformBsf ((lattice Lx Ly Lz).qubits.map D)))
      ((lattice Lx Ly Lz).rowsX.map (deformBsf ((lattice Lx Ly Lz).qubits.map D)))
      ((lattice Lx Ly Lz).rowsZ.map (deformBsf ((lattice Lx Ly Lz).qubits.map D))) ∧
    Panqec.distance ((lattice Lx Ly Lz).rowsX.map (deformBsf ((lattice Lx Ly Lz).qubits.map D)))
      ((lattice Lx Ly Lz).rowsZ.map (deformBsf ((lattice Lx Ly Lz).qubits.map D))) =
        some (dist Lx Ly Lz) ∧
    IsDistance (nQ Lx Ly Lz)
      ((lattice Lx Ly Lz).rowsH.map (deformBsf ((lattice Lx Ly Lz).qubits.map D)))
      (dist Lx Ly Lz) :=
  Lattice.deformed_distance (lattice Lx Ly Lz) (C01HollowRhombicCode.wf Lx Ly Lz h)
    (n_eq Lx Ly Lz) (valid Lx Ly Lz h hd) (reported_distance Lx Ly Lz h) (distance Lx Ly Lz h hd) D
    (fun q hq => deformation_isPerm (hD q hq))

/-- the relabelling `get_deformation(·, name)` as a function of the location (identity where it
    raises — nowhere on the qubits for the offered name) -/
def deformationOf (name : String) (q : Coord) : PauliMap :=
  match getDeformation name q with
  | DeformResult.map m => m
  | _ => PauliMap.id

/-- the 'Checkerboard XZZX' code has distance `min wX Lz` — every valid size of the family -/
theorem distance_deformed_offered (Lx Ly Lz : Nat) (h : Family Lx Ly Lz) (hd : ¬ Deficient Lx Ly Lz) :
    IsDistance (nQ Lx Ly Lz)
      ((lattice Lx Ly Lz).rowsH.map (deformBsf ((lattice Lx Ly Lz).qubits.map
        (deformationOf "Checkerboard XZZX")))) (dist Lx Ly Lz) :=
  (distance_deformed Lx Ly Lz h hd "Checkerboard XZZX"
    (deformationOf "Checkerboard XZZX") (fun q hq => by
      obtain ⟨m, hm⟩ := deformation_defined Lx Ly Lz q hq
      unfold deformationOf
      rw [hm])).2.2.2.2.2

/-! ### the deficient sizes: the reported distance is not the minimum weight -/

/-- NEGATIVE (consequence of the recorded C01 finding): for EVERY `Ly, Lz ≥ 6` the class
    `HollowRhombicCode(3, Ly, Lz)` reports `d = min wX Lz ≥ 6`, but X on the four qubits of the
    plaquette `{(2,5,4), (2,5,6), (2,4,5), (2,6,5)}` next to the thin hole commutes with every
    generator and is not a product of generators: the reported value is not the minimum weight
    of a non-trivial logical operator of the assembled check matrix -/
theorem deficient_reported_distance_wrong_x (Ly Lz : Nat) (hy : 6 ≤ Ly) (hz : 6 ≤ Lz) :
    Panqec.distance (lattice 3 Ly Lz).rowsX (lattice 3 Ly Lz).rowsZ = some (dist 3 Ly Lz) ∧
    6 ≤ dist 3 Ly Lz ∧
    (∃ v, IsNontrivialLogical (nQ 3 Ly Lz) (lattice 3 Ly Lz).rowsH v ∧ pauliWeight v = 4) ∧
    ¬ IsDistance (nQ 3 Ly Lz) (lattice 3 Ly Lz).rowsH (dist 3 Ly Lz) := by
  have hf : Family 3 Ly Lz := ⟨by decide, by omega, by omega⟩
  have hd6 : 6 ≤ dist 3 Ly Lz := by
    unfold dist
    have h5 := (wX_formula 3 Ly Lz).2 (by omega)
    simp only [Nat.sub_self, Nat.zero_mul, Nat.add_zero] at h5
    have : (3 - 2) * (Ly - 4) = Ly - 4 := by omega
    rw [this] at h5
    omega
  obtain ⟨v, hv, hw⟩ := HollowRhombicCode.ThinA.light_logical hy hz (n_eq 3 Ly Lz)
  refine ⟨reported_distance 3 Ly Lz hf, hd6, ⟨v, hv, hw⟩, ?_⟩
  intro hdist
  have := hdist.2 v hv
  omega

/-- the same for every `Lx ≥ 5`, `Lz ≥ 6` with `Ly = 4` (plaquette `{(5,2,4), (5,2,6), (4,2,5), (6,2,5)}`) -/
theorem deficient_reported_distance_wrong_y (Lx Lz : Nat) (hx : 5 ≤ Lx) (hz : 6 ≤ Lz) :
    Panqec.distance (lattice Lx 4 Lz).rowsX (lattice Lx 4 Lz).rowsZ = some (dist Lx 4 Lz) ∧
    6 ≤ dist Lx 4 Lz ∧
    (∃ v, IsNontrivialLogical (nQ Lx 4 Lz) (lattice Lx 4 Lz).rowsH v ∧ pauliWeight v = 4) ∧
    ¬ IsDistance (nQ Lx 4 Lz) (lattice Lx 4 Lz).rowsH (dist Lx 4 Lz) := by
  have hf : Family Lx 4 Lz := ⟨by omega, by decide, by omega⟩
  have hd6 : 6 ≤ dist Lx 4 Lz := by
    unfold dist
    have h5 := (wX_formula Lx 4 Lz).2 (by omega)
    simp only [Nat.sub_self, Nat.mul_zero, Nat.zero_add] at h5
    have e1 : (Lx - 3) * (4 - 3) = Lx - 3 := by omega
    have e2 : (Lx - 1) * (4 - 1) = 3 * (Lx - 1) := by omega
    rw [e1, e2] at h5
    omega
  obtain ⟨v, hv, hw⟩ := HollowRhombicCode.ThinB.light_logical hx hz (n_eq Lx 4 Lz)
  refine ⟨reported_distance Lx 4 Lz hf, hd6, ⟨v, hv, hw⟩, ?_⟩
  intro hdist
  have := hdist.2 v hv
  omega

/-! ### non-vacuity -/

example : IsDistance 19 (lattice 2 2 3).rowsH 3 :=
  distance 2 2 3 (by decide) (by decide)
/-- a tall lattice: the distance is the weight of the sheet, not `Lz` -/
example : IsDistance 61 (lattice 2 2 9).rowsH 5 :=
  distance 2 2 9 (by decide) (by decide)
/-- a lattice with a thick hole: 520 qubits, the sheet through the hole has 40 qubits, `d = 8` -/
example : IsDistance 520 (lattice 6 5 8).rowsH 8 :=
  distance 6 5 8 (by decide) (by decide)
example : wX 6 5 8 = 40 ∧ wX 6 5 4 = 50 ∧ wX 4 5 5 = 28 ∧ wX 3 3 14 = 13 := by decide
/-- a long lattice with a hole where the sheet decides: `(4, 5, 40)` has `d = 28` -/
example : IsDistance (nQ 4 5 40) (lattice 4 5 40).rowsH 28 :=
  distance_tall 4 5 40 (by decide) (by decide) (by decide)
/-- the hypothesis of `lower_bound` is satisfiable: the listed logical X is a non-trivial logical
    operator -/
example : IsNontrivialLogical 19 (lattice 2 2 3).rowsH ((lattice 2 2 3).rowsX.getD 0 []) :=
  listedX_nontrivial (valid 2 2 3 (by decide) (by decide)) (by decide +kernel)
example : (lattice 4 5 5).rowsX.map pauliWeight = [28] ∧ (lattice 4 5 5).rowsZ.map pauliWeight = [5] :=
  weights_listed 4 5 5 (by decide)
/-- the 'Checkerboard XZZX' code on the `3 × 4 × 5` lattice has distance 5 -/
example : IsDistance (nQ 3 4 5) ((lattice 3 4 5).rowsH.map
    (deformBsf ((lattice 3 4 5).qubits.map (deformationOf "Checkerboard XZZX")))) 5 :=
  distance_deformed_offered 3 4 5 (by decide) (by decide)
example : deformationOf "Checkerboard XZZX" [2, 0, 3] = PauliMap.swapXZ := by decide
/-- `HollowRhombicCode(3, 6, 6)` reports 6; an operator of weight 4 is a non-trivial logical -/
example : ¬ IsDistance 224 (lattice 3 6 6).rowsH 6 :=
  (deficient_reported_distance_wrong_x 6 6 (by decide) (by decide)).2.2.2

end Panqec.C17HollowRhombicCode
