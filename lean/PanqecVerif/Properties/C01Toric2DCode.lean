/-
C01 for `Toric2DCode`, ALL sizes of the supported family (`Lx ≥ 2`, `Ly ≥ 2`, no upper bound):
the hand-written lattice model `Model/Lattices/Toric2DCode.lean` (tied to
`panqec/codes/surface_2d/_toric_2d_code.py` by the correspondence streams of
`harness/lattices/toric2dcode.py`) is a well-formed coordinate system whose stabilizers
commute, whose logicals commute with the stabilizers and pair up as `δ_ij`; `n = 2·Lx·Ly`,
`k = 2`; `get_deformation` follows the stated rule at every location.

Rank clause, for all sizes: the generators at all stabilizer locations except the vertex `(0, 0)` and the face `(1, 1)` are independent (`generators_independent`, via a
triangular family of single-qubit probes) and there are exactly `n − k` of them
(`generators_count`).  `valid_code` puts everything together through the generic bridge
`Proofs/OpComm.lean` (`symp (to_bsf a) (to_bsf b) = opAntiCount a b mod 2` for dicts with distinct
keys ⇒ `CommPairL` of the assembled rows) and `Proofs/Lat2DRankBridge.lean` (operator-level
independent sub-family of `n − k` generators ⇒ `HasRank (2n) rowsH (n − k)`): the matrices
that `stabilizer_matrix`, `logicals_x`, `logicals_z` of the generic code model (`Model/Code.lean`,
C02) assemble from this lattice model form a valid `[[n, k]]` stabilizer code (`ValidCodeL`: all
four clauses of C01, rank included) for EVERY size of the family.

The family of the rank clause (`selStabs`) is defined in the Mathlib-free model file, printed by the driver op
`rankfamily` and evaluated on the IMPLEMENTATION's parity-check matrix on every run (stream
`lat-Toric2DCode-rank-family`: members `n − k`, all distinct stabilizer locations, GF(2) rank `n − k`).
-/
import PanqecVerif.Proofs.Lat2DRankBridge
import PanqecVerif.Proofs.LatToric2DCodeRank

namespace Panqec.C01Toric2DCode
open Panqec.Toric2DCode Panqec.Lat2D

/-- coordinates distinct and disjoint; every stabilizer and logical is a dict (distinct keys)
    supported on qubits with letters ≠ I; stabilizers are non-empty — every `Lx, Ly ≥ 2` -/
theorem wf (Lx Ly : Nat) (hx : 2 ≤ Lx) (hy : 2 ≤ Ly) : (lattice Lx Ly).WF :=
  wf_all hx hy

/-- all pairs of stabilizers commute, every logical commutes with every stabilizer,
    `opAntiCount (X_i, Z_j)` is odd iff `i = j`, `X_i X_j` and `Z_i Z_j` commute —
    every `Lx, Ly ≥ 2` -/
theorem commPair (Lx Ly : Nat) (hx : 2 ≤ Lx) (hy : 2 ≤ Ly) : (lattice Lx Ly).CommPair :=
  commPair_all hx hy

/-- `n = 2·Lx·Ly` (every size) -/
theorem n_formula (Lx Ly : Nat) : (lattice Lx Ly).toCodeData.n = 2 * Lx * Ly :=
  length_qubits Lx Ly

/-- `k = 2` (every size) -/
theorem k_value (Lx Ly : Nat) : (lattice Lx Ly).toCodeData.k = 2 := rfl

/-- number of stabilizer generators `= 2·Lx·Ly = n` (so `n − k` of them are independent at
    best: two relations) -/
theorem n_stabilizers (Lx Ly : Nat) : (lattice Lx Ly).stabs.length = 2 * Lx * Ly :=
  length_stabs Lx Ly

/-- rank clause, operator level: the `2·Lx·Ly − 2` generators at all stabilizer locations except
    the vertex `(0, 0)` and the face `(1, 1)` are independent — every non-empty duplicate-free
    sub-family `T` has a Pauli operator `d` on the qubits anticommuting with an odd number of
    members of `T` (so no non-trivial product of them is trivial) — every `Lx, Ly ≥ 2` -/
theorem generators_independent (Lx Ly : Nat) (hx : 2 ≤ Lx) (hy : 2 ≤ Ly) :
    IndepGenerators (lattice Lx Ly) (selStabs Lx Ly) :=
  indep_sel hx hy

/-- the independent family is a sub-family of the stabilizer locations with `n − k` members -/
theorem generators_count (Lx Ly : Nat) (hx : 1 ≤ Lx) (hy : 1 ≤ Ly) :
    (∀ s ∈ selStabs Lx Ly, s ∈ (lattice Lx Ly).stabs) ∧
    (selStabs Lx Ly).length + (lattice Lx Ly).toCodeData.k = (lattice Lx Ly).toCodeData.n := by
  refine ⟨fun s hs => (mem_selStabs.mp hs).1, ?_⟩
  rw [n_formula, k_value]
  exact length_selStabs hx hy

/-- THE C01 STATEMENT FOR ALL SIZES (`Lx, Ly ≥ 2`): `stabilizer_matrix`, `logicals_x`, `logicals_z` of
    the generic code model, applied to this lattice model, return (no `KeyError`) matrices that
    form a valid `[[n, k]]` stabilizer code: generators pairwise commute, logicals commute with
    the generators, `ω(X_i, Z_j) = δ_ij`, `ω(X_i, X_j) = ω(Z_i, Z_j) = 0`, and the generators
    have GF(2) rank `n − k` -/
theorem valid_code (Lx Ly : Nat) (hx : 2 ≤ Lx) (hy : 2 ≤ Ly) :
    stabilizerMatrix (lattice Lx Ly).toCodeData = some (lattice Lx Ly).rowsH ∧
    logicalsX (lattice Lx Ly).toCodeData = some (lattice Lx Ly).rowsX ∧
    logicalsZ (lattice Lx Ly).toCodeData = some (lattice Lx Ly).rowsZ ∧
    ValidCodeL (2 * Lx * Ly) 2
      (lattice Lx Ly).rowsH (lattice Lx Ly).rowsX (lattice Lx Ly).rowsZ := by
  have h := validCode_of_lattice (lattice Lx Ly) (wf Lx Ly hx hy) (commPair Lx Ly hx hy)
    (selStabs Lx Ly) List.filter_sublist (generators_independent Lx Ly hx hy) ((generators_count Lx Ly (by omega) (by omega)).2)
  rw [n_formula, k_value] at h
  exact h

/-- for `Lx, Ly ≥ 2` every stabilizer is the dict of its four distinct wrapped neighbours, in
    delta order, letter `Z` on vertices (even `x`) and `X` on faces -/
theorem stabilizer_closed_form (Lx Ly : Nat) (hx : 2 ≤ Lx) (hy : 2 ≤ Ly) (x y : Int)
    (h : [x, y] ∈ (lattice Lx Ly).stabs) :
    (lattice Lx Ly).getStab [x, y] =
      [([if x = 0 then 2 * (Lx : Int) - 1 else x - 1, y], if x % 2 = 0 then Pauli.Z else Pauli.X),
       ([if x + 1 = 2 * (Lx : Int) then 0 else x + 1, y], if x % 2 = 0 then Pauli.Z else Pauli.X),
       ([x, if y = 0 then 2 * (Ly : Int) - 1 else y - 1], if x % 2 = 0 then Pauli.Z else Pauli.X),
       ([x, if y + 1 = 2 * (Ly : Int) then 0 else y + 1], if x % 2 = 0 then Pauli.Z else Pauli.X)] :=
  getStab_eq hx hy h

/-- `qubit_axis` on the qubits of the lattice: a closed-form parity test -/
theorem qubitAxis_rule (Lx Ly : Nat) (q : Coord) (h : q ∈ (lattice Lx Ly).qubits) :
    ∃ x y, q = [x, y] ∧
      ((x % 2 = 1 ∧ y % 2 = 0 ∧ qubitAxis q = some "x") ∨
       (x % 2 = 0 ∧ y % 2 = 1 ∧ qubitAxis q = some "y")) :=
  qubitAxis_of_mem h

/-- 'XZZX': X↔Z exactly on the qubits whose axis is the deformation axis, identity elsewhere;
    `ValueError` (none) where `qubit_axis` raises -/
theorem deformation_rule_XZZX (axis : String) (loc : Coord) (hax : axis = "x" ∨ axis = "y") :
    getDeformation "XZZX" (some axis) loc =
      (qubitAxis loc).map (fun a => if a = axis then PauliMap.swapXZ else PauliMap.id) :=
  deformBy_XZZX _ _ _ hax

/-- 'XY': Y↔Z at every location -/
theorem deformation_rule_XY (axis : String) (loc : Coord) (hax : axis = "x" ∨ axis = "y") :
    getDeformation "XY" (some axis) loc = some PauliMap.swapYZ :=
  deformBy_XY _ _ _ hax

/-- a call that does not pass `deformation_axis` (the signature default `'y'`: `deform(name)` of
    the visualizer backend and of simulation inputs without `deformation_kwargs`) deforms along y -/
theorem deformation_default_axis (name : String) (loc : Coord) :
    getDeformation name none loc = getDeformation name (some "y") loc := rfl

/-- any other axis: ValueError -/
theorem deformation_rule_bad_axis (name axis : String) (loc : Coord)
    (hx : axis ≠ "x") (hy : axis ≠ "y") : getDeformation name (some axis) loc = none :=
  deformBy_bad_axis _ _ _ _ hx hy

/-- any other name: ValueError -/
theorem deformation_rule_bad_name (name : String) (axis : Option String) (loc : Coord)
    (h1 : name ≠ "XZZX") (h2 : name ≠ "XY") : getDeformation name axis loc = none :=
  deformBy_bad_name _ _ _ _ h1 h2

/-- on every qubit of every lattice, 'XZZX' along a valid axis is defined and is one of the two
    maps -/
theorem deformation_rule_on_qubits (Lx Ly : Nat) (axis : String) (q : Coord)
    (hax : axis = "x" ∨ axis = "y") (h : q ∈ (lattice Lx Ly).qubits) :
    getDeformation "XZZX" (some axis) q =
      some (if qubitAxis q = some axis then PauliMap.swapXZ else PauliMap.id) := by
  rw [deformation_rule_XZZX axis q hax]
  obtain ⟨x, y, rfl, h' | h'⟩ := qubitAxis_of_mem h <;> rw [h'.2.2] <;> simp

/-! ### non-vacuity -/

example : (lattice 2 3).WF := wf 2 3 (by decide) (by decide)
example : (lattice 7 4).CommPair := commPair 7 4 (by decide) (by decide)
example : (lattice 2 3).getStab [0, 0] =
    [([3, 0], .Z), ([1, 0], .Z), ([0, 5], .Z), ([0, 1], .Z)] := by decide
example : (lattice 2 3).getStab [3, 5] =
    [([2, 5], .X), ([0, 5], .X), ([3, 4], .X), ([3, 0], .X)] := by decide
/-- outside the family (`Lx = 1`) the two x-neighbours coincide and the dict has 3 entries -/
example : (lattice 1 2).getStab [0, 0] = [([1, 0], .Z), ([0, 3], .Z), ([0, 1], .Z)] := by decide
example : getDeformation "XZZX" (some "x") [1, 0] = some PauliMap.swapXZ := by decide
example : getDeformation "XZZX" (some "y") [1, 0] = some PauliMap.id := by decide
example : getDeformation "XZZX" (some "z") [1, 0] = none := by decide
/-- keyword omitted: the default axis `y` -/
example : getDeformation "XZZX" none [1, 0] = getDeformation "XZZX" (some "y") [1, 0] := rfl
example : getDeformation "XY" none [1, 0] = some PauliMap.swapYZ := by decide
example : getDeformation "XZZX" none [1, 0] ≠ getDeformation "XZZX" (some "x") [1, 0] := by decide
example : IndepGenerators (lattice 2 3) (selStabs 2 3) :=
  generators_independent 2 3 (by decide) (by decide)
example : (selStabs 2 3).length = 10 := by decide
example : ValidCodeL 12 2 (lattice 2 3).rowsH (lattice 2 3).rowsX
    (lattice 2 3).rowsZ := (valid_code 2 3 (by decide) (by decide)).2.2.2

end Panqec.C01Toric2DCode
