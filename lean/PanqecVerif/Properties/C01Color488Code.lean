/-
C01 for `Color488Code`, ALL sizes `Lx, Ly ≥ 1` (the supported family, as the class documents it:
`L_x × L_y` unit cells; rectangular sizes since the repair of `get_logicals_x` / `get_logicals_z`,
former finding D14 — see the regression section below): the hand-written lattice model
`Model/Lattices/Color488Code.lean` (tied to `panqec/codes/color_2d/_color_488_code.py` by the
correspondence streams of `harness/lattices/color488code.py`, square and rectangular sizes)
is a well-formed coordinate system — in particular the qubit list, which the class DERIVES from the
stabilizer supports, is duplicate-free and disjoint from the stabilizer locations, and no
stabilizer dict loses a key to the wrap-around (`x` modulo `8Lx`, `y` modulo `8Ly`; the C02 clause,
for every size) — whose stabilizers commute (any two faces of the periodic 4.8.8 tiling share an
even number of qubits, seam copies and the degenerate tori with a side of one unit cell included),
whose four logical pairs commute with the stabilizers and have the pairing table
`ω(X_i, Z_j) = δ_ij`; `n = 8·Lx·Ly`, `k = 4`, `n_stabilizers = 2(2Lx+1)(2Ly+1)`; the columns
`x = 3`, `x = 7` of qubits have weight `2Ly`, the rows `y = 5`, `y = 1` weight `2Lx`;
`get_deformation` follows the stated rule at every location.

Rank clause, for all sizes: the `8·Lx·Ly − 4 = n − k` generators of the family `sel Lx Ly` (X and Z
generator of every face centre in `[0, 8Lx) × [0, 8Ly)` but the green octagon `(0, 4)` and the blue
octagon `(4, 0)`; the other listed generators are seam copies or products) are independent
(`rank_family`, triangular single-qubit probes along a peeling order of the torus).  `valid_code`
puts everything together through the generic bridges `Proofs/OpComm.lean`, `Proofs/Lat2DRankBridge.lean`
and `Proofs/Lat2DRankSubset.lean`: the matrices that `stabilizer_matrix`, `logicals_x`, `logicals_z`
of the generic code model (`Model/Code.lean`, C02) assemble from this lattice model form a valid
`[[8·Lx·Ly, 4]]` stabilizer code (`ValidCodeL`: all four clauses of C01, rank included) for EVERY
size `Lx, Ly ≥ 1`.

The family `sel` is defined in the Mathlib-free model file, printed by the driver op `rankfamily` and evaluated
on the IMPLEMENTATION's parity-check matrix on every run (stream `lat-Color488Code-rank-family`: members
`n − k`, all distinct stabilizer locations, GF(2) rank `n − k`).
-/
import PanqecVerif.Proofs.Lat2DRankSubset
import PanqecVerif.Proofs.LatColor488CodeRank2

namespace Panqec.C01Color488Code
open Panqec.Color488Code Panqec.Lat2D Panqec.Color

/-- coordinates distinct and disjoint (the qubit list is derived from the stabilizers: first
    occurrences only); every stabilizer and logical is a dict (distinct keys — the wrapped corners
    of a face never collide) supported on qubits with letters ≠ I; stabilizers are non-empty —
    every `Lx, Ly ≥ 1` -/
theorem wf (Lx Ly : Nat) (hx : 1 ≤ Lx) (hy : 1 ≤ Ly) : (lattice Lx Ly).WF :=
  wf_all hx hy

/-- all pairs of stabilizers commute (two faces share 0, 2, 4 or 8 qubits), the four X and four Z
    logicals commute with every stabilizer (a row or column of qubits meets a face in an even
    number of qubits), `opAntiCount (X_i, Z_j)` is odd iff `i = j` — every `Lx, Ly ≥ 1` -/
theorem commPair (Lx Ly : Nat) (hx : 1 ≤ Lx) (hy : 1 ≤ Ly) : (lattice Lx Ly).CommPair :=
  commPair_all hx hy

/-- `n = 8·Lx·Ly` (every `Lx, Ly ≥ 1`): the derived qubit list has exactly the sites of the closed
    form `isQubit_rule`, eight per unit cell -/
theorem n_formula (Lx Ly : Nat) (hx : 1 ≤ Lx) (hy : 1 ≤ Ly) :
    (lattice Lx Ly).toCodeData.n = 8 * (Lx * Ly) :=
  length_qubits hx hy

/-- `k = 4` (every size) -/
theorem k_value (Lx Ly : Nat) : (lattice Lx Ly).toCodeData.k = 4 := rfl

/-- `n_stabilizers = 2(2Lx+1)(2Ly+1)` (every size): an X and a Z generator at each of the
    `(2Lx+1)(2Ly+1)` listed face centres (the rows `x = 8Lx`, `y = 8Ly` repeat the rows `x = 0`,
    `y = 0`) -/
theorem n_stabilizers (Lx Ly : Nat) :
    (lattice Lx Ly).stabs.length = 2 * ((2 * Lx + 1) * (2 * Ly + 1)) :=
  length_stabs Lx Ly

/-- rank clause, operator level: an explicit duplicate-free family of `n − k` stabilizer locations
    whose generators are independent — every non-empty duplicate-free sub-family `T` has a Pauli
    operator `d` on the qubits anticommuting with an odd number of members of `T` — every
    `Lx, Ly ≥ 1` -/
theorem rank_family (Lx Ly : Nat) (hx : 1 ≤ Lx) (hy : 1 ≤ Ly) :
    (sel Lx Ly).Nodup ∧ (∀ s ∈ sel Lx Ly, s ∈ (lattice Lx Ly).stabs) ∧
    IndepGenerators (lattice Lx Ly) (sel Lx Ly) ∧
    (sel Lx Ly).length + (lattice Lx Ly).toCodeData.k = (lattice Lx Ly).toCodeData.n :=
  ⟨nodup_sel Lx Ly, sel_subset, indep_sel hx hy,
    by rw [n_formula Lx Ly hx hy, k_value]; exact length_sel hx hy⟩

/-- THE C01 STATEMENT FOR ALL SIZES (`Lx, Ly ≥ 1`, square or rectangular): `stabilizer_matrix`,
    `logicals_x`, `logicals_z` of the generic code model, applied to this lattice model, return (no
    `KeyError`) matrices that form a valid `[[8·Lx·Ly, 4]]` stabilizer code: generators pairwise
    commute, logicals commute with the generators, `ω(X_i, Z_j) = δ_ij`,
    `ω(X_i, X_j) = ω(Z_i, Z_j) = 0`, and the generators have GF(2) rank `n − k` -/
theorem valid_code (Lx Ly : Nat) (hx : 1 ≤ Lx) (hy : 1 ≤ Ly) :
    stabilizerMatrix (lattice Lx Ly).toCodeData = some (lattice Lx Ly).rowsH ∧
    logicalsX (lattice Lx Ly).toCodeData = some (lattice Lx Ly).rowsX ∧
    logicalsZ (lattice Lx Ly).toCodeData = some (lattice Lx Ly).rowsZ ∧
    ValidCodeL (8 * (Lx * Ly)) 4
      (lattice Lx Ly).rowsH (lattice Lx Ly).rowsX (lattice Lx Ly).rowsZ := by
  obtain ⟨h1, h2, h3, h4⟩ := rank_family Lx Ly hx hy
  have h := validCode_of_lattice_subset (lattice Lx Ly) (wf Lx Ly hx hy) (commPair Lx Ly hx hy)
    (sel Lx Ly) h1 h2 h3 h4
  rw [n_formula Lx Ly hx hy, k_value] at h
  exact h

/-- `is_stabilizer` in closed form -/
theorem isStabilizer_rule (Lx Ly : Nat) (x y p : Int) :
    [x, y, p] ∈ (lattice Lx Ly).stabs ↔
      ((x % 4 = 0 ∧ y % 4 = 0 ∧ 0 ≤ x ∧ x ≤ 8 * (Lx : Int) ∧ 0 ≤ y ∧ y ≤ 8 * (Ly : Int)) ∧
        (p = 0 ∨ p = 1)) :=
  mem_stabs'

/-- `is_qubit` in closed form — the DERIVED qubit list consists exactly of the corners of the
    squares, in `[0, 8Lx) × [0, 8Ly)` -/
theorem isQubit_rule (Lx Ly : Nat) (hx : 1 ≤ Lx) (hy : 1 ≤ Ly) (x y : Int) :
    isQubit Lx Ly [x, y] = true ↔
      (0 ≤ x ∧ x < 8 * (Lx : Int) ∧ 0 ≤ y ∧ y < 8 * (Ly : Int) ∧
        (((x % 8 = 1 ∨ x % 8 = 7) ∧ (y % 8 = 1 ∨ y % 8 = 7)) ∨
         ((x % 8 = 3 ∨ x % 8 = 5) ∧ (y % 8 = 3 ∨ y % 8 = 5)))) :=
  isQubit_iff hx hy

/-- every stabilizer is the dict of the 4 (square, `(x + y) % 8 = 0`) or 8 (octagon) wrapped
    corners, in delta order and without collision, letter `X` for `p = 0` and `Z` for `p = 1` -/
theorem stabilizer_closed_form (Lx Ly : Nat) (hx : 1 ≤ Lx) (hy : 1 ≤ Ly) (x y p : Int)
    (h : [x, y, p] ∈ (lattice Lx Ly).stabs) :
    (lattice Lx Ly).getStab [x, y, p] =
      (if (x + y) % 8 = 0 then sqC Lx Ly x y else ocC Lx Ly x y).map
        (fun q => (q, if p = 0 then Pauli.X else Pauli.Z)) :=
  getStab_eq hx hy h

/-- the logical operators: single letters on the columns `x = 3`, `x = 7` (weight `2Ly`: every
    qubit of the column, `y < 8Ly`) and on the rows `y = 5`, `y = 1` (weight `2Lx`) of qubits -/
theorem logical_lines (Lx Ly : Nat) (hx : 1 ≤ Lx) (hy : 1 ≤ Ly) :
    (lattice Lx Ly).logX =
      [(k3 Lx Ly).map (fun q => (q, Pauli.X)), (k7 Lx Ly).map (fun q => (q, Pauli.X)),
       (r5 Lx Ly).map (fun q => (q, Pauli.X)), (r1 Lx Ly).map (fun q => (q, Pauli.X))] ∧
    (lattice Lx Ly).logZ =
      [(r5 Lx Ly).map (fun q => (q, Pauli.Z)), (r1 Lx Ly).map (fun q => (q, Pauli.Z)),
       (k3 Lx Ly).map (fun q => (q, Pauli.Z)), (k7 Lx Ly).map (fun q => (q, Pauli.Z))] ∧
    (k3 Lx Ly).length = 2 * Ly ∧ (k7 Lx Ly).length = 2 * Ly ∧
    (r5 Lx Ly).length = 2 * Lx ∧ (r1 Lx Ly).length = 2 * Lx :=
  ⟨logX_eq Lx Ly, logZ_eq Lx Ly, length_k3 hx hy, length_k7 hx hy, length_r5 hx hy, length_r1 hx hy⟩

/-- the lines are exactly the qubits with the given `x` (resp. `y`): nothing of the column is
    missing and nothing else is listed (this is what the repair restored for `Lx ≠ Ly`) -/
theorem logical_lines_mem (Lx Ly : Nat) (hx : 1 ≤ Lx) (hy : 1 ≤ Ly) (a b : Int) :
    ([a, b] ∈ k3 Lx Ly ↔ (a = 3 ∧ isQubit Lx Ly [a, b] = true)) ∧
    ([a, b] ∈ k7 Lx Ly ↔ (a = 7 ∧ isQubit Lx Ly [a, b] = true)) ∧
    ([a, b] ∈ r5 Lx Ly ↔ (b = 5 ∧ isQubit Lx Ly [a, b] = true)) ∧
    ([a, b] ∈ r1 Lx Ly ↔ (b = 1 ∧ isQubit Lx Ly [a, b] = true)) := by
  simp only [isQubit_iff hx hy]
  exact ⟨mem_k3' hx hy, mem_k7' hx hy, mem_r5' hx hy, mem_r1' hx hy⟩

/-- 'XXZZ': X↔Z exactly on the locations with `(x + y − 4) % 4 = 0`, identity elsewhere
    (keyword arguments are ignored) -/
theorem deformation_rule (x y : Int) :
    getDeformation "XXZZ" [x, y] =
      DeformResult.map (if (x + y - 4) % 4 = 0 then PauliMap.swapXZ else PauliMap.id) := by
  show (if "XXZZ" = "XXZZ" then
      (if (x + y - 4) % 4 = 0 then DeformResult.map PauliMap.swapXZ else DeformResult.map PauliMap.id)
    else DeformResult.valueError) = _
  rw [if_pos rfl]
  by_cases h : (x + y - 4) % 4 = 0
  · rw [if_pos h, if_pos h]
  · rw [if_neg h, if_neg h]

/-- any other name: ValueError -/
theorem deformation_rule_bad_name (name : String) (loc : Coord) (h : name ≠ "XXZZ") :
    getDeformation name loc = DeformResult.valueError := by
  unfold getDeformation
  split
  · rw [if_neg h]
  · rfl

/-- on the qubits of every lattice 'XXZZ' is the Hadamard on the two corners `(cx−1, cy−1)`,
    `(cx+1, cy+1)` of each square and the identity on the two others -/
theorem deformation_rule_on_qubits (Lx Ly : Nat) (hx : 1 ≤ Lx) (hy : 1 ≤ Ly) (q : Coord)
    (h : q ∈ (lattice Lx Ly).qubits) :
    ∃ x y, q = [x, y] ∧
      (((x % 8 = y % 8) ∧ getDeformation "XXZZ" q = DeformResult.map PauliMap.id) ∨
       ((x % 8 ≠ y % 8) ∧ getDeformation "XXZZ" q = DeformResult.map PauliMap.swapXZ)) := by
  obtain ⟨x, y, rfl, hq⟩ := (mem_qubits hx hy).mp h
  refine ⟨x, y, rfl, ?_⟩
  rw [deformation_rule]
  unfold IsQ at hq
  by_cases e : x % 8 = y % 8
  · left; refine ⟨e, ?_⟩
    rw [if_neg (by omega)]
  · right; refine ⟨e, ?_⟩
    rw [if_pos (by omega)]

/-- `qubit_axis` is `'x'` on every 2-tuple -/
theorem qubitAxis_rule (x y : Int) : qubitAxis [x, y] = some "x" := rfl

/-! ### regression: the logical operators listed before the repair (known finding D14, fixed)

`oldLattice` is the class as it was: the column `x = 7` ran over `range(1, 8*Lx+4, 2)` and the row
`y = 1` over `range(1, 8*Ly+4, 2)`.  Square sizes are unaffected; on the `2 × 3` lattice the listed
`X_1` stopped at `y = 17` (five of the six qubits of the column) and anticommuted with the Z
generator of the octagon `(4, 0)`, so the assembled matrices were not a valid code.  Kernel-checked. -/

/-- on square lattices the old and the repaired class list the same operators -/
theorem old_square_unchanged (L : Nat) : oldLattice L L = lattice L L := rfl

/-- `Color488Code(2, 3)` before the repair: the second listed logical X is the column `x = 7` cut
    at `y < 8·Lx + 4 = 20` (the qubit `(7, 23)` is missing; the repaired class lists all six), and it
    anticommutes with the generator `(4, 0, 1)` (Z on the octagon `(4, 0)`, which contains `(7, 1)`
    and `(7, 23)`) -/
theorem old_rectangular_anticommutes :
    (oldLattice 2 3).logX.getD 1 [] =
      [([7, 1], .X), ([7, 7], .X), ([7, 9], .X), ([7, 15], .X), ([7, 17], .X)] ∧
    (lattice 2 3).logX.getD 1 [] =
      [([7, 1], .X), ([7, 7], .X), ([7, 9], .X), ([7, 15], .X), ([7, 17], .X), ([7, 23], .X)] ∧
    [4, 0, 1] ∈ (oldLattice 2 3).stabs ∧
    opCommute ((oldLattice 2 3).logX.getD 1 []) ((oldLattice 2 3).getStab [4, 0, 1]) = false ∧
    opCommute ((lattice 2 3).logX.getD 1 []) ((lattice 2 3).getStab [4, 0, 1]) = true := by
  refine ⟨?_, ?_, ?_, ?_, ?_⟩ <;> decide +kernel

/-- hence the old `2 × 3` lattice violates the commutation clause of C01 at the operator level -/
theorem old_rectangular_not_commPair : ¬ (oldLattice 2 3).CommPair := by
  intro h
  have h1 : (oldLattice 2 3).logX.getD 1 [] ∈ (oldLattice 2 3).logX := by decide +kernel
  have := h.logX_comm _ h1 _ old_rectangular_anticommutes.2.2.1
  rw [old_rectangular_anticommutes.2.2.2.1] at this
  exact absurd this (by decide)

/-- and the matrices assembled from it are not a valid `[[48, 4]]` code: row 1 of `logicals_x` has
    symplectic product 1 with row 15 of `stabilizer_matrix` (the generator `(4, 0, 1)` is the 16th
    listed location) -/
theorem old_rectangular_invalid :
    (oldLattice 2 3).stabs.getD 15 [] = [4, 0, 1] ∧
    symp ((oldLattice 2 3).rowsX.getD 1 []) ((oldLattice 2 3).rowsH.getD 15 []) = 1 ∧
    ¬ ValidCodeL 48 4 (oldLattice 2 3).rowsH (oldLattice 2 3).rowsX (oldLattice 2 3).rowsZ := by
  refine ⟨by decide +kernel, by decide +kernel, ?_⟩
  intro h
  have h1 : (oldLattice 2 3).rowsX.getD 1 [] ∈ (oldLattice 2 3).rowsX := by decide +kernel
  have h2 : (oldLattice 2 3).rowsH.getD 15 [] ∈ (oldLattice 2 3).rowsH := by decide +kernel
  have h3 : symp ((oldLattice 2 3).rowsX.getD 1 []) ((oldLattice 2 3).rowsH.getD 15 []) = 1 := by
    decide +kernel
  have := h.logX_comm _ h1 _ h2
  rw [h3] at this
  exact absurd this (by decide)

/-! ### non-vacuity -/

example : (lattice 1 1).WF := wf 1 1 (by decide) (by decide)
example : (lattice 5 5).CommPair := commPair 5 5 (by decide) (by decide)
example : (lattice 2 3).CommPair := commPair 2 3 (by decide) (by decide)
set_option maxRecDepth 100000 in
example : (lattice 1 1).qubits = [[7, 7], [1, 1], [7, 1], [1, 7], [3, 3], [3, 5], [5, 5], [5, 3]] := by
  decide
set_option maxRecDepth 100000 in
example : (lattice 1 1).getStab [0, 0, 0] = [([7, 7], .X), ([1, 1], .X), ([7, 1], .X), ([1, 7], .X)] := by
  decide
set_option maxRecDepth 100000 in
example : (lattice 1 1).getStab [4, 0, 1] = [([5, 5], .Z), ([7, 7], .Z), ([7, 1], .Z), ([5, 3], .Z),
    ([3, 3], .Z), ([1, 1], .Z), ([1, 7], .Z), ([3, 5], .Z)] := by decide
set_option maxRecDepth 100000 in
example : (lattice 1 1).logX = [[([3, 3], .X), ([3, 5], .X)], [([7, 1], .X), ([7, 7], .X)],
    [([3, 5], .X), ([5, 5], .X)], [([1, 1], .X), ([7, 1], .X)]] := by decide
example : (lattice 3 3).toCodeData.n = 72 := n_formula 3 3 (by decide) (by decide)
example : (lattice 2 5).toCodeData.n = 80 := n_formula 2 5 (by decide) (by decide)
example : (lattice 3 3).stabs.length = 98 := n_stabilizers 3 3
example : (lattice 2 3).stabs.length = 70 := n_stabilizers 2 3
example : IndepGenerators (lattice 2 2) (sel 2 2) := (rank_family 2 2 (by decide) (by decide)).2.2.1
example : (sel 2 2).length = 28 := by decide
example : (sel 1 2).length = 12 := by decide
example : ValidCodeL 8 4 (lattice 1 1).rowsH (lattice 1 1).rowsX (lattice 1 1).rowsZ :=
  (valid_code 1 1 (by decide) (by decide)).2.2.2
example : ValidCodeL 72 4 (lattice 3 3).rowsH (lattice 3 3).rowsX (lattice 3 3).rowsZ :=
  (valid_code 3 3 (by decide) (by decide)).2.2.2
/-- the size of the regression theorem, repaired: a valid `[[48, 4]]` code -/
example : ValidCodeL 48 4 (lattice 2 3).rowsH (lattice 2 3).rowsX (lattice 2 3).rowsZ :=
  (valid_code 2 3 (by decide) (by decide)).2.2.2
example : ValidCodeL 56 4 (lattice 7 1).rowsH (lattice 7 1).rowsX (lattice 7 1).rowsZ :=
  (valid_code 7 1 (by decide) (by decide)).2.2.2
example : getDeformation "XXZZ" [7, 1] = DeformResult.map PauliMap.swapXZ := by decide
example : getDeformation "XXZZ" [7, 7] = DeformResult.map PauliMap.id := by decide
example : getDeformation "XZZX" [7, 7] = DeformResult.valueError := by decide

end Panqec.C01Color488Code
