/-
C01 for `Color488Code`, ALL square sizes `Lx = Ly = L ≥ 1` (the supported family; the non-square
sizes the class documents are a recorded known finding, D14): the hand-written lattice model
`Model/Lattices/Color488Code.lean` (tied to `panqec/codes/color_2d/_color_488_code.py` by the
correspondence streams of `harness/lattices/color488code.py`, which also run the non-square sizes)
is a well-formed coordinate system — in particular the qubit list, which the class DERIVES from the
stabilizer supports, is duplicate-free and disjoint from the stabilizer locations, and no
stabilizer dict loses a key to the wrap-around (the C02 clause, for every size) — whose stabilizers
commute (any two faces of the periodic 4.8.8 tiling share an even number of qubits, seam copies
and the degenerate `L = 1` torus included), whose four logical pairs commute with the stabilizers
and have the pairing table `ω(X_i, Z_j) = δ_ij`; `n = 8L²`, `k = 4`,
`n_stabilizers = 2(2L+1)²`; `get_deformation` follows the stated rule at every location.

Rank clause, for all sizes: the `8L² − 4 = n − k` generators of the family `sel L` (X and Z generator
of every face centre in `[0, 8L)²` but the green octagon `(0, 4)` and the blue octagon `(4, 0)`;
the other `2(2L+1)² − (8L² − 4)` listed generators are seam copies or products) are independent
(`rank_family`, triangular single-qubit probes along a peeling order of the torus).  `valid_code`
puts everything together through the generic bridges `Proofs/OpComm.lean`, `Proofs/Lat2DRankBridge.lean`
and `Proofs/Lat2DRankSubset.lean`: the matrices that `stabilizer_matrix`, `logicals_x`, `logicals_z`
of the generic code model (`Model/Code.lean`, C02) assemble from this lattice model form a valid
`[[8L², 4]]` stabilizer code (`ValidCodeL`: all four clauses of C01, rank included) for EVERY
square size.
-/
import PanqecVerif.Proofs.Lat2DRankSubset
import PanqecVerif.Proofs.LatColor488CodeRank2

namespace Panqec.C01Color488Code
open Panqec.Color488Code Panqec.Lat2D Panqec.Color

/-- coordinates distinct and disjoint (the qubit list is derived from the stabilizers: first
    occurrences only); every stabilizer and logical is a dict (distinct keys — the wrapped corners
    of a face never collide) supported on qubits with letters ≠ I; stabilizers are non-empty —
    every `L ≥ 1` -/
theorem wf (L : Nat) (hL : 1 ≤ L) : (lattice L L).WF :=
  wf_all hL

/-- all pairs of stabilizers commute (two faces share 0, 2, 4 or 8 qubits), the four X and four Z
    logicals commute with every stabilizer (a row or column of qubits meets a face in an even
    number of qubits), `opAntiCount (X_i, Z_j)` is odd iff `i = j` — every `L ≥ 1` -/
theorem commPair (L : Nat) (hL : 1 ≤ L) : (lattice L L).CommPair :=
  commPair_all hL

/-- `n = 8L²` (every `L ≥ 1`): the derived qubit list has exactly the sites of the closed form
    `isQubit_rule`, eight per unit cell -/
theorem n_formula (L : Nat) (hL : 1 ≤ L) : (lattice L L).toCodeData.n = 8 * (L * L) :=
  length_qubits hL

/-- `k = 4` (every size) -/
theorem k_value (L : Nat) : (lattice L L).toCodeData.k = 4 := rfl

/-- `n_stabilizers = 2(2L+1)²` (every size): an X and a Z generator at each of the `(2L+1)²` listed
    face centres (the rows `x = 8L`, `y = 8L` repeat the rows `x = 0`, `y = 0`) -/
theorem n_stabilizers (L : Nat) : (lattice L L).stabs.length = 2 * ((2 * L + 1) * (2 * L + 1)) :=
  length_stabs L

/-- rank clause, operator level: an explicit duplicate-free family of `n − k` stabilizer locations
    whose generators are independent — every non-empty duplicate-free sub-family `T` has a Pauli
    operator `d` on the qubits anticommuting with an odd number of members of `T` — every `L ≥ 1` -/
theorem rank_family (L : Nat) (hL : 1 ≤ L) :
    (sel L).Nodup ∧ (∀ s ∈ sel L, s ∈ (lattice L L).stabs) ∧
    IndepGenerators (lattice L L) (sel L) ∧
    (sel L).length + (lattice L L).toCodeData.k = (lattice L L).toCodeData.n :=
  ⟨nodup_sel L, sel_subset, indep_sel hL, by rw [n_formula L hL, k_value]; exact length_sel hL⟩

/-- THE C01 STATEMENT FOR ALL SQUARE SIZES (`L ≥ 1`): `stabilizer_matrix`, `logicals_x`,
    `logicals_z` of the generic code model, applied to this lattice model, return (no `KeyError`)
    matrices that form a valid `[[8L², 4]]` stabilizer code: generators pairwise commute, logicals
    commute with the generators, `ω(X_i, Z_j) = δ_ij`, `ω(X_i, X_j) = ω(Z_i, Z_j) = 0`, and the
    generators have GF(2) rank `n − k` -/
theorem valid_code (L : Nat) (hL : 1 ≤ L) :
    stabilizerMatrix (lattice L L).toCodeData = some (lattice L L).rowsH ∧
    logicalsX (lattice L L).toCodeData = some (lattice L L).rowsX ∧
    logicalsZ (lattice L L).toCodeData = some (lattice L L).rowsZ ∧
    ValidCodeL (8 * (L * L)) 4
      (lattice L L).rowsH (lattice L L).rowsX (lattice L L).rowsZ := by
  obtain ⟨h1, h2, h3, h4⟩ := rank_family L hL
  have h := validCode_of_lattice_subset (lattice L L) (wf L hL) (commPair L hL) (sel L) h1 h2 h3 h4
  rw [n_formula L hL, k_value] at h
  exact h

/-- `is_stabilizer` in closed form -/
theorem isStabilizer_rule (L : Nat) (x y p : Int) :
    [x, y, p] ∈ (lattice L L).stabs ↔
      ((x % 4 = 0 ∧ y % 4 = 0 ∧ 0 ≤ x ∧ x ≤ 8 * (L : Int) ∧ 0 ≤ y ∧ y ≤ 8 * (L : Int)) ∧
        (p = 0 ∨ p = 1)) :=
  mem_stabs'

/-- `is_qubit` in closed form — the DERIVED qubit list consists exactly of the corners of the
    squares, in `[0, 8L)²` -/
theorem isQubit_rule (L : Nat) (hL : 1 ≤ L) (x y : Int) :
    isQubit L L [x, y] = true ↔
      (0 ≤ x ∧ x < 8 * (L : Int) ∧ 0 ≤ y ∧ y < 8 * (L : Int) ∧
        (((x % 8 = 1 ∨ x % 8 = 7) ∧ (y % 8 = 1 ∨ y % 8 = 7)) ∨
         ((x % 8 = 3 ∨ x % 8 = 5) ∧ (y % 8 = 3 ∨ y % 8 = 5)))) :=
  isQubit_iff hL

/-- every stabilizer is the dict of the 4 (square, `(x + y) % 8 = 0`) or 8 (octagon) wrapped
    corners, in delta order and without collision, letter `X` for `p = 0` and `Z` for `p = 1` -/
theorem stabilizer_closed_form (L : Nat) (hL : 1 ≤ L) (x y p : Int)
    (h : [x, y, p] ∈ (lattice L L).stabs) :
    (lattice L L).getStab [x, y, p] =
      (if (x + y) % 8 = 0 then sqC L x y else ocC L x y).map
        (fun q => (q, if p = 0 then Pauli.X else Pauli.Z)) :=
  getStab_eq hL h

/-- the logical operators: single letters on the columns `x = 3`, `x = 7` and the rows `y = 5`,
    `y = 1` of qubits, each of weight `2L` -/
theorem logical_lines (L : Nat) (hL : 1 ≤ L) :
    (lattice L L).logX = [(k3 L).map (fun q => (q, Pauli.X)), (k7 L).map (fun q => (q, Pauli.X)),
      (r5 L).map (fun q => (q, Pauli.X)), (r1 L).map (fun q => (q, Pauli.X))] ∧
    (lattice L L).logZ = [(r5 L).map (fun q => (q, Pauli.Z)), (r1 L).map (fun q => (q, Pauli.Z)),
      (k3 L).map (fun q => (q, Pauli.Z)), (k7 L).map (fun q => (q, Pauli.Z))] ∧
    (k3 L).length = 2 * L ∧ (k7 L).length = 2 * L ∧ (r5 L).length = 2 * L ∧ (r1 L).length = 2 * L :=
  ⟨logX_eq L, logZ_eq L, length_k3 hL, length_k7 hL, length_r5 hL, length_r1 hL⟩

/-- 'XXZZ': X↔Z exactly on the locations with `(x + y − 4) % 4 = 0`, identity elsewhere
    (keyword arguments are ignored) -/
theorem deformation_rule (x y : Int) :
    getDeformation "XXZZ" [x, y] =
      DeformResult.map (if (x + y - 4) % 4 = 0 then PauliMap.swapXZ else PauliMap.id) := by
  show (if "XXZZ" = "XXZZ" then
      (if (x + y - 4) % 4 = 0 then DeformResult.map PauliMap.swapXZ else DeformResult.map PauliMap.id)
    else DeformResult.valueError) = _
  rw [if_pos rfl]
  by_cases h : (x + y - 4) % 4 = 0
  · rw [if_pos h, if_pos h]
  · rw [if_neg h, if_neg h]

/-- any other name: ValueError -/
theorem deformation_rule_bad_name (name : String) (loc : Coord) (h : name ≠ "XXZZ") :
    getDeformation name loc = DeformResult.valueError := by
  unfold getDeformation
  split
  · rw [if_neg h]
  · rfl

/-- on the qubits of every lattice 'XXZZ' is the Hadamard on the two corners `(cx−1, cy−1)`,
    `(cx+1, cy+1)` of each square and the identity on the two others -/
theorem deformation_rule_on_qubits (L : Nat) (hL : 1 ≤ L) (q : Coord) (h : q ∈ (lattice L L).qubits) :
    ∃ x y, q = [x, y] ∧
      (((x % 8 = y % 8) ∧ getDeformation "XXZZ" q = DeformResult.map PauliMap.id) ∨
       ((x % 8 ≠ y % 8) ∧ getDeformation "XXZZ" q = DeformResult.map PauliMap.swapXZ)) := by
  obtain ⟨x, y, rfl, hq⟩ := (mem_qubits hL).mp h
  refine ⟨x, y, rfl, ?_⟩
  rw [deformation_rule]
  unfold IsQ at hq
  by_cases e : x % 8 = y % 8
  · left; refine ⟨e, ?_⟩
    rw [if_neg (by omega)]
  · right; refine ⟨e, ?_⟩
    rw [if_pos (by omega)]

/-- `qubit_axis` is `'x'` on every 2-tuple -/
theorem qubitAxis_rule (x y : Int) : qubitAxis [x, y] = some "x" := rfl

/-! ### regression: the logical operators listed before the repair (known finding D14, fixed)

`oldLattice` is the class as it was: the column `x = 7` ran over `range(1, 8*Lx+4, 2)` and the row
`y = 1` over `range(1, 8*Ly+4, 2)`.  Square sizes are unaffected; on the `2 × 3` lattice the listed
`X_1` stopped at `y = 17` (five of the six qubits of the column) and anticommuted with the Z
generator of the octagon `(4, 0)`, so the assembled matrices were not a valid code.  Kernel-checked. -/

/-- on square lattices the old and the repaired class list the same operators -/
theorem old_square_unchanged (L : Nat) : oldLattice L L = lattice L L := rfl

/-- `Color488Code(2, 3)` before the repair: the second listed logical X is the column `x = 7` cut
    at `y < 8·Lx + 4 = 20` (the qubit `(7, 23)` is missing; the repaired class lists all six), and it
    anticommutes with the generator `(4, 0, 1)` (Z on the octagon `(4, 0)`, which contains `(7, 1)`
    and `(7, 23)`) -/
theorem old_rectangular_anticommutes :
    (oldLattice 2 3).logX.getD 1 [] =
      [([7, 1], .X), ([7, 7], .X), ([7, 9], .X), ([7, 15], .X), ([7, 17], .X)] ∧
    (lattice 2 3).logX.getD 1 [] =
      [([7, 1], .X), ([7, 7], .X), ([7, 9], .X), ([7, 15], .X), ([7, 17], .X), ([7, 23], .X)] ∧
    [4, 0, 1] ∈ (oldLattice 2 3).stabs ∧
    opCommute ((oldLattice 2 3).logX.getD 1 []) ((oldLattice 2 3).getStab [4, 0, 1]) = false ∧
    opCommute ((lattice 2 3).logX.getD 1 []) ((lattice 2 3).getStab [4, 0, 1]) = true := by
  refine ⟨?_, ?_, ?_, ?_, ?_⟩ <;> decide +kernel

/-- hence the old `2 × 3` lattice violates the commutation clause of C01 at the operator level -/
theorem old_rectangular_not_commPair : ¬ (oldLattice 2 3).CommPair := by
  intro h
  have h1 : (oldLattice 2 3).logX.getD 1 [] ∈ (oldLattice 2 3).logX := by decide +kernel
  have := h.logX_comm _ h1 _ old_rectangular_anticommutes.2.2.1
  rw [old_rectangular_anticommutes.2.2.2.1] at this
  exact absurd this (by decide)

/-- and the matrices assembled from it are not a valid `[[48, 4]]` code: row 1 of `logicals_x` has
    symplectic product 1 with row 15 of `stabilizer_matrix` (the generator `(4, 0, 1)`) -/
theorem old_rectangular_invalid :
    ¬ ValidCodeL 48 4 (oldLattice 2 3).rowsH (oldLattice 2 3).rowsX (oldLattice 2 3).rowsZ := by
  intro h
  have h0 : (oldLattice 2 3).stabs.getD 15 [] = [4, 0, 1] := by decide +kernel
  have h1 : (oldLattice 2 3).rowsX.getD 1 [] ∈ (oldLattice 2 3).rowsX := by decide +kernel
  have h2 : (oldLattice 2 3).rowsH.getD 15 [] ∈ (oldLattice 2 3).rowsH := by decide +kernel
  have h3 : symp ((oldLattice 2 3).rowsX.getD 1 []) ((oldLattice 2 3).rowsH.getD 15 []) = 1 := by
    decide +kernel
  have := h.logX_comm _ h1 _ h2
  rw [h3] at this
  exact absurd this (by decide)

/-! ### non-vacuity -/

example : (lattice 1 1).WF := wf 1 (by decide)
example : (lattice 5 5).CommPair := commPair 5 (by decide)
set_option maxRecDepth 100000 in
example : (lattice 1 1).qubits = [[7, 7], [1, 1], [7, 1], [1, 7], [3, 3], [3, 5], [5, 5], [5, 3]] := by
  decide
set_option maxRecDepth 100000 in
example : (lattice 1 1).getStab [0, 0, 0] = [([7, 7], .X), ([1, 1], .X), ([7, 1], .X), ([1, 7], .X)] := by
  decide
set_option maxRecDepth 100000 in
example : (lattice 1 1).getStab [4, 0, 1] = [([5, 5], .Z), ([7, 7], .Z), ([7, 1], .Z), ([5, 3], .Z),
    ([3, 3], .Z), ([1, 1], .Z), ([1, 7], .Z), ([3, 5], .Z)] := by decide
set_option maxRecDepth 100000 in
example : (lattice 1 1).logX = [[([3, 3], .X), ([3, 5], .X)], [([7, 1], .X), ([7, 7], .X)],
    [([3, 5], .X), ([5, 5], .X)], [([1, 1], .X), ([7, 1], .X)]] := by decide
example : (lattice 3 3).toCodeData.n = 72 := n_formula 3 (by decide)
example : (lattice 3 3).stabs.length = 98 := n_stabilizers 3
example : IndepGenerators (lattice 2 2) (sel 2) := (rank_family 2 (by decide)).2.2.1
example : (sel 2).length = 28 := by decide
example : ValidCodeL 8 4 (lattice 1 1).rowsH (lattice 1 1).rowsX (lattice 1 1).rowsZ :=
  (valid_code 1 (by decide)).2.2.2
example : ValidCodeL 72 4 (lattice 3 3).rowsH (lattice 3 3).rowsX (lattice 3 3).rowsZ :=
  (valid_code 3 (by decide)).2.2.2
example : getDeformation "XXZZ" [7, 1] = DeformResult.map PauliMap.swapXZ := by decide
example : getDeformation "XXZZ" [7, 7] = DeformResult.map PauliMap.id := by decide
example : getDeformation "XZZX" [7, 7] = DeformResult.valueError := by decide

end Panqec.C01Color488Code
