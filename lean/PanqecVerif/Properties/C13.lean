/-
C13 — input specifications expand to exactly the requested simulations.

Property theorems only; helper lemmas are in `Proofs/Spec.lean` (Cartesian product, `mapE`),
`Proofs/SpecSims.lean` (structure of `get_simulations`) and `Proofs/SpecInst.lean`
(re-instantiation, registry).  The quantifiers are unbounded: any number of values per axis,
any parameter forms, any number of ranges dictionaries / runs.

`Built t s` says: simulation `s` was built from the requested blocks `t = (code, noise,
decoder, error_rate)` with exactly those parameters (`instCode`/`instNoise`/`instDecoder`
are the models of `_parse_*_dict` followed by the `id`/`params` properties).
-/
import PanqecVerif.Proofs.SpecSims
import PanqecVerif.Proofs.SpecInst

namespace Panqec.C13

open Panqec.Spec Panqec.Generated

/-! ### every registered name resolves to the class of that name -/

/-- `CODES[name].__name__ == name` (and likewise `ERROR_MODELS`, `DECODERS`) for every line of
    the table regenerated from `panqec/config.py` on every run -/
theorem registry_resolves_names : ∀ e ∈ registry, e.key = e.cls := by decide

/-- hence a successful look-up returns the class called like the key, for every key -/
theorem lookup_returns_named_class (table key cls : String)
    (h : lookupRegistry table key = some cls) : cls = key :=
  lookupRegistry_eq table key cls h

/-! ### a `ranges` dictionary expands to the Cartesian product -/

/-- the axes of a well-formed `ranges` dictionary are the listed parameter sets, in order
    (a single dict counts as one value; the decoder block may omit `parameters`) -/
theorem axes_are_the_listed_values (r : Ranges) (c n d : Block) (cp np rp : PV)
    (cps nps dps rates : List PV)
    (hc : r.code = some c) (hcp : c.params = some cp) (hcps : parseParametersRange cp = .ok cps)
    (hn : r.noise = some n) (hnp : n.params = some np) (hnps : parseParametersRange np = .ok nps)
    (hd : r.decoder = some d) (hdps : parseParametersRange (d.params.getD (.list [])) = .ok dps)
    (hr : r.errorRate = some rp) (hrates : parseParametersRange rp = .ok rates) :
    parseAllRanges r = .ok (cps.map c.withParams, nps.map n.withParams, dps.map d.withParams, rates) := by
  simp [parseAllRanges, hc, hcp, hcps, hn, hnp, hnps, hd, hdps, hr, hrates]

/-- a non-empty list is the list of values; a non-empty dict is one value -/
theorem parameter_forms (l : List PV) (d : List (String × PV)) (hl : l ≠ []) (hd : d ≠ []) :
    parseParametersRange (.list l) = .ok l ∧ parseParametersRange (.dict d) = .ok [.dict d] := by
  cases l with
  | nil => exact absurd rfl hl
  | cons a l =>
    cases d with
    | nil => exact absurd rfl hd
    | cons e d => exact ⟨rfl, rfl⟩

/-- MAIN: the simulations built from a `ranges` dictionary (direct method) are, position by
    position, the instantiations of the Cartesian product of the requested code, noise and
    decoder blocks and error rates, in `itertools.product` order: none dropped, none added,
    each carrying exactly its tuple -/
theorem ranges_expand_to_cartesian_product (r : Ranges) (hm : DirectMethod r) (sims : List SimT)
    (h : simsOfRanges r = .ok sims) :
    ∃ cr nr dr er, parseAllRanges r = .ok (cr, nr, dr, er) ∧
      List.Forall₂ Built (product4 cr nr dr er) sims :=
  simsOfRanges_spec r hm sims h

/-- the number of simulations is the product of the axis lengths -/
theorem ranges_count (r : Ranges) (hm : DirectMethod r) (sims : List SimT)
    (h : simsOfRanges r = .ok sims) (cr nr : List Block) (dr : List Block) (er : List PV)
    (hp : parseAllRanges r = .ok (cr, nr, dr, er)) :
    sims.length = cr.length * nr.length * dr.length * er.length := by
  obtain ⟨cr', nr', dr', er', hp', hf⟩ := simsOfRanges_spec r hm sims h
  rw [hp] at hp'; cases hp'
  rw [← hf.length_eq, product4_length]

/-- the simulation for `(code i, noise j, decoder k, rate l)` sits at index
    `((i·|noise| + j)·|decoder| + k)·|rates| + l` and is built from exactly that tuple -/
theorem ranges_index (r : Ranges) (hm : DirectMethod r) (sims : List SimT)
    (h : simsOfRanges r = .ok sims) (cr nr : List Block) (dr : List Block) (er : List PV)
    (hp : parseAllRanges r = .ok (cr, nr, dr, er))
    (i j k l : Nat) (hi : i < cr.length) (hj : j < nr.length) (hk : k < dr.length)
    (hl : l < er.length) :
    ∃ s, sims[((i * nr.length + j) * dr.length + k) * er.length + l]? = some s ∧
      Built (cr[i], nr[j], dr[k], er[l]) s := by
  obtain ⟨cr', nr', dr', er', hp', hf⟩ := simsOfRanges_spec r hm sims h
  rw [hp] at hp'; cases hp'
  have hidx := product4_getElem? cr nr dr er i j k l hi hj hk hl
  have hlt : ((i * nr.length + j) * dr.length + k) * er.length + l < (product4 cr nr dr er).length := by
    by_contra hge
    rw [List.getElem?_eq_none (by omega)] at hidx
    cases hidx
  have hlt' : ((i * nr.length + j) * dr.length + k) * er.length + l < sims.length := by
    rw [← hf.length_eq]; exact hlt
  refine ⟨sims[((i * nr.length + j) * dr.length + k) * er.length + l], by simp [hlt'], ?_⟩
  have hrel := List.Forall₂.get hf hlt hlt'
  have hget : (product4 cr nr dr er)[((i * nr.length + j) * dr.length + k) * er.length + l] =
      (cr[i], nr[j], dr[k], er[l]) := by
    have := List.getElem?_eq_getElem hlt
    rw [hidx] at this
    exact (Option.some.inj this).symm
  simp only [List.get_eq_getElem] at hrel
  rw [hget] at hrel
  exact hrel

/-- every requested combination occurs, and when no axis repeats a value no combination
    occurs twice -/
theorem requested_tuples_exactly_once {α β γ δ : Type} (as : List α) (bs : List β) (cs : List γ)
    (ds : List δ) :
    (∀ a b c d, (a, b, c, d) ∈ product4 as bs cs ds ↔ a ∈ as ∧ b ∈ bs ∧ c ∈ cs ∧ d ∈ ds) ∧
    (as.Nodup → bs.Nodup → cs.Nodup → ds.Nodup → (product4 as bs cs ds).Nodup) :=
  ⟨fun a b c d => mem_product4 as bs cs ds a b c d, product4_nodup as bs cs ds⟩

/-- `expand_input_ranges` (used to count runs) yields one run per element of the product -/
theorem expand_input_ranges_count (r : Ranges) (runs : List RunOut)
    (h : expandInputRanges r = .ok runs) (cr nr dr : List Block) (er : List PV)
    (hp : parseAllRanges r = .ok (cr, nr, dr, er)) :
    runs.length = cr.length * nr.length * dr.length * er.length := by
  unfold expandInputRanges at h
  rw [hp] at h
  simp only at h
  rw [mapE_length _ _ _ h, product4_length]
  ac_rfl

/-- `method = splitting` (as of the repository's `fix: input files with method 'splitting' can be
    read`): one simulation per element of code × noise × decoder, each carrying the whole list
    of error rates -/
theorem splitting_one_simulation_per_code_noise_decoder (r : Ranges) (p : PV) (sims : List SimT)
    (hm : methodOf r = .ok ("splitting", p)) (h : simsOfRanges r = .ok sims)
    (cr nr dr : List Block) (er : List PV) (hp : parseAllRanges r = .ok (cr, nr, dr, er)) :
    sims.length = cr.length * nr.length * dr.length :=
  simsOfRanges_splitting_length r p sims hm h cr nr dr er hp

/-! ### list of ranges, explicit runs -/

/-- a list of ranges dictionaries gives the concatenation, in order, of what each gives -/
theorem list_of_ranges_is_concatenation (rs : List Ranges) (runs : Option (List Run))
    (sims : List SimT) :
    getSimulations ⟨some (.many rs), runs⟩ = .ok sims ↔
      ∃ parts, List.Forall₂ (fun r p => simsOfRanges r = .ok p) rs parts ∧ sims = parts.flatten := by
  simp only [getSimulations]
  exact simsOfMany_spec rs sims

/-- a single ranges dictionary: `get_simulations` is `simsOfRanges` (explicit runs are ignored
    when `ranges` is present) -/
theorem single_ranges (r : Ranges) (runs : Option (List Run)) :
    getSimulations ⟨some (.single r), runs⟩ = simsOfRanges r := rfl

/-- explicit `runs`: exactly one simulation per entry, in order, each built from its entry -/
theorem runs_give_one_simulation_each (runs : List Run) (sims : List SimT)
    (h : getSimulations ⟨none, some runs⟩ = .ok sims) :
    sims.length = runs.length ∧ List.Forall₂ BuiltFromRun runs sims := by
  simp only [getSimulations] at h
  have := simsOfRuns_spec runs sims h
  exact ⟨this.length_eq.symm, this⟩

/-- a specification with neither `ranges` nor `runs` is rejected (`ValueError`) -/
theorem neither_is_rejected : getSimulations ⟨none, none⟩ = .error .value := rfl

/-! ### re-instantiating from the recorded inputs -/

/-- instantiating the recorded `{'name': id, 'parameters': params}` blocks of a simulation
    reproduces the same (class, parameters) triple -/
theorem recorded_inputs_reproduce_configuration (t : Block × Block × Block × PV) (s : SimT)
    (h : Built t s) :
    Built (s.recordedCode, s.recordedNoise, s.recordedDecoder, s.errorRate) s :=
  ⟨instCode_reinst t.1 s.code h.1, instNoise_reinst t.2.1 s.noise h.2.1,
   instDecoder_reinst t.2.2.1 s.decoder h.2.2.1, rfl⟩

/-- the class a recorded name resolves to is the class that produced the record -/
theorem recorded_name_resolves (b : Block) (i : Inst) (h : instCode b = .ok i) :
    lookupRegistry "CODES" i.cls = some i.cls := by
  have := instCode_reinst b i h
  unfold instCode at this
  simp only at this
  cases hl : lookupRegistry "CODES" i.cls with
  | none => rw [hl] at this; cases this
  | some c => rw [lookupRegistry_eq _ _ _ hl]

/-! ### `_find_current_simulation` -/

/-- when the records of a results file have pairwise different inputs, a simulation adopts
    exactly the record whose inputs equal its own; with no such record it adopts nothing -/
theorem find_current_adopts_matching_record {ι ρ : Type} [DecidableEq ι] (data : List (ι × ρ))
    (hnd : (data.map (·.1)).Nodup) :
    (∀ rec ∈ data, findCurrent data rec.1 = some rec) ∧
    (∀ i, i ∉ data.map (·.1) → findCurrent data i = none) ∧
    (∀ i rec, findCurrent data i = some rec → rec ∈ data ∧ rec.1 = i) :=
  ⟨fun rec h => findCurrent_of_mem data hnd rec h, fun i h => findCurrent_none data i h,
   fun i rec h => findCurrent_sound data i rec h⟩

/-! ### non-vacuity -/

private def exRanges : Ranges :=
  { label := some "t", method := none,
    code := some ⟨some "Toric2DCode", some (.list [.dict [("L_x", .int 2), ("L_y", .int 3)], .list [.int 4]])⟩,
    noise := some ⟨some "PauliErrorModel", some (.dict [("r_x", .int 1), ("r_y", .int 0), ("r_z", .int 0)])⟩,
    decoder := some ⟨some "MatchingDecoder", none⟩,
    errorRate := some (.list [.num (1/8), .num (1/4), .num (1/2)]),
    innerLabel := none }

example : DirectMethod exRanges := Or.inl rfl

example : (simsOfRanges exRanges).toOption.map List.length = some 6 := by decide +kernel

example : (simsOfRanges exRanges).toOption.map
    (fun l => l.map fun s => (s.code.cls, s.code.params.map (·.1))) =
    some (List.replicate 6 ("Toric2DCode", ["L_x", "L_y", "L_z"])) := by decide +kernel

/-- the defect repaired by commit b2bb5d4 would make the registry theorem false -/
example : ¬ ∀ e ∈ [(⟨"CODES", "Planar3DCode", "RotatedPlanar3DCode"⟩ : RegEntry)], e.key = e.cls := by
  decide

end Panqec.C13
