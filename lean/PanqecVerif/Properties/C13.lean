/-
C13 — input specifications expand to exactly the requested simulations.

Property theorems only; helper lemmas are in `Proofs/Spec.lean` (Cartesian product, `mapE`),
`Proofs/SpecSims.lean` (structure of `get_simulations`) and `Proofs/SpecInst.lean`
(re-instantiation, registry).  The quantifiers are unbounded: any number of values per axis,
any parameter forms, any number of ranges dictionaries / runs.

`Built t s` says: simulation `s` was built from the requested blocks `t = (code, noise,
decoder, error_rate)` with exactly those parameters (`instCode`/`instNoise`/`instDecoder`
are the models of `_parse_*_dict` followed by the `id`/`params` properties).
`BuiltSplit er t s` is the same for `method: splitting`: `s` was built from the requested
`t = (code, noise, decoder)` and carries all requested rates `er`, sorted descending.
-/
import PanqecVerif.Proofs.SpecSims
import PanqecVerif.Proofs.SpecSplit
import PanqecVerif.Proofs.SpecInst

namespace Panqec.C13

open Panqec.Spec Panqec.Generated

/-! ### every registered name resolves to the class of that name -/

/-- `CODES[name].__name__ == name` (and likewise `ERROR_MODELS`, `DECODERS`) for every line of
    the table regenerated from `panqec/config.py` on every run -/
theorem registry_resolves_names : ∀ e ∈ registry, e.key = e.cls := by decide

/-- hence a successful look-up returns the class called like the key, for every key -/
theorem lookup_returns_named_class (table key cls : String)
    (h : lookupRegistry table key = some cls) : cls = key :=
  lookupRegistry_eq table key cls h

/-! ### a `ranges` dictionary expands to the Cartesian product -/

/-- the axes of a well-formed `ranges` dictionary are the listed parameter sets, in order
    (a single dict counts as one value; the decoder block may omit `parameters`) -/
theorem axes_are_the_listed_values (r : Ranges) (c n d : Block) (cp np rp : PV)
    (cps nps dps rates : List PV)
    (hc : r.code = some c) (hcp : c.params = some cp) (hcps : parseParametersRange cp = .ok cps)
    (hn : r.noise = some n) (hnp : n.params = some np) (hnps : parseParametersRange np = .ok nps)
    (hd : r.decoder = some d) (hdps : parseParametersRange (d.params.getD (.list [])) = .ok dps)
    (hr : r.errorRate = some rp) (hrates : parseParametersRange rp = .ok rates) :
    parseAllRanges r = .ok (cps.map c.withParams, nps.map n.withParams, dps.map d.withParams, rates) := by
  simp [parseAllRanges, hc, hcp, hcps, hn, hnp, hnps, hd, hdps, hr, hrates]

/-- a non-empty list is the list of values; a non-empty dict is one value -/
theorem parameter_forms (l : List PV) (d : List (String × PV)) (hl : l ≠ []) (hd : d ≠ []) :
    parseParametersRange (.list l) = .ok l ∧ parseParametersRange (.dict d) = .ok [.dict d] := by
  cases l with
  | nil => exact absurd rfl hl
  | cons a l =>
    cases d with
    | nil => exact absurd rfl hd
    | cons e d => exact ⟨rfl, rfl⟩

/-- MAIN: the simulations built from a `ranges` dictionary (direct method) are, position by
    position, the instantiations of the Cartesian product of the requested code, noise and
    decoder blocks and error rates, in `itertools.product` order: none dropped, none added,
    each carrying exactly its tuple -/
theorem ranges_expand_to_cartesian_product (r : Ranges) (hm : DirectMethod r) (sims : List SimT)
    (h : simsOfRanges r = .ok sims) :
    ∃ cr nr dr er, parseAllRanges r = .ok (cr, nr, dr, er) ∧
      List.Forall₂ Built (product4 cr nr dr er) sims :=
  simsOfRanges_spec r hm sims h

/-- the number of simulations is the product of the axis lengths -/
theorem ranges_count (r : Ranges) (hm : DirectMethod r) (sims : List SimT)
    (h : simsOfRanges r = .ok sims) (cr nr : List Block) (dr : List Block) (er : List PV)
    (hp : parseAllRanges r = .ok (cr, nr, dr, er)) :
    sims.length = cr.length * nr.length * dr.length * er.length := by
  obtain ⟨cr', nr', dr', er', hp', hf⟩ := simsOfRanges_spec r hm sims h
  rw [hp] at hp'; cases hp'
  rw [← hf.length_eq, product4_length]

/-- the simulation for `(code i, noise j, decoder k, rate l)` sits at index
    `((i·|noise| + j)·|decoder| + k)·|rates| + l` and is built from exactly that tuple -/
theorem ranges_index (r : Ranges) (hm : DirectMethod r) (sims : List SimT)
    (h : simsOfRanges r = .ok sims) (cr nr : List Block) (dr : List Block) (er : List PV)
    (hp : parseAllRanges r = .ok (cr, nr, dr, er))
    (i j k l : Nat) (hi : i < cr.length) (hj : j < nr.length) (hk : k < dr.length)
    (hl : l < er.length) :
    ∃ s, sims[((i * nr.length + j) * dr.length + k) * er.length + l]? = some s ∧
      Built (cr[i], nr[j], dr[k], er[l]) s := by
  obtain ⟨cr', nr', dr', er', hp', hf⟩ := simsOfRanges_spec r hm sims h
  rw [hp] at hp'; cases hp'
  have hidx := product4_getElem? cr nr dr er i j k l hi hj hk hl
  have hlt : ((i * nr.length + j) * dr.length + k) * er.length + l < (product4 cr nr dr er).length := by
    by_contra hge
    rw [List.getElem?_eq_none (by omega)] at hidx
    cases hidx
  have hlt' : ((i * nr.length + j) * dr.length + k) * er.length + l < sims.length := by
    rw [← hf.length_eq]; exact hlt
  refine ⟨sims[((i * nr.length + j) * dr.length + k) * er.length + l], by simp [hlt'], ?_⟩
  have hrel := List.Forall₂.get hf hlt hlt'
  have hget : (product4 cr nr dr er)[((i * nr.length + j) * dr.length + k) * er.length + l] =
      (cr[i], nr[j], dr[k], er[l]) := by
    have := List.getElem?_eq_getElem hlt
    rw [hidx] at this
    exact (Option.some.inj this).symm
  simp only [List.get_eq_getElem] at hrel
  rw [hget] at hrel
  exact hrel

/-- every requested combination occurs, and when no axis repeats a value no combination
    occurs twice -/
theorem requested_tuples_exactly_once {α β γ δ : Type} (as : List α) (bs : List β) (cs : List γ)
    (ds : List δ) :
    (∀ a b c d, (a, b, c, d) ∈ product4 as bs cs ds ↔ a ∈ as ∧ b ∈ bs ∧ c ∈ cs ∧ d ∈ ds) ∧
    (as.Nodup → bs.Nodup → cs.Nodup → ds.Nodup → (product4 as bs cs ds).Nodup) :=
  ⟨fun a b c d => mem_product4 as bs cs ds a b c d, product4_nodup as bs cs ds⟩

/-- `expand_input_ranges` (used to count runs) yields one run per element of the product -/
theorem expand_input_ranges_count (r : Ranges) (runs : List RunOut)
    (h : expandInputRanges r = .ok runs) (cr nr dr : List Block) (er : List PV)
    (hp : parseAllRanges r = .ok (cr, nr, dr, er)) :
    runs.length = cr.length * nr.length * dr.length * er.length := by
  unfold expandInputRanges at h
  rw [hp] at h
  simp only at h
  rw [mapE_length _ _ _ h, product4_length]
  ac_rfl

/-- `method = splitting` (as of the repository's `fix: input files with method 'splitting' can be
    read`): one simulation per element of code × noise × decoder, each carrying the whole list
    of error rates -/
theorem splitting_one_simulation_per_code_noise_decoder (r : Ranges) (p : PV) (sims : List SimT)
    (hm : methodOf r = .ok ("splitting", p)) (h : simsOfRanges r = .ok sims)
    (cr nr dr : List Block) (er : List PV) (hp : parseAllRanges r = .ok (cr, nr, dr, er)) :
    sims.length = cr.length * nr.length * dr.length :=
  simsOfRanges_splitting_length r p sims hm h cr nr dr er hp

/-- **`method = splitting`, tuple by tuple**: the simulations are, position by position in
    `itertools.product(codes, error_models, decoder_range)` order, built from exactly the
    requested (code, noise, decoder) blocks — class and parameters as requested — and every one
    of them carries the whole list of requested error rates sorted descending
    (`BuiltSplit`; the recorded decoder is the instantiation shared by the one-decoder-per-rate
    list, whose members differ only in the implicit `error_rate` argument). -/
theorem splitting_expands_to_code_noise_decoder_product (r : Ranges) (p : PV) (sims : List SimT)
    (hm : methodOf r = .ok ("splitting", p)) (h : simsOfRanges r = .ok sims)
    (cr nr dr : List Block) (er : List PV) (hp : parseAllRanges r = .ok (cr, nr, dr, er)) :
    List.Forall₂ (BuiltSplit er) (product3 cr nr dr) sims :=
  simsOfRanges_splitting_spec r p sims hm h cr nr dr er hp

/-- … hence every requested (code, noise, decoder) combination gets a simulation, and a
    simulation exists only for requested combinations (with distinct values on every axis:
    exactly one each, by `splitting_one_simulation_per_code_noise_decoder`) -/
theorem splitting_requested_tuples (r : Ranges) (p : PV) (sims : List SimT)
    (hm : methodOf r = .ok ("splitting", p)) (h : simsOfRanges r = .ok sims)
    (cr nr dr : List Block) (er : List PV) (hp : parseAllRanges r = .ok (cr, nr, dr, er)) :
    (∀ c ∈ cr, ∀ n ∈ nr, ∀ d ∈ dr, ∃ s ∈ sims, BuiltSplit er (c, n, d) s) ∧
    (∀ s ∈ sims, ∃ c ∈ cr, ∃ n ∈ nr, ∃ d ∈ dr, BuiltSplit er (c, n, d) s) := by
  have hf := simsOfRanges_splitting_spec r p sims hm h cr nr dr er hp
  have hmem : ∀ c n d, (c, n, d) ∈ product3 cr nr dr ↔ c ∈ cr ∧ n ∈ nr ∧ d ∈ dr := by
    intro c n d
    simp only [product3, List.mem_flatMap, List.mem_map]
    constructor
    · rintro ⟨a, ha, b, hb, x, hx, he⟩
      cases he
      exact ⟨ha, hb, hx⟩
    · rintro ⟨ha, hb, hx⟩
      exact ⟨c, ha, n, hb, d, hx, rfl⟩
  constructor
  · intro c hc n hn d hd
    have hin := (hmem c n d).mpr ⟨hc, hn, hd⟩
    obtain ⟨i, hi, hq⟩ := List.getElem_of_mem hin
    have hi' : i < sims.length := by rw [← hf.length_eq]; exact hi
    have hb := List.Forall₂.get hf hi hi'
    simp only [List.get_eq_getElem] at hb
    rw [hq] at hb
    exact ⟨sims[i], List.getElem_mem hi', hb⟩
  · intro s hs
    obtain ⟨i, hi, rfl⟩ := List.getElem_of_mem hs
    have hi' : i < (product3 cr nr dr).length := by rw [hf.length_eq]; exact hi
    have hb := List.Forall₂.get hf hi' hi
    rcases hq : (product3 cr nr dr)[i] with ⟨c, n, d⟩
    have hin : (c, n, d) ∈ product3 cr nr dr := by rw [← hq]; exact List.getElem_mem hi'
    simp only [List.get_eq_getElem] at hb
    rw [hq] at hb
    obtain ⟨hc, hn, hd⟩ := (hmem c n d).mp hin
    exact ⟨c, hc, n, hn, d, hd, hb⟩

/-- the rates a splitting simulation carries: every requested rate (as an exact number), as
    often as it was requested, in non-increasing order (`np.sort(error_rates)[::-1]`) -/
theorem splitting_rates_sorted_descending (er : List PV) (v : PV)
    (h : ratesDescending er = .ok v) :
    ∃ qs sorted : List Rat, er.mapM PV.toRat? = some qs ∧ v = .list (sorted.map PV.num) ∧
      sorted.Perm qs ∧ sorted.Pairwise (fun a b => b ≤ a) :=
  ratesDescending_spec er v h

/-! ### list of ranges, explicit runs -/

/-- a list of ranges dictionaries gives the concatenation, in order, of what each gives -/
theorem list_of_ranges_is_concatenation (rs : List Ranges) (runs : Option (List Run))
    (sims : List SimT) :
    getSimulations ⟨some (.many rs), runs⟩ = .ok sims ↔
      ∃ parts, List.Forall₂ (fun r p => simsOfRanges r = .ok p) rs parts ∧ sims = parts.flatten := by
  simp only [getSimulations]
  exact simsOfMany_spec rs sims

/-- a single ranges dictionary: `get_simulations` is `simsOfRanges` (explicit runs are ignored
    when `ranges` is present) -/
theorem single_ranges (r : Ranges) (runs : Option (List Run)) :
    getSimulations ⟨some (.single r), runs⟩ = simsOfRanges r := rfl

/-- explicit `runs`: exactly one simulation per entry, in order, each built from its entry -/
theorem runs_give_one_simulation_each (runs : List Run) (sims : List SimT)
    (h : getSimulations ⟨none, some runs⟩ = .ok sims) :
    sims.length = runs.length ∧ List.Forall₂ BuiltFromRun runs sims := by
  simp only [getSimulations] at h
  have := simsOfRuns_spec runs sims h
  exact ⟨this.length_eq.symm, this⟩

/-- a specification with neither `ranges` nor `runs` is rejected (`ValueError`) -/
theorem neither_is_rejected : getSimulations ⟨none, none⟩ = .error .value := rfl

/-! ### re-instantiating from the recorded inputs -/

/-- instantiating the recorded `{'name': id, 'parameters': params}` blocks of a simulation
    reproduces the same (class, parameters) triple -/
theorem recorded_inputs_reproduce_configuration (t : Block × Block × Block × PV) (s : SimT)
    (h : Built t s) :
    Built (s.recordedCode, s.recordedNoise, s.recordedDecoder, s.errorRate) s :=
  ⟨instCode_reinst t.1 s.code h.1, instNoise_reinst t.2.1 s.noise h.2.1,
   instDecoder_reinst t.2.2.1 s.decoder h.2.2.1, rfl⟩

/-- the class a recorded name resolves to is the class that produced the record -/
theorem recorded_name_resolves (b : Block) (i : Inst) (h : instCode b = .ok i) :
    lookupRegistry "CODES" i.cls = some i.cls := by
  have := instCode_reinst b i h
  unfold instCode at this
  simp only at this
  cases hl : lookupRegistry "CODES" i.cls with
  | none => rw [hl] at this; cases this
  | some c => rw [lookupRegistry_eq _ _ _ hl]

/-! ### `_find_current_simulation` -/

/-- when the records of a results file have pairwise different inputs, a simulation adopts
    exactly the record whose inputs equal its own; with no such record it adopts nothing -/
theorem find_current_adopts_matching_record {ι ρ : Type} [DecidableEq ι] (data : List (ι × ρ))
    (hnd : (data.map (·.1)).Nodup) :
    (∀ rec ∈ data, findCurrent data rec.1 = some rec) ∧
    (∀ i, i ∉ data.map (·.1) → findCurrent data i = none) ∧
    (∀ i rec, findCurrent data i = some rec → rec ∈ data ∧ rec.1 = i) :=
  ⟨fun rec h => findCurrent_of_mem data hnd rec h, fun i h => findCurrent_none data i h,
   fun i rec h => findCurrent_sound data i rec h⟩

/-! ### non-vacuity -/

private def exRanges : Ranges :=
  { label := some "t", method := none,
    code := some ⟨some "Toric2DCode", some (.list [.dict [("L_x", .int 2), ("L_y", .int 3)], .list [.int 4]])⟩,
    noise := some ⟨some "PauliErrorModel", some (.dict [("r_x", .int 1), ("r_y", .int 0), ("r_z", .int 0)])⟩,
    decoder := some ⟨some "MatchingDecoder", none⟩,
    errorRate := some (.list [.num (1/8), .num (1/4), .num (1/2)]),
    innerLabel := none }

example : DirectMethod exRanges := Or.inl rfl

example : (simsOfRanges exRanges).toOption.map List.length = some 6 := by decide +kernel

example : (simsOfRanges exRanges).toOption.map
    (fun l => l.map fun s => (s.code.cls, s.code.params.map (·.1))) =
    some (List.replicate 6 ("Toric2DCode", ["L_x", "L_y", "L_z"])) := by decide +kernel

/-- a splitting specification: 2 codes × 1 noise × 2 decoder settings, 3 rates given unsorted -/
private def exSplit : Ranges :=
  { exRanges with
    method := some ⟨some "splitting", some (.dict [("n_init_runs", .int 10)])⟩,
    decoder := some ⟨some "MatchingDecoder",
      some (.list [.dict [("error_type", .str "X")], .dict [("error_type", .str "Z")]])⟩,
    errorRate := some (.list [.num (1/8), .num (1/2), .num (1/4)]) }

example : (methodOf exSplit).toOption.map (·.1) = some "splitting" := by decide +kernel

/-- one simulation per (code, noise, decoder) = 4, in product order, with the requested
    parameters … -/
example : (simsOfRanges exSplit).toOption.map
    (fun l => l.map fun s => (s.code.params.filterMap fun e => match e.2 with | .int i => some i | _ => none,
      s.decoder.params.filterMap (fun e => match e.2 with | .str x => some x | _ => none))) =
    some [([2, 3], ["X"]), ([2, 3], ["Z"]), ([4, 4], ["X"]), ([4, 4], ["Z"])] := by
  decide +kernel

/-- … each a splitting simulation -/
example : (simsOfRanges exSplit).toOption.map (fun l => l.map (·.splitting)) =
    some [true, true, true, true] := by decide +kernel

/-- … and the rate list of the specification is accepted by `ratesDescending` (so
    `splitting_rates_sorted_descending` applies: the three rates, sorted descending) -/
example : ∃ v, ratesDescending [.num (1/8), .num (1/2), .num (1/4)] = .ok v := ⟨_, rfl⟩

/-- the defect repaired by commit b2bb5d4 would make the registry theorem false -/
example : ¬ ∀ e ∈ [(⟨"CODES", "Planar3DCode", "RotatedPlanar3DCode"⟩ : RegEntry)], e.key = e.cls := by
  decide

end Panqec.C13
