/-
C17 for `RotatedToric3DCode`, ALL sizes of the supported family (`Lx, Ly ≥ 2` not both odd,
`Lz ≥ 1`, no upper bound): the distance `code.d` reports is the true code distance —

* even × even (`k = 2`): `min Lx Ly`;
* odd × even (`k = 1`, defect line, logical Z made of Y letters): `min Ly (Lx·Lz)`;
* even × odd: `min Lx (Ly·Lz)`

(`dist Lx Ly Lz`) — for the undeformed code and for every deformed code the class offers
(`'XZZX'` along `x`, `y`, `z`).  E.g. `RotatedToric3DCode(3, 10, 3).d == 9 = Lx·Lz`: the lightest
logical is the wall of Y along the defect.

The matrices are the ones the generic code model assembles from the hand-written lattice model
`Model/Lattices/RotatedToric3DCode.lean` (tied to `panqec/codes/surface_3d/_rotated_toric_3d_code.py`
by the correspondence streams of `harness/lattices/rotatedtoric3dcode.py`); they form a valid
`[[n, k]]` code for every size of the family (`C01RotatedToric3DCode.valid_code`).

* `weights_listed_EE / _OE / _EO`, `reported_distance` — `code.d` (the minimum Pauli weight over the
  rows of `logicals_x` and `logicals_z`, as `StabilizerCode.d` computes it).
* `lower_bound` — every non-trivial logical operator has weight `≥ dist`.  Packing argument
  (`Proofs/DistRotatedToric3DCode{A…F}.lean`) in the SIGN picture of `C01RotatedToric3DCode.commPair`
  (a generator writes Z on a neighbour when its sign for that neighbour is the colour of the
  neighbour, X otherwise — on and off the defect lines), so the generators of the defect lines,
  which carry both letters, need no special treatment: the Y-count of a wall `y = g` (all layers)
  has the parity of the next wall because ALL layer generators of the row between them see every
  qubit of either wall once per diagonal and every vertical qubit of the row twice; the X-count of
  a row of a layer has the parity of the next row when `Lx` is even (the faces between them tile
  both rows like dominoes around the seam) and of the same row one layer up (row of vertical faces;
  the dropped column of an odd side is avoided: one moves in the layer first).  Translates: even ×
  even — X rows / columns of the bottom layer (`Ly` / `Lx`), Z walls (`Lx` / `Ly`; Z-count = Y-count −
  X-counts); odd × even — the X column has `Lx·Lz` translates (every column of every layer), the Y
  wall `Ly`.
* `distance` — `IsDistance n H (dist Lx Ly Lz)`; `distance_reported` for the reported `d`.
* `distance_deformed`, `distance_deformed_offered` — the same for every deformed code.
-/
import PanqecVerif.Properties.C01RotatedToric3DCode
import PanqecVerif.Proofs.DistRotatedToric3DCodeF
import PanqecVerif.Proofs.DistDeform

namespace Panqec.C17RotatedToric3DCode
open Panqec Panqec.RotatedToric3DCode

/-- the number of qubits (`C01RotatedToric3DCode.n_formula`) -/
abbrev nq (Lx Ly Lz : Nat) : Nat :=
  Lx * Ly * Lz + (((Lx + 1) / 2) * (Ly / 2) + (Lx / 2) * ((Ly + 1) / 2)) * (Lz - 1)

/-- the number of logical qubits -/
abbrev kq (Lx Ly : Nat) : Nat := if Lx % 2 = 0 ∧ Ly % 2 = 0 then 2 else 1

/-- the distance: `min Lx Ly` for even × even, `min Ly (Lx·Lz)` for an odd `Lx`, `min Lx (Ly·Lz)`
    for an odd `Ly` -/
def dist (Lx Ly Lz : Nat) : Nat :=
  if Lx % 2 = 0 ∧ Ly % 2 = 0 then min Lx Ly
  else if Lx % 2 = 1 then min Ly (Lx * Lz) else min Lx (Ly * Lz)

/-- even × even: the rows of `logicals_x` have weights `Lx` (row) and `Ly` (column), the rows of
    `logicals_z` weights `Ly·Lz` (wall `x = 1`) and `Lx·Lz` (wall `y = 1`) -/
theorem weights_listed_EE (Lx Ly Lz : Nat) (hx : 2 ≤ Lx) (hy : 2 ≤ Ly) (hz : 1 ≤ Lz)
    (hpx : Lx % 2 = 0) (hpy : Ly % 2 = 0) :
    (lattice Lx Ly Lz).rowsX.map pauliWeight = [Lx, Ly] ∧
    (lattice Lx Ly Lz).rowsZ.map pauliWeight = [Ly * Lz, Lx * Lz] :=
  weights_EE ⟨hx, hy, by omega⟩ hpx hpy hz (C01RotatedToric3DCode.wf Lx Ly Lz hx hy (by omega))

/-- odd × even: the logical X is a column of `Ly` X letters, the logical Z a wall of `Lx·Lz` Y
    letters along the defect -/
theorem weights_listed_OE (Lx Ly Lz : Nat) (hx : 2 ≤ Lx) (hy : 2 ≤ Ly) (hz : 1 ≤ Lz)
    (hpx : Lx % 2 = 1) (hpy : Ly % 2 = 0) :
    (lattice Lx Ly Lz).rowsX.map pauliWeight = [Ly] ∧
    (lattice Lx Ly Lz).rowsZ.map pauliWeight = [Lx * Lz] :=
  weights_OE ⟨hx, hy, by omega⟩ hpx hpy hz (C01RotatedToric3DCode.wf Lx Ly Lz hx hy (by omega))

/-- even × odd: a row of `Lx` X letters, a wall of `Ly·Lz` Y letters -/
theorem weights_listed_EO (Lx Ly Lz : Nat) (hx : 2 ≤ Lx) (hy : 2 ≤ Ly) (hz : 1 ≤ Lz)
    (hpx : Lx % 2 = 0) (hpy : Ly % 2 = 1) :
    (lattice Lx Ly Lz).rowsX.map pauliWeight = [Lx] ∧
    (lattice Lx Ly Lz).rowsZ.map pauliWeight = [Ly * Lz] :=
  weights_EO ⟨hx, hy, by omega⟩ hpx hpy hz (C01RotatedToric3DCode.wf Lx Ly Lz hx hy (by omega))

/-- what `code.d` returns — the minimum weight over the listed logical operators — is
    `dist Lx Ly Lz`, every size of the family -/
theorem reported_distance (Lx Ly Lz : Nat) (hx : 2 ≤ Lx) (hy : 2 ≤ Ly) (hz : 1 ≤ Lz)
    (hodd : ¬ (Lx % 2 = 1 ∧ Ly % 2 = 1)) :
    Panqec.distance (lattice Lx Ly Lz).rowsX (lattice Lx Ly Lz).rowsZ =
      some (dist Lx Ly Lz) := by
  have hwf := C01RotatedToric3DCode.wf Lx Ly Lz hx hy hodd
  unfold dist
  by_cases hee : Lx % 2 = 0 ∧ Ly % 2 = 0
  · rw [if_pos hee]; exact reported_EE ⟨hx, hy, hodd⟩ hee.1 hee.2 hz hwf
  · rw [if_neg hee]
    by_cases hpx : Lx % 2 = 1
    · rw [if_pos hpx]; exact reported_OE ⟨hx, hy, hodd⟩ hpx (by omega) hz hwf
    · rw [if_neg hpx]; exact reported_EO ⟨hx, hy, hodd⟩ (by omega) (by omega) hz hwf

/-- no non-trivial logical operator (commutes with every generator, is not a product of
    generators) of the `Lx × Ly × Lz` rotated toric code is lighter than `dist Lx Ly Lz` — every
    size of the family -/
theorem lower_bound (Lx Ly Lz : Nat) (hx : 2 ≤ Lx) (hy : 2 ≤ Ly) (hz : 1 ≤ Lz)
    (hodd : ¬ (Lx % 2 = 1 ∧ Ly % 2 = 1)) :
    ∀ v, IsNontrivialLogical (nq Lx Ly Lz) (lattice Lx Ly Lz).rowsH v →
      dist Lx Ly Lz ≤ pauliWeight v := by
  have hwf := C01RotatedToric3DCode.wf Lx Ly Lz hx hy hodd
  have hv := (C01RotatedToric3DCode.valid_code Lx Ly Lz hx hy hz hodd).2.2.2
  have hn : (qubits Lx Ly Lz).length = nq Lx Ly Lz := length_qubits Lx Ly Lz
  unfold dist
  by_cases hee : Lx % 2 = 0 ∧ Ly % 2 = 0
  · rw [if_pos hee] at hv ⊢
    exact lower_bound_EE ⟨hx, hy, hodd⟩ hee.1 hee.2 hz hwf hn hv
  · rw [if_neg hee] at hv ⊢
    by_cases hpx : Lx % 2 = 1
    · rw [if_pos hpx]; exact lower_bound_OE ⟨hx, hy, hodd⟩ hpx (by omega) hz hwf hn hv
    · rw [if_neg hpx]; exact lower_bound_EO ⟨hx, hy, hodd⟩ (by omega) (by omega) hz hwf hn hv

/-- THE C17 STATEMENT FOR ALL SIZES OF THE FAMILY (`Lx, Ly ≥ 2` not both odd, `Lz ≥ 1`): the code
    distance of the `Lx × Ly × Lz` rotated toric code — the minimum weight of a non-trivial logical
    operator of the assembled parity-check matrix — is `dist Lx Ly Lz` -/
theorem distance (Lx Ly Lz : Nat) (hx : 2 ≤ Lx) (hy : 2 ≤ Ly) (hz : 1 ≤ Lz)
    (hodd : ¬ (Lx % 2 = 1 ∧ Ly % 2 = 1)) :
    IsDistance (nq Lx Ly Lz) (lattice Lx Ly Lz).rowsH (dist Lx Ly Lz) :=
  distance_criterion (C01RotatedToric3DCode.valid_code Lx Ly Lz hx hy hz hodd).2.2.2
    (dist Lx Ly Lz)
    (exists_listed_of_distance _ _ _ (reported_distance Lx Ly Lz hx hy hz hodd))
    (lower_bound Lx Ly Lz hx hy hz hodd)

/-- the same, stated for whatever `code.d` reports: the reported distance exists and is the
    true distance -/
theorem distance_reported (Lx Ly Lz : Nat) (hx : 2 ≤ Lx) (hy : 2 ≤ Ly) (hz : 1 ≤ Lz)
    (hodd : ¬ (Lx % 2 = 1 ∧ Ly % 2 = 1)) :
    ∃ d, Panqec.distance (lattice Lx Ly Lz).rowsX (lattice Lx Ly Lz).rowsZ = some d ∧
      IsDistance (nq Lx Ly Lz) (lattice Lx Ly Lz).rowsH d :=
  ⟨_, reported_distance Lx Ly Lz hx hy hz hodd, distance Lx Ly Lz hx hy hz hodd⟩

/-! ### deformed codes (`code.deform('XZZX', deformation_axis=ax)`) -/

/-- the class offers the deformation 'XZZX' along the axes 'x', 'y', 'z' (default 'y'): for these
    `get_deformation` is defined on every qubit of every lattice (any other name or axis raises,
    `C01RotatedToric3DCode.deformation_rule`) -/
theorem deformation_defined (Lx Ly Lz : Nat) (ax : String) (hax : ax = "x" ∨ ax = "y" ∨ ax = "z")
    (q : Coord) (hq : q ∈ (lattice Lx Ly Lz).qubits) :
    ∃ m, getDeformation Lx Ly Lz "XZZX" (some ax) q = some m := by
  obtain ⟨x, y, z, rfl⟩ := mem_qubits_shape _ _ _ _ hq
  rw [C01RotatedToric3DCode.deformation_rule, C01RotatedToric3DCode.qubit_axis_rule Lx Ly Lz x y z hq]
  rcases hax with rfl | rfl | rfl <;> simp

/-- THE C17 STATEMENT FOR EVERY DEFORMED CODE OF THE CLASS, ALL SIZES OF THE FAMILY: for every
    deformation name and axis for which `get_deformation` is defined on the qubits (`D q` = the
    relabelling it returns on `q`), the matrices the deformed getters assemble are the relabelled
    rows, they form a valid `[[n, k]]` code, `code.d` reports `dist Lx Ly Lz`, and that is the true
    distance of the deformed code -/
theorem distance_deformed (Lx Ly Lz : Nat) (hx : 2 ≤ Lx) (hy : 2 ≤ Ly) (hz : 1 ≤ Lz)
    (hodd : ¬ (Lx % 2 = 1 ∧ Ly % 2 = 1))
    (name : String) (axis : Option String) (D : Coord → PauliMap)
    (hD : ∀ q ∈ (lattice Lx Ly Lz).qubits, getDeformation Lx Ly Lz name axis q = some (D q)) :
    stabilizerMatrix ((lattice Lx Ly Lz).toCodeData.deform D) =
        some ((lattice Lx Ly Lz).rowsH.map (deformBsf ((lattice Lx Ly Lz).qubits.map D))) ∧
    logicalsX ((lattice Lx Ly Lz).toCodeData.deform D) =
        some ((lattice Lx Ly Lz).rowsX.map (deformBsf ((lattice Lx Ly Lz).qubits.map D))) ∧
    logicalsZ ((lattice Lx Ly Lz).toCodeData.deform D) =
        some ((lattice Lx Ly Lz).rowsZ.map (deformBsf ((lattice Lx Ly Lz).qubits.map D))) ∧
    ValidCodeL (nq Lx Ly Lz) (kq Lx Ly)
      ((lattice Lx Ly Lz).rowsH.map (deformBsf ((lattice Lx Ly Lz).qubits.map D)))
      ((lattice Lx Ly Lz).rowsX.map (deformBsf ((lattice Lx Ly Lz).qubits.map D)))
      ((lattice Lx Ly Lz).rowsZ.map (deformBsf ((lattice Lx Ly Lz).qubits.map D))) ∧
    Panqec.distance ((lattice Lx Ly Lz).rowsX.map (deformBsf ((lattice Lx Ly Lz).qubits.map D)))
      ((lattice Lx Ly Lz).rowsZ.map (deformBsf ((lattice Lx Ly Lz).qubits.map D))) =
        some (dist Lx Ly Lz) ∧
    IsDistance (nq Lx Ly Lz)
      ((lattice Lx Ly Lz).rowsH.map (deformBsf ((lattice Lx Ly Lz).qubits.map D)))
      (dist Lx Ly Lz) :=
  Lattice.deformed_distance (lattice Lx Ly Lz) (C01RotatedToric3DCode.wf Lx Ly Lz hx hy hodd)
    (length_qubits Lx Ly Lz) (C01RotatedToric3DCode.valid_code Lx Ly Lz hx hy hz hodd).2.2.2
    (reported_distance Lx Ly Lz hx hy hz hodd) (distance Lx Ly Lz hx hy hz hodd) D
    (fun q hq => C01RotatedToric3DCode.deformation_isPerm Lx Ly Lz name axis q (D q) (hD q hq))

/-- the relabelling `get_deformation(·, name, axis)` as a function of the location (identity
    where it raises — nowhere on the qubits for the offered name and axes) -/
def deformationOf (Lx Ly Lz : Nat) (name : String) (axis : Option String) (q : Coord) : PauliMap :=
  (getDeformation Lx Ly Lz name axis q).getD PauliMap.id

/-- the XZZX-deformed code along every axis has distance `dist Lx Ly Lz` — every size of the
    family -/
theorem distance_deformed_offered (Lx Ly Lz : Nat) (hx : 2 ≤ Lx) (hy : 2 ≤ Ly) (hz : 1 ≤ Lz)
    (hodd : ¬ (Lx % 2 = 1 ∧ Ly % 2 = 1)) (ax : String) (hax : ax = "x" ∨ ax = "y" ∨ ax = "z") :
    IsDistance (nq Lx Ly Lz)
      ((lattice Lx Ly Lz).rowsH.map (deformBsf ((lattice Lx Ly Lz).qubits.map
        (deformationOf Lx Ly Lz "XZZX" (some ax))))) (dist Lx Ly Lz) :=
  (distance_deformed Lx Ly Lz hx hy hz hodd "XZZX" (some ax)
    (deformationOf Lx Ly Lz "XZZX" (some ax)) (fun q hq => by
      obtain ⟨m, hm⟩ := deformation_defined Lx Ly Lz ax hax q hq
      unfold deformationOf
      rw [hm]; rfl)).2.2.2.2.2

/-! ### non-vacuity -/

/-- even × even -/
example : IsDistance 40 (lattice 4 4 2).rowsH 4 :=
  distance 4 4 2 (by decide) (by decide) (by decide) (by decide)
example : IsDistance 60 (lattice 4 6 2).rowsH 4 :=
  distance 4 6 2 (by decide) (by decide) (by decide) (by decide)
/-- odd × even: the distance is `Lx·Lz = 9`, below `Ly = 10` — the wall of Y along the defect -/
example : IsDistance 120 (lattice 3 10 3).rowsH 9 :=
  distance 3 10 3 (by decide) (by decide) (by decide) (by decide)
/-- odd × even with the column shorter: `min Ly (Lx·Lz) = Ly` -/
example : IsDistance 48 (lattice 3 4 3).rowsH 4 :=
  distance 3 4 3 (by decide) (by decide) (by decide) (by decide)
/-- even × odd, one layer (the 2-D twisted toric code) -/
example : IsDistance 6 (lattice 2 3 1).rowsH 2 :=
  distance 2 3 1 (by decide) (by decide) (by decide) (by decide)
example : dist 4 4 2 = 4 ∧ dist 3 10 3 = 9 ∧ dist 3 4 3 = 4 ∧ dist 2 3 1 = 2 ∧ dist 6 5 2 = 6 := by
  decide
/-- the hypothesis of `lower_bound` is satisfiable: a listed logical is a non-trivial logical -/
example : IsNontrivialLogical 15 (lattice 3 2 2).rowsH ((lattice 3 2 2).rowsX.getD 0 []) :=
  listedX_nontrivial (C01RotatedToric3DCode.valid_code 3 2 2 (by decide) (by decide) (by decide)
    (by decide)).2.2.2 (by decide +kernel)
example : (lattice 3 4 2).rowsX.map pauliWeight = [4] ∧
    (lattice 3 4 2).rowsZ.map pauliWeight = [6] :=
  weights_listed_OE 3 4 2 (by decide) (by decide) (by decide) (by decide) (by decide)
/-- the XZZX code on the `3 × 4 × 3` lattice (axis 'z') has distance 4 -/
example : IsDistance (nq 3 4 3) ((lattice 3 4 3).rowsH.map
    (deformBsf ((lattice 3 4 3).qubits.map (deformationOf 3 4 3 "XZZX" (some "z"))))) 4 :=
  distance_deformed_offered 3 4 3 (by decide) (by decide) (by decide) (by decide) "z"
    (Or.inr (Or.inr rfl))
example : deformationOf 2 2 2 "XZZX" (some "z") [2, 4, 2] = PauliMap.swapXZ := by decide +kernel

end Panqec.C17RotatedToric3DCode
