/-
C05 — `UnionFindDecoder` on `Toric2DCode`, ALL lattice sizes of the supported family (`Lx, Ly ≥ 2`).

`Properties/C05UnionFind.lean` proves that the model of `Support.decode()`
(`panqec/decoders/union_find/uf_support.py`, with `Peeling_Tree.peel` as repaired for the former
finding D15) terminates and returns a binary vector with exactly the given syndrome on every
parity-check matrix satisfying the decidable predicate `closedMultigraph` (0/1 entries, every
column of weight 0 or 2, two rows sharing fewer than 256 columns — parallel edges allowed), for
every error and every schedule of set iteration orders.  This file closes the remaining gap: the
two matrices that `UnionFindDecoder.decode` (`uf_decoder.py`) hands to `Support` — `code.Hz` (the Z
block of the vertex rows, with the Z-row syndrome) and `code.Hx` (the X block of the face rows,
with the X-row syndrome) of the parity-check matrix that the generic code assembles from the
all-sizes lattice model `Model/Lattices/Toric2DCode.lean` (`(lattice Lx Ly).rowsH`,
`C01Toric2DCode.valid_code`) — satisfy `closedMultigraph` for EVERY `Lx, Ly ≥ 2`.

* `toric_sector_matrices`          (sides ≥ 2) the matrix is CSS; `Hz` is the vertex/qubit and `Hx`
                                   the face/qubit incidence matrix (`inc s q` ⇔ `q` is a key of the
                                   dict `get_stabilizer(s)`, `toric_inc_is_support`), both with
                                   `n = 2·Lx·Ly` columns;
* `toric_qubit_on_two_generators`  (sides ≥ 2) every qubit lies in exactly two vertex operators and
                                   in exactly two face operators; `toric_column_weight_two`: every
                                   column of `Hz` and of `Hx` has weight exactly 2;
* `toric_generators_share_at_most_four` (sides ≥ 2) two generators share at most four qubits;
  `toric_generators_share_at_most_one`  (sides ≥ 3) two different generators of one type share at
                                   most one qubit;
* `toric_sectors_closed_multigraph` (sides ≥ 2) `closedMultigraph (Hz H)` and `closedMultigraph (Hx H)`;
  `toric_sectors_closed`           (sides ≥ 3) moreover `closedGraph` (no parallel edges);
* `unionfind_toric_reproduces_syndrome` (sides ≥ 2: the WHOLE supported family, side 2 included)
                                   for every Pauli error `e` on the `2·Lx·Ly` qubits and every
                                   schedule, the modelled `UnionFindDecoder.decode(measure_syndrome(e))`
                                   returns (no exception, no divergence) a binary vector of length
                                   `2n` with exactly the measured syndrome; `e ⊕ c` is in the code space;
* `unionfind_toric_outcome`        with `C01Toric2DCode.valid_code` and C04: the run is reported as a
                                   success exactly when the residual `e ⊕ c` is a product of
                                   generators;
* `toric_side_two_not_graphLike`   for every size with a side equal to 2 (`(2, Ly)` and `(Lx, 2)`,
                                   any other side ≥ 2) both sector matrices have PARALLEL EDGES (two
                                   generators joined by two qubits): not `graphLike` — the root cause
                                   of the former finding D15; `toric_sectors_closed_iff`: `closedGraph`
                                   holds exactly for sides ≥ 3;
* regression, decoder level: `old_unionfind_toric22_wrong_syndrome` — `UnionFindDecoder.decode` with
                                   the internals BEFORE the repair returned, on `Toric2DCode(2,2)` and
                                   an X error on qubit 0, a correction with the wrong syndrome;
                                   `unionfind_toric22_fixed` — with the repaired internals the same
                                   call returns the error itself; `old_unionfind_toric_sides_ge_three` —
                                   on sides ≥ 3 the code before the repair was correct too.

Helper lemmas: `Proofs/UnionFindIncidence.lean` (incidence criterion),
`Proofs/LatToric2DCodeSector.lean` (sector matrices = incidence matrices),
`Proofs/LatToric2DCodeGraph.lean` (geometry of the torus), `Proofs/UnionFindSched.lean`.
-/
import PanqecVerif.Proofs.LatToric2DCodeGraph
import PanqecVerif.Proofs.UnionFindSched
import PanqecVerif.Properties.C01Toric2DCode
import PanqecVerif.Properties.C04
import PanqecVerif.Properties.C05UnionFind

namespace Panqec.C05UFToric

open Panqec Panqec.UF Panqec.Toric2DCode Panqec.Lat2D

/-- **which blocks `Support` gets** (sides ≥ 2): the assembled parity-check matrix is CSS, its
    `Hz` is the incidence matrix of the vertex locations (in `get_stabilizer_coordinates` order)
    against the qubit locations, its `Hx` the incidence matrix of the face locations, each on
    `n = 2·Lx·Ly` columns. -/
theorem toric_sector_matrices (Lx Ly : Nat) (hx : 2 ≤ Lx) (hy : 2 ≤ Ly) :
    isCss (lattice Lx Ly).rowsH = true ∧
    Hz (lattice Lx Ly).rowsH = incMat (verts Lx Ly) (qubits Lx Ly) (inc Lx Ly) ∧
    Hx (lattice Lx Ly).rowsH = incMat (faces Lx Ly) (qubits Lx Ly) (inc Lx Ly) ∧
    (lattice Lx Ly).stabs = verts Lx Ly ++ faces Lx Ly ∧
    ncols (Hz (lattice Lx Ly).rowsH) = 2 * Lx * Ly ∧
    ncols (Hx (lattice Lx Ly).rowsH) = 2 * Lx * Ly :=
  ⟨isCss_rowsH hx hy, Hz_rowsH hx hy, Hx_rowsH hx hy, rfl, ncols_Hz hx hy, ncols_Hx hx hy⟩

/-- the incidence relation is the support of the operator the lattice model returns:
    `inc s q` iff `q` is a key of the dict `get_stabilizer(s)` (sides ≥ 2) -/
theorem toric_inc_is_support (Lx Ly : Nat) (hx : 2 ≤ Lx) (hy : 2 ≤ Ly) (s q : Coord)
    (hs : s ∈ (lattice Lx Ly).stabs) :
    inc Lx Ly s q = true ↔ q ∈ ((lattice Lx Ly).getStab s).map Prod.fst := by
  obtain ⟨x, y, rfl, _⟩ := mem_stabs.mp hs
  rw [getStab_eq hx hy hs, map_fst_const]
  unfold inc nbrsOf
  rw [List.contains_iff_mem]
  rfl

/-- **every qubit lies in exactly two vertex operators and in exactly two face operators**
    (sides ≥ 2) -/
theorem toric_qubit_on_two_generators (Lx Ly : Nat) (hx : 2 ≤ Lx) (hy : 2 ≤ Ly) (q : Coord)
    (hq : q ∈ (lattice Lx Ly).qubits) :
    (verts Lx Ly).countP (fun v => inc Lx Ly v q) = 2 ∧
    (faces Lx Ly).countP (fun f => inc Lx Ly f q) = 2 :=
  ⟨two_per_qubit (Or.inl rfl) hx hy _ (nodup_verts Lx Ly) mem_verts_S q hq,
   two_per_qubit (Or.inr rfl) hx hy _ (nodup_faces Lx Ly) mem_faces_S q hq⟩

/-- the same at the matrix level: every column of `Hz` and of `Hx` has weight exactly 2
    (sides ≥ 2) -/
theorem toric_column_weight_two (Lx Ly : Nat) (hx : 2 ≤ Lx) (hy : 2 ≤ Ly) (q : Nat)
    (hq : q < 2 * Lx * Ly) :
    cnt (Hz (lattice Lx Ly).rowsH).length (fun s => hb (Hz (lattice Lx Ly).rowsH) s q) = 2 ∧
    cnt (Hx (lattice Lx Ly).rowsH).length (fun s => hb (Hx (lattice Lx Ly).rowsH) s q) = 2 := by
  have hq' : q < (qubits Lx Ly).length := by rw [length_qubits]; exact hq
  rw [Hz_rowsH hx hy, Hx_rowsH hx hy, cnt_col_incMat _ _ _ q hq', cnt_col_incMat _ _ _ q hq']
  exact toric_qubit_on_two_generators Lx Ly hx hy _ (List.getElem_mem hq')

/-- **two different generators of one type share at most one qubit** (sides ≥ 3) -/
theorem toric_generators_share_at_most_one (Lx Ly : Nat) (hx : 3 ≤ Lx) (hy : 3 ≤ Ly)
    (v w : Coord) (hvw : v ≠ w)
    (h : (v ∈ verts Lx Ly ∧ w ∈ verts Lx Ly) ∨ (v ∈ faces Lx Ly ∧ w ∈ faces Lx Ly)) :
    (qubits Lx Ly).countP (fun q => inc Lx Ly v q && inc Lx Ly w q) ≤ 1 := by
  have key : ∀ (t : Int), (t = 0 ∨ t = 1) →
      (∃ x y, v = [x, y] ∧ IsS t Lx Ly x y) → (∃ x y, w = [x, y] ∧ IsS t Lx Ly x y) →
      (qubits Lx Ly).countP (fun q => inc Lx Ly v q && inc Lx Ly w q) ≤ 1 := by
    intro t ht ⟨ax, ay, hv, ha⟩ ⟨bx, by', hw, hb⟩
    subst hv hw
    apply countP_le_one_of_unique _ _ (nodup_qubits Lx Ly)
    intro q1 hq1 q2 hq2 hi1 hi2
    obtain ⟨q1x, q1y, rfl, h1⟩ := mem_qubits.mp hq1
    obtain ⟨q2x, q2y, rfl, h2⟩ := mem_qubits.mp hq2
    rw [Bool.and_eq_true, inc_iff, inc_iff] at hi1 hi2
    have := share_unique ht hx hy ha hb (by
      rintro ⟨rfl, rfl⟩; exact hvw rfl) h1 h2 hi1.1 hi1.2 hi2.1 hi2.2
    rw [this.1, this.2]
  rcases h with ⟨h1, h2⟩ | ⟨h1, h2⟩
  · exact key 0 (Or.inl rfl) (mem_verts.mp h1) (mem_verts.mp h2)
  · exact key 1 (Or.inr rfl) (mem_faces.mp h1) (mem_faces.mp h2)

/-- two generators (of any type) share at most four qubits (any size): far below the bound 256
    of `multigraphLike` -/
theorem toric_generators_share_at_most_four (Lx Ly : Nat) (v w : Coord) :
    (qubits Lx Ly).countP (fun q => inc Lx Ly v q && inc Lx Ly w q) ≤ 4 :=
  share_le_four v w

/-- **THE GAP, CLOSED FOR THE WHOLE FAMILY**: for every `Lx, Ly ≥ 2` both sector matrices of the
    assembled parity-check matrix of `Toric2DCode(Lx, Ly)` satisfy `closedMultigraph` (every
    column of weight 2; parallel edges when a side is 2). -/
theorem toric_sectors_closed_multigraph (Lx Ly : Nat) (hx : 2 ≤ Lx) (hy : 2 ≤ Ly) :
    closedMultigraph (Hz (lattice Lx Ly).rowsH) = true ∧
    closedMultigraph (Hx (lattice Lx Ly).rowsH) = true :=
  ⟨closedMultigraph_Hz hx hy, closedMultigraph_Hx hx hy⟩

/-- for every `Lx, Ly ≥ 3` both sector matrices are moreover simple: `closedGraph` (the hypothesis
    under which the code before the repair was correct). -/
theorem toric_sectors_closed (Lx Ly : Nat) (hx : 3 ≤ Lx) (hy : 3 ≤ Ly) :
    closedGraph (Hz (lattice Lx Ly).rowsH) = true ∧
    closedGraph (Hx (lattice Lx Ly).rowsH) = true :=
  ⟨closedGraph_Hz hx hy, closedGraph_Hx hx hy⟩

/-- hence `Support(sy, Hz).decode()` and `Support(sy, Hx).decode()` are total and correct on the
    syndrome of every error, for every schedule, and never leave the modelled fragment
    (`uf_decode_total` instantiated at the two sector matrices of every lattice, side 2 included) -/
theorem toric_support_decode_total (Lx Ly : Nat) (hx : 2 ≤ Lx) (hy : 2 ≤ Ly) (v : Vec)
    (hv : v.length = 2 * Lx * Ly) (sched : List (List Int)) :
    ∀ M, (M = Hz (lattice Lx Ly).rowsH ∨ M = Hx (lattice Lx Ly).rowsH) →
      ∃ c, (decodeWith M (sectorSyndrome M v) sched).outcome = .ok c ∧ c.length = 2 * Lx * Ly ∧
        (∀ x, x ∈ c → x < 2) ∧ sectorSyndrome M c = sectorSyndrome M v ∧
        (decodeWith M (sectorSyndrome M v) sched).bad = false := by
  rintro M (rfl | rfl)
  · have hn := ncols_Hz (Lx := Lx) (Ly := Ly) (by omega) (by omega)
    have := C05UF.uf_decode_total _ (closedMultigraph_Hz hx hy) v (by rw [hn]; exact hv) sched
    rwa [hn] at this
  · have hn := ncols_Hx (Lx := Lx) (Ly := Ly) (by omega) (by omega)
    have := C05UF.uf_decode_total _ (closedMultigraph_Hx hx hy) v (by rw [hn]; exact hv) sched
    rwa [hn] at this

/-- **UnionFindDecoder on every `Toric2DCode(Lx, Ly)`, `Lx, Ly ≥ 2`** (the whole supported family;
    sides of length 2 included since the repair of `peel`): the matrix `H` below is what
    `code.stabilizer_matrix` assembles (no `KeyError`); for every Pauli error `e` (any vector of
    length `2n`, `n = 2·Lx·Ly`) and every schedule of set iteration orders (which may depend on
    the matrix and the syndrome of the call), `decode(measure_syndrome(e))` of the model
    (glue of `uf_decoder.py` + internals of `uf_support.py`) returns — no exception, no
    divergence — a binary vector `c` of length `2n` with `measure_syndrome(c) =
    measure_syndrome(e)`, and `e ⊕ c` is in the code space. -/
theorem unionfind_toric_reproduces_syndrome (Lx Ly : Nat) (hx : 2 ≤ Lx) (hy : 2 ≤ Ly)
    (sched : Mat → Vec → List (List Int)) (e : Vec) (he : e.length = 2 * (2 * Lx * Ly)) :
    stabilizerMatrix (lattice Lx Ly).toCodeData = some (lattice Lx Ly).rowsH ∧
    ∃ c ev, ufDecode (ufSolveSched sched) (lattice Lx Ly).rowsH (2 * Lx * Ly)
        (measureSyndrome (lattice Lx Ly).rowsH e) = .ok (c, ev) ∧
      c.length = 2 * (2 * Lx * Ly) ∧ (∀ x ∈ c, x < 2) ∧
      measureSyndrome (lattice Lx Ly).rowsH c = measureSyndrome (lattice Lx Ly).rowsH e ∧
      inCodespace (lattice Lx Ly).rowsH (vxor e c) = true := by
  refine ⟨(C01Toric2DCode.valid_code Lx Ly hx hy).1, ?_⟩
  obtain ⟨c, ev, h1, h2, h3, h4⟩ := ufDecode_sched_valid sched (lattice Lx Ly).rowsH
    (2 * Lx * Ly) (isCss_rowsH hx hy) (closedMultigraph_Hz hx hy) (closedMultigraph_Hx hx hy)
    (ncols_Hz hx hy) (ncols_Hx hx hy) e he
  exact ⟨c, ev, h1, h2, h3, h4, in_codespace_of_same_syndrome _ e c (by omega) h4⟩

/-- the same for the list-order schedule `ufSolve` of `Model/UnionFind.lean` (the solver of
    `C05UnionFind.unionfind_decoder_reproduces_syndrome`) -/
theorem unionfind_toric_reproduces_syndrome_list_order (Lx Ly : Nat) (hx : 2 ≤ Lx) (hy : 2 ≤ Ly)
    (e : Vec) (he : e.length = 2 * (2 * Lx * Ly)) :
    ∃ c ev, ufDecode ufSolve (lattice Lx Ly).rowsH (2 * Lx * Ly)
        (measureSyndrome (lattice Lx Ly).rowsH e) = .ok (c, ev) ∧
      c.length = 2 * (2 * Lx * Ly) ∧ (∀ x ∈ c, x < 2) ∧
      measureSyndrome (lattice Lx Ly).rowsH c = measureSyndrome (lattice Lx Ly).rowsH e :=
  C05UF.unionfind_decoder_reproduces_syndrome _ _ (isCss_rowsH hx hy)
    (closedMultigraph_Hz hx hy) (closedMultigraph_Hx hx hy) (ncols_Hz hx hy)
    (ncols_Hx hx hy) e he

/-- **what the run is reported as** (with `C01Toric2DCode.valid_code` and
    `C04.success_iff_stabilizer`): for a binary error `e` the residual `e ⊕ c` of the decoder's
    answer is in the code space, and `is_success(e ⊕ c)` is `true` exactly when the residual is
    a product of stabilizer generators — for every size, error and schedule. -/
theorem unionfind_toric_outcome (Lx Ly : Nat) (hx : 2 ≤ Lx) (hy : 2 ≤ Ly)
    (sched : Mat → Vec → List (List Int)) (dt : DType) (e : Vec)
    (he : e.length = 2 * (2 * Lx * Ly)) :
    ∃ c ev, ufDecode (ufSolveSched sched) (lattice Lx Ly).rowsH (2 * Lx * Ly)
        (measureSyndrome (lattice Lx Ly).rowsH e) = .ok (c, ev) ∧
      inCodespace (lattice Lx Ly).rowsH (vxor e c) = true ∧
      (isSuccess dt (lattice Lx Ly).rowsH (lattice Lx Ly).rowsX (lattice Lx Ly).rowsZ (vxor e c)
          = true ↔ InSpan (2 * (2 * Lx * Ly)) (lattice Lx Ly).rowsH (vxor e c)) := by
  obtain ⟨_, c, ev, h1, h2, _, _, h5⟩ := unionfind_toric_reproduces_syndrome Lx Ly hx hy sched e he
  refine ⟨c, ev, h1, h5, ?_⟩
  have hv := (C01Toric2DCode.valid_code Lx Ly (by omega) (by omega)).2.2.2
  exact C04.success_iff_stabilizer hv dt (vxor e c)
    (by rw [vxor_length_alg e c (by omega)]; exact he) (vxor_binary e c)

/-- **parallel edges, all sizes**: as soon as one side is 2 (the other any size ≥ 2) both
    sector matrices have two generators joined by two qubits — `(0,0)`–`(2,0)` through `(1,0)`
    and `(3,0)` for `Lx = 2`, … — hence are not `graphLike`: on them the code BEFORE the repair of
    `peel` returned wrong corrections (`C05UnionFind.old_uf_fails_on_parallel_edges`, the former
    finding D15); they are closed multigraphs (`toric_sectors_closed_multigraph`) and the repaired
    code is correct on them. -/
theorem toric_side_two_not_graphLike (Lx Ly : Nat) (hx : 2 ≤ Lx) (hy : 2 ≤ Ly)
    (h2 : Lx = 2 ∨ Ly = 2) :
    graphLike (Hz (lattice Lx Ly).rowsH) = false ∧ graphLike (Hx (lattice Lx Ly).rowsH) = false := by
  rcases h2 with rfl | rfl
  · exact parallel_x hy
  · exact parallel_y hx

/-- so `closedGraph` (no parallel edges) of the sector matrices holds EXACTLY for sides ≥ 3
    (within the supported family `Lx, Ly ≥ 2`), while `closedMultigraph` holds for all of them -/
theorem toric_sectors_closed_iff (Lx Ly : Nat) (hx : 2 ≤ Lx) (hy : 2 ≤ Ly) :
    (closedGraph (Hz (lattice Lx Ly).rowsH) = true ∧ closedGraph (Hx (lattice Lx Ly).rowsH) = true)
      ↔ (3 ≤ Lx ∧ 3 ≤ Ly) := by
  constructor
  · intro ⟨hz, _⟩
    by_contra hne
    have h2 : Lx = 2 ∨ Ly = 2 := by omega
    have := (toric_side_two_not_graphLike Lx Ly hx hy h2).1
    unfold closedGraph at hz
    rw [this] at hz
    simp at hz
  · intro ⟨h1, h2⟩
    exact toric_sectors_closed Lx Ly h1 h2

/-! ### regression at the decoder level: before and after the repair of `peel` -/

/-- `UnionFindDecoder.decode` with the internals BEFORE the repair (`oldUfSolve`) on every
    `Toric2DCode(Lx, Ly)` with sides ≥ 3: correct too (list order) — the repair was needed for
    sides of length 2 only -/
theorem old_unionfind_toric_sides_ge_three (Lx Ly : Nat) (hx : 3 ≤ Lx) (hy : 3 ≤ Ly)
    (e : Vec) (he : e.length = 2 * (2 * Lx * Ly)) :
    ∃ c ev, ufDecode oldUfSolve (lattice Lx Ly).rowsH (2 * Lx * Ly)
        (measureSyndrome (lattice Lx Ly).rowsH e) = .ok (c, ev) ∧
      c.length = 2 * (2 * Lx * Ly) ∧ (∀ x ∈ c, x < 2) ∧
      measureSyndrome (lattice Lx Ly).rowsH c = measureSyndrome (lattice Lx Ly).rowsH e := by
  have hx2 : 2 ≤ Lx := by omega
  have hy2 : 2 ≤ Ly := by omega
  obtain ⟨c, ev, h1, _, h3, h4, h5⟩ := uf_valid oldUfSolve (lattice Lx Ly).rowsH (2 * Lx * Ly)
    (isCss_rowsH hx2 hy2)
    (ncols_Hz hx2 hy2 ▸ C05UF.old_uf_solver_contract _ (closedGraph_Hz hx hy))
    (ncols_Hx hx2 hy2 ▸ C05UF.old_uf_solver_contract _ (closedGraph_Hx hx hy)) e he
  exact ⟨c, ev, h1, h3, h4, h5⟩

/-- X error on qubit 0 of `Toric2DCode(2, 2)` (8 qubits: `[x | z]`, 16 entries) -/
def x0Toric22 : Vec := [1,0,0,0,0,0,0,0, 0,0,0,0,0,0,0,0]

/-- **the former finding D15 at the decoder level**: on `Toric2DCode(2,2)` and an X error on
    qubit 0, `UnionFindDecoder.decode(measure_syndrome(e))` with the internals BEFORE the repair
    returned X on qubits 0 and 2, whose syndrome is zero, not the measured one. -/
theorem old_unionfind_toric22_wrong_syndrome :
    ∃ c ev, ufDecode oldUfSolve (lattice 2 2).rowsH 8 (measureSyndrome (lattice 2 2).rowsH x0Toric22)
        = .ok (c, ev) ∧ c = [1,0,1,0,0,0,0,0, 0,0,0,0,0,0,0,0] ∧
      measureSyndrome (lattice 2 2).rowsH c ≠ measureSyndrome (lattice 2 2).rowsH x0Toric22 := by
  refine ⟨_, _, rfl, ?_, ?_⟩
  · decide +kernel
  · decide +kernel

/-- **after the repair** the same call returns the error itself (kernel-evaluated instance of
    `unionfind_toric_reproduces_syndrome` at `Lx = Ly = 2`) -/
theorem unionfind_toric22_fixed :
    ∃ c ev, ufDecode ufSolve (lattice 2 2).rowsH 8 (measureSyndrome (lattice 2 2).rowsH x0Toric22)
        = .ok (c, ev) ∧ c = x0Toric22 ∧
      measureSyndrome (lattice 2 2).rowsH c = measureSyndrome (lattice 2 2).rowsH x0Toric22 := by
  refine ⟨_, _, rfl, ?_, ?_⟩
  · decide +kernel
  · decide +kernel

/-! ### non-vacuity -/

/-- side-2 lattices are inside the hypothesis of the decoder theorem: `(2, 2)`, `(2, 3)`, `(5, 2)` -/
example : closedMultigraph (Hz (lattice 2 3).rowsH) = true ∧ closedMultigraph (Hx (lattice 5 2).rowsH) = true :=
  ⟨(toric_sectors_closed_multigraph 2 3 (by decide) (by decide)).1,
   (toric_sectors_closed_multigraph 5 2 (by decide) (by decide)).2⟩

/-- the end-to-end theorem applies to a side-2 lattice: any error on `Toric2DCode(2, 3)`, any schedule -/
example (sched : Mat → Vec → List (List Int)) (e : Vec) (he : e.length = 24) :
    ∃ c ev, ufDecode (ufSolveSched sched) (lattice 2 3).rowsH (2 * 2 * 3)
        (measureSyndrome (lattice 2 3).rowsH e) = .ok (c, ev) ∧
      measureSyndrome (lattice 2 3).rowsH c = measureSyndrome (lattice 2 3).rowsH e :=
  let ⟨_, c, ev, h1, _, _, h4, _⟩ := unionfind_toric_reproduces_syndrome 2 3 (by decide) (by decide) sched e he
  ⟨c, ev, h1, h4⟩

/-- the sector matrix of the 2×3 lattice is the matrix written out in `C05UnionFind` -/
example : Hz (lattice 2 3).rowsH = C05UF.hzToric23 := by decide +kernel


/-- a non-square lattice: `Toric2DCode(3, 4)`, 24 qubits, 12 + 12 generators -/
example : closedGraph (Hz (lattice 3 4).rowsH) = true ∧ closedGraph (Hx (lattice 3 4).rowsH) = true :=
  toric_sectors_closed 3 4 (by decide) (by decide)

example : ncols (Hz (lattice 3 4).rowsH) = 24 ∧ (verts 3 4).length = 12 ∧ (faces 3 4).length = 12 :=
  ⟨(toric_sector_matrices 3 4 (by decide) (by decide)).2.2.2.2.1, by decide, by decide⟩

/-- the incidence relation on concrete locations of the 3×4 lattice: the vertex `(0,0)` carries
    the qubits `(5,0)`, `(1,0)`, `(0,7)`, `(0,1)` and no other -/
example : inc 3 4 [0, 0] [5, 0] = true ∧ inc 3 4 [0, 0] [1, 0] = true ∧
    inc 3 4 [0, 0] [0, 7] = true ∧ inc 3 4 [0, 0] [0, 1] = true ∧ inc 3 4 [0, 0] [3, 0] = false := by
  decide

/-- the qubit `(1,0)` of the 3×4 lattice lies on the vertices `(0,0)`, `(2,0)` and on the faces
    `(1,7)`, `(1,1)` -/
example : (verts 3 4).filter (fun v => inc 3 4 v [1, 0]) = [[0, 0], [2, 0]] ∧
    (faces 3 4).filter (fun f => inc 3 4 f [1, 0]) = [[1, 1], [1, 7]] := by decide

/-- the end-to-end theorem applies: a Y error on qubit 0 and an X error on qubit 7 of the 3×4
    lattice (any schedule) -/
example (sched : Mat → Vec → List (List Int)) :
    ∃ c ev, ufDecode (ufSolveSched sched) (lattice 3 4).rowsH (2 * 3 * 4)
        (measureSyndrome (lattice 3 4).rowsH
          ((List.replicate 48 0).set 0 1 |>.set 24 1 |>.set 7 1)) = .ok (c, ev) ∧
      c.length = 2 * (2 * 3 * 4) :=
  let ⟨_, c, ev, h1, h2, _⟩ := unionfind_toric_reproduces_syndrome 3 4 (by decide) (by decide) sched
    ((List.replicate 48 0).set 0 1 |>.set 24 1 |>.set 7 1) (by decide)
  ⟨c, ev, h1, h2⟩

/-- the all-sizes sector matrices at 3×3 are the matrices written out in `C05UnionFind` -/
example : Hz (lattice 3 3).rowsH = C05UF.hzToric33 := by decide +kernel

example : Hx (lattice 3 3).rowsH = Hx C05UF.toric33 ∧ (lattice 3 3).rowsH = C05UF.toric33 := by
  refine ⟨by decide +kernel, by decide +kernel⟩

/-- sides equal to 2: `(2, 2)`, `(2, 3)`, `(5, 2)` -/
example : graphLike (Hz (lattice 2 3).rowsH) = false :=
  (toric_side_two_not_graphLike 2 3 (by decide) (by decide) (Or.inl rfl)).1
example : graphLike (Hx (lattice 5 2).rowsH) = false :=
  (toric_side_two_not_graphLike 5 2 (by decide) (by decide) (Or.inr rfl)).2
/-- the witness matrix of the former finding is the sector matrix of the 2×2 lattice -/
example : Hz (lattice 2 2).rowsH = C05UF.hzToric22 := by decide +kernel

end Panqec.C05UFToric
