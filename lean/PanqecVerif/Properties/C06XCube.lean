/-
C06 for `XCubeMatchingDecoder`: decoding is a pure function of the syndrome.

Model: `Model/XCubeDecoder.lean`.  All attributes set by `__init__` (the three toric codes, the
three `MatchingDecoder`s, weights, matrices) are immutable in `decode`; the only mutable object
reachable from the decoder is the BP-OSD decoder `self.z_decoder` (lazily initialised ldpc
objects, channel probabilities, result buffers), modelled by the state `BpSt` of
`Model/Decoders.lean` and threaded through the calls.

Proved: after every history of `decode` calls (any syndromes, any lengths, raising calls included,
any lattice size, deformed or not, any solver answers) the value or exception of `decode` is
`pureDecode`, a function of the immutable attributes and the syndrome only; a call whose matching
part raises leaves the BP-OSD decoder untouched.

The caller's syndrome: the model takes the syndrome by value; `maskX` / `restoreX` are the values
of the *copy* `decode` works on (since 6c6d144).  That the real numpy array handed in is left
untouched is compared before/after every call by the harness (tested), and the vector the code
used to write into it differs from the caller's in general (`example` below).
-/
import PanqecVerif.Proofs.XCubeDecValid
import PanqecVerif.Properties.C06

namespace Panqec.C06XCube

open Panqec Panqec.XCube

variable {W : Type}

/-- **History independence.**  For every decoder object, every history `hist` of earlier `decode`
    calls on it and every syndrome `s`, the correction or exception returned for `s` is
    `pureDecode d s`. -/
theorem xcube_history_independent (solve : WSolver W) (S : BpSolver) (castEv : Event Rat → Event W)
    (order : List Int → List Int) (d : XCubeDec W) (hist : List Vec) (s : Vec) :
    (d.decode solve S castEv order (d.run solve S castEv order BpSt.init hist) s).2.val =
      pureDecode solve S order d s :=
  (decode_eq_pure solve S castEv order d _
    (run_good solve S castEv order d hist BpSt.init d.zdec.good_init) s).1

/-- a reused object and a fresh object return the same correction (or raise the same exception) -/
theorem xcube_reused_eq_fresh (solve : WSolver W) (S : BpSolver) (castEv : Event Rat → Event W)
    (order : List Int → List Int) (d : XCubeDec W) (hist : List Vec) (s : Vec) :
    (d.decode solve S castEv order (d.run solve S castEv order BpSt.init hist) s).2.val =
      (d.decode solve S castEv order BpSt.init s).2.val := by
  rw [xcube_history_independent solve S castEv order d hist s,
    ← xcube_history_independent solve S castEv order d [] s]
  rfl

/-- the ldpc objects' buffers and channel probabilities never reach the output: two reachable
    states give the same result -/
theorem xcube_ignores_bposd_buffers (solve : WSolver W) (S : BpSolver) (castEv : Event Rat → Event W)
    (order : List Int → List Int) (d : XCubeDec W) (st st' : BpSt) (h : d.zdec.Good st)
    (h' : d.zdec.Good st') (s : Vec) :
    (d.decode solve S castEv order st s).2.val = (d.decode solve S castEv order st' s).2.val := by
  rw [(decode_eq_pure solve S castEv order d st h s).1, (decode_eq_pure solve S castEv order d st' h' s).1]

/-- a call whose matching part raises (e.g. the `KeyError` of `XCubeDec.old`, former finding D16) does not touch the
    BP-OSD decoder: the object is exactly as before the call -/
theorem xcube_raising_call_leaves_state (solve : WSolver W) (S : BpSolver)
    (castEv : Event Rat → Event W) (order : List Int → List Int) (d : XCubeDec W) (st : BpSt)
    (s : Vec) (e : XErr) (h : (matchingPart solve order d s).val = .error e) :
    (d.decode solve S castEv order st s).1 = st :=
  (decode_matching_error solve S castEv order d st s e h).2

/-- what the matching part sees is the masked copy, what BP-OSD sees is the restored copy; the
    X-row part of the restored copy is the caller's -/
theorem xcube_restored_copy_keeps_x_rows (H : Mat) (s : Vec) :
    extractXSyndrome H (restoreX H s) = extractXSyndrome H s :=
  extractX_restoreX H s

/-! ### non-vacuity / regression -/

/-- the copies differ from the caller's syndrome (writing them into the caller's array was the
    defect fixed in 6c6d144): on the matrix (XX, ZZ) with syndrome (1, 1) -/
example : maskX [[1, 1, 0, 0], [0, 0, 1, 1]] [1, 1] = [0, 1] ∧
    restoreX [[1, 1, 0, 0], [0, 0, 1, 1]] [1, 1] = [1, 0] := by decide

end Panqec.C06XCube
