/-
C02 — the parity-check matrix is the faithful image of the lattice definition.

Property theorems only; helper lemmas are in `Proofs/Code1.lean` (assembly loops),
`Proofs/Code2.lean` (dict ↔ BSF bijection) and `Proofs/Code3.lean` (CSS blocks).
Every statement is for an arbitrary code given as data (`CodeData`: any coordinate
lists, any operators — library code or user-defined), of any size.

Vocabulary of the hypotheses:
* `qs.Nodup`            — qubit coordinates are distinct (then `qubit_index` is the position);
* `KeysNodup op`        — the operator is a Python dict (no coordinate twice);
* `opSupported qs op`   — every key is a qubit coordinate (no `KeyError`);
* `NoIdentity op`       — dict values are 'X', 'Y', 'Z'.
-/
import PanqecVerif.Proofs.Code

namespace Panqec.C02

open Panqec

/-! ### 1–2. the assembly loops compute the specification -/

/-- `to_bsf` as the code writes it (a loop of `bsf[qubit_index[loc]] += 1`) equals the
    count-based specification, including the `KeyError` case (`none`). -/
theorem toBsfFold_eq_spec (qs : List Coord) (op : Op) (hnd : qs.Nodup) :
    toBsfFold qs op = toBsf qs op :=
  toBsfFold_eq_toBsf qs op hnd

/-- One row of `stabilizer_matrix` as the code builds it (accumulate into `sparse_dict`
    with `+= 1` / insert 1, copy into the dok matrix, `data %= 2`) equals the
    specification `to_bsf(op) % 2`, including the `KeyError` case. -/
theorem stabRowFold_eq_spec (qs : List Coord) (op : Op) (hnd : qs.Nodup) :
    stabRowFold qs op = stabRow qs op :=
  stabRowFold_eq_stabRow qs op hnd

/-- the whole matrix: loop version = specification -/
theorem stabilizerMatrixFold_eq_spec (c : CodeData) (hnd : c.qubits.Nodup) :
    stabilizerMatrixFold c = stabilizerMatrix c := by
  unfold stabilizerMatrixFold stabilizerMatrix
  have : stabRowFold c.qubits = stabRow c.qubits := by
    funext op; exact stabRowFold_eq_stabRow c.qubits op hnd
  rw [this]

/-- Row `i` of the parity-check matrix is the BSF image (mod 2) of the operator
    `get_stabilizer(stabilizer_coordinates[i])`. -/
theorem assembly_row_eq (c : CodeData) (H : List (List Nat)) (hnd : c.qubits.Nodup)
    (hH : stabilizerMatrixFold c = some H) (i : Nat) (hi : i < c.stabOps.length) :
    H[i]? = (toBsf c.qubits c.stabOps[i]).map (·.map (· % 2)) := by
  unfold stabilizerMatrixFold at hH
  rw [mapM_some_getElem? _ _ _ hH i hi, stabRowFold_eq_stabRow _ _ hnd]
  rfl

/-- the matrix has one row per stabilizer generator -/
theorem assembly_row_count (c : CodeData) (H : List (List Nat))
    (hH : stabilizerMatrixFold c = some H) : H.length = c.stabOps.length :=
  mapM_some_length _ _ _ hH

/-- The assembly raises `KeyError` exactly when some generator touches a coordinate that is
    not a qubit: the matrix exists iff every support lies inside the qubit set. -/
theorem assembly_succeeds_iff (c : CodeData) (hnd : c.qubits.Nodup) :
    (stabilizerMatrixFold c).isSome = true ↔
      ∀ op ∈ c.stabOps, opSupported c.qubits op = true := by
  unfold stabilizerMatrixFold
  rw [mapM_isSome_iff]
  constructor
  · intro h op hop
    have := h op hop
    rw [stabRowFold_eq_stabRow _ _ hnd] at this
    unfold stabRow toBsf at this
    cases hs : opSupported c.qubits op
    · simp [hs] at this
    · rfl
  · intro h op hop
    rw [stabRowFold_eq_stabRow _ _ hnd]
    unfold stabRow toBsf
    simp [h op hop]

/-! ### 3. rows of dict operators are binary, of length 2n -/

/-- a dict operator has 0/1 entries before any reduction … -/
theorem toBsf_binary (qs : List Coord) (op : Op) (v : List Nat) (hk : KeysNodup op)
    (h : toBsf qs op = some v) : ∀ x ∈ v, x ≤ 1 :=
  toBsf_binary' qs op v hk h

/-- … so the `%= 2` of the assembly changes nothing: the row *is* `to_bsf(op)`. -/
theorem stabRow_eq_toBsf_of_dict (qs : List Coord) (op : Op) (hk : KeysNodup op) :
    stabRow qs op = toBsf qs op :=
  stabRow_eq_toBsf qs op hk

theorem toBsf_length (qs : List Coord) (op : Op) (v : List Nat)
    (h : toBsf qs op = some v) : v.length = 2 * qs.length :=
  toBsf_length' qs op v h

/-- Row `i` of the assembled matrix is exactly `to_bsf(get_stabilizer(loc_i))` when the
    getter returns a dict. -/
theorem assembly_row_eq_of_dict (c : CodeData) (H : List (List Nat)) (hnd : c.qubits.Nodup)
    (hH : stabilizerMatrixFold c = some H) (i : Nat) (hi : i < c.stabOps.length)
    (hk : KeysNodup c.stabOps[i]) :
    H[i]? = toBsf c.qubits c.stabOps[i] := by
  rw [assembly_row_eq c H hnd hH i hi]
  exact stabRow_eq_toBsf c.qubits _ hk

/-! ### 4. no empty row -/

/-- A non-empty operator with letters in X/Y/Z gives a non-zero row.  (Needs neither
    distinct coordinates nor distinct keys.) -/
theorem row_nonempty (qs : List Coord) (op : Op) (v : List Nat) (hI : NoIdentity op)
    (hne : op ≠ []) (h : toBsf qs op = some v) : ∃ x ∈ v, x ≠ 0 :=
  row_nonempty' qs op v hI hne h

/-! ### 5–6. `to_bsf` / `from_bsf` are mutually inverse -/

/-- dict → BSF → dict returns a dict with the same entries (Y included). -/
theorem fromBsf_toBsf (qs : List Coord) (op : Op) (v : List Nat) (hk : KeysNodup op)
    (hI : NoIdentity op) (h : toBsf qs op = some v) :
    ∀ q p, (q, p) ∈ fromBsf qs v ↔ (q, p) ∈ op :=
  mem_fromBsf_toBsf qs op v hk hI h

/-- what `from_bsf` returns is a dict (no coordinate twice), supported on the qubits, with
    letters X/Y/Z — for every input vector. -/
theorem fromBsf_is_dict (qs : List Coord) (v : List Nat) (hnd : qs.Nodup) :
    KeysNodup (fromBsf qs v) ∧ opSupported qs (fromBsf qs v) = true ∧
      NoIdentity (fromBsf qs v) := by
  refine ⟨keysNodup_fromBsf qs v hnd, opSupported_fromBsf qs v, ?_⟩
  rintro ⟨q, p⟩ he
  rw [mem_fromBsf] at he
  obtain ⟨x, z, _, (⟨_, hp⟩ | ⟨_, _, hp⟩)⟩ := he
  · simp only [hp]; split <;> simp
  · simp [hp]

/-- BSF → dict → BSF is the identity on binary vectors of length 2n. -/
theorem toBsf_fromBsf (qs : List Coord) (v : List Nat) (hnd : qs.Nodup)
    (hlen : v.length = 2 * qs.length) (hbin : ∀ x ∈ v, x < 2) :
    toBsf qs (fromBsf qs v) = some v :=
  toBsf_fromBsf' qs v hnd hlen hbin

/-! ### 7. CSS block structure (any matrix `H`, any row lengths) -/

/-- `is_css` holds iff no row has both an X and a Z component. -/
theorem isCss_iff_rows (H : List (List Nat)) :
    isCss H = true ↔
      ∀ r ∈ H, ¬ ((xPart r).any (· ≠ 0) = true ∧ (zPart r).any (· ≠ 0) = true) :=
  isCss_iff H

/-- the X and Z row masks of a CSS matrix are disjoint -/
theorem css_masks_disjoint (H : List (List Nat)) (hcss : isCss H = true) (i : Nat) :
    ¬ ((xIndices H)[i]! = true ∧ (zIndices H)[i]! = true) := by
  rw [xIndices_eq, zIndices_eq, List.getElem!_eq_getElem?_getD, List.getElem!_eq_getElem?_getD,
    List.getElem?_map, List.getElem?_map]
  by_cases hi : i < H.length
  · rw [List.getElem?_eq_getElem hi]
    exact (isCss_iff H).mp hcss H[i] (List.getElem_mem hi)
  · rw [List.getElem?_eq_none (by omega)]
    simp

/-- if moreover no row is zero, every row is flagged by exactly one of the two masks:
    the masks partition the rows -/
theorem css_partition (H : List (List Nat)) (hcss : isCss H = true)
    (hnz : ∀ r ∈ H, ∃ x ∈ r, x ≠ 0) (i : Nat) (hi : i < H.length) :
    (xIndices H)[i]! = !(zIndices H)[i]! := by
  have hdis := css_masks_disjoint H hcss i
  have hcov : (xIndices H)[i]! = true ∨ (zIndices H)[i]! = true := by
    rw [xIndices_eq, zIndices_eq, List.getElem!_eq_getElem?_getD,
      List.getElem!_eq_getElem?_getD, List.getElem?_map, List.getElem?_map,
      List.getElem?_eq_getElem hi]
    exact flag_of_nonzero H[i] (hnz _ (List.getElem_mem hi))
  cases hx : (xIndices H)[i]! <;> cases hz : (zIndices H)[i]! <;> simp_all

/-- an X-flagged row of a CSS matrix has zero Z block: its symplectic product with an
    error is `x_row · e_Z (mod 2)` -/
theorem x_row_sees_only_z_part (H : List (List Nat)) (hcss : isCss H = true)
    (r : List Nat) (hr : r ∈ H) (hx : (xPart r).any (· ≠ 0) = true) (e : List Nat) :
    symp r e = dot (xPart r) (zPart e) % 2 := by
  apply symp_of_zFlag_false
  cases hz : zFlag r
  · rfl
  · exact ((isCss_iff H).mp hcss r hr ⟨hx, hz⟩).elim

/-- `extract_x_syndrome(measure_syndrome(e)) = Hx · e_Z (mod 2)`: `Hx` is exactly the block
    that produces the X part of the syndrome -/
theorem x_syndrome_eq_Hx_mul (H : List (List Nat)) (e : List Nat) (hcss : isCss H = true) :
    extractXSyndrome H (measureSyndrome H e) = (Hx H).map (fun h => dot h (zPart e) % 2) :=
  extractX_eq_Hx_mul H e hcss

/-- `extract_z_syndrome(measure_syndrome(e)) = Hz · e_X (mod 2)` -/
theorem z_syndrome_eq_Hz_mul (H : List (List Nat)) (e : List Nat) (hcss : isCss H = true) :
    extractZSyndrome H (measureSyndrome H e) = (Hz H).map (fun h => dot h (xPart e) % 2) :=
  extractZ_eq_Hz_mul H e hcss

/-- the X part of the syndrome depends only on the Z part of the error -/
theorem x_syndrome_depends_only_on_z_part (H : List (List Nat)) (e₁ e₂ : List Nat)
    (hcss : isCss H = true) (hz : zPart e₁ = zPart e₂) :
    extractXSyndrome H (measureSyndrome H e₁) = extractXSyndrome H (measureSyndrome H e₂) := by
  rw [extractX_eq_Hx_mul H e₁ hcss, extractX_eq_Hx_mul H e₂ hcss, hz]

/-- the Z part of the syndrome depends only on the X part of the error -/
theorem z_syndrome_depends_only_on_x_part (H : List (List Nat)) (e₁ e₂ : List Nat)
    (hcss : isCss H = true) (hx : xPart e₁ = xPart e₂) :
    extractZSyndrome H (measureSyndrome H e₁) = extractZSyndrome H (measureSyndrome H e₂) := by
  rw [extractZ_eq_Hz_mul H e₁ hcss, extractZ_eq_Hz_mul H e₂ hcss, hx]

/-! ### non-vacuity: the [[4,2,2]] code on a 2×2 patch, and a Y-carrying user code -/

/-- [[4,2,2]]: qubits at the corners of a square, one X-type and one Z-type generator -/
def c422 : CodeData where
  qubits := [[0, 0], [0, 1], [1, 0], [1, 1]]
  stabs := [[2, 0], [2, 1]]
  stabOps := [[([0, 0], .X), ([0, 1], .X), ([1, 0], .X), ([1, 1], .X)],
              [([1, 1], .Z), ([1, 0], .Z), ([0, 1], .Z), ([0, 0], .Z)]]
  logX := [[([0, 0], .X), ([0, 1], .X)], [([0, 0], .X), ([1, 0], .X)]]
  logZ := [[([0, 0], .Z), ([1, 0], .Z)], [([0, 0], .Z), ([0, 1], .Z)]]

def H422 : List (List Nat) := [[1, 1, 1, 1, 0, 0, 0, 0], [0, 0, 0, 0, 1, 1, 1, 1]]

example : c422.qubits.Nodup := by decide
example : ∀ op ∈ c422.stabOps, KeysNodup op ∧ NoIdentity op ∧ opSupported c422.qubits op = true := by
  unfold KeysNodup NoIdentity; decide
example : stabilizerMatrixFold c422 = some H422 := by decide
example : stabilizerMatrix c422 = some H422 := by decide
example : isCss H422 = true := by decide
example : ∀ r ∈ H422, ∃ x ∈ r, x ≠ 0 := by decide
example : xIndices H422 = [true, false] ∧ zIndices H422 = [false, true] := by decide
example : Hx H422 = [[1, 1, 1, 1]] ∧ Hz H422 = [[1, 1, 1, 1]] := by decide

/-- a user-defined code with 3-dimensional coordinates and mixed X/Y/Z generators -/
def cUser : CodeData where
  qubits := [[0, 0, 1], [-1, 2, 0], [3, 0, 0]]
  stabs := [[0, 0, 0], [1, 1, 1]]
  stabOps := [[([3, 0, 0], .Y), ([0, 0, 1], .X), ([-1, 2, 0], .Z)],
              [([-1, 2, 0], .Y), ([3, 0, 0], .Y)]]
  logX := []
  logZ := []

example : cUser.qubits.Nodup := by decide
example : stabilizerMatrixFold cUser = some [[1, 0, 1, 0, 1, 1], [0, 1, 1, 0, 1, 1]] := by decide
example : isCss [[1, 0, 1, 0, 1, 1], [0, 1, 1, 0, 1, 1]] = false := by decide
/-- `from_bsf` re-orders the dict (X block first, then Z-only positions) but keeps the entries -/
example : fromBsf cUser.qubits [1, 0, 1, 0, 1, 1] =
    [([0, 0, 1], .X), ([3, 0, 0], .Y), ([-1, 2, 0], .Z)] := by decide
example : toBsf cUser.qubits (fromBsf cUser.qubits [1, 0, 1, 0, 1, 1]) =
    some [1, 0, 1, 0, 1, 1] := by decide

/-- the `KeyError` case: an operator touching a coordinate that is not a qubit -/
example : stabRowFold cUser.qubits [([0, 0, 1], .X), ([9, 9, 9], .Z)] = none ∧
    stabRow cUser.qubits [([0, 0, 1], .X), ([9, 9, 9], .Z)] = none := by decide

/-- why `KeysNodup` matters (a list with a repeated key is not a dict): the raw increments
    give 2 and the row is reduced mod 2, which the loop and the specification agree on -/
example : toBsfFold cUser.qubits [([0, 0, 1], .X), ([0, 0, 1], .Y)] = some [2, 0, 0, 1, 0, 0] ∧
    stabRowFold cUser.qubits [([0, 0, 1], .X), ([0, 0, 1], .Y)] = some [0, 0, 0, 1, 0, 0] := by
  decide

/-- why `qs.Nodup` matters: with a repeated qubit coordinate the index lookup hits a single
    copy (the model's `qubitIndex?` takes the first one, Python's dict comprehension keeps the
    last), while the count-based specification fills both columns -/
example : toBsfFold [[0], [0]] [([0], .X)] = some [1, 0, 0, 0] ∧
    toBsf [[0], [0]] [([0], .X)] = some [1, 1, 0, 0] := by decide

end Panqec.C02
