import Driver.Common
import Driver.OpsMask
import PanqecVerif.Model.Dist
open Panqec

/-! ops for `Model/Dist.lean`: native evaluation of the proved-sound distance-certificate
    checker (C17).

    `checkdistance n k d stabs logX logZ cert` with `cert` = `E` (exhaustive enumeration below
    `d`), `C` (the same restricted to pure X / pure Z operators, CSS codes only) or `P:c1,c2,…` (packing: `d` selection masks per listed logical, concatenated);
    answer `<reportedDistanceFast> <checkDistance>` as 0/1. -/
namespace Drv

def parseDistCert (s : String) : Option DistCert :=
  if s == "E" then some .exhaustive
  else if s == "C" then some .exhaustiveCSS
  else if s.startsWith "P:" then some (.packing (parseNats (s.drop 2).toString))
  else none

def handleDist : List String → Option String
  | ["checkdistance", n, k, d, stabs, lx, lz, cert] =>
    let c : MaskCode := { n := n.toNat!, k := k.toNat!, d := d.toNat!,
                          stabs := parseNats stabs, logX := parseNats lx, logZ := parseNats lz }
    match parseDistCert cert with
    | none => some "ERR cert"
    | some dc =>
      some s!"{if reportedDistanceFast c then 1 else 0} {if checkDistance c dc then 1 else 0}"
  | _ => none

end Drv
