import Driver.ColorCommon
import PanqecVerif.Model.Lattices.Color666PlanarCode
open Panqec

/-! `lat Color666PlanarCode <Lx> <Ly> qubits|stabs|stab <coord>|logx|logz|axis <coord>|
    type <coord>|deform <name> <coord>|hmat|lxmat|lzmat|rankfamily|n|k` -/
namespace Drv

def color666PlanarCodeModel (Lx Ly : Nat) : ColorModel where
  lat := fun _ => Color666PlanarCode.lattice Lx Ly
  getStabilizer? := Color666PlanarCode.getStabilizer? Lx Ly
  stabilizerType := Color666PlanarCode.stabilizerType Lx Ly
  qubitAxis := Color666PlanarCode.qubitAxis
  getDeformation := Color666PlanarCode.getDeformation
  -- the family of `C01Color666PlanarCode.generators_independent` is `(lattice Lx Ly).stabs`, i.e. this list
  rankFamily := fun _ => some (Color666PlanarCode.stabs Lx Ly)

def handleLatColor666PlanarCode : List String → Option String
  | "lat" :: "Color666PlanarCode" :: lx :: ly :: rest =>
    match lx.toNat?, ly.toNat? with
    | some Lx, some Ly => colorAnswer (color666PlanarCodeModel Lx Ly) rest
    | _, _ => none
  | _ => none

end Drv
